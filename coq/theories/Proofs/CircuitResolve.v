(** C09: substitute / resolve_tlib_cells under well-formed use, and witnesses that every extra hypothesis is needed. *)
From Coq Require Import List Arith Bool String Lia.
From KV Require Import Model.Circuit Model.CircuitInv Model.CircuitCorr Proofs.CircuitBase Proofs.CircuitProofs Proofs.CircuitBool
     Proofs.CircuitDangling Proofs.CircuitSubstInv.
Import ListNotations.
Local Open Scope list_scope.

Theorem substitute_inv_gen : forall c n impl, CInv c -> pre c (Substitute n impl) = true ->
  exists c', substitute c n impl = Some c' /\ CInv c' /\ (IoLive c -> IoLive c').
Proof.
  intros c n impl HI Hp. cbn [pre] in Hp. unfold subst_pre_b in Hp. rewrite !andb_true_iff in Hp.
  destruct Hp as [[[[[[P1 P2] P3] P4] P5] P6] P7].
  destruct (substitute c n impl) as [c'|] eqn:E; [|discriminate]. exists c'. split; auto.
  assert (G : CInv c' /\ (IoLive c -> IoLive c') /\ (forall x, x <> n -> Known c x -> Known c' x)); [|tauto].
  apply (substitute_core c n impl c'); auto.
  - apply mem_In; auto.
  - apply negb_true_iff; auto.
  - apply negb_true_iff; auto.
  - apply cinv_b_sound; auto.
  - apply io_live_of_ok; auto.
Qed.

Theorem substitute_inv : forall c n impl, CInv c -> IoLive c -> pre c (Substitute n impl) = true ->
  exists c', substitute c n impl = Some c' /\ CInv c' /\ IoLive c'.
Proof.
  intros c n impl HI HL Hp. destruct (substitute_inv_gen c n impl HI Hp) as [c' [A [B C]]]. exists c'. auto.
Qed.

Lemma tlib_get_in : forall t k impl, tlib_get k t = Some impl -> exists k', In (k', impl) t.
Proof.
  induction t as [|[k' v] t IH]; intros k impl H; simpl in H. discriminate.
  destruct (String.eqb k k'). inv H. exists k'. left; auto.
  destruct (IH _ _ H) as [k2 Hk]. exists k2. right; auto.
Qed.

(* the loop over the node snapshot: a snapshot node is either still listed or removed AND disconnected ([Known]); the test
   `n.circuit is not None` therefore selects exactly the listed ones, and substitute keeps the other snapshot nodes [Known] *)
Lemma resolve_from_inv : forall t ns c, CInv c -> NoDup ns -> (forall x, In x ns -> Known c x) ->
  forallb (fun kv => cinv_b (snd kv) && io_ok_b (snd kv)) t = true ->
  resolve_pre_from t ns c = true ->
  exists c', fold_opt (resolve_one t) ns c = Some c' /\ CInv c' /\ (IoLive c -> IoLive c').
Proof.
  induction ns as [|n ns IH]; intros c HI Hnd HK Ht Hp; cbn [fold_opt resolve_pre_from] in *.
  - exists c. auto.
  - inv Hnd. unfold resolve_one at 1. destruct (n_alive (nst c n)) eqn:Ea.
    + assert (Hn : In n (nodes c)).
      { destruct (HK n (or_introl eq_refl)) as [A|[_ [A _]]]; auto. congruence. }
      unfold resolve_one_old. destruct (tlib_get (kind_of c n) t) as [impl|] eqn:Et.
      * apply andb_true_iff in Hp. destruct Hp as [P1 P2].
        unfold subst_visit_b in P1. rewrite !andb_true_iff in P1. destruct P1 as [[[Q1 Q2] Q3] Q4].
        destruct (tlib_get_in _ _ _ Et) as [k' Hin]. pose proof Ht as Ht'. rewrite forallb_forall in Ht'. specialize (Ht' _ Hin). simpl in Ht'.
        apply andb_true_iff in Ht'. destruct Ht' as [T1 T2].
        destruct (substitute c n impl) as [c1|] eqn:E; [|discriminate].
        destruct (substitute_core c n impl c1 HI Hn) as [HI1 [HL1 HK1]]; auto.
        { apply negb_true_iff; auto. } { apply negb_true_iff; auto. } { apply cinv_b_sound; auto. } { apply io_live_of_ok; auto. }
        destruct (IH c1 HI1 H2) as [c' [A [B C]]]; auto.
        { intros x Hx. apply HK1. intros ->. auto. apply HK. right; auto. }
        exists c'. auto.
      * apply IH; auto. intros x Hx. apply HK. right; auto.
    + apply IH; auto. intros x Hx. apply HK. right; auto.
Qed.

Theorem resolve_inv_gen : forall c t, CInv c -> pre c (ResolveTlib t) = true ->
  exists c', resolve_tlib c t = Some c' /\ CInv c' /\ (IoLive c -> IoLive c').
Proof.
  intros c t HI Hp. cbn [pre] in Hp. unfold resolve_pre_b in Hp. rewrite !andb_true_iff in Hp. destruct Hp as [[P0 _] P].
  unfold resolve_tlib. apply resolve_from_inv; auto.
  - apply (nidx_nodup [] c (proj1 HI)).
  - intros x Hx. left; auto.
Qed.

Theorem resolve_inv : forall c t, CInv c -> IoLive c -> pre c (ResolveTlib t) = true ->
  exists c', resolve_tlib c t = Some c' /\ CInv c' /\ IoLive c'.
Proof.
  intros c t HI HL Hp. destruct (resolve_inv_gen c t HI Hp) as [c' [A [B C]]]. exists c'. auto.
Qed.

(** ** executable refutations of single conjuncts of the invariant *)
Lemma not_cells : forall c, existsb (fun kv => is_fork (kind_of c (snd kv))) (cells c) = true -> ~ CInv c.
Proof.
  intros c H [HC _]. apply existsb_exists in H. destruct H as [[s n] [Hin Hk]]. simpl in Hk.
  apply (cc_cells [] c HC) in Hin. destruct Hin as [_ [A _]]. congruence.
Qed.
Lemma oeq_refl : forall a, oeq a a = true.
Proof. intros [x|]; simpl; auto. apply Nat.eqb_refl. Qed.
Lemma not_line : forall c, existsb (fun l => negb (line_ok_b c l)) (lines c) = true -> ~ CInv c.
Proof.
  intros c H [HC _]. apply existsb_exists in H. destruct H as [l [Hin Hk]]. apply negb_true_iff in Hk.
  destruct (cc_line [] c HC l Hin) as [d [r [H1 [H2 [[H3|[]] [[H4|[]] [H5 H6]]]]]]].
  unfold line_ok_b in Hk. rewrite H1, H2, H5, H6 in Hk. rewrite !oeq_refl in Hk.
  apply mem_In in H3. apply mem_In in H4. rewrite H3, H4 in Hk. discriminate.
Qed.
Lemma not_dense : forall c, existsb (fun n => negb (fork_dense_b c n)) (nodes c) = true -> ~ CInv c.
Proof.
  intros c H [_ HD]. apply existsb_exists in H. destruct H as [n [Hin Hk]]. apply negb_true_iff in Hk.
  unfold fork_dense_b in Hk. destruct (is_fork (kind_of c n)) eqn:Hf; [|discriminate].
  assert (E : exists e, In e (outs_of c n) /\ is_none e = true).
  { clear -Hk. induction (outs_of c n) as [|e r IH]; simpl in Hk. discriminate.
    destruct (is_none e) eqn:Ee; simpl in Hk. exists e. split; auto. left; auto.
    destruct (IH Hk) as [e' [A B]]. exists e'. split; auto. right; auto. }
  destruct E as [e [He Hn]]. apply is_none_true in Hn. subst e. apply In_nth_opt in He. destruct He as [p [Hp Hq]].
  apply (HD n (or_introl Hin) Hf p Hp). exact Hq.
Qed.

(** ** the extra hypotheses are needed: witnesses (each one reproduced on the real code) *)
Local Open Scope string_scope.
Definition host_of (ops : list op) : circ := match run_hist ops with Some c => c | None => empty end.

(* an instance "u" of kind X with one connected input and output pins 0 and 1 connected *)
Definition host_1_2 : circ :=
  host_of [ AddNode "u" "X"; AddNode "i0" FORK; AddLine 1 None 0 (Some 0);
            AddNode "o0" FORK; AddLine 0 (Some 0) 2 None; AddNode "o1" FORK; AddLine 0 (Some 1) 3 None ].
(* ... with only output pin 0 connected *)
Definition host_1_1 : circ :=
  host_of [ AddNode "u" "X"; AddNode "i0" FORK; AddLine 1 None 0 (Some 0); AddNode "o0" FORK; AddLine 0 (Some 0) 2 None ].

(* the statement of substitute_inv without the shape conjunct [which] (a function of the other three) *)
Definition pre_without (c : circ) (n : nat) (impl : circ) : bool :=
  mem n (nodes c) && negb (is_fork (kind_of c n)) && negb (io_mem c n) && cinv_b impl && io_ok_b impl.

(* 1. a port listed twice:  io_nodes = [A, Y, Y],  Y = BUF1(A) *)
Definition impl_dup : circ :=
  circ_of_tables (NRC (NR "A" "__fork__" 0 ON (OC (So 0) ON)) (NRC (NR "G" "BUF1" 1 (OC (So 0) ON) (OC (So 1) ON)) (NRC (NR "Y" "__fork__" 2 (OC (So 1) ON) ON) NRN)))
                 (LRC (LR 0 (So 0) 0 (So 1) 0) (LRC (LR 1 (So 1) 0 (So 2) 0) LRN)) (OC (So 0) (OC (So 2) (OC (So 2) ON))).
(* 2. a port that is not a fork: cell A of kind "input" drives pins 0 and 2 (pin 1 open) of an AND2 *)
Definition impl_cellport : circ :=
  circ_of_tables (NRC (NR "A" "input" 0 ON (OC (So 0) (OC No (OC (So 1) ON)))) (NRC (NR "G" "AND2" 1 (OC (So 0) (OC (So 1) ON)) (OC (So 2) ON)) (NRC (NR "Y" "__fork__" 2 (OC (So 2) ON) ON) NRN)))
                 (LRC (LR 0 (So 0) 0 (So 1) 0) (LRC (LR 1 (So 0) 2 (So 1) 1) (LRC (LR 2 (So 1) 0 (So 2) 0) LRN))) (OC (So 0) (OC (So 2) ON)).
(* 3. the designated cell is a port: input fork A drives output fork Y, which is read by Z = BUF1(Y) *)
Definition impl_desig_port : circ :=
  circ_of_tables (NRC (NR "A" "__fork__" 0 ON (OC (So 0) ON)) (NRC (NR "Y" "__fork__" 1 (OC (So 0) ON) (OC (So 1) ON)) (NRC (NR "G" "BUF1" 2 (OC (So 1) ON) (OC (So 2) ON)) (NRC (NR "Z" "__fork__" 3 (OC (So 2) ON) ON) NRN))))
                 (LRC (LR 0 (So 0) 0 (So 1) 0) (LRC (LR 1 (So 1) 0 (So 2) 0) (LRC (LR 2 (So 2) 0 (So 3) 0) LRN))) (OC (So 0) (OC (So 1) (OC (So 3) ON))).
(* 4. a fork drives a pure output port: N = fork behind G = BUF1(A), N drives port Y2 (pin 0) and H = INV1 (pin 1), Y1 = H *)
Definition impl_fork_out : circ :=
  circ_of_tables (NRC (NR "A" "__fork__" 0 ON (OC (So 0) ON)) (NRC (NR "G" "BUF1" 1 (OC (So 0) ON) (OC (So 1) ON)) (NRC (NR "N" "__fork__" 2 (OC (So 1) ON) (OC (So 2) (OC (So 3) ON))) (NRC (NR "Y2" "__fork__" 3 (OC (So 2) ON) ON) (NRC (NR "H" "INV1" 4 (OC (So 3) ON) (OC (So 4) ON)) (NRC (NR "Y1" "__fork__" 5 (OC (So 4) ON) ON) NRN))))))
                 (LRC (LR 0 (So 0) 0 (So 1) 0) (LRC (LR 1 (So 1) 0 (So 2) 0) (LRC (LR 2 (So 2) 0 (So 3) 0) (LRC (LR 3 (So 2) 1 (So 4) 0) (LRC (LR 4 (So 4) 0 (So 5) 0) LRN))))) (OC (So 0) (OC (So 5) (OC (So 3) ON))).

Definition shape4 (impl : circ) : bool * bool * bool * bool :=
  (nodupb (somes (io impl)), io_forks_b impl,
   match impl_desig impl with Some (Some dc) => negb (in_ios impl dc) | _ => true end, out_drivers_b impl).

Lemma host_1_2_inv : CInv host_1_2 /\ IoLive host_1_2.
Proof. split. apply cinv_b_sound. vm_compute. reflexivity. apply io_live_of_ok. vm_compute. reflexivity. Qed.
Lemma host_1_1_inv : CInv host_1_1 /\ IoLive host_1_1.
Proof. split. apply cinv_b_sound. vm_compute. reflexivity. apply io_live_of_ok. vm_compute. reflexivity. Qed.

Definition refutes (c : circ) (n : nat) (impl : circ) (chk : circ -> bool) : bool :=
  match substitute c n impl with Some c' => chk c' | None => false end.
Lemma refutes_sound : forall c n impl chk, (forall c', chk c' = true -> ~ CInv c') -> refutes c n impl chk = true ->
  exists c', substitute c n impl = Some c' /\ ~ CInv c'.
Proof.
  intros c n impl chk Hc H. unfold refutes in H. destruct (substitute c n impl) as [c'|]; [|discriminate]. exists c'. auto.
Qed.

(* without "no port listed twice": the second connection of Y overwrites the first *)
Theorem subst_dup_port_refuted :
  CInv host_1_2 /\ IoLive host_1_2 /\ pre_without host_1_2 0 impl_dup = true /\ shape4 impl_dup = (false, true, true, true) /\
  exists c', substitute host_1_2 0 impl_dup = Some c' /\ ~ CInv c'.
Proof.
  split. apply host_1_2_inv. split. apply host_1_2_inv. split. vm_compute; reflexivity. split. vm_compute; reflexivity.
  apply (refutes_sound _ _ _ (fun c => existsb (fun l => negb (line_ok_b c l)) (lines c))). apply not_line. vm_compute. reflexivity.
Qed.
(* without "ports are forks": the fork made for the port cell inherits the gap of the cell's outputs *)
Theorem subst_cell_port_refuted :
  CInv host_1_1 /\ IoLive host_1_1 /\ pre_without host_1_1 0 impl_cellport = true /\ shape4 impl_cellport = (true, false, true, true) /\
  exists c', substitute host_1_1 0 impl_cellport = Some c' /\ ~ CInv c'.
Proof.
  split. apply host_1_1_inv. split. apply host_1_1_inv. split. vm_compute; reflexivity. split. vm_compute; reflexivity.
  apply (refutes_sound _ _ _ (fun c => existsb (fun n => negb (fork_dense_b c n)) (nodes c))). apply not_dense. vm_compute. reflexivity.
Qed.
(* without "the designated cell is not a port": the instance becomes a '__fork__' that is still registered in Circuit.cells *)
Theorem subst_designated_port_refuted :
  CInv host_1_2 /\ IoLive host_1_2 /\ pre_without host_1_2 0 impl_desig_port = true /\ shape4 impl_desig_port = (true, true, false, true) /\
  exists c', substitute host_1_2 0 impl_desig_port = Some c' /\ ~ CInv c'.
Proof.
  split. apply host_1_2_inv. split. apply host_1_2_inv. split. vm_compute; reflexivity. split. vm_compute; reflexivity.
  apply (refutes_sound _ _ _ (fun c => existsb (fun kv => is_fork (kind_of c (snd kv))) (cells c))). apply not_cells. vm_compute. reflexivity.
Qed.
(* without "no fork drives a pure output port": with that output unconnected the copied fork keeps a gap *)
Theorem subst_fork_output_refuted :
  CInv host_1_1 /\ IoLive host_1_1 /\ pre_without host_1_1 0 impl_fork_out = true /\ shape4 impl_fork_out = (true, true, true, false) /\
  exists c', substitute host_1_1 0 impl_fork_out = Some c' /\ ~ CInv c'.
Proof.
  split. apply host_1_1_inv. split. apply host_1_1_inv. split. vm_compute; reflexivity. split. vm_compute; reflexivity.
  apply (refutes_sound _ _ _ (fun c => existsb (fun n => negb (fork_dense_b c n)) (nodes c))). apply not_dense. vm_compute. reflexivity.
Qed.

(** The code before commit 11c77ac ([resolve_tlib_old]) visited a node that an earlier substitution's clean-up had removed: u2 (CELLB)
    drives only u1 (CELLA), whose output is unconnected; u1 is visited first and its clean-up removes u1, the line and u2; then the
    REMOVED u2 was substituted.  The code ([resolve_tlib]) skips it. *)
Definition impl_buf : circ :=
  circ_of_tables (NRC (NR "A" "__fork__" 0 ON (OC (So 1) ON)) (NRC (NR "Y" "__fork__" 1 (OC (So 0) ON) ON) (NRC (NR "Y" "BUF1" 2 (OC (So 1) ON) (OC (So 0) ON)) NRN)))
                 (LRC (LR 0 (So 2) 0 (So 1) 0) (LRC (LR 1 (So 0) 0 (So 2) 0) LRN)) (OC (So 0) (OC (So 1) ON)).
Definition impl_buf_dead : circ :=
  circ_of_tables (NRC (NR "A" "__fork__" 0 ON (OC (So 1) ON)) (NRC (NR "Y" "__fork__" 1 (OC (So 0) ON) (OC (So 3) ON)) (NRC (NR "Y" "BUF1" 2 (OC (So 1) ON) (OC (So 0) ON)) (NRC (NR "D" "INV1" 3 (OC (So 3) ON) (OC (So 2) ON)) (NRC (NR "D" "__fork__" 4 (OC (So 2) ON) ON) NRN)))))
                 (LRC (LR 0 (So 2) 0 (So 1) 0) (LRC (LR 1 (So 0) 0 (So 2) 0) (LRC (LR 2 (So 3) 0 (So 4) 0) (LRC (LR 3 (So 1) 0 (So 3) 0) LRN)))) (OC (So 0) (OC (So 1) ON)).
Definition host_chain : circ :=
  host_of [ AddNode "u1" "CELLA"; AddNode "u2" "CELLB"; AddNode "i0" FORK; AddLine 2 None 1 (Some 0); AddLine 1 (Some 0) 0 (Some 0); SetIO 0 2 ].
Definition tlib_chain : list (string * circ) := [("CELLA", impl_buf); ("CELLB", impl_buf_dead)].

Theorem resolve_removed_instance_refuted :
  CInv host_chain /\ IoLive host_chain /\
  forallb (fun kv => cinv_b (snd kv) && io_ok_b (snd kv) && subst_shape_b (snd kv)) tlib_chain = true /\
  forallb (fun n => match tlib_get (kind_of host_chain n) tlib_chain with Some impl => subst_pre_b host_chain n impl | None => true end)
          (nodes host_chain) = true /\
  exists c', resolve_tlib_old host_chain tlib_chain = Some c' /\ ~ CInv c'.
Proof.
  split. apply cinv_b_sound. vm_compute. reflexivity. split. apply io_live_of_ok. vm_compute. reflexivity.
  split. vm_compute; reflexivity. split. vm_compute; reflexivity.
  assert (E : match resolve_tlib_old host_chain tlib_chain with
              | Some c' => existsb (fun l => negb (line_ok_b c' l)) (lines c') | None => false end = true) by (vm_compute; reflexivity).
  destruct (resolve_tlib_old host_chain tlib_chain) as [c'|]; [|discriminate]. exists c'. split; auto. apply not_line; auto.
Qed.

(* the code is consistent on the same input: the call is well-formed use, and everything below the unconnected output is gone *)
Theorem resolve_removed_instance_ok :
  pre host_chain (ResolveTlib tlib_chain) = true /\
  option_map (fun c' => (map (name_of c') (nodes c'), List.length (lines c'))) (resolve_tlib host_chain tlib_chain) = Some (["i0"], 0) /\
  exists c', resolve_tlib host_chain tlib_chain = Some c' /\ CInv c' /\ IoLive c'.
Proof.
  assert (P : pre host_chain (ResolveTlib tlib_chain) = true) by (vm_compute; reflexivity).
  split. exact P. split. vm_compute; reflexivity.
  apply resolve_inv; auto. apply cinv_b_sound. vm_compute. reflexivity. apply io_live_of_ok. vm_compute. reflexivity.
Qed.

(** ** the hypotheses are satisfiable: a two-output implementation whose first output is read internally
    (input(A,B) output(Y,Z) Y=AND2(A,B) Z=INV1(Y), after eliminate_1to1_forks), instance with output Z unconnected:
    the deferred clean-up removes the inverter *)
Definition impl_two : circ :=
  circ_of_tables (NRC (NR "A" "__fork__" 0 ON (OC (So 1) ON)) (NRC (NR "B" "__fork__" 1 ON (OC (So 2) ON)) (NRC (NR "Y" "__fork__" 2 (OC (So 0) ON) (OC (So 4) ON)) (NRC (NR "Z" "__fork__" 3 (OC (So 3) ON) ON) (NRC (NR "Y" "AND2" 4 (OC (So 1) (OC (So 2) ON)) (OC (So 0) ON)) (NRC (NR "Z" "INV1" 5 (OC (So 4) ON) (OC (So 3) ON)) NRN))))))
                 (LRC (LR 0 (So 4) 0 (So 2) 0) (LRC (LR 1 (So 0) 0 (So 4) 0) (LRC (LR 2 (So 1) 0 (So 4) 1) (LRC (LR 3 (So 5) 0 (So 3) 0) (LRC (LR 4 (So 2) 0 (So 5) 0) LRN))))) (OC (So 0) (OC (So 1) (OC (So 2) (OC (So 3) ON)))).
Definition host_two : circ :=
  host_of [ AddNode "u" "CELLA"; AddNode "a" FORK; AddNode "b" FORK; AddLine 1 None 0 (Some 0); AddLine 2 None 0 (Some 1);
            AddNode "y" FORK; AddLine 0 (Some 0) 3 None; AddNode "r" "BUF1"; AddLine 3 None 4 None; SetIO 0 1; SetIO 1 2 ].

Example substitute_example :
  CInv host_two /\ IoLive host_two /\ pre host_two (Substitute 0 impl_two) = true /\
  option_map (fun c' => (map (fun n => (name_of c' n, kind_of c' n)) (nodes c'), List.length (lines c')))
             (substitute host_two 0 impl_two)
  = Some ([("u", "AND2"); ("a", FORK); ("b", FORK); ("y", FORK); ("r", "BUF1"); ("u~Y", FORK)], 5).
Proof.
  split. apply cinv_b_sound. vm_compute. reflexivity. split. apply io_live_of_ok. vm_compute. reflexivity.
  split; vm_compute; reflexivity.
Qed.
Example resolve_example :
  pre host_two (ResolveTlib [("CELLA", impl_two); ("BUF1", impl_buf)]) = true /\
  exists c', resolve_tlib host_two [("CELLA", impl_two); ("BUF1", impl_buf)] = Some c' /\ CInv c' /\ IoLive c'.
Proof.
  assert (P : pre host_two (ResolveTlib [("CELLA", impl_two); ("BUF1", impl_buf)]) = true) by (vm_compute; reflexivity).
  split. exact P. apply resolve_inv; auto. apply cinv_b_sound. vm_compute. reflexivity. apply io_live_of_ok. vm_compute. reflexivity.
Qed.
