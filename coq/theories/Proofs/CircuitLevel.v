(** Circuit-level consequences of the per-primitive theorems, for ANY op list and ANY stimulus
    (logical-relations lemma): X-soundness, 8v -> 2v projection, Boolean restriction. *)
From Coq Require Import List NArith Bool Arith Lia String.
From KV Require Import Model.Bits Model.Logic Model.Prims Model.OpSem Proofs.OpSemProofs Proofs.Dispatch
     Gen.SimTables.
Import ListNotations.

(** a 0/1 result of multi-valued simulation is never contradicted by any 0/1 completion *)
Theorem x_sound_circuit ops (e : env code) (e' : env bool) :
  (forall k, completes (e k) (e' k) = true) ->
  forall k, completes (exec_ops spec_prim ops e k) (exec_ops prim_fn ops e' k) = true.
Proof.
  intro He. apply (logrel (fun c b => completes c b = true) spec_prim prim_fn); [|exact He].
  intros p a b c d a' b' c' d'. apply x_sound_op.
Qed.

Corollary x_sound_value ops e e' k v :
  (forall j, completes (e j) (e' j) = true) ->
  exec_ops spec_prim ops e k = code_of_bool v -> exec_ops prim_fn ops e' k = v.
Proof.
  intros He Hv. pose proof (x_sound_circuit ops e e' He k) as H. rewrite Hv in H.
  destruct v; cbn in H; [exact H | destruct (exec_ops prim_fn ops e' k); [discriminate|reflexivity]].
Qed.

(** on known stimuli the initial / final planes are the 2-valued simulations of the stimulus' planes *)
Theorem proj8_circuit ops (e : env code) :
  (forall k, known (e k) = true) ->
  forall k, known (exec_ops spec_prim ops e k) = true /\
            fin (exec_ops spec_prim ops e k) = exec_ops prim_fn ops (fun j => fin (e j)) k /\
            ini (exec_ops spec_prim ops e k) = exec_ops prim_fn ops (fun j => ini (e j)) k.
Proof.
  intros He k.
  pose proof (logrel (fun c b => known c = true /\ fin c = b) spec_prim prim_fn) as Lf.
  pose proof (logrel (fun c b => known c = true /\ ini c = b) spec_prim prim_fn) as Li.
  assert (Hf : known (exec_ops spec_prim ops e k) = true /\ fin (exec_ops spec_prim ops e k) = exec_ops prim_fn ops (fun j => fin (e j)) k).
  { apply Lf; [|intro j; split; [apply He | reflexivity]].
    intros p a b c d a' b' c' d' [Ka Ea] [Kb Eb] [Kc Ec] [Kd Ed]. subst.
    destruct (proj8_op p a b c d Ka Kb Kc Kd) as [K [F _]]. split; assumption. }
  assert (Hi : known (exec_ops spec_prim ops e k) = true /\ ini (exec_ops spec_prim ops e k) = exec_ops prim_fn ops (fun j => ini (e j)) k).
  { apply Li; [|intro j; split; [apply He | reflexivity]].
    intros p a b c d a' b' c' d' [Ka Ea] [Kb Eb] [Kc Ec] [Kd Ed]. subst.
    destruct (proj8_op p a b c d Ka Kb Kc Kd) as [K [_ I]]. split; assumption. }
  destruct Hf as [K F]. destruct Hi as [_ I]. repeat split; assumption.
Qed.

(** multi-valued simulation of a 0/1 stimulus IS 2-valued simulation *)
Theorem bool_circuit ops (e : env bool) :
  forall k, exec_ops spec_prim ops (fun j => code_of_bool (e j)) k = code_of_bool (exec_ops prim_fn ops e k).
Proof.
  apply (logrel (fun c b => c = code_of_bool b) spec_prim prim_fn); [|reflexivity].
  intros p a b c d a' b' c' d' -> -> -> ->. apply spec_prim_bool.
Qed.

(** primitive selection: a kind named like a primitive, with the pins its arity implies, selects it *)
Definition arity (p : prim) : nat :=
  match p with
  | BUF1 | INV1 => 1
  | AND2 | NAND2 | OR2 | NOR2 | XOR2 | XNOR2 => 2
  | AND3 | NAND3 | OR3 | NOR3 | XOR3 | XNOR3 | AO21 | OA21 | AOI21 | OAI21 | MUX21 => 3
  | _ => 4
  end.
Definition select_chk (p : prim) : bool :=
  let nm := prim_name p in
  let i2u := Nat.ltb (arity p) 3 in let i3u := Nat.ltb (arity p) 4 in
  match select_lut kind_prefixes nm i2u i3u, select_lut kind_prefixes (lower nm) i2u i3u, lut_of p with
  | Some a, Some b, Some l => N.eqb a l && N.eqb b l
  | _, _, _ => false
  end.
Lemma select_ok : forallb select_chk all_prims = true. Proof. vm_compute. reflexivity. Qed.

Theorem select_prim_correct p :
  exists l, lut_of p = Some l /\
    select_lut kind_prefixes (prim_name p) (Nat.ltb (arity p) 3) (Nat.ltb (arity p) 4) = Some l /\
    select_lut kind_prefixes (lower (prim_name p)) (Nat.ltb (arity p) 3) (Nat.ltb (arity p) 4) = Some l.
Proof.
  pose proof select_ok as H. rewrite forallb_forall in H. specialize (H p (in_all_prims p)).
  unfold select_chk in H.
  destruct (select_lut kind_prefixes (prim_name p) _ _) as [a|]; [|discriminate].
  destruct (select_lut kind_prefixes (lower (prim_name p)) _ _) as [b|]; [|discriminate].
  destruct (lut_of p) as [l|]; [|discriminate].
  apply andb_true_iff in H. destruct H as [Ha Hb]. apply N.eqb_eq in Ha. apply N.eqb_eq in Hb. subst.
  exists l. repeat split; reflexivity.
Qed.

(** the opcode table is injective: an opcode denotes one primitive *)
Definition lut_inj_chk : bool :=
  forallb (fun p => forallb (fun q => match lut_of p, lut_of q with
     | Some a, Some b => implb (N.eqb a b) (String.eqb (prim_name p) (prim_name q)) | _, _ => false end) all_prims) all_prims.
Lemma lut_inj_ok : lut_inj_chk = true. Proof. vm_compute. reflexivity. Qed.
