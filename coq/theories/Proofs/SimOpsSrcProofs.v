(** The translated source of sim.SimOps.__init__ (Gen/SimOpsSrc.v, regenerated from /repo on every run by
    translate/gen_simops.py) equals the hand model Model/SimOps.v, on which the scheduler theorems are stated.
    Part 1: the op-building loop (ops_src = build_ops, all netlists). *)
From Coq Require Import List NArith ZArith Bool Arith String Lia.
From KV Require Import Model.Prims Model.Netlist Model.NetlistWf Model.Heap Model.HeapSrcLib Model.SimOps Model.SimOpsSrcLib
  Gen.SimTables Gen.HeapSrc Gen.SimOpsSrc.
Import ListNotations.
Local Open Scope list_scope.

(* ------------------------------------------------------------------------------------------ *)
(** * vocabulary *)

Lemma bind_some {A B} (a : A) (f : A -> option B) : bind (Some a) f = f a.
Proof. reflexivity. Qed.

Lemma py_for_app {A S} (body : A -> S -> option (S * bool)) (f : A -> S -> S) :
  (forall x s, body x s = Some (f x s, false)) ->
  forall l s, py_for body l s = Some (fold_left (fun s x => f x s) l s).
Proof.
  intros Hb. induction l as [|x r IH]; intros s; cbn [py_for fold_left]; [reflexivity|].
  rewrite Hb. apply IH.
Qed.

Lemma is_some_last_pos x l : forall i acc,
  is_some (last_pos x l i acc) = is_some acc || existsb (Nat.eqb x) l.
Proof.
  induction l as [|y r IH]; intros i acc; cbn [last_pos existsb].
  - now rewrite orb_false_r.
  - rewrite IH. destruct (Nat.eqb x y); cbn [is_some orb]; [now rewrite orb_true_r | reflexivity].
Qed.

Lemma enumdict_mem_get n sn : py_enumdict_mem n sn = is_some (py_enumdict_get n sn).
Proof. unfold py_enumdict_mem, py_enumdict_get. now rewrite is_some_last_pos. Qed.

Lemma pin_nth (l : list (option nat)) k : pin l k = match nth_error l k with Some (Some x) => Some x | _ => None end.
Proof. reflexivity. Qed.

(** len(l) > k and l[k] is not None *)
Lemma guard_pin (l : list (option nat)) k :
  (if Nat.ltb k (List.length l) then bind (py_lget k l) (fun t => Some (negb (py_is_none t))) else Some false)
  = Some (is_some (pin l k)).
Proof.
  unfold py_lget, pin. destruct (Nat.ltb k (List.length l)) eqn:E.
  - apply Nat.ltb_lt in E. destruct (nth_error l k) as [[x|]|] eqn:En; cbn; try reflexivity.
    apply nth_error_None in En. lia.
  - apply Nat.ltb_ge in E. apply nth_error_None in E. now rewrite E.
Qed.

Lemma guard_pin_and (e : bool) (l : list (option nat)) k :
  (if e && Nat.ltb k (List.length l) then bind (py_lget k l) (fun t => Some (negb (py_is_none t))) else Some false)
  = Some (e && is_some (pin l k)).
Proof. destruct e; cbn [andb]; [apply guard_pin | reflexivity]. Qed.

Lemma get_pin {B} (l : list (option nat)) k x (K : nat -> option B) :
  pin l k = Some x -> bind (py_lget k l) (fun t => bind (py_index t) K) = K x.
Proof.
  unfold pin, py_lget. destruct (nth_error l k) as [[y|]|]; intros H; try discriminate. now inversion H.
Qed.

(** l[k].index if len(l) > k and l[k] is not None else d *)
Lemma pin_or_src {B} (l : list (option nat)) k d (K : nat -> option B) :
  bind (if is_some (pin l k) then bind (py_lget k l) (fun t => bind (py_index t) (fun t' => Some t')) else Some d) K
  = K (pin_or l k d).
Proof.
  unfold pin_or. destruct (pin l k) as [x|] eqn:E; cbn [is_some]; [|reflexivity].
  rewrite (get_pin l k x _ E). reflexivity.
Qed.

Lemma lget_nth {A} (l : list A) k d : k < List.length l -> py_lget k l = Some (nth k l d).
Proof. intros H. unfold py_lget. now apply nth_error_nth'. Qed.

(* ------------------------------------------------------------------------------------------ *)
(** * the op-building loop *)

Section Ops.
  Variable c : netlist.
  Variable actrl : list arow.
  Variables s_len zero tmp tmp2 ppi ppo len : nat.
  Hypothesis Hout : forall n l, In (Some l) (n_outs (get_node c n)) -> l < List.length actrl.
  Hypothesis Htmp : tmp < List.length actrl.

  Let row := row_of_sop actrl.
  Let mk l o a b cc d := {| s_lut := l; s_out := o; s_i0 := a; s_i1 := b; s_i2 := cc; s_i3 := d |}.

  (** for o_line in <pins>: if o_line is not None: ops.append((BUF1, o_line.index, a, b, cc, d, *a_ctrl[o_line])) *)
  Lemma pins_loop_eq (body : option nat -> list oprow -> option (list oprow * bool)) a b cc d :
    (forall x ops, body x ops =
       if negb (py_is_none x) then
         bind (py_index x) (fun t1 => bind (py_index x) (fun t2 => bind (py_lget t2 actrl) (fun t3 =>
           Some (ops ++ [mk_row9 (lut_const "BUF1") t1 a b cc d t3], false))))
       else Some (ops, false)) ->
    forall pins ops, (forall l, In (Some l) pins -> l < List.length actrl) ->
    py_for body pins ops = Some (ops ++ map (fun o => row (mk (lutv "BUF1") o a b cc d)) (somes pins)).
  Proof.
    intros Hb. induction pins as [|[o|] r IH]; intros ops Hr; cbn [py_for].
    - cbn. now rewrite app_nil_r.
    - rewrite Hb. cbn [py_is_none negb py_index bind].
      rewrite (lget_nth actrl o (0, 0, 0)%Z) by (apply Hr; now left). cbn [bind].
      rewrite IH by (intros l Hl; apply Hr; now right).
      unfold somes. cbn [flat_map app map]. rewrite <- app_assoc. reflexivity.
    - rewrite Hb. cbn [py_is_none negb]. rewrite IH by (intros l Hl; apply Hr; now right). reflexivity.
  Qed.

  Lemma loop2_eq strip sn n inp pins ops : (forall l, In (Some l) pins -> l < List.length actrl) ->
    py_for (ops_src_loop2 c s_len zero tmp tmp2 ppi ppo len actrl strip sn n inp) pins ops
    = Some (ops ++ map (fun o => row (mk (lutv "BUF1") o inp zero zero zero)) (somes pins)).
  Proof. apply pins_loop_eq. intros x ops0. reflexivity. Qed.

  Lemma loop3_eq strip sn n o0 i0 i1 i2 i3 kind pins ops : (forall l, In (Some l) pins -> l < List.length actrl) ->
    py_for (ops_src_loop3 c s_len zero tmp tmp2 ppi ppo len actrl strip sn n o0 i0 i1 i2 i3 kind) pins ops
    = Some (ops ++ map (fun o => row (mk (lutv "BUF1") o i0 i1 i2 i3)) (somes pins)).
  Proof. apply pins_loop_eq. intros x ops0. reflexivity. Qed.

  (** for prefix, prims in kind_prefixes.items(): if kind.startswith(prefix): ...; break *)
  Lemma loop4_eq strip ops sn n o0 i0 i1 i2 i3 k : forall tbl sp,
    py_for (ops_src_loop4 c s_len zero tmp tmp2 ppi ppo len actrl strip ops sn n o0 i0 i1 i2 i3 (lower k)) tbl sp
    = Some (match select_lut tbl k (Nat.eqb i2 zero) (Nat.eqb i3 zero) with Some v => Some v | None => sp end).
  Proof.
    induction tbl as [|[pre [[l4 l3] l2]] r IH]; intros sp; cbn [py_for select_lut]; [reflexivity|].
    unfold ops_src_loop4 at 1. cbv beta zeta iota.
    destruct (prefix pre (lower k)); [|apply IH].
    destruct (Nat.eqb i3 zero); [destruct (Nat.eqb i2 zero)|]; reflexivity.
  Qed.

  Lemma in_pin_outs n k l : pin (n_outs (get_node c n)) k = Some l -> l < List.length actrl.
  Proof.
    rewrite pin_nth. destruct (nth_error (n_outs (get_node c n)) k) as [[x|]|] eqn:E; intros H; try discriminate.
    inversion H; subst x. apply (Hout n). eapply nth_error_In; eauto.
  Qed.

  Lemma tl_in {A} (x : A) l : In x (tl l) -> In x l.
  Proof. destruct l; cbn; [tauto | now right]. Qed.

  Lemma pin_or_lt n : pin_or (n_outs (get_node c n)) 0 tmp < List.length actrl.
  Proof.
    unfold pin_or. destruct (pin (n_outs (get_node c n)) 0) as [o|] eqn:E; [|exact Htmp].
    apply (in_pin_outs n 0). exact E.
  Qed.

  Ltac regular_tac n strip :=
    rewrite guard_pin, bind_some, pin_or_src;
    rewrite guard_pin, bind_some, pin_or_src;
    rewrite guard_pin, bind_some, pin_or_src;
    rewrite guard_pin, bind_some, pin_or_src;
    rewrite guard_pin, bind_some, pin_or_src;
    match goal with |- context [String.eqb (lower ?k) "__fork__"] => destruct (String.eqb (lower k) "__fork__") end;
    [ destruct strip; cbn [negb];
      [ cbn [map]; now rewrite app_nil_r
      | rewrite loop3_eq by (intros l Hl; apply (Hout n); exact Hl); rewrite bind_some, map_map; reflexivity ]
    | rewrite loop4_eq;
      match goal with |- context [select_lut ?t ?k ?a ?b] => destruct (select_lut t k a b) as [sp|] end;
      rewrite bind_some; cbn [py_is_none py_unopt bind];
      [ rewrite (lget_nth actrl _ (0, 0, 0)%Z) by apply pin_or_lt; reflexivity
      | cbn [map]; now rewrite app_nil_r ] ].

  (** one iteration of `for n in circuit.topological_order()` *)
  Lemma loop1_eq strip sn n ops :
    ops_src_loop1 c s_len zero tmp tmp2 ppi ppo len actrl strip sn n ops
    = Some (ops ++ map row (node_ops c sn strip zero tmp ppi n), false).
  Proof.
    cbv beta zeta delta [ops_src_loop1 node_ops].
    set (nd := get_node c n).
    rewrite guard_pin_and. rewrite bind_some.
    rewrite enumdict_mem_get. unfold py_enumdict_get.
    destruct (String.eqb (n_kind nd) "__fork__" && is_some (pin (n_ins nd) 0)) eqn:Epw; cbn [negb].
    - (* a port fork driven from inside: not an interface node *)
      replace (if is_some (last_pos n sn 0 None) then Some false else Some false) with (Some false)
        by (destruct (is_some (last_pos n sn 0 None)); reflexivity).
      rewrite bind_some. cbv iota. regular_tac n strip.
    - destruct (last_pos n sn 0 None) as [pos|] eqn:Elp; cbn [is_some]; rewrite bind_some; cbv iota.
      + (* interface node *)
        rewrite bind_some.
        rewrite guard_pin, bind_some.
        assert (Hk2 : forall ops1 : list oprow,
          (if contains "dff" (lower (n_kind nd)) then
             bind (if Nat.ltb 1 (List.length (n_outs nd)) then bind (py_lget 1 (n_outs nd)) (fun t12 => Some (negb (py_is_none t12))) else Some false)
               (fun t13 => if t13 then
                  bind (py_lget 1 (n_outs nd)) (fun t14 => bind (py_index t14) (fun t15 =>
                  bind (py_lget 1 (n_outs nd)) (fun t16 => bind (py_index t16) (fun t17 => bind (py_lget t17 actrl) (fun t18 =>
                  Some (ops1 ++ [mk_row9 (lut_const "INV1") t15 (ppi + pos) zero zero zero t18], false))))))
                else Some (ops1, false))
           else bind (py_for (ops_src_loop2 c s_len zero tmp tmp2 ppi ppo len actrl strip sn n (ppi + pos)) (tl (n_outs nd)) ops1)
                  (fun v_ops => Some (v_ops, false)))
          = Some (ops1 ++ map row (if is_dff nd
               then match pin (n_outs nd) 1 with Some o => [mk (lutv "INV1") o (ppi + pos) zero zero zero] | None => [] end
               else map (fun o => mk (lutv "BUF1") o (ppi + pos) zero zero zero) (somes (tl (n_outs nd)))), false)).
        { intros ops1. unfold is_dff. destruct (contains "dff" (lower (n_kind nd))).
          - rewrite guard_pin, bind_some. destruct (pin (n_outs nd) 1) as [o|] eqn:E1; cbn [is_some].
            + rewrite (get_pin _ 1 o _ E1). rewrite (get_pin _ 1 o _ E1).
              rewrite (lget_nth actrl o (0, 0, 0)%Z) by (apply (in_pin_outs n 1); exact E1). reflexivity.
            + cbn. now rewrite app_nil_r.
          - rewrite loop2_eq by (intros l Hl; apply (Hout n); apply tl_in; exact Hl).
            rewrite bind_some, map_map. reflexivity. }
        destruct (pin (n_outs nd) 0) as [o|] eqn:E0; cbn [is_some].
        * rewrite (get_pin _ 0 o _ E0). rewrite (get_pin _ 0 o _ E0).
          rewrite (lget_nth actrl o (0, 0, 0)%Z) by (apply (in_pin_outs n 0); exact E0). rewrite bind_some.
          rewrite Hk2. rewrite map_app, app_assoc. reflexivity.
        * rewrite Hk2. reflexivity.
      + regular_tac n strip.
  Qed.
  Lemma py_for_flat {A R} (body : A -> list R -> option (list R * bool)) (g : A -> list R) :
    (forall x s, body x s = Some (s ++ g x, false)) ->
    forall l s, py_for body l s = Some (s ++ flat_map g l).
  Proof.
    intros Hb. induction l as [|x r IH]; intros s; cbn [py_for flat_map]; [now rewrite app_nil_r|].
    rewrite Hb, IH, app_assoc. reflexivity.
  Qed.

  Lemma map_flat_map {A B C} (f : B -> C) (g : A -> list B) l : map f (flat_map g l) = flat_map (fun x => map f (g x)) l.
  Proof. induction l as [|x r IH]; cbn; [reflexivity|]. now rewrite map_app, IH. Qed.

  Theorem ops_src_eq strip :
    ops_src c s_len zero tmp tmp2 ppi ppo len actrl strip
    = Some (map row (flat_map (node_ops c (s_nodes c) strip zero tmp ppi) (topo_order c))).
  Proof.
    unfold ops_src. cbv zeta.
    rewrite (py_for_flat _ (fun n => map row (node_ops c (s_nodes c) strip zero tmp ppi n))) by (intros; apply loop1_eq).
    rewrite bind_some, map_flat_map. reflexivity.
  Qed.
End Ops.

Lemma idx_src_eq c : let nl := List.length (c_lines c) in let sl := List.length (s_nodes c) in
  idx_src c = Some (sl, nl, nl + 1, nl + 2, nl + 3, nl + 3 + sl, nl + 3 + sl + sl).
Proof.
  cbv zeta. unfold idx_src. cbv zeta. apply f_equal.
  repeat match goal with |- (_, _) = (_, _) => apply f_equal2 end; lia.
Qed.

Lemma sop_row_inv actrl o : sop_of_row (row_of_sop actrl o) = o.
Proof. destruct o; reflexivity. Qed.

(** the op-building loop of the CURRENT source, for every netlist and every (normalised) a_ctrl table that has a row for each
    connected output line and for the scratch slot: the rows are the model's op list, each extended by the a_ctrl row of its
    output index *)
Theorem ops_source_is_model c actrl strip :
  (forall n l, In (Some l) (n_outs (get_node c n)) -> l < List.length actrl) ->
  List.length (c_lines c) + 1 < List.length actrl ->
  simops_ops_src c actrl strip = Some (map (row_of_sop actrl) (build_ops c strip)).
Proof.
  intros Hout Htmp. unfold simops_ops_src. rewrite idx_src_eq, bind_some.
  rewrite (ops_src_eq c actrl _ _ _ _ _ _ _ Hout Htmp). reflexivity.
Qed.

Corollary ops_source_is_model_wf c given strip : wf_netlist c ->
  let actrl := a_ctrl_norm given (List.length (c_lines c) + 3) in
  simops_ops_src c actrl strip = Some (map (row_of_sop actrl) (build_ops c strip)) /\
  option_map (map sop_of_row) (simops_ops_src c actrl strip) = Some (build_ops c strip).
Proof.
  intros (_ & Hw & _) actrl.
  assert (Hlen : List.length (c_lines c) + 3 <= List.length actrl).
  { unfold actrl, a_ctrl_norm. destruct given as [a|]; [rewrite app_length|]; rewrite repeat_length; lia. }
  assert (H : simops_ops_src c actrl strip = Some (map (row_of_sop actrl) (build_ops c strip))).
  { apply ops_source_is_model; [|lia]. intros n l Hin.
    destruct (Nat.lt_ge_cases n (List.length (c_nodes c))) as [Hn|Hn].
    - apply In_nth_error in Hin. destruct Hin as [k Hk]. destruct (Hw n k l Hn Hk) as [Hl _]. lia.
    - unfold get_node in Hin. rewrite nth_overflow in Hin by exact Hn. destruct Hin. }
  split; [exact H|]. rewrite H. cbn [option_map]. rewrite map_map. f_equal.
  erewrite map_ext; [apply map_id | intros o; apply sop_row_inv].
Qed.

Definition ex_src_net : netlist :=
  {| c_nodes := [ {| n_kind := "input"; n_ins := []; n_outs := [Some 0] |};
                  {| n_kind := "input"; n_ins := []; n_outs := [Some 1] |};
                  {| n_kind := "AND2"; n_ins := [Some 0; Some 1]; n_outs := [Some 2] |};
                  {| n_kind := "__fork__"; n_ins := [Some 2]; n_outs := [Some 3; None; Some 4] |};
                  {| n_kind := "output"; n_ins := [Some 3]; n_outs := [] |};
                  {| n_kind := "DFFX1"; n_ins := [Some 4]; n_outs := [None; Some 5] |};
                  {| n_kind := "INVX1"; n_ins := [Some 5]; n_outs := [] |} ];
     c_lines := [ {| l_drv := 0; l_dpin := 0; l_rdr := 2; l_rpin := 0 |}; {| l_drv := 1; l_dpin := 0; l_rdr := 2; l_rpin := 1 |};
                  {| l_drv := 2; l_dpin := 0; l_rdr := 3; l_rpin := 0 |}; {| l_drv := 3; l_dpin := 0; l_rdr := 4; l_rpin := 0 |};
                  {| l_drv := 3; l_dpin := 2; l_rdr := 5; l_rpin := 0 |}; {| l_drv := 5; l_dpin := 1; l_rdr := 6; l_rpin := 0 |} ];
     c_io := [0; 1; 4] |}.
Example ops_source_example :
  option_map (map sop_of_row) (simops_ops_src ex_src_net (a_ctrl_norm None 9) false) = Some (build_ops ex_src_net false) /\
  List.length (build_ops ex_src_net false) = 7 /\
  option_map (@List.length _) (simops_ops_src ex_src_net (a_ctrl_norm None 9) true) = Some 5.
Proof. vm_compute. repeat split. Qed.
