(** The DRIVER code of the timing simulator as translated from the current text of wave_sim.py (Gen/WaveDriversSrc.v, regenerated
    on every run by translate/gen_wave_drivers.py) against the hand model Model/WaveSimModel.v and against its CPU / GPU twin:
    every GPU kernel instance is the per-lane model step and equals the per-element meaning of the CPU code; running the kernel
    over the launcher's thread sequence is the CPU loop nest; every instance acts on its own lane only. *)
From Coq Require Import List ZArith NArith Bool Arith Lia Permutation.
From KV Require Import Model.Prims Model.Netlist Model.Heap Model.SimOps Model.Time Model.WaveEval Model.WaveSimModel
  Model.WaveSrcPrelude Model.WaveDrvPrelude Model.Launch Model.LaunchSrcLib Gen.LaunchSrc Gen.WaveEvalSrc Gen.WaveDriversSrc.
From KV Require Proofs.WaveEvalSrcProofs Proofs.LaunchProofs Proofs.LaunchSrcProofs.
From KV Require Import Proofs.WaveLaneRun.
Import ListNotations.
Local Open Scope list_scope.

(* ------------------------------------------------------------------ *)
(** * primitives on natural indices *)

Lemma pyidx_nat len n : pyidx len (Z.of_nat n) = if Nat.ltb n len then Some n else None.
Proof.
  unfold pyidx. destruct (Z.leb_spec 0 (Z.of_nat n)); [|lia].
  destruct (Z.ltb_spec (Z.of_nat n) (Z.of_nat len)); destruct (Nat.ltb_spec n len); try lia.
  - rewrite Nat2Z.id. reflexivity.
  - reflexivity.
Qed.

Lemma wset_oob (w : list time) n v : List.length w <= n -> wset w n v = w.
Proof. revert n. induction w as [|a w IH]; intros [|n] H; cbn in *; try reflexivity; try lia. rewrite IH by lia. reflexivity. Qed.

Lemma wset_length (w : list time) n v : List.length (wset w n v) = List.length w.
Proof. revert n. induction w as [|a w IH]; intros [|n]; cbn; auto. Qed.

Lemma set_c_id L : set_c L (l_c L) = L.
Proof. destruct L; reflexivity. Qed.

Lemma c_wr_nat L n v : c_wr L (Z.of_nat n) v = set_c L (wset (l_c L) n v).
Proof.
  unfold c_wr. rewrite pyidx_nat. destruct (Nat.ltb_spec n (List.length (l_c L))); [reflexivity|].
  rewrite wset_oob by lia. symmetry. apply set_c_id.
Qed.

Lemma zrd_nat d l n : zrd d l (Z.of_nat n) = nth n l d.
Proof.
  unfold zrd. rewrite pyidx_nat. destruct (Nat.ltb_spec n (List.length l)); [reflexivity|].
  rewrite nth_overflow by lia. reflexivity.
Qed.

Lemma rowrd_nat ops n : rowrd ops (Z.of_nat n) = nth n ops [].
Proof.
  unfold rowrd. rewrite pyidx_nat. destruct (Nat.ltb_spec n (List.length ops)); [reflexivity|].
  rewrite nth_overflow by lia. reflexivity.
Qed.

Lemma overwrite_is_write_at0 vs : forall m, overwrite m vs = write_at m 0 vs.
Proof.
  intros m. destruct m; reflexivity.
Qed.

Lemma write_region_is_write_at m l vs : write_region m l vs = write_at m l vs.
Proof.
  revert m. induction l as [|l IH]; intros m.
  - rewrite <- overwrite_is_write_at0. destruct m; reflexivity.
  - destruct m as [|x m]; cbn [write_region write_at]; [reflexivity|]. rewrite IH. reflexivity.
Qed.

Lemma write_at3 (m : list time) l a b c : write_at m l [a; b; c] = wset (wset (wset m l a) (l + 1) b) (l + 2) c.
Proof.
  revert m. induction l as [|l IH]; intros m.
  - destruct m as [|x [|y [|z [|u m]]]]; reflexivity.
  - destruct m as [|x m]; [reflexivity|]. cbn [write_at wset Nat.add]. rewrite IH. reflexivity.
Qed.

Lemma zadd_at_is_addZ_at l i d : zadd_at l i d = addZ_at l i d.
Proof. reflexivity. Qed.

Lemma regionZ_nat c l n : regionZ c (Z.of_nat l) (Z.of_nat n) = region c l n.
Proof. unfold regionZ, region. destruct (Z.ltb_spec (Z.of_nat l) 0); [lia|]. rewrite !Nat2Z.id. reflexivity. Qed.

Lemma locZ_zrd so idx : locZ so idx = let z := zrd (-1) (so_locs so) (Z.of_nat idx) in if (0 <=? z)%Z then Some (Z.to_nat z) else None.
Proof. unfold locZ. rewrite zrd_nat. reflexivity. Qed.

(* ------------------------------------------------------------------ *)
(** * wave_assign_gpu: one thread = one step of the model's s_to_c *)

(** the step of [w_s_to_c] at position y *)
Definition assign_step (so : simops) (m : wmem) (y : nat) (itf : bool * time * bool) : wmem :=
  match locZ so (so_nlines so + 3 + y) with
  | Some l => let '(i, t, f) := itf in write_at m l (assign_wave i t f)
  | None => m
  end.
(** (initial value, transition time, final value) of position y as the GPU kernel reads them (>= 0.5) / as the CPU code does (!= 0) *)
Definition s_dec_gpu (L : lane) (y : nat) : bool * time * bool :=
  (tge_half (s_rd L 0 (Z.of_nat y)), s_rd L 1 (Z.of_nat y), tge_half (s_rd L 2 (Z.of_nat y))).
Definition s_dec_cpu (L : lane) (y : nat) : bool * time * bool :=
  (tne0 (s_rd L 0 (Z.of_nat y)), s_rd L 1 (Z.of_nat y), tne0 (s_rd L 2 (Z.of_nat y))).

Lemma w_s_to_c_fold so s m : w_s_to_c so s m =
  fold_left (fun m' (iv : nat * (bool * time * bool)) => assign_step so m' (fst iv) (snd iv)) (combine (seq 0 (so_slen so)) s) m.
Proof. reflexivity. Qed.

Theorem assign_gpu_inst_is_model so nsims x y L : y < so_slen so -> x < nsims ->
  WaveAssignGpuSrc.inst_src (so_locs so) (Z.of_nat (so_nlines so + 3)) (Z.of_nat (so_slen so)) (Z.of_nat nsims) (Z.of_nat x) (Z.of_nat y) L
  = set_c L (assign_step so (l_c L) y (s_dec_gpu L y)).
Proof.
  intros Hy Hx. unfold WaveAssignGpuSrc.inst_src, assign_step, s_dec_gpu.
  destruct (Z.leb_spec (Z.of_nat (so_slen so)) (Z.of_nat y)); [lia|].
  rewrite <- Nat2Z.inj_add, locZ_zrd. cbv zeta.
  set (z := zrd (-1) (so_locs so) (Z.of_nat (so_nlines so + 3 + y))).
  destruct (Z.ltb_spec z 0) as [Hz|Hz]; destruct (Z.leb_spec 0 z); try lia.
  - symmetry. apply set_c_id.
  - destruct (Z.leb_spec (Z.of_nat nsims) (Z.of_nat x)); [lia|].
    destruct (Z_of_nat_complete z) as [l El]; [lia|]. clearbody z. subst z. rewrite Nat2Z.id.
    replace (Z.of_nat l + 1)%Z with (Z.of_nat (l + 1)) by lia. replace (Z.of_nat l + 2)%Z with (Z.of_nat (l + 2)) by lia.
    destruct (tge_half (s_rd L 0 (Z.of_nat y))), (tge_half (s_rd L 2 (Z.of_nat y))); cbn [b2z Z.mul Z.lor Z.eqb assign_wave Pos.eqb];
      rewrite write_at3, !c_wr_nat; cbn [l_c set_c]; destruct L; reflexivity.
Qed.

(** instances outside the launch ranges do nothing *)
Theorem assign_gpu_inst_out_of_range locs ppi slen nsims x y L : (slen <= y \/ nsims <= x)%Z ->
  WaveAssignGpuSrc.inst_src locs ppi slen nsims x y L = L.
Proof.
  intros H. unfold WaveAssignGpuSrc.inst_src. destruct (Z.leb_spec slen y); [reflexivity|].
  destruct (_ <? 0)%Z; [reflexivity|]. destruct (Z.leb_spec nsims x); [reflexivity|lia].
Qed.

Lemma s_rd_set_c L c k y : s_rd (set_c L c) k y = s_rd L k y.
Proof. reflexivity. Qed.

(** all positions of one lane in launch order = the model's s_to_c on the lane's column (stimulus decoded as the kernel does) *)
Theorem assign_gpu_lane_is_model so nsims x L : x < nsims ->
  fold_left (fun L' y => WaveAssignGpuSrc.inst_src (so_locs so) (Z.of_nat (so_nlines so + 3)) (Z.of_nat (so_slen so)) (Z.of_nat nsims)
                            (Z.of_nat x) (Z.of_nat y) L') (seq 0 (so_slen so)) L
  = set_c L (w_s_to_c so (map (s_dec_gpu L) (seq 0 (so_slen so))) (l_c L)).
Proof.
  intros Hx. rewrite w_s_to_c_fold.
  assert (G : forall ys m, (forall y, In y ys -> y < so_slen so) ->
    fold_left (fun L' y => WaveAssignGpuSrc.inst_src (so_locs so) (Z.of_nat (so_nlines so + 3)) (Z.of_nat (so_slen so)) (Z.of_nat nsims)
                              (Z.of_nat x) (Z.of_nat y) L') ys (set_c L m)
    = set_c L (fold_left (fun m' (iv : nat * (bool * time * bool)) => assign_step so m' (fst iv) (snd iv))
                         (combine ys (map (s_dec_gpu L) ys)) m)).
  { induction ys as [|y ys IH]; intros m Hin; [reflexivity|].
    cbn [fold_left map combine fst snd]. rewrite assign_gpu_inst_is_model by (auto using in_eq).
    assert (E : s_dec_gpu (set_c L m) y = s_dec_gpu L y) by reflexivity. rewrite E.
    change (set_c (set_c L m) ?c) with (set_c L c). apply IH. intros y' Hy'. apply Hin. right. exact Hy'. }
  rewrite <- (set_c_id L) at 1. apply G. intros y Hy. apply in_seq in Hy. lia.
Qed.

(* ------------------------------------------------------------------ *)
(** * wave_eval_gpu / level_eval_cpu: one instance = one step of the model's c_prop (merge kernel + accumulation) *)

(** the merge kernel's returned counts are never negative (they are Python ints; the model counts in nat) *)
Lemma src_counts_nonneg fuel lut ws ds zreg s nr nf : 2 <= List.length zreg ->
  WaveEvalSrc.wave_eval_src fuel (Z.of_N lut) ws ds zreg = Some (s, (nr, nf)) -> (0 <= nr /\ 0 <= nf)%Z.
Proof.
  intros Hcap. unfold WaveEvalSrc.wave_eval_src.
  rewrite (WaveEvalSrcProofs.prologue_eq lut ws ds (List.length zreg) zreg eq_refl).
  pose proof (WaveEvalSrcProofs.loop_sim lut ws ds (List.length zreg) fuel (WaveEvalSrcProofs.st0 lut zreg) 0%Z MinInf 0%Z 0%Z Hcap eq_refl) as L.
  destruct (loop fuel lut ws ds (List.length zreg) (WaveEvalSrcProofs.st0 lut zreg)) as [w|].
  - destruct L as (Hlen & thr & nt & L). rewrite L.
    destruct w as [cur inp za zc zv pv ov]. cbn [cur4] in Hlen.
    destruct cur as [|ca [|cb [|cc [|cd [|]]]]]; try discriminate.
    unfold WaveEvalSrcProofs.kof, WaveEvalSrcProofs.kof4. cbn [cur4 inputs zarr zcur zval prev ovf nth].
    rewrite WaveEvalSrcProofs.epilogue_eq.
    cbv beta zeta delta [WaveEvalSrc.wave_eval_result WaveEvalSrcProofs.kx]. cbn [WaveEvalSrc.v_nrise WaveEvalSrc.v_nfall].
    intros E. inversion E. split; [lia|]. apply Z.div_pos; lia.
  - rewrite L. discriminate.
Qed.

(** a row of the ops table: (lut, output index, four operand indices, accumulator index or -1, rise weight, fall weight) *)
Definition op_row (o : sop) (a : Z * Z * Z) : list Z :=
  let '(ai, wr, wf) := a in
  [Z.of_N (s_lut o); Z.of_nat (s_out o); Z.of_nat (s_i0 o); Z.of_nat (s_i1 o); Z.of_nat (s_i2 o); Z.of_nat (s_i3 o); ai; wr; wf].
Definition caps_z (so : simops) : list Z := map Z.of_N (so_caps so).

(** the step of [w_c_prop] for op o with accumulation control a, on (waveform memory, accumulators) *)
Definition eval_step (so : simops) (delays : list dtab) (o : sop) (a : Z * Z * Z) (st : wmem * list Z) : option (wmem * list Z) :=
  match wprop1 so delays (fst st) o with
  | None => None
  | Some (m2, (nr, nf)) =>
      let '(ai, wr, wf) := a in
      Some (m2, if (0 <=? ai)%Z then addZ_at (snd st) (Z.to_nat ai) (Z.of_nat nr * wr + Z.of_nat nf * wf)%Z else snd st)
  end.

Lemma fold_left_ext {A B} (f g : A -> B -> A) l : (forall a b, f a b = g a b) -> forall a, fold_left f l a = fold_left g l a.
Proof. intros H. induction l as [|b l IH]; intros a; [reflexivity|]. cbn [fold_left]. rewrite H. apply IH. Qed.

Lemma w_c_prop_fold so delays actrl m ab : w_c_prop so delays actrl m ab =
  fold_left (fun (st : option (wmem * list Z)) (io : nat * sop) =>
               match st with None => None
               | Some st' => eval_step so delays (snd io) (nth (fst io) actrl ((-1)%Z, 0%Z, 0%Z)) st' end)
            (combine (seq 0 (List.length (so_ops so))) (so_ops so)) (Some (m, ab)).
Proof.
  unfold w_c_prop. apply fold_left_ext. intros st io.
  destruct st as [[m' ab']|]; [|reflexivity]. unfold eval_step. cbn [fst snd].
  destruct (wprop1 so delays m' (snd io)) as [[m2 [nr nf]]|]; reflexivity.
Qed.

(** the delay dataset lane L selects for the op with output index z_idx (the translated selection prologue) *)
Definition lane_sel (D : list (list dtab)) (seed : Z) (L : lane) (z_idx : Z) : list dtab :=
  nth (Z.to_nat (WaveEvalSrc.select_idx_src (Z.of_nat (List.length D)) (l_mode L) seed (l_ctl0 L) z_idx)) D [].

Lemma opd_eq so c ik : regionZ c (nth ik (so_locs so) (-1)%Z) (nth ik (caps_z so) 0%Z) = operand so c ik.
Proof.
  assert (Ec : nth ik (caps_z so) 0%Z = Z.of_N (nth ik (so_caps so) 0%N)) by (exact (map_nth Z.of_N (so_caps so) 0%N ik)).
  rewrite Ec. unfold operand, locZ, regionZ, region, capN.
  set (z := nth ik (so_locs so) (-1)%Z).
  destruct (Z.ltb_spec z 0); destruct (Z.leb_spec 0 z); try lia; [reflexivity|].
  rewrite <- N_nat_Z, Nat2Z.id. reflexivity.
Qed.

(** the out region the kernel works on has room for at least two entries (SimOps allocates >= 4) *)
Definition out_cap_ok (so : simops) (c : wmem) (o : sop) : Prop :=
  forall zl, locZ so (s_out o) = Some zl -> 2 <= List.length (region c zl (capN so (s_out o))).

Lemma call_is_wprop1 so D seed o a L : out_cap_ok so (l_c L) o ->
  wave_eval_call D seed (so_locs so) (caps_z so) (op_row o a) L =
  match wprop1 so (lane_sel D seed L (Z.of_nat (s_out o))) (l_c L) o with
  | None => None
  | Some (m2, (nr, nf)) => Some (set_c L m2, (Z.of_nat nr, Z.of_nat nf))
  end.
Proof.
  intros Hcap. destruct a as [[ai wr] wf].
  unfold wave_eval_call, call_wave_eval, wprop1. cbn [op_row nth map]. rewrite !zrd_nat, !Nat2Z.id, !opd_eq.
  fold (lane_sel D seed L (Z.of_nat (s_out o))).
  pose proof (Hcap) as Hc. unfold out_cap_ok in Hc. unfold locZ in *. 
  set (z := nth (s_out o) (so_locs so) (-1)%Z) in *.
  destruct (Z.ltb_spec z 0); destruct (Z.leb_spec 0 z); try lia; [reflexivity|].
  assert (Er : operand so (l_c L) (s_out o) = region (l_c L) (Z.to_nat z) (capN so (s_out o))).
  { unfold operand, locZ. fold z. destruct (Z.leb_spec 0 z); [reflexivity|lia]. }
  rewrite Er. specialize (Hc _ eq_refl).
  set (ws := [operand so (l_c L) (s_i0 o); operand so (l_c L) (s_i1 o); operand so (l_c L) (s_i2 o); operand so (l_c L) (s_i3 o)]).
  set (ds := [nth (s_i0 o) (lane_sel D seed L (Z.of_nat (s_out o))) dzero; nth (s_i1 o) (lane_sel D seed L (Z.of_nat (s_out o))) dzero;
              nth (s_i2 o) (lane_sel D seed L (Z.of_nat (s_out o))) dzero; nth (s_i3 o) (lane_sel D seed L (Z.of_nat (s_out o))) dzero]).
  set (zreg := region (l_c L) (Z.to_nat z) (capN so (s_out o))) in *.
  pose proof (WaveEvalSrcProofs.kernel_source_is_model (s_lut o) ws ds zreg Hc) as K.
  unfold kern_src. change (S (fold_left (fun n w => n + List.length w) ws 0)) with (WaveEvalSrcProofs.model_fuel ws).
  destruct (WaveEvalSrc.wave_eval_src (WaveEvalSrcProofs.model_fuel ws) (Z.of_N (s_lut o)) ws ds zreg) as [[s [nr nf]]|] eqn:E.
  - destruct (src_counts_nonneg _ _ _ _ _ _ _ _ Hc E) as [Hr Hf].
    cbn [WaveEvalSrcProofs.res_of] in K. rewrite <- K. cbn [r_z r_rise r_fall].
    rewrite write_region_is_write_at, !Z2Nat.id by lia. reflexivity.
  - cbn [WaveEvalSrcProofs.res_of] in K. rewrite <- K. reflexivity.
Qed.

(** one iteration (op_idx, sim) of level_eval_cpu = the model step on the lane's column, with the lane's selected dataset *)
Definition lane_eval_step (so : simops) (D : list (list dtab)) (seed : Z) (o : sop) (a : Z * Z * Z) (L : lane) : option lane :=
  match eval_step so (lane_sel D seed L (Z.of_nat (s_out o))) o a (l_c L, l_abuf L) with
  | None => None
  | Some (m2, ab2) => Some (set_abuf (set_c L m2) ab2)
  end.

Lemma ab_add_nat L n d : ab_add L (Z.of_nat n) d = set_abuf L (addZ_at (l_abuf L) n d).
Proof.
  unfold ab_add. rewrite pyidx_nat. change (zadd_at (l_abuf L) n d) with (addZ_at (l_abuf L) n d). destruct (Nat.ltb_spec n (List.length (l_abuf L))); [reflexivity|].
  assert (E : forall l i, List.length l <= i -> addZ_at l i d = l).
  { induction l as [|x l IH]; intros [|i] Hi; cbn in *; try reflexivity; try lia. rewrite IH by lia. reflexivity. }
  rewrite E by lia. destruct L; reflexivity.
Qed.

Theorem level_eval_cpu_inst_is_model so ops D seed sim i o a L :
  nth i ops [] = op_row o a -> out_cap_ok so (l_c L) o ->
  LevelEvalCpuSrc.inst_src ops (so_locs so) (caps_z so) D seed sim (Z.of_nat i) L = lane_eval_step so D seed o a L.
Proof.
  intros Hop Hcap. unfold LevelEvalCpuSrc.inst_src, lane_eval_step, eval_step. rewrite rowrd_nat, Hop, call_is_wprop1 by exact Hcap.
  cbn [fst snd]. destruct (wprop1 so _ (l_c L) o) as [[m2 [nr nf]]|]; [|reflexivity].
  destruct a as [[ai wr] wf]. cbn [op_row nth].
  destruct (Z.leb_spec 0 ai); [|reflexivity].
  rewrite <- (Z2Nat.id ai) at 1 by lia. rewrite ab_add_nat. reflexivity.
Qed.

(** ... and so is thread (x, y) of wave_eval_gpu, for lane sim_start + x and op op_start + y: CPU iteration = GPU thread *)
Theorem eval_gpu_inst_is_model so ops D seed op_start n_ops sim_start n_sims x y o a L :
  x < n_sims -> y < n_ops -> nth (op_start + y) ops [] = op_row o a -> out_cap_ok so (l_c L) o ->
  WaveEvalGpuSrc.inst_src ops (so_locs so) (caps_z so) D (Z.of_nat op_start) (Z.of_nat (op_start + n_ops)) (Z.of_nat sim_start)
    (Z.of_nat (sim_start + n_sims)) seed (Z.of_nat x) (Z.of_nat y) L = lane_eval_step so D seed o a L.
Proof.
  intros Hx Hy Hop Hcap. unfold WaveEvalGpuSrc.inst_src, lane_eval_step, eval_step.
  destruct (Z.leb_spec (Z.of_nat (sim_start + n_sims)) (Z.of_nat sim_start + Z.of_nat x)); [lia|].
  destruct (Z.leb_spec (Z.of_nat (op_start + n_ops)) (Z.of_nat op_start + Z.of_nat y)); [lia|].
  rewrite <- Nat2Z.inj_add, rowrd_nat, Hop, call_is_wprop1 by exact Hcap.
  cbn [fst snd]. destruct (wprop1 so _ (l_c L) o) as [[m2 [nr nf]]|]; [|reflexivity].
  destruct a as [[ai wr] wf]. cbn [op_row nth].
  destruct (Z.leb_spec 0 ai); [|reflexivity].
  rewrite <- (Z2Nat.id ai) at 1 by lia. rewrite ab_add_nat. reflexivity.
Qed.

Theorem eval_gpu_inst_out_of_range ops locs caps D op_start op_stop sim_start sim_stop seed x y L :
  (sim_stop <= sim_start + x \/ op_stop <= op_start + y)%Z ->
  WaveEvalGpuSrc.inst_src ops locs caps D op_start op_stop sim_start sim_stop seed x y L = Some L.
Proof.
  intros H. unfold WaveEvalGpuSrc.inst_src. destruct (Z.leb_spec sim_stop (sim_start + x)); [reflexivity|].
  destruct (Z.leb_spec op_stop (op_start + y)); [reflexivity|lia].
Qed.

Theorem eval_cpu_gpu_same_inst so ops D seed op_start n_ops sim_start n_sims x y o a L :
  x < n_sims -> y < n_ops -> nth (op_start + y) ops [] = op_row o a -> out_cap_ok so (l_c L) o ->
  WaveEvalGpuSrc.inst_src ops (so_locs so) (caps_z so) D (Z.of_nat op_start) (Z.of_nat (op_start + n_ops)) (Z.of_nat sim_start)
    (Z.of_nat (sim_start + n_sims)) seed (Z.of_nat x) (Z.of_nat y) L
  = LevelEvalCpuSrc.inst_src ops (so_locs so) (caps_z so) D seed (Z.of_nat (sim_start + x)) (Z.of_nat (op_start + y)) L.
Proof.
  intros Hx Hy Hop Hcap. rewrite (eval_gpu_inst_is_model so ops D seed op_start n_ops sim_start n_sims x y o a L Hx Hy Hop Hcap).
  symmetry. apply level_eval_cpu_inst_is_model; assumption.
Qed.

(* ------------------------------------------------------------------ *)
(** * wave_capture_gpu (launch prefix + write-back) and one iteration of WaveSim.c_to_s *)

(** what the model's c_to_s computes at position y, as the eight floats of s[3..10] *)
Definition capture_step (so : simops) (tcap : time) (y : nat) (L : lane) : lane :=
  let idx := so_nlines so + 3 + so_slen so + y in
  match locZ so idx with
  | None => L
  | Some l => s_wr8 L (Z.of_nat y) (WaveEvalSrcProofs.WaveCaptureGpuSrcProofs.model_result (region (l_c L) l (capN so idx)) tcap)
  end.

Theorem capture_gpu_inst_is_model so nsims tcap x y L : x < nsims ->
  WaveCaptureGpuDrvSrc.inst_src (so_locs so) (caps_z so) tcap (Z.of_nat (so_nlines so + 3 + so_slen so)) (Z.of_nat nsims)
    (Z.of_nat x) (Z.of_nat y) L = capture_step so tcap y L.
Proof.
  intros Hx. unfold WaveCaptureGpuDrvSrc.inst_src, capture_step. rewrite <- Nat2Z.inj_add, !zrd_nat.
  set (idx := so_nlines so + 3 + so_slen so + y).
  pose proof (opd_eq so (l_c L) idx) as E. unfold operand in E. unfold locZ in *.
  set (z := nth idx (so_locs so) (-1)%Z) in *. cbv zeta.
  destruct (Z.leb_spec (Z.of_nat (List.length (so_locs so))) (Z.of_nat idx)).
  - assert (z = (-1)%Z) as -> by (unfold z; apply nth_overflow; lia). reflexivity.
  - destruct (Z.ltb_spec z 0); destruct (Z.leb_spec 0 z); try lia; [reflexivity|].
    destruct (Z.leb_spec (Z.of_nat nsims) (Z.of_nat x)); [lia|].
    rewrite E, WaveEvalSrcProofs.WaveCaptureGpuSrcProofs.capture_source_is_model. reflexivity.
Qed.

(** one iteration (s_loc, vector) of the CPU loop = the GPU thread of a position that owns a PPO slot *)
Theorem capture_cpu_gpu_same_inst so nsims tcap x y L : x < nsims ->
  (0 <= zrd (-1) (so_locs so) (Z.of_nat (so_nlines so + 3 + so_slen so) + Z.of_nat y))%Z ->
  WaveCaptureGpuDrvSrc.inst_src (so_locs so) (caps_z so) tcap (Z.of_nat (so_nlines so + 3 + so_slen so)) (Z.of_nat nsims)
    (Z.of_nat x) (Z.of_nat y) L
  = c_to_s_cpu_inst WaveCaptureCpuSrc.capture_src (so_locs so) (caps_z so) (Z.of_nat (so_nlines so + 3 + so_slen so)) tcap (Z.of_nat y) L.
Proof.
  intros Hx Hz. rewrite capture_gpu_inst_is_model by exact Hx. unfold capture_step, c_to_s_cpu_inst.
  rewrite <- Nat2Z.inj_add in *. rewrite !zrd_nat in *.
  set (idx := so_nlines so + 3 + so_slen so + y) in *.
  pose proof (opd_eq so (l_c L) idx) as E. unfold operand in E. unfold locZ in *.
  set (z := nth idx (so_locs so) (-1)%Z) in *. cbv zeta in E.
  destruct (Z.leb_spec 0 z); [|lia].
  rewrite E, WaveEvalSrcProofs.WaveCaptureCpuSrcProofs.capture_source_is_model. reflexivity.
Qed.

(** a GPU thread at a position without PPO slot does nothing (the CPU loop does not visit such a position) *)
Theorem capture_gpu_inst_no_slot so nsims tcap x y L :
  (zrd (-1) (so_locs so) (Z.of_nat (so_nlines so + 3 + so_slen so) + Z.of_nat y) < 0)%Z ->
  WaveCaptureGpuDrvSrc.inst_src (so_locs so) (caps_z so) tcap (Z.of_nat (so_nlines so + 3 + so_slen so)) (Z.of_nat nsims)
    (Z.of_nat x) (Z.of_nat y) L = L.
Proof.
  intros Hz. unfold WaveCaptureGpuDrvSrc.inst_src. destruct (_ <=? _)%Z; [reflexivity|]. cbv zeta.
  destruct (Z.ltb_spec (zrd (-1) (so_locs so) (Z.of_nat (so_nlines so + 3 + so_slen so) + Z.of_nat y)) 0); [reflexivity|lia].
Qed.

(* ------------------------------------------------------------------ *)
(** * ppo_to_ppi_gpu: one thread = the three stores of WaveSim.s_ppo_to_ppi at one position *)

Definition ppo_to_ppi_pos (t : time) (y : Z) (L : lane) : lane :=
  let L := s_wr L 0 y (s_rd L 2 y) in let L := s_wr L 1 y t in s_wr L 2 y (s_rd L 8 y).

Theorem ppo_to_ppi_gpu_inst locs t ppi ppo slen nsims x y L : (y < slen)%Z -> (x < nsims)%Z ->
  PpoToPpiGpuSrc.inst_src locs t ppi ppo slen nsims x y L =
  if ((0 <=? zrd (-1) locs (ppi + y)) && (0 <=? zrd (-1) locs (ppo + y)))%Z then ppo_to_ppi_pos t y L else L.
Proof.
  intros Hy Hx. unfold PpoToPpiGpuSrc.inst_src, ppo_to_ppi_pos.
  destruct (Z.leb_spec slen y); [lia|]. destruct (Z.leb_spec nsims x); [lia|].
  destruct (Z.ltb_spec (zrd (-1) locs (ppi + y)) 0); destruct (Z.leb_spec 0 (zrd (-1) locs (ppi + y))); try lia; [reflexivity|].
  destruct (Z.ltb_spec (zrd (-1) locs (ppo + y)) 0); destruct (Z.leb_spec 0 (zrd (-1) locs (ppo + y))); try lia; reflexivity.
Qed.

Theorem ppo_to_ppi_gpu_out_of_range locs t ppi ppo slen nsims x y L : (slen <= y \/ nsims <= x)%Z ->
  PpoToPpiGpuSrc.inst_src locs t ppi ppo slen nsims x y L = L.
Proof.
  intros H. unfold PpoToPpiGpuSrc.inst_src. destruct (Z.leb_spec slen y); [reflexivity|].
  destruct (Z.leb_spec nsims x); [reflexivity|lia].
Qed.

(* ------------------------------------------------------------------ *)
(** * WaveSim.s_to_c (three vectorised passes, one per waveform slot) = wave_assign_gpu over all positions of the lane *)

Definition wact (w : nat * time) (m : list time) : list time := wset m (fst w) (snd w).
Lemma wset_comm (m : list time) i j a b : i <> j -> wset (wset m j b) i a = wset (wset m i a) j b.
Proof.
  revert i j. induction m as [|x m IH]; intros [|i] [|j] H; cbn [wset]; try reflexivity; try lia.
  rewrite IH by lia. reflexivity.
Qed.
Lemma wact_comm w1 w2 m : fst w1 <> fst w2 -> wact w1 (wact w2 m) = wact w2 (wact w1 m).
Proof. intros H. unfold wact. apply wset_comm. exact H. Qed.

Definition v0 (i f : bool) (t : time) : time := match i, f with false, false => MaxInf | false, true => t | true, _ => MinInf end.
Definition v1 (i f : bool) (t : time) : time := match i, f with true, false => t | _, _ => MaxInf end.
Lemma assign_wave_v i t f : assign_wave i t f = [v0 i f t; v1 i f t; MaxInf].
Proof. destruct i, f; reflexivity. Qed.

Section SToC.
  Variables (so : simops).
  Let ppi := so_nlines so + 3.
  Definition locn (y : nat) : Z := nth (so_nlines so + 3 + y) (so_locs so) (-1)%Z.
  Definition ln (y : nat) : nat := Z.to_nat (locn y).
  (** the positions that own a PI / PPI slot, in increasing order *)
  Definition ysn : list nat := filter (fun y => (0 <=? locn y)%Z) (seq 0 (so_slen so)).
  (** the three stores of position y, with the stimulus bits decoded by [dec] *)
  Definition q3 (dec : nat -> bool * time * bool) (y : nat) : list (nat * time) :=
    let '(i, t, f) := dec y in [(ln y, v0 i f t); (ln y + 1, v1 i f t); (ln y + 2, MaxInf)].

  Lemma filter_map_comm {A B} (f : B -> bool) (g : A -> B) l : filter f (map g l) = map g (filter (fun x => f (g x)) l).
  Proof. induction l as [|a l IH]; [reflexivity|]. cbn [map filter]. destruct (f (g a)); cbn [map]; rewrite IH; reflexivity. Qed.

  Lemma slot_s_locs_eq n_io : n_io <= so_slen so ->
    slot_s_locs (so_locs so) (Z.of_nat ppi) n_io (so_slen so) = map Z.of_nat ysn.
  Proof.
    intros H. unfold slot_s_locs, zseq, ysn. rewrite !filter_map_comm, <- map_app, <- filter_app, <- seq_app.
    replace (n_io + (so_slen so - n_io)) with (so_slen so) by lia. f_equal. apply filter_ext. intros y.
    rewrite <- Nat2Z.inj_add, zrd_nat. reflexivity.
  Qed.

  Lemma fold_left_map {A B C} (f : A -> B -> A) (g : C -> B) l a : fold_left f (map g l) a = fold_left (fun a x => f a (g x)) l a.
  Proof. revert a. induction l as [|x l IH]; intros a; [reflexivity|]. cbn. apply IH. Qed.

  Lemma fold_c_wr (g : nat -> Z) (v : nat -> time) ys : (forall y, In y ys -> (0 <= g y)%Z) -> forall L,
    fold_left (fun L' y => c_wr L' (g y) (v y)) ys L
    = set_c L (apply_writes wact (map (fun y => (Z.to_nat (g y), v y)) ys) (l_c L)).
  Proof.
    induction ys as [|y ys IH]; intros Hin L; [symmetry; apply set_c_id|].
    cbn [fold_left map]. rewrite <- (Z2Nat.id (g y)) at 1 by (apply Hin; left; reflexivity).
    rewrite c_wr_nat, IH by (intros y' Hy'; apply Hin; right; exact Hy'). reflexivity.
  Qed.

  Lemma flat_map_ext_in' {A B} (f g : A -> list B) l : (forall a, In a l -> f a = g a) -> flat_map f l = flat_map g l.
  Proof. induction l as [|a l IH]; intros H; [reflexivity|]. cbn [flat_map]. rewrite H by (left; reflexivity).
         rewrite IH by (intros a' Ha'; apply H; right; exact Ha'). reflexivity. Qed.

  Lemma map_fst_flat {A} (g : A -> list (nat * time)) l : map fst (flat_map g l) = flat_map (fun a => map fst (g a)) l.
  Proof. induction l as [|a l IH]; [reflexivity|]. cbn [flat_map]. rewrite map_app, IH. reflexivity. Qed.

  (** the three-entry windows of the PI / PPI slots are pairwise disjoint (each is its own allocation of c_caps_min >= 4) *)
  Definition windows_disjoint : Prop := NoDup (flat_map (fun y => [ln y; ln y + 1; ln y + 2]) ysn).

  Lemma ysn_in y : In y ysn -> (0 <= locn y)%Z /\ y < so_slen so.
  Proof. unfold ysn. rewrite filter_In, in_seq. intros [H1 H2]. apply Z.leb_le in H2. split; [exact H2|lia]. Qed.

  (** CPU: WaveSim.s_to_c on one lane = the stores of all positions, pass by pass *)
  Lemma s_to_c_cpu_writes n_io L : n_io <= so_slen so ->
    s_to_c_cpu (so_locs so) (Z.of_nat ppi) n_io (so_slen so) L
    = set_c L (apply_writes wact (map (fun y => nth 0 (q3 (s_dec_cpu L) y) (0, MaxInf)) ysn ++
                                  map (fun y => nth 1 (q3 (s_dec_cpu L) y) (0, MaxInf)) ysn ++
                                  map (fun y => nth 2 (q3 (s_dec_cpu L) y) (0, MaxInf)) ysn) (l_c L)).
  Proof.
    intros Hn. unfold s_to_c_cpu. rewrite slot_s_locs_eq by exact Hn. cbv zeta. rewrite !fold_left_map.
    assert (Hloc : forall y, zrd (-1) (so_locs so) (Z.of_nat ppi + Z.of_nat y) = locn y).
    { intros y. rewrite <- Nat2Z.inj_add, zrd_nat. reflexivity. }
    rewrite (fold_c_wr (fun y => zrd (-1) (so_locs so) (Z.of_nat ppi + Z.of_nat y))
                       (fun y => choose4 (cpu_cond L (Z.of_nat y)) MaxInf (s_rd L 1 (Z.of_nat y)) MinInf MinInf))
      by (intros y Hy; rewrite Hloc; apply ysn_in, Hy).
    rewrite (fold_c_wr (fun y => (zrd (-1) (so_locs so) (Z.of_nat ppi + Z.of_nat y) + 1)%Z)
                       (fun y => choose4 (cpu_cond L (Z.of_nat y)) MaxInf MaxInf (s_rd L 1 (Z.of_nat y)) MaxInf))
      by (intros y Hy; rewrite Hloc; pose proof (ysn_in y Hy); lia).
    rewrite (fold_c_wr (fun y => (zrd (-1) (so_locs so) (Z.of_nat ppi + Z.of_nat y) + 2)%Z) (fun _ => MaxInf))
      by (intros y Hy; rewrite Hloc; pose proof (ysn_in y Hy); lia).
    cbn [l_c set_c]. rewrite !apply_writes_app.
    assert (Hs : forall c c', set_c (set_c L c) c' = set_c L c') by reflexivity.
    rewrite !Hs. f_equal.
    assert (E0 : map (fun y => (Z.to_nat (zrd (-1) (so_locs so) (Z.of_nat ppi + Z.of_nat y)),
                                choose4 (cpu_cond L (Z.of_nat y)) MaxInf (s_rd L 1 (Z.of_nat y)) MinInf MinInf)) ysn
                 = map (fun y => nth 0 (q3 (s_dec_cpu L) y) (0, MaxInf)) ysn).
    { apply map_ext_in. intros y Hy. rewrite Hloc. unfold q3, s_dec_cpu, ln, cpu_cond. cbn [nth].
      f_equal. destruct (tne0 (s_rd L 0 (Z.of_nat y))), (tne0 (s_rd L 2 (Z.of_nat y))); reflexivity. }
    assert (E1 : map (fun y => (Z.to_nat (zrd (-1) (so_locs so) (Z.of_nat ppi + Z.of_nat y) + 1),
                                choose4 (cpu_cond L (Z.of_nat y)) MaxInf MaxInf (s_rd L 1 (Z.of_nat y)) MaxInf)) ysn
                 = map (fun y => nth 1 (q3 (s_dec_cpu L) y) (0, MaxInf)) ysn).
    { apply map_ext_in. intros y Hy. rewrite Hloc. pose proof (ysn_in y Hy). unfold q3, s_dec_cpu, ln, cpu_cond. cbn [nth].
      f_equal; [lia|]. destruct (tne0 (s_rd L 0 (Z.of_nat y))), (tne0 (s_rd L 2 (Z.of_nat y))); reflexivity. }
    assert (E2 : map (fun y => (Z.to_nat (zrd (-1) (so_locs so) (Z.of_nat ppi + Z.of_nat y) + 2), MaxInf)) ysn
                 = map (fun y => nth 2 (q3 (s_dec_cpu L) y) (0, MaxInf)) ysn).
    { apply map_ext_in. intros y Hy. rewrite Hloc. pose proof (ysn_in y Hy). unfold q3, s_dec_cpu, ln. cbn [nth]. f_equal. lia. }
    rewrite E0, E1, E2. reflexivity.
  Qed.

  (** GPU: all threads of the lane in launch order = the stores position by position *)
  Lemma assign_gpu_lane_writes nsims x L : x < nsims ->
    fold_left (fun L' y => WaveAssignGpuSrc.inst_src (so_locs so) (Z.of_nat ppi) (Z.of_nat (so_slen so)) (Z.of_nat nsims)
                              (Z.of_nat x) (Z.of_nat y) L') (seq 0 (so_slen so)) L
    = set_c L (apply_writes wact (flat_map (q3 (s_dec_gpu L)) ysn) (l_c L)).
  Proof.
    intros Hx. unfold ysn.
    assert (G : forall ys m, (forall y, In y ys -> y < so_slen so) ->
      fold_left (fun L' y => WaveAssignGpuSrc.inst_src (so_locs so) (Z.of_nat ppi) (Z.of_nat (so_slen so)) (Z.of_nat nsims)
                                (Z.of_nat x) (Z.of_nat y) L') ys (set_c L m)
      = set_c L (apply_writes wact (flat_map (q3 (s_dec_gpu L)) (filter (fun y => (0 <=? locn y)%Z) ys)) m)).
    { induction ys as [|y ys IH]; intros m Hin; [reflexivity|].
      cbn [fold_left filter]. unfold ppi. rewrite assign_gpu_inst_is_model by (auto using in_eq).
      assert (E : s_dec_gpu (set_c L m) y = s_dec_gpu L y) by reflexivity. rewrite E.
      change (set_c (set_c L m) ?c) with (set_c L c). fold ppi. rewrite IH by (intros y' Hy'; apply Hin; right; exact Hy').
      f_equal. unfold assign_step, locZ. fold (locn y). cbn [l_c set_c].
      destruct (0 <=? locn y)%Z; [|reflexivity].
      cbn [flat_map]. unfold apply_writes at 2. rewrite fold_left_app. fold (apply_writes wact).
      f_equal. unfold q3. destruct (s_dec_gpu L y) as [[i t] f]. rewrite assign_wave_v, write_at3. reflexivity. }
    rewrite <- (set_c_id L) at 1. apply G. intros y Hy. apply in_seq in Hy. lia.
  Qed.

  (** the stimulus bits of the lane are read alike by both twins (`!= 0` and `>= 0.5`): true for the values 0 and 1 *)
  Definition s_bits_ok (L : lane) : Prop :=
    forall y, In y ysn -> tne0 (s_rd L 0 (Z.of_nat y)) = tge_half (s_rd L 0 (Z.of_nat y)) /\
                          tne0 (s_rd L 2 (Z.of_nat y)) = tge_half (s_rd L 2 (Z.of_nat y)).

  Theorem s_to_c_cpu_gpu_same_lane n_io nsims x L : n_io <= so_slen so -> x < nsims -> windows_disjoint -> s_bits_ok L ->
    s_to_c_cpu (so_locs so) (Z.of_nat ppi) n_io (so_slen so) L
    = fold_left (fun L' y => WaveAssignGpuSrc.inst_src (so_locs so) (Z.of_nat ppi) (Z.of_nat (so_slen so)) (Z.of_nat nsims)
                                (Z.of_nat x) (Z.of_nat y) L') (seq 0 (so_slen so)) L.
  Proof.
    intros Hn Hx Hw Hb. rewrite s_to_c_cpu_writes by exact Hn. rewrite assign_gpu_lane_writes by exact Hx. f_equal.
    assert (Eq : flat_map (q3 (s_dec_gpu L)) ysn = flat_map (q3 (s_dec_cpu L)) ysn).
    { apply flat_map_ext_in'. intros y Hy. destruct (Hb y Hy) as [H0 H2]. unfold q3, s_dec_gpu, s_dec_cpu. rewrite H0, H2. reflexivity. }
    rewrite Eq.
    assert (Q : forall y, q3 (s_dec_cpu L) y = [nth 0 (q3 (s_dec_cpu L) y) (0, MaxInf); nth 1 (q3 (s_dec_cpu L) y) (0, MaxInf);
                                               nth 2 (q3 (s_dec_cpu L) y) (0, MaxInf)]).
    { intros y. unfold q3. destruct (s_dec_cpu L y) as [[i t] f]. reflexivity. }
    rewrite (flat_map_ext _ _ Q).
    apply (apply_writes_perm wact fst wact_comm).
    - apply three_pass_perm.
    - eapply Permutation_NoDup; [apply Permutation_map, Permutation_sym, three_pass_perm|].
      rewrite map_fst_flat. unfold windows_disjoint in Hw.
      erewrite flat_map_ext; [exact Hw|]. intros y. unfold q3. destruct (s_dec_cpu L y) as [[i t] f]. reflexivity.
  Qed.
End SToC.

(* ------------------------------------------------------------------ *)
(** * composition with the launcher: the whole simulator state *)

Definition in_range (X Y : nat) (p : nat * nat) : bool := Nat.ltb (fst p) X && Nat.ltb (snd p) Y.

(** WaveSimCuda.s_to_c -- wave_assign_gpu run over the thread sequence of the TRANSLATED launcher, out-of-range threads included --
    leaves every lane as WaveSim.s_to_c does *)
Theorem assign_launch_is_cpu so n_io st0 (st : list lane) :
  n_io <= so_slen so -> windows_disjoint so -> Forall (s_bits_ok so) st ->
  let nsims := List.length st in
  run_insts (fun x y L => WaveAssignGpuSrc.inst_src (so_locs so) (Z.of_nat (so_nlines so + 3)) (Z.of_nat (so_slen so)) (Z.of_nat nsims)
                            (Z.of_nat x) (Z.of_nat y) L)
            (fst (launch_src (cdiv nsims 32) (cdiv (so_slen so) 16) 32 16 st0)) st
  = map (s_to_c_cpu (so_locs so) (Z.of_nat (so_nlines so + 3)) n_io (so_slen so)) st.
Proof.
  intros Hn Hw Hb nsims. rewrite LaunchSrcProofs.launch_src_eq.
  rewrite (run_insts_filter _ (in_range nsims (so_slen so))).
  2:{ intros [x y] a Hp. cbn [fst snd]. apply assign_gpu_inst_out_of_range. unfold in_range in Hp. cbn [fst snd] in Hp.
      destruct (Nat.ltb_spec x nsims); destruct (Nat.ltb_spec y (so_slen so)); cbn in Hp; try discriminate; lia. }
  change (filter (in_range nsims (so_slen so)) (launch (cdiv nsims 32) (cdiv (so_slen so) 16) 32 16)) with (threads nsims (so_slen so) 32 16).
  apply nth_error_ext_eq. intros l. rewrite run_insts_lane, nth_error_map.
  destruct (nth_error st l) as [L|] eqn:E; [|reflexivity]. cbn [option_map]. f_equal.
  assert (Hl : l < nsims) by (apply nth_error_Some; congruence).
  rewrite ys_of_threads by lia. symmetry. apply s_to_c_cpu_gpu_same_lane; try assumption.
  rewrite Forall_forall in Hb. apply Hb. eapply nth_error_In. exact E.
Qed.

(** the loop nest of level_eval_cpu is the CPU order the launch theorem speaks about *)
Lemma level_order_is_cpu_order op_start n_ops n_sims : LevelEvalCpuSrc.order_src op_start n_ops 0 n_sims = cpu_order (seq op_start n_ops) n_sims.
Proof. reflexivity. Qed.

(** any kernel whose out-of-range threads do nothing: launch over X x Y through the translated launcher = CPU loop nest *)
Theorem launch_src_is_cpu_loop {A} (f : nat -> nat -> A -> A) X Y bx by_ st0 (st : list A) : 0 < bx -> 0 < by_ -> List.length st <= X ->
  (forall x y a, (X <= x \/ Y <= y) -> f x y a = a) ->
  run_insts f (fst (launch_src (cdiv X bx) (cdiv Y by_) bx by_ st0)) st = run_insts f (cpu_order (seq 0 Y) X) st.
Proof.
  intros Hbx Hby Hlen Hout. rewrite LaunchSrcProofs.launch_src_eq.
  rewrite (run_insts_filter _ (in_range X Y)).
  2:{ intros [x y] a Hp. cbn [fst snd]. apply Hout. unfold in_range in Hp. cbn [fst snd] in Hp.
      destruct (Nat.ltb_spec x X); destruct (Nat.ltb_spec y Y); cbn in Hp; try discriminate; lia. }
  apply (launch_is_cpu_loop f X Y bx by_ st Hbx Hby Hlen).
Qed.

(* ------------------------------------------------------------------ *)
(** * concrete instances: the hypotheses are satisfiable, and each is needed *)

Definition ex_so : simops :=
  {| so_ops := []; so_level_starts := []; so_locs := [0; 4; 8; 12; 16; 4; -1]%Z; so_caps := [4; 4; 4; 4; 4; 4; 0]%N; so_len := 20%N;
     so_stems := []; so_nlines := 0; so_slen := 2 |}.
Definition ex_rows (s0 s1 s2 s8 : list time) : list (list time) :=
  [s0; s1; s2; [Fin 0; Fin 0]; [Fin 0; Fin 0]; [Fin 0; Fin 0]; [Fin 0; Fin 0]; [Fin 0; Fin 0]; s8; [Fin 0; Fin 0]; [Fin 0; Fin 0]].
Definition ex_lane : lane :=
  {| l_c := [Fin 1; MaxInf; MaxInf; MaxInf] ++ repeat MaxInf 16; l_s := ex_rows [Fin 0; Fin 1] [Fin 5; Fin 7] [Fin 1; Fin 0] [Fin 1; Fin 1];
     l_abuf := [0%Z]; l_ctl0 := 0%Z; l_mode := 0%Z |}.

Example s_to_c_hyps_example : windows_disjoint ex_so /\ s_bits_ok ex_so ex_lane /\
  l_c (s_to_c_cpu (so_locs ex_so) 3 1 2 ex_lane) =
    [Fin 1; MaxInf; MaxInf; MaxInf; MaxInf; MaxInf; MaxInf; MaxInf; MaxInf; MaxInf; MaxInf; MaxInf;
     Fin 5; MaxInf; MaxInf; MaxInf; MinInf; Fin 7; MaxInf; MaxInf].
Proof.
  split; [|split].
  - unfold windows_disjoint. vm_compute. repeat constructor; cbn; lia.
  - intros y Hy. vm_compute in Hy. destruct Hy as [<-|[<-|[]]]; split; reflexivity.
  - vm_compute. reflexivity.
Qed.

(** a stimulus value outside {0, 1} (here -1) is read differently by the two twins: `-1 != 0` but not `-1 >= 0.5` *)
Definition ex_lane_neg : lane :=
  {| l_c := repeat MaxInf 20; l_s := ex_rows [Fin 0; Fin 0] [Fin 5; Fin 7] [Fin (-1); Fin 0] [Fin 0; Fin 0];
     l_abuf := [0%Z]; l_ctl0 := 0%Z; l_mode := 0%Z |}.
Example s_to_c_bits_needed :
  s_to_c_cpu (so_locs ex_so) 3 1 2 ex_lane_neg <>
  fold_left (fun L' y => WaveAssignGpuSrc.inst_src (so_locs ex_so) 3 2 1 0 (Z.of_nat y) L') (seq 0 2) ex_lane_neg.
Proof. vm_compute. discriminate. Qed.

(** FINDING: a primary-IO position that owns both a PI and a PO slot (a port fork that is driven from inside the circuit and read
    again) is rewritten by ppo_to_ppi_gpu but not by WaveSim.s_ppo_to_ppi (which only visits ppio_s_locs = the state elements):
    position 0 of [ex_so] with n_io = 2 primary positions *)
Example ppo_to_ppi_io_position_refuted :
  s_ppo_to_ppi_cpu (so_locs ex_so) 3 5 2 2 (Fin 9) ex_lane <>
  fold_left (fun L' y => PpoToPpiGpuSrc.inst_src (so_locs ex_so) (Fin 9) 3 5 2 1 0 (Z.of_nat y) L') (seq 0 2) ex_lane.
Proof. vm_compute. discriminate. Qed.
(** ... and with the same position counted as a state element (n_io = 0) the twins agree *)
Example ppo_to_ppi_state_position_example :
  s_ppo_to_ppi_cpu (so_locs ex_so) 3 5 0 2 (Fin 9) ex_lane =
  fold_left (fun L' y => PpoToPpiGpuSrc.inst_src (so_locs ex_so) (Fin 9) 3 5 2 1 0 (Z.of_nat y) L') (seq 0 2) ex_lane /\
  l_s (s_ppo_to_ppi_cpu (so_locs ex_so) 3 5 0 2 (Fin 9) ex_lane) = ex_rows [Fin 1; Fin 1] [Fin 9; Fin 7] [Fin 1; Fin 0] [Fin 1; Fin 1].
Proof. split; vm_compute; reflexivity. Qed.

(** one op (BUF of line 0 into line 1, operands b..d on the constant region of index 2) with accumulation (slot 0, weights 3 / 5) *)
Definition ex_op : sop := {| s_lut := 2%N; s_out := 1; s_i0 := 0; s_i1 := 2; s_i2 := 2; s_i3 := 2 |}.
Example eval_inst_example :
  out_cap_ok ex_so (l_c ex_lane) ex_op /\
  exists L', LevelEvalCpuSrc.inst_src [op_row ex_op (0, 3, 5)%Z] (so_locs ex_so) (caps_z ex_so) [[dzero; dzero; dzero]] 1 0 0 ex_lane = Some L' /\
             l_abuf L' = [3%Z] /\ firstn 8 (l_c L') = [Fin 1; MaxInf; MaxInf; MaxInf; Fin 1; MaxInf; MaxInf; MaxInf] /\
             WaveEvalGpuSrc.inst_src [op_row ex_op (0, 3, 5)%Z] (so_locs ex_so) (caps_z ex_so) [[dzero; dzero; dzero]] 0 1 0 1 1 0 0 ex_lane = Some L'.
Proof.
  split.
  - intros zl Hz. vm_compute in Hz. inversion Hz. vm_compute. lia.
  - eexists. split; [vm_compute; reflexivity|]. split; [reflexivity|]. split; [reflexivity|]. vm_compute. reflexivity.
Qed.

Example capture_inst_example :
  l_s (WaveCaptureGpuDrvSrc.inst_src (so_locs ex_so) (caps_z ex_so) (Fin 3) 5 1 0 0
         (set_c ex_lane ([Fin 1; MaxInf; MaxInf; MaxInf; Fin 2; MaxInf; MaxInf; MaxInf] ++ repeat MaxInf 12)))
  = [[Fin 0; Fin 1]; [Fin 5; Fin 7]; [Fin 1; Fin 0]; [Fin 0; Fin 0]; [Fin 2; Fin 0]; [Fin 2; Fin 0]; [Fin 1; Fin 0]; [Fin 1; Fin 0];
     [Fin 1; Fin 1]; [Fin 0; Fin 0]; [Fin 0; Fin 0]].
Proof. vm_compute. reflexivity. Qed.
