(** C11: VerilogTransformer.module (Model/VerilogModule.v) -- the elaborated circuit is consistent, its interface is the
    declared port list, named pin connections are exactly the lines at the instance cells, assigns connect forks. *)
From Coq Require Import List ZArith NArith Bool String Ascii Arith Lia.
From KV Require Import Model.Circuit Model.CircuitInv Model.VerilogModule Proofs.CircuitBase Proofs.CircuitProofs.
From KV Require Proofs.VerilogElabProofs.
Import ListNotations.
Local Open Scope list_scope.

(** ** monotone extension of a circuit state: ids, records of existing lines, names / kinds of existing nodes and
    dictionary entries persist; pin lists may grow *)
Record ext (c c' : circ) : Prop := mkExt {
  ex_nn : nnext c <= nnext c';
  ex_ln : lnext c <= lnext c';
  ex_nodes : forall x, In x (nodes c) -> In x (nodes c');
  ex_lines : forall l, In l (lines c) -> In l (lines c');
  ex_node : forall x, x < nnext c -> n_name (nst c' x) = n_name (nst c x) /\ n_kind (nst c' x) = n_kind (nst c x);
  ex_lst : forall l, l < lnext c -> lst c' l = lst c l;
  ex_forks : forall s x, dget s (forks c) = Some x -> dget s (forks c') = Some x;
  ex_cells : forall s x, dget s (cells c) = Some x -> dget s (cells c') = Some x }.

Lemma ext_refl : forall c, ext c c.
Proof. intros c. constructor; auto. Qed.
Lemma ext_trans : forall a b c, ext a b -> ext b c -> ext a c.
Proof.
  intros a b c [A1 A2 A3 A4 A5 A6 A7 A8] [B1 B2 B3 B4 B5 B6 B7 B8]. constructor; auto; try lia.
  - intros x Hx. destruct (A5 x Hx) as [E1 E2]. destruct (B5 x) as [F1 F2]. lia. split; congruence.
  - intros l Hl. rewrite B6 by lia. auto.
Qed.
Lemma ext_name : forall c c' x, ext c c' -> x < nnext c -> name_of c' x = name_of c x.
Proof. intros c c' x H Hx. unfold name_of. apply (ex_node c c' H x Hx). Qed.
Lemma ext_kind : forall c c' x, ext c c' -> x < nnext c -> kind_of c' x = kind_of c x.
Proof. intros c c' x H Hx. unfold kind_of. apply (ex_node c c' H x Hx). Qed.

Lemma cinv_node_lt : forall c n, CInv c -> In n (nodes c) -> n < nnext c.
Proof. intros c n [HC _] Hn. apply (cc_nb [] c HC). left; auto. Qed.
Lemma cinv_line_lt : forall c l, CInv c -> In l (lines c) -> l < lnext c.
Proof. intros c l [HC _] Hl. apply (cc_lb [] c HC); auto. Qed.
Lemma cinv_fork_get : forall c s f, CInv c -> dget s (forks c) = Some f ->
  In f (nodes c) /\ is_fork (kind_of c f) = true /\ name_of c f = s.
Proof. intros c s f [HC _] H. apply (cc_forks [] c HC). apply dget_in; auto. apply (cc_forks_nd [] c HC). Qed.
Lemma cinv_cell_get : forall c s n, CInv c -> dget s (cells c) = Some n ->
  In n (nodes c) /\ is_fork (kind_of c n) = false /\ name_of c n = s.
Proof. intros c s f [HC _] H. apply (cc_cells [] c HC). apply dget_in; auto. apply (cc_cells_nd [] c HC). Qed.
Lemma cinv_fork_named : forall c f, CInv c -> In f (nodes c) -> is_fork (kind_of c f) = true ->
  dget (name_of c f) (forks c) = Some f.
Proof. intros c f [HC _] H1 H2. apply dget_in. apply (cc_forks_nd [] c HC). apply (cc_forks [] c HC). auto. Qed.
Lemma cinv_cell_named : forall c f, CInv c -> In f (nodes c) -> is_fork (kind_of c f) = false ->
  dget (name_of c f) (cells c) = Some f.
Proof. intros c f [HC _] H1 H2. apply dget_in. apply (cc_cells_nd [] c HC). apply (cc_cells [] c HC). auto. Qed.

Lemma dget_app1 : forall d k k' v, dget k (d ++ [(k', v)]) =
  match dget k d with Some x => Some x | None => if String.eqb k k' then Some v else None end.
Proof.
  induction d as [|[a b] r IH]; intros k k' v; simpl. reflexivity.
  destruct (String.eqb k a); auto.
Qed.

(** ** the primitive steps *)
Lemma add_node_spec : forall c name kind c' id, CInv c -> add_node c name kind = Some (c', id) ->
  CInv c' /\ ext c c' /\ id = nnext c /\ nnext c' = S (nnext c) /\ lnext c' = lnext c /\
  nodes c' = nodes c ++ [id] /\ lines c' = lines c /\ io c' = io c /\ lst c' = lst c /\
  (forall x, x <> id -> nst c' x = nst c x) /\ nst c' id = mkN name kind (List.length (nodes c)) [] [] true /\
  name_free c name kind /\
  forks c' = (if is_fork kind then forks c ++ [(name, id)] else forks c) /\
  cells c' = (if is_fork kind then cells c else cells c ++ [(name, id)]).
Proof.
  intros c name kind c' id HI Hadd.
  assert (Hfree : name_free c name kind).
  { unfold name_free. unfold add_node in Hadd. destruct (is_fork kind).
    - destruct (dget name (forks c)); auto. discriminate.
    - destruct (dget name (cells c)); auto. discriminate. }
  destruct HI as [HC HD].
  destruct (add_node_core [] c name kind c' id HC Hfree Hadd) as [HC' [-> [Hn [Hl [Hio [Hlst [Hln [Hnn [Hst Hnew]]]]]]]]].
  pose proof (add_node_dense [] c name kind c' (nnext c) HC HD Hfree Hadd) as HD'.
  assert (Hdict : forks c' = (if is_fork kind then forks c ++ [(name, nnext c)] else forks c) /\
                  cells c' = (if is_fork kind then cells c else cells c ++ [(name, nnext c)])).
  { unfold add_node, name_free in *. destruct (is_fork kind); rewrite Hfree in Hadd; inv Hadd; simpl; auto. }
  destruct Hdict as [Hfk Hce].
  split; [split; auto|]. split.
  - constructor; try lia.
    + intros x Hx. rewrite Hn. apply in_or_app; auto.
    + rewrite Hl; auto.
    + intros x Hx. rewrite Hst by lia. auto.
    + intros l _. rewrite Hlst; auto.
    + intros s x Hs. rewrite Hfk. destruct (is_fork kind); auto. rewrite dget_app1, Hs. auto.
    + intros s x Hs. rewrite Hce. destruct (is_fork kind); auto. rewrite dget_app1, Hs. auto.
  - repeat split; auto.
Qed.

Lemma add_line_spec : forall c d dp r rp, CInv c -> In d (nodes c) -> In r (nodes c) ->
  (forall p, dp = Some p -> out_at c d p = None /\ is_fork (kind_of c d) = false) ->
  (forall p, rp = Some p -> in_at c r p = None) ->
  let c' := fst (add_line c d dp r rp) in
  CInv c' /\ ext c c'.
Proof.
  intros c d dp r rp HI Hd Hr Hdp Hrp c'. split.
  - apply add_line_inv; auto. intros p Hp. destruct (Hdp p Hp) as [A B]. split; auto. congruence.
  - pose proof (add_line_facts c d dp r rp) as F. cbv zeta in F. fold c' in F.
    destruct F as [_ [F1 [F2 [F3 [F4 [F5 [F6 [_ [F7 [F8 [F9 [F10 [F11 [F12 [F13 F14]]]]]]]]]]]]]]].
    constructor; try lia.
    + rewrite F3; auto.
    + intros l Hl. rewrite F4. apply in_or_app; auto.
    + intros x _. auto.
    + intros l Hl. apply F13. lia.
    + rewrite F5; auto.
    + rewrite F6; auto.
Qed.

(* forks have at most one input line *)
Definition SingleDrv (c : circ) : Prop :=
  forall f, In f (nodes c) -> is_fork (kind_of c f) = true -> ins_of c f = [] \/ exists l, ins_of c f = [Some l].

Lemma new_fork_spec : forall c d dp name c' f, CInv c -> In d (nodes c) ->
  (forall p, dp = Some p -> out_at c d p = None /\ is_fork (kind_of c d) = false) ->
  new_fork_from c d dp name = Some (c', f) ->
  CInv c' /\ ext c c' /\ f = nnext c /\ nnext c' = S (nnext c) /\ lnext c' = S (lnext c) /\
  nodes c' = nodes c ++ [f] /\ lines c' = lines c ++ [lnext c] /\ io c' = io c /\
  dget name (forks c) = None /\ forks c' = forks c ++ [(name, f)] /\ cells c' = cells c /\
  lst c' (lnext c) = mkL (List.length (lines c)) (Some d) (pin_of (outs_of c d) dp) (Some f) 0 true /\
  name_of c' f = name /\ kind_of c' f = FORK /\ ins_of c' f = [Some (lnext c)] /\ outs_of c' f = [] /\
  (forall x, x <> f -> ins_of c' x = ins_of c x) /\
  (forall x, x <> f -> outs_of c' x = if Nat.eqb x d then gset (outs_of c d) (pin_of (outs_of c d) dp) (Some (lnext c)) else outs_of c x).
Proof.
  intros c d dp name c' f HI Hd Hdp H. unfold new_fork_from in H.
  destruct (add_node c name FORK) as [[c1 f1]|] eqn:Hadd; [|discriminate].
  destruct (add_node_spec c name FORK c1 f1 HI Hadd) as [HI1 [E1 [-> [N1 [N2 [N3 [N4 [N5 [N6 [N7 [N8 [N9 [N10 N11]]]]]]]]]]]]].
  remember (fst (add_line c1 d dp (nnext c) None)) as c2 eqn:Hc2.
  injection H as Hc Hf. subst c' f.
  change (is_fork FORK) with true in *.
  assert (Hlt : d < nnext c) by (apply cinv_node_lt; auto).
  assert (Hd1 : In d (nodes c1)) by (rewrite N3; apply in_or_app; auto).
  assert (Hf1 : In (nnext c) (nodes c1)) by (rewrite N3; apply in_or_app; right; left; auto).
  assert (Hne : d <> nnext c) by lia.
  assert (Hst : nst c1 d = nst c d) by (apply N7; auto).
  assert (Houts : outs_of c1 d = outs_of c d) by (unfold outs_of; rewrite Hst; auto).
  destruct (add_line_spec c1 d dp (nnext c) None HI1 Hd1 Hf1) as [HI2 E2].
  { intros p Hp. destruct (Hdp p Hp) as [A B]. unfold out_at, kind_of in *. rewrite Houts. unfold outs_of in *. rewrite Hst. auto. }
  { discriminate. }
  pose proof (add_line_facts c1 d dp (nnext c) None) as F. cbv zeta in F.
  destruct F as [_ [F1 [F2 [F3 [F4 [F5 [F6 [F0 [F7 [F8 [F9 [F10 [F11 [F12 [F13 F14]]]]]]]]]]]]]]].
  rewrite <- Hc2 in *. clear Hc2.
  assert (Hins1 : ins_of c1 (nnext c) = []) by (unfold ins_of; rewrite N8; reflexivity).
  split; auto. split. eapply ext_trans; eauto.
  split; auto. split. lia. split. lia. split. congruence. split. rewrite F4, N4, N2. auto.
  split. congruence. split. exact N9. split. rewrite F5. auto. split. rewrite F6. auto.
  split. { rewrite N2 in F14. rewrite F14. rewrite N4. rewrite Houts. rewrite Hins1. reflexivity. }
  split. { unfold name_of. rewrite F7, N8. reflexivity. }
  split. { unfold kind_of. rewrite F8, N8. reflexivity. }
  split. { unfold ins_of in *. rewrite F12, Nat.eqb_refl. rewrite Hins1. rewrite N2. reflexivity. }
  split. { unfold outs_of. rewrite F11. destruct (Nat.eqb_spec (nnext c) d). congruence. rewrite N8. reflexivity. }
  split.
  - intros x Hx. unfold ins_of. rewrite F12. destruct (Nat.eqb_spec x (nnext c)). congruence. rewrite N7; auto.
  - intros x Hx. unfold outs_of in *. rewrite F11. destruct (Nat.eqb_spec x d).
    + subst x. rewrite Hst. rewrite N2. reflexivity.
    + rewrite N7; auto.
Qed.

Lemma set_io_spec : forall c p n, CInv c -> CInv (set_io c p n) /\ ext c (set_io c p n).
Proof.
  intros c p n [HC HD]. split.
  - split. apply ccore_with_io; auto. apply dense_with_io; auto.
  - constructor; simpl; auto.
Qed.

(** ** generic fold lemmas *)
Lemma fold_opt_app : forall {A B} (f : A -> B -> option A) l1 l2 a,
  fold_opt f (l1 ++ l2) a = match fold_opt f l1 a with Some a1 => fold_opt f l2 a1 | None => None end.
Proof.
  induction l1 as [|x r IH]; intros l2 a; simpl. reflexivity.
  destruct (f a x); auto.
Qed.
(* an invariant indexed by the processed prefix *)
Lemma fold_opt_prefix : forall {A B} (f : A -> B -> option A) (I : list B -> A -> Prop) l a a',
  I [] a ->
  (forall pre x post a0 a1, l = pre ++ x :: post -> I pre a0 -> f a0 x = Some a1 -> I (pre ++ [x]) a1) ->
  fold_opt f l a = Some a' -> I l a'.
Proof.
  intros A B f I l a a' H0 Hstep.
  assert (G : forall post pre a0, l = pre ++ post -> I pre a0 -> fold_opt f post a0 = Some a' -> I l a').
  { induction post as [|x post IH]; intros pre a0 Hl Hpre Hf; simpl in Hf.
    - inv Hf. rewrite app_nil_r. auto.
    - destruct (f a0 x) as [a1|] eqn:E; [|discriminate].
      apply (IH (pre ++ [x]) a1); auto.
      + rewrite <- app_assoc. auto.
      + eapply Hstep; eauto. }
  intros Hf. apply (G l [] a); auto.
Qed.

(** ** the module context *)
Definition LibInj (lib : tlib_pins) : Prop := forall kind p1 p2 i o,
  lib_pin lib kind (PName p1) = Some (i, o) -> lib_pin lib kind (PName p2) = Some (i, o) -> p1 = p2.
Definition LibNoFork (lib : tlib_pins) : Prop := VE.dget FORK lib = None.
Definition PinsNoDup (m : vmodule) : Prop :=
  forall kind name pins, In (VInst kind name pins) (m_stmts m) -> NoDup (map fst pins).

Lemma NoDup_app_r : forall {A} (a b : list A), NoDup (a ++ b) -> NoDup b.
Proof. induction a as [|x a IH]; intros b H; simpl in *; auto. inv H. auto. Qed.
Lemma NoDup_app_l : forall {A} (a b : list A), NoDup (a ++ b) -> NoDup a.
Proof.
  induction a as [|x a IH]; intros b H; simpl in *. constructor. inv H. constructor; eauto.
  intros Hc. apply H2. apply in_or_app; auto.
Qed.
Lemma NoDup_app_disj : forall {A} (a b : list A) x, NoDup (a ++ b) -> In x a -> In x b -> False.
Proof.
  induction a as [|y a IH]; intros b x H Ha Hb; simpl in *. auto. inv H. destruct Ha as [->|Ha].
  - apply H2. apply in_or_app; auto.
  - eapply IH; eauto.
Qed.

(* names of the instantiations that become cells *)
Definition inst_names (l : list vstmt) : list string :=
  flat_map (fun s => match s with VInst k nm _ => if is_fork k then [] else [nm] | _ => [] end) l.
Lemma inst_names_app : forall a b, inst_names (a ++ b) = inst_names a ++ inst_names b.
Proof. intros. unfold inst_names. apply flat_map_app. Qed.
Lemma inst_names_in : forall l k nm p, In (VInst k nm p) l -> is_fork k = false -> In nm (inst_names l).
Proof.
  intros l k nm p H Hk. unfold inst_names. apply in_flat_map. exists (VInst k nm p). split; auto. rewrite Hk. left; auto.
Qed.
Lemma inst_uniq : forall l k1 nm p1 k2 p2, NoDup (inst_names l) ->
  In (VInst k1 nm p1) l -> In (VInst k2 nm p2) l -> is_fork k1 = false -> is_fork k2 = false -> k1 = k2 /\ p1 = p2.
Proof.
  induction l as [|a l IH]; intros k1 nm p1 k2 p2 Hnd H1 H2 F1 F2. destruct H1.
  change (a :: l) with ([a] ++ l) in Hnd. rewrite inst_names_app in Hnd.
  assert (Hl : NoDup (inst_names l)) by (eapply NoDup_app_r; eauto).
  assert (Hx : forall k p, a = VInst k nm p -> is_fork k = false -> ~ In nm (inst_names l)).
  { intros k p -> Fk Hin. eapply NoDup_app_disj; eauto. simpl. rewrite Fk. left; auto. }
  destruct H1 as [H1|H1]; destruct H2 as [H2|H2].
  - rewrite H1 in H2. inv H2. auto.
  - exfalso. eapply Hx; eauto. eapply inst_names_in; eauto.
  - exfalso. eapply Hx; eauto. eapply inst_names_in; eauto.
  - eapply IH; eauto.
Qed.

Definition pin_names (name : string) (pins : list (pinkey * VE.sig)) : list (string * string) :=
  flat_map (fun ps => match fst ps with PName p => [(name, p)] | PPos _ => [] end) pins.
Definition din (l : list vstmt) : list (string * string) :=
  flat_map (fun s => match s with VInst _ nm pins => pin_names nm pins | _ => [] end) l.
Lemma pin_names_in : forall name pins nm p, In (nm, p) (pin_names name pins) <-> nm = name /\ In (PName p) (map fst pins).
Proof.
  intros name pins nm p. unfold pin_names. rewrite in_flat_map. split.
  - intros [[k s] [H1 H2]]. simpl in H2. destruct k; simpl in H2; [|destruct H2].
    destruct H2 as [E|[]]. inv E. split; auto. apply in_map_iff. exists (PName p, s). auto.
  - intros [-> H]. apply in_map_iff in H. destruct H as [[k s] [E H]]. simpl in E. subst k.
    exists (PName p, s). split; auto. simpl. auto.
Qed.
Lemma pin_names_app : forall name a b, pin_names name (a ++ b) = pin_names name a ++ pin_names name b.
Proof. intros. unfold pin_names. apply flat_map_app. Qed.
Lemma din_app : forall a b, din (a ++ b) = din a ++ din b.
Proof. intros. unfold din. apply flat_map_app. Qed.
Lemma din_in : forall l nm p, In (nm, p) (din l) -> exists k pins, In (VInst k nm pins) l /\ In (PName p) (map fst pins).
Proof.
  intros l nm p H. unfold din in H. apply in_flat_map in H. destruct H as [s [H1 H2]].
  destruct s; try destruct H2. apply pin_names_in in H2. destruct H2 as [-> H2]. eauto.
Qed.

Section Elab.
Variable m : vmodule.
Variable lib : tlib_pins.
Let decls := decls_of m.
Let stmts := m_stmts m.
Let items := VE.io_items decls.
Hypothesis Hinj : LibInj lib.
Hypothesis Hnf : LibNoFork lib.
Hypothesis Hpnd : PinsNoDup m.

Lemma lib_pin_nofork : forall kind p io, lib_pin lib kind p = Some io -> is_fork kind = false.
Proof.
  intros kind p io H. unfold lib_pin in H. unfold is_fork. destruct (String.eqb_spec kind FORK); auto.
  subst. unfold LibNoFork in Hnf. rewrite Hnf in H. discriminate.
Qed.
Lemma lib_pin_name : forall kind p io, lib_pin lib kind p = Some io -> exists s, p = PName s.
Proof.
  intros kind p io H. unfold lib_pin in H. destruct (VE.dget kind lib); [|discriminate].
  destruct p; eauto. discriminate.
Qed.

(** where the lines of the elaborated circuit come from.  [N] = first node id after pass 1 (every instance cell is
    below, every port / constant cell is above); [Din] = the (instance, pin) pairs whose reader line exists. *)
Definition InstOut (c : circ) (l d r : nat) : Prop :=
  exists kind name pins p s s', In (VInst kind name pins) stmts /\ In (PName p, VE.SOne s) pins /\
    dget name (cells c) = Some d /\ lib_pin lib kind (PName p) = Some (l_dpin (lst c l), true) /\
    out_sig_name decls s = Some s' /\ dget s' (forks c) = Some r.
Definition InstIn (Din : list (string * string)) (c : circ) (l r : nat) : Prop :=
  exists kind name pins p s, In (VInst kind name pins) stmts /\ In (PName p, VE.SOne s) pins /\ In (name, p) Din /\
    dget name (cells c) = Some r /\ lib_pin lib kind (PName p) = Some (l_rpin (lst c l), false).
Definition LOK (N : nat) (Din : list (string * string)) (c : circ) (l : nat) : Prop :=
  exists d r, l_drv (lst c l) = Some d /\ l_rdr (lst c l) = Some r /\
    (is_fork (kind_of c d) = true \/ N <= d \/ InstOut c l d r) /\
    (is_fork (kind_of c r) = true \/ N <= r \/ InstIn Din c l r).

Record EI (N : nat) (Din : list (string * string)) (c : circ) : Prop := mkEI {
  ei_cinv : CInv c;
  ei_single : SingleDrv c;
  ei_lines : forall l, In l (lines c) -> LOK N Din c l }.

Lemma LOK_mono : forall N Din Din' c c' l, CInv c -> In l (lines c) -> ext c c' -> incl Din Din' ->
  LOK N Din c l -> LOK N Din' c' l.
Proof.
  intros N Din Din' c c' l HI Hl E Hincl [d [r [H1 [H2 [H3 H4]]]]].
  assert (Hll : l < lnext c) by (apply cinv_line_lt; auto).
  assert (Hlst : lst c' l = lst c l) by (apply (ex_lst c c' E); auto).
  destruct HI as [HC HD]. destruct (cc_line [] c HC l Hl) as [d0 [r0 [A1 [A2 [A3 [A4 _]]]]]].
  rewrite H1 in A1. rewrite H2 in A2. inv A1. inv A2.
  assert (Hd : d0 < nnext c) by (apply (cc_nb [] c HC); auto).
  assert (Hr : r0 < nnext c) by (apply (cc_nb [] c HC); auto).
  exists d0, r0. rewrite Hlst. split; auto. split; auto. split.
  - rewrite (ext_kind c c') by auto. destruct H3 as [H3|[H3|H3]]; auto. right. right.
    destruct H3 as [kind [name [pins [p [s [s' [B1 [B2 [B3 [B4 [B5 B6]]]]]]]]]]].
    exists kind, name, pins, p, s, s'. rewrite Hlst. repeat split; auto.
    apply (ex_cells c c' E); auto. apply (ex_forks c c' E); auto.
  - rewrite (ext_kind c c') by auto. destruct H4 as [H4|[H4|H4]]; auto.
    right. right. destruct H4 as [kind [name [pins [p [s [B1 [B2 [B3 [B4 B5]]]]]]]]].
    exists kind, name, pins, p, s. rewrite Hlst. repeat split; auto. apply (ex_cells c c' E); auto.
Qed.

Lemma EI_weaken : forall N Din Din' c, incl Din Din' -> EI N Din c -> EI N Din' c.
Proof.
  intros N Din Din' c Hi [H1 H2 H3]. constructor; auto.
  intros l Hl. eapply LOK_mono; eauto. apply ext_refl.
Qed.

Lemma EI_add_node : forall N Din c name kind c' id, EI N Din c -> add_node c name kind = Some (c', id) -> EI N Din c'.
Proof.
  intros N Din c name kind c' id [H1 H2 H3] Hadd.
  destruct (add_node_spec c name kind c' id H1 Hadd) as [HI1 [E1 [-> [N1 [N2 [N3 [N4 [N5 [N6 [N7 [N8 _]]]]]]]]]]].
  constructor; auto.
  - intros f Hf Hk. rewrite N3 in Hf. apply in_app_or in Hf. destruct Hf as [Hf|[<-|[]]].
    + assert (f <> nnext c) by (apply cinv_node_lt in Hf; auto; lia).
      unfold ins_of, kind_of in *. rewrite N7 in * by auto. apply H2; auto.
    + left. unfold ins_of. rewrite N8. reflexivity.
  - intros l Hl. rewrite N4 in Hl. apply (LOK_mono N Din Din c c' l); auto. apply incl_refl.
Qed.

Lemma EI_set_io : forall N Din c p n, EI N Din c -> EI N Din (set_io c p n).
Proof.
  intros N Din c p n [H1 H2 H3]. destruct (set_io_spec c p n H1) as [HI E].
  constructor; auto.
Qed.

Lemma EI_new_fork : forall N Din c d dp name c' f, EI N Din c -> In d (nodes c) ->
  (forall p, dp = Some p -> out_at c d p = None /\ is_fork (kind_of c d) = false) ->
  new_fork_from c d dp name = Some (c', f) ->
  (is_fork (kind_of c d) = true \/ N <= d \/ InstOut c' (lnext c) d f) ->
  EI N Din c'.
Proof.
  intros N Din c d dp name c' f [H1 H2 H3] Hd Hdp Hnew Hjust.
  destruct (new_fork_spec c d dp name c' f H1 Hd Hdp Hnew)
    as [HI [E [-> [N1 [N2 [N3 [N4 [N5 [N6 [N7 [N8 [N9 [N10 [N11 [N12 [N13 [N14 N15]]]]]]]]]]]]]]]]].
  assert (Hdlt : d < nnext c) by (apply cinv_node_lt; auto).
  constructor; auto.
  - intros x Hx Hk. rewrite N3 in Hx. apply in_app_or in Hx. destruct Hx as [Hx|[<-|[]]].
    + assert (Hlt : x < nnext c) by (apply cinv_node_lt; auto).
      rewrite N14 by lia. rewrite (ext_kind c c') in Hk by auto. apply H2; auto.
    + right. eauto.
  - intros l Hl. rewrite N4 in Hl. apply in_app_or in Hl. destruct Hl as [Hl|[<-|[]]].
    + apply (LOK_mono N Din Din c c' l); auto. apply incl_refl.
    + exists d, (nnext c). rewrite N9. simpl. split; auto. split; auto. split.
      * rewrite (ext_kind c c') by auto. auto.
      * left. rewrite N11. reflexivity.
Qed.

(* a reader line at an explicit pin of a cell *)
Lemma EI_add_line_cell : forall N Din Din' c f n rp, EI N Din c -> incl Din Din' ->
  In f (nodes c) -> is_fork (kind_of c f) = true -> In n (nodes c) -> is_fork (kind_of c n) = false ->
  (forall p, rp = Some p -> in_at c n p = None) ->
  let c' := fst (add_line c f None n rp) in
  (N <= n \/ InstIn Din' c' (lnext c) n) ->
  EI N Din' c' /\ ext c c' /\ io c' = io c /\ In (lnext c) (lines c') /\
  lst c' (lnext c) = mkL (List.length (lines c)) (Some f) (pin_of (outs_of c f) None) (Some n) (pin_of (ins_of c n) rp) true.
Proof.
  intros N Din Din' c f n rp [H1 H2 H3] Hincl Hf Hfk Hn Hnk Hrp c' Hjust.
  destruct (add_line_spec c f None n rp H1 Hf Hn) as [HI E]. { discriminate. } { auto. }
  pose proof (add_line_facts c f None n rp) as F. cbv zeta in F. fold c' in F.
  destruct F as [_ [F1 [F2 [F3 [F4 [F5 [F6 [F0 [F7 [F8 [F9 [F10 [F11 [F12 [F13 F14]]]]]]]]]]]]]]].
  fold c' in HI, E. clearbody c'.
  split; [|split; [auto|split; [auto|split; [rewrite F4; apply in_or_app; right; left; auto|auto]]]].
  constructor; auto.
  - intros x Hx Hk. rewrite F3 in Hx. unfold kind_of in Hk. rewrite F8 in Hk. unfold ins_of. rewrite F12.
    destruct (Nat.eqb_spec x n). + subst. unfold kind_of in Hnk. congruence. + apply H2; auto.
  - intros l Hl. rewrite F4 in Hl. apply in_app_or in Hl. destruct Hl as [Hl|[<-|[]]].
    + apply (LOK_mono N Din Din' c c' l); auto.
    + exists f, n. rewrite F14. simpl. split; auto. split; auto. split.
      * left. unfold kind_of in *. rewrite F8. auto.
      * right. auto.
Qed.

(** ** pass 1: cells and the forks driven from their output pins *)
Definition PinOut (c : circ) (name p s0 : string) (idx : nat) : Prop :=
  exists n l f s', out_sig_name decls s0 = Some s' /\ dget name (cells c) = Some n /\ In l (lines c) /\
    l_drv (lst c l) = Some n /\ l_dpin (lst c l) = idx /\ l_rdr (lst c l) = Some f /\ dget s' (forks c) = Some f.
Lemma PinOut_mono : forall c c' name p s0 idx, CInv c -> ext c c' -> PinOut c name p s0 idx -> PinOut c' name p s0 idx.
Proof.
  intros c c' name p s0 idx HI E [n [l [f [s' [A1 [A2 [A3 [A4 [A5 [A6 A7]]]]]]]]]].
  exists n, l, f, s'. rewrite (ex_lst c c' E) by (apply cinv_line_lt; auto).
  repeat split; auto. apply (ex_cells c c' E); auto. apply (ex_lines c c' E); auto. apply (ex_forks c c' E); auto.
Qed.

Lemma p1_pins_spec : forall kind name pins n c0 c',
  NoDup (map fst pins) -> (forall N, EI N [] c0) -> dget name (cells c0) = Some n -> outs_of c0 n = [] ->
  In (VInst kind name pins) stmts ->
  fold_opt (p1_pin lib decls kind n) pins c0 = Some c' ->
  (forall N, EI N [] c') /\ ext c0 c' /\ io c' = io c0 /\ cells c' = cells c0 /\
  (forall p s, In (p, s) pins -> exists io, lib_pin lib kind p = Some io) /\
  (forall p s0 idx, In (PName p, VE.SOne s0) pins -> lib_pin lib kind (PName p) = Some (idx, true) ->
                    PinOut c' name p s0 idx).
Proof.
  intros kind name pins n c0 c' Hnd H0 Hn Ho Hin Hfold.
  set (I := fun (pre : list (pinkey * VE.sig)) (c : circ) =>
    (forall N, EI N [] c) /\ ext c0 c /\ io c = io c0 /\ cells c = cells c0 /\
    (forall q l, out_at c n q = Some l -> exists p s, In (p, s) pre /\ lib_pin lib kind p = Some (q, true)) /\
    (forall p s, In (p, s) pre -> exists io, lib_pin lib kind p = Some io) /\
    (forall p s0 idx, In (PName p, VE.SOne s0) pre -> lib_pin lib kind (PName p) = Some (idx, true) ->
                      PinOut c name p s0 idx)).
  assert (HI : I pins c').
  { apply (fold_opt_prefix (p1_pin lib decls kind n) I pins c0 c'); auto.
    - unfold I. split; auto. split. apply ext_refl. split; auto. split; auto. split.
      + intros q l H. unfold out_at in H. rewrite Ho in H. destruct q; discriminate.
      + split; intros; contradiction.
    - intros pre [p s] post c c1 Hpins [I1 [I2 [I3 [I4 [I5 [I6 I7]]]]]] Hstep.
      subst pins. unfold p1_pin in Hstep. simpl in Hstep.
      destruct (lib_pin lib kind p) as [[idx o]|] eqn:Hlp; [|discriminate].
      assert (Hs1a : forall p' s', In (p', s') (pre ++ [(p, s)]) -> exists io, lib_pin lib kind p' = Some io).
      { intros p' s' H. apply in_app_or in H. destruct H as [H|[H|[]]]; eauto. inv H. eauto. }
      destruct o.
      + (* an output pin *)
        destruct s as [s0|]; [|discriminate].
        destruct (out_sig_name decls s0) as [s'|] eqn:Hosn; [|discriminate].
        destruct (new_fork_from c n (Some idx) s') as [[c2 f]|] eqn:Hnew; [|discriminate]. simpl in Hstep. inv Hstep.
        destruct (lib_pin_name _ _ _ Hlp) as [pn ->].
        pose proof (ei_cinv _ _ _ (I1 0)) as HCI.
        assert (Hnc : dget name (cells c) = Some n) by (rewrite I4; auto).
        destruct (cinv_cell_get c name n HCI Hnc) as [Hnn [Hnk _]].
        assert (Hfree : out_at c n idx = None).
        { destruct (out_at c n idx) as [l|] eqn:Hoa; auto. exfalso.
          destruct (I5 idx l Hoa) as [p' [s'' [Hp' Hl']]].
          destruct (lib_pin_name _ _ _ Hl') as [pn' ->].
          assert (pn' = pn) by (eapply Hinj; eauto). subst pn'.
          rewrite map_app in Hnd. simpl in Hnd.
          eapply (NoDup_app_disj (map fst pre) (PName pn :: map fst post) (PName pn)); eauto.
          apply in_map_iff. exists (PName pn, s''). auto. left; auto. }
        assert (Hdp : forall q, Some idx = Some q -> out_at c n q = None /\ is_fork (kind_of c n) = false).
        { intros q E. inv E. auto. }
        destruct (new_fork_spec c n (Some idx) s' c1 f HCI Hnn Hdp Hnew)
          as [HI1 [E [-> [N1 [N2 [N3 [N4 [N5 [N6 [N7 [N8 [N9 [N10 [N11 [N12 [N13 [N14 N15]]]]]]]]]]]]]]]]].
        assert (Hfk : dget s' (forks c1) = Some (nnext c)).
        { rewrite N7, dget_app1, N6, String.eqb_refl. reflexivity. }
        assert (Hnc1 : dget name (cells c1) = Some n) by (rewrite N8; auto).
        unfold I. split; [|split; [|split; [|split; [|split; [|split]]]]].
        * intros N. apply (EI_new_fork N [] c n (Some idx) s' c1 (nnext c)); auto. right. right.
          exists kind, name, (pre ++ (PName pn, VE.SOne s0) :: post), pn, s0, s'. rewrite N9. simpl. repeat split; auto.
          apply in_or_app. right. left. auto.
        * eapply ext_trans; eauto.
        * congruence.
        * congruence.
        * intros q l Hq. unfold out_at in Hq. assert (Hne : n <> nnext c) by (apply cinv_node_lt in Hnn; auto; lia).
          rewrite N15 in Hq by auto. rewrite Nat.eqb_refl in Hq. rewrite nth_gset in Hq. simpl in Hq.
          destruct (Nat.eqb_spec q idx).
          -- subst q. exists (PName pn), (VE.SOne s0). split; auto. apply in_or_app. right. left. auto.
          -- destruct (I5 q l Hq) as [p' [s'' [A B]]]. exists p', s''. split; auto. apply in_or_app; auto.
        * exact Hs1a.
        * intros p' s0' idx' Hp' Hl'. apply in_app_or in Hp'. destruct Hp' as [Hp'|[Hp'|[]]].
          -- apply (PinOut_mono c c1); auto.
          -- injection Hp' as Ep Es. subst p' s0'. rewrite Hlp in Hl'. injection Hl' as Ei. subst idx'.
             exists n, (lnext c), (nnext c), s'. rewrite N9. simpl. repeat split; auto.
             rewrite N4. apply in_or_app. right. left. auto.
      + (* an input pin: nothing happens in pass 1 *)
        inv Hstep. unfold I. split; auto. split; auto. split; auto. split; auto. split; [|split].
        * intros q l Hq. destruct (I5 q l Hq) as [p' [s'' [A B]]]. exists p', s''. split; auto. apply in_or_app; auto.
        * exact Hs1a.
        * intros p' s0' idx' Hp' Hl'. apply in_app_or in Hp'. destruct Hp' as [Hp'|[Hp'|[]]]; auto.
          inv Hp'. rewrite Hlp in Hl'. discriminate. }
  destruct HI as [I1 [I2 [I3 [I4 [I5 [I6 I7]]]]]]. tauto.
Qed.

Lemma EI_empty : forall N, EI N [] empty.
Proof.
  intros N. constructor. apply cinv_empty. intros f []. intros l [].
Qed.

Definition P1post (pre : list vstmt) (c : circ) : Prop :=
  (forall N, EI N [] c) /\ io c = [] /\ NoDup (inst_names pre) /\
  (forall nm, In nm (inst_names pre) -> dget nm (cells c) <> None) /\
  (forall kind name pins, In (VInst kind name pins) pre -> is_fork kind = false ->
     exists n, dget name (cells c) = Some n /\ kind_of c n = kind) /\
  (forall kind name pins p s, In (VInst kind name pins) pre -> In (p, s) pins -> exists io, lib_pin lib kind p = Some io) /\
  (forall kind name pins p s0 idx, In (VInst kind name pins) pre -> In (PName p, VE.SOne s0) pins ->
     lib_pin lib kind (PName p) = Some (idx, true) -> PinOut c name p s0 idx).

Lemma pass1_spec : forall c1, elab_pass1 m lib = Some c1 -> P1post stmts c1.
Proof.
  intros c1 H. unfold elab_pass1 in H. fold decls in H. fold stmts in H.
  apply (fold_opt_prefix (p1_stmt lib decls) P1post stmts empty c1); auto.
  - unfold P1post. split. apply EI_empty. split; auto. split. constructor.
    split. intros nm []. split. intros ? ? ? []. split. intros ? ? ? ? ? []. intros ? ? ? ? ? ? [].
  - intros pre x post c c' Hst [I1 [I2 [I3 [I4 [I5 [I6 I7]]]]]] Hstep.
    pose proof (ei_cinv _ _ _ (I1 0)) as HCI.
    assert (Hmono : forall c2, ext c c2 -> io c2 = io c ->
              (forall nm, In nm (inst_names pre) -> dget nm (cells c2) <> None) /\
              (forall kind name pins, In (VInst kind name pins) pre -> is_fork kind = false ->
                 exists n, dget name (cells c2) = Some n /\ kind_of c2 n = kind) /\
              (forall kind name pins p s0 idx, In (VInst kind name pins) pre -> In (PName p, VE.SOne s0) pins ->
                 lib_pin lib kind (PName p) = Some (idx, true) -> PinOut c2 name p s0 idx)).
    { intros c2 E Hio. split; [|split].
      - intros nm Hnm. specialize (I4 nm Hnm). destruct (dget nm (cells c)) as [n|] eqn:Hd; [|congruence].
        rewrite (ex_cells c c2 E nm n Hd). discriminate.
      - intros kind name pins Hin Hk. destruct (I5 kind name pins Hin Hk) as [n [A B]].
        exists n. split. apply (ex_cells c c2 E); auto.
        rewrite (ext_kind c c2); auto. apply cinv_node_lt; auto. apply (cinv_cell_get c name n HCI A).
      - intros. apply (PinOut_mono c c2); eauto. }
    destruct x as [ds|kind name pins|lhs rhs]; simpl in Hstep.
    + (* declaration *)
      inv Hstep. unfold P1post. destruct (Hmono c' (ext_refl c') eq_refl) as [M1 [M2 M3]].
      assert (Hn : inst_names (pre ++ [VDecl ds]) = inst_names pre) by (rewrite inst_names_app; simpl; apply app_nil_r).
      rewrite Hn. split; auto. split; auto. split; auto. split; auto. split; [|split].
      * intros kind name pins Hin. apply in_app_or in Hin. destruct Hin as [Hin|[Hin|[]]]; [eauto|discriminate].
      * intros kind name pins p s Hin. apply in_app_or in Hin. destruct Hin as [Hin|[Hin|[]]]; [eauto|discriminate].
      * intros kind name pins p s0 idx Hin. apply in_app_or in Hin. destruct Hin as [Hin|[Hin|[]]]; [eauto|discriminate].
    + (* instantiation *)
      destruct (add_node c name kind) as [[ca n]|] eqn:Hadd; [|discriminate].
      destruct (add_node_spec c name kind ca n HCI Hadd) as [HIa [Ea [-> [N1 [N2 [N3 [N4 [N5 [N6 [N7 [N8 [N9 [N10 N11]]]]]]]]]]]]].
      assert (HEIa : forall N, EI N [] ca) by (intros N; eapply EI_add_node; eauto).
      assert (Hinst : In (VInst kind name pins) stmts) by (rewrite Hst; apply in_or_app; right; left; auto).
      destruct (is_fork kind) eqn:Hk.
      * (* the node is a fork: the library has no such cell, so there are no pins *)
        assert (pins = []).
        { destruct pins as [|[p s] r]; auto. simpl in Hstep. unfold p1_pin in Hstep. simpl in Hstep.
          destruct (lib_pin lib kind p) as [io|] eqn:Hlp; [|discriminate].
          apply lib_pin_nofork in Hlp. congruence. }
        subst pins. simpl in Hstep. injection Hstep as <-.
        destruct (Hmono ca Ea N5) as [M1 [M2 M3]].
        assert (Hn : inst_names (pre ++ [VInst kind name []]) = inst_names pre).
        { rewrite inst_names_app. simpl. rewrite Hk. apply app_nil_r. }
        unfold P1post. rewrite Hn. split; auto. split. congruence. split; auto. split; auto. split; [|split].
        -- intros kind' name' pins' Hin Hk'. apply in_app_or in Hin. destruct Hin as [Hin|[Hin|[]]]; [eauto|].
           injection Hin as <- <- <-. congruence.
        -- intros kind' name' pins' p s Hin Hp. apply in_app_or in Hin. destruct Hin as [Hin|[Hin|[]]]; [eauto|].
           injection Hin as <- <- <-. destruct Hp.
        -- intros kind' name' pins' p s0 idx Hin Hp. apply in_app_or in Hin. destruct Hin as [Hin|[Hin|[]]]; [eauto|].
           injection Hin as <- <- <-. destruct Hp.
      * (* a cell *)
        assert (Hnc : dget name (cells ca) = Some (nnext c)).
        { rewrite N11, dget_app1. unfold name_free in N9. rewrite Hk in N9. rewrite N9, String.eqb_refl. reflexivity. }
        assert (Hoa : outs_of ca (nnext c) = []) by (unfold outs_of; rewrite N8; reflexivity).
        destruct (p1_pins_spec kind name pins (nnext c) ca c' (Hpnd kind name pins Hinst) HEIa Hnc Hoa Hinst Hstep)
          as [Q1 [Q2 [Q3 [Q4 [Q5 Q6]]]]].
        assert (Ecc : ext c c') by (eapply ext_trans; eauto).
        destruct (Hmono c' Ecc) as [M1 [M2 M3]]. congruence.
        assert (Hfresh : ~ In name (inst_names pre)).
        { intros Hc. apply I4 in Hc. unfold name_free in N9. rewrite Hk in N9. congruence. }
        assert (Hn : inst_names (pre ++ [VInst kind name pins]) = inst_names pre ++ [name]).
        { rewrite inst_names_app. simpl. rewrite Hk. reflexivity. }
        assert (Hnc' : dget name (cells c') = Some (nnext c)) by (rewrite Q4; auto).
        unfold P1post. rewrite Hn. split; auto. split. congruence. split. apply NoDup_app_single; auto.
        split; [|split; [|split]].
        -- intros nm Hnm. apply in_app_or in Hnm. destruct Hnm as [Hnm|[<-|[]]]; auto. congruence.
        -- intros kind' name' pins' Hin Hk'. apply in_app_or in Hin. destruct Hin as [Hin|[Hin|[]]]; [eauto|].
           injection Hin as <- <- <-. exists (nnext c). split; auto.
           rewrite (ext_kind ca c') by (auto; lia). unfold kind_of. rewrite N8. reflexivity.
        -- intros kind' name' pins' p s Hin Hp. apply in_app_or in Hin. destruct Hin as [Hin|[Hin|[]]]; [eauto|].
           injection Hin as <- <- <-. eauto.
        -- intros kind' name' pins' p s0 idx Hin Hp Hl. apply in_app_or in Hin. destruct Hin as [Hin|[Hin|[]]]; [eauto|].
           injection Hin as <- <- <-. eauto.
    + (* assign: collected for pass 1.5 *)
      inv Hstep. unfold P1post. destruct (Hmono c' (ext_refl c') eq_refl) as [M1 [M2 M3]].
      assert (Hn : inst_names (pre ++ [VAssign lhs rhs]) = inst_names pre) by (rewrite inst_names_app; simpl; apply app_nil_r).
      rewrite Hn. split; auto. split; auto. split; auto. split; auto. split; [|split].
      * intros kind name pins Hin. apply in_app_or in Hin. destruct Hin as [Hin|[Hin|[]]]; [eauto|discriminate].
      * intros kind name pins p s Hin. apply in_app_or in Hin. destruct Hin as [Hin|[Hin|[]]]; [eauto|discriminate].
      * intros kind name pins p s0 idx Hin. apply in_app_or in Hin. destruct Hin as [Hin|[Hin|[]]]; [eauto|discriminate].
Qed.

(** ** port cells, io_nodes, input forks *)
Definition io_abs (c : circ) : list (option (string * string)) :=
  map (option_map (fun n => (name_of c n, kind_of c n))) (io c).
Definition tbl_abs (tbl : list (option (string * VE.skind))) : list (option (string * string)) :=
  map (option_map (fun it => (fst it, kind_str (snd it)))) tbl.
Definition IoNodes (c : circ) : Prop := forall n, In (Some n) (io c) -> In n (nodes c).

Lemma map_gset_setnth : forall {A B} (f : A -> B) l i v,
  map (option_map f) (gset l i (Some v)) = VE.set_nth (map (option_map f) l) i (f v).
Proof.
  intros A B f. induction l as [|x l IH]; intros i v.
  - induction i as [|i IHi]; simpl; auto. f_equal. apply IHi.
  - destruct i; simpl; auto. f_equal. apply IH.
Qed.
Lemma map_setnth : forall {A B} (f : A -> B) l i v,
  map (option_map f) (VE.set_nth l i v) = VE.set_nth (map (option_map f) l) i (f v).
Proof.
  intros A B f. induction l as [|x l IH]; intros i v.
  - induction i as [|i IHi]; simpl; auto. f_equal. apply IHi.
  - destruct i; simpl; auto. f_equal. apply IH.
Qed.
Lemma in_gset_some : forall {A} (l : list (option A)) i v x, In (Some x) (gset l i (Some v)) -> x = v \/ In (Some x) l.
Proof.
  intros A. induction l as [|y l IH]; intros i v x H.
  - induction i as [|i IHi]; simpl in H.
    + destruct H as [H|[]]. inv H. auto.
    + destruct H as [H|H]. discriminate. auto.
  - destruct i; simpl in H.
    + destruct H as [H|H]. inv H. auto. right. right. auto.
    + destruct H as [H|H]. right. left. auto. destruct (IH i v x H); auto. right. right. auto.
Qed.
Lemma io_abs_ext : forall c c', CInv c -> IoNodes c -> ext c c' -> io c' = io c -> io_abs c' = io_abs c.
Proof.
  intros c c' HI Hio E Heq. unfold io_abs. rewrite Heq. apply map_ext_in. intros [n|] Hn; simpl; auto.
  assert (n < nnext c) by (apply cinv_node_lt; auto).
  rewrite (ext_name c c'), (ext_kind c c'); auto.
Qed.
Lemma is_fork_kind_str : forall k, is_fork (kind_str k) = false.
Proof. destruct k; reflexivity. Qed.

Definition PPpost (N : nat) (c1 : circ) (pos : list (string * nat)) (pre : list (string * VE.skind)) (c : circ) : Prop :=
  EI N [] c /\ ext c1 c /\ IoNodes c /\ io_abs c = tbl_abs (fold_left (VE.io_fill pos) pre []) /\
  NoDup (map fst pre) /\
  (forall nm k, In (nm, k) pre -> exists n, dget nm (cells c) = Some n /\ N <= n /\ kind_of c n = kind_str k).

Lemma ports_spec : forall pos c1 c2, EI (nnext c1) [] c1 -> io c1 = [] ->
  fold_opt (port_item pos) items c1 = Some c2 -> PPpost (nnext c1) c1 pos items c2.
Proof.
  intros pos c1 c2 H1 Hio1 Hfold.
  apply (fold_opt_prefix (port_item pos) (PPpost (nnext c1) c1 pos) items c1 c2); auto.
  - unfold PPpost. split; auto. split. apply ext_refl. split. intros n Hn. rewrite Hio1 in Hn. destruct Hn.
    split. unfold io_abs. rewrite Hio1. reflexivity. split. constructor. intros ? ? [].
  - intros pre [nm k] post c c' Hit [I1 [I2 [I3 [I4 [I5 I6]]]]] Hstep.
    pose proof (ei_cinv _ _ _ I1) as HCI.
    unfold port_item in Hstep. simpl in Hstep.
    destruct (add_node c nm (kind_str k)) as [[ca n]|] eqn:Hadd; [|discriminate].
    destruct (add_node_spec c nm (kind_str k) ca n HCI Hadd) as [HIa [Ea [-> [N1 [N2 [N3 [N4 [N5 [N6 [N7 [N8 [N9 [N10 N11]]]]]]]]]]]]].
    unfold name_free in N9. rewrite is_fork_kind_str in *.
    assert (HEIa : EI (nnext c1) [] ca) by (eapply EI_add_node; eauto).
    assert (Hge : nnext c1 <= nnext c) by (apply (ex_nn c1 c I2)).
    assert (Hnc : dget nm (cells ca) = Some (nnext c)).
    { rewrite N11, dget_app1. rewrite N9, String.eqb_refl. reflexivity. }
    assert (Hnew_in : In (nnext c) (nodes ca)) by (rewrite N3; apply in_or_app; right; left; auto).
    assert (Hname : name_of ca (nnext c) = nm) by (unfold name_of; rewrite N8; reflexivity).
    assert (Hkind : kind_of ca (nnext c) = kind_str k) by (unfold kind_of; rewrite N8; reflexivity).
    assert (Hioa : io_abs ca = io_abs c) by (apply io_abs_ext; auto).
    set (cb := match VE.dget nm pos with Some p => set_io ca p (nnext c) | None => ca end) in *.
    assert (Hcb : EI (nnext c1) [] cb /\ ext ca cb /\ IoNodes cb /\ nnext cb = nnext ca /\ cells cb = cells ca /\
                  io_abs cb = tbl_abs (fold_left (VE.io_fill pos) (pre ++ [(nm, k)]) []) /\ nodes cb = nodes ca /\
                  nst cb = nst ca).
    { rewrite fold_left_app. simpl. unfold VE.io_fill at 1. simpl. subst cb.
      destruct (VE.dget nm pos) as [p|].
      - split. apply EI_set_io; auto. split. apply set_io_spec; auto. split.
        + intros x Hx. simpl in Hx. apply in_gset_some in Hx. destruct Hx as [->|Hx]; auto.
          simpl. rewrite N3. apply in_or_app. left. apply I3. rewrite <- N5. auto.
        + split; auto. split; auto. split; auto.
          unfold io_abs, tbl_abs. simpl. rewrite map_gset_setnth, map_setnth. simpl.
          fold (tbl_abs (fold_left (VE.io_fill pos) pre [])).
          change (map (option_map (fun n => (name_of (set_io ca p (nnext c)) n, kind_of (set_io ca p (nnext c)) n))) (io ca))
            with (io_abs ca).
          change (name_of (set_io ca p (nnext c)) (nnext c)) with (name_of ca (nnext c)).
          change (kind_of (set_io ca p (nnext c)) (nnext c)) with (kind_of ca (nnext c)).
          rewrite Hioa, I4, Hname, Hkind. reflexivity.
      - split; auto. split. apply ext_refl. split.
        + intros x Hx. rewrite N5 in Hx. rewrite N3. apply in_or_app. left. auto.
        + split; auto. split; auto. split; auto. rewrite Hioa. auto. }
    destruct Hcb as [B1 [B2 [B3 [B4 [B5 [B6 [B7 B8]]]]]]]. clearbody cb.
    assert (Hfresh : ~ In nm (map fst pre)).
    { intros Hc. apply in_map_iff in Hc. destruct Hc as [[nm' k'] [E Hin]]. simpl in E. subst nm'.
      destruct (I6 nm k' Hin) as [n' [A _]]. congruence. }
    assert (Hnd : NoDup (map fst (pre ++ [(nm, k)]))).
    { rewrite map_app. simpl. apply NoDup_app_single; auto. }
    assert (Hcells : forall cz, ext cb cz -> forall nm' k', In (nm', k') (pre ++ [(nm, k)]) ->
               exists n, dget nm' (cells cz) = Some n /\ nnext c1 <= n /\ kind_of cz n = kind_str k').
    { intros cz Ez nm' k' Hin. apply in_app_or in Hin. destruct Hin as [Hin|[Hin|[]]].
      - destruct (I6 nm' k' Hin) as [n' [A [B C]]]. exists n'.
        assert (n' < nnext c) by (apply cinv_node_lt; auto; apply (cinv_cell_get c nm' n' HCI A)).
        split. apply (ex_cells cb cz Ez). rewrite B5. apply (ex_cells c ca Ea). auto. split; auto.
        rewrite (ext_kind cb cz) by (auto; lia). unfold kind_of. rewrite B8. fold (kind_of ca n').
        rewrite (ext_kind c ca); auto.
      - injection Hin as <- <-. exists (nnext c). split. apply (ex_cells cb cz Ez). rewrite B5. auto.
        split; auto. rewrite (ext_kind cb cz) by (auto; lia). unfold kind_of. rewrite B8. auto. }
    destruct k; simpl in Hstep.
    + (* input: the port cell drives a fork of the same name *)
      destruct (new_fork_from cb (nnext c) None nm) as [[cc f]|] eqn:Hnew; [|discriminate]. simpl in Hstep.
      injection Hstep as <-.
      assert (Hin_b : In (nnext c) (nodes cb)) by (rewrite B7; auto).
      assert (Hdp : forall p, @None nat = Some p -> out_at cb (nnext c) p = None /\ is_fork (kind_of cb (nnext c)) = false)
        by (intros; discriminate).
      destruct (new_fork_spec cb (nnext c) None nm cc f (ei_cinv _ _ _ B1) Hin_b Hdp Hnew)
        as [HI1 [E [-> [M1 [M2 [M3 [M4 [M5 _]]]]]]]].
      unfold PPpost. split.
      { apply (EI_new_fork (nnext c1) [] cb (nnext c) None nm cc (nnext cb)); auto. }
      split. { eapply ext_trans; eauto. eapply ext_trans; eauto. eapply ext_trans; eauto. }
      split. { intros x Hx. rewrite M5 in Hx. rewrite M3. apply in_or_app. left. auto. }
      split. { rewrite <- B6. apply io_abs_ext; auto. apply (ei_cinv _ _ _ B1). }
      split; auto.
    + injection Hstep as <-. unfold PPpost. split; auto. split. { eapply ext_trans; eauto. eapply ext_trans; eauto. }
      split; auto. split; auto. split; auto. apply Hcells. apply ext_refl.
    + injection Hstep as <-. unfold PPpost. split; auto. split. { eapply ext_trans; eauto. eapply ext_trans; eauto. }
      split; auto. split; auto. split; auto. apply Hcells. apply ext_refl.
Qed.

(** ** pass 1.5: continuous assigns *)
Lemma const_kind_nofork : forall ch, is_fork (const_kind ch) = false.
Proof. intros ch. reflexivity. Qed.

Definition Resolved (c : circ) (ts : apair) : Prop :=
  exists l d r, In l (lines c) /\ l_drv (lst c l) = Some d /\ l_rdr (lst c l) = Some r /\
    ((dget (snd ts) (forks c) = Some d /\ dget (fst ts) (forks c) = Some r) \/
     (dget (fst ts) (forks c) = Some d /\ dget (snd ts) (forks c) = Some r) \/
     (exists ch k, is_const (snd ts) = true /\ String.get 3 (snd ts) = Some ch /\
                   dget (const_name ch k) (cells c) = Some d /\ kind_of c d = const_kind ch /\
                   dget (fst ts) (forks c) = Some r)).
Definition Unres (c : circ) (ts : apair) : Prop :=
  dget (fst ts) (forks c) = None /\ dget (snd ts) (forks c) = None /\ is_const (snd ts) = false.

Lemma Resolved_mono : forall c c' ts, CInv c -> ext c c' -> Resolved c ts -> Resolved c' ts.
Proof.
  intros c c' ts HI E [l [d [r [A1 [A2 [A3 A4]]]]]].
  exists l, d, r. rewrite (ex_lst c c' E) by (apply cinv_line_lt; auto).
  split. apply (ex_lines c c' E); auto. split; auto. split; auto.
  destruct A4 as [[B1 B2]|[[B1 B2]|[ch [k [B1 [B2 [B3 [B4 B5]]]]]]]].
  - left. split; apply (ex_forks c c' E); auto.
  - right. left. split; apply (ex_forks c c' E); auto.
  - right. right. exists ch, k. split; auto. split; auto. split. apply (ex_cells c c' E); auto.
    split. rewrite (ext_kind c c'); auto. apply cinv_node_lt; auto. apply (cinv_cell_get c _ d HI B3).
    apply (ex_forks c c' E); auto.
Qed.

Definition Rinv (N : nat) (c0 : circ) (k0 : nat) (pre : list apair) (x : est * list apair) : Prop :=
  let c := fst (fst x) in let k := snd (fst x) in let dfr := snd x in
  EI N [] c /\ ext c0 c /\ io c = io c0 /\
  (forall ts, In ts pre -> Resolved c ts \/ In ts dfr) /\
  List.length dfr <= List.length pre /\
  (List.length dfr = List.length pre -> c = c0 /\ k = k0 /\ forall ts, In ts pre -> Unres c0 ts).

Lemma asg_round_spec : forall N c0 k0 pending c k dfr, EI N [] c0 -> N <= nnext c0 ->
  fold_opt asg_step pending ((c0, k0), []) = Some ((c, k), dfr) -> Rinv N c0 k0 pending ((c, k), dfr).
Proof.
  intros N c0 k0 pending c k dfr H0 HN Hfold.
  apply (fold_opt_prefix asg_step (Rinv N c0 k0) pending ((c0, k0), []) ((c, k), dfr)); auto.
  - unfold Rinv. simpl. split; auto. split. apply ext_refl. split; auto. split. intros ts [].
    split; auto. intros _. split; auto. split; auto. intros ts [].
  - clear Hfold c k dfr. intros pre [t s] post [[c k] dfr] [[c' k'] dfr'] Hp [I1 [I2 [I3 [I4 [I5 I6]]]]] Hstep.
    simpl in I1, I2, I3, I4, I5, I6.
    pose proof (ei_cinv _ _ _ I1) as HCI.
    assert (HNc : N <= nnext c) by (pose proof (ex_nn c0 c I2); lia).
    assert (Hlen : List.length (pre ++ [(t, s)]) = S (List.length pre)) by (rewrite app_length; simpl; lia).
    (* what every changing case establishes *)
    assert (Hchg : forall c1 k1, EI N [] c1 -> ext c c1 -> io c1 = io c -> Resolved c1 (t, s) ->
              Rinv N c0 k0 (pre ++ [(t, s)]) ((c1, k1), dfr)).
    { intros c1 k1 A1 A2 A3 A4. unfold Rinv. simpl. split; auto. split. eapply ext_trans; eauto. split. congruence.
      split. { intros ts Hts. apply in_app_or in Hts. destruct Hts as [Hts|[<-|[]]]; auto.
               destruct (I4 ts Hts); auto. left. apply (Resolved_mono c c1); auto. }
      split. lia. intros Hc. lia. }
    unfold asg_step in Hstep.
    destruct (dget t (forks c)) as [ft|] eqn:Ht.
    + destruct (dget s (forks c)) as [fs|] eqn:Hs; [discriminate|].
      destruct (new_fork_from c ft None s) as [[c1 f]|] eqn:Hnew; [|discriminate]. injection Hstep as <- <- <-.
      destruct (cinv_fork_get c t ft HCI Ht) as [Hin [Hfk _]].
      assert (Hdp : forall p, @None nat = Some p -> out_at c ft p = None /\ is_fork (kind_of c ft) = false) by (intros; discriminate).
      destruct (new_fork_spec c ft None s c1 f HCI Hin Hdp Hnew)
        as [HI1 [E [-> [M1 [M2 [M3 [M4 [M5 [M6 [M7 [M8 [M9 _]]]]]]]]]]]].
      apply Hchg; auto.
      * apply (EI_new_fork N [] c ft None s c1 (nnext c)); auto.
      * exists (lnext c), ft, (nnext c). rewrite M9. simpl. split. rewrite M4. apply in_or_app. right. left. auto.
        split; auto. split; auto. right. left. split. apply (ex_forks c c1 E); auto.
        rewrite M7, dget_app1, M6, String.eqb_refl. reflexivity.
    + destruct (dget s (forks c)) as [fs|] eqn:Hs.
      * destruct (new_fork_from c fs None t) as [[c1 f]|] eqn:Hnew; [|discriminate]. injection Hstep as <- <- <-.
        destruct (cinv_fork_get c s fs HCI Hs) as [Hin [Hfk _]].
        assert (Hdp : forall p, @None nat = Some p -> out_at c fs p = None /\ is_fork (kind_of c fs) = false) by (intros; discriminate).
        destruct (new_fork_spec c fs None t c1 f HCI Hin Hdp Hnew)
          as [HI1 [E [-> [M1 [M2 [M3 [M4 [M5 [M6 [M7 [M8 [M9 _]]]]]]]]]]]].
        apply Hchg; auto.
        -- apply (EI_new_fork N [] c fs None t c1 (nnext c)); auto.
        -- exists (lnext c), fs, (nnext c). rewrite M9. simpl. split. rewrite M4. apply in_or_app. right. left. auto.
           split; auto. split; auto. left. split. apply (ex_forks c c1 E); auto.
           rewrite M7, dget_app1, M6, String.eqb_refl. reflexivity.
      * destruct (is_const s) eqn:Hcs.
        -- destruct (String.get 3 s) as [ch|] eqn:Hch; [|discriminate].
           destruct (add_node c (const_name ch k) (const_kind ch)) as [[ca cn]|] eqn:Hadd; [|discriminate].
           destruct (new_fork_from ca cn None t) as [[c2 f]|] eqn:Hnew; [|discriminate]. injection Hstep as <- <- <-.
           destruct (add_node_spec c _ _ ca cn HCI Hadd) as [HIa [Ea [-> [N1 [N2 [N3 [N4 [N5 [N6 [N7 [N8 [N9 [N10 N11]]]]]]]]]]]]].
           rewrite const_kind_nofork in *.
           assert (HEIa : EI N [] ca) by (eapply EI_add_node; eauto).
           assert (Hin : In (nnext c) (nodes ca)) by (rewrite N3; apply in_or_app; right; left; auto).
           assert (Hdp : forall p, @None nat = Some p -> out_at ca (nnext c) p = None /\ is_fork (kind_of ca (nnext c)) = false) by (intros; discriminate).
           destruct (new_fork_spec ca (nnext c) None t c2 f HIa Hin Hdp Hnew)
             as [HI1 [E [-> [M1 [M2 [M3 [M4 [M5 [M6 [M7 [M8 [M9 _]]]]]]]]]]]].
           apply Hchg; auto.
           ++ apply (EI_new_fork N [] ca (nnext c) None t c2 (nnext ca)); auto.
           ++ eapply ext_trans; eauto.
           ++ congruence.
           ++ exists (lnext ca), (nnext c), (nnext ca). rewrite M9. simpl. split. rewrite M4. apply in_or_app. right. left. auto.
              split; auto. split; auto. right. right. exists ch, k. split; auto. split; auto.
              split. { rewrite M8, N11, dget_app1. unfold name_free in N9. rewrite const_kind_nofork in N9.
                       rewrite N9, String.eqb_refl. reflexivity. }
              split. { rewrite (ext_kind ca c2) by (auto; lia). unfold kind_of. rewrite N8. reflexivity. }
              rewrite M7, dget_app1, M6, String.eqb_refl. reflexivity.
        -- injection Hstep as <- <- <-. unfold Rinv. simpl. split; auto. split; auto. split; auto.
           split. { intros ts Hts. apply in_app_or in Hts. destruct Hts as [Hts|[<-|[]]].
                    - destruct (I4 ts Hts); auto. right. apply in_or_app; auto.
                    - right. apply in_or_app. right. left. auto. }
           rewrite !app_length. simpl. split. lia. intros Hc.
           destruct I6 as [-> [-> I6]]. lia. split; auto. split; auto.
           intros ts Hts. apply in_app_or in Hts. destruct Hts as [Hts|[<-|[]]]; auto.
           unfold Unres. simpl. auto.
Qed.

Lemma asg_loop_spec : forall N fuel c0 k0 pending c' k', List.length pending < fuel -> EI N [] c0 -> N <= nnext c0 ->
  asg_loop fuel (c0, k0) pending = Some (c', k') ->
  EI N [] c' /\ ext c0 c' /\ io c' = io c0 /\ forall ts, In ts pending -> Resolved c' ts \/ Unres c' ts.
Proof.
  intros N. induction fuel as [|fuel IH]; intros c0 k0 pending c' k' Hlen H0 HN Hloop. lia.
  destruct pending as [|ts0 rest].
  - simpl in Hloop. injection Hloop as <- <-. split; auto. split. apply ext_refl. split; auto. intros ts [].
  - cbn [asg_loop] in Hloop. remember (ts0 :: rest) as pending eqn:Hpend.
    match type of Hloop with match ?X with _ => _ end = _ => destruct X as [[[c1 k1] dfr]|] eqn:Hround end; [|discriminate].
    destruct (asg_round_spec N c0 k0 pending c1 k1 dfr H0 HN Hround) as [R1 [R2 [R3 [R4 [R5 R6]]]]].
    simpl in R1, R2, R3, R4, R5, R6.
    destruct (Nat.eqb_spec (List.length dfr) (List.length pending)) as [Heq|Hne].
    + injection Hloop as <- <-. destruct (R6 Heq) as [-> [-> R7]]. split; auto.
    + assert (Hlt : List.length dfr < fuel) by lia.
      assert (HN1 : N <= nnext c1) by (pose proof (ex_nn c0 c1 R2); lia).
      destruct (IH c1 k1 dfr c' k' Hlt R1 HN1 Hloop) as [Q1 [Q2 [Q3 Q4]]].
      split; auto. split. eapply ext_trans; eauto. split. congruence.
      intros ts Hts. destruct (R4 ts Hts) as [Hr|Hd]; auto.
      left. apply (Resolved_mono c1 c'); auto. apply (ei_cinv _ _ _ R1).
Qed.

(** ** pass 2: reader lines *)
Definition Static (N : nat) (c : circ) : Prop :=
  NoDup (inst_names stmts) /\
  (forall kind name pins, In (VInst kind name pins) stmts -> is_fork kind = false ->
     exists n, dget name (cells c) = Some n /\ n < N /\ kind_of c n = kind) /\
  (forall kind name pins p s, In (VInst kind name pins) stmts -> In (p, s) pins -> exists io, lib_pin lib kind p = Some io).
Lemma Static_mono : forall N c c', CInv c -> ext c c' -> Static N c -> Static N c'.
Proof.
  intros N c c' HI E [S1 [S2 S3]]. split; auto. split; auto.
  intros kind name pins Hin Hk. destruct (S2 kind name pins Hin Hk) as [n [A [B C]]].
  exists n. split. apply (ex_cells c c' E); auto. split; auto.
  rewrite (ext_kind c c'); auto. apply cinv_node_lt; auto. apply (cinv_cell_get c name n HI A).
Qed.

(* the reader pin of an (instance, pin) pair that was not handled yet is free *)
Lemma pin_free : forall N Din c kind name pins n pn s idx, EI N Din c -> Static N c ->
  In (VInst kind name pins) stmts -> is_fork kind = false -> dget name (cells c) = Some n ->
  In (PName pn, s) pins -> lib_pin lib kind (PName pn) = Some (idx, false) -> ~ In (name, pn) Din ->
  in_at c n idx = None.
Proof.
  intros N Din c kind name pins n pn s idx [HCI _ HL] [S1 [S2 S3]] Hin Hk Hn Hp Hlp Hnot.
  destruct (in_at c n idx) as [l|] eqn:Hia; auto. exfalso.
  destruct (cinv_cell_get c name n HCI Hn) as [Hnn [Hnk Hname]].
  destruct (S2 kind name pins Hin Hk) as [n0 [A [B C]]]. rewrite Hn in A. injection A as <-.
  destruct HCI as [HC HD].
  destruct (cc_ins [] c HC n idx l (or_introl Hnn) Hia) as [Hl [Hr Hrp]].
  destruct (HL l Hl) as [d [r [L1 [L2 [L3 L4]]]]]. rewrite Hr in L2. injection L2 as <-.
  destruct L4 as [L4|[L4|L4]]; try congruence; try lia.
  destruct L4 as [kind' [name' [pins' [p' [s' [B1 [B2 [B3 [B4 B5]]]]]]]]].
  assert (name' = name).
  { destruct (cinv_cell_get c name' n (conj HC HD) B4) as [_ [_ E]]. congruence. }
  subst name'. rewrite Hrp in B5.
  assert (Hk' : is_fork kind' = false) by (eapply lib_pin_nofork; eauto).
  destruct (inst_uniq stmts kind' name pins' kind pins S1 B1 Hin Hk' Hk) as [-> ->].
  assert (p' = pn) by (eapply Hinj; eauto). subst p'. auto.
Qed.

(* the fork that a signal expression on a reader pin resolves to *)
Definition SrcName (c : circ) (f : nat) (s : string) : Prop :=
  dget s (forks c) = Some f \/
  (exists dcl x, VE.dget s decls = Some dcl /\ VE.decl_names dcl = [x] /\ dget x (forks c) = Some f) \/
  (exists ch k cn l0, is_const s = true /\ String.get 3 s = Some ch /\ dget (const_name ch k) (forks c) = Some f /\
     dget (const_name ch k) (cells c) = Some cn /\ kind_of c cn = const_kind ch /\
     In l0 (lines c) /\ l_drv (lst c l0) = Some cn /\ l_rdr (lst c l0) = Some f).
Definition PinIn (bf : bool) (c : circ) (name p s : string) (idx : nat) : Prop :=
  exists n l d, dget name (cells c) = Some n /\ In l (lines c) /\ l_rdr (lst c l) = Some n /\ l_rpin (lst c l) = idx /\
    l_drv (lst c l) = Some d /\
    if bf then exists f l', dget (branch_name (name_of c f) name p) (forks c) = Some d /\ In l' (lines c) /\
                            l_drv (lst c l') = Some f /\ l_rdr (lst c l') = Some d /\ SrcName c f s
    else SrcName c d s.
Lemma SrcName_mono : forall c c' f s, CInv c -> ext c c' -> SrcName c f s -> SrcName c' f s.
Proof.
  intros c c' f s HI E [H|[[dcl [x [A1 [A2 A3]]]]|[ch [k [cn [l0 [A1 [A2 [A3 [A4 [A5 [A6 [A7 A8]]]]]]]]]]]]].
  - left. apply (ex_forks c c' E); auto.
  - right. left. exists dcl, x. split; auto. split; auto. apply (ex_forks c c' E); auto.
  - right. right. exists ch, k, cn, l0. rewrite (ex_lst c c' E) by (apply cinv_line_lt; auto).
    split; auto. split; auto. split. apply (ex_forks c c' E); auto. split. apply (ex_cells c c' E); auto.
    split. rewrite (ext_kind c c'); auto. apply cinv_node_lt; auto. apply (cinv_cell_get c _ cn HI A4).
    split; auto. apply (ex_lines c c' E); auto.
Qed.
Lemma PinIn_mono : forall bf c c' name p s idx, CInv c -> ext c c' -> PinIn bf c name p s idx -> PinIn bf c' name p s idx.
Proof.
  intros bf c c' name p s idx HI E [n [l [d [A1 [A2 [A3 [A4 [A5 A6]]]]]]]].
  exists n, l, d. rewrite (ex_lst c c' E) by (apply cinv_line_lt; auto).
  split. apply (ex_cells c c' E); auto. split. apply (ex_lines c c' E); auto. split; auto. split; auto. split; auto.
  destruct bf.
  - destruct A6 as [f [l' [B1 [B2 [B3 [B4 B5]]]]]]. exists f, l'.
    rewrite (ex_lst c c' E) by (apply cinv_line_lt; auto).
    assert (Hf : f < nnext c).
    { destruct HI as [HC HD]. destruct (cc_line [] c HC l' B2) as [d0 [r0 [C1 [_ [C3 _]]]]].
      rewrite B3 in C1. injection C1 as <-. apply (cc_nb [] c HC); auto. }
    rewrite (ext_name c c') by auto.
    split. apply (ex_forks c c' E); auto. split. apply (ex_lines c c' E); auto. split; auto. split; auto.
    apply (SrcName_mono c c'); auto.
  - apply (SrcName_mono c c'); auto.
Qed.

Lemma p2_const_spec : forall N Din c k s0 c1 k1 s, EI N Din c -> N <= nnext c ->
  p2_const (c, k) s0 = Some ((c1, k1), s) ->
  EI N Din c1 /\ ext c c1 /\ io c1 = io c /\
  ((is_const s0 = false /\ s = s0 /\ c1 = c) \/
   (exists ch cn f l0, is_const s0 = true /\ String.get 3 s0 = Some ch /\ s = const_name ch k /\
      dget s (forks c1) = Some f /\ dget s (cells c1) = Some cn /\ kind_of c1 cn = const_kind ch /\
      In l0 (lines c1) /\ l_drv (lst c1 l0) = Some cn /\ l_rdr (lst c1 l0) = Some f)).
Proof.
  intros N Din c k s0 c1 k1 s H0 HN H. unfold p2_const in H. simpl in H.
  pose proof (ei_cinv _ _ _ H0) as HCI.
  destruct (is_const s0) eqn:Hc.
  - destruct (String.get 3 s0) as [ch|] eqn:Hch; [|discriminate].
    destruct (add_node c (const_name ch k) (const_kind ch)) as [[ca cn]|] eqn:Hadd; [|discriminate].
    destruct (new_fork_from ca cn None (const_name ch k)) as [[c2 f]|] eqn:Hnew; [|discriminate].
    injection H as <- <- <-.
    destruct (add_node_spec c _ _ ca cn HCI Hadd) as [HIa [Ea [-> [N1 [N2 [N3 [N4 [N5 [N6 [N7 [N8 [N9 [N10 N11]]]]]]]]]]]]].
    unfold name_free in N9. rewrite const_kind_nofork in *.
    assert (HEIa : EI N Din ca) by (eapply EI_add_node; eauto).
    assert (Hin : In (nnext c) (nodes ca)) by (rewrite N3; apply in_or_app; right; left; auto).
    assert (Hdp : forall p, @None nat = Some p -> out_at ca (nnext c) p = None /\ is_fork (kind_of ca (nnext c)) = false) by (intros; discriminate).
    destruct (new_fork_spec ca (nnext c) None _ c2 f HIa Hin Hdp Hnew)
      as [HI1 [E [-> [M1 [M2 [M3 [M4 [M5 [M6 [M7 [M8 [M9 _]]]]]]]]]]]].
    split. { apply (EI_new_fork N Din ca (nnext c) None (const_name ch k) c2 (nnext ca)); auto. }
    split. { eapply ext_trans; eauto. }
    split. congruence.
    right. exists ch, (nnext c), (nnext ca), (lnext ca). split; auto. split; auto. split; auto.
    split. { rewrite M7, dget_app1, M6, String.eqb_refl. reflexivity. }
    split. { rewrite M8, N11, dget_app1, N9, String.eqb_refl. reflexivity. }
    split. { rewrite (ext_kind ca c2) by (auto; lia). unfold kind_of. rewrite N8. reflexivity. }
    rewrite M9. simpl. split; auto. rewrite M4. apply in_or_app. right. left. auto.
  - injection H as <- <- <-. split; auto. split. apply ext_refl. split; auto.
Qed.

Lemma p2_resolve_spec : forall N Din c s c2 fork, EI N Din c -> p2_resolve decls c s = Some (c2, fork) ->
  EI N Din c2 /\ ext c c2 /\ io c2 = io c /\ In fork (nodes c2) /\ is_fork (kind_of c2 fork) = true /\
  (dget s (forks c2) = Some fork \/
   (exists dcl x, VE.dget s decls = Some dcl /\ VE.decl_names dcl = [x] /\ dget x (forks c2) = Some fork)) /\
  (forall f0, dget s (forks c) = Some f0 -> c2 = c /\ fork = f0).
Proof.
  intros N Din c s c2 fork H0 H. pose proof (ei_cinv _ _ _ H0) as HCI. unfold p2_resolve in H.
  assert (Hfound : forall x, dget x (forks c) = Some fork -> c2 = c -> In fork (nodes c2) /\ is_fork (kind_of c2 fork) = true).
  { intros x Hx ->. destruct (cinv_fork_get c x fork HCI Hx) as [A [B _]]. auto. }
  assert (Hnew : dget s (forks c) = None -> add_node c s FORK = Some (c2, fork) ->
            EI N Din c2 /\ ext c c2 /\ io c2 = io c /\ In fork (nodes c2) /\ is_fork (kind_of c2 fork) = true /\
            (dget s (forks c2) = Some fork \/
             (exists dcl x, VE.dget s decls = Some dcl /\ VE.decl_names dcl = [x] /\ dget x (forks c2) = Some fork)) /\
            (forall f0, dget s (forks c) = Some f0 -> c2 = c /\ fork = f0)).
  { intros Hs Hadd.
    destruct (add_node_spec c s FORK c2 fork HCI Hadd) as [HIa [Ea [-> [N1 [N2 [N3 [N4 [N5 [N6 [N7 [N8 [N9 [N10 N11]]]]]]]]]]]]].
    change (is_fork FORK) with true in *.
    split. eapply EI_add_node; eauto. split; auto. split; auto.
    split. rewrite N3. apply in_or_app. right. left. auto.
    split. unfold kind_of. rewrite N8. reflexivity.
    split. left. rewrite N10, dget_app1, Hs, String.eqb_refl. reflexivity.
    intros f0 Hf0. congruence. }
  destruct (dget s (forks c)) as [f|] eqn:Hs.
  - injection H as <- <-. destruct (Hfound s Hs eq_refl). split; auto. split. apply ext_refl. split; auto. split; auto. split; auto.
    split; auto. intros f0 Hf0. injection Hf0 as <-. auto.
  - destruct (VE.dget s decls) as [dcl|] eqn:Hd; [|apply Hnew; auto].
    destruct (VE.decl_names dcl) as [|x [|y r]] eqn:Hn; [apply Hnew; auto| |apply Hnew; auto].
    destruct (dget x (forks c)) as [f|] eqn:Hx; [|apply Hnew; auto].
    injection H as <- <-. destruct (Hfound x Hx eq_refl). split; auto. split. apply ext_refl. split; auto. split; auto. split; auto.
    split. right. exists dcl, x. auto. intros f0 Hf0. discriminate.
Qed.

Lemma p2_pin_spec : forall bf N Din c k kind name pins p s c' k', EI N Din c -> N <= nnext c -> Static N c ->
  In (VInst kind name pins) stmts -> In (p, s) pins ->
  (forall pn, p = PName pn -> ~ In (name, pn) Din) ->
  p2_pin lib decls bf kind name (c, k) (p, s) = Some (c', k') ->
  EI N (Din ++ pin_names name [(p, s)]) c' /\ ext c c' /\ io c' = io c /\
  (forall pn s0 idx, p = PName pn -> s = VE.SOne s0 -> lib_pin lib kind (PName pn) = Some (idx, false) ->
                     PinIn bf c' name pn s0 idx).
Proof.
  intros bf N Din c k kind name pins p s c' k' H0 HN HS Hin Hp Hnot H.
  pose proof (ei_cinv _ _ _ H0) as HCI.
  destruct HS as [S1 [S2 S3]].
  destruct (S3 kind name pins p s Hin Hp) as [[idx o] Hlp].
  assert (Hk : is_fork kind = false) by (eapply lib_pin_nofork; eauto).
  destruct (lib_pin_name _ _ _ Hlp) as [pn ->].
  destruct (S2 kind name pins Hin Hk) as [n [Hn [HnN Hnk]]].
  unfold p2_pin in H. cbn [fst snd] in H. rewrite Hn, Hnk, Hlp in H.
  assert (Hdin : Din ++ pin_names name [(PName pn, s)] = Din ++ [(name, pn)]) by reflexivity.
  rewrite Hdin.
  destruct o.
  - (* an output pin: handled in pass 1 *)
    injection H as <- <-. split. eapply EI_weaken; eauto. apply incl_appl, incl_refl.
    split. apply ext_refl. split; auto. intros pn' s0 idx' E _ Hl. injection E as <-. congruence.
  - destruct s as [s0|]; [|discriminate].
    destruct (p2_const (c, k) s0) as [[[c1 k1] s1]|] eqn:Hconst; [|discriminate].
    destruct (p2_resolve decls c1 s1) as [[c2 fork]|] eqn:Hres; [|discriminate].
    destruct (p2_const_spec N Din c k s0 c1 k1 s1 H0 HN Hconst) as [A1 [A2 [A3 A4]]].
    destruct (p2_resolve_spec N Din c1 s1 c2 fork A1 Hres) as [B1 [B2 [B3 [B4 [B5 [B6 B7]]]]]].
    pose proof (ei_cinv _ _ _ A1) as HCI1. pose proof (ei_cinv _ _ _ B1) as HCI2.
    assert (E02 : ext c c2) by (eapply ext_trans; eauto).
    (* the fork the signal resolves to *)
    assert (Hsrc : SrcName c2 fork s0).
    { destruct A4 as [[C1 [-> ->]]|[ch [cn [f [l0 [C1 [C2 [C3 [C4 [C5 [C6 [C7 [C8 C9]]]]]]]]]]]]].
      - destruct B6 as [B6|B6]; [left; auto|right; left; auto].
      - destruct (B7 f C4) as [-> ->]. right. right. exists ch, k, cn, l0. subst s1. repeat split; auto. }
    assert (Hn2 : dget name (cells c2) = Some n) by (apply (ex_cells c c2 E02); auto).
    destruct (cinv_cell_get c2 name n HCI2 Hn2) as [Hnn2 [Hnk2 Hnname2]].
    (* the branch fork *)
    set (bfr := if bf then new_fork_from c2 fork None (branch_name (name_of c2 fork) (name_of c2 n) pn)
                else Some (c2, fork)) in *.
    destruct bfr as [[c3 fk]|] eqn:Hbfr; [|discriminate]. cbv beta iota in H.
    remember (fst (add_line c3 fk None n (Some idx))) as c4 eqn:Hc4. injection H as <- <-.
    assert (Hb : EI N Din c3 /\ ext c2 c3 /\ io c3 = io c2 /\ In fk (nodes c3) /\ is_fork (kind_of c3 fk) = true /\
                 if bf then exists l', dget (branch_name (name_of c3 fork) name pn) (forks c3) = Some fk /\ In l' (lines c3) /\
                                       l_drv (lst c3 l') = Some fork /\ l_rdr (lst c3 l') = Some fk
                 else fk = fork).
    { subst bfr. destruct bf.
      - assert (Hdp : forall q, @None nat = Some q -> out_at c2 fork q = None /\ is_fork (kind_of c2 fork) = false) by (intros; discriminate).
        destruct (new_fork_spec c2 fork None _ c3 fk HCI2 B4 Hdp Hbfr)
          as [HI3 [E3 [-> [M1 [M2 [M3 [M4 [M5 [M6 [M7 [M8 [M9 [M10 [M11 _]]]]]]]]]]]]]].
        split. { apply (EI_new_fork N Din c2 fork None (branch_name (name_of c2 fork) (name_of c2 n) pn) c3 (nnext c2)); auto. }
        split; auto. split; auto. split. rewrite M3. apply in_or_app. right. left. auto.
        split. rewrite M11. reflexivity.
        exists (lnext c2). rewrite (ext_name c2 c3) by (auto; apply cinv_node_lt; auto).
        rewrite Hnname2 in *. split. rewrite M7, dget_app1, M6, String.eqb_refl. reflexivity.
        split. rewrite M4. apply in_or_app. right. left. auto. rewrite M9. simpl. auto.
      - injection Hbfr as <- <-. split; auto. split. apply ext_refl. auto. }
    destruct Hb as [D1 [D2 [D3 [D4 [D5 D6]]]]]. clear Hbfr. clearbody bfr.
    pose proof (ei_cinv _ _ _ D1) as HCI3.
    assert (E03 : ext c c3) by (eapply ext_trans; eauto).
    assert (Hn3 : dget name (cells c3) = Some n) by (apply (ex_cells c c3 E03); auto).
    destruct (cinv_cell_get c3 name n HCI3 Hn3) as [Hnn3 [Hnk3 _]].
    assert (HS3 : Static N c3) by (apply (Static_mono N c c3); auto; split; auto).
    assert (Hfree : in_at c3 n idx = None).
    { apply (pin_free N Din c3 kind name pins n pn (VE.SOne s0) idx); auto. }
    assert (Hrp : forall q, Some idx = Some q -> in_at c3 n q = None) by (intros q E; injection E as <-; auto).
    pose proof (add_line_facts c3 fk None n (Some idx)) as F. cbv zeta in F. rewrite <- Hc4 in F.
    destruct F as [_ [_ [_ [_ [_ [_ [G6 [_ [_ [_ [_ [_ [_ [_ [_ G14]]]]]]]]]]]]]]].
    pose proof (EI_add_line_cell N Din (Din ++ [(name, pn)]) c3 fk n (Some idx) D1 (incl_appl _ (incl_refl _)) D4 D5 Hnn3 Hnk3 Hrp) as G.
    cbv zeta in G. rewrite <- Hc4 in G.
    destruct G as [F1 [F2 [F3 [F4 F5]]]].
    { right. exists kind, name, pins, pn, s0.
      split; auto. split; auto. split. apply in_or_app. right. left. auto.
      split. rewrite G6. auto. rewrite G14. simpl. auto. }
    clear Hc4.
    split; auto. split. eapply ext_trans; eauto. split. congruence.
    intros pn' s0' idx' E Es Hl. injection E as <-. injection Es as <-. rewrite Hlp in Hl. injection Hl as <-.
    exists n, (lnext c3), fk. rewrite F5. simpl.
    split. apply (ex_cells c3 c4 F2); auto. split; auto. split; auto. split; auto. split; auto.
    assert (Hsrc4 : SrcName c4 fork s0).
    { apply (SrcName_mono c2 c4); auto. eapply ext_trans; eauto. }
    destruct bf.
    + destruct D6 as [l' [G1 [G2 [G3 G4]]]]. exists fork, l'.
      assert (Hfl : fork < nnext c3) by (apply cinv_node_lt; auto; apply (ex_nodes c2 c3 D2); auto).
      rewrite (ext_name c3 c4) by auto. rewrite (ex_lst c3 c4 F2) by (apply cinv_line_lt; auto).
      split. apply (ex_forks c3 c4 F2); auto. split. apply (ex_lines c3 c4 F2); auto. auto.
    + subst fk. auto.
Qed.

Lemma p2_pins_spec : forall bf N Din0 c0 k0 kind name pins c' k', EI N Din0 c0 -> N <= nnext c0 -> Static N c0 ->
  In (VInst kind name pins) stmts -> NoDup (map fst pins) ->
  (forall pn, In (PName pn) (map fst pins) -> ~ In (name, pn) Din0) ->
  fold_opt (p2_pin lib decls bf kind name) pins (c0, k0) = Some (c', k') ->
  EI N (Din0 ++ pin_names name pins) c' /\ ext c0 c' /\ io c' = io c0 /\
  (forall pn s0 idx, In (PName pn, VE.SOne s0) pins -> lib_pin lib kind (PName pn) = Some (idx, false) ->
                     PinIn bf c' name pn s0 idx).
Proof.
  intros bf N Din0 c0 k0 kind name pins c' k' H0 HN HS Hin Hnd Hnot Hfold.
  set (I := fun (pre : list (pinkey * VE.sig)) (x : est) =>
    EI N (Din0 ++ pin_names name pre) (fst x) /\ ext c0 (fst x) /\ io (fst x) = io c0 /\
    (forall pn s0 idx, In (PName pn, VE.SOne s0) pre -> lib_pin lib kind (PName pn) = Some (idx, false) ->
                       PinIn bf (fst x) name pn s0 idx)).
  assert (HI : I pins (c', k')).
  { apply (fold_opt_prefix (p2_pin lib decls bf kind name) I pins (c0, k0) (c', k')); auto.
    - unfold I. simpl. rewrite app_nil_r. split; auto. split. apply ext_refl. split; auto. intros ? ? ? [].
    - intros pre [p s] post [c k] [c1 k1] Hpins [I1 [I2 [I3 I4]]] Hstep. simpl in I1, I2, I3, I4.
      pose proof (ei_cinv _ _ _ H0) as HCI0. pose proof (ei_cinv _ _ _ I1) as HCI.
      assert (HNc : N <= nnext c) by (pose proof (ex_nn c0 c I2); lia).
      assert (HSc : Static N c) by (apply (Static_mono N c0 c); auto).
      assert (Hp : In (p, s) pins) by (rewrite Hpins; apply in_or_app; right; left; auto).
      assert (Hn : forall pn, p = PName pn -> ~ In (name, pn) (Din0 ++ pin_names name pre)).
      { intros pn -> Hc. apply in_app_or in Hc. destruct Hc as [Hc|Hc].
        - apply (Hnot pn); auto. apply in_map_iff. exists (PName pn, s). auto.
        - apply pin_names_in in Hc. destruct Hc as [_ Hc].
          rewrite Hpins in Hnd. rewrite map_app in Hnd. simpl in Hnd.
          eapply (NoDup_app_disj (map fst pre) (PName pn :: map fst post) (PName pn)); eauto. left; auto. }
      destruct (p2_pin_spec bf N _ c k kind name pins p s c1 k1 I1 HNc HSc Hin Hp Hn Hstep) as [A1 [A2 [A3 A4]]].
      unfold I. simpl. rewrite pin_names_app, app_assoc. split; auto. split. eapply ext_trans; eauto. split. congruence.
      intros pn s0 idx Hpn Hl. apply in_app_or in Hpn. destruct Hpn as [Hpn|[Hpn|[]]].
      + apply (PinIn_mono bf c c1); auto.
      + injection Hpn as -> ->. apply A4; auto. }
  destruct HI as [I1 [I2 [I3 I4]]]. simpl in *. tauto.
Qed.

Lemma p2_stmts_spec : forall bf N c3 k3 c4 k4, EI N [] c3 -> N <= nnext c3 -> Static N c3 ->
  fold_opt (p2_stmt lib decls bf) stmts (c3, k3) = Some (c4, k4) ->
  EI N (din stmts) c4 /\ ext c3 c4 /\ io c4 = io c3 /\
  (forall kind name pins pn s0 idx, In (VInst kind name pins) stmts -> In (PName pn, VE.SOne s0) pins ->
     lib_pin lib kind (PName pn) = Some (idx, false) -> PinIn bf c4 name pn s0 idx).
Proof.
  intros bf N c3 k3 c4 k4 H0 HN HS Hfold.
  set (I := fun (pre : list vstmt) (x : est) =>
    EI N (din pre) (fst x) /\ ext c3 (fst x) /\ io (fst x) = io c3 /\
    (forall kind name pins pn s0 idx, In (VInst kind name pins) pre -> In (PName pn, VE.SOne s0) pins ->
       lib_pin lib kind (PName pn) = Some (idx, false) -> PinIn bf (fst x) name pn s0 idx)).
  assert (HI : I stmts (c4, k4)).
  { apply (fold_opt_prefix (p2_stmt lib decls bf) I stmts (c3, k3) (c4, k4)); auto.
    - unfold I. simpl. split; auto. split. apply ext_refl. split; auto. intros ? ? ? ? ? ? [].
    - intros pre x post [c k] [c1 k1] Hst [I1 [I2 [I3 I4]]] Hstep. simpl in I1, I2, I3, I4.
      pose proof (ei_cinv _ _ _ H0) as HCI0. pose proof (ei_cinv _ _ _ I1) as HCI.
      assert (Hsame : c1 = c -> din (pre ++ [x]) = din pre -> (forall kind name pins, x <> VInst kind name pins) -> I (pre ++ [x]) (c1, k1)).
      { intros -> Hd Hx. unfold I. simpl. rewrite Hd. split; auto. split; auto. split; auto.
        intros kind name pins pn s0 idx Hin. apply in_app_or in Hin. destruct Hin as [Hin|[Hin|[]]]; eauto.
        exfalso. eapply Hx; eauto. }
      destruct x as [ds|kind name pins|lhs rhs]; simpl in Hstep.
      + injection Hstep as <- <-. apply Hsame; auto. rewrite din_app. simpl. apply app_nil_r. discriminate.
      + assert (Hin : In (VInst kind name pins) stmts) by (fold stmts in Hst; rewrite Hst; apply in_or_app; right; left; auto).
        assert (HNc : N <= nnext c) by (pose proof (ex_nn c3 c I2); lia).
        assert (HSc : Static N c) by (apply (Static_mono N c3 c); auto).
        assert (Hn : forall pn, In (PName pn) (map fst pins) -> ~ In (name, pn) (din pre)).
        { intros pn Hpn Hc. destruct HS as [S1 [S2 S3]].
          apply din_in in Hc. destruct Hc as [k' [pins' [Hc1 Hc2]]].
          apply in_map_iff in Hc2. destruct Hc2 as [[p' s'] [E' Hc2]]. simpl in E'. subst p'.
          apply in_map_iff in Hpn. destruct Hpn as [[p'' s''] [E'' Hpn]]. simpl in E''. subst p''.
          assert (Hin' : In (VInst k' name pins') stmts) by (fold stmts in Hst; rewrite Hst; apply in_or_app; auto).
          destruct (S3 k' name pins' _ _ Hin' Hc2) as [io' Hio']. apply lib_pin_nofork in Hio'.
          destruct (S3 kind name pins _ _ Hin Hpn) as [io'' Hio'']. apply lib_pin_nofork in Hio''.
          fold stmts in Hst. rewrite Hst in S1. rewrite inst_names_app in S1.
          eapply (NoDup_app_disj _ _ name S1).
          - eapply inst_names_in; eauto.
          - eapply inst_names_in. left. reflexivity. auto. }
        destruct (p2_pins_spec bf N (din pre) c k kind name pins c1 k1 I1 HNc HSc Hin (Hpnd kind name pins Hin) Hn Hstep)
          as [A1 [A2 [A3 A4]]].
        unfold I. simpl. rewrite din_app. simpl. rewrite app_nil_r. split; auto. split. eapply ext_trans; eauto. split. congruence.
        intros kind' name' pins' pn s0 idx Hin'. apply in_app_or in Hin'. destruct Hin' as [Hin'|[Hin'|[]]].
        * intros. apply (PinIn_mono bf c c1); eauto.
        * injection Hin' as <- <- <-. apply A4.
      + injection Hstep as <- <-. apply Hsame; auto. rewrite din_app. simpl. apply app_nil_r. discriminate. }
  destruct HI as [I1 [I2 [I3 I4]]]. simpl in *. tauto.
Qed.

(** ** the final loop over the output ports *)
(* the port cell of output [nm] is read from the fork called nm, or from the fork called nm[0] when there is no fork nm *)
Definition OutPort (c : circ) (nm : string) : Prop :=
  exists fn f n l, (fn = nm \/ (fn = (nm ++ "[0]")%string /\ dget nm (forks c) = None)) /\
                   dget fn (forks c) = Some f /\ dget nm (cells c) = Some n /\ In l (lines c) /\
                   l_drv (lst c l) = Some f /\ l_rdr (lst c l) = Some n.

Lemma outs_spec : forall N Din c4 c, EI N Din c4 ->
  (forall nm k, In (nm, k) items -> exists n, dget nm (cells c4) = Some n /\ N <= n) ->
  fold_opt out_item items c4 = Some c ->
  EI N Din c /\ ext c4 c /\ io c = io c4 /\ forks c = forks c4 /\
  (forall nm, In (nm, VE.KOutput) items ->
     dget nm (forks c4) <> None \/ dget (nm ++ "[0]")%string (forks c4) <> None -> OutPort c nm).
Proof.
  intros N Din c4 c H0 Hports Hfold.
  set (I := fun (pre : list (string * VE.skind)) (x : circ) =>
    EI N Din x /\ ext c4 x /\ io x = io c4 /\ forks x = forks c4 /\
    (forall nm, In (nm, VE.KOutput) pre ->
       dget nm (forks c4) <> None \/ dget (nm ++ "[0]")%string (forks c4) <> None -> OutPort x nm)).
  assert (HI : I items c).
  { apply (fold_opt_prefix out_item I items c4 c); auto.
    - unfold I. split; auto. split. apply ext_refl. split; auto. split; auto. intros ? [].
    - intros pre [nm k] post x x1 Hit [I1 [I2 [I3 [I4 I5]]]] Hstep.
      pose proof (ei_cinv _ _ _ I1) as HCI.
      assert (Hmono : forall x2, ext x x2 -> forks x2 = forks x -> forall nm', In (nm', VE.KOutput) pre ->
                dget nm' (forks c4) <> None \/ dget (nm' ++ "[0]")%string (forks c4) <> None -> OutPort x2 nm').
      { intros x2 E Hfk nm' Hin Hd. destruct (I5 nm' Hin Hd) as [fn [f [n [l [A0 [A1 [A2 [A3 [A4 A5]]]]]]]]].
        exists fn, f, n, l. rewrite (ex_lst x x2 E) by (apply cinv_line_lt; auto). rewrite Hfk.
        split; auto. split; auto. split. apply (ex_cells x x2 E); auto. split; auto. apply (ex_lines x x2 E); auto. }
      assert (Hsame : x1 = x -> (k = VE.KOutput -> dget nm (forks c4) = None /\ dget (nm ++ "[0]")%string (forks c4) = None) ->
                I (pre ++ [(nm, k)]) x1).
      { intros -> Hk. unfold I. split; auto. split; auto. split; auto. split; auto.
        intros nm' Hin Hd. apply in_app_or in Hin. destruct Hin as [Hin|[Hin|[]]]. apply (Hmono x (ext_refl x) eq_refl); auto.
        injection Hin as E1 E2. subst nm' k. exfalso. destruct (Hk eq_refl). tauto. }
      unfold out_item in Hstep. cbv beta iota zeta delta [fst snd] in Hstep.
      destruct k; try (injection Hstep as <-; apply Hsame; auto; discriminate).
      assert (Hin : In (nm, VE.KOutput) items) by (rewrite Hit; apply in_or_app; right; left; auto).
      (* the common part: a line from the fork called fn to the port cell *)
      assert (Hline : forall fn, (fn = nm \/ (fn = (nm ++ "[0]")%string /\ dget nm (forks x) = None)) ->
                match dget fn (forks x) with
                | Some f => match dget nm (cells x) with Some n => Some (let (y, _) := add_line x f None n None in y) | None => None end
                | None => None end = Some x1 -> I (pre ++ [(nm, VE.KOutput)]) x1).
      { intros fn Hfn Hs.
        destruct (dget fn (forks x)) as [f|] eqn:Hf; [|discriminate].
        destruct (dget nm (cells x)) as [n|] eqn:Hn; [|discriminate].
        change (let (y, _) := add_line x f None n None in y) with (fst (add_line x f None n None)) in Hs.
        remember (fst (add_line x f None n None)) as x2 eqn:Hx2. injection Hs as <-.
        destruct (cinv_fork_get x fn f HCI Hf) as [Hfn' [Hfk _]].
        destruct (cinv_cell_get x nm n HCI Hn) as [Hnn [Hnk _]].
        assert (Hrp : forall q, @None nat = Some q -> in_at x n q = None) by (intros; discriminate).
        pose proof (add_line_facts x f None n None) as F. cbv zeta in F. rewrite <- Hx2 in F.
        destruct F as [_ [_ [_ [_ [_ [G5 [G6 [_ [_ [_ [_ [_ [_ [_ [_ G14]]]]]]]]]]]]]]].
        pose proof (EI_add_line_cell N Din Din x f n None I1 (incl_refl _) Hfn' Hfk Hnn Hnk Hrp) as G.
        cbv zeta in G. rewrite <- Hx2 in G.
        destruct G as [F1 [F2 [F3 [F4 F5]]]].
        { left. destruct (Hports nm _ Hin) as [n' [A B]]. apply (ex_cells c4 x I2) in A. congruence. }
        clear Hx2. unfold I. split; auto. split. eapply ext_trans; eauto. split. congruence. split. congruence.
        intros nm0 Hin0 Hd. apply in_app_or in Hin0. destruct Hin0 as [Hin0|[Hin0|[]]].
        - apply (Hmono x2 F2 G5); auto.
        - injection Hin0 as <-. exists fn, f, n, (lnext x). rewrite F5. simpl. rewrite G5, G6. repeat split; auto. }
      destruct (dget nm (forks x)) as [f1|] eqn:A.
      + apply (Hline nm); auto.
      + destruct (dget (nm ++ "[0]")%string (forks x)) as [g1|] eqn:A'.
        * apply (Hline (nm ++ "[0]")%string); auto.
        * injection Hstep as <-. apply Hsame; auto. intros _. rewrite <- I4. auto. }
  destruct HI as [I1 [I2 [I3 [I4 I5]]]]. tauto.
Qed.

(** ** the whole of [module] *)
Lemma elab_main : forall bf c, elab_module m lib bf = Some c ->
  exists N nls c2 c3 k3,
    VE.port_name_lists (m_ports m) decls = Some nls /\
    elab_ports m lib = Some c2 /\ elab_assigns m lib = Some (c3, k3) /\
    EI N (din stmts) c /\ Static N c /\
    (forall kind name pins p s0 idx, In (VInst kind name pins) stmts -> In (PName p, VE.SOne s0) pins ->
       lib_pin lib kind (PName p) = Some (idx, true) -> PinOut c name p s0 idx) /\
    (forall kind name pins p s0 idx, In (VInst kind name pins) stmts -> In (PName p, VE.SOne s0) pins ->
       lib_pin lib kind (PName p) = Some (idx, false) -> PinIn bf c name p s0 idx) /\
    (ext c2 c /\ io c = io c2 /\ IoNodes c2 /\ CInv c2 /\
     io_abs c2 = tbl_abs (fold_left (VE.io_fill (VE.positions_of nls)) items []) /\ NoDup (map fst items)) /\
    (ext c3 c /\ CInv c3 /\ forall ts, In ts (assign_pairs decls stmts) -> Resolved c ts \/ Unres c3 ts) /\
    (forall nm, In (nm, VE.KOutput) items ->
       dget nm (forks c) <> None \/ dget (nm ++ "[0]")%string (forks c) <> None -> OutPort c nm).
Proof.
  intros bf c H. unfold elab_module in H.
  destruct (elab_readers m lib bf) as [[c4 k4]|] eqn:H4; [|discriminate].
  unfold elab_readers in H4. destruct (elab_assigns m lib) as [[c3 k3]|] eqn:H3; [|discriminate].
  pose proof H3 as H3'. unfold elab_assigns in H3. destruct (elab_ports m lib) as [c2|] eqn:H2; [|discriminate].
  pose proof H2 as H2'. unfold elab_ports in H2.
  destruct (VE.port_name_lists (m_ports m) (decls_of m)) as [nls|] eqn:Hnls; [|discriminate].
  destruct (elab_pass1 m lib) as [c1|] eqn:H1; [|discriminate].
  fold decls in H, H4, H3, H2, Hnls. fold stmts in H4, H3. fold items in H, H2.
  (* pass 1 *)
  destruct (pass1_spec c1 H1) as [P1 [P2 [P3 [P4 [P5 [P6 P7]]]]]].
  set (N := nnext c1).
  pose proof (ei_cinv _ _ _ (P1 N)) as HCI1.
  assert (HS1 : Static N c1).
  { split; auto. split; auto. intros kind name pins Hin Hk. destruct (P5 kind name pins Hin Hk) as [n [A B]].
    exists n. split; auto. split; auto. apply cinv_node_lt; auto. apply (cinv_cell_get c1 name n HCI1 A). }
  (* ports *)
  destruct (ports_spec (VE.positions_of nls) c1 c2 (P1 N) P2 H2) as [Q1 [Q2 [Q3 [Q4 [Q5 Q6]]]]].
  pose proof (ei_cinv _ _ _ Q1) as HCI2.
  assert (HN2 : N <= nnext c2) by (apply (ex_nn c1 c2 Q2)).
  (* assigns *)
  destruct (asg_loop_spec N _ c2 0 _ c3 k3 (Nat.lt_succ_diag_r _) Q1 HN2 H3) as [R1 [R2 [R3 R4]]].
  pose proof (ei_cinv _ _ _ R1) as HCI3.
  assert (HN3 : N <= nnext c3) by (pose proof (ex_nn c2 c3 R2); lia).
  assert (E13 : ext c1 c3) by (eapply ext_trans; eauto).
  assert (HS3 : Static N c3) by (apply (Static_mono N c1 c3); auto).
  (* readers *)
  destruct (p2_stmts_spec bf N c3 k3 c4 k4 R1 HN3 HS3 H4) as [T1 [T2 [T3 T4]]].
  pose proof (ei_cinv _ _ _ T1) as HCI4.
  assert (E24 : ext c2 c4) by (eapply ext_trans; eauto).
  (* outputs *)
  assert (Hports : forall nm k, In (nm, k) items -> exists n, dget nm (cells c4) = Some n /\ N <= n).
  { intros nm k Hin. destruct (Q6 nm k Hin) as [n [A [B _]]]. exists n. split; auto. apply (ex_cells c2 c4 E24); auto. }
  destruct (outs_spec N (din stmts) c4 c T1 Hports H) as [U1 [U2 [U3 [U4 U5]]]].
  assert (E1c : ext c1 c) by (eapply ext_trans; [exact E13|eapply ext_trans; eauto]).
  exists N, nls, c2, c3, k3.
  split; auto. split; auto. split; auto. split; auto.
  split. { apply (Static_mono N c1 c); auto. }
  split. { intros. apply (PinOut_mono c1 c); eauto. }
  split. { intros. apply (PinIn_mono bf c4 c); eauto. }
  split. { split. eapply ext_trans; eauto. split. congruence. auto. }
  split. { split. eapply ext_trans; eauto. split; auto. intros ts Hts. destruct (R4 ts Hts); auto.
           left. apply (Resolved_mono c3 c); auto. eapply ext_trans; eauto. }
  intros nm Hin Hd. apply U5; auto. rewrite <- U4. auto.
Qed.

(** *** (a) the result is a consistent circuit in which every fork has at most one driver *)
Theorem elab_cinv : forall bf c, elab_module m lib bf = Some c -> CInv c /\ SingleDrv c.
Proof.
  intros bf c H. destruct (elab_main bf c H) as [N [nls [c2 [c3 [k3 [_ [_ [_ [E _]]]]]]]]].
  split. apply (ei_cinv _ _ _ E). apply (ei_single _ _ _ E).
Qed.

(** *** (b) io_nodes = the declared port bits in port-list order, bus bits in declared range order *)
Theorem elab_io : forall bf c nls, elab_module m lib bf = Some c ->
  VE.port_name_lists (m_ports m) decls = Some nls -> NoDup (List.concat nls) ->
  (forall n, In n (List.concat nls) -> In n (map fst items)) ->
  List.length (io c) = List.length (List.concat nls) /\
  forall k name, nth_error (List.concat nls) k = Some name ->
    exists n kd, nth_error (io c) k = Some (Some n) /\ In n (nodes c) /\ name_of c n = name /\
                 kind_of c n = kind_str kd /\ dget name (cells c) = Some n /\ In (name, kd) items.
Proof.
  intros bf c nls H Hnls Hnd Hdecl.
  destruct (elab_main bf c H) as [N [nls' [c2 [c3 [k3 [A1 [_ [_ [E [_ [_ [_ [[B1 [B2 [B3 [B4 [B5 B6]]]]] _]]]]]]]]]]]]].
  rewrite Hnls in A1. injection A1 as <-.
  pose proof (ei_cinv _ _ _ E) as HCI.
  destruct (VerilogElabProofs.io_order (m_ports m) (decl_stmts (m_stmts m)) nls Hnls Hnd B6 Hdecl) as [tbl [T1 [T2 T3]]].
  unfold VE.io_table in T1. fold (decls_of m) in T1. fold decls in T1. rewrite Hnls in T1. fold items in T1.
  injection T1 as T1. rewrite T1 in B5.
  split.
  - rewrite B2. rewrite <- T2. transitivity (List.length (io_abs c2)). unfold io_abs. rewrite map_length. auto.
    rewrite B5. unfold tbl_abs. apply map_length.
  - intros k name Hk. destruct (T3 k name Hk) as [kd [T4 T5]].
    assert (Hq : nth_error (io_abs c2) k = Some (Some (name, kind_str kd))).
    { rewrite B5. unfold tbl_abs. rewrite nth_error_map, T4. reflexivity. }
    unfold io_abs in Hq. rewrite nth_error_map in Hq.
    destruct (nth_error (io c2) k) as [[n|]|] eqn:Hn; try discriminate. simpl in Hq. injection Hq as Hq1 Hq2.
    assert (Hin2 : In n (nodes c2)) by (apply B3; eapply nth_error_In; eauto).
    assert (Hlt : n < nnext c2) by (apply cinv_node_lt; auto).
    exists n, kd. rewrite B2. split; auto. split. apply (ex_nodes c2 c B1); auto.
    rewrite (ext_name c2 c), (ext_kind c2 c) by auto. split; auto. split; auto. split; auto.
    apply (ex_cells c2 c B1). apply cinv_cell_named in Hin2; auto. congruence.
    rewrite Hq2. apply is_fork_kind_str.
Qed.

Theorem elab_io_live : forall bf c nls, elab_module m lib bf = Some c ->
  VE.port_name_lists (m_ports m) decls = Some nls -> NoDup (List.concat nls) ->
  (forall n, In n (List.concat nls) -> In n (map fst items)) -> IoLive c.
Proof.
  intros bf c nls H Hnls Hnd Hdecl. destruct (elab_io bf c nls H Hnls Hnd Hdecl) as [L1 L2].
  intros e He. apply In_nth_error in He. destruct He as [k Hk].
  assert (Hlt : k < List.length (List.concat nls)) by (rewrite <- L1; apply nth_error_Some; congruence).
  destruct (nth_error (List.concat nls) k) as [name|] eqn:Hname. 2:{ apply nth_error_None in Hname. lia. }
  destruct (L2 k name Hname) as [n [kd [A [B _]]]]. exists n. split; auto. congruence.
Qed.

(** *** (c) named pin connections *)
Theorem elab_pins : forall bf c kind inst pins p s idx o, elab_module m lib bf = Some c ->
  In (VInst kind inst pins) stmts -> In (PName p, VE.SOne s) pins -> lib_pin lib kind (PName p) = Some (idx, o) ->
  if o then PinOut c inst p s idx else PinIn bf c inst p s idx.
Proof.
  intros bf c kind inst pins p s idx o H Hin Hp Hl.
  destruct (elab_main bf c H) as [N [nls [c2 [c3 [k3 [_ [_ [_ [_ [_ [A [B _]]]]]]]]]]]].
  destruct o; eauto.
Qed.

(* every line at an instance cell comes from a named pin of that instantiation *)
Theorem elab_pins_only : forall bf c kind inst pins n l, elab_module m lib bf = Some c ->
  In (VInst kind inst pins) stmts -> is_fork kind = false -> dget inst (cells c) = Some n -> In l (lines c) ->
  (l_rdr (lst c l) = Some n ->
     exists p s, In (PName p, VE.SOne s) pins /\ lib_pin lib kind (PName p) = Some (l_rpin (lst c l), false)) /\
  (l_drv (lst c l) = Some n ->
     exists p s s' f, In (PName p, VE.SOne s) pins /\ lib_pin lib kind (PName p) = Some (l_dpin (lst c l), true) /\
                      out_sig_name decls s = Some s' /\ dget s' (forks c) = Some f /\ l_rdr (lst c l) = Some f).
Proof.
  intros bf c kind inst pins n l H Hin Hk Hn Hl.
  destruct (elab_main bf c H) as [N [nls [c2 [c3 [k3 [_ [_ [_ [E [[S1 [S2 S3]] _]]]]]]]]]].
  pose proof (ei_cinv _ _ _ E) as HCI.
  destruct (cinv_cell_get c inst n HCI Hn) as [Hnn [Hnk Hname]].
  destruct (S2 kind inst pins Hin Hk) as [n0 [A [B C]]]. rewrite Hn in A. injection A as <-.
  destruct (ei_lines _ _ _ E l Hl) as [d [r [L1 [L2 [L3 L4]]]]].
  assert (Hsame : forall kind' pins' p' s' io, In (VInst kind' inst pins') stmts -> In (PName p', s') pins' ->
             lib_pin lib kind' (PName p') = Some io -> kind' = kind /\ pins' = pins).
  { intros kind' pins' p' s' io B1 B2 B5. assert (Hk' : is_fork kind' = false) by (eapply lib_pin_nofork; eauto).
    apply (inst_uniq stmts kind' inst pins' kind pins S1 B1 Hin Hk' Hk). }
  split.
  - intros Hr. rewrite Hr in L2. injection L2 as <-.
    destruct L4 as [L4|[L4|L4]]; try congruence; try lia.
    destruct L4 as [kind' [name' [pins' [p' [s' [B1 [B2 [B3 [B4 B5]]]]]]]]].
    assert (name' = inst). { destruct (cinv_cell_get c name' n HCI B4) as [_ [_ E']]. congruence. } subst name'.
    destruct (Hsame kind' pins' p' _ _ B1 B2 B5) as [-> ->]. eauto.
  - intros Hd. rewrite Hd in L1. injection L1 as <-.
    destruct L3 as [L3|[L3|L3]]; try congruence; try lia.
    destruct L3 as [kind' [name' [pins' [p' [s0 [s' [B1 [B2 [B3 [B4 [B5 B6]]]]]]]]]]].
    assert (name' = inst). { destruct (cinv_cell_get c name' n HCI B3) as [_ [_ E']]. congruence. } subst name'.
    destruct (Hsame kind' pins' p' _ _ B1 B2 B4) as [-> ->]. exists p', s0, s', r. auto.
Qed.

(** *** (d) continuous assigns *)
Theorem elab_assign : forall bf c, elab_module m lib bf = Some c ->
  exists c3 k3, elab_assigns m lib = Some (c3, k3) /\ ext c3 c /\
    forall ts, In ts (assign_pairs decls stmts) -> Resolved c ts \/ Unres c3 ts.
Proof.
  intros bf c H. destruct (elab_main bf c H) as [N [nls [c2 [c3 [k3 [_ [_ [A [_ [_ [_ [_ [_ [[B1 [B2 B3]] _]]]]]]]]]]]]]].
  exists c3, k3. auto.
Qed.

(** output ports are driven through the fork of their name *)
Theorem elab_outputs : forall bf c nm, elab_module m lib bf = Some c ->
  In (nm, VE.KOutput) items -> dget nm (forks c) <> None \/ dget (nm ++ "[0]")%string (forks c) <> None -> OutPort c nm.
Proof.
  intros bf c nm H Hin Hd. destruct (elab_main bf c H) as [N [nls [c2 [c3 [k3 [_ [_ [_ [_ [_ [_ [_ [_ [_ A]]]]]]]]]]]]]].
  auto.
Qed.

End Elab.

(** ** the executable side conditions (evaluated by the correspondence check on every real tree / pin table) *)
Lemma nodup_by_NoDup : forall {A} (eqb : A -> A -> bool) l, (forall a, eqb a a = true) -> nodup_by eqb l = true -> NoDup l.
Proof.
  intros A eqb l Hr. induction l as [|x r IH]; simpl; intros H. constructor.
  apply andb_true_iff in H. destruct H as [H1 H2]. constructor; auto.
  intros Hin. apply negb_true_iff in H1. assert (existsb (eqb x) r = true); [|congruence].
  apply existsb_exists. exists x. auto.
Qed.
Lemma nodup_by_inj : forall {A} (eqb : A -> A -> bool) l a b, (forall x y, eqb x y = eqb y x) ->
  nodup_by eqb l = true -> In a l -> In b l -> eqb a b = true -> a = b.
Proof.
  intros A eqb l a b Hs. induction l as [|x r IH]; simpl; intros H Ha Hb E. destruct Ha.
  apply andb_true_iff in H. destruct H as [H1 H2]. apply negb_true_iff in H1.
  destruct Ha as [->|Ha]; destruct Hb as [->|Hb]; auto.
  - exfalso. assert (existsb (eqb a) r = true); [|congruence]. apply existsb_exists. exists b. auto.
  - exfalso. assert (existsb (eqb b) r = true); [|congruence]. apply existsb_exists. exists a. rewrite Hs. auto.
Qed.
Lemma ve_dget_in : forall {A} k (d : list (string * A)) v, VE.dget k d = Some v -> In (k, v) d.
Proof.
  intros A k. induction d as [|[k' v'] r IH]; simpl; intros v H. discriminate.
  destruct (String.eqb_spec k k'). inv H. auto. auto.
Qed.

Lemma lib_ok_sound : forall lib, lib_ok_b lib = true -> LibInj lib /\ LibNoFork lib.
Proof.
  intros lib H. unfold lib_ok_b in H. rewrite forallb_forall in H. split.
  - intros kind p1 p2 i o H1 H2. unfold lib_pin in *.
    destruct (VE.dget kind lib) as [tab|] eqn:Ht; [|discriminate].
    apply ve_dget_in in Ht. specialize (H _ Ht). simpl in H. apply andb_true_iff in H. destruct H as [H _].
    unfold pintab_inj_b in H. apply andb_true_iff in H. destruct H as [H _].
    apply ve_dget_in in H1. apply ve_dget_in in H2.
    assert (E : (p1, (i, o)) = (p2, (i, o))).
    { eapply nodup_by_inj; eauto.
      - intros x y. simpl. rewrite Nat.eqb_sym. f_equal. destruct (snd (snd x)), (snd (snd y)); reflexivity.
      - simpl. rewrite Nat.eqb_refl. destruct o; reflexivity. }
    congruence.
  - unfold LibNoFork. induction lib as [|[k t] r IH]. reflexivity.
    assert (Hk := H (k, t) (or_introl eq_refl)). cbn [fst snd] in Hk. apply andb_true_iff in Hk. destruct Hk as [_ Hk].
    apply negb_true_iff in Hk.
    change (VE.dget FORK ((k, t) :: r)) with (if String.eqb FORK k then Some t else VE.dget FORK r).
    rewrite String.eqb_sym, Hk. apply IH. intros x Hx. apply H. right. auto.
Qed.
Lemma pinkey_eqb_refl : forall a, pinkey_eqb a a = true.
Proof. destruct a; simpl. apply String.eqb_refl. apply Nat.eqb_refl. Qed.
Lemma pins_nodup_sound : forall m, pins_nodup_b m = true -> PinsNoDup m.
Proof.
  intros m H kind name pins Hin. unfold pins_nodup_b in H. rewrite forallb_forall in H. specialize (H _ Hin). simpl in H.
  eapply nodup_by_NoDup; eauto. apply pinkey_eqb_refl.
Qed.
Lemma ports_ok_sound : forall m, ports_ok_b m = true ->
  exists nls, VE.port_name_lists (m_ports m) (decls_of m) = Some nls /\ NoDup (List.concat nls) /\
              forall n, In n (List.concat nls) -> In n (map fst (VE.io_items (decls_of m))).
Proof.
  intros m H. unfold ports_ok_b in H. destruct (VE.port_name_lists (m_ports m) (decls_of m)) as [nls|]; [|discriminate].
  apply andb_true_iff in H. destruct H as [H1 H2]. exists nls. split; auto. split.
  - eapply nodup_by_NoDup; eauto. apply String.eqb_refl.
  - intros n Hn. rewrite forallb_forall in H2. specialize (H2 n Hn). apply existsb_exists in H2.
    destruct H2 as [x [Hx E]]. apply String.eqb_eq in E. subst. auto.
Qed.

(** ** the theorems in the form of Properties/C11.v *)
Theorem module_consistent : forall m lib bf c, lib_ok_b lib = true -> pins_nodup_b m = true ->
  elab_module m lib bf = Some c -> CInv c /\ SingleDrv c.
Proof.
  intros m lib bf c Hl Hp H. destruct (lib_ok_sound lib Hl) as [A B]. eapply elab_cinv; eauto. apply pins_nodup_sound; auto.
Qed.
Theorem module_io_live : forall m lib bf c, lib_ok_b lib = true -> pins_nodup_b m = true -> ports_ok_b m = true ->
  elab_module m lib bf = Some c -> IoLive c.
Proof.
  intros m lib bf c Hl Hp Hq H. destruct (lib_ok_sound lib Hl) as [A B]. destruct (ports_ok_sound m Hq) as [nls [C [D E]]].
  eapply elab_io_live; eauto. apply pins_nodup_sound; auto.
Qed.
Theorem module_ports : forall m lib bf c nls, lib_ok_b lib = true -> pins_nodup_b m = true ->
  elab_module m lib bf = Some c ->
  VE.port_name_lists (m_ports m) (decls_of m) = Some nls -> NoDup (List.concat nls) ->
  (forall n, In n (List.concat nls) -> In n (map fst (VE.io_items (decls_of m)))) ->
  List.length (io c) = List.length (List.concat nls) /\
  forall k name, nth_error (List.concat nls) k = Some name ->
    exists n kd, nth_error (io c) k = Some (Some n) /\ In n (nodes c) /\ name_of c n = name /\
                 kind_of c n = kind_str kd /\ dget name (cells c) = Some n /\ In (name, kd) (VE.io_items (decls_of m)).
Proof.
  intros m lib bf c nls Hl Hp H. destruct (lib_ok_sound lib Hl) as [A B]. eapply elab_io; eauto. apply pins_nodup_sound; auto.
Qed.

Lemma single_in : forall c d rp l, SingleDrv c -> In d (nodes c) -> is_fork (kind_of c d) = true ->
  in_at c d rp = Some l -> ins_of c d = [Some l].
Proof.
  intros c d rp l HS Hd Hk Hi. unfold in_at in Hi. destruct (HS d Hd Hk) as [E|[x E]]; rewrite E in *.
  - destruct rp; discriminate.
  - destruct rp as [|[|rp]]; simpl in Hi; congruence.
Qed.

(* a named pin on the output side: one line from that pin position of the instance cell to the fork of the signal *)
Theorem module_pin_out : forall m lib bf c kind inst pins p s idx, lib_ok_b lib = true -> pins_nodup_b m = true ->
  elab_module m lib bf = Some c ->
  In (VInst kind inst pins) (m_stmts m) -> In (PName p, VE.SOne s) pins -> lib_pin lib kind (PName p) = Some (idx, true) ->
  exists n l f s', out_sig_name (decls_of m) s = Some s' /\ dget inst (cells c) = Some n /\ kind_of c n = kind /\
    out_at c n idx = Some l /\ In l (lines c) /\ l_drv (lst c l) = Some n /\ l_dpin (lst c l) = idx /\
    l_rdr (lst c l) = Some f /\ dget s' (forks c) = Some f /\ ins_of c f = [Some l].
Proof.
  intros m lib bf c kind inst pins p s idx Hl Hp H Hin Hpin Hlp.
  destruct (lib_ok_sound lib Hl) as [L1 L2]. pose proof (pins_nodup_sound m Hp) as L3.
  destruct (elab_main m lib L1 L2 L3 bf c H) as [N [nls [c2 [c3 [k3 [_ [_ [_ [E [[S1 [S2 S3]] _]]]]]]]]]].
  pose proof (elab_pins m lib L1 L2 L3 bf c kind inst pins p s idx true H Hin Hpin Hlp) as [n [l [f [s' [A1 [A2 [A3 [A4 [A5 [A6 A7]]]]]]]]]].
  pose proof (ei_cinv _ _ _ _ _ E) as HCI. pose proof (ei_single _ _ _ _ _ E) as HSD.
  assert (Hk : is_fork kind = false) by (eapply lib_pin_nofork; eauto).
  destruct (S2 kind inst pins Hin Hk) as [n0 [B1 [B2 B3]]]. rewrite A2 in B1. injection B1 as <-.
  destruct HCI as [HC HD]. destruct (cc_line [] c HC l A3) as [d0 [r0 [C1 [C2 [C3 [C4 [C5 C6]]]]]]].
  rewrite A4 in C1. injection C1 as <-. rewrite A6 in C2. injection C2 as <-. rewrite A5 in C5.
  destruct (cinv_fork_get c s' f (conj HC HD) A7) as [F1 [F2 _]].
  exists n, l, f, s'. repeat split; auto. eapply single_in; eauto.
Qed.

(* a named pin on the input side: one line into that pin position of the instance cell, from the fork the signal
   resolves to ([SrcName]) or, with branchforks, from the 1:1 branch fork <fork>~<inst>/<pin> behind that fork *)
Theorem module_pin_in : forall m lib bf c kind inst pins p s idx, lib_ok_b lib = true -> pins_nodup_b m = true ->
  elab_module m lib bf = Some c ->
  In (VInst kind inst pins) (m_stmts m) -> In (PName p, VE.SOne s) pins -> lib_pin lib kind (PName p) = Some (idx, false) ->
  exists n l d, dget inst (cells c) = Some n /\ kind_of c n = kind /\ in_at c n idx = Some l /\ In l (lines c) /\
    l_rdr (lst c l) = Some n /\ l_rpin (lst c l) = idx /\ l_drv (lst c l) = Some d /\ is_fork (kind_of c d) = true /\
    if bf then exists f l', dget (branch_name (name_of c f) inst p) (forks c) = Some d /\ ins_of c d = [Some l'] /\
                            In l' (lines c) /\ l_drv (lst c l') = Some f /\ l_rdr (lst c l') = Some d /\ SrcName m c f s
    else SrcName m c d s.
Proof.
  intros m lib bf c kind inst pins p s idx Hl Hp H Hin Hpin Hlp.
  destruct (lib_ok_sound lib Hl) as [L1 L2]. pose proof (pins_nodup_sound m Hp) as L3.
  destruct (elab_main m lib L1 L2 L3 bf c H) as [N [nls [c2 [c3 [k3 [_ [_ [_ [E [[S1 [S2 S3]] _]]]]]]]]]].
  pose proof (elab_pins m lib L1 L2 L3 bf c kind inst pins p s idx false H Hin Hpin Hlp) as [n [l [d [A2 [A3 [A4 [A5 [A6 A7]]]]]]]].
  pose proof (ei_cinv _ _ _ _ _ E) as HCI. pose proof (ei_single _ _ _ _ _ E) as HSD.
  assert (Hk : is_fork kind = false) by (eapply lib_pin_nofork; eauto).
  destruct (S2 kind inst pins Hin Hk) as [n0 [B1 [B2 B3]]]. rewrite A2 in B1. injection B1 as <-.
  pose proof HCI as [HC HD]. destruct (cc_line [] c HC l A3) as [d0 [r0 [C1 [C2 [C3 [C4 [C5 C6]]]]]]].
  rewrite A6 in C1. injection C1 as <-. rewrite A4 in C2. injection C2 as <-. rewrite A5 in C6.
  exists n, l, d. split; auto. split; auto. split; auto. split; auto. split; auto. split; auto. split; auto.
  destruct bf.
  - destruct A7 as [f [l' [D1 [D2 [D3 [D4 D5]]]]]].
    destruct (cinv_fork_get c _ d HCI D1) as [F1 [F2 _]]. split; auto.
    exists f, l'. split; auto. split; auto.
    destruct (cc_line [] c HC l' D2) as [d1 [r1 [G1 [G2 [_ [_ [_ G6]]]]]]]. rewrite D4 in G2. injection G2 as <-.
    eapply single_in; eauto.
  - split; auto.
    destruct A7 as [A7|[[dcl [x [_ [_ A7]]]]|[ch [k [cn [l0 [_ [_ [A7 _]]]]]]]]];
      apply (cinv_fork_get c _ d HCI A7).
Qed.

(* conversely: every line at an instance cell belongs to one of its named pins *)
Theorem module_pins_only : forall m lib bf c kind inst pins n l, lib_ok_b lib = true -> pins_nodup_b m = true ->
  elab_module m lib bf = Some c ->
  In (VInst kind inst pins) (m_stmts m) -> is_fork kind = false -> dget inst (cells c) = Some n -> In l (lines c) ->
  (l_rdr (lst c l) = Some n ->
     exists p s, In (PName p, VE.SOne s) pins /\ lib_pin lib kind (PName p) = Some (l_rpin (lst c l), false)) /\
  (l_drv (lst c l) = Some n ->
     exists p s s' f, In (PName p, VE.SOne s) pins /\ lib_pin lib kind (PName p) = Some (l_dpin (lst c l), true) /\
                      out_sig_name (decls_of m) s = Some s' /\ dget s' (forks c) = Some f /\ l_rdr (lst c l) = Some f).
Proof.
  intros m lib bf c kind inst pins n l Hl Hp H. destruct (lib_ok_sound lib Hl) as [L1 L2].
  apply (elab_pins_only m lib L1 L2 (pins_nodup_sound m Hp) bf c kind inst pins n l H).
Qed.

(* continuous assigns, bit by bit: a line between the two forks (from the source, or from the target if that was driven
   first), or a constant cell driving the target; a pair is skipped only if, after the retry loop, neither side names a
   driven signal.  [c3] is the circuit after pass 1.5. *)
Theorem module_assign : forall m lib bf c, lib_ok_b lib = true -> pins_nodup_b m = true ->
  elab_module m lib bf = Some c ->
  exists c3 k3, elab_assigns m lib = Some (c3, k3) /\ ext c3 c /\
    forall ts, In ts (assign_pairs (decls_of m) (m_stmts m)) -> Resolved c ts \/ Unres c3 ts.
Proof.
  intros m lib bf c Hl Hp H. destruct (lib_ok_sound lib Hl) as [L1 L2].
  apply (elab_assign m lib L1 L2 (pins_nodup_sound m Hp) bf c H).
Qed.

Theorem module_outputs : forall m lib bf c nm, lib_ok_b lib = true -> pins_nodup_b m = true ->
  elab_module m lib bf = Some c ->
  In (nm, VE.KOutput) (VE.io_items (decls_of m)) ->
  dget nm (forks c) <> None \/ dget (nm ++ "[0]")%string (forks c) <> None -> OutPort c nm.
Proof.
  intros m lib bf c nm Hl Hp H. destruct (lib_ok_sound lib Hl) as [L1 L2].
  apply (elab_outputs m lib L1 L2 (pins_nodup_sound m Hp) bf c nm H).
Qed.

(** ** VerilogTransformer.instantiation builds a dict: the keys of [mk_pins] are distinct *)
Lemma pinkey_eqb_eq : forall a b, pinkey_eqb a b = true <-> a = b.
Proof.
  destruct a, b; simpl; split; intros H; try discriminate; try congruence.
  - apply String.eqb_eq in H. congruence.
  - inv H. apply String.eqb_refl.
  - apply Nat.eqb_eq in H. congruence.
  - inv H. apply Nat.eqb_refl.
Qed.
Lemma pset_keys : forall k v d x, In x (map fst (pset k v d)) <-> In x (map fst d) \/ x = k.
Proof.
  induction d as [|[k' v'] r IH]; intros x; simpl.
  - split. intros [H|[]]; auto. intros [[]|H]; auto.
  - destruct (pinkey_eqb k k') eqn:E; simpl.
    + apply pinkey_eqb_eq in E. subst. split. intros [H|H]; auto. intros [[H|H]|H]; auto.
    + rewrite IH. tauto.
Qed.
Lemma pset_nodup : forall k v d, NoDup (map fst d) -> NoDup (map fst (pset k v d)).
Proof.
  induction d as [|[k' v'] r IH]; intros H; simpl. repeat constructor; auto.
  inv H. destruct (pinkey_eqb k k') eqn:E; simpl. constructor; auto.
  constructor; auto. rewrite pset_keys. intros [Hc|Hc]; auto. subst.
  assert (pinkey_eqb k k = true) by (apply pinkey_eqb_eq; auto). congruence.
Qed.
Theorem mk_pins_nodup : forall l, NoDup (map fst (mk_pins l)).
Proof.
  intros l. unfold mk_pins.
  assert (G : forall l st, NoDup (map fst (fst st)) -> NoDup (map fst (fst (fold_left inst_step l st)))).
  { induction l0 as [|p r IH]; intros st H; simpl; auto. apply IH. unfold inst_step. simpl.
    destruct p as [n [s|]|s]; auto; apply pset_nodup; auto. }
  apply G. constructor.
Qed.
(* so a module whose instantiations carry the dicts built by [instantiation] satisfies [PinsNoDup] *)
Theorem pins_nodup_of_mk_pins : forall m,
  (forall kind name pins, In (VInst kind name pins) (m_stmts m) -> exists raw, pins = mk_pins raw) -> PinsNoDup m.
Proof. intros m H kind name pins Hin. destruct (H kind name pins Hin) as [raw ->]. apply mk_pins_nodup. Qed.
