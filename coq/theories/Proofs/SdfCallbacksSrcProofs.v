(** The translated pure callbacks of sdf.py (Gen/SdfCallbacksSrc.v, regenerated from /repo on every run) equal the hand model:
    SdfTransformer.triple = [triple_cb] after the number reading of Model/SdfText.v ([triple_of_x]); sanitize followed by the
    namedtuple constructor (SdfTransformer.iopath / interconnect) = [entry_cb] of Model/Sdf.v -- for every token list / every
    argument list the grammar can deliver. *)
From Coq Require Import List ZArith Bool String Ascii Arith Lia.
From KV Require Import Model.Sdf Model.SdfText Model.SdfCallbacksSrcLib Gen.SdfCallbacksSrc.
Import ListNotations.
Local Open Scope list_scope.

Lemma str_drop_last_tok body c : str_drop_last (tok_of body c) = body.
Proof.
  unfold tok_of. induction body as [|x r IH]; [reflexivity|].
  cbn [String.append].
  assert (H : exists y r', String.append r (String c "") = String y r') by (destruct r; cbn; eauto).
  destruct H as [y [r' E]]. rewrite E.
  change (str_drop_last (String x (String y r'))) with (String x (str_drop_last (String y r'))). rewrite <- E. now rewrite IH.
Qed.

Lemma length_tok body c : String.length (tok_of body c) = S (String.length body).
Proof. unfold tok_of. induction body as [|x r IH]; [reflexivity|]. cbn [String.append String.length]. now rewrite IH. Qed.

(* one number token: its text is [body] followed by the ":" / ")" the token pattern includes *)
Definition num_src (tok : string) : option Z :=
  match (if Nat.ltb 1 (String.length tok) then match py_float8 (str_drop_last tok) with None => None | Some t1 => Some t1 end
         else Some 0%Z) with None => None | Some t2 => Some t2 end.

Lemma num_src_eq body c :
  num_src (tok_of body c) = option_map (fun o => match o with Some z => z | None => 0%Z end) (num_of body).
Proof.
  unfold num_src. rewrite length_tok, str_drop_last_tok. destruct body as [|x r]; [reflexivity|].
  cbn [String.length Nat.ltb Nat.leb num_of]. unfold py_float8. now destruct (dec8 (String x r)).
Qed.

Theorem triple_src_eq : forall l : list (string * ascii),
  SdfTransformer_triple_src (map (fun p => tok_of (fst p) (snd p)) l) = option_map triple_cb (triple_of_x (map fst l)).
Proof.
  unfold SdfTransformer_triple_src, triple_of_x. fold num_src.
  induction l as [|[body c] l IH]; [reflexivity|].
  cbn [map fst snd py_mapM omap]. rewrite num_src_eq, IH.
  destruct (num_of body) as [o|]; [|reflexivity]. cbn [option_map].
  destruct (omap num_of (map fst l)); reflexivity.
Qed.

Lemma entry_src_eq_gen (f : list sval -> option (list sval)) :
  (forall l, f l = match sanitize_src l with None => None | Some t1 => py_namedtuple 4 t1 end) ->
  forall io a b ts, f (enc_entry_args a b ts) = match entry_cb (TEntry io a b ts) with Ok e => Some (enc_entry e) | Err => None end.
Proof.
  intros Hf io a b ts. rewrite Hf. unfold enc_entry_args.
  destruct ts as [|r [|g [|x rest]]]; reflexivity.
Qed.

Theorem iopath_src_eq : forall io a b ts,
  SdfTransformer_iopath_src (enc_entry_args a b ts) = match entry_cb (TEntry io a b ts) with Ok e => Some (enc_entry e) | Err => None end.
Proof. apply entry_src_eq_gen. reflexivity. Qed.

Theorem interconnect_src_eq : forall io a b ts,
  SdfTransformer_interconnect_src (enc_entry_args a b ts) = match entry_cb (TEntry io a b ts) with Ok e => Some (enc_entry e) | Err => None end.
Proof. apply entry_src_eq_gen. reflexivity. Qed.

Theorem callbacks_source_is_model :
  (forall l : list (string * ascii),
     SdfTransformer_triple_src (map (fun p => tok_of (fst p) (snd p)) l) = option_map triple_cb (triple_of_x (map fst l))) /\
  (forall a b ts,
     SdfTransformer_iopath_src (enc_entry_args a b ts) = match entry_cb (TEntry true a b ts) with Ok e => Some (enc_entry e) | Err => None end /\
     SdfTransformer_interconnect_src (enc_entry_args a b ts) = match entry_cb (TEntry false a b ts) with Ok e => Some (enc_entry e) | Err => None end).
Proof. split; [exact triple_src_eq | intros a b ts; split; [apply iopath_src_eq | apply interconnect_src_eq]]. Qed.

(** non-vacuity: the triple (0.5::-1.25) -- tokens "0.5:" ":" "-1.25)" -- and an IOPATH with ONE triple (duplicated by sanitize),
    one with two, and one with three (the namedtuple constructor raises) *)
Local Open Scope string_scope.
Lemma callbacks_nonvacuous :
  SdfTransformer_triple_src ["0.5:"; ":"; "-1.25)"] = Some [4; 0; -10]%Z /\
  SdfTransformer_iopath_src [SvTok "(posedge A)"; SvTok "Y"; SvNums [4; 0; -10]%Z] =
    Some [SvTok "(posedge A)"; SvTok "Y"; SvNums [4; 0; -10]%Z; SvNums [4; 0; -10]%Z] /\
  SdfTransformer_interconnect_src [SvTok "u1/Y"; SvTok "u2/A"; SvNums [8; 8; 8]%Z; SvNums []] =
    Some [SvTok "u1/Y"; SvTok "u2/A"; SvNums [8; 8; 8]%Z; SvNums []] /\
  SdfTransformer_iopath_src [SvTok "A"; SvTok "Y"; SvNums []; SvNums []; SvNums []] = None /\
  SdfTransformer_iopath_src [SvTok "A"; SvTok "Y"] = None.
Proof. repeat split. Qed.
