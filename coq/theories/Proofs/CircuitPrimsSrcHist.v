(** Edit histories executed by the TRANSLATED primitives (Gen/CircuitPrimsSrc.v): every step of a primitive operation
    (Node(), Line(), Line.remove, Node.remove, io_nodes[..] = n, get_or_add_fork) run on the translated source equals the step of
    the hand model up to [ceq]; hence every history of well-formed use of the primitives, run on the translated source from the
    empty circuit, does not raise and ends in a consistent graph. *)
From Coq Require Import List Arith Bool String ZArith Lia.
From KV Require Import Model.Circuit Model.CircuitInv Model.CircuitPrimsSrcLib Gen.CircuitPrimsSrc
     Proofs.CircuitPrimsSrcProofs Proofs.CircuitCeq Proofs.CircuitProofs Proofs.CircuitHistory.
Import ListNotations.
Local Open Scope list_scope.

Definition step_source : circ -> op -> option circ :=
  step_src Node_init_src Node_remove_src Line_init_src Line_remove_src GrowingList_setitem_src.
Definition run_source : circ -> list op -> option circ :=
  run_from_src Node_init_src Node_remove_src Line_init_src Line_remove_src GrowingList_setitem_src.

Theorem step_source_is_model c o : oceq (step_source c o) (step c o).
Proof.
  destruct o; unfold step_source, step_src; try apply oceq_refl.
  - apply oceq_id_fst. apply node_init_src_eq.
  - apply (oceq_id_fst _ (Some (add_line c d dp r rp))). apply line_init_src_eq.
  - apply line_remove_src_eq.
  - rewrite node_remove_src_eq. apply oceq_refl.
  - rewrite growing_setitem_src_eq. simpl. apply ceq_refl.
Qed.

Theorem run_source_is_model : forall ops a b, forallb prim_op ops = true -> ceq a b ->
  oceq (run_source a ops) (run_from b ops).
Proof.
  induction ops as [|o ops IH]; intros a b Hp H; [exact H|].
  simpl in Hp. apply andb_prop in Hp. destruct Hp as [Ho Hp].
  unfold run_source in *. cbn [run_from_src run_from].
  pose proof (oceq_trans _ _ _ (step_source_is_model a o) (step_prim_ceq a b o Ho H)) as Hs.
  unfold step_source in Hs.
  destruct (step_src Node_init_src Node_remove_src Line_init_src Line_remove_src GrowingList_setitem_src a o) as [a'|],
           (step b o) as [b'|]; simpl in Hs; try contradiction; [|exact I].
  now apply IH.
Qed.

Lemma prim_op_primitive o : prim_op o = primitive o.
Proof. destruct o; reflexivity. Qed.

(** every history of well-formed use of the primitive operations, run on the translated source, ends in a consistent graph *)
Theorem source_history_inv ops : forallb prim_op ops = true -> hist_pre empty ops = true ->
  exists c, run_source empty ops = Some c /\ CInv c /\
            exists c', run_hist ops = Some c' /\ ceq c c'.
Proof.
  intros Hp Hpre.
  destruct (history_inv_all ops Hpre) as (c' & Hr & Hi & _).
  pose proof (run_source_is_model ops empty empty Hp (ceq_refl empty)) as H.
  unfold run_hist in Hr. rewrite Hr in H.
  destruct (run_source empty ops) as [c|]; simpl in H; [|contradiction].
  exists c. split; [reflexivity|]. split; [exact (CInv_ceq c' c (ceq_sym _ _ H) Hi)|].
  exists c'. split; [exact Hr | exact H].
Qed.

(** the hypotheses are satisfiable: the 12-step history of C09_example (swap-with-last removal, fork squeeze) *)
Example source_history_example :
  forallb prim_op example_history = true /\ hist_pre empty example_history = true /\
  option_map (fun c => (nodes c, lines c, map (fun n => n_outs (nst c n)) (nodes c)))
             (run_source empty example_history) =
  option_map (fun c => (nodes c, lines c, map (fun n => n_outs (nst c n)) (nodes c))) (run_hist example_history) /\
  (exists c, run_source empty example_history = Some c /\ List.length (nodes c) + List.length (lines c) > 0).
Proof.
  split; [reflexivity|]. split; [exact example_history_pre|]. split; [vm_compute; reflexivity|].
  destruct (source_history_inv example_history eq_refl example_history_pre) as (c & Hc & _ & c' & Hr & He).
  exists c. split; [exact Hc|].
  assert (E : option_map (fun c => List.length (nodes c) + List.length (lines c)) (run_source empty example_history) <> Some 0)
    by (vm_compute; discriminate).
  rewrite Hc in E. simpl in E. destruct (List.length (nodes c) + List.length (lines c)); [now elim E | lia].
Qed.

Theorem ceq_respected :
  (forall a b, ceq a b -> CInv a -> CInv b) /\ (forall a b, ceq a b -> IoLive a -> IoLive b) /\
  (forall a b o, prim_op o = true -> ceq a b -> oceq (step a o) (step b o)).
Proof. split; [exact CInv_ceq|]. split; [exact IoLive_ceq | exact step_prim_ceq]. Qed.
