(** Generic soundness of "sweep a translated operator against the specification algebra". *)
From Coq Require Import List NArith Bool Arith Lia.
From KV Require Import Model.Bits Model.Logic Proofs.BitsLift.
Import ListNotations.

Definition op_ok (mdim : nat) (chk_out : list bool -> code -> bool) (spec : list code -> code)
           (k : nat) (p : prog) : bool :=
  prog_ok (k * mdim) p &&
  sweep p (k * mdim) (fun ins outs => chk_out outs (spec (decode_ins mdim k ins))).

Lemma bools_eqb_eq a : forall b, bools_eqb a b = true -> a = b.
Proof.
  induction a as [|x a IH]; intros [|y b] H; cbn in H; try discriminate; [reflexivity|].
  apply andb_true_iff in H. destruct H as [H1 H2]. apply eqb_prop in H1. subst. f_equal. apply IH. exact H2.
Qed.

Lemma code_eqb_eq a b : code_eqb a b = true -> a = b.
Proof. destruct a, b; cbn; intro H; try discriminate; reflexivity. Qed.

Lemma code_eqb_refl a : code_eqb a a = true.
Proof. destruct a; reflexivity. Qed.

Lemma encode_len3 cs : length (encode_ins 3 cs) = length cs * 3.
Proof. unfold encode_ins. induction cs as [|c cs IH]; [reflexivity|]. cbn [flat_map length]. rewrite app_length, IH. destruct c; reflexivity. Qed.
Lemma encode_len2 cs : length (encode_ins 2 cs) = length cs * 2.
Proof. unfold encode_ins. induction cs as [|c cs IH]; [reflexivity|]. cbn [flat_map length]. rewrite app_length, IH. destruct c; reflexivity. Qed.

Lemma decode_encode3 cs : decode_ins 3 (length cs) (encode_ins 3 cs) = cs.
Proof.
  induction cs as [|c cs IH]; [reflexivity|].
  cbn [length decode_ins encode_ins flat_map]. fold (encode_ins 3 cs).
  destruct c; cbn [code_bits firstn app skipn]; rewrite IH; reflexivity.
Qed.
Lemma decode_encode2 cs : forallb is4 cs = true -> decode_ins 2 (length cs) (encode_ins 2 cs) = cs.
Proof.
  induction cs as [|c cs IH]; intro H; [reflexivity|].
  cbn [forallb] in H. apply andb_true_iff in H. destruct H as [Hc H].
  cbn [length decode_ins encode_ins flat_map]. fold (encode_ins 2 cs).
  destruct c; try discriminate Hc; cbn [code_bits firstn app skipn]; rewrite (IH H); reflexivity.
Qed.

Theorem op_ok_sound3 chk_out spec k p :
  op_ok 3 chk_out spec k p = true ->
  forall cs, length cs = k -> chk_out (run_bool p (encode_ins 3 cs)) (spec cs) = true.
Proof.
  unfold op_ok. intros H cs Hl. apply andb_true_iff in H. destruct H as [_ H].
  pose proof (sweep_sound _ _ _ H (encode_ins 3 cs)) as Hs. cbv beta in Hs.
  rewrite <- Hl in Hs. rewrite decode_encode3 in Hs. apply Hs. apply encode_len3.
Qed.

Theorem op_ok_sound2 chk_out spec k p :
  op_ok 2 chk_out spec k p = true ->
  forall cs, length cs = k -> forallb is4 cs = true ->
  chk_out (run_bool p (encode_ins 2 cs)) (spec cs) = true.
Proof.
  unfold op_ok. intros H cs Hl H4. apply andb_true_iff in H. destruct H as [_ H].
  pose proof (sweep_sound _ _ _ H (encode_ins 2 cs)) as Hs. cbv beta in Hs.
  rewrite <- Hl in Hs. rewrite decode_encode2 in Hs by exact H4. apply Hs. apply encode_len2.
Qed.
