(** C01, multi-cycle: LogicSim.cycle at line level (Model/CycleSem.v [line_cycles]) IS the k-fold synchronous
    semantics of the netlist ([iter_sem]: in every step ANY valuation satisfying all node equations).
      K1 [cycles_iter_sem]       the scheduler-based iteration is an instance of [iter_sem] (every wf acyclic netlist);
      K2 [iter_sem_unique]       under [gates_known] (the side conditions of solution_unique) [iter_sem] determines the
                                 assignment and result vectors: they EQUAL the scheduler-based iteration;
      K3 [cycles_strip_irrelevant] k cycles with forks stripped (values read through the stems) give the same vectors;
      K4 [gates_known_b_sound]   executable test of [gates_known]. *)
From Coq Require Import List NArith ZArith Bool Arith Lia String.
From KV Require Import Model.Prims Model.Netlist Model.NetlistWf Model.Heap Model.SimOps Model.AllocCheck Model.NetlistSem
     Model.CycleSem Gen.SimTables Proofs.TopoProofs Proofs.AllocProofs Proofs.SemProofs Proofs.SemCompose
     Proofs.StripInvariance Proofs.EndToEnd Proofs.WfCheck.
Import List.
Import ListNotations.
Local Open Scope list_scope.

Lemma solution_ext {V} (sem : N -> V -> V -> V -> V -> V) (zero : V) c stim stim' v :
  (forall p, stim p = stim' p) -> solution sem zero c stim v -> solution sem zero c stim' v.
Proof.
  intros He S n Hn. specialize (S n Hn). unfold node_ok in *. cbv zeta in *.
  destruct (iface_pos c n) as [p|]; [|exact S]. rewrite <- (He p). exact S.
Qed.

Lemma snode_in_lt c p l0 : wf_netlist c -> snode_in c p = Some l0 -> l0 < length (c_lines c).
Proof.
  intros WF H. unfold snode_in in H. destruct (Nat.ltb p (length (s_nodes c))); [|discriminate].
  set (n := nth p (s_nodes c) 0) in *.
  destruct (Nat.lt_ge_cases n (length (c_nodes c))) as [Hn|Hn].
  - destruct (n_ins (get_node c n)) as [|[x|] t] eqn:E; try discriminate. injection H as <-.
    destruct WF as (_ & _ & W3). destruct (W3 n 0 x Hn) as (Hl & _); [rewrite E; reflexivity|exact Hl].
  - unfold get_node in H. rewrite nth_overflow in H by exact Hn. discriminate.
Qed.

Section Cycles.
  Context {V : Type} (sem : N -> V -> V -> V -> V -> V) (zero : V).
  Variable c : netlist.
  Hypothesis WF : wf_netlist c.
  Hypothesis AC : comb_acyclic c.

  Lemma capture_ext (v v' : nat -> V) s1 :
    (forall l, l < length (c_lines c) -> v l = v' l) -> capture zero c v s1 = capture zero c v' s1.
  Proof.
    intros H. unfold capture. apply map_ext. intros p.
    destruct (snode_in c p) as [l0|] eqn:E; [|reflexivity]. apply H. apply (snode_in_lt c p l0 WF E).
  Qed.

  (** K1 *)
  Lemma cycles_iter_sem_ : forall k st,
    iter_sem sem zero c k (fst st) (snd st) (fst (line_cycles sem zero c k st)) (snd (line_cycles sem zero c k st)).
  Proof.
    induction k as [|k IH]; intros [s0 s1]; [apply iter_sem_O|].
    cbn [line_cycles fst snd]. apply (iter_sem_S sem zero c k s0 s1 (line_prop sem zero c s0)).
    - apply build_ops_solution; assumption.
    - apply (IH (line_cycle sem zero c (s0, s1))).
  Qed.

  Hypothesis GK : gates_known c.

  (** K2 *)
  Lemma iter_sem_unique_ k s0 s1 a b : iter_sem sem zero c k s0 s1 a b -> (a, b) = line_cycles sem zero c k (s0, s1).
  Proof.
    destruct GK as (G1 & G2 & G3).
    induction 1 as [s0 s1|k s0 s1 v a b Hv _ IH]; [reflexivity|].
    cbn [line_cycles]. rewrite IH. f_equal. unfold line_cycle. cbn [fst snd].
    assert (E : capture zero c v s1 = capture zero c (line_prop sem zero c s0) s1).
    { apply capture_ext. intros l Hl.
      apply (solution_unique sem zero c (stim_of zero s0) v (line_prop sem zero c s0) WF AC G1 G2 G3 Hv); [|exact Hl].
      apply build_ops_solution; assumption. }
    rewrite E. reflexivity.
  Qed.

  (** K3 *)
  Variable len : nat.
  Variable stems : list Z.
  Hypothesis Hlen : length (c_lines c) <= len.
  Hypothesis Hst : build_stems c true len = Some stems.
  Hypothesis Hbuf : forall x b cc d, sem (lutv "BUF1") x b cc d = x.
  Hypothesis Hkind : forall n, n < length (c_nodes c) -> iface_pos c n = None -> is_fork (get_node c n) = true ->
    n_kind (get_node c n) = "__fork__"%string.

  Lemma cycles_strip_irrelevant_ : forall k st, line_cycles_strip sem zero c stems k st = line_cycles sem zero c k st.
  Proof.
    destruct GK as (G1 & G2 & G3).
    induction k as [|k IH]; intros [s0 s1]; [reflexivity|].
    cbn [line_cycles_strip line_cycles]. rewrite IH. f_equal. unfold line_cycle_strip, line_cycle. cbn [fst snd].
    assert (E : capture zero c (line_prop_strip sem zero c stems s0) s1 = capture zero c (line_prop sem zero c s0) s1).
    { apply capture_ext. intros l Hl. unfold line_prop_strip, line_prop. cbv zeta.
      apply (strip_forks_irrelevant sem zero c (stim_of zero s0) len stems WF AC Hlen Hst Hbuf Hkind G1 G2 G3 l Hl). }
    rewrite E. reflexivity.
  Qed.
End Cycles.

Theorem cycles_iter_sem {V} (sem : N -> V -> V -> V -> V -> V) (zero : V) c k s0 s1 :
  wf_netlist c -> comb_acyclic c ->
  iter_sem sem zero c k s0 s1 (fst (line_cycles sem zero c k (s0, s1))) (snd (line_cycles sem zero c k (s0, s1))).
Proof. intros WF AC. apply (cycles_iter_sem_ sem zero c WF AC k (s0, s1)). Qed.

Theorem iter_sem_unique {V} (sem : N -> V -> V -> V -> V -> V) (zero : V) c k s0 s1 a b :
  wf_netlist c -> comb_acyclic c -> gates_known c ->
  iter_sem sem zero c k s0 s1 a b -> (a, b) = line_cycles sem zero c k (s0, s1).
Proof. intros WF AC GK. apply iter_sem_unique_; assumption. Qed.

(** both directions in one statement *)
Theorem cycles_are_iter_sem {V} (sem : N -> V -> V -> V -> V -> V) (zero : V) c k s0 s1 a b :
  wf_netlist c -> comb_acyclic c -> gates_known c ->
  (iter_sem sem zero c k s0 s1 a b <-> (a, b) = line_cycles sem zero c k (s0, s1)).
Proof.
  intros WF AC GK. split; [apply iter_sem_unique; assumption|].
  intros E. pose proof (cycles_iter_sem sem zero c k s0 s1 WF AC) as H. rewrite <- E in H. exact H.
Qed.

Theorem cycles_strip_irrelevant {V} (sem : N -> V -> V -> V -> V -> V) (zero : V) c len stems k st :
  wf_netlist c -> comb_acyclic c -> gates_known c -> length (c_lines c) <= len -> build_stems c true len = Some stems ->
  (forall x b cc d, sem (lutv "BUF1") x b cc d = x) ->
  (forall n, n < length (c_nodes c) -> iface_pos c n = None -> is_fork (get_node c n) = true ->
     n_kind (get_node c n) = "__fork__"%string) ->
  line_cycles_strip sem zero c stems k st = line_cycles sem zero c k st.
Proof. intros WF AC GK Hlen Hst Hbuf Hkind. apply (cycles_strip_irrelevant_ sem zero c WF AC GK len); assumption. Qed.

(** what one step is: the next state of a state element is the solution's value at its data line *)
Theorem cycle_next_state {V} (sem : N -> V -> V -> V -> V -> V) (zero : V) c s0 s1 v p l0 :
  wf_netlist c -> comb_acyclic c -> gates_known c -> solution sem zero c (stim_of zero s0) v ->
  snode_in c p = Some l0 ->
  nth p (snd (line_cycle sem zero c (s0, s1))) zero = v l0 /\
  (length (c_io c) <= p -> nth p (fst (line_cycle sem zero c (s0, s1))) zero = v l0) /\
  (p < length (c_io c) -> nth p (fst (line_cycle sem zero c (s0, s1))) zero = nth p s0 zero).
Proof.
  intros WF AC (G1 & G2 & G3) Hv Hp.
  assert (Hlt : p < length (s_nodes c)).
  { unfold snode_in in Hp. destruct (Nat.ltb p (length (s_nodes c))) eqn:E; [apply Nat.ltb_lt; exact E|discriminate]. }
  assert (Hn : forall (f : nat -> V), nth p (map f (seq 0 (length (s_nodes c)))) zero = f p).
  { intros f. rewrite (nth_indep _ zero (f 0)) by (rewrite map_length, seq_length; exact Hlt).
    rewrite (map_nth f (seq 0 (length (s_nodes c))) 0 p), seq_nth by exact Hlt. reflexivity. }
  assert (E1 : nth p (capture zero c (line_prop sem zero c s0) s1) zero = v l0).
  { unfold capture. rewrite Hn, Hp. symmetry.
    apply (solution_unique sem zero c (stim_of zero s0) v (line_prop sem zero c s0) WF AC G1 G2 G3 Hv).
    - apply build_ops_solution; assumption.
    - apply (snode_in_lt c p l0 WF Hp). }
  unfold line_cycle. cbn [fst snd]. split; [exact E1|]. unfold transfer. rewrite Hn. split.
  - intros H. apply Nat.leb_le in H. rewrite H. exact E1.
  - intros H. apply Nat.leb_gt in H. rewrite H. reflexivity.
Qed.

(** a port / state element WITHOUT a line on input pin 0 (no PPO slot): c_to_s never writes its s[1] entry, and
    s_ppo_to_ppi copies that never-written entry -- so with the result vector initialised to 0 (LogicSim.__init__) the next
    state of a flip-flop or latch without data line is 0 in every cycle ("an unconnected input pin reads constant 0") *)
Section NoData.
  Context {V : Type} (sem : N -> V -> V -> V -> V -> V) (zero : V).
  Variable c : netlist.
  Variable p : nat.
  Hypothesis Hp : p < length (s_nodes c).
  Hypothesis Hnone : snode_in c p = None.

  Lemma nth_map_seq (f : nat -> V) : nth p (map f (seq 0 (length (s_nodes c)))) zero = f p.
  Proof.
    rewrite (nth_indep _ zero (f 0)) by (rewrite map_length, seq_length; exact Hp).
    rewrite (map_nth f (seq 0 (length (s_nodes c))) 0 p), seq_nth by exact Hp. reflexivity.
  Qed.

  Lemma cycle_no_data_line_ s0 s1 :
    nth p (snd (line_cycle sem zero c (s0, s1))) zero = nth p s1 zero /\
    (length (c_io c) <= p -> nth p (fst (line_cycle sem zero c (s0, s1))) zero = nth p s1 zero).
  Proof.
    unfold line_cycle. cbn [fst snd].
    assert (E : forall v, nth p (capture zero c v s1) zero = nth p s1 zero).
    { intros v. unfold capture. rewrite nth_map_seq, Hnone. reflexivity. }
    split; [apply E|]. intros H. unfold transfer. rewrite nth_map_seq. apply Nat.leb_le in H. rewrite H. apply E.
  Qed.

  Hypothesis Hst : length (c_io c) <= p.

  Lemma cycles_no_data_aux : forall k s0 s1, nth p s1 zero = zero ->
    nth p (snd (line_cycles sem zero c k (s0, s1))) zero = zero /\
    (nth p s0 zero = zero -> nth p (fst (line_cycles sem zero c k (s0, s1))) zero = zero).
  Proof.
    induction k as [|k IH]; intros s0 s1 H1; [cbn [line_cycles fst snd]; auto|].
    cbn [line_cycles]. destruct (cycle_no_data_line_ s0 s1) as [A B]. specialize (B Hst).
    destruct (line_cycle sem zero c (s0, s1)) as [s0' s1']. cbn [fst snd] in A, B.
    rewrite H1 in A, B. destruct (IH s0' s1' A) as [I1 I2]. split; [exact I1|]. intros _. apply I2. exact B.
  Qed.
End NoData.

Theorem cycles_no_data_line {V} (sem : N -> V -> V -> V -> V -> V) (zero : V) c p k s0 s1 :
  p < length (s_nodes c) -> length (c_io c) <= p -> snode_in c p = None -> nth p s1 zero = zero ->
  nth p (snd (line_cycles sem zero c k (s0, s1))) zero = zero /\
  (1 <= k -> nth p (fst (line_cycles sem zero c k (s0, s1))) zero = zero).
Proof.
  intros Hp Hst Hnone H1. split; [apply (cycles_no_data_aux sem zero c p Hp Hnone Hst k s0 s1 H1)|].
  intros Hk. destruct k as [|k]; [lia|]. cbn [line_cycles].
  destruct (cycle_no_data_line_ sem zero c p Hp Hnone s0 s1) as [A B]. specialize (B Hst).
  destruct (line_cycle sem zero c (s0, s1)) as [s0' s1']. cbn [fst snd] in A, B. rewrite H1 in A, B.
  apply (cycles_no_data_aux sem zero c p Hp Hnone Hst k s0' s1' A). exact B.
Qed.

(* ------------------------------------------------------------------------------------------------ *)
(** * K4: executable test of [gates_known] *)

Definition no_pin_from (k : nat) (l : list (option nat)) : bool := forallb (fun o => negb (is_some o)) (skipn k l).
Definition gates_known_b (c : netlist) : bool :=
  forallb (fun n =>
      let nd := get_node c n in
      (match iface_pos c n with
       | Some _ => true
       | None => is_fork nd ||
                 (is_some (select_lut kind_prefixes (n_kind nd) (negb (is_some (pin (n_ins nd) 2))) (negb (is_some (pin (n_ins nd) 3))))
                  && no_pin_from 1 (n_outs nd))
       end) && (negb (is_dff nd) || no_pin_from 2 (n_outs nd))) (seq 0 (length (c_nodes c))).

Lemma nth_error_skipn' {A} : forall k (l : list A) j, nth_error (skipn k l) j = nth_error l (k + j).
Proof.
  induction k as [|k IH]; intros l j; [reflexivity|]. destruct l as [|x l]; [destruct j; reflexivity|]. apply IH.
Qed.

Lemma no_pin_from_spec k l j o : no_pin_from k l = true -> k <= j -> pin l j = Some o -> False.
Proof.
  unfold no_pin_from. intros H Hk Hp. apply pin_nth in Hp. rewrite forallb_forall in H.
  assert (Hin : In (Some o) (skipn k l)).
  { replace j with (k + (j - k)) in Hp by lia. rewrite <- nth_error_skipn' in Hp. apply (nth_error_In _ _ Hp). }
  specialize (H _ Hin). discriminate.
Qed.

Theorem gates_known_b_sound c : gates_known_b c = true -> gates_known c.
Proof.
  unfold gates_known_b. intros H. rewrite forallb_forall in H.
  assert (G : forall n, n < length (c_nodes c) -> _) by (intros n Hn; apply (H n); apply in_seq; lia).
  clear H. unfold gates_known. split; [|split].
  - intros n Hn Hi Hf. specialize (G n Hn). cbv zeta in G. rewrite Hi, Hf in G. cbn [orb] in G.
    apply andb_true_iff in G. destruct G as [G _]. apply andb_true_iff in G. destruct G as [G _].
    destruct (select_lut _ _ _ _); [discriminate|discriminate G].
  - intros n Hn Hd k o Hk Ho. specialize (G n Hn). cbv zeta in G. rewrite Hd in G. cbn [negb orb] in G.
    apply andb_true_iff in G. destruct G as [_ G]. apply (no_pin_from_spec 2 _ k o G Hk Ho).
  - intros n Hn Hi Hf k o Hk Ho. specialize (G n Hn). cbv zeta in G. rewrite Hi, Hf in G. cbn [orb] in G.
    apply andb_true_iff in G. destruct G as [G _]. apply andb_true_iff in G. destruct G as [_ G].
    apply (no_pin_from_spec 1 _ k o G Hk Ho).
Qed.

(* ------------------------------------------------------------------------------------------------ *)
(** * Example: a toggle flip-flop with an enable input.
      input en(0) -l0-> XOR(2).0      DFF(1) -l1-> fork(3) -l2-> XOR(2).1      XOR(2) -l4-> DFF(1).D
                                                   fork(3) -l3-> output(4)
    s_nodes = [0; 4; 1]: position 0 = en, 1 = output port, 2 = the flip-flop. *)
Module CycleExample.
  Import String.
  Local Open Scope string_scope.
  Definition tff : netlist :=
    {| c_nodes := [ {| n_kind := "input";    n_ins := [];               n_outs := [Some 0] |};
                    {| n_kind := "DFF";      n_ins := [Some 4];         n_outs := [Some 1] |};
                    {| n_kind := "XOR2";     n_ins := [Some 0; Some 2]; n_outs := [Some 4] |};
                    {| n_kind := "__fork__"; n_ins := [Some 1];         n_outs := [Some 2; Some 3] |};
                    {| n_kind := "output";   n_ins := [Some 3];         n_outs := [] |} ];
       c_lines := [ {| l_drv := 0; l_dpin := 0; l_rdr := 2; l_rpin := 0 |};
                    {| l_drv := 1; l_dpin := 0; l_rdr := 3; l_rpin := 0 |};
                    {| l_drv := 3; l_dpin := 0; l_rdr := 2; l_rpin := 1 |};
                    {| l_drv := 3; l_dpin := 1; l_rdr := 4; l_rpin := 0 |};
                    {| l_drv := 2; l_dpin := 0; l_rdr := 1; l_rpin := 0 |} ];
       c_io := [0; 4] |}.
  Lemma tff_wf : wf_netlist tff. Proof. apply wf_netlist_b_sound. vm_compute. reflexivity. Qed.
  Lemma tff_acyclic : comb_acyclic tff. Proof. apply (acyclic_b_sound tff tff_wf). vm_compute. reflexivity. Qed.
  Lemma tff_gates_known : gates_known tff. Proof. apply gates_known_b_sound. vm_compute. reflexivity. Qed.

  (** en = 1, state 0: the state (position 2 of s[0]) toggles every cycle; the output port's result (position 1 of s[1]) shows the
      state at the start of the cycle; ports keep their assignment *)
  Example tff_runs :
    map (fun k => line_cycles sem_lut false tff k ([true; false; false], [false; false; false])) [1; 2; 3; 4] =
    [ ([true; false; true],  [false; false; true]);
      ([true; false; false], [false; true;  false]);
      ([true; false; true],  [false; false; true]);
      ([true; false; false], [false; true;  false]) ].
  Proof. vm_compute. reflexivity. Qed.

  (** the theorems instantiated: ANY k-step run of the netlist's equations gives these vectors, in any value domain *)
  Example tff_iter_sem {V} (sem : N -> V -> V -> V -> V -> V) (zero : V) k s0 s1 a b :
    iter_sem sem zero tff k s0 s1 a b <-> (a, b) = line_cycles sem zero tff k (s0, s1).
  Proof. apply cycles_are_iter_sem; [exact tff_wf|exact tff_acyclic|exact tff_gates_known]. Qed.

  Example tff_strip k st : line_cycles_strip sem_lut false tff [-1; -1; 1; 1; -1; -1; -1; -1; -1; -1; -1; -1; -1; -1]%Z k st
                           = line_cycles sem_lut false tff k st.
  Proof.
    apply (cycles_strip_irrelevant sem_lut false tff 14); [exact tff_wf|exact tff_acyclic|exact tff_gates_known|simpl; lia|
      vm_compute; reflexivity|intros [] [] [] []; reflexivity|].
    intros n Hn Hi Hf. simpl in Hn. do 5 (destruct n as [|n]; [vm_compute in Hi, Hf |- *; first [discriminate|reflexivity]|]). lia.
  Qed.

  (** a flip-flop WITHOUT data line (node 1; s_nodes = [2; 1], position 1) driving an output port: whatever state is assigned,
      from the first cycle on its state is 0 *)
  Definition nodata : netlist :=
    {| c_nodes := [ {| n_kind := "input";  n_ins := [];       n_outs := [] |};
                    {| n_kind := "DFF";    n_ins := [];       n_outs := [Some 0] |};
                    {| n_kind := "output"; n_ins := [Some 0]; n_outs := [] |} ];
       c_lines := [ {| l_drv := 1; l_dpin := 0; l_rdr := 2; l_rpin := 0 |} ];
       c_io := [2] |}.
  Example nodata_runs :
    map (fun k => line_cycles sem_lut false nodata k ([false; true], [false; false])) [1; 2; 3] =
    [ ([false; false], [true; false]); ([false; false], [false; false]); ([false; false], [false; false]) ].
  Proof. vm_compute. reflexivity. Qed.
  Example nodata_state_zero {V} (sem : N -> V -> V -> V -> V -> V) (zero : V) k s0 s1 : nth 1 s1 zero = zero -> 1 <= k ->
    nth 1 (fst (line_cycles sem zero nodata k (s0, s1))) zero = zero.
  Proof. intros H Hk. apply (cycles_no_data_line sem zero nodata 1 k s0 s1); [simpl; lia|simpl; lia|reflexivity|exact H|exact Hk]. Qed.
End CycleExample.

Print Assumptions cycles_iter_sem.
Print Assumptions iter_sem_unique.
Print Assumptions cycles_are_iter_sem.
Print Assumptions cycles_strip_irrelevant.
Print Assumptions cycle_next_state.
Print Assumptions cycles_no_data_line.
Print Assumptions gates_known_b_sound.
