(** C10, substitute on arbitrary implementation circuits, instances with UNCONNECTED output pins allowed:
    [glue_function] of Proofs/CircuitSubstSem.v without the hypothesis [all_outs_connected_b]. *)
From Coq Require Import List Arith Bool String NArith Lia.
From KV Require Model.Prims Model.Netlist Model.SimOps Model.NetlistSem Gen.SimTables.
From KV Require Import Model.Circuit Model.CircuitInv Model.CircuitView Model.CircuitSem Model.CircuitSubstSem
     Proofs.CircuitBase Proofs.CircuitProofs Proofs.CircuitBool Proofs.CircuitViewProofs Proofs.CircuitElimSem Proofs.CircuitSubstInv
     Proofs.CircuitDanglingSem Proofs.CircuitSubstSem.
Import ListNotations.
Local Open Scope list_scope.

(** ** [gate_out] between different pin lists; forks *)
Section GateOutXfer.
Context {V : Type} (sem : BinNums.N -> V -> V -> V -> V -> V) (zero : V).
Hypothesis Hbuf : forall x a b d, sem (SimOps.lutv "BUF1") x a b d = x.

Lemma gate_out_xfer : forall kind ins ins' ifc (v v' : nat -> V) k,
  (forall j, NetlistSem.pinv zero v ins j = NetlistSem.pinv zero v' ins' j) ->
  (forall j, j = 2 \/ j = 3 -> Netlist.is_some (SimOps.pin ins j) = Netlist.is_some (SimOps.pin ins' j)) ->
  gate_out sem zero kind ins ifc v k = gate_out sem zero kind ins' ifc v' k.
Proof.
  intros kind ins ins' ifc v v' k Hp Hs. unfold gate_out. destruct ifc; [reflexivity|].
  rewrite !Hp. rewrite (Hs 2), (Hs 3) by auto. reflexivity.
Qed.
Lemma gate_out_iface_fork : forall ins s (v : nat -> V) k val, gate_out sem zero FORK ins (Some s) v k = Some val -> val = s.
Proof.
  intros ins s v k val. unfold gate_out.
  assert (E : kind_is_dff FORK = false) by (vm_compute; reflexivity). rewrite E.
  destruct k; intros H; injection H as <-; apply Hbuf.
Qed.
End GateOutXfer.

(** ** the glue theorem *)
Section GlueGen.
Context {V : Type} (sem : BinNums.N -> V -> V -> V -> V -> V) (zero : V).
Hypothesis Hbuf : forall x a b d, sem (SimOps.lutv "BUF1") x a b d = x.
Variables (c : circ) (u : nat) (impl : circ) (m : list (nat * nat)) (c4 : circ).
Hypothesis HIc : CInv c.
Hypothesis HLc : IoLive c.
Hypothesis Hu : In u (nodes c).
Hypothesis Hiou : io_mem c u = false.
Hypothesis HIi : CInv impl.
Hypothesis HLi : IoLive impl.
Hypothesis Hforks : io_forks_b impl = true.
Hypothesis HI4 : CInv c4.
Hypothesis HL4 : IoLive c4.
Hypothesis G : SubstGlue c u impl m c4.
Hypothesis HD22 : d22_free_b c u impl = true.
Let HCc : CCoreX [] c := proj1 HIc.
Let HCi : CCoreX [] impl := proj1 HIi.
Let HC4 : CCoreX [] c4 := proj1 HI4.

(** *** ports of the implementation *)
Lemma g_port_ids : forall x, In x (nodes impl) -> in_ios impl x = true -> In x (io_ids impl) /\ kind_of impl x = FORK.
Proof.
  intros x Hx H. split.
  - apply (io_ids_in impl x HLi). apply (in_ios_io impl HCi HLi); auto.
  - apply fork_kind. apply (in_ios_fork impl); auto.
Qed.
Lemma g_ids_port : forall x, In x (io_ids impl) -> In x (nodes impl) /\ in_ios impl x = true /\ kind_of impl x = FORK.
Proof.
  intros x H. apply (io_ids_in impl x HLi) in H. destruct (HLi _ H) as [n [E Hn]]. inv E.
  assert (A : in_ios impl n = true) by (apply io_in_ios; auto).
  split; auto. split; auto. apply fork_kind. apply (in_ios_fork impl); auto.
Qed.
Lemma g_noport_ids : forall x, in_ios impl x = false -> ~ In x (io_ids impl) /\ ~ In (Some x) (io impl).
Proof.
  intros x H. assert (A : ~ In (Some x) (io impl)).
  { intros Hc. apply io_in_ios in Hc. congruence. }
  split; auto. intros Hc. apply A. apply (io_ids_in impl x HLi). exact Hc.
Qed.
Lemma g_impl_ins_spec : forall x, In x (impl_ins impl) <-> In x (io_ids impl) /\ List.length (ins_of impl x) = 0.
Proof. intros x. unfold impl_ins. rewrite filter_In, Nat.eqb_eq. tauto. Qed.
Lemma g_impl_outs_spec : forall x, In x (impl_outs impl) <-> In x (io_ids impl) /\ 0 < List.length (ins_of impl x).
Proof. intros x. unfold impl_outs. rewrite filter_In, Nat.ltb_lt. tauto. Qed.

Lemma g_unmapped_cases : forall x, In x (nodes impl) -> mget x m = None ->
  In x (io_ids impl) /\ kind_of impl x = FORK /\
  ((List.length (ins_of impl x) = 0 /\ List.length (outs_of impl x) = 1) \/
   (0 < List.length (ins_of impl x) /\ List.length (outs_of impl x) = 0)).
Proof.
  intros x Hx Hm. destruct (sg_dom _ _ _ _ _ G x Hx Hm) as [A B]. destruct (g_port_ids x Hx A) as [P Q].
  split; auto. split; auto. unfold port_fork_b in B.
  destruct (Nat.ltb_spec 0 (List.length (outs_of impl x))), (Nat.ltb_spec 0 (List.length (ins_of impl x))),
    (Nat.eqb_spec (List.length (ins_of impl x)) 0), (Nat.eqb_spec (List.length (outs_of impl x)) 1);
    simpl in B; try discriminate; lia.
Qed.

Lemma g_unmapped_driver : forall l d, In l (lines impl) -> l_drv (lst impl l) = Some d -> mget d m = None ->
  In d (nodes impl) /\ (exists k, index_of d (impl_ins impl) = Some k) /\ outs_of impl d = [Some l] /\
  l_dpin (lst impl l) = 0 /\ List.length (ins_of impl d) = 0.
Proof.
  intros l d Hl Hd Hm. destruct (impl_line impl HCi l Hl) as [d0 [r [E1 [E2 [Hd0 [Hr [Ho Hi]]]]]]].
  rewrite Hd in E1. inv E1. destruct (g_unmapped_cases d0 Hd0 Hm) as [P [Q R]].
  unfold out_at in Ho. pose proof (nth_some_lt _ _ _ Ho) as Hlt.
  destruct R as [[R1 R2]|[R1 R2]]; [|lia].
  split; auto. split. { apply index_of_in. apply g_impl_ins_spec. auto. }
  assert (E0 : l_dpin (lst impl l) = 0) by lia. rewrite E0 in Ho.
  destruct (outs_of impl d0) as [|e [|e' t]]; simpl in *; try lia. subst e. auto.
Qed.

Lemma g_host_out_line : forall k ll, nth k (outs_of c u) None = Some ll ->
  In ll (lines c) /\ l_drv (lst c ll) = Some u /\ l_dpin (lst c ll) = k.
Proof. intros k ll H. apply (cc_outs [] c HCc u k ll (or_introl Hu)). exact H. Qed.
Lemma g_host_in_line : forall k ll, nth k (ins_of c u) None = Some ll ->
  In ll (lines c) /\ l_rdr (lst c ll) = Some u /\ l_rpin (lst c ll) = k.
Proof. intros k ll H. apply (cc_ins [] c HCc u k ll (or_introl Hu)). exact H. Qed.

Lemma g_unmapped_reader : forall l r, In l (lines impl) -> l_rdr (lst impl l) = Some r -> mget r m = None ->
  In r (nodes impl) /\ l_rpin (lst impl l) = 0 /\ in_at impl r 0 = Some l.
Proof.
  intros l r Hl Hr Hm. destruct (impl_line impl HCi l Hl) as [d [r0 [E1 [E2 [Hd0 [Hr0 [Ho Hi]]]]]]].
  rewrite Hr in E2. inv E2. pose proof (sg_pure _ _ _ _ _ G l r0 Hl Hr Hm) as Hp. rewrite Hp in Hi. auto.
Qed.

(* the driver end of an implementation line whose driver is copied: the copy of the line, or the host line at the instance
   output pin (NOTHING if that pin is unconnected) *)
Lemma g_drv_mapped : forall l d r d', In l (lines impl) -> l_drv (lst impl l) = Some d -> l_rdr (lst impl l) = Some r ->
  mget d m = Some d' ->
  (exists r' z, mget r m = Some r' /\ lnext c <= z /\ out_at c4 d' (l_dpin (lst impl l)) = Some z /\
                in_at c4 r' (l_rpin (lst impl l)) = Some z) \/
  (mget r m = None /\ l_rpin (lst impl l) = 0 /\ in_at impl r 0 = Some l /\
   out_at c4 d' (l_dpin (lst impl l)) = host_out c u impl r /\ (forall z, host_out c u impl r = Some z -> In z (lines c))).
Proof.
  intros l d r d' Hl Hd Hr Hm. destruct (mget r m) as [r'|] eqn:Hmr.
  - destruct (sg_copied _ _ _ _ _ G l d r d' r' Hl Hd Hr Hm Hmr) as [z [A [B C]]]. left. exists r', z. auto.
  - destruct (g_unmapped_reader l r Hl Hr Hmr) as [Hrn [Hp Hi]].
    destruct (impl_line impl HCi l Hl) as [d0 [r0 [E1 [E2 [Hd0 [Hr0 [Ho _]]]]]]]. rewrite Hd in E1. inv E1.
    right. split; auto. split; auto. split; auto. split.
    + rewrite (sg_outs _ _ _ _ _ G d0 d' _ Hm). unfold exp_out. rewrite Ho, Hr, Hmr, Hp. reflexivity.
    + intros z Hz. unfold host_out in Hz. destruct (index_of r (impl_outs impl)) as [k|]; [|discriminate].
      apply (g_host_out_line k z Hz).
Qed.

(** *** interface nodes *)
Lemma g_mapped_not_io : forall x y, mget x m = Some y -> ~ In (Some y) (io c4).
Proof.
  intros x y Hm H. rewrite (sg_io _ _ _ _ _ G) in H. destruct (HLc _ H) as [n [E Hn]]. inv E.
  destruct (sg_rng _ _ _ _ _ G x n Hm) as [_ [_ [->|Hge]]].
  - assert (A : io_mem c u = true).
    { unfold io_mem. apply existsb_exists. exists (Some u). split; auto. apply Nat.eqb_refl. }
    congruence.
  - pose proof (cc_nb [] c HCc n (or_introl Hn)). lia.
Qed.
Lemma g_mapped_listed : forall x y, mget x m = Some y -> In x (nodes impl) /\ In y (nodes c4).
Proof. intros x y Hm. destruct (sg_rng _ _ _ _ _ G x y Hm) as [A [B _]]. auto. Qed.

Lemma g_ciface_host : forall n, In n (nodes c) -> n <> u -> ciface c4 n = ciface c n.
Proof.
  intros n Hn Hne. unfold ciface. destruct (sg_host _ _ _ _ _ G n Hn Hne) as [K [_ [I O]]]. rewrite K, I. f_equal.
  apply mem_iff. rewrite (s_node_ids_spec c HCc HLc), (s_node_ids_spec c4 HC4 HL4).
  rewrite !in_app_iff, !filter_In. unfold io_ids, node_is_dff, node_is_latch. rewrite (sg_io _ _ _ _ _ G), K.
  assert (In n (nodes c4)) by (apply (sg_nodes _ _ _ _ _ G); left; auto). tauto.
Qed.
Lemma g_ciface_copy : forall x y, mget x m = Some y -> in_ios impl x = false ->
  ciface c4 y = ciface impl x /\ kind_of c4 y = kind_of impl x.
Proof.
  intros x y Hm Hio. destruct (g_mapped_listed x y Hm) as [Hx Hy].
  pose proof (sg_kind _ _ _ _ _ G x y Hm) as K. rewrite Hio in K. split; auto.
  rewrite (ciface_noio c4 y HI4 HL4 Hy (g_mapped_not_io x y Hm)).
  rewrite (ciface_noio impl x HIi HLi Hx (proj2 (g_noport_ids x Hio))). rewrite K. reflexivity.
Qed.
Lemma g_ciface_port_copy : forall x y, mget x m = Some y -> in_ios impl x = true ->
  ciface c4 y = false /\ kind_of c4 y = FORK.
Proof.
  intros x y Hm Hio. destruct (g_mapped_listed x y Hm) as [Hx Hy].
  pose proof (sg_kind _ _ _ _ _ G x y Hm) as K. rewrite Hio in K. split; auto.
  rewrite (ciface_noio c4 y HI4 HL4 Hy (g_mapped_not_io x y Hm)). rewrite K. vm_compute. reflexivity.
Qed.
Lemma g_ciface_inport : forall x, In x (io_ids impl) -> List.length (ins_of impl x) = 0 -> ciface impl x = true.
Proof.
  intros x Hx Hl. unfold ciface, kind_port_wire. destruct (ins_of impl x) as [|e t]; [|simpl in Hl; lia].
  replace (SimOps.pin [] 0) with (@None nat) by reflexivity. simpl. rewrite andb_false_r. simpl.
  apply mem_In. rewrite (s_node_ids_spec impl HCi HLi). apply in_app_iff. auto.
Qed.
Lemma g_ciface_outport : forall x l, kind_of impl x = FORK -> in_at impl x 0 = Some l -> ciface impl x = false.
Proof. intros x l K H. unfold ciface, kind_port_wire. rewrite K, pin_in_at, H. reflexivity. Qed.

Lemma g_d22_pin : forall l d k, In l (lines impl) -> l_drv (lst impl l) = Some d -> mget d m = None ->
  index_of d (impl_ins impl) = Some k -> nth k (ins_of c u) None = None -> l_rpin (lst impl l) < 2.
Proof.
  intros l d k Hl Hd Hm Hk Hn. destruct (g_unmapped_driver l d Hl Hd Hm) as [_ [_ [Ho _]]].
  pose proof HD22 as HD. unfold d22_free_b in HD.
  pose proof (forallb_i_spec _ _ _ HD k d (index_of_nth _ _ _ Hk)) as H. simpl in H. rewrite Hn, Ho in H. simpl in H.
  apply Nat.ltb_lt in H. exact H.
Qed.

(** *** the value an implementation line must carry, read off the valuation of [c4] *)
Definition g_copy_of (l : nat) : option nat :=
  match l_drv (lst impl l) with
  | Some d => match mget d m with Some d' => out_at c4 d' (l_dpin (lst impl l)) | None => None end
  | None => None
  end.
Definition g_expect (v' : nat -> V) (l : nat) : V :=
  match l_drv (lst impl l) with
  | Some d => match mget d m with
              | Some d' => match out_at c4 d' (l_dpin (lst impl l)) with Some z => v' z | None => zero end
              | None => match index_of d (impl_ins impl) with
                        | Some k => NetlistSem.pinv zero v' (ins_of c u) k
                        | None => zero end
              end
  | None => zero
  end.

Lemma g_copy_inj : forall l1 l2 z, In l1 (lines impl) -> In l2 (lines impl) -> g_copy_of l1 = Some z -> g_copy_of l2 = Some z -> l1 = l2.
Proof.
  intros l1 l2 z H1 H2 E1 E2. unfold g_copy_of in *.
  destruct (l_drv (lst impl l1)) as [d1|] eqn:D1; [|discriminate]. destruct (mget d1 m) as [d1'|] eqn:M1; [|discriminate].
  destruct (l_drv (lst impl l2)) as [d2|] eqn:D2; [|discriminate]. destruct (mget d2 m) as [d2'|] eqn:M2; [|discriminate].
  destruct (cc_outs [] c4 HC4 d1' _ z (or_introl (proj2 (g_mapped_listed _ _ M1))) E1) as [_ [A1 B1]].
  destruct (cc_outs [] c4 HC4 d2' _ z (or_introl (proj2 (g_mapped_listed _ _ M2))) E2) as [_ [A2 B2]].
  rewrite A1 in A2. inv A2. pose proof (sg_inj _ _ _ _ _ G _ _ _ M1 M2) as E. subst d2.
  destruct (impl_line impl HCi l1 H1) as [a1 [r1 [F1 [_ [_ [_ [O1 _]]]]]]].
  destruct (impl_line impl HCi l2 H2) as [a2 [r2 [F2 [_ [_ [_ [O2 _]]]]]]].
  rewrite D1 in F1. inv F1. rewrite D2 in F2. inv F2. rewrite <- B1 in O1. rewrite <- B2 in O2. congruence.
Qed.

Lemma g_outport_in0 : forall x, In x (io_ids impl) -> 0 < List.length (ins_of impl x) -> exists l0, in_at impl x 0 = Some l0.
Proof.
  intros x Hids Hlen. assert (Ho : In x (impl_outs impl)) by (apply g_impl_outs_spec; auto).
  pose proof (sg_outdrv _ _ _ _ _ G x Ho) as H. destruct (in_at impl x 0) as [l0|]; [eauto|congruence].
Qed.

(* an implementation line has a carrier in [c4] unless it leads into a pure output port whose instance pin is unconnected *)
Definition g_carrier (l : nat) : bool :=
  match l_drv (lst impl l) with
  | Some d => match mget d m with Some d' => Netlist.is_some (out_at c4 d' (l_dpin (lst impl l))) | None => true end
  | None => true
  end.

Section CohGen.
Variables (stim : nat -> V) (v' w : nat -> V).
Hypothesis HCoh : forall l, In l (lines impl) -> g_carrier l = true -> w l = g_expect v' l.

Lemma g_out_corr_fw : forall x y p l, mget x m = Some y -> out_at impl x p = Some l -> g_carrier l = true ->
  exists z, out_at c4 y p = Some z /\ w l = v' z.
Proof.
  intros x y p l Hm Ho Hcar. destruct (g_mapped_listed x y Hm) as [Hx Hy].
  destruct (impl_out impl HCi x p l Hx Ho) as [Hl [Hd Hp]].
  pose proof Hcar as Hc2. unfold g_carrier in Hc2. rewrite Hd, Hm, Hp in Hc2.
  destruct (out_at c4 y p) as [z|] eqn:Hz; [|discriminate].
  exists z. split; auto. rewrite (HCoh l Hl Hcar). unfold g_expect. rewrite Hd, Hm, Hp, Hz. reflexivity.
Qed.
Lemma g_out_corr_bw : forall x y p z, mget x m = Some y -> out_at c4 y p = Some z ->
  (exists l, out_at impl x p = Some l /\ w l = v' z) \/
  (out_at impl x p = None /\ in_ios impl x = true /\ 0 < List.length (ins_of impl x) /\ host_out c u impl x = Some z).
Proof.
  intros x y p z Hm Hz. destruct (out_at impl x p) as [l|] eqn:E.
  - left. exists l. split; auto. destruct (g_mapped_listed x y Hm) as [Hx Hy].
    destruct (impl_out impl HCi x p l Hx E) as [Hl [Hd Hp]].
    assert (Hcar : g_carrier l = true). { unfold g_carrier. rewrite Hd, Hm, Hp, Hz. reflexivity. }
    destruct (g_out_corr_fw x y p l Hm E Hcar) as [z0 [A B]]. congruence.
  - right. rewrite (sg_outs _ _ _ _ _ G x y p Hm) in Hz. unfold exp_out in Hz. rewrite E in Hz.
    destruct (in_ios impl x); simpl in Hz; [|discriminate].
    destruct (Nat.ltb_spec 0 (List.length (ins_of impl x))); simpl in Hz; [|discriminate].
    destruct (0 <? List.length (outs_of impl x)); simpl in Hz; [|discriminate].
    destruct (p =? List.length (outs_of impl x)); [|discriminate]. auto.
Qed.

Lemma g_pinv_at : forall cc (val : nat -> V) n k, NetlistSem.pinv zero val (ins_of cc n) k =
  match in_at cc n k with Some l => val l | None => zero end.
Proof. intros. unfold NetlistSem.pinv. rewrite pin_in_at. reflexivity. Qed.

(* a line into a copied node has a carrier *)
Lemma g_in_carrier : forall x y p l, mget x m = Some y -> in_at impl x p = Some l ->
  g_carrier l = true /\
  forall d d', l_drv (lst impl l) = Some d -> mget d m = Some d' -> exists z, out_at c4 d' (l_dpin (lst impl l)) = Some z.
Proof.
  intros x y p l Hm Hi. destruct (g_mapped_listed x y Hm) as [Hx Hy].
  destruct (impl_in impl HCi x p l Hx Hi) as [Hl [Hr Hp]].
  destruct (impl_line impl HCi l Hl) as [d [r [E1 [E2 _]]]].
  assert (r = x) by congruence. subst r.
  assert (A : forall d0 d', l_drv (lst impl l) = Some d0 -> mget d0 m = Some d' ->
              exists z, out_at c4 d' (l_dpin (lst impl l)) = Some z).
  { intros d0 d' F Hmd. destruct (g_drv_mapped l d0 x d' Hl F E2 Hmd) as [[r' [z [_ [_ [Hz _]]]]]|[Hmr _]].
    - eauto.
    - congruence. }
  split; auto. unfold g_carrier. rewrite E1. destruct (mget d m) as [d'|] eqn:Hmd; auto.
  destruct (A d d' E1 Hmd) as [z Hz]. rewrite Hz. reflexivity.
Qed.

Lemma g_in_corr : forall x y p l, mget x m = Some y -> in_at impl x p = Some l ->
  NetlistSem.pinv zero v' (ins_of c4 y) p = w l /\ (p = 2 \/ p = 3 -> Netlist.is_some (in_at c4 y p) = true).
Proof.
  intros x y p l Hm Hi. destruct (g_mapped_listed x y Hm) as [Hx Hy].
  destruct (impl_in impl HCi x p l Hx Hi) as [Hl [Hr Hp]].
  destruct (impl_line impl HCi l Hl) as [d [r [E1 [E2 _]]]].
  destruct (g_in_carrier x y p l Hm Hi) as [Hcar Hz].
  rewrite g_pinv_at. rewrite (sg_ins _ _ _ _ _ G x y p Hm). unfold exp_in. rewrite Hi, E1.
  rewrite (HCoh l Hl Hcar). unfold g_expect. rewrite E1.
  destruct (mget d m) as [d'|] eqn:Hmd.
  - destruct (Hz d d' E1 Hmd) as [z Ez]. rewrite Ez. split; auto.
  - destruct (g_unmapped_driver l d Hl E1 Hmd) as [_ [[k Hk] _]]. unfold host_in. rewrite Hk.
    unfold NetlistSem.pinv. rewrite pin_nth. split; auto.
    intros Hp23. destruct (nth k (ins_of c u) None) eqn:En; auto.
    pose proof (g_d22_pin l d k Hl E1 Hmd Hk En). lia.
Qed.

(* pins, kind and interface role of a copy that is not the fork of an input port *)
Lemma g_pins_agree : forall x y, mget x m = Some y -> (in_ios impl x = true -> 0 < List.length (ins_of impl x)) ->
  (forall k, NetlistSem.pinv zero w (ins_of impl x) k = NetlistSem.pinv zero v' (ins_of c4 y) k) /\
  (forall k, k = 2 \/ k = 3 ->
     Netlist.is_some (SimOps.pin (ins_of impl x) k) = Netlist.is_some (SimOps.pin (ins_of c4 y) k)).
Proof.
  intros x y Hm Hnp.
  assert (Hnone : forall k, in_at impl x k = None -> in_at c4 y k = None).
  { intros k E. rewrite (sg_ins _ _ _ _ _ G x y k Hm). unfold exp_in. rewrite E.
    destruct (in_ios impl x); simpl; auto. specialize (Hnp eq_refl).
    destruct (Nat.eqb_spec (List.length (ins_of impl x)) 0); [lia|]. reflexivity. }
  split.
  - intros k. destruct (in_at impl x k) as [l|] eqn:E.
    + destruct (g_in_corr x y k l Hm E) as [A _]. rewrite A. rewrite g_pinv_at, E. reflexivity.
    + rewrite !g_pinv_at. rewrite E, (Hnone k E). reflexivity.
  - intros k Hk23. rewrite !pin_in_at. destruct (in_at impl x k) as [l|] eqn:E.
    + destruct (g_in_corr x y k l Hm E) as [_ B]. rewrite (B Hk23). reflexivity.
    + rewrite (Hnone k E). reflexivity.
Qed.
Lemma g_ifc_agree : forall x y, mget x m = Some y -> (in_ios impl x = true -> 0 < List.length (ins_of impl x)) ->
  kind_of c4 y = kind_of impl x /\
  (if ciface c4 y then Some (stim y) else None) =
  (if ciface impl x then Some (inst_stim zero c u impl m stim v' x) else None).
Proof.
  intros x y Hm Hnp. destruct (g_mapped_listed x y Hm) as [Hx Hy]. destruct (in_ios impl x) eqn:Hio.
  - specialize (Hnp eq_refl). destruct (g_port_ids x Hx Hio) as [Hids Hk].
    destruct (g_ciface_port_copy x y Hm Hio) as [Hif4 Hk4]. destruct (g_outport_in0 x Hids Hnp) as [l0 Hl0].
    rewrite (g_ciface_outport x l0 Hk Hl0), Hif4, Hk, Hk4. auto.
  - destruct (g_ciface_copy x y Hm Hio) as [Hif Hk]. rewrite Hif, Hk. split; auto.
    assert (Hst : inst_stim zero c u impl m stim v' x = stim y).
    { unfold inst_stim. destruct (index_of x (impl_ins impl)) as [k|] eqn:E.
      - exfalso. apply index_of_nth in E. apply nth_error_In in E. apply g_impl_ins_spec in E.
        apply (proj1 (g_noport_ids x Hio)). tauto.
      - rewrite Hm. reflexivity. }
    rewrite Hst. reflexivity.
Qed.

Lemma g_inst_stim_inport : forall x k, index_of x (impl_ins impl) = Some k ->
  inst_stim zero c u impl m stim v' x = NetlistSem.pinv zero v' (ins_of c u) k.
Proof. intros x k H. unfold inst_stim. rewrite H. reflexivity. Qed.

(* the fork of an input port reads the host line at the instance pin *)
Lemma g_inport_fork : forall x y, mget x m = Some y -> in_ios impl x = true -> List.length (ins_of impl x) = 0 ->
  ciface impl x = true /\ kind_of impl x = FORK /\ ciface c4 y = false /\ kind_of c4 y = FORK /\
  NetlistSem.pinv zero v' (ins_of c4 y) 0 = inst_stim zero c u impl m stim v' x.
Proof.
  intros x y Hm Hio Hlen. destruct (g_mapped_listed x y Hm) as [Hx Hy]. destruct (g_port_ids x Hx Hio) as [Hids Hk].
  destruct (g_ciface_port_copy x y Hm Hio) as [Hif4 Hk4].
  split. apply (g_ciface_inport x Hids Hlen). split; auto. split; auto. split; auto.
  destruct (index_of_in x (impl_ins impl)) as [k Hidx]. { apply g_impl_ins_spec. auto. }
  rewrite (g_inst_stim_inport x k Hidx).
  assert (Hi0 : in_at impl x 0 = None). { unfold in_at. destruct (ins_of impl x); simpl in *; auto. lia. }
  rewrite g_pinv_at. rewrite (sg_ins _ _ _ _ _ G x y 0 Hm). unfold exp_in. rewrite Hi0, Hio, Hlen. simpl.
  unfold host_in. rewrite Hidx. unfold NetlistSem.pinv. rewrite pin_nth. reflexivity.
Qed.

(** from the implementation to [c4] *)
Lemma g_node_fw : forall x y,
  (forall k o ll, nth_error (impl_outs impl) k = Some o -> nth k (outs_of c u) None = Some ll -> v' ll = obs zero impl w o 0) ->
  mget x m = Some y ->
  cnode_ok sem zero impl (inst_stim zero c u impl m stim v') w x -> cnode_ok sem zero c4 stim v' y.
Proof.
  intros x y HOA Hm Hn. destruct (g_mapped_listed x y Hm) as [Hx Hy]. unfold cnode_ok in *.
  destruct (in_ios impl x) eqn:Hio; [destruct (Nat.eq_dec (List.length (ins_of impl x)) 0) as [E|E]|].
  - destruct (g_inport_fork x y Hm Hio E) as [A1 [A2 [A3 [A4 A5]]]]. rewrite A1, A2 in Hn. rewrite A3, A4.
    rewrite (iface_fork_eq sem zero Hbuf) in Hn. rewrite (wire_fork_eq sem zero Hbuf). rewrite A5.
    intros p o' Hq. rewrite pin_out_at in Hq. destruct (g_out_corr_bw x y p o' Hm Hq) as [[l [A B]]|[_ [_ [A _]]]]; [|lia].
    rewrite <- B. apply (Hn p l). rewrite pin_out_at. exact A.
  - assert (Hnp : in_ios impl x = true -> 0 < List.length (ins_of impl x)) by (intros _; lia).
    destruct (g_port_ids x Hx Hio) as [Hids Hk]. destruct (g_outport_in0 x Hids (Hnp Hio)) as [l0 Hl0].
    destruct (g_ciface_port_copy x y Hm Hio) as [Hif4 Hk4].
    rewrite (g_ciface_outport x l0 Hk Hl0), Hk in Hn. rewrite Hif4, Hk4.
    rewrite (wire_fork_eq sem zero Hbuf) in *.
    destruct (g_in_corr x y 0 l0 Hm Hl0) as [A _]. rewrite A. rewrite (g_pinv_at impl w x 0), Hl0 in Hn.
    intros p z Hq. rewrite pin_out_at in Hq. destruct (g_out_corr_bw x y p z Hm Hq) as [[l [B C]]|[_ [_ [_ B]]]].
    + rewrite <- C. apply (Hn p l). rewrite pin_out_at. exact B.
    + unfold host_out in B. destruct (index_of x (impl_outs impl)) as [k|] eqn:Hidx; [|discriminate].
      rewrite (HOA k x z (index_of_nth _ _ _ Hidx) B). unfold obs. rewrite g_pinv_at, Hl0. reflexivity.
  - assert (Hnp : in_ios impl x = true -> 0 < List.length (ins_of impl x)) by (intros; congruence).
    destruct (g_ifc_agree x y Hm Hnp) as [Hk Hif]. destruct (g_pins_agree x y Hm Hnp) as [Hp Hs].
    rewrite Hk, Hif. revert Hn. apply gate_ok_xfer; auto.
    intros k o' Hq. rewrite pin_out_at in Hq. destruct (g_out_corr_bw x y k o' Hm Hq) as [[l [A B]]|[_ [A _]]]; [|congruence].
    exists l. rewrite pin_out_at. auto.
Qed.

(** from [c4] to the implementation, pin by pin: an out pin WITH a carrier *)
Lemma g_pin_bw : forall x y, mget x m = Some y -> cnode_ok sem zero c4 stim v' y ->
  forall k o, out_at impl x k = Some o -> g_carrier o = true ->
  forall val, gate_out sem zero (kind_of impl x) (ins_of impl x)
                (if ciface impl x then Some (inst_stim zero c u impl m stim v' x) else None) w k = Some val -> w o = val.
Proof.
  intros x y Hm Hn k o Ho Hcar val Hval. destruct (g_out_corr_fw x y k o Hm Ho Hcar) as [z [Hz Hwz]]. rewrite Hwz.
  unfold cnode_ok in Hn.
  destruct (in_ios impl x) eqn:Hio; [destruct (Nat.eq_dec (List.length (ins_of impl x)) 0) as [E|E]|].
  - destruct (g_inport_fork x y Hm Hio E) as [A1 [A2 [A3 [A4 A5]]]]. rewrite A1, A2 in Hval. rewrite A3, A4 in Hn.
    rewrite (wire_fork_eq sem zero Hbuf) in Hn. rewrite (gate_out_iface_fork sem zero Hbuf _ _ _ _ _ Hval).
    rewrite <- A5. apply (Hn k z). rewrite pin_out_at. exact Hz.
  - assert (Hnp : in_ios impl x = true -> 0 < List.length (ins_of impl x)) by (intros _; lia).
    destruct (g_ifc_agree x y Hm Hnp) as [Hk Hif]. destruct (g_pins_agree x y Hm Hnp) as [Hp Hs].
    rewrite Hk, Hif in Hn. rewrite gate_ok_iff in Hn. apply (Hn k z). rewrite pin_out_at. exact Hz.
    rewrite <- Hval. symmetry. apply gate_out_xfer; auto.
  - assert (Hnp : in_ios impl x = true -> 0 < List.length (ins_of impl x)) by (intros; congruence).
    destruct (g_ifc_agree x y Hm Hnp) as [Hk Hif]. destruct (g_pins_agree x y Hm Hnp) as [Hp Hs].
    rewrite Hk, Hif in Hn. rewrite gate_ok_iff in Hn. apply (Hn k z). rewrite pin_out_at. exact Hz.
    rewrite <- Hval. symmetry. apply gate_out_xfer; auto.
Qed.

(* a port without a copy *)
Lemma g_node_C : forall x, In x (nodes impl) -> mget x m = None ->
  cnode_ok sem zero impl (inst_stim zero c u impl m stim v') w x.
Proof.
  intros x Hx Hm. destruct (g_unmapped_cases x Hx Hm) as [Hids [Hk [[L1 L2]|[L1 L2]]]]; unfold cnode_ok.
  - rewrite (g_ciface_inport x Hids L1), Hk. rewrite (iface_fork_eq sem zero Hbuf). intros p o Hq. rewrite pin_out_at in Hq.
    destruct (impl_out impl HCi x p o Hx Hq) as [Ho [Hd Hp]].
    assert (Hcar : g_carrier o = true). { unfold g_carrier. rewrite Hd, Hm. reflexivity. }
    rewrite (HCoh o Ho Hcar). unfold g_expect. rewrite Hd, Hm.
    unfold inst_stim. destruct (index_of x (impl_ins impl)); auto. rewrite Hm. reflexivity.
  - destruct (g_outport_in0 x Hids L1) as [l0 Hl0]. rewrite (g_ciface_outport x l0 Hk Hl0), Hk.
    rewrite (wire_fork_eq sem zero Hbuf). intros p o Hq. rewrite pin_nth in Hq.
    destruct (outs_of impl x); simpl in *; [|lia]. destruct p; discriminate.
Qed.

Lemma g_out_agree_bw : csol sem zero c4 stim v' ->
  forall k o ll, nth_error (impl_outs impl) k = Some o -> nth k (outs_of c u) None = Some ll -> v' ll = obs zero impl w o 0.
Proof.
  intros Hs k o ll Hko Hll. destruct (g_host_out_line k ll Hll) as [Hlc [Hdu Hpk]].
  pose proof (cc_lb [] c HCc ll Hlc) as Hlt.
  pose proof (sg_lines _ _ _ _ _ G ll Hlc) as Hl4.
  destruct (cc_line [] c4 HC4 ll Hl4) as [d [r [E1 [E2 [[Hd|[]] [_ [Ho _]]]]]]].
  assert (Hfin : forall x, host_out c u impl x = Some ll -> x = o /\ index_of o (impl_outs impl) = Some k).
  { intros x H. unfold host_out in H. destruct (index_of x (impl_outs impl)) as [k'|] eqn:Hidx; [|discriminate].
    destruct (g_host_out_line k' ll H) as [_ [_ Hpk']]. assert (k' = k) by congruence. subst k'.
    pose proof (index_of_nth _ _ _ Hidx) as Hn. assert (x = o) by congruence. subst x. split; congruence. }
  apply (sg_nodes _ _ _ _ _ G) in Hd. destruct Hd as [[Hdc Hne]|[x Hm]].
  - exfalso. destruct (sg_host _ _ _ _ _ G d Hdc Hne) as [_ [_ [_ O]]]. unfold out_at in Ho. rewrite O in Ho.
    destruct (cc_outs [] c HCc d _ ll (or_introl Hdc) Ho) as [_ [A _]]. congruence.
  - destruct (g_mapped_listed x d Hm) as [Hx _]. set (dp := l_dpin (lst c4 ll)) in *.
    destruct (out_at impl x dp) as [l|] eqn:E.
    + destruct (impl_out impl HCi x dp l Hx E) as [Hl [Hdl Hpl]].
      destruct (impl_line impl HCi l Hl) as [d0 [r0 [F1 [F2 _]]]].
      assert (Hcar : g_carrier l = true). { unfold g_carrier. rewrite Hdl, Hm, Hpl, Ho. reflexivity. }
      destruct (g_drv_mapped l x r0 d Hl Hdl F2 Hm) as [[r' [z [_ [Hge [Hz _]]]]]|[Hmr [Hrp [Hi0 [Hho _]]]]].
      * rewrite Hpl in Hz. assert (z = ll) by congruence. lia.
      * rewrite Hpl, Ho in Hho. symmetry in Hho. destruct (Hfin r0 Hho) as [-> _].
        unfold obs. rewrite g_pinv_at, Hi0. rewrite (HCoh l Hl Hcar). unfold g_expect. rewrite Hdl, Hm, Hpl, Ho. reflexivity.
    + pose proof Ho as Ho'. rewrite (sg_outs _ _ _ _ _ G x d dp Hm) in Ho'. unfold exp_out in Ho'. rewrite E in Ho'.
      destruct (in_ios impl x) eqn:Hio; simpl in Ho'; [|discriminate].
      destruct (Nat.ltb_spec 0 (List.length (ins_of impl x))); simpl in Ho'; [|discriminate].
      destruct (0 <? List.length (outs_of impl x)); simpl in Ho'; [|discriminate].
      destruct (dp =? List.length (outs_of impl x)); [|discriminate].
      destruct (Hfin x Ho') as [-> _].
      destruct (g_port_ids o Hx Hio) as [Hids Hk]. destruct (g_outport_in0 o Hids H) as [l0 Hl0].
      destruct (g_ciface_port_copy o d Hm Hio) as [Hif4 Hk4].
      destruct (g_mapped_listed o d Hm) as [_ Hd4].
      pose proof (Hs d Hd4) as Hn. unfold cnode_ok in Hn. rewrite Hif4, Hk4 in Hn. rewrite (wire_fork_eq sem zero Hbuf) in Hn.
      rewrite (Hn dp ll) by (rewrite pin_out_at; exact Ho).
      destruct (g_in_corr o d 0 l0 Hm Hl0) as [A _]. rewrite A. unfold obs. rewrite g_pinv_at, Hl0. reflexivity.
Qed.
End CohGen.

(** *** host nodes *)
Lemma g_host_node_same : forall stim (v : nat -> V) n, In n (nodes c) -> n <> u ->
  (cnode_ok sem zero c4 stim v n <-> cnode_ok sem zero c stim v n).
Proof.
  intros stim v n Hn Hne. unfold cnode_ok. rewrite (g_ciface_host n Hn Hne).
  destruct (sg_host _ _ _ _ _ G n Hn Hne) as [K [_ [I O]]]. rewrite K, I, O. tauto.
Qed.

(** *** every solution of [c4] is a solution of the host with the instance read as the implementation.
    The witness: a line with a carrier takes the carrier's value; a line without carrier (it leads into a pure output port whose
    instance pin is unconnected) takes the value that its driver's equation demands, computed from the driver's input lines
    (which have carriers, since the driver is copied). *)
Definition g_wit (stim v' : nat -> V) : nat -> V :=
  fun l => if g_carrier l then g_expect v' l
           else match l_drv (lst impl l) with
                | Some d => match gate_out sem zero (kind_of impl d) (ins_of impl d)
                                           (if ciface impl d then Some (inst_stim zero c u impl m stim v' d) else None)
                                           (g_expect v') (l_dpin (lst impl l)) with
                            | Some x => x | None => zero end
                | None => zero
                end.

Lemma g_wit_ins : forall stim v' x y, mget x m = Some y ->
  forall j, NetlistSem.pinv zero (g_wit stim v') (ins_of impl x) j = NetlistSem.pinv zero (g_expect v') (ins_of impl x) j.
Proof.
  intros stim v' x y Hm j. rewrite !g_pinv_at. destruct (in_at impl x j) as [l|] eqn:E; auto.
  destruct (g_in_carrier x y j l Hm E) as [Hcar _]. unfold g_wit. rewrite Hcar. reflexivity.
Qed.

Theorem glue_bwd_gen : forall stim v', csol sem zero c4 stim v' -> inst_sol sem zero c u impl m stim v'.
Proof.
  intros stim v' Hs.
  assert (HCoh : forall l, In l (lines impl) -> g_carrier l = true -> g_wit stim v' l = g_expect v' l).
  { intros l _ Hcar. unfold g_wit. rewrite Hcar. reflexivity. }
  split.
  - intros n Hn Hne. apply g_host_node_same; auto. apply Hs. apply (sg_nodes _ _ _ _ _ G). left; auto.
  - exists (g_wit stim v'). split.
    + intros x Hx. destruct (mget x m) as [y|] eqn:Hm.
      * destruct (g_mapped_listed x y Hm) as [_ Hy]. unfold cnode_ok. apply gate_ok_iff. intros k o Hq val Hval.
        rewrite pin_out_at in Hq. destruct (g_carrier o) eqn:Hcar.
        -- apply (g_pin_bw stim v' (g_wit stim v') HCoh x y Hm (Hs y Hy) k o Hq Hcar val Hval).
        -- destruct (impl_out impl HCi x k o Hx Hq) as [_ [Hd Hp]].
           rewrite (gate_out_ext sem zero _ _ _ (g_wit stim v') (g_expect v') k (g_wit_ins stim v' x y Hm)) in Hval.
           unfold g_wit. rewrite Hcar, Hd, Hp, Hval. reflexivity.
      * apply (g_node_C stim v' (g_wit stim v') HCoh x Hx Hm).
    + apply (g_out_agree_bw stim v' (g_wit stim v') HCoh Hs).
Qed.

(** *** and conversely *)
Definition g_fwd_val (v w : nat -> V) : nat -> V :=
  fun z => if z <? lnext c then v z
           else match find (fun l => oeq (g_copy_of l) (Some z)) (lines impl) with Some l => w l | None => zero end.

Theorem glue_fwd_gen : forall stim v, inst_sol sem zero c u impl m stim v ->
  exists v', csol sem zero c4 stim v' /\ (forall l, In l (lines c) -> v' l = v l).
Proof.
  intros stim v [Hhost [w [Hw HOA]]]. set (v' := g_fwd_val v w). exists v'.
  assert (Ha : forall z, In z (lines c) -> v' z = v z).
  { intros z Hz. unfold v', g_fwd_val. pose proof (cc_lb [] c HCc z Hz). destruct (Nat.ltb_spec z (lnext c)); auto. lia. }
  assert (Hb : forall k, NetlistSem.pinv zero v' (ins_of c u) k = NetlistSem.pinv zero v (ins_of c u) k).
  { intros k. unfold NetlistSem.pinv. rewrite pin_nth. destruct (nth k (ins_of c u) None) as [z|] eqn:E; auto.
    apply Ha. apply (g_host_in_line k z E). }
  assert (Hc : forall x, inst_stim zero c u impl m stim v' x = inst_stim zero c u impl m stim v x).
  { intros x. unfold inst_stim. destruct (index_of x (impl_ins impl)); auto. }
  assert (Hw' : csol sem zero impl (inst_stim zero c u impl m stim v') w).
  { intros x Hx. specialize (Hw x Hx). unfold cnode_ok in *. rewrite Hc. exact Hw. }
  assert (HOA' : forall k o ll, nth_error (impl_outs impl) k = Some o -> nth k (outs_of c u) None = Some ll ->
                                v' ll = obs zero impl w o 0).
  { intros k o ll A B. rewrite Ha. eapply HOA; eauto. apply (g_host_out_line k ll B). }
  assert (HCoh : forall l, In l (lines impl) -> g_carrier l = true -> w l = g_expect v' l).
  { intros l Hl Hcar. destruct (impl_line impl HCi l Hl) as [d [r [E1 [E2 [Hd [Hr [Ho Hi]]]]]]].
    unfold g_carrier in Hcar. unfold g_expect. rewrite E1 in *. destruct (mget d m) as [d'|] eqn:Hmd.
    - destruct (g_drv_mapped l d r d' Hl E1 E2 Hmd) as [[r' [z [Hmr [Hge [Hz _]]]]]|[Hmr [Hrp [Hi0 [Hho Hzc]]]]].
      + rewrite Hz. unfold v', g_fwd_val. destruct (Nat.ltb_spec z (lnext c)); [lia|].
        assert (Hcl : g_copy_of l = Some z). { unfold g_copy_of. rewrite E1, Hmd. exact Hz. }
        destruct (find (fun l0 => oeq (g_copy_of l0) (Some z)) (lines impl)) as [l1|] eqn:Ef.
        * apply find_some in Ef. destruct Ef as [Hl1 Hoe].
          assert (Hc1 : g_copy_of l1 = Some z).
          { destruct (g_copy_of l1) as [z1|]; simpl in Hoe; [|discriminate]. apply Nat.eqb_eq in Hoe. congruence. }
          rewrite (g_copy_inj l1 l z Hl1 Hl Hc1 Hcl). reflexivity.
        * pose proof (find_none _ _ Ef l Hl) as Hn. simpl in Hn. rewrite Hcl in Hn. simpl in Hn.
          rewrite Nat.eqb_refl in Hn. discriminate.
      + rewrite Hho in *. destruct (host_out c u impl r) as [z|] eqn:Ehz; [|discriminate].
        rewrite (Ha z (Hzc z eq_refl)). unfold host_out in Ehz.
        destruct (index_of r (impl_outs impl)) as [k|] eqn:Hidx; [|discriminate].
        rewrite (HOA k r z (index_of_nth _ _ _ Hidx) Ehz). unfold obs. rewrite g_pinv_at, Hi0. reflexivity.
    - destruct (g_unmapped_driver l d Hl E1 Hmd) as [_ [[k Hk] [Hod [_ Hlen]]]]. rewrite Hk. rewrite Hb.
      assert (Hids : In d (io_ids impl)).
      { apply (g_impl_ins_spec d). eapply nth_error_In. apply index_of_nth. eauto. }
      destruct (g_ids_port d Hids) as [_ [_ Hkd]].
      specialize (Hw d Hd). unfold cnode_ok in Hw. rewrite (g_ciface_inport d Hids Hlen), Hkd in Hw.
      rewrite (iface_fork_eq sem zero Hbuf) in Hw.
      rewrite (Hw 0 l) by (rewrite Hod; reflexivity). unfold inst_stim. rewrite Hk. reflexivity. }
  split; auto.
  intros y Hy. apply (sg_nodes _ _ _ _ _ G) in Hy. destruct Hy as [[Hyc Hne]|[x Hm]].
  - apply g_host_node_same; auto. specialize (Hhost y Hyc Hne). unfold cnode_ok in *.
    revert Hhost. apply gate_ok_ext.
    + intros k. unfold NetlistSem.pinv. destruct (SimOps.pin (ins_of c y) k) as [z|] eqn:E; auto. symmetry. apply Ha.
      rewrite pin_in_at in E. apply (cc_ins [] c HCc y k z (or_introl Hyc) E).
    + reflexivity.
    + intros k o E. symmetry. apply Ha. rewrite pin_out_at in E. apply (cc_outs [] c HCc y k o (or_introl Hyc) E).
  - destruct (g_mapped_listed x y Hm) as [Hx _].
    apply (g_node_fw stim v' w HCoh x y HOA' Hm). apply Hw'. exact Hx.
Qed.
End GlueGen.

(** ** the statement: [glue_function] without [all_outs_connected_b] *)
Theorem glue_function_gen : forall V (sem : BinNums.N -> V -> V -> V -> V -> V) (zero : V),
  (forall x a b d, sem (SimOps.lutv "BUF1") x a b d = x) ->
  forall c u impl m c4,
  CInv c -> IoLive c -> In u (nodes c) -> io_mem c u = false ->
  CInv impl -> IoLive impl -> io_forks_b impl = true ->
  CInv c4 -> IoLive c4 -> SubstGlue c u impl m c4 ->
  d22_free_b c u impl = true ->
  (forall stim v, inst_sol sem zero c u impl m stim v ->
     exists v', csol sem zero c4 stim v' /\ (forall l, In l (lines c) -> v' l = v l)) /\
  (forall stim v', csol sem zero c4 stim v' -> inst_sol sem zero c u impl m stim v').
Proof.
  intros V sem zero Hbuf c u impl m c4 H1 H2 H3 H4 H5 H6 H7 H8 H9 H10 H11. split.
  - intros stim v H. exact (glue_fwd_gen sem zero Hbuf c u impl m c4 H1 H2 H3 H4 H5 H6 H7 H8 H9 H10 H11 stim v H).
  - intros stim v' H. exact (glue_bwd_gen sem zero Hbuf c u impl m c4 H1 H2 H3 H4 H5 H6 H7 H8 H9 H10 H11 stim v' H).
Qed.
Print Assumptions glue_function_gen.
