(** C10 bridge: the netlist view of a consistent circuit state is a well-formed netlist; copy / pickle preserve the
    view up to trailing unconnected pins, the names/order of s_nodes and the set of gate-by-gate solutions. *)
From Coq Require Import List Arith Bool String NArith Lia.
From KV Require Model.Prims Model.Netlist Model.NetlistWf Model.SimOps Model.NetlistSem.
From KV Require Import Model.Circuit Model.CircuitInv Model.CircuitView Model.CircuitSem
     Proofs.CircuitBase Proofs.CircuitProofs Proofs.CircuitCopy Proofs.CircuitHistory.
Import ListNotations.
Local Open Scope list_scope.

(** ** small list facts *)
Lemma nth_opt_nth_error : forall {A} (l : list (option A)) p x, nth p l None = Some x -> nth_error l p = Some (Some x).
Proof.
  intros A l p x H. pose proof (nth_some_lt l p x H) as Hlt.
  rewrite (nth_error_nth' l None Hlt). rewrite H. reflexivity.
Qed.
Lemma nth_error_opt_nth : forall {A} (l : list (option A)) p x, nth_error l p = Some (Some x) -> nth p l None = Some x.
Proof. intros A l p x H. apply nth_error_nth with (d := None) in H. exact H. Qed.

Lemma pin_nth : forall l k, SimOps.pin l k = nth k l None.
Proof.
  intros l k. unfold SimOps.pin. destruct (nth_error l k) as [e|] eqn:E.
  - apply nth_error_nth with (d := None) in E. rewrite E. destruct e; reflexivity.
  - apply nth_error_None in E. rewrite nth_overflow by lia. reflexivity.
Qed.
Lemma pin_map : forall (f : nat -> nat) l k, SimOps.pin (map (option_map f) l) k = option_map f (SimOps.pin l k).
Proof.
  intros f l k. unfold SimOps.pin. rewrite nth_error_map. destruct (nth_error l k) as [[x|]|]; reflexivity.
Qed.

(** ** the view, position by position *)
Section View.
Variable c : circ.
Hypothesis HC : CCoreX [] c.

Lemma view_nodes_len : List.length (Netlist.c_nodes (view c)) = List.length (nodes c).
Proof. unfold view. simpl. apply map_length. Qed.
Lemma view_lines_len : List.length (Netlist.c_lines (view c)) = List.length (lines c).
Proof. unfold view. simpl. apply map_length. Qed.
Lemma view_get_node : forall i n, nth_error (nodes c) i = Some n -> Netlist.get_node (view c) i = view_node c n.
Proof.
  intros i n H. unfold Netlist.get_node, view. simpl.
  apply nth_error_nth. apply map_nth_error. exact H.
Qed.
Lemma view_get_line : forall i l, nth_error (lines c) i = Some l -> Netlist.get_line (view c) i = view_line c l.
Proof.
  intros i l H. unfold Netlist.get_line, view. simpl.
  apply nth_error_nth. apply map_nth_error. exact H.
Qed.
Lemma view_get_node_idx : forall n, In n (nodes c) -> Netlist.get_node (view c) (node_idx c n) = view_node c n.
Proof. intros n Hn. apply view_get_node. apply idx_nth; auto. Qed.
Lemma view_get_line_idx : forall l, In l (lines c) -> Netlist.get_line (view c) (line_idx c l) = view_line c l.
Proof. intros l Hl. apply view_get_line. apply lidx_nth; auto. Qed.
Lemma view_get_node_over : forall i, List.length (nodes c) <= i -> Netlist.get_node (view c) i = Netlist.dnode.
Proof. intros i H. unfold Netlist.get_node. apply nth_overflow. rewrite view_nodes_len. exact H. Qed.

Lemma nth_node_idx : forall n, In n (nodes c) -> nth (node_idx c n) (nodes c) 0 = n.
Proof. intros n Hn. apply nth_error_nth. apply idx_nth; auto. Qed.
Lemma nth_line_idx : forall l, In l (lines c) -> nth (line_idx c l) (lines c) 0 = l.
Proof. intros l Hl. apply nth_error_nth. apply lidx_nth; auto. Qed.

(** BRIDGE: every consistent circuit state is a well-formed netlist *)
Lemma view_wf_core : NetlistWf.wf_netlist (view c).
Proof.
  unfold NetlistWf.wf_netlist. rewrite view_nodes_len, view_lines_len. split; [|split].
  - intros l Hl. cbv zeta.
    destruct (nth_error (lines c) l) as [lid|] eqn:El. 2:{ apply nth_error_None in El. lia. }
    rewrite (view_get_line l lid El).
    pose proof (nth_error_In _ _ El) as Hin.
    destruct (cc_lidx [] c HC l lid El) as [_ Hidx].
    destruct (cc_line [] c HC lid Hin) as [d [r [Hd [Hr [[Hdn|[]] [[Hrn|[]] [Ho Hi]]]]]]].
    unfold view_line. simpl. rewrite Hd, Hr. simpl. unfold node_idx.
    split. { apply idx_lt; auto. } split. { apply idx_lt; auto. }
    split.
    + change (n_index (nst c d)) with (node_idx c d). rewrite (view_get_node_idx d Hdn). unfold view_node. simpl.
      apply nth_opt_nth_error in Ho. unfold outs_of in *.
      rewrite (map_nth_error _ _ _ Ho). simpl. unfold line_idx. rewrite Hidx. reflexivity.
    + change (n_index (nst c r)) with (node_idx c r). rewrite (view_get_node_idx r Hrn). unfold view_node. simpl.
      apply nth_opt_nth_error in Hi. unfold ins_of in *.
      rewrite (map_nth_error _ _ _ Hi). simpl. unfold line_idx. rewrite Hidx. reflexivity.
  - intros n k l Hn Hk.
    destruct (nth_error (nodes c) n) as [nid|] eqn:En. 2:{ apply nth_error_None in En. lia. }
    rewrite (view_get_node n nid En) in Hk. unfold view_node in Hk. simpl in Hk.
    rewrite nth_error_map in Hk. destruct (nth_error (outs_of c nid) k) as [[lid|]|] eqn:Ek; try discriminate.
    simpl in Hk. injection Hk as Hk.
    pose proof (nth_error_In _ _ En) as Hin.
    apply nth_error_opt_nth in Ek.
    destruct (cc_outs [] c HC nid k lid (or_introl Hin) Ek) as [Hl [Hd Hp]].
    pose proof (lidx_nth c lid HC Hl) as Hnth. unfold line_idx in Hk. rewrite Hk in Hnth.
    split. { apply nth_error_Some. congruence. }
    rewrite (view_get_line l lid Hnth). unfold view_line. simpl. rewrite Hd. simpl.
    destruct (cc_nidx [] c HC n nid En) as [_ Hi]. auto.
  - intros n k l Hn Hk.
    destruct (nth_error (nodes c) n) as [nid|] eqn:En. 2:{ apply nth_error_None in En. lia. }
    rewrite (view_get_node n nid En) in Hk. unfold view_node in Hk. simpl in Hk.
    rewrite nth_error_map in Hk. destruct (nth_error (ins_of c nid) k) as [[lid|]|] eqn:Ek; try discriminate.
    simpl in Hk. injection Hk as Hk.
    pose proof (nth_error_In _ _ En) as Hin.
    apply nth_error_opt_nth in Ek.
    destruct (cc_ins [] c HC nid k lid (or_introl Hin) Ek) as [Hl [Hd Hp]].
    pose proof (lidx_nth c lid HC Hl) as Hnth. unfold line_idx in Hk. rewrite Hk in Hnth.
    split. { apply nth_error_Some. congruence. }
    rewrite (view_get_line l lid Hnth). unfold view_line. simpl. rewrite Hd. simpl.
    destruct (cc_nidx [] c HC n nid En) as [_ Hi]. auto.
Qed.

(** io entries and the state-element indices are node positions *)
Lemma view_io_lt : IoLive c -> forall i, In i (Netlist.c_io (view c)) -> i < List.length (nodes c).
Proof.
  intros HL i Hi. unfold view in Hi. simpl in Hi. apply in_map_iff in Hi. destruct Hi as [e [<- He]].
  destruct (HL e He) as [n [-> Hn]]. simpl. apply idx_lt; auto.
Qed.
End View.

Theorem view_wf : forall c, CInv c -> IoLive c -> NetlistWf.wf_netlist (view c).
Proof. intros c [HC _] _. apply view_wf_core; auto. Qed.
Theorem view_wf_cinv : forall c, CInv c -> NetlistWf.wf_netlist (view c).
Proof. intros c [HC _]. apply view_wf_core; auto. Qed.

(** ** in a well-formed netlist the connected pins are determined by the line table *)
Lemma wf_pins_determined : forall a b, NetlistWf.wf_netlist a -> NetlistWf.wf_netlist b ->
  Netlist.c_lines a = Netlist.c_lines b -> List.length (Netlist.c_nodes a) = List.length (Netlist.c_nodes b) ->
  (forall n k, SimOps.pin (Netlist.n_ins (Netlist.get_node a n)) k = SimOps.pin (Netlist.n_ins (Netlist.get_node b n)) k) /\
  (forall n k, SimOps.pin (Netlist.n_outs (Netlist.get_node a n)) k = SimOps.pin (Netlist.n_outs (Netlist.get_node b n)) k).
Proof.
  assert (Hhalf : forall a b, NetlistWf.wf_netlist a -> NetlistWf.wf_netlist b ->
    Netlist.c_lines a = Netlist.c_lines b -> List.length (Netlist.c_nodes a) = List.length (Netlist.c_nodes b) ->
    (forall n k x, SimOps.pin (Netlist.n_ins (Netlist.get_node a n)) k = Some x -> SimOps.pin (Netlist.n_ins (Netlist.get_node b n)) k = Some x) /\
    (forall n k x, SimOps.pin (Netlist.n_outs (Netlist.get_node a n)) k = Some x -> SimOps.pin (Netlist.n_outs (Netlist.get_node b n)) k = Some x)).
  { intros a b [_ [Wo Wi]] [Wl _] Hl Hn.
    assert (Hgl : forall l, Netlist.get_line a l = Netlist.get_line b l) by (intros l; unfold Netlist.get_line; rewrite Hl; reflexivity).
    split; intros n k x Hp.
    - destruct (Nat.lt_ge_cases n (List.length (Netlist.c_nodes a))) as [Hlt|Hge].
      + unfold SimOps.pin in Hp. destruct (nth_error (Netlist.n_ins (Netlist.get_node a n)) k) as [[y|]|] eqn:E; try discriminate.
        injection Hp as ->. destruct (Wi n k x Hlt E) as [Hx [Hr Hq]].
        rewrite Hl in Hx. specialize (Wl x Hx). cbv zeta in Wl. destruct Wl as [_ [_ [_ W]]].
        rewrite <- Hgl, Hr, Hq in W. unfold SimOps.pin. rewrite W. reflexivity.
      + unfold Netlist.get_node in Hp. rewrite nth_overflow in Hp by lia. simpl in Hp. destruct k; discriminate.
    - destruct (Nat.lt_ge_cases n (List.length (Netlist.c_nodes a))) as [Hlt|Hge].
      + unfold SimOps.pin in Hp. destruct (nth_error (Netlist.n_outs (Netlist.get_node a n)) k) as [[y|]|] eqn:E; try discriminate.
        injection Hp as ->. destruct (Wo n k x Hlt E) as [Hx [Hr Hq]].
        rewrite Hl in Hx. specialize (Wl x Hx). cbv zeta in Wl. destruct Wl as [_ [_ [W _]]].
        rewrite <- Hgl, Hr, Hq in W. unfold SimOps.pin. rewrite W. reflexivity.
      + unfold Netlist.get_node in Hp. rewrite nth_overflow in Hp by lia. simpl in Hp. destruct k; discriminate. }
  intros a b Wa Wb Hl Hn.
  destruct (Hhalf a b Wa Wb Hl Hn) as [A1 A2]. destruct (Hhalf b a Wb Wa (eq_sym Hl) (eq_sym Hn)) as [B1 B2].
  split; intros n k.
  - destruct (SimOps.pin (Netlist.n_ins (Netlist.get_node a n)) k) as [x|] eqn:E.
    + symmetry. apply A1; auto.
    + destruct (SimOps.pin (Netlist.n_ins (Netlist.get_node b n)) k) as [y|] eqn:E2; auto.
      apply B1 in E2. congruence.
  - destruct (SimOps.pin (Netlist.n_outs (Netlist.get_node a n)) k) as [x|] eqn:E.
    + symmetry. apply A2; auto.
    + destruct (SimOps.pin (Netlist.n_outs (Netlist.get_node b n)) k) as [y|] eqn:E2; auto.
      apply B2 in E2. congruence.
Qed.

(** ** two consistent states with the same canonical form have pin-equivalent views *)
Definition row_line (q : nat * nat * nat * nat) : Netlist.line :=
  let '(d, dp, r, rp) := q in {| Netlist.l_drv := d; Netlist.l_dpin := dp; Netlist.l_rdr := r; Netlist.l_rpin := rp |}.

Lemma view_lines_rows : forall c, CCoreX [] c -> Netlist.c_lines (view c) = map row_line (map (line_row c) (lines c)).
Proof.
  intros c HC. unfold view. simpl. rewrite map_map. apply map_ext_in. intros l Hl.
  destruct (cc_line [] c HC l Hl) as [d [r [Hd [Hr _]]]].
  unfold view_line, line_row. rewrite Hd, Hr. reflexivity.
Qed.
Lemma view_kinds : forall c, map Netlist.n_kind (Netlist.c_nodes (view c)) = map snd (map (fun n => (name_of c n, kind_of c n)) (nodes c)).
Proof. intros c. unfold view. simpl. rewrite !map_map. reflexivity. Qed.
Lemma names_rows : forall c, map (name_of c) (nodes c) = map fst (map (fun n => (name_of c n, kind_of c n)) (nodes c)).
Proof. intros c. rewrite map_map. reflexivity. Qed.

Lemma state_of_eq_of_canon : forall c c', CInv c -> io_ok_b c = true -> CInv c' -> IoLive c' ->
  canon c' = canon c -> state_of c' = state_of c.
Proof.
  intros c c' [HC _] Hio [HC' _] HL' Hcan. unfold canon in Hcan.
  rewrite (getstate_state_of c HC Hio) in Hcan.
  rewrite (getstate_state_of c' HC' (io_ok_of_live c' HL')) in Hcan. congruence.
Qed.

Lemma same_state_pin_equiv : forall c c', CInv c -> CInv c' -> state_of c' = state_of c -> pin_equiv (view c') (view c).
Proof.
  intros c c' HI HI' Hs. pose proof HI as [HC _]. pose proof HI' as [HC' _].
  unfold state_of in Hs. injection Hs as Hn Hl Hio.
  assert (Hlen : List.length (Netlist.c_nodes (view c')) = List.length (Netlist.c_nodes (view c))).
  { rewrite !view_nodes_len. rewrite <- (map_length (fun n => (name_of c' n, kind_of c' n))), Hn. apply map_length. }
  assert (Hlines : Netlist.c_lines (view c') = Netlist.c_lines (view c)).
  { rewrite !view_lines_rows by auto. rewrite Hl. reflexivity. }
  destruct (wf_pins_determined (view c') (view c) (view_wf_cinv c' HI') (view_wf_cinv c HI) Hlines Hlen) as [Pi Po].
  unfold pin_equiv. split; [exact Hlen|]. split. { rewrite !view_kinds, Hn. reflexivity. }
  split; [exact Hlines|]. split. { unfold view. simpl. exact Hio. }
  split; [exact Pi|exact Po].
Qed.

(** names by position *)
Lemma same_state_names : forall c c', state_of c' = state_of c -> map (name_of c') (nodes c') = map (name_of c) (nodes c).
Proof. intros c c' Hs. unfold state_of in Hs. injection Hs as Hn _ _. rewrite !names_rows, Hn. reflexivity. Qed.

Lemma find_idx_bound : forall {A} (f : A -> bool) l k i, In i (Netlist.find_idx f l k) -> k <= i < k + List.length l.
Proof.
  intros A f l. induction l as [|x r IH]; intros k i H; simpl in *. destruct H.
  destruct (f x); [destruct H as [<-|H]|]; try lia; apply IH in H; lia.
Qed.
Lemma find_idx_kinds : forall (g : string -> bool) (l1 l2 : list Netlist.node) k,
  map Netlist.n_kind l1 = map Netlist.n_kind l2 ->
  Netlist.find_idx (fun n => g (Netlist.n_kind n)) l1 k = Netlist.find_idx (fun n => g (Netlist.n_kind n)) l2 k.
Proof.
  intros g l1. induction l1 as [|x r IH]; intros l2 k H; destruct l2 as [|y r2]; try discriminate; auto.
  simpl in H. injection H as Hk Hr. simpl. rewrite Hk. rewrite (IH r2 (S k) Hr). reflexivity.
Qed.
Lemma pin_equiv_s_nodes : forall a b, pin_equiv a b -> Netlist.s_nodes a = Netlist.s_nodes b.
Proof.
  intros a b [_ [Hk [_ [Hio _]]]]. unfold Netlist.s_nodes. rewrite Hio. f_equal.
  unfold Netlist.is_dff, Netlist.is_latch.
  rewrite (find_idx_kinds (fun k => Prims.contains "dff" (Prims.lower k)) _ _ 0 Hk).
  rewrite (find_idx_kinds (fun k => Prims.contains "latch" (Prims.lower k)) _ _ 0 Hk). reflexivity.
Qed.
Lemma s_nodes_lt : forall c, CCoreX [] c -> IoLive c -> forall i, In i (Netlist.s_nodes (view c)) -> i < List.length (nodes c).
Proof.
  intros c HC HL i Hi. unfold Netlist.s_nodes in Hi. rewrite !in_app_iff in Hi. destruct Hi as [Hi|[Hi|Hi]].
  - apply (view_io_lt c HC HL); auto.
  - apply find_idx_bound in Hi. rewrite view_nodes_len in Hi. lia.
  - apply find_idx_bound in Hi. rewrite view_nodes_len in Hi. lia.
Qed.

Lemma same_state_s_names : forall c c', CInv c -> IoLive c -> CInv c' -> IoLive c' -> state_of c' = state_of c ->
  s_names c' = s_names c.
Proof.
  intros c c' HI HL HI' HL' Hs.
  pose proof (same_state_pin_equiv c c' HI HI' Hs) as Hpe.
  pose proof (same_state_names c c' Hs) as Hnm.
  unfold s_names, s_node_ids. rewrite (pin_equiv_s_nodes _ _ Hpe). rewrite !map_map.
  apply map_ext_in. intros i Hi.
  pose proof (s_nodes_lt c (proj1 HI) HL i Hi) as Hlt.
  assert (Hlen : List.length (nodes c') = List.length (nodes c)).
  { rewrite <- (map_length (name_of c') (nodes c')), Hnm. apply map_length. }
  assert (E : forall cc, i < List.length (nodes cc) -> name_of cc (nth i (nodes cc) 0) = nth i (map (name_of cc) (nodes cc)) EmptyString).
  { intros cc Hcc. rewrite (nth_indep _ EmptyString (name_of cc 0)) by (rewrite map_length; auto). rewrite map_nth. reflexivity. }
  rewrite (E c') by lia. rewrite (E c) by lia. rewrite Hnm. reflexivity.
Qed.

(** ** pin-equivalent netlists have the same gate-by-gate solutions *)
Section SolEquiv.
Context {V : Type} (sem : N -> V -> V -> V -> V -> V) (zero : V).

Lemma node_ok_gate : forall c stim v n,
  NetlistSem.node_ok sem zero c stim v n <->
  gate_ok sem zero (Netlist.n_kind (Netlist.get_node c n)) (Netlist.n_ins (Netlist.get_node c n))
          (Netlist.n_outs (Netlist.get_node c n)) (option_map stim (NetlistSem.iface_pos c n)) v.
Proof.
  intros c stim v n. unfold NetlistSem.node_ok, gate_ok. cbv zeta.
  destruct (NetlistSem.iface_pos c n) as [p|]; simpl; apply iff_refl.
Qed.

(* [gate_ok] reads the pin lists only through [pin] *)
Lemma gate_ok_pins : forall kind ins ins' outs outs' ifc v,
  (forall k, SimOps.pin ins k = SimOps.pin ins' k) -> (forall k, SimOps.pin outs k = SimOps.pin outs' k) ->
  gate_ok sem zero kind ins outs ifc v -> gate_ok sem zero kind ins' outs' ifc v.
Proof.
  intros kind ins ins' outs outs' ifc v Hi Ho. unfold gate_ok, NetlistSem.pinv.
  rewrite <- !Hi.
  destruct ifc as [s|].
  - intros [A B]. split. { intros o Hp. apply A. rewrite Ho. exact Hp. }
    destruct (kind_is_dff kind).
    + intros o Hp. apply B. rewrite Ho. exact Hp.
    + intros k o Hk Hp. apply (B k o Hk). rewrite Ho. exact Hp.
  - destruct (kind_is_fork kind).
    + intros A k o Hp. apply (A k o). rewrite Ho. exact Hp.
    + destruct (Prims.select_lut _ _ _ _); auto. intros A o Hp. apply A. rewrite Ho. exact Hp.
Qed.

Lemma pin_equiv_get_kind : forall a b, pin_equiv a b -> forall n, Netlist.n_kind (Netlist.get_node a n) = Netlist.n_kind (Netlist.get_node b n).
Proof.
  intros a b [Hl [Hk _]] n. unfold Netlist.get_node.
  change (Netlist.n_kind (nth n (Netlist.c_nodes a) Netlist.dnode)) with ((fun x => Netlist.n_kind x) (nth n (Netlist.c_nodes a) Netlist.dnode)).
  rewrite <- !(map_nth Netlist.n_kind). rewrite Hk. reflexivity.
Qed.
Lemma pin_equiv_iface : forall a b, pin_equiv a b -> forall n, NetlistSem.iface_pos a n = NetlistSem.iface_pos b n.
Proof.
  intros a b Hpe n. unfold NetlistSem.iface_pos, NetlistSem.port_wire.
  rewrite (pin_equiv_get_kind a b Hpe n), (pin_equiv_s_nodes a b Hpe).
  destruct Hpe as [_ [_ [_ [_ [Hi _]]]]]. rewrite Hi. reflexivity.
Qed.

Lemma pin_equiv_solution_imp : forall a b stim v, pin_equiv a b ->
  NetlistSem.solution sem zero a stim v -> NetlistSem.solution sem zero b stim v.
Proof.
  intros a b stim v Hpe Hs n Hn. pose proof Hpe as [Hlen [_ [_ [_ [Hi Ho]]]]].
  rewrite <- Hlen in Hn. specialize (Hs n Hn). apply node_ok_gate in Hs. apply node_ok_gate.
  rewrite <- (pin_equiv_get_kind a b Hpe n), <- (pin_equiv_iface a b Hpe n).
  eapply gate_ok_pins; [apply Hi|apply Ho|exact Hs].
Qed.
End SolEquiv.

Lemma pin_equiv_sym : forall a b, pin_equiv a b -> pin_equiv b a.
Proof.
  intros a b [A [B [C [D [E F]]]]]. unfold pin_equiv. repeat split; auto.
Qed.
Theorem pin_equiv_solution : forall V (sem : N -> V -> V -> V -> V -> V) (zero : V) a b stim v, pin_equiv a b ->
  (NetlistSem.solution sem zero a stim v <-> NetlistSem.solution sem zero b stim v).
Proof.
  intros V sem zero a b stim v Hpe. split; apply pin_equiv_solution_imp; auto. apply pin_equiv_sym; auto.
Qed.

(** ** copy / pickle *)
Lemma io_live_of_ok : forall c, io_ok_b c = true -> IoLive c.
Proof.
  intros c H e He. unfold io_ok_b in H. rewrite forallb_forall in H. specialize (H e He).
  destruct e as [n|]; [|discriminate]. exists n. split; auto. apply mem_In; auto.
Qed.

Theorem copy_view : forall c c', CInv c -> io_ok_b c = true -> copy c = Some c' ->
  CInv c' /\ IoLive c' /\ pin_equiv (view c') (view c) /\ s_names c' = s_names c /\
  map (name_of c') (nodes c') = map (name_of c) (nodes c).
Proof.
  intros c c' HI Hio Hc. destruct (copy_inv c HI Hio) as [c2 [Hc2 [HI' [Hcan HL']]]].
  rewrite Hc in Hc2. injection Hc2 as <-.
  pose proof (state_of_eq_of_canon c c' HI Hio HI' HL' Hcan) as Hs.
  split; auto. split; auto. split. { apply same_state_pin_equiv; auto. }
  split. { apply same_state_s_names; auto. apply io_live_of_ok; auto. }
  apply same_state_names; auto.
Qed.
Theorem pickle_view : forall c c', CInv c -> io_ok_b c = true -> pickle_roundtrip c = Some c' ->
  CInv c' /\ IoLive c' /\ pin_equiv (view c') (view c) /\ s_names c' = s_names c /\
  map (name_of c') (nodes c') = map (name_of c) (nodes c).
Proof. intros c c' HI Hio Hc. rewrite <- (copy_eq_pickle c HI Hio) in Hc. apply copy_view; auto. Qed.

Theorem copy_solution : forall V (sem : N -> V -> V -> V -> V -> V) (zero : V) c c' stim v,
  CInv c -> io_ok_b c = true -> copy c = Some c' ->
  (NetlistSem.solution sem zero (view c') stim v <-> NetlistSem.solution sem zero (view c) stim v).
Proof.
  intros V sem zero c c' stim v HI Hio Hc. apply pin_equiv_solution.
  destruct (copy_view c c' HI Hio Hc) as [_ [_ [H _]]]. exact H.
Qed.
Theorem pickle_solution : forall V (sem : N -> V -> V -> V -> V -> V) (zero : V) c c' stim v,
  CInv c -> io_ok_b c = true -> pickle_roundtrip c = Some c' ->
  (NetlistSem.solution sem zero (view c') stim v <-> NetlistSem.solution sem zero (view c) stim v).
Proof.
  intros V sem zero c c' stim v HI Hio Hc. apply pin_equiv_solution.
  destruct (pickle_view c c' HI Hio Hc) as [_ [_ [H _]]]. exact H.
Qed.

(** exact equality of the views can fail: Line.remove leaves a trailing [None] in the pin lists of a cell, copy() does not
    recreate it *)
Definition trailing_none_history : list op :=
  [AddNode "a" "AND2"; AddNode "b" "OR2"; AddLine 0 (Some 1) 1 (Some 0); AddLine 0 (Some 0) 1 (Some 1); RemoveLine 0].
Definition tn_c : circ := match run_hist trailing_none_history with Some c => c | None => empty end.
Definition tn_c' : circ := match copy tn_c with Some c => c | None => empty end.
Lemma copy_view_not_equal :
  run_hist trailing_none_history = Some tn_c /\ hist_pre empty trailing_none_history = true /\
  copy tn_c = Some tn_c' /\ view tn_c' <> view tn_c /\
  Netlist.n_outs (Netlist.get_node (view tn_c) 0) = [Some 0; None] /\
  Netlist.n_outs (Netlist.get_node (view tn_c') 0) = [Some 0].
Proof.
  assert (A : Netlist.n_outs (Netlist.get_node (view tn_c) 0) = [Some 0; None]) by (vm_compute; reflexivity).
  assert (B : Netlist.n_outs (Netlist.get_node (view tn_c') 0) = [Some 0]) by (vm_compute; reflexivity).
  split. { unfold tn_c. destruct (run_hist trailing_none_history) eqn:E; [reflexivity|vm_compute in E; discriminate]. }
  split. { vm_compute; reflexivity. }
  split. { unfold tn_c'. destruct (copy tn_c) eqn:E; [reflexivity|vm_compute in E; discriminate]. }
  split; [|split; auto]. intros Hv. rewrite Hv in B. congruence.
Qed.

Theorem history_view_wf : forall ops, forallb supported ops = true -> hist_pre empty ops = true ->
  exists c, run_hist ops = Some c /\ CInv c /\ IoLive c /\ NetlistWf.wf_netlist (view c).
Proof.
  intros ops Hs Hp. destruct (history_inv_io ops empty cinv_empty io_live_empty Hs Hp) as [c [A [B [C _]]]].
  exists c. split; auto. split; auto. split; auto. apply view_wf; auto.
Qed.
