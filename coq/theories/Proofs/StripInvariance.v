(** C06, strip_forks clause at scheduler level: with forks stripped (branches aliased to their stems) the op list
    computes, at every line, exactly the value the unstripped op list computes -- for every well-formed acyclic netlist
    and stimulus.  Both executions are solutions of the netlist equations (SemProofs / SemCompose) and solutions are unique. *)
From Coq Require Import List NArith ZArith Bool Arith Lia String.
From KV Require Import Model.Prims Model.Netlist Model.NetlistWf Model.Heap Model.SimOps Model.AllocCheck Model.NetlistSem
     Gen.SimTables Proofs.TopoProofs Proofs.AllocProofs Proofs.SemProofs Proofs.SemCompose.
Import ListNotations.

Theorem strip_forks_irrelevant {V} (sem : N -> V -> V -> V -> V -> V) (zero : V) c stim len stems :
  wf_netlist c -> comb_acyclic c -> List.length (c_lines c) <= len -> build_stems c true len = Some stems ->
  (forall x b cc d, sem (lutv "BUF1") x b cc d = x) ->
  (forall n, n < List.length (c_nodes c) -> iface_pos c n = None -> is_fork (get_node c n) = true ->
     n_kind (get_node c n) = "__fork__"%string) ->
  (* every gate has a selectable primitive and drives from output pin 0 only; flip-flops drive Q and QN only *)
  (forall n, n < List.length (c_nodes c) -> iface_pos c n = None -> is_fork (get_node c n) = false ->
     select_lut kind_prefixes (n_kind (get_node c n)) (negb (is_some (pin (n_ins (get_node c n)) 2)))
                (negb (is_some (pin (n_ins (get_node c n)) 3))) <> None) ->
  (forall n, n < List.length (c_nodes c) -> is_dff (get_node c n) = true -> forall k o, 2 <= k -> pin (n_outs (get_node c n)) k = Some o -> False) ->
  (forall n, n < List.length (c_nodes c) -> iface_pos c n = None -> is_fork (get_node c n) = false ->
     forall k o, 1 <= k -> pin (n_outs (get_node c n)) k = Some o -> False) ->
  forall l, l < List.length (c_lines c) ->
    iexec sem (stemmed stems) (build_ops c true) (init_env zero c stim) (stemmed stems l)
    = iexec sem (fun x => x) (build_ops c false) (init_env zero c stim) l.
Proof.
  intros WF AC Hlen Hst Hbuf Hk Hsel Hdff Hg1 l Hl.
  apply (solution_unique sem zero c stim
           (fun l0 => iexec sem (stemmed stems) (build_ops c true) (init_env zero c stim) (stemmed stems l0))
           (iexec sem (fun x => x) (build_ops c false) (init_env zero c stim)) WF AC Hsel Hdff Hg1).
  - apply (build_ops_strip_solution_buf sem zero c stim len stems); assumption.
  - apply build_ops_solution; assumption.
  - exact Hl.
Qed.
