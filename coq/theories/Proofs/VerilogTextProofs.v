(** Text level of the Verilog front end (Model/VerilogText.v): the lexer returns exactly the token stream of every
    rendering with arbitrary ignored text (white space, line breaks, the three comment forms) between the tokens; the
    parser accepts exactly the token streams of trees; print / parse round trip; what is rejected; composition with the
    theorems about VerilogTransformer.module. *)
From Coq Require Import List ZArith NArith Bool Arith String Ascii Lia.
From KV Require Import Model.Circuit Model.CircuitInv Model.VerilogText.
From KV Require Model.VerilogElab Model.VerilogModule Proofs.VerilogModuleProofs.
Import ListNotations.
Local Open Scope list_scope.

(** ** strings *)
Lemma sapp_assoc (a b c : string) : ((a ++ b) ++ c)%string = (a ++ (b ++ c))%string.
Proof. induction a as [|x a IH]; [reflexivity|]. cbn [append]. now rewrite IH. Qed.
Lemma sapp_nil_r (a : string) : (a ++ "")%string = a.
Proof. induction a as [|x a IH]; [reflexivity|]. cbn [append]. now rewrite IH. Qed.
Lemma slen_app (a b : string) : String.length (a ++ b)%string = String.length a + String.length b.
Proof. induction a as [|x a IH]; [reflexivity|]. cbn [append String.length]. now rewrite IH. Qed.

Lemma span_app p : forall w next, sall p w = true -> first_is p next = false -> span p (w ++ next)%string = (w, next).
Proof.
  induction w as [|c w IH]; intros next Hw Hn.
  - cbn [append]. destruct next as [|d r]; [reflexivity|]. cbn [first_is] in Hn. cbn [span]. now rewrite Hn.
  - cbn [sall] in Hw. apply andb_true_iff in Hw. destruct Hw as [Hc Hw].
    cbn [append span]. rewrite Hc, (IH _ Hw Hn). reflexivity.
Qed.
Lemma span_inv p : forall s a b, span p s = (a, b) -> s = (a ++ b)%string /\ sall p a = true /\ first_is p b = false.
Proof.
  induction s as [|c s IH]; intros a b H.
  - cbn [span] in H. inversion H. subst. repeat split.
  - cbn [span] in H. destruct (p c) eqn:Hc.
    + destruct (span p s) as [a' b'] eqn:E. inversion H. subst. destruct (IH _ _ eq_refl) as [E1 [E2 E3]].
      subst s. repeat split; auto. cbn [sall]. now rewrite Hc, E2.
    + inversion H. subst. repeat split. cbn [first_is]. exact Hc.
Qed.

(** ** character classes (finite facts, by enumeration of the 256 characters) *)
Ltac by_chars c := destruct c as [[|] [|] [|] [|] [|] [|] [|] [|]]; vm_compute; intros; try reflexivity; try discriminate.

Definition ign_start (c : ascii) : bool :=
  is_blank c || Ascii.eqb c c_nl || Ascii.eqb c c_cr || Ascii.eqb c c_slash || Ascii.eqb c c_lpar.
Lemma alpha_facts : forall c, is_alpha_ c = true ->
  is_wordc c = true /\ ign_start c = false /\ Ascii.eqb c c_bsl = false /\ Ascii.eqb c_bsl c = false /\ is_digit c = false.
Proof. intro c. by_chars c; repeat split. Qed.
Lemma digit_facts : forall c, is_digit c = true ->
  is_wordc c = true /\ is_hex c = true /\ ign_start c = false /\ Ascii.eqb c c_bsl = false /\ Ascii.eqb c_bsl c = false /\
  is_alpha_ c = false /\ Ascii.eqb c c_quote = false.
Proof. intro c. by_chars c; repeat split. Qed.
Lemma bsl_facts : forall c, Ascii.eqb c c_bsl = true -> c = c_bsl.
Proof. intros c H. now apply Ascii.eqb_eq. Qed.
Lemma ws4_not : forall c, is_ws4 c = true -> not_ws4 c = false.
Proof. intros c H. unfold not_ws4. now rewrite H. Qed.
Lemma quote_not_digit : is_digit c_quote = false. Proof. reflexivity. Qed.

(** ** ignored text *)
Lemma skip_block : forall b st r, body_ok c_slash st b = true ->
  skip_go (KBlock st) (b ++ "*/" ++ r)%string = skip_go K0 r.
Proof.
  induction b as [|c b IH]; intros st r H.
  - cbn [append skip_go]. change (Ascii.eqb "*" c_slash) with false. rewrite andb_false_r.
    change (Ascii.eqb "*" c_star) with true. change (Ascii.eqb "/" c_slash) with true. reflexivity.
  - cbn [body_ok] in H. apply andb_true_iff in H. destruct H as [H1 H2]. apply negb_true_iff in H1.
    cbn [append skip_go]. rewrite H1. apply IH. exact H2.
Qed.
Lemma skip_attr : forall b st r, body_ok c_rpar st b = true ->
  skip_go (KAttr st) (b ++ "*)" ++ r)%string = skip_go K0 r.
Proof.
  induction b as [|c b IH]; intros st r H.
  - cbn [append skip_go]. change (Ascii.eqb "*" c_rpar) with false. rewrite andb_false_r.
    change (Ascii.eqb "*" c_star) with true. change (Ascii.eqb ")" c_rpar) with true. reflexivity.
  - cbn [body_ok] in H. apply andb_true_iff in H. destruct H as [H1 H2]. apply negb_true_iff in H1.
    cbn [append skip_go]. rewrite H1. apply IH. exact H2.
Qed.
Lemma skip_line : forall b r, no_newline b = true -> skip_go KLine (b ++ nl1 ++ r)%string = skip_go K0 r.
Proof.
  induction b as [|c b IH]; intros r H.
  - reflexivity.
  - unfold no_newline in H. cbn [sall] in H. apply andb_true_iff in H. destruct H as [H1 H2]. apply negb_true_iff in H1.
    cbn [append skip_go]. rewrite H1. apply IH. exact H2.
Qed.
Lemma skip_line_eof : forall b, no_newline b = true -> skip_go KLine b = Some EmptyString.
Proof.
  induction b as [|c b IH]; intros H; [reflexivity|].
  unfold no_newline in H. cbn [sall] in H. apply andb_true_iff in H. destruct H as [H1 H2]. apply negb_true_iff in H1.
  cbn [skip_go]. rewrite H1. apply IH. exact H2.
Qed.
Lemma skip_one : forall i r, ign_ok i = true -> skip_ign (ign_text i ++ r)%string = skip_ign r.
Proof.
  intros i r H. unfold skip_ign. destruct i; cbn [ign_text ign_ok] in *; try reflexivity.
  - rewrite !sapp_assoc. change ("/*" ++ (b ++ "*/" ++ r))%string with (String "/" (String "*" (b ++ "*/" ++ r)))%string.
    change (skip_go K0 (String "/" (String "*" (b ++ "*/" ++ r)))%string) with (skip_go (KBlock false) (b ++ "*/" ++ r)%string).
    apply skip_block. exact H.
  - rewrite !sapp_assoc. change ("(*" ++ (b ++ "*)" ++ r))%string with (String "(" (String "*" (b ++ "*)" ++ r)))%string.
    change (skip_go K0 (String "(" (String "*" (b ++ "*)" ++ r)))%string) with (skip_go (KAttr false) (b ++ "*)" ++ r)%string).
    apply skip_attr. exact H.
  - rewrite !sapp_assoc. change ("//" ++ (b ++ nl1 ++ r))%string with (String "/" (String "/" (b ++ nl1 ++ r)))%string.
    change (skip_go K0 (String "/" (String "/" (b ++ nl1 ++ r)))%string) with (skip_go KLine (b ++ nl1 ++ r)%string).
    apply skip_line. exact H.
Qed.
Lemma skip_sep : forall s r, sep_ok s = true -> skip_ign (sep_text s ++ r)%string = skip_ign r.
Proof.
  induction s as [|i s IH]; intros r H; [reflexivity|].
  cbn [sep_ok forallb] in H. apply andb_true_iff in H. destruct H as [H1 H2].
  cbn [sep_text]. rewrite sapp_assoc, (skip_one _ _ H1). apply IH. exact H2.
Qed.
Lemma skip_sep_end : forall s, sep_ok s = true -> skip_ign (sep_text s) = Some EmptyString.
Proof. intros s H. rewrite <- (sapp_nil_r (sep_text s)), (skip_sep _ _ H). reflexivity. Qed.
(* the end of a text: ignored text and possibly a last "//" comment without line break *)
Lemma skip_end : forall sf tl, sep_ok sf = true -> tail_ok tl = true -> skip_ign (end_text sf tl) = Some EmptyString.
Proof.
  intros sf tl H1 H2. unfold end_text. rewrite (skip_sep _ _ H1). destruct tl as [b|]; [|reflexivity].
  change (skip_ign (tail_text (Some b))) with (skip_go KLine b). apply skip_line_eof. exact H2.
Qed.

(* a text at whose beginning nothing is ignored *)
Definition stops (s : string) : bool :=
  match s with
  | EmptyString => true
  | String c r => negb (is_blank c || Ascii.eqb c c_nl || Ascii.eqb c c_cr || Ascii.eqb c c_slash) &&
                  negb (Ascii.eqb c c_lpar && first_is (Ascii.eqb c_star) r)
  end.
Lemma skip_stops : forall s, stops s = true -> skip_ign s = Some s.
Proof.
  intros [|c r] H; [reflexivity|]. cbn [stops] in H. apply andb_true_iff in H. destruct H as [H1 H2].
  apply negb_true_iff in H1. apply orb_false_iff in H1. destruct H1 as [H1 H1d]. apply orb_false_iff in H1. destruct H1 as [H1 H1c].
  apply negb_true_iff in H2. unfold skip_ign. cbn [skip_go]. rewrite H1, H1c, H1d.
  destruct (Ascii.eqb c c_lpar) eqn:E; [|reflexivity].
  cbn [andb] in H2. destruct r as [|d r']; [reflexivity|]. cbn [first_is] in H2.
  rewrite Ascii.eqb_sym in H2. rewrite H2. reflexivity.
Qed.
Lemma stops_noign : forall c r, ign_start c = false -> stops (String c r) = true.
Proof.
  intros c r H. unfold ign_start in H. apply orb_false_iff in H. destruct H as [H H5]. cbn [stops]. rewrite H, H5. reflexivity.
Qed.

(** ** one token *)
Lemma stmt_word_name : forall w, is_stmt_kw w = false -> stmt_word w = TName w.
Proof.
  intros w H. unfold is_stmt_kw in H. unfold stmt_word in *.
  repeat match goal with |- context [if ?b then _ else _] => destruct b; [discriminate H|] end. reflexivity.
Qed.

Lemma punct_text : forall t, is_punct t = true -> exists c, tok_text t = String c EmptyString /\ punct c = Some t /\
  is_alpha_ c = false /\ Ascii.eqb c c_bsl = false /\ is_digit c = false /\
  negb (is_blank c || Ascii.eqb c c_nl || Ascii.eqb c c_cr || Ascii.eqb c c_slash) = true /\
  (Ascii.eqb c c_lpar = true -> t = TLpar).
Proof.
  intros t H. destruct t; try discriminate H; eexists; (split; [reflexivity|]); repeat split; try reflexivity; intro E; discriminate E.
Qed.

Lemma name_classes : forall w, wf_name w = true ->
  (name_plain w = true) \/ (name_esc w = true) \/ (name_sized w = true).
Proof.
  intros w H. unfold wf_name in H. apply orb_true_iff in H. destruct H as [H|H]; [|auto].
  apply orb_true_iff in H. destruct H; auto.
Qed.

(* the decomposition of the three kinds of names *)
Lemma plain_inv : forall w, name_plain w = true -> exists c r, w = String c r /\ is_alpha_ c = true /\ sall is_wordc (String c r) = true.
Proof.
  intros [|c r] H; [discriminate H|]. cbn [name_plain] in H. apply andb_true_iff in H. destruct H as [H1 H2].
  exists c, r. repeat split; auto. cbn [sall]. destruct (alpha_facts c H1) as [A _]. now rewrite A, H2.
Qed.
Lemma esc_inv : forall w, name_esc w = true -> exists x b e, w = String c_bsl (String x b ++ chr e)%string /\
  sall not_ws4 (String x b) = true /\ is_ws4 e = true.
Proof.
  intros [|c r] H; [discriminate H|]. cbn [name_esc] in H. apply andb_true_iff in H. destruct H as [H1 H2].
  apply bsl_facts in H1. subst c. destruct (span not_ws4 r) as [a b] eqn:E.
  destruct a as [|x a]; [discriminate H2|]. destruct b as [|e b]; [discriminate H2|]. destruct b; [|discriminate H2].
  destruct (span_inv _ _ _ _ E) as [E1 [E2 _]]. exists x, a, e. subst r. repeat split; auto.
Qed.
Lemma sized_inv : forall w, name_sized w = true -> exists d ds b x h, w = (String d ds ++ String c_quote (String b (String x h)))%string /\
  sall is_digit (String d ds) = true /\ is_base b = true /\ sall is_hex (String x h) = true.
Proof.
  intros w H. unfold name_sized in H. destruct (span is_digit w) as [a r] eqn:E.
  destruct a as [|d ds]; [discriminate H|]. destruct r as [|q r]; [discriminate H|]. destruct r as [|b h]; [discriminate H|].
  apply andb_true_iff in H. destruct H as [H H4]. apply andb_true_iff in H. destruct H as [H H3].
  apply andb_true_iff in H. destruct H as [H1 H2]. apply Ascii.eqb_eq in H1. subst q.
  destruct h as [|x h]; [discriminate H3|].
  destruct (span_inv _ _ _ _ E) as [E1 [E2 _]]. exists d, ds, b, x, h. repeat split; auto.
Qed.

Lemma scan_name : forall m w next, (m = LGen \/ m = LStmt) -> wf_name w = true -> (m = LStmt -> is_stmt_kw w = false) ->
  follows_ok (TName w) next = true ->
  scan_tok m (w ++ next)%string = Some (TName w, next) /\ stops (w ++ next)%string = true /\ w <> EmptyString.
Proof.
  intros m w next Hm Hw Hk Hf. destruct (name_classes _ Hw) as [H|[H|H]].
  - destruct (plain_inv _ H) as [c [r [-> [Hc Hs]]]]. destruct (alpha_facts c Hc) as [A1 [A2 [A3 [A4 A5]]]].
    cbn [follows_ok first_is] in Hf. rewrite A4, A5 in Hf. apply negb_true_iff in Hf.
    split; [|split; [apply stops_noign; exact A2 | discriminate]].
    assert (E : span is_wordc (String c r ++ next)%string = (String c r, next)) by (apply span_app; auto).
    destruct Hm as [-> | ->]; cbn [append scan_tok]; rewrite Hc; cbn [append] in E; rewrite E.
    + reflexivity.
    + rewrite (stmt_word_name _ (Hk eq_refl)). reflexivity.
  - destruct (esc_inv _ H) as [x [b [e [-> [Hs He]]]]].
    split; [|split; [reflexivity | discriminate]].
    assert (E : span not_ws4 ((String x b ++ chr e) ++ next)%string = (String x b, String e next)).
    { rewrite sapp_assoc. apply span_app; auto. cbn [first_is]. apply ws4_not. exact He. }
    destruct Hm as [-> | ->]; cbn [append scan_tok]; change (is_alpha_ c_bsl) with false; cbn iota;
      change (Ascii.eqb c_bsl c_bsl) with true; cbn iota; cbn [append] in E; rewrite E; reflexivity.
  - destruct (sized_inv _ H) as [d [ds [b [x [h [-> [Hd [Hb Hh]]]]]]]].
    assert (Hd0 : is_digit d = true) by (cbn [sall] in Hd; apply andb_true_iff in Hd; tauto).
    destruct (digit_facts d Hd0) as [D1 [D2 [D3 [D4 [D5 [D6 D7]]]]]].
    cbn [follows_ok append first_is] in Hf. rewrite D5, Hd0 in Hf. apply negb_true_iff in Hf.
    split; [|split; [apply stops_noign; exact D3 | discriminate]].
    assert (E : span is_digit ((String d ds ++ String c_quote (String b (String x h))) ++ next)%string =
                (String d ds, String c_quote (String b (String x h ++ next)))%string).
    { rewrite sapp_assoc. apply span_app; auto. }
    assert (E2 : span is_hex (String x h ++ next)%string = (String x h, next)) by (apply span_app; auto).
    destruct Hm as [-> | ->]; cbn [append scan_tok]; rewrite D6, D4, Hd0; cbn [append] in E; rewrite E;
      change (Ascii.eqb c_quote c_quote) with true; rewrite Hb; cbn [andb]; cbn [append] in E2; rewrite E2; reflexivity.
Qed.

Lemma scan_word_kw : forall w t next, sall is_wordc w = true -> first_is is_alpha_ w = true -> stmt_word w = t ->
  first_is is_wordc next = false -> scan_tok LStmt (w ++ next)%string = Some (t, next) /\ stops (w ++ next)%string = true.
Proof.
  intros [|c r] t next Hs Ha Ht Hn; [discriminate Ha|]. cbn [first_is] in Ha. destruct (alpha_facts c Ha) as [A1 [A2 _]].
  split; [|apply stops_noign; exact A2].
  assert (E : span is_wordc (String c r ++ next)%string = (String c r, next)) by (apply span_app; auto).
  cbn [append scan_tok]. rewrite Ha. cbn [append] in E. rewrite E, Ht. reflexivity.
Qed.

Lemma scan_tok_text : forall m t next, tok_ok m t = true -> follows_ok t next = true ->
  scan_tok m (tok_text t ++ next)%string = Some (t, next) /\ stops (tok_text t ++ next)%string = true /\ tok_text t <> EmptyString.
Proof.
  intros m t next Hok Hf.
  destruct m.
  - (* top level *) destruct t; try discriminate Hok. repeat split; discriminate.
  - (* statement start *)
    destruct t; cbn [tok_ok is_punct] in Hok; try discriminate Hok.
    + cbn [follows_ok] in Hf. apply negb_true_iff in Hf.
      destruct (scan_word_kw "endmodule" TEndmodule next eq_refl eq_refl eq_refl Hf). repeat split; auto; discriminate.
    + cbn [follows_ok] in Hf. apply negb_true_iff in Hf.
      destruct k as [[]|]; (match goal with |- context [tok_text (TKw ?k)] =>
        destruct (scan_word_kw (kw_text k) (TKw k) next eq_refl eq_refl eq_refl Hf) end); repeat split; auto; discriminate.
    + apply andb_true_iff in Hok. destruct Hok as [H1 H2]. apply negb_true_iff in H2.
      apply scan_name; auto.
    + repeat split; try discriminate; reflexivity.
    + cbn [follows_ok] in Hf. apply negb_true_iff in Hf. repeat split; try discriminate; try reflexivity.
      cbn [tok_text append stops]. rewrite Hf. reflexivity.
    + repeat split; try discriminate; reflexivity.
    + repeat split; try discriminate; reflexivity.
    + repeat split; try discriminate; reflexivity.
    + repeat split; try discriminate; reflexivity.
    + repeat split; try discriminate; reflexivity.
    + repeat split; try discriminate; reflexivity.
    + repeat split; try discriminate; reflexivity.
    + repeat split; try discriminate; reflexivity.
    + repeat split; try discriminate; reflexivity.
  - (* digits *)
    destruct t; try discriminate Hok. cbn [tok_ok] in Hok. unfold wf_num in Hok. apply andb_true_iff in Hok. destruct Hok as [H1 H2].
    destruct s as [|c r]; [discriminate H1|]. assert (Hc : is_digit c = true) by (cbn [sall] in H2; apply andb_true_iff in H2; tauto).
    cbn [follows_ok] in Hf. apply negb_true_iff in Hf. destruct (digit_facts c Hc) as [_ [_ [D3 _]]].
    split; [|split; [apply stops_noign; exact D3 | discriminate]].
    assert (E : span is_digit (String c r ++ next)%string = (String c r, next)) by (apply span_app; auto).
    cbn [tok_text append scan_tok]. rewrite Hc. cbn [append] in E. rewrite E. reflexivity.
  - (* names and punctuation *)
    destruct t; cbn [tok_ok is_punct] in Hok; try discriminate Hok.
    + apply scan_name; auto. intro E; discriminate E.
    + repeat split; try discriminate; reflexivity.
    + cbn [follows_ok] in Hf. apply negb_true_iff in Hf. repeat split; try discriminate; try reflexivity.
      cbn [tok_text append stops]. rewrite Hf. reflexivity.
    + repeat split; try discriminate; reflexivity.
    + repeat split; try discriminate; reflexivity.
    + repeat split; try discriminate; reflexivity.
    + repeat split; try discriminate; reflexivity.
    + repeat split; try discriminate; reflexivity.
    + repeat split; try discriminate; reflexivity.
    + repeat split; try discriminate; reflexivity.
    + repeat split; try discriminate; reflexivity.
    + repeat split; try discriminate; reflexivity.
Qed.

(** ** the lexer on a rendering *)
Fixpoint mode_end (m : lmode) (ts : list vtok) : lmode :=
  match ts with [] => m | t :: r => mode_end (mode_after t) r end.
Definition oapp {A} (l : list A) (o : option (list A)) : option (list A) :=
  match o with Some x => Some (l ++ x) | None => None end.
Lemma oapp_cons {A} (t : A) l o : ocons t (oapp l o) = oapp (t :: l) o.
Proof. destruct o; reflexivity. Qed.

(* lexing a rendered token list followed by ANY rest: the tokens, then the lexer continues on the rest *)
Lemma lex_render_rest : forall l m rest f, toks_ok m (map snd l) = true -> glue_ok l rest = true ->
  lex_go (List.length l + f) m (render l rest) = oapp (map snd l) (lex_go f (mode_end m (map snd l)) rest).
Proof.
  induction l as [|[s t] l IH]; intros m rest f Hok Hg.
  - cbn [List.length render map mode_end oapp plus]. destruct (lex_go f m rest); reflexivity.
  - cbn [map snd toks_ok] in Hok. apply andb_true_iff in Hok. destruct Hok as [Ht Hok].
    cbn [glue_ok] in Hg. apply andb_true_iff in Hg. destruct Hg as [Hg Hg3]. apply andb_true_iff in Hg. destruct Hg as [Hs Hf].
    destruct (scan_tok_text m t (render l rest) Ht Hf) as [S1 [S2 S3]].
    cbn [List.length render map snd mode_end plus lex_go].
    rewrite (skip_sep _ _ Hs), (skip_stops _ S2).
    destruct (tok_text t ++ render l rest)%string as [|c r] eqn:E.
    { destruct (tok_text t); [congruence | discriminate E]. }
    rewrite S1, (IH _ _ _ Hok Hg3). apply oapp_cons.
Qed.

Lemma lex_go_end : forall f m rest, skip_ign rest = Some EmptyString -> lex_go (S f) m rest = Some [].
Proof. intros f m rest H. cbn [lex_go]. rewrite H. reflexivity. Qed.

Lemma tok_text_len : forall m t, tok_ok m t = true -> 1 <= String.length (tok_text t).
Proof.
  intros m t H. destruct (tok_text t) as [|c r] eqn:E; [|cbn [String.length]; lia].
  exfalso. destruct m, t; cbn [tok_ok is_punct] in H; try discriminate H; try discriminate E.
  - destruct k as [[]|]; discriminate E.
  - cbn [tok_text] in E. subst s. discriminate H.
  - cbn [tok_text] in E. subst s. discriminate H.
  - cbn [tok_text] in E. subst s. discriminate H.
Qed.
Lemma render_len : forall l m rest, toks_ok m (map snd l) = true -> List.length l <= String.length (render l rest).
Proof.
  induction l as [|[s t] l IH]; intros m rest H; [cbn; lia|].
  cbn [map snd toks_ok] in H. apply andb_true_iff in H. destruct H as [Ht H].
  cbn [List.length render]. rewrite !slen_app. specialize (IH _ rest H). pose proof (tok_text_len _ _ Ht). lia.
Qed.

(* fuel: more than needed changes nothing *)
Lemma lex_go_render_fuel : forall l m rest f, toks_ok m (map snd l) = true -> glue_ok l rest = true -> skip_ign rest = Some EmptyString ->
  List.length l < f -> lex_go f m (render l rest) = Some (map snd l).
Proof.
  intros l m rest f Hok Hg Hs Hf. replace f with (List.length l + S (f - List.length l - 1)) by lia.
  rewrite (lex_render_rest _ _ _ _ Hok Hg), (lex_go_end _ _ _ Hs). cbn [oapp]. now rewrite app_nil_r.
Qed.

Theorem lex_render_end : forall l rest, toks_ok LTop (map snd l) = true -> glue_ok l rest = true -> skip_ign rest = Some EmptyString ->
  lex (render l rest) = Some (map snd l).
Proof.
  intros l rest Hok Hg Hs. unfold lex. apply lex_go_render_fuel; auto.
  pose proof (render_len l LTop rest Hok). lia.
Qed.
Theorem lex_render : forall l sf, toks_ok LTop (map snd l) = true -> glue_ok l (sep_text sf) = true -> sep_ok sf = true ->
  lex (render l (sep_text sf)) = Some (map snd l).
Proof. intros l sf Hok Hg Hs. apply lex_render_end; auto. apply skip_sep_end. exact Hs. Qed.
(* ... and the text may END in a "//" comment without line break *)
Theorem lex_render_tail : forall l sf tl, toks_ok LTop (map snd l) = true -> glue_ok l (end_text sf tl) = true -> sep_ok sf = true ->
  tail_ok tl = true -> lex (render l (end_text sf tl)) = Some (map snd l).
Proof. intros l sf tl Hok Hg Hs Ht. apply lex_render_end; auto. apply skip_end; auto. Qed.
(* a rest in which the ignored text does not end (an open block comment or attribute): rejected *)
Lemma lex_go_rest_none : forall l m rest f, toks_ok m (map snd l) = true -> glue_ok l rest = true -> skip_ign rest = None ->
  lex_go f m (render l rest) = None.
Proof.
  intros l m rest f Hok Hg Hr.
  destruct (le_lt_dec (List.length l) f) as [Hle|Hlt].
  - replace f with (List.length l + (f - List.length l)) by lia. rewrite (lex_render_rest _ _ _ _ Hok Hg).
    destruct (f - List.length l) as [|k]; [reflexivity|]. cbn [lex_go]. rewrite Hr. reflexivity.
  - (* not enough fuel: the result is None anyway *)
    revert m f Hok Hg Hlt. induction l as [|[s t] l IH]; intros m f Hok Hg Hlt; [cbn in Hlt; lia|].
    destruct f as [|f]; [reflexivity|].
    cbn [map snd toks_ok] in Hok. apply andb_true_iff in Hok. destruct Hok as [Ht Hok].
    cbn [glue_ok] in Hg. apply andb_true_iff in Hg. destruct Hg as [Hg Hg3]. apply andb_true_iff in Hg. destruct Hg as [Hs Hf].
    destruct (scan_tok_text m t (render l rest) Ht Hf) as [S1 [S2 S3]].
    cbn [render lex_go]. rewrite (skip_sep _ _ Hs), (skip_stops _ S2).
    destruct (tok_text t ++ render l rest)%string as [|c r] eqn:E.
    { destruct (tok_text t); [congruence | discriminate E]. }
    rewrite S1. cbn [List.length] in Hlt.
    destruct (le_lt_dec (List.length l) f) as [Hle|Hlt2].
    + replace f with (List.length l + (f - List.length l)) by lia. rewrite (lex_render_rest _ _ _ _ Hok Hg3).
      destruct (f - List.length l) as [|k]; [reflexivity|]. cbn [lex_go]. rewrite Hr. reflexivity.
    + rewrite (IH _ _ Hok Hg3 Hlt2). reflexivity.
Qed.

(** ** induction over signal expressions; the nested loops as forallb *)
Section tsig_ind2.
  Variable P : tsig -> Prop.
  Hypothesis Hsel : forall n g, P (TSel n g).
  Hypothesis Hcat : forall l, Forall P l -> P (TConcat l).
  Fixpoint tsig_ind2 (s : tsig) : P s :=
    match s with
    | TSel n g => Hsel n g
    | TConcat l => Hcat l ((fix go (l : list tsig) : Forall P l :=
                              match l with [] => Forall_nil _ | x :: r => Forall_cons _ (tsig_ind2 x) (go r) end) l)
    end.
End tsig_ind2.

Lemma shape_concat l : shape_sig (TConcat l) = (match l with [] => false | _ => true end) && forallb shape_sig l.
Proof. reflexivity. Qed.
Lemma wf_concat l : wf_sig (TConcat l) = (match l with [] => false | _ => true end) && forallb wf_sig l.
Proof. reflexivity. Qed.

(** ** token streams *)
Ltac norm := repeat first [rewrite <- app_assoc | progress cbn [app]].
Lemma sep_by_cons {A} (c : A) : forall l x, sep_by c (x :: l) = x ++ flat_map (fun y => c :: y) l.
Proof.
  induction l as [|y l IH]; intros x.
  - cbn [sep_by flat_map]. now rewrite app_nil_r.
  - change (sep_by c (x :: y :: l)) with (x ++ c :: sep_by c (y :: l)). rewrite IH. reflexivity.
Qed.
Definition stail (l : list tsig) : list vtok := flat_map (fun s => TComma :: toks_sig s) l.
Definition ntail (l : list string) : list vtok := flat_map (fun n => [TComma; TName n]) l.
Definition ptail (l : list tpin) : list vtok := flat_map (fun p => TComma :: toks_pin p) l.
Lemma flat_map_map_cons {A} (c : vtok) (f : A -> list vtok) l : flat_map (fun y => c :: y) (map f l) = flat_map (fun x => c :: f x) l.
Proof. induction l as [|x l IH]; [reflexivity|]. cbn [map flat_map]. now rewrite IH. Qed.
Lemma toks_concat s l : toks_sig (TConcat (s :: l)) = TLbrace :: toks_sig s ++ stail l ++ [TRbrace].
Proof.
  cbn [toks_sig map]. rewrite sep_by_cons, flat_map_map_cons. unfold stail. now norm.
Qed.
Lemma toks_names_cons n l : toks_names (n :: l) = TName n :: ntail l.
Proof. unfold toks_names. cbn [map]. rewrite sep_by_cons, flat_map_map_cons. reflexivity. Qed.
Lemma toks_pins_cons p l : sep_by TComma (map toks_pin (p :: l)) = toks_pin p ++ ptail l.
Proof. cbn [map]. rewrite sep_by_cons, flat_map_map_cons. reflexivity. Qed.

Definition nolsqb (r : list vtok) : bool := match r with TLsqb :: _ => false | _ => true end.
Definition nocomma (r : list vtok) : bool := match r with TComma :: _ => false | _ => true end.

Ltac dm H := repeat (first
  [ match type of H with context [match ?x with _ => _ end] => is_var x; destruct x end
  | match type of H with context [match ?x with _ => _ end] => destruct x eqn:? end ]; try discriminate H).
Ltac inj H := inversion H; subst; clear H.
Ltac lens H := repeat first [rewrite app_length in H | progress cbn [List.length] in H].

(** ** the parser: completeness (every tree is read back from its token stream) *)
Lemma p_orange_ok g r : nolsqb r = true -> p_orange (toks_orange g ++ r) = Some (g, r).
Proof.
  intro H. destruct g as [[a [b|]]|]; try reflexivity.
  cbn [toks_orange app]. destruct r as [|t r]; [reflexivity|]. destruct t; try reflexivity. discriminate H.
Qed.

Definition sig_complete (s : tsig) : Prop := shape_sig s = true -> forall k r, nolsqb r = true -> List.length (toks_sig s) <= k ->
  p_sg k false (toks_sig s ++ r) = Some ([s], r).
Lemma p_sg_tail_ok : forall l, Forall sig_complete l -> forallb shape_sig l = true -> forall k r, List.length (stail l) + 1 <= k ->
  p_sg k true (stail l ++ TRbrace :: r) = Some (l, r).
Proof.
  induction l as [|s l IH]; intros HP Hs k r Hk.
  - destruct k as [|f]; [cbn in Hk; lia|]. reflexivity.
  - inversion HP as [|? ? P1 P2]; subst. cbn [forallb] in Hs. apply andb_true_iff in Hs. destruct Hs as [Hs1 Hs2].
    unfold stail in *. cbn [flat_map] in *. lens Hk.
    destruct k as [|f]; [lia|]. norm. cbn [p_sg].
    rewrite (P1 Hs1 f) by (try lia; destruct l; reflexivity).
    rewrite (IH P2 Hs2 f r) by lia. reflexivity.
Qed.
Lemma p_sg_ok : forall s, sig_complete s.
Proof.
  apply tsig_ind2.
  - intros n g _ k r Hr Hk. destruct k as [|f]; [cbn in Hk; lia|].
    cbn [toks_sig app p_sg]. rewrite (p_orange_ok _ _ Hr). reflexivity.
  - intros l HP Hs k r Hr Hk. rewrite shape_concat in Hs. apply andb_true_iff in Hs. destruct Hs as [Hn Hs].
    destruct l as [|s l]; [discriminate Hn|]. inversion HP as [|? ? P1 P2]; subst.
    cbn [forallb] in Hs. apply andb_true_iff in Hs. destruct Hs as [Hs1 Hs2].
    rewrite toks_concat in *. lens Hk.
    destruct k as [|f]; [lia|]. norm. cbn [p_sg].
    rewrite (P1 Hs1 f) by (try lia; destruct l; reflexivity).
    rewrite (p_sg_tail_ok l P2 Hs2 f r) by lia. reflexivity.
Qed.
Lemma p_sig_ok s k r : shape_sig s = true -> nolsqb r = true -> List.length (toks_sig s) <= k -> p_sig k (toks_sig s ++ r) = Some (s, r).
Proof. intros H1 H2 H3. unfold p_sig. rewrite (p_sg_ok s H1 k r H2 H3). reflexivity. Qed.

Lemma p_names_ok : forall l r, nocomma r = true -> p_names (ntail l ++ r) = Some (l, r).
Proof.
  induction l as [|n l IH]; intros r H.
  - cbn [ntail flat_map app]. destruct r as [|t r]; [reflexivity|]. destruct t; try reflexivity. discriminate H.
  - unfold ntail in *. cbn [flat_map app p_names]. rewrite (IH _ H). reflexivity.
Qed.
Lemma p_params_ok l r : p_params (TLpar :: toks_names l ++ TRpar :: r) = Some (l, r).
Proof.
  destruct l as [|n l]; [reflexivity|]. rewrite toks_names_cons. cbn [app p_params].
  rewrite (p_names_ok l (TRpar :: r) eq_refl). reflexivity.
Qed.

Lemma sig_head s r : exists t r', toks_sig s ++ r = t :: r' /\ (t = TLbrace \/ exists n, t = TName n).
Proof. destruct s as [n g|l]; cbn [toks_sig app]; eexists; eexists; split; try reflexivity; eauto. Qed.

Lemma p_pin_ok p k r : shape_pin p = true -> nolsqb r = true -> List.length (toks_pin p) <= k -> p_pin k (toks_pin p ++ r) = Some (p, r).
Proof.
  intros Hs Hr Hk. destruct p as [n [s|]|s]; cbn [toks_pin shape_pin] in *.
  - lens Hk.
    assert (E : p_sig k (toks_sig s ++ TRpar :: r) = Some (s, TRpar :: r)) by (apply p_sig_ok; auto; lia).
    norm. destruct (sig_head s (TRpar :: r)) as [t [r' [E1 E2]]]. rewrite E1 in *.
    destruct E2 as [-> | [m ->]]; cbn [p_pin]; rewrite E; reflexivity.
  - reflexivity.
  - assert (E : p_sig k (toks_sig s ++ r) = Some (s, r)) by (apply p_sig_ok; auto).
    destruct (sig_head s r) as [t [r' [E1 E2]]]. rewrite E1 in *.
    destruct E2 as [-> | [m ->]]; cbn [p_pin]; rewrite E; reflexivity.
Qed.
Lemma ptail_head l r : nolsqb (ptail l ++ TRpar :: r) = true.
Proof. destruct l; reflexivity. Qed.
Lemma p_pins_ok : forall l k r, forallb shape_pin l = true -> List.length (ptail l) + 1 <= k -> p_pins k (ptail l ++ TRpar :: r) = Some (l, r).
Proof.
  induction l as [|p l IH]; intros k r Hs Hk.
  - destruct k as [|f]; [cbn in Hk; lia|]. reflexivity.
  - cbn [forallb] in Hs. apply andb_true_iff in Hs. destruct Hs as [Hs1 Hs2].
    unfold ptail in *. cbn [flat_map] in *. lens Hk.
    destruct k as [|f]; [lia|]. norm. cbn [p_pins].
    rewrite (p_pin_ok p f) by (auto; try lia; apply ptail_head).
    rewrite (IH f r Hs2) by lia. reflexivity.
Qed.
Lemma pin_head p r : exists t r', toks_pin p ++ r = t :: r' /\ (t = TLbrace \/ t = TDot \/ exists n, t = TName n).
Proof.
  destruct p as [n [s|]|s]; cbn [toks_pin app]; try (eexists; eexists; split; [reflexivity|]; eauto; fail).
  destruct (sig_head s r) as [t [r' [E [-> | [m ->]]]]]; rewrite E; eexists; eexists; split; try reflexivity; eauto.
Qed.

Lemma p_stmt_ok s k r : shape_stmt s = true -> List.length (toks_stmt s) <= k -> p_stmt k (toks_stmt s ++ r) = Some (s, r).
Proof.
  intros Hs Hk. destruct s as [d g ns|a b|ty nm pins]; cbn [toks_stmt shape_stmt] in *.
  - destruct ns as [|n ns]; [discriminate Hs|]. rewrite toks_names_cons. norm. cbn [p_stmt].
    rewrite (p_orange_ok g (TName n :: ntail ns ++ TSemi :: r) eq_refl). rewrite (p_names_ok ns (TSemi :: r) eq_refl). reflexivity.
  - apply andb_true_iff in Hs. destruct Hs as [Ha Hb]. lens Hk.
    norm. cbn [p_stmt]. rewrite (p_sig_ok a k) by (auto; lia).
    norm. rewrite (p_sig_ok b k) by (auto; lia). reflexivity.
  - destruct pins as [|p l]; [reflexivity|]. rewrite toks_pins_cons in *. lens Hk.
    cbn [forallb] in Hs. apply andb_true_iff in Hs. destruct Hs as [Hs1 Hs2].
    norm.
    assert (E1 : p_pin k (toks_pin p ++ ptail l ++ TRpar :: TSemi :: r) = Some (p, ptail l ++ TRpar :: TSemi :: r))
      by (apply p_pin_ok; auto; try lia; apply ptail_head).
    assert (E2 : p_pins k (ptail l ++ TRpar :: TSemi :: r) = Some (l, TSemi :: r)) by (apply p_pins_ok; auto; lia).
    destruct (pin_head p (ptail l ++ TRpar :: TSemi :: r)) as [t [r' [E E3]]]. rewrite E in *.
    destruct E3 as [-> | [-> | [m ->]]]; cbn [p_stmt]; rewrite E1, E2; reflexivity.
Qed.
Lemma stmt_head s r : exists t r', toks_stmt s ++ r = t :: r' /\ ((exists k, t = TKw k) \/ exists n, t = TName n).
Proof. destruct s; cbn [toks_stmt app]; eexists; eexists; split; try reflexivity; eauto. Qed.
Lemma p_stmts_ok : forall l k r, forallb shape_stmt l = true -> List.length (flat_map toks_stmt l) + 1 <= k ->
  p_stmts k (flat_map toks_stmt l ++ TEndmodule :: r) = Some (l, r).
Proof.
  induction l as [|s l IH]; intros k r Hs Hk.
  - destruct k as [|f]; [cbn in Hk; lia|]. reflexivity.
  - cbn [forallb] in Hs. apply andb_true_iff in Hs. destruct Hs as [Hs1 Hs2].
    cbn [flat_map] in *. lens Hk. destruct k as [|f]; [lia|]. norm.
    assert (Hl : 1 <= List.length (toks_stmt s)) by (destruct s; cbn [toks_stmt List.length]; lia).
    assert (E1 : p_stmt f (toks_stmt s ++ flat_map toks_stmt l ++ TEndmodule :: r) = Some (s, flat_map toks_stmt l ++ TEndmodule :: r))
      by (apply p_stmt_ok; auto; lia).
    assert (E2 := IH f r Hs2 ltac:(lia)).
    destruct (stmt_head s (flat_map toks_stmt l ++ TEndmodule :: r)) as [t [r' [E E3]]]. rewrite E in *.
    destruct E3 as [[kw ->] | [m ->]]; cbn [p_stmts]; rewrite E1, E2; reflexivity.
Qed.
Lemma p_module_ok m k r : shape_module m = true -> List.length (toks_module m) <= k -> p_module k (toks_module m ++ r) = Some (m, r).
Proof.
  intros Hs Hk. destruct m as [n ps l]. unfold toks_module, shape_module in *. cbn [t_name t_params t_stmts] in *.
  lens Hk. cbn [app p_module]. norm. rewrite p_params_ok. norm.
  rewrite (p_stmts_ok l k r Hs) by lia. reflexivity.
Qed.
Lemma p_modules_ok : forall l k, shape_tree l = true -> List.length (toks_tree l) + 1 <= k -> p_modules k (toks_tree l) = Some l.
Proof.
  induction l as [|m l IH]; intros k Hs Hk; [destruct k; reflexivity|].
  unfold shape_tree, toks_tree in *. cbn [forallb flat_map] in *. apply andb_true_iff in Hs. destruct Hs as [Hs1 Hs2].
  lens Hk. destruct k as [|f]; [lia|].
  assert (E1 : p_module f (toks_module m ++ flat_map toks_module l) = Some (m, flat_map toks_module l)) by (apply p_module_ok; auto; lia).
  assert (Hl : 1 <= List.length (toks_module m)) by (unfold toks_module; cbn [List.length]; lia).
  assert (E2 := IH f Hs2 ltac:(lia)).
  destruct (toks_module m ++ flat_map toks_module l) as [|t r'] eqn:E.
  { apply app_eq_nil in E. destruct E as [E _]. unfold toks_module in E. discriminate E. }
  cbn [p_modules]. rewrite E1, E2. reflexivity.
Qed.
Theorem parse_toks_complete : forall l, shape_tree l = true -> parse_toks (toks_tree l) = Some l.
Proof. intros l H. unfold parse_toks. apply p_modules_ok; auto. lia. Qed.

(** ** the parser: soundness (an accepted token stream is the token stream of the tree returned) *)
Lemma p_orange_sound ts g r : p_orange ts = Some (g, r) -> ts = toks_orange g ++ r.
Proof. intro H. unfold p_orange, p_range in H. dm H; inj H; reflexivity. Qed.

Lemma p_sg_sound : forall k tl ts l r, p_sg k tl ts = Some (l, r) ->
  if tl then ts = stail l ++ TRbrace :: r /\ forallb shape_sig l = true
  else exists s, l = [s] /\ ts = toks_sig s ++ r /\ shape_sig s = true.
Proof.
  induction k as [|f IH]; intros tl ts l r H; [discriminate H|].
  cbn [p_sg] in H. destruct tl.
  - destruct ts as [|t ts]; [discriminate H|]. destruct t; try discriminate H.
    + destruct (p_sg f false ts) as [[s1 r1]|] eqn:E1; [|discriminate H].
      destruct (p_sg f true r1) as [[l2 r2]|] eqn:E2; [|discriminate H]. inj H.
      apply IH in E1. apply IH in E2. cbn iota in E1, E2. destruct E1 as [s [-> [-> Hs]]]. destruct E2 as [-> Hl].
      split; [unfold stail; cbn [flat_map app]; norm; reflexivity|]. cbn [app forallb]. now rewrite Hs, Hl.
    + inj H. split; reflexivity.
  - destruct ts as [|t ts]; [discriminate H|]. destruct t; try discriminate H.
    + destruct (p_orange ts) as [[g r']|] eqn:E; [|discriminate H]. inj H. apply p_orange_sound in E. subst.
      eexists; repeat split.
    + destruct (p_sg f false ts) as [[s1 r1]|] eqn:E1; [|discriminate H].
      destruct (p_sg f true r1) as [[l2 r2]|] eqn:E2; [|discriminate H]. inj H.
      apply IH in E1. apply IH in E2. cbn iota in E1, E2. destruct E1 as [s [-> [-> Hs]]]. destruct E2 as [-> Hl].
      exists (TConcat (s :: l2)). split; [reflexivity|]. split.
      * rewrite toks_concat. norm. reflexivity.
      * rewrite shape_concat. cbn [forallb]. now rewrite Hs, Hl.
Qed.
Lemma p_sig_sound k ts s r : p_sig k ts = Some (s, r) -> ts = toks_sig s ++ r /\ shape_sig s = true.
Proof.
  unfold p_sig. intro H. destruct (p_sg k false ts) as [[l r']|] eqn:E; [|discriminate H].
  apply p_sg_sound in E. cbn iota in E. destruct E as [s' [-> [-> Hs]]]. inj H. auto.
Qed.
Lemma p_names_sound : forall ns ts r, p_names ts = Some (ns, r) -> ts = ntail ns ++ r.
Proof.
  induction ns as [|n ns IH]; intros ts r H.
  - destruct ts as [|t ts]; [inj H; reflexivity|]. cbn [p_names] in H. dm H; inj H; reflexivity.
  - destruct ts as [|t ts]; [discriminate H|]. cbn [p_names] in H. dm H; inj H.
    match goal with E : p_names _ = Some _ |- _ => apply IH in E; subst end. reflexivity.
Qed.
Lemma p_params_sound ts l r : p_params ts = Some (l, r) -> ts = TLpar :: toks_names l ++ TRpar :: r.
Proof.
  intro H. unfold p_params in H. dm H; inj H; try reflexivity.
  match goal with E : p_names _ = Some _ |- _ => apply p_names_sound in E; subst end.
  rewrite toks_names_cons. norm. reflexivity.
Qed.

Ltac snd_hyps := repeat match goal with
  | E : p_sig _ _ = Some _ |- _ => apply p_sig_sound in E; destruct E as [? ?]
  | E : p_orange _ = Some _ |- _ => apply p_orange_sound in E
  | E : p_names _ = Some _ |- _ => apply p_names_sound in E
  | E : p_params _ = Some _ |- _ => apply p_params_sound in E
  end.
Ltac use_eqs := repeat match goal with E : _ = _ ++ _ |- _ => rewrite <- E; clear E end.

Lemma p_pin_sound k ts p r : p_pin k ts = Some (p, r) -> ts = toks_pin p ++ r /\ shape_pin p = true.
Proof.
  intro H. unfold p_pin in H. dm H; inj H; snd_hyps; subst; cbn [toks_pin shape_pin]; (split; [|first [assumption | reflexivity]]);
    norm; first [reflexivity | assumption | (use_eqs; reflexivity)].
Qed.
Lemma p_pins_sound : forall k ts l r, p_pins k ts = Some (l, r) -> ts = ptail l ++ TRpar :: r /\ forallb shape_pin l = true.
Proof.
  induction k as [|f IH]; intros ts l r H; [discriminate H|].
  cbn [p_pins] in H. destruct ts as [|t ts]; [discriminate H|]. destruct t; try discriminate H.
  - inj H. split; reflexivity.
  - destruct (p_pin f ts) as [[p r1]|] eqn:E1; [|discriminate H].
    destruct (p_pins f r1) as [[l2 r2]|] eqn:E2; [|discriminate H]. inj H.
    apply p_pin_sound in E1. apply IH in E2. destruct E1 as [-> Hp]. destruct E2 as [-> Hl].
    split; [unfold ptail; cbn [flat_map]; norm; reflexivity|]. cbn [forallb]. now rewrite Hp, Hl.
Qed.
Lemma p_stmt_sound k ts s r : p_stmt k ts = Some (s, r) -> ts = toks_stmt s ++ r /\ shape_stmt s = true.
Proof.
  intro H. unfold p_stmt in H. dm H; inj H; snd_hyps;
    repeat match goal with
    | E : p_pin _ _ = Some _ |- _ => apply p_pin_sound in E; destruct E as [? ?]
    | E : p_pins _ _ = Some _ |- _ => apply p_pins_sound in E; destruct E as [? ?]
    end; subst; cbn [toks_stmt shape_stmt forallb]; rewrite ?toks_names_cons, ?toks_pins_cons;
    (split; [norm; first [reflexivity | (use_eqs; reflexivity)] |
             repeat match goal with E : _ = true |- _ => rewrite E; clear E end; reflexivity]).
Qed.
Lemma p_stmts_sound : forall k ts l r, p_stmts k ts = Some (l, r) ->
  ts = flat_map toks_stmt l ++ TEndmodule :: r /\ forallb shape_stmt l = true.
Proof.
  induction k as [|f IH]; intros ts l r H; [discriminate H|].
  cbn [p_stmts] in H.
  assert (C : (ts = TEndmodule :: r /\ l = []) \/
              exists s r1 l2, p_stmt f ts = Some (s, r1) /\ p_stmts f r1 = Some (l2, r) /\ l = s :: l2).
  { destruct ts as [|t ts]; [|destruct t]; try (left; inj H; split; reflexivity);
      (destruct (p_stmt f _) as [[sx rx]|] eqn:E1; [|discriminate H]);
      (destruct (p_stmts f rx) as [[lx ry]|] eqn:E2; [|discriminate H]); inj H; right; eauto 8. }
  destruct C as [[-> ->] | [s [r1 [l2 [E1 [E2 ->]]]]]]; [split; reflexivity|].
  apply p_stmt_sound in E1. apply IH in E2. destruct E1 as [-> Hs]. destruct E2 as [-> Hl].
  split; [cbn [flat_map]; norm; reflexivity|]. cbn [forallb]. now rewrite Hs, Hl.
Qed.
Lemma p_module_sound k ts m r : p_module k ts = Some (m, r) -> ts = toks_module m ++ r /\ shape_module m = true.
Proof.
  intro H. unfold p_module in H. dm H; inj H; snd_hyps.
  match goal with E : p_stmts _ _ = Some _ |- _ => apply p_stmts_sound in E; destruct E as [? ?] end. subst.
  unfold toks_module, shape_module. cbn [t_name t_params t_stmts]. split; [norm; reflexivity | assumption].
Qed.
Lemma p_modules_sound : forall k ts l, p_modules k ts = Some l -> ts = toks_tree l /\ shape_tree l = true.
Proof.
  induction k as [|f IH]; intros ts l H.
  - destruct ts; [inj H; split; reflexivity | discriminate H].
  - destruct ts as [|t ts]; [inj H; split; reflexivity|]. cbn [p_modules] in H.
    destruct (p_module f (t :: ts)) as [[m r]|] eqn:E1; [|discriminate H].
    destruct (p_modules f r) as [l2|] eqn:E2; [|discriminate H]. inj H.
    apply p_module_sound in E1. apply IH in E2. destruct E1 as [E1 Hm]. destruct E2 as [-> Hl].
    unfold toks_tree, shape_tree in *. cbn [flat_map forallb]. rewrite E1, Hm, Hl. split; reflexivity.
Qed.
Theorem parse_toks_sound : forall ts l, parse_toks ts = Some l -> ts = toks_tree l /\ shape_tree l = true.
Proof. intros ts l H. eapply p_modules_sound; eauto. Qed.
(** the token language: a token stream is accepted iff it is the token stream of a tree (without empty name lists /
    concatenations), and that tree is the result *)
Theorem parse_toks_iff : forall ts l, parse_toks ts = Some l <-> ts = toks_tree l /\ shape_tree l = true.
Proof.
  intros ts l. split; [apply parse_toks_sound|]. intros [-> H]. apply parse_toks_complete. exact H.
Qed.

(** ** the token stream of a well-formed tree is what the scanners return, state by state *)
Lemma toks_ok_range g r : wf_range g = true -> toks_ok LGen r = true -> toks_ok LGen (toks_range g ++ r) = true.
Proof.
  intros H Hr. destruct g as [a [b|]]; cbn [wf_range] in H.
  - apply andb_true_iff in H. destruct H as [Ha Hb]. cbn [toks_range app toks_ok tok_ok mode_after is_punct]. now rewrite Ha, Hb, Hr.
  - cbn [toks_range app toks_ok tok_ok mode_after is_punct]. now rewrite H, Hr.
Qed.
Lemma toks_ok_orange g r : wf_orange g = true -> toks_ok LGen r = true -> toks_ok LGen (toks_orange g ++ r) = true.
Proof. destruct g as [g|]; [apply toks_ok_range | intros _ H; exact H]. Qed.
Definition sig_toks_ok (s : tsig) : Prop := wf_sig s = true -> forall r, toks_ok LGen r = true -> toks_ok LGen (toks_sig s ++ r) = true.
Lemma toks_ok_stail : forall l, Forall sig_toks_ok l -> forallb wf_sig l = true -> forall r, toks_ok LGen r = true ->
  toks_ok LGen (stail l ++ r) = true.
Proof.
  induction l as [|s l IH]; intros HP Hw r Hr; [exact Hr|].
  inversion HP as [|? ? P1 P2]; subst. cbn [forallb] in Hw. apply andb_true_iff in Hw. destruct Hw as [H1 H2].
  unfold stail in *. cbn [flat_map]. norm. cbn [toks_ok tok_ok mode_after is_punct andb]. apply P1; try assumption.
  apply IH; assumption.
Qed.
Lemma toks_ok_sig : forall s, sig_toks_ok s.
Proof.
  apply tsig_ind2.
  - intros n g H r Hr. cbn [wf_sig] in H. apply andb_true_iff in H. destruct H as [H1 H2].
    cbn [toks_sig app toks_ok tok_ok mode_after]. rewrite H1. cbn [andb]. apply toks_ok_orange; try assumption.
  - intros l HP H r Hr. rewrite wf_concat in H. apply andb_true_iff in H. destruct H as [Hn H].
    destruct l as [|s l]; [discriminate Hn|]. inversion HP as [|? ? P1 P2]; subst.
    cbn [forallb] in H. apply andb_true_iff in H. destruct H as [H1 H2].
    rewrite toks_concat. norm. cbn [toks_ok tok_ok mode_after is_punct andb]. apply P1; try assumption.
    apply toks_ok_stail; try assumption.
Qed.
Lemma toks_ok_ntail : forall l r, forallb wf_name l = true -> toks_ok LGen r = true -> toks_ok LGen (ntail l ++ r) = true.
Proof.
  induction l as [|n l IH]; intros r H Hr; [exact Hr|].
  cbn [forallb] in H. apply andb_true_iff in H. destruct H as [H1 H2].
  unfold ntail in *. cbn [flat_map]. norm. cbn [toks_ok tok_ok mode_after is_punct andb]. rewrite H1. cbn [andb]. apply IH; try assumption.
Qed.
Lemma toks_ok_names l r : forallb wf_name l = true -> toks_ok LGen r = true -> toks_ok LGen (toks_names l ++ r) = true.
Proof.
  destruct l as [|n l]; intros H Hr; [exact Hr|]. rewrite toks_names_cons. cbn [forallb] in H. apply andb_true_iff in H. destruct H as [H1 H2].
  cbn [app toks_ok tok_ok mode_after]. rewrite H1. cbn [andb]. apply toks_ok_ntail; try assumption.
Qed.
Lemma toks_ok_pin p r : wf_pin p = true -> toks_ok LGen r = true -> toks_ok LGen (toks_pin p ++ r) = true.
Proof.
  intros H Hr. destruct p as [n [s|]|s]; cbn [wf_pin toks_pin] in *.
  - apply andb_true_iff in H. destruct H as [H1 H2]. norm. cbn [toks_ok tok_ok mode_after is_punct andb]. rewrite H1. cbn [andb].
    apply toks_ok_sig; try assumption.
  - cbn [app toks_ok tok_ok mode_after is_punct andb]. now rewrite H, Hr.
  - apply toks_ok_sig; try assumption.
Qed.
Lemma toks_ok_ptail : forall l r, forallb wf_pin l = true -> toks_ok LGen r = true -> toks_ok LGen (ptail l ++ r) = true.
Proof.
  induction l as [|p l IH]; intros r H Hr; [exact Hr|].
  cbn [forallb] in H. apply andb_true_iff in H. destruct H as [H1 H2].
  unfold ptail in *. cbn [flat_map]. norm. cbn [toks_ok tok_ok mode_after is_punct andb]. apply toks_ok_pin; try assumption.
  apply IH; assumption.
Qed.
Lemma toks_ok_stmt s r : wf_stmt s = true -> toks_ok LStmt r = true -> toks_ok LStmt (toks_stmt s ++ r) = true.
Proof.
  intros H Hr. destruct s as [d g ns|a b|ty nm pins]; cbn [wf_stmt toks_stmt] in *.
  - apply andb_true_iff in H. destruct H as [H H3]. apply andb_true_iff in H. destruct H as [H1 H2].
    norm. cbn [toks_ok tok_ok mode_after andb]. apply toks_ok_orange; try assumption. apply toks_ok_names; try assumption.
  - apply andb_true_iff in H. destruct H as [H1 H2]. norm. cbn [toks_ok tok_ok mode_after andb].
    apply toks_ok_sig; try assumption. cbn [toks_ok tok_ok mode_after is_punct andb]. apply toks_ok_sig; try assumption.
  - apply andb_true_iff in H. destruct H as [H H4]. apply andb_true_iff in H. destruct H as [H H3].
    norm. cbn [toks_ok tok_ok mode_after is_punct]. rewrite H, H3. cbn [andb].
    destruct pins as [|p l].
    + cbn [map sep_by app toks_ok tok_ok mode_after is_punct andb]. exact Hr.
    + rewrite toks_pins_cons. cbn [forallb] in H4. apply andb_true_iff in H4. destruct H4 as [H5 H6]. norm.
      apply toks_ok_pin; try assumption. apply toks_ok_ptail; try assumption.
Qed.
Lemma toks_ok_stmts : forall l r, forallb wf_stmt l = true -> toks_ok LStmt r = true -> toks_ok LStmt (flat_map toks_stmt l ++ r) = true.
Proof.
  induction l as [|s l IH]; intros r H Hr; [exact Hr|].
  cbn [forallb] in H. apply andb_true_iff in H. destruct H as [H1 H2]. cbn [flat_map]. norm. apply toks_ok_stmt; try assumption.
  apply IH; assumption.
Qed.
Lemma toks_ok_module m r : wf_module m = true -> toks_ok LTop r = true -> toks_ok LTop (toks_module m ++ r) = true.
Proof.
  intros H Hr. unfold wf_module in H. apply andb_true_iff in H. destruct H as [H H3]. apply andb_true_iff in H. destruct H as [H1 H2].
  unfold toks_module. norm. cbn [toks_ok tok_ok mode_after is_punct andb]. rewrite H1. cbn [andb].
  apply toks_ok_names; try assumption. cbn [toks_ok tok_ok mode_after is_punct andb]. apply toks_ok_stmts; try assumption.
Qed.
Theorem toks_ok_tree : forall l, wf_tree l = true -> toks_ok LTop (toks_tree l) = true.
Proof.
  induction l as [|m l IH]; intros H; [reflexivity|].
  unfold wf_tree, toks_tree in *. cbn [forallb flat_map] in *. apply andb_true_iff in H. destruct H as [H1 H2].
  apply toks_ok_module; try assumption. apply IH; assumption.
Qed.

(* well-formed trees have the shape the parser builds *)
Lemma wf_shape_sig : forall s, wf_sig s = true -> shape_sig s = true.
Proof.
  apply (tsig_ind2 (fun s => wf_sig s = true -> shape_sig s = true)); [reflexivity|].
  intros l HP H. rewrite wf_concat in H. rewrite shape_concat. apply andb_true_iff in H. destruct H as [Hn H]. rewrite Hn. cbn [andb]. clear Hn.
  induction HP as [|s l P1 P2 IH]; [reflexivity|]. cbn [forallb] in *. apply andb_true_iff in H. destruct H as [H1 H2].
  rewrite (P1 H1). cbn [andb]. apply IH; auto.
Qed.
Lemma forallb_impl {A} (f g : A -> bool) l : (forall x, f x = true -> g x = true) -> forallb f l = true -> forallb g l = true.
Proof. intros Hi H. rewrite forallb_forall in *. auto. Qed.
Lemma wf_shape_tree : forall l, wf_tree l = true -> shape_tree l = true.
Proof.
  intro l. unfold wf_tree, shape_tree. apply forallb_impl. intros m H. unfold wf_module in H. apply andb_true_iff in H. destruct H as [_ H].
  revert H. unfold shape_module. apply forallb_impl. intros s H. destruct s as [d g ns|a b|ty nm pins]; cbn [wf_stmt shape_stmt] in *.
  - apply andb_true_iff in H. destruct H as [H _]. apply andb_true_iff in H. destruct H as [_ H]. exact H.
  - apply andb_true_iff in H. destruct H as [H1 H2]. now rewrite (wf_shape_sig _ H1), (wf_shape_sig _ H2).
  - apply andb_true_iff in H. destruct H as [_ H]. revert H. apply forallb_impl. intros p H.
    destruct p as [n [s|]|s]; cbn [wf_pin shape_pin] in *; auto.
    + apply andb_true_iff in H. destruct H as [_ H]. apply wf_shape_sig; auto.
    + apply wf_shape_sig; auto.
Qed.

(** ** main theorems *)
(* (b) ignored text is irrelevant: the result is a function of the token stream *)
Theorem parse_render : forall l sf, toks_ok LTop (map snd l) = true -> glue_ok l (sep_text sf) = true -> sep_ok sf = true ->
  parse_verilog (render l (sep_text sf)) = parse_toks (map snd l).
Proof. intros l sf H1 H2 H3. unfold parse_verilog. now rewrite (lex_render l sf H1 H2 H3). Qed.
Theorem ignored_irrelevant : forall l1 sf1 l2 sf2, map snd l1 = map snd l2 -> toks_ok LTop (map snd l1) = true ->
  glue_ok l1 (sep_text sf1) = true -> sep_ok sf1 = true -> glue_ok l2 (sep_text sf2) = true -> sep_ok sf2 = true ->
  parse_verilog (render l1 (sep_text sf1)) = parse_verilog (render l2 (sep_text sf2)).
Proof.
  intros l1 sf1 l2 sf2 E H1 H2 H3 H4 H5. rewrite parse_render by auto. rewrite E in *. rewrite parse_render by auto. reflexivity.
Qed.
(* (a) round trip: EVERY way of writing the token stream of a well-formed tree is read as that tree *)
Theorem parse_any_rendering : forall t l sf, wf_tree t = true -> map snd l = toks_tree t ->
  glue_ok l (sep_text sf) = true -> sep_ok sf = true -> parse_verilog (render l (sep_text sf)) = Some t.
Proof.
  intros t l sf Hw E Hg Hs. rewrite parse_render; auto.
  - rewrite E. apply parse_toks_complete. apply wf_shape_tree. exact Hw.
  - rewrite E. apply toks_ok_tree. exact Hw.
Qed.

Theorem parse_render_tail : forall l sf tl, toks_ok LTop (map snd l) = true -> glue_ok l (end_text sf tl) = true -> sep_ok sf = true ->
  tail_ok tl = true -> parse_verilog (render l (end_text sf tl)) = parse_toks (map snd l).
Proof. intros l sf tl H1 H2 H3 H4. unfold parse_verilog. now rewrite (lex_render_tail l sf tl H1 H2 H3 H4). Qed.
(* since the repair of verilog.GRAMMAR (the newline after a "//" comment is no longer part of it): every way of writing a well-formed
   tree may END in a line comment without line break *)
Theorem eof_line_comment_accepted : forall t l sf b, wf_tree t = true -> map snd l = toks_tree t ->
  glue_ok l (sep_text sf ++ "//" ++ b)%string = true -> sep_ok sf = true -> no_newline b = true ->
  parse_verilog (render l (sep_text sf ++ "//" ++ b)%string) = Some t.
Proof.
  intros t l sf b Hw E Hg Hs Hb. change (sep_text sf ++ "//" ++ b)%string with (end_text sf (Some b)) in *.
  rewrite parse_render_tail; auto.
  - rewrite E. apply parse_toks_complete. apply wf_shape_tree. exact Hw.
  - rewrite E. apply toks_ok_tree. exact Hw.
Qed.

Lemma follows_blank : forall t c r, (c = c_sp \/ c = c_nl) -> follows_ok t (String c r) = true.
Proof.
  intros t c r Hc. destruct t; try reflexivity; cbn [follows_ok first_is];
    try (destruct Hc as [-> | ->]; reflexivity).
  destruct (first_is (Ascii.eqb c_bsl) s); [reflexivity|]. destruct (first_is is_digit s); destruct Hc as [-> | ->]; reflexivity.
Qed.
Lemma glue_print : forall ts, glue_ok (map (fun t => ([IgSpace], t)) ts) nl1 = true.
Proof.
  induction ts as [|t ts IH]; [reflexivity|]. cbn [map glue_ok]. rewrite IH, andb_true_r. cbn [sep_ok forallb ign_ok andb].
  destruct ts as [|t2 ts]; cbn [map render]; apply follows_blank; auto.
Qed.
Lemma map_snd_print : forall ts, map snd (map (fun t : vtok => ([IgSpace], t)) ts) = ts.
Proof. induction ts as [|t ts IH]; [reflexivity|]. cbn [map snd]. now rewrite IH. Qed.
Theorem parse_print : forall t, wf_tree t = true -> parse_verilog (print_tree t) = Some t.
Proof.
  intros t H. unfold print_tree, print_toks. change nl1 with (sep_text [IgNl]).
  apply parse_any_rendering; auto; [apply map_snd_print | apply glue_print].
Qed.

(* (c) what is rejected.  Ignored text that does not end -- an open block comment or attribute -- makes the whole text unreadable,
   whatever precedes it *)
Theorem open_ignored_rejected : forall l rest, toks_ok LTop (map snd l) = true -> glue_ok l rest = true -> skip_ign rest = None ->
  parse_verilog (render l rest) = None.
Proof. intros l rest H1 H2 H3. unfold parse_verilog, lex. now rewrite (lex_go_rest_none l LTop rest _ H1 H2 H3). Qed.
Local Open Scope string_scope.
(* a netlist whose last line is a comment without line break is read (it was rejected before the repair of verilog.GRAMMAR); so are
   a last comment that ends in a carriage return and an empty last comment; an open block comment is rejected *)
Example eof_comment_witness :
  parse_verilog "module m (); endmodule // end" = Some [mkT "m" [] []] /\
  parse_verilog ("module m (); endmodule // end" ++ nl1) = Some [mkT "m" [] []] /\
  parse_verilog ("module m (); endmodule // end" ++ chr c_cr) = Some [mkT "m" [] []] /\
  parse_verilog "module m (); endmodule //" = Some [mkT "m" [] []] /\
  parse_verilog "//" = Some [] /\
  parse_verilog "module m (); endmodule /* end */" = Some [mkT "m" [] []] /\
  parse_verilog "module m (); endmodule /* end" = None.
Proof. repeat split; vm_compute; reflexivity. Qed.
(* keywords are keywords only at the beginning of a statement; `module` is a plain prefix at top level; a sized constant takes
   every hexadecimal digit; an escaped name keeps its terminator; "(*)" is not an attribute, "/*/" not a comment *)
Example lexer_probes :
  parse_verilog "module input (wire); input input; module u (); endmodule" =
    Some [mkT "input" ["wire"] [TDecl DInput None ["input"]; TInst "module" "u" []]] /\
  parse_verilog "modulem();endmodule" = Some [mkT "m" [] []] /\
  parse_verilog "module m(); inputx a; endmodule" = None /\
  parse_verilog "module m(); INPUT a (); endmodule" = Some [mkT "m" [] [TInst "INPUT" "a" []]] /\
  parse_verilog "module m(); a b(1'b0f, 2'H3x); endmodule" = None /\
  parse_verilog ("module m(); a \b" ++ chr c_tab ++ "(\c[3] ); endmodule") =
    Some [mkT "m" [] [TInst "a" ("\b" ++ chr c_tab) [TPos (TSel "\c[3] " None)]]] /\
  parse_verilog "module m(); a b(*)(); endmodule" = None /\ parse_verilog "module m(); a b(*)*)(); endmodule" = Some [mkT "m" [] [TInst "a" "b" []]] /\
  parse_verilog "module m(); /*/ endmodule" = None /\ parse_verilog "module m(); /***/ endmodule" = Some [mkT "m" [] []] /\
  parse_verilog ("module m();" ++ chr c_cr ++ "endmodule") = None /\ parse_verilog ("module m();" ++ chr c_cr ++ nl1 ++ chr c_ff ++ "endmodule") = Some [mkT "m" [] []].
Proof. repeat split; vm_compute; reflexivity. Qed.
Local Close Scope string_scope.

(** ** converse: the lexer accepts EXACTLY the renderings *)
(* block comments and attributes share one scanner loop *)
Definition kcm (blk st : bool) : kst := if blk then KBlock st else KAttr st.
Definition cend (blk : bool) : ascii := if blk then c_slash else c_rpar.
Lemma skip_kcm blk st c r : skip_go (kcm blk st) (String c r) =
  if st && Ascii.eqb c (cend blk) then skip_go K0 r else skip_go (kcm blk (Ascii.eqb c c_star)) r.
Proof. destruct blk; reflexivity. Qed.
Definition pre (st : bool) : string := if st then String c_star EmptyString else EmptyString.
Definition lpar_ok (r : string) : bool :=
  match r with String c r' => negb (Ascii.eqb c c_lpar && first_is (Ascii.eqb c_star) r') | EmptyString => true end.
Definition cl_text (blk : bool) : string := String c_star (String (cend blk) EmptyString).

Lemma body_ok_star e b : body_ok e false (String c_star b) = body_ok e true b.
Proof. reflexivity. Qed.
Lemma blank_inv c : is_blank c = true -> c = c_tab \/ c = c_sp \/ c = c_ff.
Proof.
  unfold is_blank. intro H. apply orb_true_iff in H. destruct H as [H|H]; [apply orb_true_iff in H; destruct H as [H|H]|];
    apply Ascii.eqb_eq in H; auto.
Qed.

(* what precedes [r]: ignored text, then possibly a last "//" comment that runs to the end of the text (then r is empty) *)
Definition pre_ok (x r : string) : Prop :=
  exists sp tl, sep_ok sp = true /\ tail_ok tl = true /\ x = (sep_text sp ++ tail_text tl ++ r)%string /\ lpar_ok r = true /\
                (tl = None \/ r = EmptyString).
Lemma pre_ok_nil r : lpar_ok r = true -> pre_ok r r.
Proof. intro H. exists [], None. repeat split; auto. Qed.
Lemma pre_ok_cons i x r : ign_ok i = true -> pre_ok x r -> pre_ok (ign_text i ++ x) r.
Proof.
  intros Hi [sp [tl [H1 [H2 [H3 [H4 H5]]]]]]. exists (i :: sp), tl. repeat split; auto.
  - cbn [sep_ok forallb]. now rewrite Hi.
  - cbn [sep_text]. rewrite sapp_assoc. now rewrite H3.
Qed.

Lemma skip_inv : forall n s k r, String.length s <= n -> skip_go k s = Some r ->
  match k with
  | K0 => pre_ok s r
  | KBlock st => exists b x, body_ok c_slash false b = true /\ (pre st ++ s = b ++ cl_text true ++ x)%string /\ pre_ok x r
  | KAttr st => exists b x, body_ok c_rpar false b = true /\ (pre st ++ s = b ++ cl_text false ++ x)%string /\ pre_ok x r
  | KLine => exists b, no_newline b = true /\ ((exists x, s = (b ++ nl1 ++ x)%string /\ pre_ok x r) \/ (s = b /\ r = EmptyString))
  end.
Proof.
  assert (CM : forall n, (forall s r, String.length s <= n -> skip_go K0 s = Some r -> pre_ok s r) ->
               forall blk s st r, String.length s <= S n -> skip_go (kcm blk st) s = Some r ->
               exists b x, body_ok (cend blk) false b = true /\ (pre st ++ s = b ++ cl_text blk ++ x)%string /\ pre_ok x r).
  { intros n H0 blk. induction s as [|c s IH]; intros st r Hn H; [destruct blk; discriminate H|].
    rewrite skip_kcm in H. cbn [String.length] in Hn.
    destruct (st && Ascii.eqb c (cend blk)) eqn:E.
    - apply andb_true_iff in E. destruct E as [-> E]. apply Ascii.eqb_eq in E. subst c.
      exists EmptyString, s. repeat split; auto. apply H0; auto. lia.
    - destruct (IH _ _ ltac:(lia) H) as [b [x [H1 [H3 H4]]]].
      destruct (Ascii.eqb c c_star) eqn:Ec.
      + apply Ascii.eqb_eq in Ec. subst c. cbn [pre append] in H3.
        destruct st; cbn [pre append].
        * exists (String c_star b), x. repeat split; auto.
          -- rewrite body_ok_star. destruct b as [|y b']; [reflexivity|]. cbn [append] in H3. injection H3 as Hx _. subst y.
             cbn [body_ok] in *. destruct blk; exact H1.
          -- cbn [append]. now rewrite H3.
        * exists b, x. repeat split; auto.
      + cbn [pre append] in H3. destruct st; cbn [pre append].
        * exists (String c_star (String c b)), x. repeat split; auto.
          -- rewrite body_ok_star. cbn [body_ok]. rewrite Ec. cbn [andb] in E. rewrite E. exact H1.
          -- cbn [append]. now rewrite H3.
        * exists (String c b), x. repeat split; auto.
          -- cbn [body_ok andb negb]. rewrite Ec. exact H1.
          -- cbn [append]. now rewrite H3. }
  assert (LN : forall n, (forall s r, String.length s <= n -> skip_go K0 s = Some r -> pre_ok s r) ->
               forall s r, String.length s <= S n -> skip_go KLine s = Some r ->
               exists b, no_newline b = true /\ ((exists x, s = (b ++ nl1 ++ x)%string /\ pre_ok x r) \/ (s = b /\ r = EmptyString))).
  { intros n H0. induction s as [|c s IH]; intros r Hn H.
    - inj H. exists EmptyString. split; [reflexivity|]. right. auto.
    - cbn [String.length] in Hn. cbn [skip_go] in H. destruct (Ascii.eqb c c_nl) eqn:E.
      + apply Ascii.eqb_eq in E. subst c. exists EmptyString. split; [reflexivity|]. left. exists s. split; [reflexivity|]. apply H0; auto. lia.
      + destruct (IH r ltac:(lia) H) as [b [H1 H2]]. exists (String c b). split.
        * unfold no_newline in *. cbn [sall]. rewrite E. exact H1.
        * destruct H2 as [[x [-> Hx]] | [-> ->]]; [left; exists x; split; [reflexivity | exact Hx] | right; auto]. }
  induction n as [|n IHn]; intros s k r Hn H.
  - destruct s; [|cbn in Hn; lia]. destruct k; try discriminate H; inj H.
    + apply pre_ok_nil. reflexivity.
    + exists EmptyString. split; [reflexivity|]. right. auto.
  - assert (H0 : forall s r, String.length s <= n -> skip_go K0 s = Some r -> pre_ok s r) by (intros s0 r0 A B; exact (IHn s0 K0 r0 A B)).
    destruct k.
    + (* K0 *)
      destruct s as [|c s]; [inj H; apply pre_ok_nil; reflexivity|]. cbn [String.length] in Hn. cbn [skip_go] in H.
      destruct (is_blank c || Ascii.eqb c c_nl) eqn:E1.
      { pose proof (H0 s r ltac:(lia) H) as P. apply orb_true_iff in E1. destruct E1 as [E1|E1].
        - destruct (blank_inv _ E1) as [-> | [-> | ->]];
            [exact (pre_ok_cons IgTab _ _ eq_refl P) | exact (pre_ok_cons IgSpace _ _ eq_refl P) | exact (pre_ok_cons IgFf _ _ eq_refl P)].
        - apply Ascii.eqb_eq in E1. subst c. exact (pre_ok_cons IgNl _ _ eq_refl P). }
      destruct (Ascii.eqb c c_cr) eqn:E2.
      { apply Ascii.eqb_eq in E2. subst c. destruct s as [|d s']; [inj H; apply pre_ok_nil; reflexivity|].
        destruct (Ascii.eqb d c_nl) eqn:E3; [|inj H; apply pre_ok_nil; reflexivity].
        apply Ascii.eqb_eq in E3. subst d. cbn [String.length] in Hn. exact (pre_ok_cons IgCrNl _ _ eq_refl (H0 s' r ltac:(lia) H)). }
      destruct (Ascii.eqb c c_slash) eqn:E3.
      { apply Ascii.eqb_eq in E3. subst c. destruct s as [|d s']; [inj H; apply pre_ok_nil; reflexivity|]. cbn [String.length] in Hn.
        destruct (Ascii.eqb d c_star) eqn:E4.
        - apply Ascii.eqb_eq in E4. subst d.
          destruct (CM n H0 true s' false r ltac:(lia) H) as [b [x [H1 [H3 H4]]]]. cbn [pre append] in H3. subst s'.
          assert (Hi : ign_ok (IgBlock b) = true) by exact H1.
          pose proof (pre_ok_cons (IgBlock b) _ _ Hi H4) as P. cbn [ign_text] in P. rewrite !sapp_assoc in P. exact P.
        - destruct (Ascii.eqb d c_slash) eqn:E5; [|inj H; apply pre_ok_nil; reflexivity].
          apply Ascii.eqb_eq in E5. subst d.
          destruct (LN n H0 s' r ltac:(lia) H) as [b [H1 [[x [-> Hx]] | [-> ->]]]].
          + assert (Hi : ign_ok (IgLine b) = true) by exact H1.
            pose proof (pre_ok_cons (IgLine b) _ _ Hi Hx) as P. cbn [ign_text] in P. rewrite !sapp_assoc in P. exact P.
          + exists [], (Some b). repeat split; auto. cbn [sep_text tail_text append]. now rewrite sapp_nil_r. }
      destruct (Ascii.eqb c c_lpar) eqn:E4.
      { apply Ascii.eqb_eq in E4. subst c. destruct s as [|d s']; [inj H; apply pre_ok_nil; reflexivity|]. cbn [String.length] in Hn.
        destruct (Ascii.eqb d c_star) eqn:E5.
        - apply Ascii.eqb_eq in E5. subst d.
          destruct (CM n H0 false s' false r ltac:(lia) H) as [b [x [H1 [H3 H4]]]]. cbn [pre append] in H3. subst s'.
          assert (Hi : ign_ok (IgAttr b) = true) by exact H1.
          pose proof (pre_ok_cons (IgAttr b) _ _ Hi H4) as P. cbn [ign_text] in P. rewrite !sapp_assoc in P. exact P.
        - inj H. apply pre_ok_nil. cbn [lpar_ok first_is]. rewrite (Ascii.eqb_sym c_star d), E5. rewrite andb_false_r. reflexivity. }
      inj H. apply pre_ok_nil. cbn [lpar_ok]. rewrite E4. reflexivity.
    + exact (CM n H0 true s star r Hn H).
    + exact (CM n H0 false s star r Hn H).
    + exact (LN n H0 s r Hn H).
Qed.

Lemma drop_prefix_inv : forall p s r, drop_prefix p s = Some r -> s = (p ++ r)%string.
Proof.
  induction p as [|a p IH]; intros s r H; [inj H; reflexivity|].
  destruct s as [|b s]; [discriminate H|]. cbn [drop_prefix] in H. destruct (Ascii.eqb a b) eqn:E; [|discriminate H].
  apply Ascii.eqb_eq in E. subst b. cbn [append]. now rewrite (IH _ _ H).
Qed.
Lemma stmt_word_text : forall w, tok_text (stmt_word w) = w.
Proof.
  intro w. unfold stmt_word.
  repeat match goal with |- context [String.eqb w ?k] => destruct (String.eqb_spec w k); [subst; reflexivity|] end. reflexivity.
Qed.
Lemma stmt_word_cases : forall w, (exists k, stmt_word w = TKw k) \/ stmt_word w = TEndmodule \/ stmt_word w = TName w.
Proof.
  intro w. unfold stmt_word.
  repeat match goal with |- context [if ?b then _ else _] => destruct b; [eauto|] end. auto.
Qed.
Lemma stmt_word_ok : forall w, name_plain w = true -> tok_ok LStmt (stmt_word w) = true.
Proof.
  intros w H. destruct (stmt_word w) eqn:E; try reflexivity;
    try (unfold stmt_word in E; repeat match type of E with context [if ?b then _ else _] => destruct b; try discriminate E end; fail).
  assert (s = w) by (pose proof (stmt_word_text w) as T; rewrite E in T; exact T). subst s.
  cbn [tok_ok]. unfold wf_name, is_stmt_kw. rewrite H, E. reflexivity.
Qed.
Lemma digit_not_kw c u : is_digit c = true -> is_stmt_kw (String c u) = false.
Proof. intros H. destruct c as [[|] [|] [|] [|] [|] [|] [|] [|]]; vm_compute in H; try discriminate H; reflexivity. Qed.
Lemma punct_inv : forall c t, punct c = Some t -> tok_text t = String c EmptyString /\ is_punct t = true.
Proof.
  intros c t H. destruct c as [[|] [|] [|] [|] [|] [|] [|] [|]]; vm_compute in H; try discriminate H; inj H; split; reflexivity.
Qed.
Lemma first_of_app w r p : w <> EmptyString -> first_is p (w ++ r)%string = first_is p w.
Proof. destruct w; [congruence | reflexivity]. Qed.

Lemma scan_tok_inv : forall m s t r, scan_tok m s = Some (t, r) -> lpar_ok s = true ->
  s = (tok_text t ++ r)%string /\ tok_ok m t = true /\ follows_ok t r = true.
Proof.
  intros m s t r H Hl. destruct s as [|c s]; [discriminate H|].
  assert (NAMES : (m = LStmt \/ m = LGen) ->
    (if is_alpha_ c then let '(w, r') := span is_wordc (String c s) in Some (match m with LStmt => stmt_word w | _ => TName w end, r')
     else if Ascii.eqb c c_bsl then match span not_ws4 s with
            | (String x b, String e r2) => Some (TName (String c (String x b ++ chr e)), r2) | _ => None end
     else if is_digit c then match span is_digit (String c s) with
            | (w, String q (String b r2)) => if Ascii.eqb q c_quote && is_base b then
                match span is_hex r2 with (String x h, r3) => Some (TName (w ++ String q (String b (String x h))), r3) | _ => None end else None
            | _ => None end
     else match punct c with Some t => Some (t, s) | None => None end) = Some (t, r) ->
    String c s = (tok_text t ++ r)%string /\ tok_ok m t = true /\ follows_ok t r = true).
  { intros Hm H'. destruct (is_alpha_ c) eqn:Ea.
    - destruct (span is_wordc (String c s)) as [w r'] eqn:E. destruct (span_inv _ _ _ _ E) as [E1 [E2 E3]].
      assert (Hw : exists w', w = String c w').
      { cbn [span] in E. destruct (alpha_facts c Ea) as [A _]. rewrite A in E. destruct (span is_wordc s). inj E. eauto. }
      destruct Hw as [w' ->]. assert (Hp : name_plain (String c w') = true).
      { cbn [name_plain]. rewrite Ea. cbn [sall] in E2. apply andb_true_iff in E2. tauto. }
      destruct (alpha_facts c Ea) as [_ [_ [_ [A4 A5]]]].
      destruct Hm as [-> | ->]; inj H'.
      + split; [rewrite stmt_word_text; exact E1|]. split; [apply stmt_word_ok; exact Hp|].
        destruct (stmt_word_cases (String c w')) as [[k ->] | [-> | ->]]; cbn [follows_ok]; try (now rewrite E3).
        cbn [first_is]. rewrite A4, A5, E3. reflexivity.
      + split; [exact E1|]. split; [cbn [tok_ok]; unfold wf_name; now rewrite Hp|].
        cbn [follows_ok first_is]. rewrite A4, A5, E3. reflexivity.
    - destruct (Ascii.eqb c c_bsl) eqn:Eb.
      + apply Ascii.eqb_eq in Eb. subst c. destruct (span not_ws4 s) as [a b] eqn:E. destruct (span_inv _ _ _ _ E) as [E1 [E2 E3]].
        destruct a as [|x a]; [discriminate H'|]. destruct b as [|e r2]; [discriminate H'|]. inj H'.
        cbn [first_is] in E3. unfold not_ws4 in E3. apply negb_false_iff in E3.
        split; [try rewrite E1; exact (f_equal (String c_bsl) (eq_sym (sapp_assoc (String x a) (chr e) r)))|]. split; [|reflexivity].
        assert (Hn : wf_name (String c_bsl (String x a ++ chr e)) = true).
        { unfold wf_name. replace (name_esc (String c_bsl (String x a ++ chr e))) with true; [now rewrite orb_true_r|].
          symmetry. cbn [name_esc]. change (Ascii.eqb c_bsl c_bsl) with true. cbn [andb].
          rewrite (span_app not_ws4 (String x a) (chr e) E2) by (cbn [chr first_is]; unfold not_ws4; now rewrite E3). exact E3. }
        destruct Hm as [-> | ->]; cbn [tok_ok]; [|exact Hn]. apply andb_true_iff. split; [exact Hn | reflexivity].
      + destruct (is_digit c) eqn:Ed.
        * destruct (span is_digit (String c s)) as [w r1] eqn:E. destruct (span_inv _ _ _ _ E) as [E1 [E2 E3]].
          assert (Hw : exists w', w = String c w').
          { cbn [span] in E. rewrite Ed in E. destruct (span is_digit s). inj E. eauto. }
          destruct Hw as [w' ->].
          destruct r1 as [|q r1]; [discriminate H'|]. destruct r1 as [|b r2]; [discriminate H'|].
          destruct (Ascii.eqb q c_quote && is_base b) eqn:Eq; [|discriminate H'].
          apply andb_true_iff in Eq. destruct Eq as [Eq Eb']. apply Ascii.eqb_eq in Eq. subst q.
          destruct (span is_hex r2) as [h r3] eqn:Eh. destruct (span_inv _ _ _ _ Eh) as [F1 [F2 F3]].
          destruct h as [|x h]; [discriminate H'|]. inj H'.
          destruct (digit_facts c Ed) as [_ [_ [_ [_ [D5 _]]]]].
          split; [try rewrite E1; try rewrite F1; exact (eq_sym (sapp_assoc (String c w') (String c_quote (String b (String x h))) r))|]. split.
          -- assert (Hn : wf_name (String c w' ++ String c_quote (String b (String x h))) = true).
             { unfold wf_name. replace (name_sized (String c w' ++ String c_quote (String b (String x h)))) with true; [now rewrite orb_true_r|].
               symmetry. unfold name_sized. rewrite (span_app is_digit (String c w') _ E2) by reflexivity.
               change (Ascii.eqb c_quote c_quote) with true. rewrite Eb'. cbn [andb nonempty]. exact F2. }
             destruct Hm as [-> | ->]; cbn [tok_ok]; [|exact Hn]. apply andb_true_iff. split; [exact Hn|]. apply negb_true_iff.
             exact (digit_not_kw c _ Ed).
          -- cbn [follows_ok append first_is]. rewrite D5, Ed, F3. reflexivity.
        * destruct (punct c) as [t'|] eqn:Ep; [|discriminate H']. inj H'. destruct (punct_inv _ _ Ep) as [P1 P2].
          split; [rewrite P1; reflexivity|]. split; [destruct Hm as [-> | ->]; destruct t; try discriminate P2; reflexivity|].
          destruct t; try discriminate P2; try reflexivity. cbn [follows_ok]. cbn [tok_text] in P1. inj P1. cbn [lpar_ok] in Hl.
          change (Ascii.eqb "(" c_lpar) with true in Hl. cbn [andb] in Hl. exact Hl. }
  destruct m.
  - cbn [scan_tok] in H. destruct (drop_prefix "module" (String c s)) as [r'|] eqn:E; [|discriminate H]. inj H.
    apply drop_prefix_inv in E. repeat split; auto.
  - apply NAMES; auto.
  - cbn [scan_tok] in H. destruct (is_digit c) eqn:Ed; [|discriminate H].
    destruct (span is_digit (String c s)) as [w r'] eqn:E. inj H. destruct (span_inv _ _ _ _ E) as [E1 [E2 E3]].
    split; [exact E1|]. split; [|cbn [follows_ok]; now rewrite E3].
    cbn [tok_ok]. unfold wf_num. rewrite E2, andb_true_r. cbn [span] in E. rewrite Ed in E. destruct (span is_digit s). inj E. reflexivity.
  - apply NAMES; auto.
Qed.

Lemma lex_go_inv : forall f m s ts, lex_go f m s = Some ts ->
  exists l sf tl, s = render l (end_text sf tl) /\ map snd l = ts /\ toks_ok m ts = true /\ glue_ok l (end_text sf tl) = true /\
                  sep_ok sf = true /\ tail_ok tl = true.
Proof.
  induction f as [|f IH]; intros m s ts H; [discriminate H|].
  cbn [lex_go] in H. destruct (skip_ign s) as [s1|] eqn:E; [|discriminate H].
  destruct (skip_inv (String.length s) s K0 s1 (le_n _) E) as [sp [tl [H1 [Ht [H2 [H3 H4]]]]]].
  destruct s1 as [|c s1].
  - inj H. exists [], sp, tl. repeat split; auto. cbn [render]. unfold end_text. f_equal. apply sapp_nil_r.
  - destruct H4 as [-> | H4]; [|discriminate H4]. cbn [tail_text append] in H2.
    destruct (scan_tok m (String c s1)) as [[t r]|] eqn:Es; [|discriminate H].
    destruct (lex_go f (mode_after t) r) as [ts'|] eqn:El; [|discriminate H]. inj H.
    destruct (scan_tok_inv _ _ _ _ Es H3) as [S1 [S2 S3]].
    destruct (IH _ _ _ El) as [l [sf [tl' [L1 [L2 [L3 [L4 [L5 L6]]]]]]]].
    exists ((sp, t) :: l), sf, tl'. subst r. repeat split; auto.
    + cbn [render]. rewrite S1. reflexivity.
    + cbn [map snd]. now rewrite L2.
    + cbn [toks_ok]. now rewrite S2, L3.
    + cbn [glue_ok]. now rewrite H1, S3, L4.
Qed.
(** the lexer accepts EXACTLY the renderings: ignored text (only the eight forms of [ign]) in front of every token and at the end --
    where a last "//" comment needs no line break --, every token one that the scanner of its parser state returns, nothing after a
    token that would prolong it *)
Theorem lex_iff : forall s ts, lex s = Some ts <-> rendering s ts.
Proof.
  intros s ts. split.
  - intro H. unfold lex in H. destruct (lex_go_inv _ _ _ _ H) as [l [sf [tl [H1 [H2 [H3 [H4 [H5 H6]]]]]]]]. exists l, sf, tl. repeat split; auto.
  - intros [l [sf [tl [-> [<- [H3 [H4 [H5 H6]]]]]]]]. apply lex_render_tail; auto.
Qed.
(** (c) the language of verilog.GRAMMAR under lark, exactly: a text is accepted with tree [t] iff it is a rendering of the token stream of
    [t] and [t] has no empty name list / concatenation *)
Theorem parse_verilog_iff : forall s t, parse_verilog s = Some t <-> rendering s (toks_tree t) /\ shape_tree t = true.
Proof.
  intros s t. unfold parse_verilog. split.
  - intro H. destruct (lex s) as [ts|] eqn:E; [|discriminate H]. apply parse_toks_sound in H. destruct H as [-> Hs].
    split; [apply lex_iff; exact E | exact Hs].
  - intros [H Hs]. apply lex_iff in H. rewrite H. apply parse_toks_complete. exact Hs.
Qed.
(* an accepted text yields a well-formed tree: names are name tokens, a statement never begins with a keyword used as a cell type *)
Lemma toks_ok_app : forall a b m, toks_ok m (a ++ b) = toks_ok m a && toks_ok (mode_end m a) b.
Proof. induction a as [|t a IH]; intros b m; [reflexivity|]. cbn [app toks_ok mode_end]. rewrite IH. now rewrite andb_assoc. Qed.

(** ** composition with VerilogTransformer.module (Model/VerilogModule.v, Proofs/VerilogModuleProofs.v) *)
Module VP := KV.Proofs.VerilogModuleProofs.

Lemma omap_forall2 {A B} (f : A -> option B) : forall l l', omap f l = Some l' -> Forall2 (fun x y => f x = Some y) l l'.
Proof.
  induction l as [|x l IH]; intros l' H.
  - inj H. constructor.
  - cbn [omap] in H. destruct (f x) as [y|] eqn:E; [|discriminate H]. destruct (omap f l) as [ys|] eqn:E2; [|discriminate H].
    inj H. constructor; auto.
Qed.
Lemma forall2_in_l {A B} (R : A -> B -> Prop) : forall l l', Forall2 R l l' -> forall x, In x l -> exists y, In y l' /\ R x y.
Proof.
  induction 1 as [|a b l l' H1 H2 IH]; intros x Hx; [destruct Hx|]. destruct Hx as [->|Hx]; [eexists; split; [left; reflexivity|exact H1]|].
  destruct (IH _ Hx) as [y [Hy Hr]]. exists y. split; [right|]; auto.
Qed.
Lemma forall2_in_r {A B} (R : A -> B -> Prop) : forall l l', Forall2 R l l' -> forall y, In y l' -> exists x, In x l /\ R x y.
Proof.
  induction 1 as [|a b l l' H1 H2 IH]; intros y Hy; [destruct Hy|]. destruct Hy as [->|Hy]; [eexists; split; [left; reflexivity|exact H1]|].
  destruct (IH _ Hy) as [x [Hx Hr]]. exists x. split; [right|]; auto.
Qed.

Lemma nodup_by_of_NoDup : forall l, NoDup l -> VM.nodup_by VM.pinkey_eqb l = true.
Proof.
  induction 1 as [|x l Hn Hd IH]; [reflexivity|]. cbn [VM.nodup_by]. rewrite IH, andb_true_r. apply negb_true_iff.
  destruct (existsb (VM.pinkey_eqb x) l) eqn:E; [|reflexivity]. apply existsb_exists in E. destruct E as [y [Hy E]].
  apply VP.pinkey_eqb_eq in E. subst. contradiction.
Qed.
(* the pin dictionaries built by VerilogTransformer.instantiation have distinct keys: the hypothesis [pins_nodup_b] of the module
   theorems holds for every tree that comes from a text *)
Theorem module_args_nodup : forall tm m, module_args tm = Some m -> VM.pins_nodup_b m = true.
Proof.
  intros tm m H. unfold module_args in H. destruct (omap stmt_cb (t_stmts tm)) as [l|] eqn:E; [|discriminate H]. inj H.
  unfold VM.pins_nodup_b. cbn [VM.m_stmts]. apply forallb_forall. intros s Hs.
  destruct (forall2_in_r _ _ _ (omap_forall2 _ _ _ E) _ Hs) as [ts [_ Hts]].
  destruct ts as [d g ns|a b|ty nm pins]; cbn [stmt_cb] in Hts.
  - destruct (orange_cb g); inj Hts. reflexivity.
  - destruct (sig_cb a), (sig_cb b); inj Hts. reflexivity.
  - destruct (omap pin_cb pins) as [raw|]; inj Hts. apply nodup_by_of_NoDup. apply VP.mk_pins_nodup.
Qed.
Lemma module_args_head : forall tm m, module_args tm = Some m ->
  VM.m_name m = name_cb (t_name tm) /\ VM.m_ports m = map name_cb (t_params tm) /\ omap stmt_cb (t_stmts tm) = Some (VM.m_stmts m).
Proof.
  intros tm m H. unfold module_args in H. destruct (omap stmt_cb (t_stmts tm)) as [l|] eqn:E; [|discriminate H]. inj H. auto.
Qed.
(* an instantiation of the text is an Instantiation handed to module, with the dict made from its pins *)
Lemma module_args_inst : forall tm m ty nm tpins, module_args tm = Some m -> In (TInst ty nm tpins) (t_stmts tm) ->
  exists raw, omap pin_cb tpins = Some raw /\ In (VM.VInst (name_cb ty) (name_cb nm) (VM.mk_pins raw)) (VM.m_stmts m).
Proof.
  intros tm m ty nm tpins H Hin. destruct (module_args_head _ _ H) as [_ [_ E]].
  destruct (forall2_in_l _ _ _ (omap_forall2 _ _ _ E) _ Hin) as [s [Hs Hc]]. cbn [stmt_cb] in Hc.
  destruct (omap pin_cb tpins) as [raw|]; [|discriminate Hc]. inj Hc. eauto.
Qed.

(* verilog.parse = lark + child callbacks + module, module by module *)
Theorem circuits_of_text_inv : forall text lib bf cs, circuits_of_text text lib bf = Some cs ->
  exists tms ms, parse_verilog text = Some tms /\
    Forall2 (fun tm m => module_args tm = Some m /\ VM.pins_nodup_b m = true) tms ms /\
    Forall2 (fun m c => VM.elab_module m lib bf = Some c) ms cs.
Proof.
  intros text lib bf cs H. unfold circuits_of_text, modules_of_text in H.
  destruct (parse_verilog text) as [tms|] eqn:E1; [|discriminate H].
  destruct (omap module_args tms) as [ms|] eqn:E2; [|discriminate H].
  exists tms, ms. split; [reflexivity|]. split; [|apply omap_forall2; exact H].
  apply omap_forall2 in E2. clear -E2. induction E2; constructor; auto. split; auto. eapply module_args_nodup; eauto.
Qed.
(* the circuits do not depend on how the text is written *)
Theorem circuits_of_rendering : forall t l sf lib bf, wf_tree t = true -> map snd l = toks_tree t ->
  glue_ok l (sep_text sf) = true -> sep_ok sf = true ->
  circuits_of_text (render l (sep_text sf)) lib bf =
  match omap module_args t with Some ms => omap (fun m => VM.elab_module m lib bf) ms | None => None end.
Proof.
  intros t l sf lib bf H1 H2 H3 H4. unfold circuits_of_text, modules_of_text. rewrite (parse_any_rendering t l sf H1 H2 H3 H4). reflexivity.
Qed.

Theorem text_module_consistent : forall text lib bf cs, VM.lib_ok_b lib = true -> circuits_of_text text lib bf = Some cs ->
  Forall (fun c => CInv c /\ VP.SingleDrv c) cs.
Proof.
  intros text lib bf cs Hl H. destruct (circuits_of_text_inv _ _ _ _ H) as [tms [ms [_ [F1 F2]]]].
  apply Forall_forall. intros c Hc. destruct (forall2_in_r _ _ _ F2 _ Hc) as [m [Hm E]].
  destruct (forall2_in_r _ _ _ F1 _ Hm) as [tm [_ [_ Hn]]]. eapply VP.module_consistent; eauto.
Qed.

(** *** the pin dictionary from the pins as written: the LAST connection of a pin name is the one that counts *)
Lemma pset_in_same : forall k v d, In (k, v) (VM.pset k v d).
Proof.
  induction d as [|[k' v'] r IH]; cbn [VM.pset]; [left; reflexivity|].
  destruct (VM.pinkey_eqb k k') eqn:E; [|right; exact IH]. apply VP.pinkey_eqb_eq in E. subst. left; reflexivity.
Qed.
Lemma pset_in_other : forall k v k' v' d, VM.pinkey_eqb k' k = false -> In (k, v) d -> In (k, v) (VM.pset k' v' d).
Proof.
  induction d as [|[k0 v0] r IH]; intros E H; [destruct H|]. cbn [VM.pset]. destruct H as [H|H].
  - inj H. rewrite E. left; reflexivity.
  - destruct (VM.pinkey_eqb k' k0); right; auto.
Qed.
Definition other_pin (p : string) (q : VM.rawpin) : Prop := forall s, q <> VM.RNamed p (Some s).
Lemma fold_keeps : forall p v b st, In (VM.PName p, v) (fst st) -> Forall (other_pin p) b ->
  In (VM.PName p, v) (fst (fold_left VM.inst_step b st)).
Proof.
  induction b as [|q b IH]; intros st H F; [exact H|]. inversion F as [|? ? F1 F2]; subst. cbn [fold_left]. apply IH; auto.
  unfold VM.inst_step. cbn [fst]. destruct q as [n [s|]|s]; auto.
  - apply pset_in_other; auto. cbn [VM.pinkey_eqb]. destruct (String.eqb_spec n p); [subst; exfalso; eapply F1; reflexivity | reflexivity].
  - apply pset_in_other; auto.
Qed.
Lemma mk_pins_last : forall a p v b, Forall (other_pin p) b -> In (VM.PName p, v) (VM.mk_pins (a ++ VM.RNamed p (Some v) :: b)).
Proof.
  intros a p v b F. unfold VM.mk_pins. rewrite fold_left_app. cbn [fold_left]. apply fold_keeps; auto.
  unfold VM.inst_step at 2. cbn [fst]. apply pset_in_same.
Qed.
Lemma omap_app {A B} (f : A -> option B) : forall a b r, omap f (a ++ b) = Some r ->
  exists ra rb, r = ra ++ rb /\ omap f a = Some ra /\ omap f b = Some rb.
Proof.
  induction a as [|x a IH]; intros b r H.
  - exists [], r. auto.
  - cbn [app omap] in H. destruct (f x) as [y|] eqn:E; [|discriminate H]. destruct (omap f (a ++ b)) as [ys|] eqn:E2; [|discriminate H].
    inj H. destruct (IH _ _ E2) as [ra [rb [-> [E3 E4]]]]. exists (y :: ra), rb. cbn [omap]. rewrite E, E3. auto.
Qed.
(* a named connection .pn(sg) of the text after which the same pin name is not connected again is an entry of the dict *)
Theorem text_pin_entry : forall ta pn sg tb raw v, omap pin_cb (ta ++ TNamed pn (Some sg) :: tb) = Some raw -> sig_cb sg = Some v ->
  (forall pn' sg', In (TNamed pn' (Some sg')) tb -> name_cb pn' <> name_cb pn) ->
  In (VM.PName (name_cb pn), v) (VM.mk_pins raw).
Proof.
  intros ta pn sg tb raw v H Hv Hl. destruct (omap_app _ _ _ _ H) as [ra [rb0 [-> [E1 E2]]]].
  cbn [omap pin_cb] in E2. rewrite Hv in E2. destruct (omap pin_cb tb) as [rb|] eqn:E3; [|discriminate E2]. inj E2.
  apply mk_pins_last. apply Forall_forall. intros q Hq s Eq. subst q.
  destruct (forall2_in_r _ _ _ (omap_forall2 _ _ _ E3) _ Hq) as [tp [Htp Hc]].
  destruct tp as [n [s'|]|s']; cbn [pin_cb] in Hc.
  - destruct (sig_cb s'); inj Hc. eapply Hl; eauto.
  - discriminate Hc.
  - destruct (sig_cb s'); discriminate Hc.
Qed.

(** *** the theorems about VerilogTransformer.module (Properties/C11.v, C11_module_...) restated from the text: [tm] is a module of the
    raw tree lark builds for [text], [m] what module is called with, [c] the Circuit it returns *)
  Theorem text_module_cinv : forall text tms tm m lib bf c, VM.lib_ok_b lib = true -> parse_verilog text = Some tms -> In tm tms ->
    module_args tm = Some m -> VM.elab_module m lib bf = Some c ->
    CInv c /\ VP.SingleDrv c.
  Proof. intros text tms tm m lib bf c Hlib Hparse Hin Hargs Helab. pose proof (module_args_nodup tm m Hargs) as Hnd.
    eapply VP.module_consistent; eauto. Qed.
  Theorem text_module_ports : forall text tms tm m lib bf c, VM.lib_ok_b lib = true -> parse_verilog text = Some tms -> In tm tms ->
    module_args tm = Some m -> VM.elab_module m lib bf = Some c ->
    forall nls,
    VE.port_name_lists (map name_cb (t_params tm)) (VM.decls_of m) = Some nls -> NoDup (List.concat nls) ->
    (forall n, In n (List.concat nls) -> In n (map fst (VE.io_items (VM.decls_of m)))) ->
    List.length (io c) = List.length (List.concat nls) /\
    forall k name, nth_error (List.concat nls) k = Some name ->
      exists n kd, nth_error (io c) k = Some (Some n) /\ In n (nodes c) /\ name_of c n = name /\
                   kind_of c n = VM.kind_str kd /\ dget name (cells c) = Some n /\ In (name, kd) (VE.io_items (VM.decls_of m)).
  Proof.
    intros text tms tm m lib bf c Hlib Hparse Hin Hargs Helab. pose proof (module_args_nodup tm m Hargs) as Hnd.
    intros nls H1 H2 H3. destruct (module_args_head _ _ Hargs) as [_ [Ep _]]. rewrite <- Ep in H1. eapply VP.module_ports; eauto.
  Qed.
  Theorem text_module_pin_in : forall text tms tm m lib bf c, VM.lib_ok_b lib = true -> parse_verilog text = Some tms -> In tm tms ->
    module_args tm = Some m -> VM.elab_module m lib bf = Some c ->
    forall ty nm ta pn sg tb s idx,
    In (TInst ty nm (ta ++ TNamed pn (Some sg) :: tb)) (t_stmts tm) ->
    (forall pn' sg', In (TNamed pn' (Some sg')) tb -> name_cb pn' <> name_cb pn) ->
    sig_cb sg = Some (VE.SOne s) -> VM.lib_pin lib (name_cb ty) (VM.PName (name_cb pn)) = Some (idx, false) ->
    exists n l d, dget (name_cb nm) (cells c) = Some n /\ kind_of c n = name_cb ty /\ in_at c n idx = Some l /\ In l (lines c) /\
      l_rdr (lst c l) = Some n /\ l_rpin (lst c l) = idx /\ l_drv (lst c l) = Some d /\ is_fork (kind_of c d) = true /\
      if bf then exists f l', dget (VM.branch_name (name_of c f) (name_cb nm) (name_cb pn)) (forks c) = Some d /\ ins_of c d = [Some l'] /\
                              In l' (lines c) /\ l_drv (lst c l') = Some f /\ l_rdr (lst c l') = Some d /\ VP.SrcName m c f s
      else VP.SrcName m c d s.
  Proof.
    intros text tms tm m lib bf c Hlib Hparse Hin Hargs Helab. pose proof (module_args_nodup tm m Hargs) as Hnd.
    intros ty nm ta pn sg tb s idx Hi Hl Hs Hp. destruct (module_args_inst _ _ _ _ _ Hargs Hi) as [raw [Er Hv]].
    eapply VP.module_pin_in; eauto. eapply text_pin_entry; eauto.
  Qed.
  Theorem text_module_pin_out : forall text tms tm m lib bf c, VM.lib_ok_b lib = true -> parse_verilog text = Some tms -> In tm tms ->
    module_args tm = Some m -> VM.elab_module m lib bf = Some c ->
    forall ty nm ta pn sg tb s idx,
    In (TInst ty nm (ta ++ TNamed pn (Some sg) :: tb)) (t_stmts tm) ->
    (forall pn' sg', In (TNamed pn' (Some sg')) tb -> name_cb pn' <> name_cb pn) ->
    sig_cb sg = Some (VE.SOne s) -> VM.lib_pin lib (name_cb ty) (VM.PName (name_cb pn)) = Some (idx, true) ->
    exists n l f s', VM.out_sig_name (VM.decls_of m) s = Some s' /\ dget (name_cb nm) (cells c) = Some n /\ kind_of c n = name_cb ty /\
      out_at c n idx = Some l /\ In l (lines c) /\ l_drv (lst c l) = Some n /\ l_dpin (lst c l) = idx /\
      l_rdr (lst c l) = Some f /\ dget s' (forks c) = Some f /\ ins_of c f = [Some l].
  Proof.
    intros text tms tm m lib bf c Hlib Hparse Hin Hargs Helab. pose proof (module_args_nodup tm m Hargs) as Hnd.
    intros ty nm ta pn sg tb s idx Hi Hl Hs Hp. destruct (module_args_inst _ _ _ _ _ Hargs Hi) as [raw [Er Hv]].
    eapply VP.module_pin_out; eauto. eapply text_pin_entry; eauto.
  Qed.
  Theorem text_module_assign : forall text tms tm m lib bf c, VM.lib_ok_b lib = true -> parse_verilog text = Some tms -> In tm tms ->
    module_args tm = Some m -> VM.elab_module m lib bf = Some c ->
    exists c3 k3, VM.elab_assigns m lib = Some (c3, k3) /\ VP.ext c3 c /\
      forall ts, In ts (VM.assign_pairs (VM.decls_of m) (VM.m_stmts m)) -> VP.Resolved c ts \/ VP.Unres c3 ts.
  Proof. intros text tms tm m lib bf c Hlib Hparse Hin Hargs Helab. pose proof (module_args_nodup tm m Hargs) as Hnd.
    eapply VP.module_assign; eauto. Qed.
  Theorem text_module_outputs : forall text tms tm m lib bf c, VM.lib_ok_b lib = true -> parse_verilog text = Some tms -> In tm tms ->
    module_args tm = Some m -> VM.elab_module m lib bf = Some c ->
    forall nm, In (nm, VE.KOutput) (VE.io_items (VM.decls_of m)) ->
    dget nm (forks c) <> None \/ dget (nm ++ "[0]")%string (forks c) <> None -> VP.OutPort c nm.
  Proof. intros text tms tm m lib bf c Hlib Hparse Hin Hargs Helab. pose proof (module_args_nodup tm m Hargs) as Hnd.
    intros nm H1 H2. eapply VP.module_outputs; eauto. Qed.

(* the hypotheses are satisfiable: a text with comments of all three forms, an escaped identifier, a bus, a sized constant and
   two instances is read, elaborated and satisfies the theorems above *)
Local Open Scope string_scope.
Definition ex_text : string :=
  "// generated" ++ nl1 ++ "module top (a, \b[0] , y); /* ports */ input a, \b[0] ; output [1:0] y; wire w;" ++ nl1 ++
  " (* keep *) AND2_X1 u1 (.A1(a), .A2(\b[0] ), .ZN(w));" ++ nl1 ++ " INV_X1 u2 (.A(w), .ZN(y[0])); assign y[1] = 1'b1;" ++ nl1 ++ "endmodule" ++ nl1.
Definition ex_lib2 : VM.tlib_pins :=
  [("AND2_X1", [("A1", (0, false)); ("A2", (1, false)); ("ZN", (0, true))]); ("INV_X1", [("A", (0, false)); ("ZN", (0, true))])].
Example text_example : exists tm m c, parse_verilog ex_text = Some [tm] /\ wf_tree [tm] = true /\ module_args tm = Some m /\
  VM.lib_ok_b ex_lib2 = true /\ VM.elab_module m ex_lib2 true = Some c /\ circuits_of_text ex_text ex_lib2 true = Some [c] /\
  t_params tm = ["a"; "\b[0] "; "y"] /\ VM.m_ports m = ["a"; "b[0]"; "y"] /\ List.length (io c) = 4 /\ VM.ports_ok_b m = true.
Proof.
  destruct (parse_verilog ex_text) as [[|tm [|]]|] eqn:E1; try (vm_compute in E1; discriminate E1).
  destruct (module_args tm) as [m|] eqn:E2; [|vm_compute in E1; inj E1; vm_compute in E2; discriminate E2].
  destruct (VM.elab_module m ex_lib2 true) as [c|] eqn:E3; [|vm_compute in E1; inj E1; vm_compute in E2; inj E2; vm_compute in E3; discriminate E3].
  exists tm, m, c. vm_compute in E1. inj E1. vm_compute in E2. inj E2. vm_compute in E3. inj E3. repeat split; vm_compute; reflexivity.
Qed.
Local Close Scope string_scope.
