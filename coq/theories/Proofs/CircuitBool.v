(** C09: the executable invariant checker [cinv_b] is sound for the Prop [CInv]. *)
From Coq Require Import List Arith Bool String Lia.
From KV Require Import Model.Circuit Model.CircuitInv Proofs.CircuitBase Proofs.CircuitProofs.
Import ListNotations.
Local Open Scope list_scope.

Lemma forallb_i_spec : forall {A} (f : nat -> A -> bool) l i,
  forallb_i f i l = true -> forall k x, nth_error l k = Some x -> f (i + k) x = true.
Proof.
  induction l as [|y r IH]; intros i H k x Hk; simpl in *.
  - destruct k; discriminate.
  - apply andb_true_iff in H. destruct H as [H1 H2]. destruct k as [|k]; simpl in Hk.
    + inv Hk. rewrite Nat.add_0_r. auto.
    + replace (i + S k) with (S i + k) by lia. apply IH; auto.
Qed.

Lemma nodup_keys_sound : forall d, nodup_keys d = true -> NoDup (map fst d).
Proof.
  induction d as [|[k v] r IH]; simpl; intros H. constructor.
  apply andb_true_iff in H. destruct H as [H1 H2]. constructor; auto.
  apply dget_none. apply is_none_true. auto.
Qed.

Lemma oeq_true : forall a b, oeq a b = true -> a = b.
Proof. intros [x|] [y|]; simpl; intros H; try discriminate; auto. apply Nat.eqb_eq in H. congruence. Qed.

Lemma dict_ok_sound : forall c d f, dict_ok_b c d f = true ->
  NoDup (map fst d) /\ forall s n, In (s, n) d <-> (In n (nodes c) /\ is_fork (kind_of c n) = f /\ name_of c n = s).
Proof.
  intros c d f H. unfold dict_ok_b in H. rewrite !andb_true_iff in H. destruct H as [[H1 H2] H3].
  split. apply nodup_keys_sound; auto.
  rewrite forallb_forall in H2, H3. intros s n. split.
  - intros Hin. specialize (H2 _ Hin). simpl in H2. rewrite !andb_true_iff in H2. destruct H2 as [[A B] C].
    apply mem_In in A. apply Bool.eqb_prop in B. apply String.eqb_eq in C. auto.
  - intros [A [B C]]. specialize (H3 n A). rewrite B in H3. rewrite Bool.eqb_reflx in H3.
    apply existsb_exists in H3. destruct H3 as [[s' n'] [Hin E]]. simpl in E.
    apply andb_true_iff in E. destruct E as [E1 E2]. apply String.eqb_eq in E1. apply Nat.eqb_eq in E2. subst. auto.
Qed.

Theorem cinv_b_sound : forall c, cinv_b c = true -> CInv c.
Proof.
  intros c H. unfold cinv_b in H. rewrite !andb_true_iff in H.
  destruct H as [[[[[[Hn Hl] Hf] Hc] Hlo] Hpo] Hdo].
  destruct (dict_ok_sound c (forks c) true Hf) as [F1 F2].
  destruct (dict_ok_sound c (cells c) false Hc) as [C1 C2].
  rewrite forallb_forall in Hlo, Hpo, Hdo.
  assert (HN : forall i n, nth_error (nodes c) i = Some n -> n < nnext c /\ n_alive (nst c n) = true /\ n_index (nst c n) = i).
  { intros i n Hi. pose proof (forallb_i_spec _ _ 0 Hn i n Hi) as E. simpl in E.
    rewrite !andb_true_iff in E. destruct E as [[A B] C]. apply Nat.ltb_lt in A. apply Nat.eqb_eq in C. auto. }
  assert (HL : forall i l, nth_error (lines c) i = Some l -> l < lnext c /\ l_alive (lst c l) = true /\ l_index (lst c l) = i).
  { intros i l Hi. pose proof (forallb_i_spec _ _ 0 Hl i l Hi) as E. simpl in E.
    rewrite !andb_true_iff in E. destruct E as [[A B] C]. apply Nat.ltb_lt in A. apply Nat.eqb_eq in C. auto. }
  split.
  - constructor.
    + intros n [Hin|[]]. apply In_nth_error in Hin. destruct Hin as [i Hi]. apply (HN i n Hi).
    + intros l Hin. apply In_nth_error in Hin. destruct Hin as [i Hi]. apply (HL i l Hi).
    + intros i n Hi. apply (HN i n Hi).
    + intros i l Hi. apply (HL i l Hi).
    + intros x [].
    + exact F1.
    + exact F2.
    + exact C1.
    + exact C2.
    + intros l Hin. specialize (Hlo l Hin). unfold line_ok_b in Hlo.
      destruct (l_drv (lst c l)) as [d|]; [|discriminate]. destruct (l_rdr (lst c l)) as [r|]; [|discriminate].
      rewrite !andb_true_iff in Hlo. destruct Hlo as [[[A B] C] D].
      apply mem_In in A. apply mem_In in B. apply oeq_true in C. apply oeq_true in D.
      exists d, r. repeat split; auto; left; auto.
    + intros n p l [Hin|[]] Ho. specialize (Hpo n Hin). unfold pins_ok_b in Hpo. apply andb_true_iff in Hpo. destruct Hpo as [Hpo _].
      assert (Hp : nth_error (outs_of c n) p = Some (Some l)).
      { unfold out_at in Ho. rewrite <- Ho. apply nth_error_nth'. eapply nth_some_lt; eauto. }
      pose proof (forallb_i_spec _ _ 0 Hpo p (Some l) Hp) as E. simpl in E.
      rewrite !andb_true_iff in E. destruct E as [[A B] C].
      apply mem_In in A. apply oeq_true in B. apply Nat.eqb_eq in C. auto.
    + intros n p l [Hin|[]] Ho. specialize (Hpo n Hin). unfold pins_ok_b in Hpo. apply andb_true_iff in Hpo. destruct Hpo as [_ Hpo].
      assert (Hp : nth_error (ins_of c n) p = Some (Some l)).
      { unfold in_at in Ho. rewrite <- Ho. apply nth_error_nth'. eapply nth_some_lt; eauto. }
      pose proof (forallb_i_spec _ _ 0 Hpo p (Some l) Hp) as E. simpl in E.
      rewrite !andb_true_iff in E. destruct E as [[A B] C].
      apply mem_In in A. apply oeq_true in B. apply Nat.eqb_eq in C. auto.
  - intros n [Hin|[]] Hfk p Hp. specialize (Hdo n Hin). unfold fork_dense_b in Hdo. rewrite Hfk in Hdo.
    rewrite forallb_forall in Hdo. unfold out_at. intros E.
    assert (Hx : In (nth p (outs_of c n) None) (outs_of c n)) by (apply nth_In; auto).
    specialize (Hdo _ Hx). rewrite E in Hdo. discriminate.
Qed.
