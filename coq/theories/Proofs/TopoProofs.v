(** Graph-traversal proofs for Model/Netlist.v: Kahn topological order (T1-T4), reversed order as
    mirror image (T5), line order (T6), levels (T7). *)
From Coq Require Import List Arith Bool Lia Permutation.
From KV Require Import Model.Prims Model.Netlist Model.NetlistWf.
Import ListNotations.
Local Open Scope list_scope.

(* ------------------------------------------------------------------ *)
(** * Small list lemmas *)

Lemma connected_somes {A} (l : list (option A)) : connected l = length (somes l).
Proof.
  unfold connected, somes. induction l as [|[x|] r IH]; simpl; auto.
Qed.

Lemma in_somes {A} (l : list (option A)) x :
  In x (somes l) <-> exists k, nth_error l k = Some (Some x).
Proof.
  induction l as [|a r IH].
  - simpl. split; [tauto|]. intros [k H]. destruct k; discriminate.
  - split.
    + intros H. unfold somes in H. simpl in H. apply in_app_or in H. destruct H as [H|H].
      * destruct a as [y|]; simpl in H; [|tauto]. destruct H as [H|[]]. subst. exists 0. reflexivity.
      * apply IH in H. destruct H as [k H]. exists (S k). exact H.
    + intros [k H]. unfold somes. simpl. apply in_or_app. destruct k as [|k].
      * simpl in H. inversion H. subst. left. simpl. auto.
      * right. apply IH. exists k. exact H.
Qed.

Lemma NoDup_somes {A} (l : list (option A)) :
  (forall k1 k2 x, nth_error l k1 = Some (Some x) -> nth_error l k2 = Some (Some x) -> k1 = k2) ->
  NoDup (somes l).
Proof.
  induction l as [|a r IH]; intros H.
  - constructor.
  - assert (Hr : NoDup (somes r)).
    { apply IH. intros k1 k2 x H1 H2. specialize (H (S k1) (S k2) x H1 H2). lia. }
    destruct a as [y|].
    + change (somes (Some y :: r)) with (y :: somes r). constructor; [|exact Hr].
      intros Hin. apply in_somes in Hin. destruct Hin as [k Hk].
      specialize (H 0 (S k) y eq_refl Hk). discriminate.
    + exact Hr.
Qed.

Lemma incr_length l i : length (incr l i) = length l.
Proof. revert i. induction l as [|x r IH]; intros [|i]; simpl; auto. Qed.

Lemma nth_incr l : forall i m, i < length l ->
  nth m (incr l i) 0 = nth m l 0 + (if Nat.eqb m i then 1 else 0).
Proof.
  induction l as [|x r IH]; intros i m Hi; simpl in Hi; [lia|].
  destruct i as [|i], m as [|m]; simpl; try lia.
  apply IH. lia.
Qed.

Lemma set_nat_length l : forall i v, length (set_nat l i v) = length l.
Proof. induction l as [|x r IH]; intros [|i] v; simpl; auto. Qed.

Lemma nth_set_nat_eq l : forall i v, i < length l -> nth i (set_nat l i v) 0 = v.
Proof.
  induction l as [|x r IH]; intros [|i] v Hi; simpl in *; try lia. apply IH. lia.
Qed.

Lemma nth_set_nat_neq l : forall i m v, m <> i -> nth m (set_nat l i v) 0 = nth m l 0.
Proof.
  induction l as [|x r IH]; intros [|i] [|m] v Hm; simpl; try lia; auto.
Qed.

Lemma in_find_idx {A} (f : A -> bool) (d : A) l : forall i k,
  In k (find_idx f l i) <-> exists j, k = i + j /\ j < length l /\ f (nth j l d) = true.
Proof.
  induction l as [|x r IH]; intros i k.
  - simpl. split; [tauto|]. intros (j & _ & H & _). lia.
  - simpl. destruct (f x) eqn:Efx.
    + split.
      * intros [H|H].
        -- exists 0. subst. repeat split; [lia|lia|exact Efx].
        -- apply IH in H. destruct H as (j & -> & Hj & Hf). exists (S j). repeat split; [lia|lia|exact Hf].
      * intros (j & -> & Hj & Hf). destruct j as [|j].
        -- left. lia.
        -- right. apply IH. exists j. repeat split; [lia|lia|exact Hf].
    + split.
      * intros H. apply IH in H. destruct H as (j & -> & Hj & Hf). exists (S j). repeat split; [lia|lia|exact Hf].
      * intros (j & -> & Hj & Hf). destruct j as [|j].
        -- congruence.
        -- apply IH. exists j. repeat split; [lia|lia|exact Hf].
Qed.

Lemma NoDup_find_idx {A} (f : A -> bool) l : forall i, NoDup (find_idx f l i).
Proof.
  induction l as [|x r IH]; intros i; simpl.
  - constructor.
  - destruct (f x); [|apply IH]. constructor; [|apply IH].
    intros H. apply (in_find_idx f x) in H. destruct H as (j & H & _). lia.
Qed.

Lemma find_idx_map {A B} (f : B -> bool) (g : A -> B) l : forall i,
  find_idx f (map g l) i = find_idx (fun x => f (g x)) l i.
Proof.
  induction l as [|x r IH]; intros i; simpl; [reflexivity|]. rewrite IH. reflexivity.
Qed.

Lemma flen_le {A} (p : A -> bool) l : length (filter p l) <= length l.
Proof. induction l as [|x r IH]; simpl; [lia|]. destruct (p x); simpl; lia. Qed.

Lemma flen_or {A} (p q : A -> bool) l :
  (forall x, In x l -> p x = true -> q x = true -> False) ->
  length (filter (fun x => p x || q x) l) = length (filter p l) + length (filter q l).
Proof.
  induction l as [|x r IH]; intros H; simpl; [reflexivity|].
  assert (IH' := IH (fun y Hy => H y (or_intror Hy))).
  destruct (p x) eqn:Ep, (q x) eqn:Eq; simpl; try lia.
  exfalso. apply (H x); auto. left. reflexivity.
Qed.

Lemma flen_all {A} (p : A -> bool) l :
  length (filter p l) = length l <-> forall x, In x l -> p x = true.
Proof.
  induction l as [|x r IH]; simpl.
  - split; [tauto|reflexivity].
  - destruct (p x) eqn:Ep; simpl.
    + split.
      * intros H y [->|Hy]; [exact Ep|]. apply IH; [lia|exact Hy].
      * intros H. f_equal. apply IH. intros y Hy. apply H. right. exact Hy.
    + split.
      * intros H. pose proof (flen_le p r). lia.
      * intros H. specialize (H x (or_introl eq_refl)). congruence.
Qed.

Lemma count_cons s ss m :
  count_occ Nat.eq_dec (s :: ss) m = (if Nat.eqb m s then 1 else 0) + count_occ Nat.eq_dec ss m.
Proof.
  simpl. destruct (Nat.eq_dec s m) as [E|E]; destruct (Nat.eqb m s) eqn:E'; try lia.
  - apply Nat.eqb_neq in E'. congruence.
  - apply Nat.eqb_eq in E'. congruence.
Qed.

Lemma count_map_filter {A} (f : A -> nat) l m :
  count_occ Nat.eq_dec (map f l) m = length (filter (fun x => Nat.eqb (f x) m) l).
Proof.
  induction l as [|x r IH]; [reflexivity|].
  change (map f (x :: r)) with (f x :: map f r). rewrite count_cons. simpl.
  rewrite (Nat.eqb_sym m (f x)). destruct (Nat.eqb (f x) m); simpl; lia.
Qed.

Definition memb (x : nat) (l : list nat) : bool := existsb (Nat.eqb x) l.
Lemma memb_In x l : memb x l = true <-> In x l.
Proof.
  unfold memb. rewrite existsb_exists. split.
  - intros (y & Hy & E). apply Nat.eqb_eq in E. subst. exact Hy.
  - intros H. exists x. split; [exact H|apply Nat.eqb_refl].
Qed.

Lemma NoDup_bounded_length l N : NoDup l -> (forall x, In x l -> x < N) -> length l <= N.
Proof.
  intros Hnd Hb. rewrite <- (seq_length N 0). apply NoDup_incl_length; [exact Hnd|].
  intros x Hx. apply in_seq. specialize (Hb x Hx). lia.
Qed.

Lemma Forall2_map_same {A B C} (R : B -> C -> Prop) (f : A -> B) (g : A -> C) l :
  (forall x, In x l -> R (f x) (g x)) -> Forall2 R (map f l) (map g l).
Proof.
  induction l as [|x r IH]; intros H; simpl; constructor.
  - apply H. left. reflexivity.
  - apply IH. intros y Hy. apply H. right. exact Hy.
Qed.

Lemma Forall2_mono {A B} (R R' : A -> B -> Prop) l1 l2 :
  (forall a b, R a b -> R' a b) -> Forall2 R l1 l2 -> Forall2 R' l1 l2.
Proof. intros H F. induction F; constructor; auto. Qed.

Lemma index_of_In x l : In x l -> exists j, index_of x l = Some j /\ j < length l.
Proof.
  induction l as [|y r IH]; intros H; [destruct H|].
  simpl. destruct (Nat.eqb x y) eqn:E.
  - exists 0. split; [reflexivity|lia].
  - destruct H as [H|H]; [subst; rewrite Nat.eqb_refl in E; discriminate|].
    destruct (IH H) as (j & Hj & Hl). exists (S j). rewrite Hj. split; [reflexivity|lia].
Qed.

Lemma index_of_Some_In x l i : index_of x l = Some i -> In x l.
Proof.
  revert i. induction l as [|y r IH]; intros i H; [discriminate|].
  simpl in H. destruct (Nat.eqb x y) eqn:E.
  - apply Nat.eqb_eq in E. left. auto.
  - destruct (index_of x r) eqn:E2; [|discriminate]. right. eapply IH. reflexivity.
Qed.

Lemma index_of_app_l x l r : In x l -> index_of x (l ++ r) = index_of x l.
Proof.
  induction l as [|y l' IH]; intros H; [destruct H|].
  simpl. destruct (Nat.eqb x y) eqn:E; [reflexivity|].
  destruct H as [H|H]; [subst; rewrite Nat.eqb_refl in E; discriminate|].
  rewrite IH by exact H. reflexivity.
Qed.

Lemma index_of_app_r x l r : ~ In x l -> index_of x (l ++ r) = option_map (fun j => length l + j) (index_of x r).
Proof.
  induction l as [|y l' IH]; intros H.
  - simpl. destruct (index_of x r); reflexivity.
  - simpl. destruct (Nat.eqb x y) eqn:E.
    + apply Nat.eqb_eq in E. exfalso. apply H. left. auto.
    + rewrite IH. 2:{ intros Hx. apply H. right. exact Hx. }
      destruct (index_of x r); reflexivity.
Qed.

Lemma NoDup_app_intro {A} (l1 l2 : list A) :
  NoDup l1 -> NoDup l2 -> (forall x, In x l1 -> ~ In x l2) -> NoDup (l1 ++ l2).
Proof.
  induction l1 as [|a l1 IH]; intros H1 H2 H; simpl; [exact H2|].
  inversion H1; subst. constructor.
  - intros Hin. apply in_app_or in Hin. destruct Hin as [Hin|Hin]; [contradiction|].
    apply (H a); [left; reflexivity|exact Hin].
  - apply IH; auto. intros x Hx. apply H. right. exact Hx.
Qed.

(* ------------------------------------------------------------------ *)
(** * The inner fold, abstracted to successor nodes *)

Definition visit_node (c : netlist) (st : list nat * list nat) (succ : nat) : list nat * list nat :=
  let '(visit, queue) := st in
  let visit' := incr visit succ in
  let sn := get_node c succ in
  if Nat.eqb (nth succ visit' 0) (connected (n_ins sn)) && negb (is_seq sn)
  then (visit', queue ++ [succ]) else (visit', queue).

Lemma fold_visit_succ c ls : forall st,
  fold_left (visit_succ c) ls st =
  fold_left (visit_node c) (map (fun l => l_rdr (get_line c l)) ls) st.
Proof.
  induction ls as [|l ls IH]; intros st; [reflexivity|].
  simpl. rewrite <- IH. destruct st as [v q]. reflexivity.
Qed.

Lemma fold_visit_node c N : forall ss visit q,
  length visit = N -> (forall s, In s ss -> s < N) ->
  (forall m, m < N -> nth m visit 0 + count_occ Nat.eq_dec ss m <= connected (n_ins (get_node c m))) ->
  exists visit' added,
    fold_left (visit_node c) ss (visit, q) = (visit', q ++ added) /\
    length visit' = N /\
    (forall m, m < N -> nth m visit' 0 = nth m visit 0 + count_occ Nat.eq_dec ss m) /\
    NoDup added /\
    (forall m, In m added <->
       (m < N /\ is_seq (get_node c m) = false /\ count_occ Nat.eq_dec ss m > 0 /\
        nth m visit' 0 = connected (n_ins (get_node c m)))).
Proof.
  induction ss as [|s ss IH]; intros visit q Hlen Hss Hle.
  - exists visit, []. simpl. rewrite app_nil_r. split; [reflexivity|]. split; [exact Hlen|].
    split; [intros; lia|]. split; [constructor|]. intros m. split; [tauto|].
    intros (_ & _ & H0 & _). lia.
  - assert (Hs : s < N) by (apply Hss; left; reflexivity).
    set (v1 := incr visit s).
    assert (Hlen1 : length v1 = N) by (unfold v1; rewrite incr_length; exact Hlen).
    assert (Hv1 : forall m, nth m v1 0 = nth m visit 0 + (if Nat.eqb m s then 1 else 0)).
    { intros m. unfold v1. apply nth_incr. lia. }
    assert (Hss' : forall x, In x ss -> x < N) by (intros x Hx; apply Hss; right; exact Hx).
    assert (Hle1 : forall m, m < N ->
              nth m v1 0 + count_occ Nat.eq_dec ss m <= connected (n_ins (get_node c m))).
    { intros m Hm. specialize (Hle m Hm). rewrite count_cons in Hle. rewrite Hv1. lia. }
    change (fold_left (visit_node c) (s :: ss) (visit, q))
      with (fold_left (visit_node c) ss (visit_node c (visit, q) s)).
    assert (E : visit_node c (visit, q) s =
                if Nat.eqb (nth s v1 0) (connected (n_ins (get_node c s))) && negb (is_seq (get_node c s))
                then (v1, q ++ [s]) else (v1, q)) by reflexivity.
    rewrite E. clear E.
    destruct (Nat.eqb (nth s v1 0) (connected (n_ins (get_node c s))) && negb (is_seq (get_node c s))) eqn:Ec.
    + apply andb_true_iff in Ec. destruct Ec as [Ec1 Ec2]. apply Nat.eqb_eq in Ec1.
      apply negb_true_iff in Ec2.
      destruct (IH v1 (q ++ [s]) Hlen1 Hss' Hle1) as (visit' & added & Hf & Hl' & Hv' & Hnd & Hadd).
      assert (Hcs : count_occ Nat.eq_dec ss s = 0).
      { specialize (Hle1 s Hs). lia. }
      exists visit', (s :: added). split; [|split; [|split; [|split]]].
      * rewrite Hf. rewrite <- app_assoc. reflexivity.
      * exact Hl'.
      * intros m Hm. rewrite Hv' by exact Hm. rewrite Hv1, count_cons. lia.
      * constructor; [|exact Hnd]. intros Hin. apply Hadd in Hin. lia.
      * intros m. change (In m (s :: added)) with (s = m \/ In m added). rewrite Hadd. rewrite count_cons. split.
        -- intros [<-|(Hm & Hq & Hc & Hv)].
           ++ rewrite Nat.eqb_refl. repeat split; auto; [lia|]. rewrite Hv' by exact Hs. lia.
           ++ repeat split; auto. lia.
        -- intros (Hm & Hq & Hc & Hv). destruct (Nat.eq_dec s m) as [->|Hne]; [left; reflexivity|].
           right. repeat split; auto. apply Nat.eqb_neq in Hne. rewrite Nat.eqb_sym in Hne.
           rewrite Hne in Hc. lia.
    + destruct (IH v1 q Hlen1 Hss' Hle1) as (visit' & added & Hf & Hl' & Hv' & Hnd & Hadd).
      exists visit', added. split; [|split; [|split; [|split]]].
      * exact Hf.
      * exact Hl'.
      * intros m Hm. rewrite Hv' by exact Hm. rewrite Hv1, count_cons. lia.
      * exact Hnd.
      * intros m. rewrite Hadd. rewrite count_cons. split.
        -- intros (Hm & Hq & Hc & Hv). repeat split; auto. lia.
        -- intros (Hm & Hq & Hc & Hv). repeat split; auto.
           destruct (Nat.eqb m s) eqn:Ems; [|lia]. apply Nat.eqb_eq in Ems. subst m.
           destruct (Nat.eq_dec (count_occ Nat.eq_dec ss s) 0) as [Hz|Hz]; [|lia].
           exfalso. rewrite Hv' in Hv by exact Hs. rewrite Hz, Nat.add_0_r in Hv.
           rewrite Hv, Nat.eqb_refl, Hq in Ec. discriminate.
Qed.

(* ------------------------------------------------------------------ *)
(** * Consequences of well-formedness *)

Section WF.
Variable c : netlist.
Hypothesis WF : wf_netlist c.

Notation N := (length (c_nodes c)).
Notation L := (length (c_lines c)).
Notation drv l := (l_drv (get_line c l)).
Notation rdr l := (l_rdr (get_line c l)).
Notation conn m := (connected (n_ins (get_node c m))).

Lemma wf_drv_lt l : l < L -> drv l < N.
Proof. intros Hl. destruct WF as (W1 & _). pose proof (W1 l Hl) as H. cbv zeta in H. tauto. Qed.
Lemma wf_rdr_lt l : l < L -> rdr l < N.
Proof. intros Hl. destruct WF as (W1 & _). pose proof (W1 l Hl) as H. cbv zeta in H. tauto. Qed.

Lemma wf_in_outs n l : n < N -> (In l (somes (n_outs (get_node c n))) <-> l < L /\ drv l = n).
Proof.
  intros Hn. destruct WF as (W1 & W2 & W3). rewrite in_somes. split.
  - intros [k Hk]. destruct (W2 n k l Hn Hk) as (? & ? & ?). auto.
  - intros [Hl E]. pose proof (W1 l Hl) as H. cbv zeta in H. destruct H as (_ & _ & H & _).
    subst n. eexists. exact H.
Qed.

Lemma wf_in_ins n l : n < N -> (In l (somes (n_ins (get_node c n))) <-> l < L /\ rdr l = n).
Proof.
  intros Hn. destruct WF as (W1 & W2 & W3). rewrite in_somes. split.
  - intros [k Hk]. destruct (W3 n k l Hn Hk) as (? & ? & ?). auto.
  - intros [Hl E]. pose proof (W1 l Hl) as H. cbv zeta in H. destruct H as (_ & _ & _ & H).
    subst n. eexists. exact H.
Qed.

Lemma NoDup_outs n : n < N -> NoDup (somes (n_outs (get_node c n))).
Proof.
  intros Hn. destruct WF as (W1 & W2 & W3). apply NoDup_somes. intros k1 k2 x H1 H2.
  destruct (W2 n k1 x Hn H1) as (_ & _ & E1). destruct (W2 n k2 x Hn H2) as (_ & _ & E2). congruence.
Qed.

Lemma NoDup_ins n : n < N -> NoDup (somes (n_ins (get_node c n))).
Proof.
  intros Hn. destruct WF as (W1 & W2 & W3). apply NoDup_somes. intros k1 k2 x H1 H2.
  destruct (W3 n k1 x Hn H1) as (_ & _ & E1). destruct (W3 n k2 x Hn H2) as (_ & _ & E2). congruence.
Qed.

Lemma cross_count n m : n < N -> m < N ->
  length (filter (fun l => Nat.eqb (drv l) n) (somes (n_ins (get_node c m)))) =
  count_occ Nat.eq_dec (map (fun l => rdr l) (somes (n_outs (get_node c n)))) m.
Proof.
  intros Hn Hm. rewrite count_map_filter. apply Permutation_length. apply NoDup_Permutation.
  - apply NoDup_filter. apply NoDup_ins. exact Hm.
  - apply NoDup_filter. apply NoDup_outs. exact Hn.
  - intros l. rewrite !filter_In. rewrite (wf_in_ins m l Hm), (wf_in_outs n l Hn), !Nat.eqb_eq. tauto.
Qed.

Definition pcount (acc : list nat) (m : nat) : nat :=
  length (filter (fun l => memb (drv l) acc) (somes (n_ins (get_node c m)))).

Lemma pcount_le acc m : pcount acc m <= conn m.
Proof. unfold pcount. rewrite connected_somes. apply flen_le. Qed.

Lemma pcount_cons n acc m : n < N -> m < N -> ~ In n acc ->
  pcount (n :: acc) m =
  pcount acc m + count_occ Nat.eq_dec (map (fun l => rdr l) (somes (n_outs (get_node c n)))) m.
Proof.
  intros Hn Hm Hni. rewrite <- (cross_count n m Hn Hm). unfold pcount. rewrite Nat.add_comm.
  change (fun l => memb (drv l) (n :: acc)) with (fun l => Nat.eqb (drv l) n || memb (drv l) acc).
  apply (flen_or (fun l => Nat.eqb (drv l) n) (fun l => memb (drv l) acc)).
  intros l _ H1 H2. apply Nat.eqb_eq in H1. apply memb_In in H2. congruence.
Qed.

Lemma pcount_full acc m :
  pcount acc m = conn m <-> forall l, In l (somes (n_ins (get_node c m))) -> In (drv l) acc.
Proof.
  unfold pcount. rewrite connected_somes, flen_all. split; intros H l Hl.
  - apply memb_In. apply H. exact Hl.
  - apply memb_In. apply H. exact Hl.
Qed.

Lemma in_topo_init m : In m (topo_init c) <-> m < N /\ is_source c m = true.
Proof.
  unfold topo_init. rewrite (in_find_idx _ dnode). unfold is_source, get_node. split.
  - intros (j & -> & Hj & Hf). simpl. auto.
  - intros [Hm Hf]. exists m. auto.
Qed.

Lemma source_not_seq m : is_source c m = false -> is_seq (get_node c m) = false /\ conn m <> 0.
Proof.
  unfold is_source. intros H. apply orb_false_iff in H. destruct H as [H1 H2].
  apply Nat.eqb_neq in H1. auto.
Qed.

(** processed nodes, newest first: each non-source node has all its drivers processed earlier *)
Fixpoint Ordered (acc : list nat) : Prop :=
  match acc with
  | [] => True
  | n :: a => (is_source c n = false -> forall d, In d (drivers c n) -> In d a) /\ Ordered a
  end.

Record Inv (visit queue acc : list nat) : Prop := {
  I_len : length visit = N;
  I_nd : NoDup (acc ++ queue);
  I_lt : forall n, In n (acc ++ queue) -> n < N;
  I_vis : forall m, m < N -> nth m visit 0 = pcount acc m;
  I_src : forall m, m < N -> is_source c m = true -> In m (acc ++ queue);
  I_ns : forall m, m < N -> is_source c m = false -> (In m (acc ++ queue) <-> pcount acc m = conn m);
  I_ord : Ordered acc }.

Lemma inv_step visit n q acc : Inv visit (n :: q) acc ->
  exists visit' added,
    fold_left (visit_succ c) (somes (n_outs (get_node c n))) (visit, q) = (visit', q ++ added) /\
    Inv visit' (q ++ added) (n :: acc).
Proof.
  intros [Hlen Hnd Hlt Hvis Hsrc Hns Hord].
  assert (Hn : n < N) by (apply Hlt; apply in_or_app; right; left; reflexivity).
  assert (Hnacc : ~ In n acc).
  { apply NoDup_remove_2 in Hnd. intros H; apply Hnd; apply in_or_app; left; exact H. }
  set (ss := map (fun l => rdr l) (somes (n_outs (get_node c n)))).
  assert (Hss : forall s, In s ss -> s < N).
  { intros s Hs. apply in_map_iff in Hs. destruct Hs as (l & <- & Hl).
    apply wf_in_outs in Hl; [|exact Hn]. apply wf_rdr_lt. tauto. }
  assert (Hpc : forall m, m < N -> pcount (n :: acc) m = pcount acc m + count_occ Nat.eq_dec ss m).
  { intros m Hm. apply pcount_cons; auto. }
  destruct (fold_visit_node c N ss visit q Hlen Hss) as (visit' & added & Hfold & Hlen' & Hvis' & Hndadd & Hadd).
  { intros m Hm. rewrite Hvis by exact Hm. rewrite <- Hpc by exact Hm. apply pcount_le. }
  exists visit', added. split. { rewrite fold_visit_succ. exact Hfold. }
  assert (Hvis2 : forall m, m < N -> nth m visit' 0 = pcount (n :: acc) m).
  { intros m Hm. rewrite Hvis', Hvis, Hpc; auto. }
  assert (Hmem : forall m, In m ((n :: acc) ++ q ++ added) <-> In m (acc ++ n :: q) \/ In m added).
  { intros m. simpl. rewrite !in_app_iff. simpl. tauto. }
  assert (Hnew : forall m, In m added -> ~ In m (acc ++ n :: q)).
  { intros m Hm Hold. apply Hadd in Hm. destruct Hm as (HmN & Hq & Hc & Hv).
    assert (Hsrc' : is_source c m = false).
    { unfold is_source. rewrite Hq, orb_false_r. apply Nat.eqb_neq.
      pose proof (pcount_le (n :: acc) m). rewrite Hpc in H by exact HmN. lia. }
    apply (Hns m HmN Hsrc') in Hold. pose proof (pcount_le (n :: acc) m).
    rewrite Hpc in H by exact HmN. lia. }
  constructor.
  - exact Hlen'.
  - replace ((n :: acc) ++ q ++ added) with ((n :: acc ++ q) ++ added)
      by (simpl; rewrite app_assoc; reflexivity).
    apply NoDup_app_intro.
    + eapply Permutation_NoDup; [|exact Hnd]. apply Permutation_sym, Permutation_middle.
    + exact Hndadd.
    + intros x Hx Hx2. apply (Hnew x Hx2). simpl in Hx. rewrite in_app_iff in *. simpl. tauto.
  - intros m Hm. apply Hmem in Hm. destruct Hm as [Hm|Hm]; [apply Hlt; exact Hm|].
    apply Hadd in Hm. tauto.
  - exact Hvis2.
  - intros m Hm Hs. apply Hmem. left. apply Hsrc; assumption.
  - intros m Hm Hs. rewrite Hmem. split.
    + intros [Ho|Ha].
      * apply (Hns m Hm Hs) in Ho. pose proof (pcount_le (n :: acc) m).
        rewrite Hpc in * by exact Hm. lia.
      * apply Hadd in Ha. destruct Ha as (_ & _ & _ & Hv). rewrite <- Hvis2 by exact Hm. exact Hv.
    + intros Hfull. destruct (Nat.eq_dec (count_occ Nat.eq_dec ss m) 0) as [Hz|Hz].
      * left. apply (Hns m Hm Hs). rewrite Hpc in Hfull by exact Hm. lia.
      * right. apply Hadd. destruct (source_not_seq m Hs) as [Hq _].
        repeat split; auto; [lia|]. rewrite Hvis2 by exact Hm. exact Hfull.
  - simpl. split; [|exact Hord]. intros Hs d Hd.
    assert (Hin : In n (acc ++ n :: q)) by (apply in_or_app; right; left; reflexivity).
    apply (Hns n Hn Hs) in Hin. rewrite pcount_full in Hin.
    unfold drivers in Hd. apply in_map_iff in Hd. destruct Hd as (l & <- & Hl). apply Hin. exact Hl.
Qed.

Lemma loop_inv : forall fuel visit queue acc,
  Inv visit queue acc -> fuel + length acc >= N + 1 ->
  exists visit' acc' rest,
    topo_loop fuel c visit queue acc = rev acc' /\ Inv visit' [] acc' /\
    rev acc' = rev acc ++ queue ++ rest.
Proof.
  induction fuel as [|fuel IH]; intros visit queue acc I Hf.
  - exfalso. assert (H : length (acc ++ queue) <= N).
    { apply NoDup_bounded_length; [apply (I_nd _ _ _ I)|apply (I_lt _ _ _ I)]. }
    rewrite app_length in H. lia.
  - destruct queue as [|n q].
    + exists visit, acc, []. simpl. rewrite app_nil_r. auto.
    + destruct (inv_step visit n q acc I) as (visit' & added & Hfold & I').
      change (topo_loop (S fuel) c visit (n :: q) acc)
        with (let '(visit', q') := fold_left (visit_succ c) (somes (n_outs (get_node c n))) (visit, q) in
              topo_loop fuel c visit' q' (n :: acc)).
      rewrite Hfold.
      destruct (IH visit' (q ++ added) (n :: acc) I') as (v2 & acc2 & rest & E1 & I2 & E2).
      { simpl. lia. }
      exists v2, acc2, (added ++ rest). split; [exact E1|]. split; [exact I2|].
      rewrite E2. simpl. rewrite <- !app_assoc. reflexivity.
Qed.

Lemma inv_init : Inv (map (fun _ => 0) (c_nodes c)) (topo_init c) [].
Proof.
  constructor.
  - apply map_length.
  - simpl. apply NoDup_find_idx.
  - simpl. intros n Hn. apply in_topo_init in Hn. tauto.
  - intros m Hm. unfold pcount. simpl.
    assert (E : forall l0 : list nat, filter (fun _ : nat => false) l0 = []) by (induction l0; auto).
    rewrite E. simpl.
    clear. generalize (c_nodes c). intros l0. revert m. induction l0; intros [|m]; simpl; auto.
  - simpl. intros m Hm Hs. apply in_topo_init. auto.
  - simpl. intros m Hm Hs. split.
    + intros H. apply in_topo_init in H. destruct H as [_ H]. congruence.
    + intros H. exfalso. destruct (source_not_seq m Hs) as [_ Hc]. apply Hc. rewrite <- H.
      unfold pcount. simpl.
      assert (E : forall l0 : list nat, filter (fun _ : nat => false) l0 = []) by (induction l0; auto).
      rewrite E. reflexivity.
  - exact I.
Qed.

Lemma topo_final :
  exists visit acc rest, topo_order c = rev acc /\ Inv visit [] acc /\ rev acc = topo_init c ++ rest.
Proof.
  unfold topo_order.
  destruct (loop_inv (S N) _ _ _ inv_init) as (v & acc & rest & E & I & E2).
  { simpl. lia. }
  exists v, acc, rest. auto.
Qed.

End WF.

(* ------------------------------------------------------------------ *)
(** * T1 - T4 *)

Theorem topo_nodup c : wf_netlist c ->
  NoDup (topo_order c) /\ forall n, In n (topo_order c) -> n < length (c_nodes c).
Proof.
  intros WF. destruct (topo_final c WF) as (v & acc & rest & E & I & E2). rewrite E.
  pose proof (I_nd c _ _ _ I) as Hnd. pose proof (I_lt c _ _ _ I) as Hlt. rewrite app_nil_r in *.
  split.
  - eapply Permutation_NoDup; [apply Permutation_rev|exact Hnd].
  - intros n Hn. apply in_rev in Hn. apply Hlt. exact Hn.
Qed.

Theorem topo_sources_first c : wf_netlist c -> exists rest, topo_order c = topo_init c ++ rest.
Proof.
  intros WF. destruct (topo_final c WF) as (v & acc & rest & E & I & E2).
  exists rest. rewrite E. exact E2.
Qed.

Lemma ordered_index c acc : Ordered c acc -> NoDup acc ->
  forall n i, index_of n (rev acc) = Some i -> is_source c n = false ->
  forall d, In d (drivers c n) -> exists j, index_of d (rev acc) = Some j /\ j < i.
Proof.
  induction acc as [|a acc IH]; intros Ho Hnd n i Hi Hs d Hd.
  - discriminate.
  - simpl in Ho. destruct Ho as [Ha Ho]. inversion Hnd as [|? ? Hna Hnd']; subst.
    change (rev (a :: acc)) with (rev acc ++ [a]) in *.
    destruct (in_dec Nat.eq_dec n (rev acc)) as [Hin|Hnin].
    + rewrite index_of_app_l in Hi by exact Hin.
      destruct (IH Ho Hnd' n i Hi Hs d Hd) as (j & Hj & Hlt). exists j. split; [|exact Hlt].
      rewrite index_of_app_l; [exact Hj|]. eapply index_of_Some_In; eauto.
    + rewrite index_of_app_r in Hi by exact Hnin. simpl in Hi.
      destruct (Nat.eqb n a) eqn:En; [|discriminate]. apply Nat.eqb_eq in En. subst a.
      simpl in Hi. inversion Hi; subst i.
      assert (Hdin : In d (rev acc)) by (apply in_rev; rewrite rev_involutive; apply Ha; auto).
      destruct (index_of_In d (rev acc) Hdin) as (j & Hj & Hl). exists j.
      rewrite index_of_app_l by exact Hdin. split; [exact Hj|lia].
Qed.

Theorem topo_drivers_first c : wf_netlist c -> forall n i, index_of n (topo_order c) = Some i ->
  is_source c n = false -> forall d, In d (drivers c n) ->
  exists j, index_of d (topo_order c) = Some j /\ j < i.
Proof.
  intros WF. destruct (topo_final c WF) as (v & acc & rest & E & I & E2). rewrite E.
  pose proof (I_nd c _ _ _ I) as Hnd. rewrite app_nil_r in Hnd.
  apply ordered_index; [apply (I_ord c _ _ _ I)|exact Hnd].
Qed.

Lemma all_popped c visit acc : wf_netlist c -> Inv c visit [] acc -> comb_acyclic c ->
  forall n, n < length (c_nodes c) -> In n acc.
Proof.
  intros WF I [rank Hr].
  assert (H : forall k n, rank n < k -> n < length (c_nodes c) -> In n acc).
  { induction k as [|k IHk]; intros n Hk Hn; [lia|].
    destruct (is_source c n) eqn:Hs.
    - pose proof (I_src c _ _ _ I n Hn Hs) as H. rewrite app_nil_r in H. exact H.
    - pose proof (I_ns c _ _ _ I n Hn Hs) as H. rewrite app_nil_r in H. apply H.
      apply pcount_full. intros l Hl. apply (wf_in_ins c WF n l Hn) in Hl. destruct Hl as [Hl El].
      apply IHk; [|apply (wf_drv_lt c WF); exact Hl].
      specialize (Hr l Hl). rewrite El in Hr.
      specialize (Hr (proj1 (source_not_seq c n Hs))). lia. }
  intros n Hn. apply (H (S (rank n))); [lia|exact Hn].
Qed.

Theorem topo_complete c : wf_netlist c -> comb_acyclic c ->
  Permutation (topo_order c) (seq 0 (length (c_nodes c))).
Proof.
  intros WF AC. destruct (topo_nodup c WF) as [Hnd Hlt].
  apply NoDup_Permutation; [exact Hnd|apply seq_NoDup|].
  intros n. rewrite in_seq. split.
  - intros H. specialize (Hlt n H). lia.
  - intros [_ H]. destruct (topo_final c WF) as (v & acc & rest & E & I & E2). rewrite E.
    apply in_rev. rewrite rev_involutive. apply (all_popped c v acc WF I AC). exact H.
Qed.

(* ------------------------------------------------------------------ *)
(** * T5: the reversed traversal is the traversal of the reversed graph *)

Lemma get_node_rev c n : get_node (rev_netlist c) n = rev_node (get_node c n).
Proof. unfold get_node. simpl. apply (map_nth rev_node (c_nodes c) dnode n). Qed.

Lemma get_line_rev c l : get_line (rev_netlist c) l = rev_line (get_line c l).
Proof. unfold get_line. simpl. apply (map_nth rev_line (c_lines c) dline l). Qed.

Lemma rev_nodes_length c : length (c_nodes (rev_netlist c)) = length (c_nodes c).
Proof. simpl. apply map_length. Qed.
Lemma rev_lines_length c : length (c_lines (rev_netlist c)) = length (c_lines c).
Proof. simpl. apply map_length. Qed.

Lemma visit_pred_rev c st l : visit_pred c st l = visit_succ (rev_netlist c) st l.
Proof.
  destruct st as [v q]. unfold visit_pred, visit_succ. rewrite get_line_rev, get_node_rev. reflexivity.
Qed.

Lemma fold_left_ext2 {A B} (f g : A -> B -> A) : (forall a b, f a b = g a b) ->
  forall l a, fold_left f l a = fold_left g l a.
Proof. intros H. induction l as [|x l IH]; intros a; simpl; [reflexivity|]. rewrite H. apply IH. Qed.

Lemma rtopo_loop_rev c : forall fuel visit queue acc,
  rtopo_loop fuel c visit queue acc = topo_loop fuel (rev_netlist c) visit queue acc.
Proof.
  induction fuel as [|fuel IH]; intros visit queue acc; [reflexivity|].
  destruct queue as [|n q]; [reflexivity|].
  change (rtopo_loop (S fuel) c visit (n :: q) acc)
    with (let '(visit', q') := fold_left (visit_pred c) (somes (n_ins (get_node c n))) (visit, q) in
          rtopo_loop fuel c visit' q' (n :: acc)).
  change (topo_loop (S fuel) (rev_netlist c) visit (n :: q) acc)
    with (let '(visit', q') := fold_left (visit_succ (rev_netlist c))
                                 (somes (n_outs (get_node (rev_netlist c) n))) (visit, q) in
          topo_loop fuel (rev_netlist c) visit' q' (n :: acc)).
  rewrite get_node_rev. change (n_outs (rev_node (get_node c n))) with (n_ins (get_node c n)).
  rewrite (fold_left_ext2 _ _ (visit_pred_rev c)).
  destruct (fold_left (visit_succ (rev_netlist c)) (somes (n_ins (get_node c n))) (visit, q)) as [v' q'].
  apply IH.
Qed.

Theorem rtopo_is_mirror c : rtopo_order c = topo_order (rev_netlist c).
Proof.
  unfold rtopo_order, topo_order. rewrite rtopo_loop_rev. rewrite rev_nodes_length.
  f_equal.
  - simpl. rewrite map_map. reflexivity.
  - unfold rtopo_init, topo_init. simpl. rewrite find_idx_map. reflexivity.
Qed.

Theorem rev_wf c : wf_netlist c -> wf_netlist (rev_netlist c).
Proof.
  intros (W1 & W2 & W3). unfold wf_netlist. rewrite rev_nodes_length, rev_lines_length.
  split; [|split].
  - intros l Hl. cbv zeta. rewrite get_line_rev, !get_node_rev. simpl.
    pose proof (W1 l Hl) as H. cbv zeta in H. tauto.
  - intros n k l Hn H. rewrite get_node_rev in H. rewrite get_line_rev. simpl in *.
    apply (W3 n k l Hn H).
  - intros n k l Hn H. rewrite get_node_rev in H. rewrite get_line_rev. simpl in *.
    apply (W2 n k l Hn H).
Qed.

Theorem rev_acyclic c : comb_acyclic_rev c -> comb_acyclic (rev_netlist c).
Proof.
  intros [rank H]. exists rank. rewrite rev_lines_length. intros l Hl.
  rewrite get_line_rev, get_node_rev. simpl. apply H. exact Hl.
Qed.

Theorem rtopo_complete c : wf_netlist c -> comb_acyclic_rev c ->
  Permutation (rtopo_order c) (seq 0 (length (c_nodes c))).
Proof.
  intros WF AC. rewrite rtopo_is_mirror. rewrite <- rev_nodes_length.
  apply topo_complete; [apply rev_wf; exact WF|apply rev_acyclic; exact AC].
Qed.

Theorem rtopo_readers_first c : wf_netlist c -> forall n i, index_of n (rtopo_order c) = Some i ->
  (Nat.eqb (connected (n_outs (get_node c n))) 0 || is_seq (get_node c n)) = false ->
  forall r, In r (readers c n) -> exists j, index_of r (rtopo_order c) = Some j /\ j < i.
Proof.
  intros WF n i Hi Hs r Hr. rewrite rtopo_is_mirror in *.
  apply (topo_drivers_first (rev_netlist c) (rev_wf c WF) n i Hi).
  - unfold is_source. rewrite get_node_rev. exact Hs.
  - unfold drivers. rewrite get_node_rev. unfold readers in Hr.
    rewrite (map_ext _ (fun l => l_rdr (get_line c l))); [exact Hr|].
    intros l. rewrite get_line_rev. reflexivity.
Qed.

(* ------------------------------------------------------------------ *)
(** * T6: line order *)

Lemma NoDup_flat_map {A B} (g : A -> list B) l :
  NoDup l -> (forall x, In x l -> NoDup (g x)) ->
  (forall x y z, In x l -> In y l -> In z (g x) -> In z (g y) -> x = y) ->
  NoDup (flat_map g l).
Proof.
  induction l as [|a l IH]; intros Hnd H1 H2; simpl; [constructor|].
  inversion Hnd as [|? ? Hna Hnd']; subst. apply NoDup_app_intro.
  - apply H1. left. reflexivity.
  - apply IH; [exact Hnd'| |].
    + intros x Hx. apply H1. right. exact Hx.
    + intros x y z Hx Hy. apply H2; right; assumption.
  - intros z Hz Hz2. apply in_flat_map in Hz2. destruct Hz2 as (y & Hy & Hzy).
    assert (a = y) by (apply (H2 a y z); [left; reflexivity|right; exact Hy|exact Hz|exact Hzy]).
    subst. contradiction.
Qed.

Theorem line_order_cover c : wf_netlist c -> comb_acyclic c ->
  Permutation (topo_line_order c) (seq 0 (length (c_lines c))).
Proof.
  intros WF AC. destruct (topo_nodup c WF) as [Hnd Hlt]. unfold topo_line_order.
  apply NoDup_Permutation.
  - apply NoDup_flat_map; [exact Hnd| |].
    + intros n Hn. apply (NoDup_outs c WF). apply Hlt. exact Hn.
    + intros x y z Hx Hy Hzx Hzy.
      apply (wf_in_outs c WF x z (Hlt x Hx)) in Hzx. apply (wf_in_outs c WF y z (Hlt y Hy)) in Hzy.
      destruct Hzx as [_ <-]. destruct Hzy as [_ <-]. reflexivity.
  - apply seq_NoDup.
  - intros l. rewrite in_seq, in_flat_map. split.
    + intros (n & Hn & Hl). apply (wf_in_outs c WF n l (Hlt n Hn)) in Hl. lia.
    + intros [_ Hl]. simpl in Hl. exists (l_drv (get_line c l)).
      pose proof (wf_drv_lt c WF l Hl) as Hd. split.
      * apply (Permutation_in _ (Permutation_sym (topo_complete c WF AC))). apply in_seq. lia.
      * apply (wf_in_outs c WF _ l Hd). auto.
Qed.

(* ------------------------------------------------------------------ *)
(** * T7: levels *)

Definition lev_val (c : netlist) (lev : list nat) (n : nat) : nat :=
  let nd := get_node c n in
  if Nat.eqb (connected (n_ins nd)) 0 || is_seq nd then 0
  else S (fold_left Nat.max (map (fun ln => nth (l_drv (get_line c ln)) lev 0) (somes (n_ins nd))) 0).

Definition lev_step (c : netlist) (st : list nat * list (nat * nat)) (n : nat) :=
  let '(lev, acc) := st in (set_nat lev n (lev_val c lev n), (n, lev_val c lev n) :: acc).

Lemma topo_levels_eq c :
  topo_levels c = rev (snd (fold_left (lev_step c) (topo_order c) (map (fun _ => 0) (c_nodes c), []))).
Proof. reflexivity. Qed.

Lemma lev_fold_cons c a rest lev acc :
  fold_left (lev_step c) (a :: rest) (lev, acc) =
  fold_left (lev_step c) rest (set_nat lev a (lev_val c lev a), (a, lev_val c lev a) :: acc).
Proof. reflexivity. Qed.

Lemma lev_fold_fst c : forall l lev acc,
  map fst (rev (snd (fold_left (lev_step c) l (lev, acc)))) = map fst (rev acc) ++ l.
Proof.
  induction l as [|a l IH]; intros lev acc.
  - simpl. rewrite app_nil_r. reflexivity.
  - rewrite lev_fold_cons, IH. simpl. rewrite map_app, <- app_assoc. reflexivity.
Qed.

Theorem levels_domain c : map fst (topo_levels c) = topo_order c.
Proof. rewrite topo_levels_eq, lev_fold_fst. reflexivity. Qed.

Lemma ordered_split c acc : Ordered c acc ->
  forall pre n post, rev acc = pre ++ n :: post -> is_source c n = false ->
  forall d, In d (drivers c n) -> In d pre.
Proof.
  induction acc as [|a acc IH]; intros Ho pre n post E Hs d Hd.
  - simpl in E. destruct pre; discriminate.
  - simpl in Ho. destruct Ho as [Ha Ho]. simpl in E. revert E. pattern post.
    apply rev_ind; [|intros x post' _]; intros E.
    + apply app_inj_tail in E. destruct E as [E1 E2]. subst a. rewrite <- E1.
      apply in_rev. rewrite rev_involutive. apply Ha; auto.
    + rewrite app_comm_cons, app_assoc in E. apply app_inj_tail in E. destruct E as [E1 _].
      apply (IH Ho pre n post' E1 Hs d Hd).
Qed.

Definition LevOK (c : netlist) (acc : list (nat * nat)) (n l : nat) : Prop :=
  (is_source c n = true -> l = 0) /\
  (is_source c n = false -> exists ld, l = S (fold_left Nat.max ld 0) /\
       Forall2 (fun d lv => In (d, lv) acc) (drivers c n) ld).

Lemma LevOK_mono c acc acc' n l : incl acc acc' -> LevOK c acc n l -> LevOK c acc' n l.
Proof.
  intros Hi [H1 H2]. split; [exact H1|]. intros Hs. destruct (H2 Hs) as (ld & E & F).
  exists ld. split; [exact E|]. eapply Forall2_mono; [|exact F]. intros a b Hab. apply Hi. exact Hab.
Qed.

Lemma lev_fold c : forall rest pre lev acc,
  NoDup (pre ++ rest) -> (forall x, In x (pre ++ rest) -> x < length (c_nodes c)) ->
  (forall p n post, pre ++ rest = p ++ n :: post -> is_source c n = false ->
     forall d, In d (drivers c n) -> In d p) ->
  length lev = length (c_nodes c) ->
  (forall d, In d pre -> exists lv, In (d, lv) acc) ->
  (forall d lv, In (d, lv) acc -> In d pre /\ nth d lev 0 = lv) ->
  (forall n l, In (n, l) acc -> LevOK c acc n l) ->
  forall n l, In (n, l) (snd (fold_left (lev_step c) rest (lev, acc))) ->
    LevOK c (snd (fold_left (lev_step c) rest (lev, acc))) n l.
Proof.
  induction rest as [|a rest IH]; intros pre lev acc Hnd Hlt Hord Hlen Hdom Hval Hok.
  - simpl. exact Hok.
  - rewrite lev_fold_cons. set (lv := lev_val c lev a).
    assert (Ha : a < length (c_nodes c)) by (apply Hlt; apply in_or_app; right; left; reflexivity).
    assert (Hna : ~ In a pre).
    { apply NoDup_remove_2 in Hnd. intros H. apply Hnd. apply in_or_app. left. exact H. }
    assert (Eapp : (pre ++ [a]) ++ rest = pre ++ a :: rest) by (rewrite <- app_assoc; reflexivity).
    apply (IH (pre ++ [a])).
    + rewrite Eapp. exact Hnd.
    + rewrite Eapp. exact Hlt.
    + rewrite Eapp. exact Hord.
    + rewrite set_nat_length. exact Hlen.
    + intros d Hd. apply in_app_or in Hd. destruct Hd as [Hd|[<-|[]]].
      * destruct (Hdom d Hd) as [lv0 H0]. exists lv0. right. exact H0.
      * exists lv. left. reflexivity.
    + intros d lv0 [E|Hd].
      * inversion E; subst d lv0. split; [apply in_or_app; right; left; reflexivity|].
        apply nth_set_nat_eq. lia.
      * destruct (Hval d lv0 Hd) as [Hp Hn]. split; [apply in_or_app; left; exact Hp|].
        rewrite nth_set_nat_neq; [exact Hn|]. intros ->. contradiction.
    + intros n l [E|Hin].
      * inversion E; subst n l. split.
        -- intros Hs. unfold lv, lev_val. unfold is_source in Hs. cbv zeta. rewrite Hs. reflexivity.
        -- intros Hs.
           exists (map (fun ln => nth (l_drv (get_line c ln)) lev 0) (somes (n_ins (get_node c a)))).
           split.
           ++ unfold lv, lev_val. unfold is_source in Hs. cbv zeta. rewrite Hs. reflexivity.
           ++ unfold drivers. apply Forall2_map_same. intros ln Hln.
              assert (Hd : In (l_drv (get_line c ln)) pre).
              { apply (Hord pre a rest eq_refl Hs). unfold drivers. apply (in_map (fun l0 => l_drv (get_line c l0))). exact Hln. }
              destruct (Hdom _ Hd) as [lv0 H0]. destruct (Hval _ _ H0) as [_ Hn]. rewrite Hn.
              right. exact H0.
      * apply (LevOK_mono c acc); [|apply Hok; exact Hin]. intros x Hx. right. exact Hx.
Qed.

Theorem levels_longest_path c : wf_netlist c -> forall n l, In (n, l) (topo_levels c) ->
  (is_source c n = true -> l = 0) /\
  (is_source c n = false -> exists ld, l = S (fold_left Nat.max ld 0) /\
       Forall2 (fun d lv => In (d, lv) (topo_levels c)) (drivers c n) ld).
Proof.
  intros WF n l Hin. change (LevOK c (topo_levels c) n l).
  rewrite topo_levels_eq in *.
  set (X := snd (fold_left (lev_step c) (topo_order c) (map (fun _ => 0) (c_nodes c), []))) in *.
  apply in_rev in Hin.
  apply (LevOK_mono c X); [intros x Hx; apply in_rev in Hx; exact Hx|]. unfold X in *.
  destruct (topo_nodup c WF) as [Hnd Hlt].
  apply (lev_fold c (topo_order c) []); simpl; auto.
  - destruct (topo_final c WF) as (v & acc & rest & E & I & E2). rewrite E.
    apply ordered_split. apply (I_ord c _ _ _ I).
  - apply map_length.
  - intros d [].
  - intros d lv [].
  - intros n0 l0 [].
Qed.

(* ------------------------------------------------------------------ *)
(** * A concrete netlist: fan-out stem 2 -> {INV 4, BUF 5} reconverging at gate 1, whose middle
      input pin is unconnected; gate 1 feeds DFF 3, which drives output 0. *)

Module Ex.
Import Coq.Strings.String.
Local Open Scope string_scope.

Definition ex : netlist :=
  {| c_nodes :=
       [ {| n_kind := "output"; n_ins := [Some 5];               n_outs := [] |};
         {| n_kind := "AO21";   n_ins := [Some 2; None; Some 3]; n_outs := [Some 4] |};
         {| n_kind := "input";  n_ins := [];                     n_outs := [Some 0; Some 1] |};
         {| n_kind := "DFFX1";  n_ins := [Some 4];               n_outs := [Some 5] |};
         {| n_kind := "INV";    n_ins := [Some 0];               n_outs := [Some 2] |};
         {| n_kind := "BUF";    n_ins := [Some 1];               n_outs := [Some 3] |} ];
     c_lines :=
       [ {| l_drv := 2; l_dpin := 0; l_rdr := 4; l_rpin := 0 |};
         {| l_drv := 2; l_dpin := 1; l_rdr := 5; l_rpin := 0 |};
         {| l_drv := 4; l_dpin := 0; l_rdr := 1; l_rpin := 0 |};
         {| l_drv := 5; l_dpin := 0; l_rdr := 1; l_rpin := 2 |};
         {| l_drv := 1; l_dpin := 0; l_rdr := 3; l_rpin := 0 |};
         {| l_drv := 3; l_dpin := 0; l_rdr := 0; l_rpin := 0 |} ];
     c_io := [2; 0] |}.

Lemma ex_wf : wf_netlist ex.
Proof.
  unfold wf_netlist. split; [|split].
  - intros l Hl. simpl in Hl.
    do 6 (destruct l as [|l]; [vm_compute; repeat split; lia|]). lia.
  - intros n k l Hn H. simpl in Hn.
    do 6 (destruct n as [|n];
          [repeat (destruct k as [|k]; simpl in H; try discriminate);
           inversion H; subst; vm_compute; repeat split; lia|]).
    lia.
  - intros n k l Hn H. simpl in Hn.
    do 6 (destruct n as [|n];
          [repeat (destruct k as [|k]; simpl in H; try discriminate);
           inversion H; subst; vm_compute; repeat split; lia|]).
    lia.
Qed.

Lemma ex_acyclic : comb_acyclic ex.
Proof.
  exists (fun n => nth n [1; 2; 0; 0; 1; 1] 0). intros l Hl Hseq. simpl in Hl.
  do 6 (destruct l as [|l]; [vm_compute in Hseq |- *; try discriminate; lia|]). lia.
Qed.

Lemma ex_acyclic_rev : comb_acyclic_rev ex.
Proof.
  exists (fun n => nth n [0; 1; 3; 0; 2; 2] 0). intros l Hl Hseq. simpl in Hl.
  do 6 (destruct l as [|l]; [vm_compute in Hseq |- *; try discriminate; lia|]). lia.
Qed.

Example ex_topo : topo_order ex = [2; 3; 4; 5; 0; 1].
Proof. vm_compute. reflexivity. Qed.

Example ex_topo_perm : Permutation (topo_order ex) [0; 1; 2; 3; 4; 5].
Proof. exact (topo_complete ex ex_wf ex_acyclic). Qed.

Example ex_levels : topo_levels ex = [(2, 0); (3, 0); (4, 1); (5, 1); (0, 1); (1, 2)].
Proof. vm_compute. reflexivity. Qed.

Example ex_lines : topo_line_order ex = [0; 1; 5; 2; 3; 4].
Proof. vm_compute. reflexivity. Qed.

Example ex_rtopo : rtopo_order ex = [0; 3; 1; 4; 5; 2].
Proof. vm_compute. reflexivity. Qed.

Example ex_rtopo_perm : Permutation (rtopo_order ex) [0; 1; 2; 3; 4; 5].
Proof. exact (rtopo_complete ex ex_wf ex_acyclic_rev). Qed.
End Ex.

Print Assumptions topo_nodup.
Print Assumptions topo_sources_first.
Print Assumptions topo_drivers_first.
Print Assumptions topo_complete.
Print Assumptions rtopo_is_mirror.
Print Assumptions rev_wf.
Print Assumptions rev_acyclic.
Print Assumptions rtopo_complete.
Print Assumptions rtopo_readers_first.
Print Assumptions line_order_cover.
Print Assumptions levels_longest_path.
Print Assumptions levels_domain.
Print Assumptions Ex.ex_topo_perm.
