(** Proofs about the callback level of the DEF front end (Model/DefElab.v): every statement of the tree reaches the
    extracted data exactly once, with all its fields, in statement order; nets keep their connection order; the wiring
    statements that reach Model/DefRoute.v are exactly those written under the net; composition with the DefRoute theorems. *)
From Coq Require Import List ZArith NArith Bool String Ascii Arith Lia.
From KV Require Import Model.DefRoute Model.DefSpec Model.DefElab Proofs.DefRouteProofs.
Import ListNotations.
Local Open Scope list_scope.

(* ------------------------------------------------------------------------------------------------ *)
(** * mapM / fold_opt *)
Lemma mapM_Forall2 : forall {A B} (f : A -> option B) l ys, mapM f l = Some ys <-> Forall2 (fun x y => f x = Some y) l ys.
Proof.
  intros A B f. induction l as [|x l IH]; intros ys; split; intro H.
  - cbn in H. inversion H. constructor.
  - inversion H. reflexivity.
  - cbn [mapM] in H. destruct (f x) as [y|] eqn:E; [|discriminate]. destruct (mapM f l) as [ys'|] eqn:E2; [|discriminate].
    inversion H; subst. constructor; [exact E|]. apply IH. reflexivity.
  - inversion H as [|x' y l' ys' Hx Hl]; subst. cbn [mapM]. rewrite Hx. apply IH in Hl. rewrite Hl. reflexivity.
Qed.
Lemma mapM_app : forall {A B} (f : A -> option B) a b,
  mapM f (a ++ b) = match mapM f a, mapM f b with Some x, Some y => Some (x ++ y) | _, _ => None end.
Proof.
  intros A B f. induction a as [|x a IH]; intro b; cbn [mapM app].
  - destruct (mapM f b); reflexivity.
  - destruct (f x); [|reflexivity]. rewrite IH. destruct (mapM f a); [|reflexivity]. destruct (mapM f b); reflexivity.
Qed.
Lemma mapM_single : forall {A B} (f : A -> option B) x, mapM f [x] = option_map (fun y => [y]) (f x).
Proof. intros. cbn [mapM]. destruct (f x); reflexivity. Qed.
Lemma mapM_length : forall {A B} (f : A -> option B) l ys, mapM f l = Some ys -> List.length ys = List.length l.
Proof. intros A B f l ys H. apply mapM_Forall2 in H. induction H; cbn; congruence. Qed.
Lemma mapM_flat_map : forall {A B C} (f : B -> option C) (g : A -> list B) l ys,
  mapM f (flat_map g l) = Some ys <->
  exists yss, mapM (fun x => mapM f (g x)) l = Some yss /\ ys = List.concat yss.
Proof.
  intros A B C f g. induction l as [|x l IH]; intros ys; cbn [flat_map mapM].
  - split; [intro H; inversion H; exists []; split; reflexivity | intros [yss [H E]]; inversion H; subst; reflexivity].
  - rewrite mapM_app. split.
    + destruct (mapM f (g x)) as [a|]; [|discriminate]. destruct (mapM f (flat_map g l)) as [b|] eqn:E; [|discriminate].
      intro H. inversion H; subst. destruct (proj1 (IH b) eq_refl) as [yss [H1 H2]]. rewrite H1. exists (a :: yss). subst b. split; reflexivity.
    + intros [yss [H E]]. destruct (mapM f (g x)) as [a|]; [|discriminate].
      destruct (mapM (fun x0 => mapM f (g x0)) l) as [yss'|] eqn:E2; [|discriminate]. inversion H; subst.
      rewrite (proj2 (IH (List.concat yss')) (ex_intro _ yss' (conj eq_refl eq_refl))). reflexivity.
Qed.

Lemma fold_opt_app : forall {A S} (f : S -> A -> option S) a b s,
  fold_opt f (a ++ b) s = match fold_opt f a s with Some s' => fold_opt f b s' | None => None end.
Proof.
  intros A S f. induction a as [|x a IH]; intros b s; cbn [fold_opt app]; [reflexivity|].
  destruct (f s x); [apply IH | reflexivity].
Qed.

(* ------------------------------------------------------------------------------------------------ *)
(** * Python dicts *)
Lemma pd_build_app : forall {A} (a b : list (string * A)) d, pd_build (a ++ b) d = pd_build b (pd_build a d).
Proof. intros. unfold pd_build. apply fold_left_app. Qed.
Lemma pd_build_concat : forall {A} (ls : list (list (string * A))) d,
  pd_build (List.concat ls) d = fold_left (fun d es => pd_build es d) ls d.
Proof. intros A. induction ls as [|l ls IH]; intro d; [reflexivity|]. cbn [List.concat fold_left]. rewrite pd_build_app. apply IH. Qed.

Lemma pd_get_set : forall {A} k k' (v : A) d, pd_get k (pd_set k' v d) = if String.eqb k k' then Some v else pd_get k d.
Proof.
  intros A k k' v. induction d as [|[k2 v2] d IH]; cbn [pd_set pd_get].
  - destruct (String.eqb k k'); reflexivity.
  - destruct (String.eqb k' k2) eqn:E; cbn [pd_get].
    + apply String.eqb_eq in E. subst k2. destruct (String.eqb k k'); reflexivity.
    + destruct (String.eqb k k2) eqn:E2; [|exact IH].
      apply String.eqb_eq in E2. subst k2. rewrite String.eqb_sym, E. reflexivity.
Qed.
Lemma pd_set_fresh : forall {A} k (v : A) d, pd_get k d = None -> pd_set k v d = d ++ [(k, v)].
Proof.
  intros A k v. induction d as [|[k2 v2] d IH]; intro H; [reflexivity|].
  cbn [pd_get] in H. cbn [pd_set app]. destruct (String.eqb k k2); [discriminate|]. now rewrite IH.
Qed.
(* the value stored under a key is that of the LAST entry written with the key *)
Fixpoint last_with {A} (k : string) (es : list (string * A)) (d : option A) : option A :=
  match es with [] => d | (k', v) :: r => last_with k r (if String.eqb k k' then Some v else d) end.
Lemma pd_get_build : forall {A} k (es : list (string * A)) d, pd_get k (pd_build es d) = last_with k es (pd_get k d).
Proof.
  intros A k. induction es as [|[k' v] es IH]; intro d; [reflexivity|].
  unfold pd_build in *. cbn [fold_left fst snd last_with]. rewrite IH, pd_get_set. reflexivity.
Qed.
(* distinct fresh keys: the dict grows by exactly the entries, in order *)
Lemma pd_build_nodup : forall {A} (es : list (string * A)) d,
  NoDup (map fst es) -> (forall k, In k (map fst es) -> pd_get k d = None) -> pd_build es d = d ++ es.
Proof.
  intros A. induction es as [|[k v] es IH]; intros d Hn Hf; [now rewrite app_nil_r|].
  cbn [map fst] in Hn, Hf. inversion Hn as [|k0 l0 Hk Hn']; subst.
  unfold pd_build in *. cbn [fold_left fst snd]. rewrite (pd_set_fresh k v d (Hf k (or_introl eq_refl))).
  rewrite IH; [now rewrite <- app_assoc | exact Hn' |].
  intros k' Hk'. assert (Hd : pd_get k' d = None) by (apply Hf; right; exact Hk').
  clear - Hd Hk Hk'. induction d as [|[k2 v2] d IHd]; cbn [app pd_get] in *.
  - destruct (String.eqb k' k) eqn:E; [|reflexivity]. apply String.eqb_eq in E. subst. contradiction.
  - destruct (String.eqb k' k2); [discriminate | apply IHd, Hd].
Qed.
Corollary pd_build_nodup_empty : forall {A} (es : list (string * A)), NoDup (map fst es) -> pd_build es [] = es.
Proof. intros A es H. apply (pd_build_nodup es [] H). reflexivity. Qed.
(* in general: the keys in order of first occurrence *)
Lemma pd_set_keys : forall {A} k (v : A) d, map fst (pd_set k v d) = if existsb (String.eqb k) (map fst d) then map fst d else map fst d ++ [k].
Proof.
  intros A k v. induction d as [|[k2 v2] d IH]; [reflexivity|].
  cbn [pd_set map fst existsb]. destruct (String.eqb k k2) eqn:E; cbn [map fst orb].
  - apply String.eqb_eq in E. now subst.
  - rewrite IH. destruct (existsb (String.eqb k) (map fst d)); reflexivity.
Qed.
Lemma pd_set_nodup : forall {A} k (v : A) d, NoDup (map fst d) -> NoDup (map fst (pd_set k v d)).
Proof.
  intros A k v d H. rewrite pd_set_keys. destruct (existsb (String.eqb k) (map fst d)) eqn:E; [exact H|].
  apply nodup_app; [exact H | constructor; [intros [] | constructor] |].
  intros x Hx [Hk|[]]. subst x.
  assert (existsb (String.eqb k) (map fst d) = true) by (apply existsb_exists; exists k; split; [exact Hx | apply String.eqb_refl]). congruence.
Qed.
Lemma pd_build_keys_nodup : forall {A} (es : list (string * A)) d, NoDup (map fst d) -> NoDup (map fst (pd_build es d)).
Proof.
  intros A. induction es as [|e es IH]; intros d H; [exact H|]. unfold pd_build in *. cbn [fold_left]. apply IH, pd_set_nodup, H.
Qed.

(* ------------------------------------------------------------------------------------------------ *)
(** * the fold over the statements of a design: every container receives exactly the entries of its own statements *)
Section Projection.
  Context {C Ent : Type} (P : deffile -> C) (upd : C -> list Ent -> C) (contrib : design_stmt -> option (list Ent)).
  Hypothesis upd_nil : forall c, upd c [] = c.
  Hypothesis upd_app : forall c a b, upd c (a ++ b) = upd (upd c a) b.
  Hypothesis step_ok : forall d s d', elab_design_stmt d s = Some d' -> exists es, contrib s = Some es /\ P d' = upd (P d) es.

  Lemma fold_design_proj : forall l d d', fold_opt elab_design_stmt l d = Some d' ->
    exists ess, mapM contrib l = Some ess /\ P d' = upd (P d) (List.concat ess).
  Proof.
    induction l as [|s l IH]; intros d d' H.
    - inversion H; subst. exists []. split; [reflexivity | now rewrite upd_nil].
    - cbn [fold_opt] in H. destruct (elab_design_stmt d s) as [d1|] eqn:E; [|discriminate].
      destruct (step_ok _ _ _ E) as [es [Hc Hp]]. destruct (IH _ _ H) as [ess [Hm Hp']].
      exists (es :: ess). cbn [mapM List.concat]. rewrite Hc, Hm. split; [reflexivity|]. now rewrite upd_app, <- Hp.
  Qed.

  Hypothesis file_other : forall d f d', (forall n l, f <> FDesign n l) -> elab_file_stmt d f = Some d' -> P d' = P d.
  Hypothesis design_name : forall d n, P (set_design d n) = P d.

  Lemma fold_file_proj : forall fs d d', fold_opt elab_file_stmt fs d = Some d' ->
    exists ess, mapM contrib (flat_map (fun f => match f with FDesign _ l => l | _ => [] end) fs) = Some ess /\
                P d' = upd (P d) (List.concat ess).
  Proof.
    induction fs as [|f fs IH]; intros d d' H.
    - inversion H; subst. exists []. split; [reflexivity | now rewrite upd_nil].
    - cbn [fold_opt] in H. destruct (elab_file_stmt d f) as [d1|] eqn:E; [|discriminate].
      destruct (IH _ _ H) as [ess [Hm Hp]]. cbn [flat_map]. rewrite mapM_app.
      destruct f as [v|v|v|n l].
      + exists ess. cbn [mapM]. rewrite Hm. split; [reflexivity|]. rewrite Hp. f_equal. apply (file_other d (FVersion v)); [discriminate | exact E].
      + exists ess. cbn [mapM]. rewrite Hm. split; [reflexivity|]. rewrite Hp. f_equal. apply (file_other d (FDividerchar v)); [discriminate | exact E].
      + exists ess. cbn [mapM]. rewrite Hm. split; [reflexivity|]. rewrite Hp. f_equal. apply (file_other d (FBusbitchars v)); [discriminate | exact E].
      + cbn [elab_file_stmt] in E. destruct (fold_opt elab_design_stmt l d) as [d2|] eqn:E2; [|discriminate]. cbn [option_map] in E.
        inversion E; subst d1. destruct (fold_design_proj _ _ _ E2) as [ess1 [Hm1 Hp1]].
        exists (ess1 ++ ess). rewrite Hm1, Hm. split; [reflexivity|].
        rewrite Hp, design_name, Hp1, concat_app, upd_app. reflexivity.
  Qed.
End Projection.

Ltac step_cases H :=
  match type of H with elab_design_stmt ?d ?s = Some ?d' =>
    destruct s; cbn [elab_design_stmt] in H;
    repeat match type of H with context [option_map _ ?x] => destruct x eqn:?; cbn [option_map] in H end;
    try discriminate H; inversion H; subst; clear H
  end.
Ltac file_cases f E :=
  destruct f; cbn [elab_file_stmt] in E; inversion E; subst; try reflexivity.

(** ** dictionaries: components, pins, vias, special nets, nets *)
Definition dict_upd {A} (d : pdict A) (es : list (string * A)) : pdict A := pd_build es d.
Lemma dict_upd_nil : forall {A} (d : pdict A), dict_upd d [] = d. Proof. reflexivity. Qed.
Lemma dict_upd_app : forall {A} (d : pdict A) a b, dict_upd d (a ++ b) = dict_upd (dict_upd d a) b.
Proof. intros. apply pd_build_app. Qed.

Lemma flatten_mapM : forall {A B} (f : A -> option B) (g : design_stmt -> list A) l ess,
  mapM (fun s => mapM f (g s)) l = Some ess -> mapM f (flat_map g l) = Some (List.concat ess).
Proof. intros A B f g l ess H. apply mapM_flat_map. exists ess. split; [exact H | reflexivity]. Qed.

Theorem elab_components : forall t d, elab t = Some d ->
  exists es, mapM elab_comp (comps_of t) = Some es /\ df_components d = pd_build es [].
Proof.
  intros t d H. unfold elab in H.
  destruct (fold_file_proj df_components dict_upd (fun s => mapM elab_comp (comps_of_stmt s)) dict_upd_nil dict_upd_app) with (fs := t_stmts t) (d := df_empty) (d' := d) as [ess [Hm Hp]]; try exact H.
  - intros d0 s d' E. step_cases E; cbn [comps_of_stmt mapM df_components set_units set_diearea set_rows set_tracks set_vias set_components set_pins set_specialnets set_nets];
      try (exists []; split; reflexivity). eexists. split; [eassumption | reflexivity].
  - intros d0 f d' Hn E. destruct f; cbn [elab_file_stmt] in E; try (inversion E; subst; reflexivity). exfalso. eapply Hn. reflexivity.
  - reflexivity.
  - exists (List.concat ess). split; [apply (flatten_mapM elab_comp comps_of_stmt), Hm | exact Hp].
Qed.
Theorem elab_pins : forall t d, elab t = Some d ->
  exists es, mapM elab_pin (pins_of t) = Some es /\ df_pins d = pd_build es [].
Proof.
  intros t d H. unfold elab in H.
  destruct (fold_file_proj df_pins dict_upd (fun s => mapM elab_pin (pins_of_stmt s)) dict_upd_nil dict_upd_app) with (fs := t_stmts t) (d := df_empty) (d' := d) as [ess [Hm Hp]]; try exact H.
  - intros d0 s d' E. step_cases E; cbn [pins_of_stmt mapM df_pins set_units set_diearea set_rows set_tracks set_vias set_components set_pins set_specialnets set_nets];
      try (exists []; split; reflexivity). eexists. split; [eassumption | reflexivity].
  - intros d0 f d' Hn E. destruct f; cbn [elab_file_stmt] in E; try (inversion E; subst; reflexivity). exfalso. eapply Hn. reflexivity.
  - reflexivity.
  - exists (List.concat ess). split; [apply (flatten_mapM elab_pin pins_of_stmt), Hm | exact Hp].
Qed.
Theorem elab_vias : forall t d, elab t = Some d ->
  exists es, mapM elab_via (vias_of t) = Some es /\ df_vias d = pd_build es [].
Proof.
  intros t d H. unfold elab in H.
  destruct (fold_file_proj df_vias dict_upd (fun s => mapM elab_via (vias_of_stmt s)) dict_upd_nil dict_upd_app) with (fs := t_stmts t) (d := df_empty) (d' := d) as [ess [Hm Hp]]; try exact H.
  - intros d0 s d' E. step_cases E; cbn [vias_of_stmt mapM df_vias set_units set_diearea set_rows set_tracks set_vias set_components set_pins set_specialnets set_nets];
      try (exists []; split; reflexivity). eexists. split; [eassumption | reflexivity].
  - intros d0 f d' Hn E. destruct f; cbn [elab_file_stmt] in E; try (inversion E; subst; reflexivity). exfalso. eapply Hn. reflexivity.
  - reflexivity.
  - exists (List.concat ess). split; [apply (flatten_mapM elab_via vias_of_stmt), Hm | exact Hp].
Qed.
Theorem elab_specialnets : forall t d, elab t = Some d ->
  exists es, mapM elab_spnet (spnets_of t) = Some es /\ df_specialnets d = pd_build es [].
Proof.
  intros t d H. unfold elab in H.
  destruct (fold_file_proj df_specialnets dict_upd (fun s => mapM elab_spnet (spnets_of_stmt s)) dict_upd_nil dict_upd_app) with (fs := t_stmts t) (d := df_empty) (d' := d) as [ess [Hm Hp]]; try exact H.
  - intros d0 s d' E. step_cases E; cbn [spnets_of_stmt mapM df_specialnets set_units set_diearea set_rows set_tracks set_vias set_components set_pins set_specialnets set_nets];
      try (exists []; split; reflexivity). eexists. split; [eassumption | reflexivity].
  - intros d0 f d' Hn E. destruct f; cbn [elab_file_stmt] in E; try (inversion E; subst; reflexivity). exfalso. eapply Hn. reflexivity.
  - reflexivity.
  - exists (List.concat ess). split; [apply (flatten_mapM elab_spnet spnets_of_stmt), Hm | exact Hp].
Qed.
Theorem elab_nets : forall t d, elab t = Some d ->
  exists es, mapM elab_net (nets_of t) = Some es /\ df_nets d = pd_build es [].
Proof.
  intros t d H. unfold elab in H.
  destruct (fold_file_proj df_nets dict_upd (fun s => mapM elab_net (nets_of_stmt s)) dict_upd_nil dict_upd_app) with (fs := t_stmts t) (d := df_empty) (d' := d) as [ess [Hm Hp]]; try exact H.
  - intros d0 s d' E. step_cases E; cbn [nets_of_stmt mapM df_nets set_units set_diearea set_rows set_tracks set_vias set_components set_pins set_specialnets set_nets];
      try (exists []; split; reflexivity). eexists. split; [eassumption | reflexivity].
  - intros d0 f d' Hn E. destruct f; cbn [elab_file_stmt] in E; try (inversion E; subst; reflexivity). exfalso. eapply Hn. reflexivity.
  - reflexivity.
  - exists (List.concat ess). split; [apply (flatten_mapM elab_net nets_of_stmt), Hm | exact Hp].
Qed.

(** ** lists: units, rows, tracks *)
Definition list_upd {A} (l : list A) (es : list A) : list A := l ++ es.
Lemma list_upd_nil : forall {A} (l : list A), list_upd l [] = l. Proof. intros. apply app_nil_r. Qed.
Lemma list_upd_app : forall {A} (l a b : list A), list_upd l (a ++ b) = list_upd (list_upd l a) b.
Proof. intros. unfold list_upd. apply app_assoc. Qed.
Definition oid {A} (o : option A) : option A := o.

Theorem elab_rows : forall t d, elab t = Some d -> mapM oid (rows_of t) = Some (df_rows d).
Proof.
  intros t d H. unfold elab in H.
  destruct (fold_file_proj df_rows list_upd (fun s => mapM oid (rows_of_stmt s)) list_upd_nil list_upd_app) with (fs := t_stmts t) (d := df_empty) (d' := d) as [ess [Hm Hp]]; try exact H.
  - intros d0 s d' E. step_cases E; cbn [rows_of_stmt mapM df_rows set_units set_diearea set_rows set_tracks set_vias set_components set_pins set_specialnets set_nets];
      try (exists []; split; [reflexivity | symmetry; apply app_nil_r]).
    match goal with Hr : elab_row _ _ _ _ _ _ = Some ?r |- _ => exists [r]; unfold oid at 1; rewrite Hr; split; reflexivity end.
  - intros d0 f d' Hn E. destruct f; cbn [elab_file_stmt] in E; try (inversion E; subst; reflexivity). exfalso. eapply Hn. reflexivity.
  - reflexivity.
  - cbn [df_rows df_empty list_upd app] in Hp. rewrite Hp. apply (flatten_mapM oid rows_of_stmt), Hm.
Qed.
Theorem elab_tracks : forall t d, elab t = Some d -> mapM oid (tracks_of t) = Some (df_tracks d).
Proof.
  intros t d H. unfold elab in H.
  destruct (fold_file_proj df_tracks list_upd (fun s => mapM oid (tracks_of_stmt s)) list_upd_nil list_upd_app) with (fs := t_stmts t) (d := df_empty) (d' := d) as [ess [Hm Hp]]; try exact H.
  - intros d0 s d' E. step_cases E; cbn [tracks_of_stmt mapM df_tracks set_units set_diearea set_rows set_tracks set_vias set_components set_pins set_specialnets set_nets];
      try (exists []; split; [reflexivity | symmetry; apply app_nil_r]).
    match goal with Hr : elab_track _ _ _ _ _ = Some ?r |- _ => exists [r]; unfold oid at 1; rewrite Hr; split; reflexivity end.
  - intros d0 f d' Hn E. destruct f; cbn [elab_file_stmt] in E; try (inversion E; subst; reflexivity). exfalso. eapply Hn. reflexivity.
  - reflexivity.
  - cbn [df_tracks df_empty list_upd app] in Hp. rewrite Hp. apply (flatten_mapM oid tracks_of_stmt), Hm.
Qed.
Theorem elab_units_list : forall t d, elab t = Some d -> mapM oid (units_of t) = Some (df_units d).
Proof.
  intros t d H. unfold elab in H.
  destruct (fold_file_proj df_units list_upd (fun s => mapM oid (units_of_stmt s)) list_upd_nil list_upd_app) with (fs := t_stmts t) (d := df_empty) (d' := d) as [ess [Hm Hp]]; try exact H.
  - intros d0 s d' E. step_cases E; cbn [units_of_stmt mapM df_units set_units set_diearea set_rows set_tracks set_vias set_components set_pins set_specialnets set_nets];
      try (exists []; split; [reflexivity | symmetry; apply app_nil_r]).
    match goal with Hr : elab_units _ _ _ = Some ?r |- _ => exists [r]; unfold oid at 1; rewrite Hr; split; reflexivity end.
  - intros d0 f d' Hn E. destruct f; cbn [elab_file_stmt] in E; try (inversion E; subst; reflexivity). exfalso. eapply Hn. reflexivity.
  - reflexivity.
  - cbn [df_units df_empty list_upd app] in Hp. rewrite Hp. apply (flatten_mapM oid units_of_stmt), Hm.
Qed.

(* ------------------------------------------------------------------------------------------------ *)
(** * exactly once, in statement order *)
Lemma elab_comp_name : forall c e, elab_comp c = Some e -> fst e = cs_name c.
Proof. intros c e H. unfold elab_comp in H. destruct (cb_point (cs_pt c)); inversion H. reflexivity. Qed.
Lemma fold_pinopt_name : forall os p, dp_name (fold_left apply_pinopt os p) = dp_name p.
Proof. induction os as [|o os IH]; intro p; [reflexivity|]. cbn [fold_left]. rewrite IH. destruct o; reflexivity. Qed.
Lemma elab_pin_name : forall c e, elab_pin c = Some e -> fst e = ps_name c /\ dp_name (snd e) = ps_name c.
Proof.
  intros c e H. unfold elab_pin in H. destruct (mapM elab_pin_opt (ps_opts c)) as [os|]; inversion H. cbn [fst snd]. split; [reflexivity|].
  unfold cb_pins_stmt. apply fold_pinopt_name.
Qed.
Lemma elab_via_name : forall c e, elab_via c = Some e -> fst e = vs_name c /\ dv_name (snd e) = vs_name c.
Proof. intros c e H. unfold elab_via in H. destruct (mapM cb_vias_opt (vs_opts c)); inversion H. split; reflexivity. Qed.
Lemma fold_apply_name : forall its n, dn_name (fold_left apply_item its n) = dn_name n.
Proof. induction its as [|it its IH]; intro n; [reflexivity|]. cbn [fold_left]. rewrite IH. destruct it; reflexivity. Qed.
Lemma elab_net_name : forall c e, elab_net c = Some e -> fst e = nn_name c /\ dn_name (snd e) = nn_name c.
Proof.
  intros c e H. unfold elab_net in H. destruct (mapM (elab_item elab_rwire) (nn_items c)); inversion H. cbn [fst snd].
  split; [reflexivity | apply fold_apply_name].
Qed.
Lemma elab_spnet_name : forall c e, elab_spnet c = Some e -> fst e = sn_name c /\ dn_name (snd e) = sn_name c.
Proof.
  intros c e H. unfold elab_spnet in H. destruct (mapM (elab_item elab_spwire) (sn_items c)); inversion H. cbn [fst snd].
  split; [reflexivity | apply fold_apply_name].
Qed.

Lemma mapM_keys : forall {S A} (f : S -> option (string * A)) (name : S -> string) l es,
  (forall s e, f s = Some e -> fst e = name s) -> mapM f l = Some es -> map fst es = map name l.
Proof.
  intros S A f name l es Hn H. apply mapM_Forall2 in H. induction H as [|s e l es Hs Hl IH]; [reflexivity|].
  cbn [map]. now rewrite IH, (Hn _ _ Hs).
Qed.
(* with pairwise distinct names the dictionary IS the list of the statements' entries *)
Lemma dict_exactly_once : forall {S A} (f : S -> option (string * A)) (name : S -> string) l es,
  (forall s e, f s = Some e -> fst e = name s) -> mapM f l = Some es -> NoDup (map name l) ->
  pd_build es [] = es /\ Forall2 (fun s e => f s = Some e) l es.
Proof.
  intros S A f name l es Hn H Hd. split; [|apply mapM_Forall2, H].
  apply pd_build_nodup_empty. now rewrite (mapM_keys f name l es Hn H).
Qed.

Theorem components_exactly_once : forall t d, elab t = Some d -> NoDup (map cs_name (comps_of t)) ->
  Forall2 (fun c e => elab_comp c = Some e) (comps_of t) (df_components d).
Proof.
  intros t d H Hd. destruct (elab_components t d H) as [es [Hm Hp]].
  destruct (dict_exactly_once elab_comp cs_name _ _ elab_comp_name Hm Hd) as [E F]. now rewrite Hp, E.
Qed.
Theorem pins_exactly_once : forall t d, elab t = Some d -> NoDup (map ps_name (pins_of t)) ->
  Forall2 (fun c e => elab_pin c = Some e) (pins_of t) (df_pins d).
Proof.
  intros t d H Hd. destruct (elab_pins t d H) as [es [Hm Hp]].
  destruct (dict_exactly_once elab_pin ps_name _ _ (fun s e He => proj1 (elab_pin_name s e He)) Hm Hd) as [E F]. now rewrite Hp, E.
Qed.
Theorem vias_exactly_once : forall t d, elab t = Some d -> NoDup (map vs_name (vias_of t)) ->
  Forall2 (fun c e => elab_via c = Some e) (vias_of t) (df_vias d).
Proof.
  intros t d H Hd. destruct (elab_vias t d H) as [es [Hm Hp]].
  destruct (dict_exactly_once elab_via vs_name _ _ (fun s e He => proj1 (elab_via_name s e He)) Hm Hd) as [E F]. now rewrite Hp, E.
Qed.
Theorem nets_exactly_once : forall t d, elab t = Some d -> NoDup (map nn_name (nets_of t)) ->
  Forall2 (fun c e => elab_net c = Some e) (nets_of t) (df_nets d).
Proof.
  intros t d H Hd. destruct (elab_nets t d H) as [es [Hm Hp]].
  destruct (dict_exactly_once elab_net nn_name _ _ (fun s e He => proj1 (elab_net_name s e He)) Hm Hd) as [E F]. now rewrite Hp, E.
Qed.
Theorem specialnets_exactly_once : forall t d, elab t = Some d -> NoDup (map sn_name (spnets_of t)) ->
  Forall2 (fun c e => elab_spnet c = Some e) (spnets_of t) (df_specialnets d).
Proof.
  intros t d H Hd. destruct (elab_specialnets t d H) as [es [Hm Hp]].
  destruct (dict_exactly_once elab_spnet sn_name _ _ (fun s e He => proj1 (elab_spnet_name s e He)) Hm Hd) as [E F]. now rewrite Hp, E.
Qed.
(* without the hypothesis: every key once, in order of first use, holding the entry of the LAST statement of that name *)
Theorem dict_last_wins : forall {A} (es : list (string * A)),
  NoDup (map fst (pd_build es [])) /\ forall k, pd_get k (pd_build es []) = last_with k es None.
Proof. intros A es. split; [apply pd_build_keys_nodup; exact (NoDup_nil _) | intro k; exact (pd_get_build k es [])]. Qed.
(* rows / tracks / units: position i of the list is the i-th statement *)
Theorem rows_in_order : forall t d, elab t = Some d -> Forall2 (fun s r => s = Some r) (rows_of t) (df_rows d).
Proof. intros t d H. apply (mapM_Forall2 oid), elab_rows, H. Qed.
Theorem tracks_in_order : forall t d, elab t = Some d -> Forall2 (fun s r => s = Some r) (tracks_of t) (df_tracks d).
Proof. intros t d H. apply (mapM_Forall2 oid), elab_tracks, H. Qed.
Theorem units_in_order : forall t d, elab t = Some d -> Forall2 (fun s r => s = Some r) (units_of t) (df_units d).
Proof. intros t d H. apply (mapM_Forall2 oid), elab_units_list, H. Qed.

(** ** header fields and the die area: the last statement of its kind *)
Definition last_header (sel : file_stmt -> option string) (t : tree) : option string :=
  fold_left (fun o f => match sel f with Some v => Some v | None => o end) (t_stmts t) None.
Definition sel_design f := match f with FDesign n _ => Some n | _ => None end.
Definition sel_version f := match f with FVersion v => Some (unquote v) | _ => None end.
Definition sel_dividerchar f := match f with FDividerchar v => Some (unquote v) | _ => None end.
Definition sel_busbitchars f := match f with FBusbitchars v => Some (unquote v) | _ => None end.

Lemma design_steps_header : forall l d d', fold_opt elab_design_stmt l d = Some d' ->
  df_design d' = df_design d /\ df_version d' = df_version d /\ df_dividerchar d' = df_dividerchar d /\ df_busbitchars d' = df_busbitchars d.
Proof.
  induction l as [|s l IH]; intros d d' H; [inversion H; repeat split|].
  cbn [fold_opt] in H. destruct (elab_design_stmt d s) as [d1|] eqn:E; [|discriminate].
  destruct (IH _ _ H) as [H1 [H2 [H3 H4]]]. rewrite H1, H2, H3, H4. clear - E. step_cases E; repeat split.
Qed.
Theorem elab_header : forall t d, elab t = Some d ->
  df_design d = last_header sel_design t /\ df_version d = last_header sel_version t /\
  df_dividerchar d = last_header sel_dividerchar t /\ df_busbitchars d = last_header sel_busbitchars t.
Proof.
  intros t d H. unfold elab, last_header in *.
  assert (G : forall fs d0 d', fold_opt elab_file_stmt fs d0 = Some d' ->
    df_design d' = fold_left (fun o f => match sel_design f with Some v => Some v | None => o end) fs (df_design d0) /\
    df_version d' = fold_left (fun o f => match sel_version f with Some v => Some v | None => o end) fs (df_version d0) /\
    df_dividerchar d' = fold_left (fun o f => match sel_dividerchar f with Some v => Some v | None => o end) fs (df_dividerchar d0) /\
    df_busbitchars d' = fold_left (fun o f => match sel_busbitchars f with Some v => Some v | None => o end) fs (df_busbitchars d0)).
  { induction fs as [|f fs IH]; intros d0 d' H0; [inversion H0; repeat split|].
    cbn [fold_opt] in H0. destruct (elab_file_stmt d0 f) as [d1|] eqn:E; [|discriminate].
    destruct (IH _ _ H0) as [H1 [H2 [H3 H4]]]. rewrite H1, H2, H3, H4. cbn [fold_left]. clear - E.
    destruct f as [v|v|v|n l]; cbn [elab_file_stmt] in E.
    - inversion E; subst. repeat split.
    - inversion E; subst. repeat split.
    - inversion E; subst. repeat split.
    - destruct (fold_opt elab_design_stmt l d0) as [d2|] eqn:E2; [|discriminate]. inversion E; subst.
      destruct (design_steps_header _ _ _ E2) as [G1 [G2 [G3 G4]]]. cbn [sel_design sel_version sel_dividerchar sel_busbitchars df_design df_version df_dividerchar df_busbitchars set_design].
      rewrite G2, G3, G4. repeat split. }
  exact (G _ _ _ H).
Qed.

Definition diearea_of_stmt (s : design_stmt) : list (option (list rpoint)) :=
  match s with SDiearea p ps => [mapM cb_point (p :: ps)] | _ => [] end.
Definition dieareas_of (t : tree) := flat_map diearea_of_stmt (design_stmts t).
Definition last_upd {A} (c : option A) (es : list A) : option A := last (map Some es) c.
Lemma last_upd_app : forall {A} (c : option A) a b, last_upd c (a ++ b) = last_upd (last_upd c a) b.
Proof.
  intros A c a b. unfold last_upd. rewrite map_app. revert c. induction a as [|x a IH]; intro c; [reflexivity|].
  cbn [map app]. rewrite !last_cons_default. apply IH.
Qed.
Theorem elab_diearea : forall t d, elab t = Some d ->
  exists es, mapM oid (dieareas_of t) = Some es /\ df_diearea d = last (map Some es) None.
Proof.
  intros t d H. unfold elab in H.
  destruct (fold_file_proj df_diearea last_upd (fun s => mapM oid (diearea_of_stmt s)) (fun c => eq_refl) last_upd_app) with (fs := t_stmts t) (d := df_empty) (d' := d) as [ess [Hm Hp]]; try exact H.
  - intros d0 s d' E. step_cases E; cbn [diearea_of_stmt df_diearea set_units set_diearea set_rows set_tracks set_vias set_components set_pins set_specialnets set_nets];
      try (exists []; split; reflexivity).
    match goal with Hr : mapM cb_point _ = Some ?r |- _ => exists [r]; rewrite mapM_single; unfold oid; rewrite Hr; split; reflexivity end.
  - intros d0 f d' Hn E. destruct f; cbn [elab_file_stmt] in E; try (inversion E; subst; reflexivity). exfalso. eapply Hn. reflexivity.
  - reflexivity.
  - exists (List.concat ess). split; [apply (flatten_mapM oid diearea_of_stmt), Hm | exact Hp].
Qed.

(* ------------------------------------------------------------------------------------------------ *)
(** * one net statement: connection order, attributes, wiring statements *)
Lemma fold_apply_pins : forall its n, dn_pins (fold_left apply_item its n) = dn_pins n ++ pins_of_items its.
Proof.
  induction its as [|it its IH]; intro n; [symmetry; apply app_nil_r|].
  cbn [fold_left]. rewrite IH. unfold pins_of_items. cbn [flat_map]. destruct it; cbn [apply_item dn_pins app]; [now rewrite <- app_assoc | reflexivity | reflexivity].
Qed.
Theorem net_stmt_pins : forall name its, dn_pins (cb_net_stmt name its) = pins_of_items its.
Proof. intros. unfold cb_net_stmt. now rewrite fold_apply_pins. Qed.

Definition attr_free (k : string) (its : list nitem) : bool :=
  forallb (fun it => match it with NAttr k' _ => negb (String.eqb k' k) | _ => true end) its.
Definition no_text (k : string) (d : pdict nval) : Prop := forall s, pd_get k d <> Some (NStr s).
Definition wiring_get (k : string) (d : pdict nval) : list dwire := match pd_get k d with Some (NWires l) => l | _ => [] end.

Lemma nd_extend_get : forall k k' ws d, no_text k' d ->
  pd_get k' (nd_extend k ws d) =
  if String.eqb k' k then Some (NWires (wiring_get k' d ++ ws)) else pd_get k' d.
Proof.
  intros k k' ws. induction d as [|[k2 v2] d IH]; intro Hn; cbn [nd_extend pd_get].
  - unfold wiring_get. cbn [pd_get]. destruct (String.eqb k' k); reflexivity.
  - unfold no_text in *. destruct (String.eqb k k2) eqn:E; cbn [pd_get].
    + apply String.eqb_eq in E. subst k2. unfold wiring_get. cbn [pd_get]. destruct (String.eqb k' k) eqn:E2; [|reflexivity].
      destruct v2 as [s|l]; [|reflexivity]. exfalso. apply (Hn s). cbn [pd_get]. now rewrite E2.
    + unfold wiring_get in *. cbn [pd_get] in *. destruct (String.eqb k' k2) eqn:E2.
      * apply String.eqb_eq in E2. subst k2. rewrite String.eqb_sym in E. now rewrite E.
      * apply IH. intros s Hs. apply (Hn s). rewrite ?E2. cbn [pd_get]. rewrite ?E2. exact Hs.
Qed.
Lemma fold_apply_wiring : forall k its n, attr_free k its = true -> no_text k (dn_attrs n) ->
  no_text k (dn_attrs (fold_left apply_item its n)) /\
  wiring_get k (dn_attrs (fold_left apply_item its n)) = wiring_get k (dn_attrs n) ++ collect_dw k (wiring_of_items its).
Proof.
  intro k. induction its as [|it its IH]; intros n Ha Hn; [split; [exact Hn | symmetry; apply app_nil_r]|].
  cbn [attr_free forallb] in Ha. apply andb_true_iff in Ha. destruct Ha as [Hit Ha]. cbn [fold_left].
  destruct it as [a b|k' v|k' ws]; cbn [apply_item].
  - unfold wiring_of_items. cbn [flat_map app]. exact (IH (mkDN (dn_name n) (dn_pins n ++ [(a, b)]) (dn_attrs n)) Ha Hn).
  - apply negb_true_iff in Hit. unfold wiring_of_items. cbn [flat_map app]. fold (wiring_of_items its).
    assert (Hg : pd_get k (pd_set k' (NStr v) (dn_attrs n)) = pd_get k (dn_attrs n)) by (rewrite pd_get_set, String.eqb_sym, Hit; reflexivity).
    destruct (IH (mkDN (dn_name n) (dn_pins n) (pd_set k' (NStr v) (dn_attrs n))) Ha) as [H1 H2].
    { unfold no_text. cbn [dn_attrs]. rewrite Hg. exact Hn. }
    split; [exact H1|]. rewrite H2. unfold wiring_get. cbn [dn_attrs]. rewrite Hg. reflexivity.
  - pose proof (nd_extend_get k' k ws (dn_attrs n) Hn) as Hg.
    destruct (IH (mkDN (dn_name n) (dn_pins n) (nd_extend k' ws (dn_attrs n))) Ha) as [H1 H2].
    { unfold no_text. cbn [dn_attrs]. rewrite Hg. destruct (String.eqb k k'); [discriminate | exact Hn]. }
    split; [exact H1|]. rewrite H2. unfold wiring_get at 1. cbn [dn_attrs]. rewrite Hg.
    unfold wiring_of_items, collect_dw. cbn [flat_map fst snd app]. rewrite String.eqb_sym.
    destruct (String.eqb k' k); [now rewrite <- app_assoc | reflexivity].
Qed.
(* the wires stored under a wiring keyword are exactly those of the statements written with that keyword, in order *)
Theorem net_stmt_wiring : forall name its k, attr_free k its = true ->
  dnet_wiring k (cb_net_stmt name its) = collect_dw k (wiring_of_items its).
Proof.
  intros name its k Ha. unfold cb_net_stmt, dnet_wiring.
  destruct (fold_apply_wiring k its (dnet_new name) Ha) as [_ H].
  - unfold no_text, dnet_new. cbn [dn_attrs pd_get]. destruct (String.eqb k "routed"); discriminate.
  - unfold wiring_get in H. rewrite H. cbn [dnet_new dn_attrs pd_get]. destruct (String.eqb k "routed"); reflexivity.
Qed.
(* an attribute holds the text of the LAST '+ USE' / '+ NONDEFAULTRULE' option *)
Lemma fold_apply_attr : forall k its n, (forall wk, k <> wkw_lower wk) ->
  (forall it, In it its -> match it with NWiring k' _ => exists wk, k' = wkw_lower wk | _ => True end) ->
  pd_get k (dn_attrs (fold_left apply_item its n)) = last_with k (map (fun kv => (fst kv, NStr (snd kv))) (attrs_of_items its)) (pd_get k (dn_attrs n)).
Proof.
  intros k its. induction its as [|it its IH]; intros n Hk Hw; [reflexivity|]. cbn [fold_left].
  rewrite IH; [|exact Hk | intros; apply Hw; right; assumption].
  unfold attrs_of_items. cbn [flat_map]. destruct it as [a b|k' v|k' ws]; cbn [apply_item dn_attrs app map last_with fst snd].
  - reflexivity.
  - now rewrite pd_get_set.
  - f_equal. destruct (Hw (NWiring k' ws) (or_introl eq_refl)) as [wk Ewk]. subst k'.
    assert (E : String.eqb k (wkw_lower wk) = false) by (apply String.eqb_neq, Hk).
    clear - E. induction (dn_attrs n) as [|[k2 v2] d IHd]; cbn [nd_extend pd_get]; [now rewrite E|].
    destruct (String.eqb (wkw_lower wk) k2) eqn:E2; cbn [pd_get].
    + apply String.eqb_eq in E2. subst k2. now rewrite E.
    + destruct (String.eqb k k2); [reflexivity | exact IHd].
Qed.

(** ** from the tree: what is written under a net *)
Definition written_pins {W} (items : list (net_item W)) : list (string * string) :=
  flat_map (fun it => match it with NIPin a b => [(a, b)] | _ => [] end) items.
Definition written_wiring {W} (items : list (net_item W)) : list (wkw * list W) :=
  flat_map (fun it => match it with NIWires k w ws => [(k, w :: ws)] | _ => [] end) items.
Definition written_opts {W} (items : list (net_item W)) : list (okw * string) :=
  flat_map (fun it => match it with NIOpt k v => [(k, v)] | _ => [] end) items.

Lemma wkw_okw_differ : forall wk ok, okw_lower ok <> wkw_lower wk.
Proof. intros [] []; discriminate. Qed.
Lemma elab_item_cases : forall {W} (ew : W -> option dwire) it i, elab_item ew it = Some i ->
  match it with
  | NIPin a b => i = NPin a b
  | NIOpt k v => i = NAttr (okw_lower k) v
  | NIWires k w ws => exists dws, mapM ew (w :: ws) = Some dws /\ i = NWiring (wkw_lower k) dws
  end.
Proof.
  intros W ew it i H. destruct it as [a b|k v|k w ws]; cbn [elab_item] in H.
  - now inversion H.
  - now inversion H.
  - destruct (mapM ew (w :: ws)) as [dws|]; [|discriminate]. inversion H. exists dws. split; reflexivity.
Qed.
Lemma elab_items_facts : forall {W} (ew : W -> option dwire) items its, mapM (elab_item ew) items = Some its ->
  pins_of_items its = written_pins items /\
  attrs_of_items its = map (fun kv => (okw_lower (fst kv), snd kv)) (written_opts items) /\
  Forall2 (fun s r => fst r = wkw_lower (fst s) /\ mapM ew (snd s) = Some (snd r)) (written_wiring items) (wiring_of_items its) /\
  (forall wk, attr_free (wkw_lower wk) its = true) /\
  (forall it, In it its -> match it with NWiring k' _ => exists wk, k' = wkw_lower wk | _ => True end).
Proof.
  intros W ew items its H. apply mapM_Forall2 in H.
  induction H as [|it i items its Hi Hl IH].
  - repeat split; try constructor. intros it [].
  - destruct IH as [H1 [H2 [H3 [H4 H5]]]]. apply elab_item_cases in Hi.
    unfold pins_of_items, attrs_of_items, wiring_of_items, written_pins, written_opts, written_wiring in *.
    destruct it as [a b|k v|k w ws].
    + subst i. cbn [flat_map app map]. repeat split.
      * now rewrite H1.
      * exact H2.
      * exact H3.
      * intro wk. cbn [attr_free forallb]. apply H4.
      * intros it [E|Hin]; [subst it; exact I | apply H5, Hin].
    + subst i. cbn [flat_map app map fst snd]. repeat split.
      * exact H1.
      * now rewrite H2.
      * exact H3.
      * intro wk. pose proof (H4 wk) as H4'. unfold attr_free in *. cbn [forallb]. rewrite H4', andb_true_r. apply negb_true_iff, String.eqb_neq, wkw_okw_differ.
      * intros it [E|Hin]; [subst it; exact I | apply H5, Hin].
    + destruct Hi as [dws [Ew Ei]]. subst i. cbn [flat_map app map]. repeat split.
      * exact H1.
      * exact H2.
      * constructor; [split; [reflexivity | exact Ew] | exact H3].
      * intro wk. cbn [attr_free forallb]. apply H4.
      * intros it [E|Hin]; [subst it; exists k; reflexivity | apply H5, Hin].
Qed.

Definition wires_under {W} (k : wkw) (items : list (net_item W)) : list W :=
  flat_map (fun s => match fst s, k with
                     | KCover, KCover | KFixed, KFixed | KRouted, KRouted | KNoshield, KNoshield => snd s
                     | _, _ => [] end) (written_wiring items).
Lemma wkw_lower_eqb : forall a b, String.eqb (wkw_lower a) (wkw_lower b) = match a, b with
  | KCover, KCover | KFixed, KFixed | KRouted, KRouted | KNoshield, KNoshield => true | _, _ => false end.
Proof. intros [] []; reflexivity. Qed.

(* a net of the tree: name, connections in the order written, and under every wiring keyword exactly the wires
   written in the statements with that keyword, in order, each elaborated by the wire callback *)
Theorem net_as_written : forall {W} (ew : W -> option dwire) name items its k, mapM (elab_item ew) items = Some its ->
  let n := cb_net_stmt name its in
  dn_name n = name /\ dn_pins n = written_pins items /\
  mapM ew (wires_under k items) = Some (dnet_wiring (wkw_lower k) n).
Proof.
  intros W ew name items its k H n. destruct (elab_items_facts ew items its H) as [H1 [H2 [H3 [H4 H5]]]].
  split; [apply fold_apply_name|]. split; [subst n; now rewrite net_stmt_pins|].
  subst n. rewrite (net_stmt_wiring name its _ (H4 k)). unfold wires_under, collect_dw.
  clear - H3. induction H3 as [|s r ss rs [Hk Hs] Hr IH]; [reflexivity|].
  cbn [flat_map]. rewrite mapM_app, IH. destruct s as [ks ws]; destruct r as [kr dws]. cbn [fst snd] in *. subst kr.
  rewrite String.eqb_sym, wkw_lower_eqb. destruct ks, k; cbn [mapM]; try rewrite Hs; reflexivity.
Qed.
Theorem net_attr_as_written : forall {W} (ew : W -> option dwire) name items its ok, mapM (elab_item ew) items = Some its ->
  pd_get (okw_lower ok) (dn_attrs (cb_net_stmt name its)) =
  last_with (okw_lower ok) (map (fun kv => (okw_lower (fst kv), NStr (snd kv))) (written_opts items)) None.
Proof.
  intros W ew name items its ok H. destruct (elab_items_facts ew items its H) as [H1 [H2 [H3 [H4 H5]]]].
  unfold cb_net_stmt. rewrite fold_apply_attr; [|intro wk; apply wkw_okw_differ | exact H5].
  rewrite H2, map_map. cbn [dnet_new dn_attrs pd_get fst snd]. destruct ok; reflexivity.
Qed.

(* ------------------------------------------------------------------------------------------------ *)
(** * wires: what reaches Model/DefRoute.v is what the file writes *)
Definition coord_is (c : coord) (v : option Z) : Prop :=
  match c with CStar => v = None | CNum s => exists z, py_int s = Some z /\ v = Some z end.
Theorem point_as_written : forall p r, cb_point p = Some r <->
  coord_is (tp_x p) (rp_x r) /\ coord_is (tp_y p) (rp_y r) /\
  match tp_z p with None => rp_z r = None | Some s => exists z, py_int s = Some z /\ rp_z r = Some z end.
Proof.
  intros [x y z] [rx ry rz]. unfold cb_point, coord_is. cbn [tp_x tp_y tp_z rp_x rp_y rp_z]. split.
  - intro H. destruct x as [|sx], y as [|sy], z as [sz|]; cbn [int_coord option_map] in H;
      repeat match type of H with context [py_int ?s] => destruct (py_int s) eqn:?; cbn [option_map] in H end;
      try discriminate H; inversion H; subst; repeat split; eauto.
  - intros [Hx [Hy Hz]]. destruct x as [|sx], y as [|sy], z as [sz|]; cbn [int_coord];
      repeat match goal with H : exists _, _ /\ _ |- _ => destruct H as [? [? ?]] end; subst;
      repeat match goal with H : py_int _ = Some _ |- _ => rewrite H; clear H end; reflexivity.
Qed.

Definition relem_is (e : relem) (e' : elem) : Prop :=
  match e, e' with
  | RPoint p, EPt x y z => cb_point p = Some (mkRP x y z)
  | RVia nm o, EVia nm' v => nm' = nm /\ v = VOrient (match o with None => "N"%string | Some s => s end)
  | _, _ => False
  end.
Definition spelem_is (e : spelem) (e' : elem) : Prop :=
  match e, e' with
  | SPPoint p, EPt x y z => cb_point p = Some (mkRP x y z)
  | SPVia nm None, EVia nm' v => nm' = nm /\ v = VNone
  | SPVia nm (Some d), EVia nm' v => nm' = nm /\ exists t, cb_do_step d = Some t /\ v = array_param t
  | _, _ => False
  end.
Lemma route_shape : forall dw r, route_of_dwire dw = Some r ->
  exists x y z rest, dw_points dw = DPt (mkRP (Some x) (Some y) z) :: rest /\ w_first r = (x, y, z) /\
    w_rest r = map elem_of_dpoint rest /\ w_layer r = dw_layer dw /\
    match dw_width dw with None => w_width r = None | Some s => exists wd, py_int s = Some wd /\ w_width r = Some wd end.
Proof.
  intros dw r H. unfold route_of_dwire in H. destruct (dw_points dw) as [|[[[x|] [y|] z]|nm v] rest]; try discriminate H.
  exists x, y, z, rest. destruct (dw_width dw) as [s|].
  - destruct (py_int s) as [wd|] eqn:E; [|discriminate H]. inversion H; subst. cbn. repeat split. exists wd. split; reflexivity.
  - inversion H; subst. cbn. repeat split.
Qed.
(* a regular wire: layer, no width, first point fully written, then the points / vias in the order written
   ('*' stays None, a via without orientation gets 'N') *)
Theorem rwire_as_written : forall w dw r, elab_rwire w = Some dw -> route_of_dwire dw = Some r ->
  w_layer r = rw_layer w /\ w_width r = None /\
  cb_point (rw_first w) = Some (mkRP (Some (px (w_first r))) (Some (py (w_first r))) (pext (w_first r))) /\
  Forall2 relem_is (rw_rest w) (w_rest r).
Proof.
  intros w dw r He Hr. unfold elab_rwire in He. destruct (cb_point (rw_first w)) as [p|] eqn:Ep; [|discriminate He].
  destruct (mapM elab_relem (rw_rest w)) as [rest|] eqn:Em; [|discriminate He]. inversion He; subst dw. clear He.
  destruct (route_shape _ _ Hr) as [x [y [z [rest' [Hp [Hf [Hrest [Hl Hw]]]]]]]]. cbn [cb_wire dw_points dw_layer dw_width] in *.
  inversion Hp; subst p rest'. rewrite Hf, Hrest. repeat split; try assumption.
  apply mapM_Forall2 in Em. clear - Em. induction Em as [|e d es ds He Hes IH]; [constructor|]. cbn [map]. constructor; [|exact IH].
  destruct e as [p|nm o]; cbn [elab_relem] in He.
  - destruct (cb_point p) as [[a b c]|] eqn:E; inversion He; subst. exact E.
  - inversion He; subst. destruct o; cbn; split; reflexivity.
Qed.
(* a special wire: layer, width = int(text), points / vias in the order written (no DO..STEP: parameter None) *)
Theorem spwire_as_written : forall w dw r, elab_spwire w = Some dw -> route_of_dwire dw = Some r ->
  w_layer r = sw_layer w /\ (exists wd, py_int (sw_width w) = Some wd /\ w_width r = Some wd) /\
  cb_point (sw_first w) = Some (mkRP (Some (px (w_first r))) (Some (py (w_first r))) (pext (w_first r))) /\
  Forall2 spelem_is (sw_rest w) (w_rest r).
Proof.
  intros w dw r He Hr. unfold elab_spwire in He. destruct (cb_point (sw_first w)) as [p|] eqn:Ep; [|discriminate He].
  destruct (mapM elab_spelem (sw_rest w)) as [rest|] eqn:Em; [|discriminate He]. inversion He; subst dw. clear He.
  destruct (route_shape _ _ Hr) as [x [y [z [rest' [Hp [Hf [Hrest [Hl Hw]]]]]]]]. cbn [cb_spwire dw_points dw_layer dw_width] in *.
  inversion Hp; subst p rest'. rewrite Hf, Hrest. repeat split; try assumption.
  apply mapM_Forall2 in Em. clear - Em. induction Em as [|e d es ds He Hes IH]; [constructor|]. cbn [map]. constructor; [|exact IH].
  destruct e as [p|nm [ds0|]]; cbn [elab_spelem] in He.
  - destruct (cb_point p) as [[a b c]|] eqn:E; inversion He; subst. exact E.
  - destruct (cb_do_step ds0) as [t|] eqn:E; inversion He; subst. cbn [spelem_is elem_of_dpoint cb_sppoints_via]. split; [reflexivity|]. exists t. split; [exact E | reflexivity].
  - inversion He; subst. cbn. split; reflexivity.
Qed.

(** ** callbacks ; DefRoute: the listings of an extracted net are those of the '+ ROUTED' statements written under it *)
Theorem def_of_tree_listing : forall {W} (ew : W -> option dwire) name items its ws,
  mapM (elab_item ew) items = Some its ->
  mapM route_of_dwire (dnet_routed (cb_net_stmt name its)) = Some ws ->
  (* the wires that reach DefRoute are the written ones ... *)
  (exists dws, mapM ew (wires_under KRouted items) = Some dws /\ mapM route_of_dwire dws = Some ws) /\
  (* ... and DefNet.wires / DefNet.vias are the per-layer / per-type listings of exactly those (Proofs/DefRouteProofs.v) *)
  dnet_wires (cb_net_stmt name its) = Some (net_wires ws) /\ dnet_vias (cb_net_stmt name its) = Some (net_vias ws) /\
  (forall L, dd_get L (net_wires ws) =
             map (fun w => (w_width w, wire_points w)) (filter (fun w => String.eqb L (w_layer w) && has_segment w) ws)) /\
  (forall t, dd_get t (net_vias ws) = flat_map (fun w => under t (wire_via_walk w)) ws).
Proof.
  intros W ew name items its ws Hi Hr. destruct (net_as_written ew name items its KRouted Hi) as [_ [_ Hw]].
  split; [exists (dnet_wiring (wkw_lower KRouted) (cb_net_stmt name its)); split; [exact Hw | exact Hr]|].
  unfold dnet_wires, dnet_vias. rewrite Hr. cbn [option_map]. repeat split.
  - apply per_layer_wires.
  - apply per_type_vias.
Qed.

(* ------------------------------------------------------------------------------------------------ *)
(** * the hypotheses are satisfiable: a small design *)
Local Open Scope string_scope.
Definition ex_tree : tree :=
  mkTree (Some "# example")
    [FVersion "5.8"; FDividerchar """/"""; FDesign "top"
      [SUnits "DISTANCE" "MICRONS" "1000"; SDiearea (mkTP (CNum "0") (CNum "0") None) [mkTP (CNum "100") (CNum "200") None];
       SRow "ROW_0" "core" "0" "0" "N" (mkDS "17" "1" "380" "0"); STracks "X" "190" "30" "380" "M1";
       SComp "2" [mkCS "u1" "AND2_X1" (mkTP (CNum "10") (CNum "20") None) "N"; mkCS "u2" "INV_X1" (mkTP (CNum "30") (CNum "20") None) "FS"];
       SPins "1" [mkPS "clk" [PONet "clk"; PODirection "INPUT"; POLayer "M2" (mkTP (CNum "0") (CNum "0") None) (mkTP (CNum "5") (CNum "5") None);
                              POPlaced (mkTP (CNum "0") (CNum "50") None) "N"]];
       SSpnets "1" [mkSN "VDD" [NIPin "*" "VDD"; NIOpt KUse "POWER";
                                NIWires KRouted (mkSW "M1" "140" [SWShape "STRIPE"] (mkTP (CNum "0") (CNum "0") None)
                                                   [SPPoint (mkTP (CNum "100") CStar None); SPVia "via1" (Some (mkDS "2" "1" "50" "0"))]) []]];
       SNets "1" [mkNN "n1" [NIPin "u1" "Z"; NIPin "u2" "A";
                             NIWires KRouted (mkRW "M1" [] (mkTP (CNum "10") (CNum "20") None) [RPoint (mkTP CStar (CNum "40") None); RVia "via1" None])
                                             [mkRW "M2" ["r0"] (mkTP (CNum "10") (CNum "40") None) [RPoint (mkTP (CNum "30") CStar (Some "5"))]];
                             NIOpt KUse "SIGNAL";
                             NIWires KRouted (mkRW "M1" [] (mkTP (CNum "30") (CNum "40") None) [RPoint (mkTP CStar (CNum "20") None)]) []]]]].
Example ex_elab_ok : exists d, elab ex_tree = Some d /\
  NoDup (map cs_name (comps_of ex_tree)) /\ NoDup (map nn_name (nets_of ex_tree)) /\
  map fst (df_components d) = ["u1"; "u2"] /\ df_design d = Some "top" /\ df_dividerchar d = Some "/" /\
  df_rows d = [("ROW_0", "core", (0, 0), "N", 17, 380)%Z] /\
  option_map dn_pins (pd_get "n1" (df_nets d)) = Some [("u1", "Z"); ("u2", "A")] /\
  option_map (fun n => List.length (dnet_routed n)) (pd_get "n1" (df_nets d)) = Some 3 /\
  (exists n, pd_get "n1" (df_nets d) = Some n /\
     dnet_wires n = Some [("M1", [(None, [(10, 20, None); (10, 40, None)]); (None, [(30, 40, None); (30, 20, None)])]);
                          ("M2", [(None, [(10, 40, None); (30, 40, Some 5)])])]%Z /\
     dnet_vias n = Some [("via1", [(10, 40, "N")])]%Z) /\
  (exists n, pd_get "VDD" (df_specialnets d) = Some n /\
     dnet_vias n = Some [("via1", [(100, 0, "N"); (150, 0, "N")])]%Z).
Proof.
  eexists. split; [vm_compute; reflexivity|].
  split; [vm_compute; repeat constructor; cbn; intuition discriminate|].
  split; [vm_compute; repeat constructor; cbn; intuition discriminate|].
  do 6 (split; [vm_compute; reflexivity|]).
  split.
  - eexists. split; [vm_compute; reflexivity|]. split; vm_compute; reflexivity.
  - eexists. split; vm_compute; reflexivity.
Qed.
(* int() raising makes the callback, and so the whole parse, raise *)
Example ex_elab_raises :
  elab (mkTree None [FDesign "d" [SUnits "DISTANCE" "MICRONS" "1.5"]]) = None /\
  elab (mkTree None [FDesign "d" [SDiearea (mkTP (CNum "1e3") (CNum "0") None) []]]) = None /\
  py_int "-12" = Some (-12)%Z /\ py_int "+7" = Some 7%Z /\ py_int "007" = Some 7%Z /\ py_int "" = None /\ py_int "1_0" = None.
Proof. vm_compute. repeat split; reflexivity. Qed.
(* a repeated name: one entry, at the position of the first statement, with the data of the last *)
Example ex_repeated_name :
  option_map df_components (elab (mkTree None [FDesign "d" [SComp "3" [mkCS "a" "K1" (mkTP (CNum "1") (CNum "1") None) "N"; mkCS "b" "K2" (mkTP (CNum "2") (CNum "2") None) "N";
                                                                      mkCS "a" "K3" (mkTP (CNum "3") (CNum "3") None) "S"]]])) =
  Some [("a", ("K3", mkRP (Some 3%Z) (Some 3%Z) None, "S")); ("b", ("K2", mkRP (Some 2%Z) (Some 2%Z) None, "N"))].
Proof. vm_compute. reflexivity. Qed.
