(** C10, substitute on arbitrary implementation circuits: the state [c4] after all pins are re-attached computes, gate by gate,
    "the host with the instance read as the implementation" ([inst_sol]); id-based semantics of Model/CircuitSem.v. *)
From Coq Require Import List Arith Bool String NArith Lia.
From KV Require Model.Prims Model.Netlist Model.SimOps Model.NetlistSem Gen.SimTables.
From KV Require Import Model.Circuit Model.CircuitInv Model.CircuitView Model.CircuitSem Model.CircuitSubstSem
     Proofs.CircuitBase Proofs.CircuitProofs Proofs.CircuitBool Proofs.CircuitViewProofs Proofs.CircuitElimSem Proofs.CircuitSubstInv.
Import ListNotations.
Local Open Scope list_scope.

(** ** index_of *)
Lemma index_of_nth : forall x l k, index_of x l = Some k -> nth_error l k = Some x.
Proof.
  intros x l. induction l as [|y r IH]; intros k H; simpl in H. discriminate.
  destruct (Nat.eqb_spec x y).
  - inv H. reflexivity.
  - destruct (index_of x r) as [j|]; simpl in H; [|discriminate]. inv H. simpl. apply IH. reflexivity.
Qed.
Lemma index_of_in : forall x l, In x l -> exists k, index_of x l = Some k.
Proof.
  intros x l. induction l as [|y r IH]; intros H; simpl in *. contradiction.
  destruct (Nat.eqb_spec x y). exists 0; auto.
  destruct H as [H|H]. congruence. destruct (IH H) as [k ->]. exists (S k). reflexivity.
Qed.
Lemma index_of_none : forall x l, index_of x l = None -> ~ In x l.
Proof. intros x l H Hin. destruct (index_of_in x l Hin) as [k E]. congruence. Qed.

Lemma nth_some_lt : forall {A} (l : list (option A)) p a, nth p l None = Some a -> p < List.length l.
Proof.
  intros A l p a H. destruct (Nat.lt_ge_cases p (List.length l)); auto. rewrite nth_overflow in H by lia. discriminate.
Qed.

(** ** gate_ok between different pin lists *)
Section GateXfer.
Context {V : Type} (sem : BinNums.N -> V -> V -> V -> V -> V) (zero : V).
Hypothesis Hbuf : forall x a b d, sem (SimOps.lutv "BUF1") x a b d = x.

Lemma gate_ok_xfer : forall kind ins ins' outs outs' ifc (v v' : nat -> V),
  (forall k, NetlistSem.pinv zero v ins k = NetlistSem.pinv zero v' ins' k) ->
  (forall k, k = 2 \/ k = 3 -> Netlist.is_some (SimOps.pin ins k) = Netlist.is_some (SimOps.pin ins' k)) ->
  (forall k o', SimOps.pin outs' k = Some o' -> exists o, SimOps.pin outs k = Some o /\ v o = v' o') ->
  gate_ok sem zero kind ins outs ifc v -> gate_ok sem zero kind ins' outs' ifc v'.
Proof.
  intros kind ins ins' outs outs' ifc v v' Hp Hs Ho. unfold gate_ok. rewrite <- !Hp.
  rewrite <- (Hs 2) by auto. rewrite <- (Hs 3) by auto.
  destruct ifc as [s|].
  - intros [A B]. split. { intros o' Hq. destruct (Ho _ _ Hq) as [o [Hq' <-]]. apply A; auto. }
    destruct (kind_is_dff kind).
    + intros o' Hq. destruct (Ho _ _ Hq) as [o [Hq' <-]]. apply B; auto.
    + intros k o' Hk Hq. destruct (Ho _ _ Hq) as [o [Hq' <-]]. apply (B k o); auto.
  - destruct (kind_is_fork kind).
    + intros A k o' Hq. destruct (Ho _ _ Hq) as [o [Hq' <-]]. apply (A k o Hq').
    + destruct (Prims.select_lut _ _ _ _); auto. intros A o' Hq. destruct (Ho _ _ Hq) as [o [Hq' <-]]. apply A; auto.
Qed.

(* a fork that is an interface node: every output carries the stimulus; a fork that is a wire: every output carries pin 0 *)
Lemma iface_fork_eq : forall ins outs s (w : nat -> V),
  gate_ok sem zero FORK ins outs (Some s) w <-> (forall p o, SimOps.pin outs p = Some o -> w o = s).
Proof.
  intros ins outs s w. unfold gate_ok.
  assert (E : kind_is_dff FORK = false) by (vm_compute; reflexivity). rewrite E. split.
  - intros [A B] p o Hq. destruct p as [|p].
    + rewrite (A o Hq). apply Hbuf.
    + rewrite (B (S p) o) by (auto; lia). apply Hbuf.
  - intros H. split.
    + intros o Hq. rewrite Hbuf. eapply H; eauto.
    + intros k o _ Hq. rewrite Hbuf. eapply H; eauto.
Qed.
Lemma wire_fork_eq : forall ins outs (w : nat -> V),
  gate_ok sem zero FORK ins outs None w <-> (forall p o, SimOps.pin outs p = Some o -> w o = NetlistSem.pinv zero w ins 0).
Proof.
  intros ins outs w. unfold gate_ok.
  assert (E : kind_is_fork FORK = true) by (vm_compute; reflexivity). rewrite E. split.
  - intros A p o Hq. rewrite (A p o Hq). apply Hbuf.
  - intros H p o Hq. rewrite Hbuf. eapply H; eauto.
Qed.
End GateXfer.

(** ** interface nodes outside io: exactly the state elements *)
Lemma ciface_noio : forall cc n, CInv cc -> IoLive cc -> In n (nodes cc) -> ~ In (Some n) (io cc) ->
  ciface cc n = kind_is_dff (kind_of cc n) || kind_is_latch (kind_of cc n).
Proof.
  intros cc n [HC _] HL Hn Hio. unfold ciface.
  assert (Hm : mem n (s_node_ids cc) = kind_is_dff (kind_of cc n) || kind_is_latch (kind_of cc n)).
  { destruct (kind_is_dff (kind_of cc n) || kind_is_latch (kind_of cc n)) eqn:E.
    - apply mem_In. rewrite (s_node_ids_spec cc HC HL). rewrite !in_app_iff, !filter_In. unfold node_is_dff, node_is_latch.
      apply orb_true_iff in E. tauto.
    - apply mem_false. rewrite (s_node_ids_spec cc HC HL). rewrite !in_app_iff, !filter_In. unfold node_is_dff, node_is_latch.
      apply orb_false_iff in E. destruct E as [E1 E2]. intros [H|[[_ H]|[_ H]]]; try congruence.
      apply (io_ids_in cc n HL) in H. auto. }
  rewrite Hm. unfold kind_port_wire.
  destruct (String.eqb (kind_of cc n) "__fork__") eqn:Ek; simpl; auto.
  destruct (fork_not_dff cc n Ek) as [A B]. unfold node_is_dff, node_is_latch in *. rewrite A, B.
  destruct (Netlist.is_some _); reflexivity.
Qed.

(** ** the glue theorem *)
Section Glue.
Context {V : Type} (sem : BinNums.N -> V -> V -> V -> V -> V) (zero : V).
Hypothesis Hbuf : forall x a b d, sem (SimOps.lutv "BUF1") x a b d = x.
Variables (c : circ) (u : nat) (impl : circ) (m : list (nat * nat)) (c4 : circ).
Hypothesis HIc : CInv c.
Hypothesis HLc : IoLive c.
Hypothesis Hu : In u (nodes c).
Hypothesis Hiou : io_mem c u = false.
Hypothesis HIi : CInv impl.
Hypothesis HLi : IoLive impl.
Hypothesis Hforks : io_forks_b impl = true.
Hypothesis HI4 : CInv c4.
Hypothesis HL4 : IoLive c4.
Hypothesis G : SubstGlue c u impl m c4.
Hypothesis HD22 : d22_free_b c u impl = true.
Hypothesis HOUT : all_outs_connected_b c u impl = true.
Let HCc : CCoreX [] c := proj1 HIc.
Let HCi : CCoreX [] impl := proj1 HIi.
Let HC4 : CCoreX [] c4 := proj1 HI4.

(** *** ports of the implementation *)
Lemma port_ids : forall x, In x (nodes impl) -> in_ios impl x = true -> In x (io_ids impl) /\ kind_of impl x = FORK.
Proof.
  intros x Hx H. split.
  - apply (io_ids_in impl x HLi). apply (in_ios_io impl HCi HLi); auto.
  - apply fork_kind. apply (in_ios_fork impl); auto.
Qed.
Lemma ids_port : forall x, In x (io_ids impl) -> In x (nodes impl) /\ in_ios impl x = true /\ kind_of impl x = FORK.
Proof.
  intros x H. apply (io_ids_in impl x HLi) in H. destruct (HLi _ H) as [n [E Hn]]. inv E.
  assert (A : in_ios impl n = true) by (apply io_in_ios; auto).
  split; auto. split; auto. apply fork_kind. apply (in_ios_fork impl); auto.
Qed.
Lemma noport_ids : forall x, in_ios impl x = false -> ~ In x (io_ids impl) /\ ~ In (Some x) (io impl).
Proof.
  intros x H. assert (A : ~ In (Some x) (io impl)).
  { intros Hc. apply io_in_ios in Hc. congruence. }
  split; auto. intros Hc. apply A. apply (io_ids_in impl x HLi). exact Hc.
Qed.
Lemma impl_ins_spec : forall x, In x (impl_ins impl) <-> In x (io_ids impl) /\ List.length (ins_of impl x) = 0.
Proof. intros x. unfold impl_ins. rewrite filter_In, Nat.eqb_eq. tauto. Qed.
Lemma impl_outs_spec : forall x, In x (impl_outs impl) <-> In x (io_ids impl) /\ 0 < List.length (ins_of impl x).
Proof. intros x. unfold impl_outs. rewrite filter_In, Nat.ltb_lt. tauto. Qed.

Lemma unmapped_cases : forall x, In x (nodes impl) -> mget x m = None ->
  In x (io_ids impl) /\ kind_of impl x = FORK /\
  ((List.length (ins_of impl x) = 0 /\ List.length (outs_of impl x) = 1) \/
   (0 < List.length (ins_of impl x) /\ List.length (outs_of impl x) = 0)).
Proof.
  intros x Hx Hm. destruct (sg_dom _ _ _ _ _ G x Hx Hm) as [A B]. destruct (port_ids x Hx A) as [P Q].
  split; auto. split; auto. unfold port_fork_b in B.
  destruct (Nat.ltb_spec 0 (List.length (outs_of impl x))), (Nat.ltb_spec 0 (List.length (ins_of impl x))),
    (Nat.eqb_spec (List.length (ins_of impl x)) 0), (Nat.eqb_spec (List.length (outs_of impl x)) 1);
    simpl in B; try discriminate; lia.
Qed.

Lemma unmapped_driver : forall l d, In l (lines impl) -> l_drv (lst impl l) = Some d -> mget d m = None ->
  In d (nodes impl) /\ (exists k, index_of d (impl_ins impl) = Some k) /\ outs_of impl d = [Some l] /\
  l_dpin (lst impl l) = 0 /\ List.length (ins_of impl d) = 0.
Proof.
  intros l d Hl Hd Hm. destruct (impl_line impl HCi l Hl) as [d0 [r [E1 [E2 [Hd0 [Hr [Ho Hi]]]]]]].
  rewrite Hd in E1. inv E1. destruct (unmapped_cases d0 Hd0 Hm) as [P [Q R]].
  unfold out_at in Ho. pose proof (nth_some_lt _ _ _ Ho) as Hlt.
  destruct R as [[R1 R2]|[R1 R2]]; [|lia].
  split; auto. split. { apply index_of_in. apply impl_ins_spec. auto. }
  assert (E0 : l_dpin (lst impl l) = 0) by lia. rewrite E0 in Ho.
  destruct (outs_of impl d0) as [|e [|e' t]]; simpl in *; try lia. subst e. auto.
Qed.

Lemma host_out_line : forall k ll, nth k (outs_of c u) None = Some ll ->
  In ll (lines c) /\ l_drv (lst c ll) = Some u /\ l_dpin (lst c ll) = k.
Proof. intros k ll H. apply (cc_outs [] c HCc u k ll (or_introl Hu)). exact H. Qed.
Lemma host_in_line : forall k ll, nth k (ins_of c u) None = Some ll ->
  In ll (lines c) /\ l_rdr (lst c ll) = Some u /\ l_rpin (lst c ll) = k.
Proof. intros k ll H. apply (cc_ins [] c HCc u k ll (or_introl Hu)). exact H. Qed.

Lemma unmapped_reader : forall l r, In l (lines impl) -> l_rdr (lst impl l) = Some r -> mget r m = None ->
  In r (nodes impl) /\ l_rpin (lst impl l) = 0 /\ in_at impl r 0 = Some l /\
  exists k ll, index_of r (impl_outs impl) = Some k /\ nth k (outs_of c u) None = Some ll.
Proof.
  intros l r Hl Hr Hm. destruct (impl_line impl HCi l Hl) as [d [r0 [E1 [E2 [Hd0 [Hr0 [Ho Hi]]]]]]].
  rewrite Hr in E2. inv E2. pose proof (sg_pure _ _ _ _ _ G l r0 Hl Hr Hm) as Hp. rewrite Hp in Hi.
  destruct (unmapped_cases r0 Hr0 Hm) as [P [Q R]].
  assert (Hlen : 0 < List.length (ins_of impl r0)). { unfold in_at in Hi. apply nth_some_lt in Hi. auto. }
  split; auto. split; auto. split; auto.
  destruct (index_of_in r0 (impl_outs impl)) as [k Hk]. { apply impl_outs_spec. auto. }
  exists k. pose proof (index_of_nth _ _ _ Hk) as Hn.
  assert (Hlt : k < List.length (impl_outs impl)) by (apply nth_error_Some; congruence).
  pose proof HOUT as HO. unfold all_outs_connected_b in HO. rewrite forallb_forall in HO.
  specialize (HO k ltac:(apply in_seq; lia)).
  destruct (nth k (outs_of c u) None) as [ll|]; [|discriminate]. exists ll; auto.
Qed.

(* the driver end of an implementation line whose driver is copied *)
Lemma drv_mapped_some : forall l d r d', In l (lines impl) -> l_drv (lst impl l) = Some d -> l_rdr (lst impl l) = Some r ->
  mget d m = Some d' ->
  exists z, out_at c4 d' (l_dpin (lst impl l)) = Some z /\
    ((exists r', mget r m = Some r' /\ lnext c <= z /\ in_at c4 r' (l_rpin (lst impl l)) = Some z) \/
     (mget r m = None /\ l_rpin (lst impl l) = 0 /\ host_out c u impl r = Some z /\ In z (lines c))).
Proof.
  intros l d r d' Hl Hd Hr Hm. destruct (mget r m) as [r'|] eqn:Hmr.
  - destruct (sg_copied _ _ _ _ _ G l d r d' r' Hl Hd Hr Hm Hmr) as [z [A [B C]]]. exists z. split; auto. left. exists r'. auto.
  - destruct (unmapped_reader l r Hl Hr Hmr) as [Hrn [Hp [Hi [k [ll [Hk Hll]]]]]].
    destruct (impl_line impl HCi l Hl) as [d0 [r0 [E1 [E2 [Hd0 [Hr0 [Ho _]]]]]]]. rewrite Hd in E1. inv E1.
    exists ll. split.
    + rewrite (sg_outs _ _ _ _ _ G d0 d' _ Hm). unfold exp_out. rewrite Ho, Hr, Hmr, Hp. simpl.
      unfold host_out. rewrite Hk. exact Hll.
    + right. split; auto. split; auto. split. unfold host_out. rewrite Hk. exact Hll.
      apply (host_out_line k ll Hll).
Qed.

(** *** interface nodes *)
Lemma mapped_not_io : forall x y, mget x m = Some y -> ~ In (Some y) (io c4).
Proof.
  intros x y Hm H. rewrite (sg_io _ _ _ _ _ G) in H. destruct (HLc _ H) as [n [E Hn]]. inv E.
  destruct (sg_rng _ _ _ _ _ G x n Hm) as [_ [_ [->|Hge]]].
  - assert (A : io_mem c u = true).
    { unfold io_mem. apply existsb_exists. exists (Some u). split; auto. apply Nat.eqb_refl. }
    congruence.
  - pose proof (cc_nb [] c HCc n (or_introl Hn)). lia.
Qed.
Lemma mapped_listed : forall x y, mget x m = Some y -> In x (nodes impl) /\ In y (nodes c4).
Proof. intros x y Hm. destruct (sg_rng _ _ _ _ _ G x y Hm) as [A [B _]]. auto. Qed.

Lemma ciface_host : forall n, In n (nodes c) -> n <> u -> ciface c4 n = ciface c n.
Proof.
  intros n Hn Hne. unfold ciface. destruct (sg_host _ _ _ _ _ G n Hn Hne) as [K [_ [I O]]]. rewrite K, I. f_equal.
  apply mem_iff. rewrite (s_node_ids_spec c HCc HLc), (s_node_ids_spec c4 HC4 HL4).
  rewrite !in_app_iff, !filter_In. unfold io_ids, node_is_dff, node_is_latch. rewrite (sg_io _ _ _ _ _ G), K.
  assert (In n (nodes c4)) by (apply (sg_nodes _ _ _ _ _ G); left; auto). tauto.
Qed.
Lemma ciface_copy : forall x y, mget x m = Some y -> in_ios impl x = false ->
  ciface c4 y = ciface impl x /\ kind_of c4 y = kind_of impl x.
Proof.
  intros x y Hm Hio. destruct (mapped_listed x y Hm) as [Hx Hy].
  pose proof (sg_kind _ _ _ _ _ G x y Hm) as K. rewrite Hio in K. split; auto.
  rewrite (ciface_noio c4 y HI4 HL4 Hy (mapped_not_io x y Hm)).
  rewrite (ciface_noio impl x HIi HLi Hx (proj2 (noport_ids x Hio))). rewrite K. reflexivity.
Qed.
Lemma ciface_port_copy : forall x y, mget x m = Some y -> in_ios impl x = true ->
  ciface c4 y = false /\ kind_of c4 y = FORK.
Proof.
  intros x y Hm Hio. destruct (mapped_listed x y Hm) as [Hx Hy].
  pose proof (sg_kind _ _ _ _ _ G x y Hm) as K. rewrite Hio in K. split; auto.
  rewrite (ciface_noio c4 y HI4 HL4 Hy (mapped_not_io x y Hm)). rewrite K. vm_compute. reflexivity.
Qed.
Lemma ciface_inport : forall x, In x (io_ids impl) -> List.length (ins_of impl x) = 0 -> ciface impl x = true.
Proof.
  intros x Hx Hl. unfold ciface, kind_port_wire. destruct (ins_of impl x) as [|e t]; [|simpl in Hl; lia].
  replace (SimOps.pin [] 0) with (@None nat) by reflexivity. simpl. rewrite andb_false_r. simpl.
  apply mem_In. rewrite (s_node_ids_spec impl HCi HLi). apply in_app_iff. auto.
Qed.
Lemma ciface_outport : forall x l, kind_of impl x = FORK -> in_at impl x 0 = Some l -> ciface impl x = false.
Proof. intros x l K H. unfold ciface, kind_port_wire. rewrite K, pin_in_at, H. reflexivity. Qed.

Lemma d22_pin : forall l d k, In l (lines impl) -> l_drv (lst impl l) = Some d -> mget d m = None ->
  index_of d (impl_ins impl) = Some k -> nth k (ins_of c u) None = None -> l_rpin (lst impl l) < 2.
Proof.
  intros l d k Hl Hd Hm Hk Hn. destruct (unmapped_driver l d Hl Hd Hm) as [_ [_ [Ho _]]].
  pose proof HD22 as HD. unfold d22_free_b in HD.
  pose proof (forallb_i_spec _ _ _ HD k d (index_of_nth _ _ _ Hk)) as H. simpl in H. rewrite Hn, Ho in H. simpl in H.
  apply Nat.ltb_lt in H. exact H.
Qed.

(** *** the value an implementation line must carry, read off the valuation of [c4] *)
Definition copy_of (l : nat) : option nat :=
  match l_drv (lst impl l) with
  | Some d => match mget d m with Some d' => out_at c4 d' (l_dpin (lst impl l)) | None => None end
  | None => None
  end.
Definition expect (v' : nat -> V) (l : nat) : V :=
  match l_drv (lst impl l) with
  | Some d => match mget d m with
              | Some d' => match out_at c4 d' (l_dpin (lst impl l)) with Some z => v' z | None => zero end
              | None => match index_of d (impl_ins impl) with
                        | Some k => NetlistSem.pinv zero v' (ins_of c u) k
                        | None => zero end
              end
  | None => zero
  end.

Lemma copy_inj : forall l1 l2 z, In l1 (lines impl) -> In l2 (lines impl) -> copy_of l1 = Some z -> copy_of l2 = Some z -> l1 = l2.
Proof.
  intros l1 l2 z H1 H2 E1 E2. unfold copy_of in *.
  destruct (l_drv (lst impl l1)) as [d1|] eqn:D1; [|discriminate]. destruct (mget d1 m) as [d1'|] eqn:M1; [|discriminate].
  destruct (l_drv (lst impl l2)) as [d2|] eqn:D2; [|discriminate]. destruct (mget d2 m) as [d2'|] eqn:M2; [|discriminate].
  destruct (cc_outs [] c4 HC4 d1' _ z (or_introl (proj2 (mapped_listed _ _ M1))) E1) as [_ [A1 B1]].
  destruct (cc_outs [] c4 HC4 d2' _ z (or_introl (proj2 (mapped_listed _ _ M2))) E2) as [_ [A2 B2]].
  rewrite A1 in A2. inv A2. pose proof (sg_inj _ _ _ _ _ G _ _ _ M1 M2) as E. subst d2.
  destruct (impl_line impl HCi l1 H1) as [a1 [r1 [F1 [_ [_ [_ [O1 _]]]]]]].
  destruct (impl_line impl HCi l2 H2) as [a2 [r2 [F2 [_ [_ [_ [O2 _]]]]]]].
  rewrite D1 in F1. inv F1. rewrite D2 in F2. inv F2. rewrite <- B1 in O1. rewrite <- B2 in O2. congruence.
Qed.

Section Coh.
Variables (stim : nat -> V) (v' w : nat -> V).
Hypothesis HCoh : forall l, In l (lines impl) -> w l = expect v' l.

Lemma out_corr_fw : forall x y p l, mget x m = Some y -> out_at impl x p = Some l ->
  exists z, out_at c4 y p = Some z /\ w l = v' z.
Proof.
  intros x y p l Hm Ho. destruct (mapped_listed x y Hm) as [Hx Hy].
  destruct (impl_out impl HCi x p l Hx Ho) as [Hl [Hd Hp]].
  destruct (impl_line impl HCi l Hl) as [d [r [E1 [E2 _]]]].
  destruct (drv_mapped_some l x r y Hl Hd E2 Hm) as [z [Hz _]]. rewrite Hp in Hz.
  exists z. split; auto. rewrite (HCoh l Hl). unfold expect. rewrite Hd, Hm, Hp, Hz. reflexivity.
Qed.
Lemma out_corr_bw : forall x y p z, mget x m = Some y -> out_at c4 y p = Some z ->
  (exists l, out_at impl x p = Some l /\ w l = v' z) \/
  (out_at impl x p = None /\ in_ios impl x = true /\ 0 < List.length (ins_of impl x) /\ host_out c u impl x = Some z).
Proof.
  intros x y p z Hm Hz. destruct (out_at impl x p) as [l|] eqn:E.
  - left. exists l. split; auto. destruct (out_corr_fw x y p l Hm E) as [z0 [A B]]. congruence.
  - right. rewrite (sg_outs _ _ _ _ _ G x y p Hm) in Hz. unfold exp_out in Hz. rewrite E in Hz.
    destruct (in_ios impl x); simpl in Hz; [|discriminate].
    destruct (Nat.ltb_spec 0 (List.length (ins_of impl x))); simpl in Hz; [|discriminate].
    destruct (0 <? List.length (outs_of impl x)); simpl in Hz; [|discriminate].
    destruct (p =? List.length (outs_of impl x)); [|discriminate]. auto.
Qed.

Lemma pinv_at : forall cc (val : nat -> V) n k, NetlistSem.pinv zero val (ins_of cc n) k =
  match in_at cc n k with Some l => val l | None => zero end.
Proof. intros. unfold NetlistSem.pinv. rewrite pin_in_at. reflexivity. Qed.

Lemma in_corr : forall x y p l, mget x m = Some y -> in_at impl x p = Some l ->
  NetlistSem.pinv zero v' (ins_of c4 y) p = w l /\ (p = 2 \/ p = 3 -> Netlist.is_some (in_at c4 y p) = true).
Proof.
  intros x y p l Hm Hi. destruct (mapped_listed x y Hm) as [Hx Hy].
  destruct (impl_in impl HCi x p l Hx Hi) as [Hl [Hr Hp]].
  destruct (impl_line impl HCi l Hl) as [d [r [E1 [E2 _]]]].
  rewrite pinv_at. rewrite (sg_ins _ _ _ _ _ G x y p Hm). unfold exp_in. rewrite Hi, E1.
  rewrite (HCoh l Hl). unfold expect. rewrite E1.
  destruct (mget d m) as [d'|] eqn:Hmd.
  - destruct (drv_mapped_some l d r d' Hl E1 E2 Hmd) as [z [Hz _]]. rewrite Hz. split; auto.
  - destruct (unmapped_driver l d Hl E1 Hmd) as [_ [[k Hk] _]]. unfold host_in. rewrite Hk.
    unfold NetlistSem.pinv. rewrite pin_nth. split; auto.
    intros Hp23. destruct (nth k (ins_of c u) None) eqn:En; auto.
    pose proof (d22_pin l d k Hl E1 Hmd Hk En). lia.
Qed.

(* a copied node that is not a port *)
Lemma node_A : forall x y, mget x m = Some y -> in_ios impl x = false ->
  (cnode_ok sem zero impl (inst_stim zero c u impl m stim v') w x <-> cnode_ok sem zero c4 stim v' y).
Proof.
  intros x y Hm Hio. destruct (ciface_copy x y Hm Hio) as [Hif Hk]. unfold cnode_ok. rewrite Hif, Hk.
  assert (Hst : inst_stim zero c u impl m stim v' x = stim y).
  { unfold inst_stim. destruct (index_of x (impl_ins impl)) as [k|] eqn:E.
    - exfalso. apply index_of_nth in E. apply nth_error_In in E. apply impl_ins_spec in E.
      apply (proj1 (noport_ids x Hio)). tauto.
    - rewrite Hm. reflexivity. }
  rewrite Hst.
  assert (Hnone : forall k, in_at impl x k = None -> in_at c4 y k = None).
  { intros k E. rewrite (sg_ins _ _ _ _ _ G x y k Hm). unfold exp_in. rewrite E, Hio. reflexivity. }
  assert (Hp : forall k, NetlistSem.pinv zero w (ins_of impl x) k = NetlistSem.pinv zero v' (ins_of c4 y) k).
  { intros k. destruct (in_at impl x k) as [l|] eqn:E.
    - destruct (in_corr x y k l Hm E) as [A _]. rewrite A. rewrite pinv_at, E. reflexivity.
    - rewrite !pinv_at. rewrite E, (Hnone k E). reflexivity. }
  assert (Hs : forall k, k = 2 \/ k = 3 ->
            Netlist.is_some (SimOps.pin (ins_of impl x) k) = Netlist.is_some (SimOps.pin (ins_of c4 y) k)).
  { intros k Hk23. rewrite !pin_in_at. destruct (in_at impl x k) as [l|] eqn:E.
    - destruct (in_corr x y k l Hm E) as [_ B]. rewrite (B Hk23). reflexivity.
    - rewrite (Hnone k E). reflexivity. }
  split.
  - apply gate_ok_xfer; auto.
    intros k o' Hq. rewrite pin_out_at in Hq. destruct (out_corr_bw x y k o' Hm Hq) as [[l [A B]]|[_ [A _]]]; [|congruence].
    exists l. rewrite pin_out_at. auto.
  - apply gate_ok_xfer.
    + intros k. symmetry. apply Hp.
    + intros k Hk23. symmetry. apply Hs; auto.
    + intros k o Hq. rewrite pin_out_at in Hq. destruct (out_corr_fw x y k o Hm Hq) as [z [A B]].
      exists z. rewrite pin_out_at. auto.
Qed.

Lemma inst_stim_inport : forall x k, index_of x (impl_ins impl) = Some k ->
  inst_stim zero c u impl m stim v' x = NetlistSem.pinv zero v' (ins_of c u) k.
Proof. intros x k H. unfold inst_stim. rewrite H. reflexivity. Qed.

(* the fork of an input port *)
Lemma node_B1 : forall x y, mget x m = Some y -> in_ios impl x = true -> List.length (ins_of impl x) = 0 ->
  (cnode_ok sem zero impl (inst_stim zero c u impl m stim v') w x <-> cnode_ok sem zero c4 stim v' y).
Proof.
  intros x y Hm Hio Hlen. destruct (mapped_listed x y Hm) as [Hx Hy]. destruct (port_ids x Hx Hio) as [Hids Hk].
  destruct (ciface_port_copy x y Hm Hio) as [Hif4 Hk4]. unfold cnode_ok.
  rewrite (ciface_inport x Hids Hlen), Hif4, Hk, Hk4. rewrite (iface_fork_eq sem zero Hbuf), (wire_fork_eq sem zero Hbuf).
  destruct (index_of_in x (impl_ins impl)) as [k Hidx]. { apply impl_ins_spec. auto. }
  rewrite (inst_stim_inport x k Hidx).
  assert (Hi0 : in_at impl x 0 = None). { unfold in_at. destruct (ins_of impl x); simpl in *; auto. lia. }
  assert (HS : NetlistSem.pinv zero v' (ins_of c4 y) 0 = NetlistSem.pinv zero v' (ins_of c u) k).
  { rewrite pinv_at. rewrite (sg_ins _ _ _ _ _ G x y 0 Hm). unfold exp_in. rewrite Hi0, Hio, Hlen. simpl.
    unfold host_in. rewrite Hidx. unfold NetlistSem.pinv. rewrite pin_nth. reflexivity. }
  rewrite HS. split.
  - intros H p o' Hq. rewrite pin_out_at in Hq. destruct (out_corr_bw x y p o' Hm Hq) as [[l [A B]]|[_ [_ [A _]]]]; [|lia].
    rewrite <- B. apply (H p l). rewrite pin_out_at. exact A.
  - intros H p o Hq. rewrite pin_out_at in Hq. destruct (out_corr_fw x y p o Hm Hq) as [z [A B]].
    rewrite B. apply (H p z). rewrite pin_out_at. exact A.
Qed.

Lemma outport_in0 : forall x, In x (io_ids impl) -> 0 < List.length (ins_of impl x) -> exists l0, in_at impl x 0 = Some l0.
Proof.
  intros x Hids Hlen. assert (Ho : In x (impl_outs impl)) by (apply impl_outs_spec; auto).
  pose proof (sg_outdrv _ _ _ _ _ G x Ho) as H. destruct (in_at impl x 0) as [l0|]; [eauto|congruence].
Qed.

(* the fork of an output port *)
Lemma node_B2_bw : forall x y, mget x m = Some y -> in_ios impl x = true -> 0 < List.length (ins_of impl x) ->
  cnode_ok sem zero c4 stim v' y -> cnode_ok sem zero impl (inst_stim zero c u impl m stim v') w x.
Proof.
  intros x y Hm Hio Hlen. destruct (mapped_listed x y Hm) as [Hx Hy]. destruct (port_ids x Hx Hio) as [Hids Hk].
  destruct (ciface_port_copy x y Hm Hio) as [Hif4 Hk4]. destruct (outport_in0 x Hids Hlen) as [l0 Hl0].
  unfold cnode_ok. rewrite (ciface_outport x l0 Hk Hl0), Hif4, Hk, Hk4. rewrite !(wire_fork_eq sem zero Hbuf).
  destruct (in_corr x y 0 l0 Hm Hl0) as [A _]. rewrite A. rewrite (pinv_at impl w x 0), Hl0.
  intros H p o Hq. rewrite pin_out_at in Hq. destruct (out_corr_fw x y p o Hm Hq) as [z [B C]].
  rewrite C. apply (H p z). rewrite pin_out_at. exact B.
Qed.
Lemma node_B2_fw : forall x y,
  (forall k o ll, nth_error (impl_outs impl) k = Some o -> nth k (outs_of c u) None = Some ll -> v' ll = obs zero impl w o 0) ->
  mget x m = Some y -> in_ios impl x = true -> 0 < List.length (ins_of impl x) ->
  cnode_ok sem zero impl (inst_stim zero c u impl m stim v') w x -> cnode_ok sem zero c4 stim v' y.
Proof.
  intros x y HOA Hm Hio Hlen. destruct (mapped_listed x y Hm) as [Hx Hy]. destruct (port_ids x Hx Hio) as [Hids Hk].
  destruct (ciface_port_copy x y Hm Hio) as [Hif4 Hk4]. destruct (outport_in0 x Hids Hlen) as [l0 Hl0].
  unfold cnode_ok. rewrite (ciface_outport x l0 Hk Hl0), Hif4, Hk, Hk4. rewrite !(wire_fork_eq sem zero Hbuf).
  destruct (in_corr x y 0 l0 Hm Hl0) as [A _]. rewrite A. rewrite (pinv_at impl w x 0), Hl0.
  intros H p z Hq. rewrite pin_out_at in Hq. destruct (out_corr_bw x y p z Hm Hq) as [[l [B C]]|[_ [_ [_ B]]]].
  - rewrite <- C. apply (H p l). rewrite pin_out_at. exact B.
  - unfold host_out in B. destruct (index_of x (impl_outs impl)) as [k|] eqn:Hidx; [|discriminate].
    rewrite (HOA k x z (index_of_nth _ _ _ Hidx) B). unfold obs. rewrite pinv_at, Hl0. reflexivity.
Qed.

(* a port without a copy *)
Lemma node_C : forall x, In x (nodes impl) -> mget x m = None ->
  cnode_ok sem zero impl (inst_stim zero c u impl m stim v') w x.
Proof.
  intros x Hx Hm. destruct (unmapped_cases x Hx Hm) as [Hids [Hk [[L1 L2]|[L1 L2]]]]; unfold cnode_ok.
  - rewrite (ciface_inport x Hids L1), Hk. rewrite (iface_fork_eq sem zero Hbuf). intros p o Hq. rewrite pin_out_at in Hq.
    destruct (impl_out impl HCi x p o Hx Hq) as [Ho [Hd Hp]]. rewrite (HCoh o Ho). unfold expect. rewrite Hd, Hm.
    unfold inst_stim. destruct (index_of x (impl_ins impl)); auto. rewrite Hm. reflexivity.
  - destruct (outport_in0 x Hids L1) as [l0 Hl0]. rewrite (ciface_outport x l0 Hk Hl0), Hk.
    rewrite (wire_fork_eq sem zero Hbuf). intros p o Hq. rewrite pin_nth in Hq.
    destruct (outs_of impl x); simpl in *; [|lia]. destruct p; discriminate.
Qed.

Lemma csol_impl_of_c4 : csol sem zero c4 stim v' -> csol sem zero impl (inst_stim zero c u impl m stim v') w.
Proof.
  intros Hs x Hx. destruct (mget x m) as [y|] eqn:Hm.
  - destruct (mapped_listed x y Hm) as [_ Hy]. specialize (Hs y Hy).
    destruct (in_ios impl x) eqn:Hio.
    + destruct (Nat.eq_dec (List.length (ins_of impl x)) 0) as [E|E].
      * apply (node_B1 x y Hm Hio E). exact Hs.
      * apply (node_B2_bw x y Hm Hio); auto. lia.
    + apply (node_A x y Hm Hio). exact Hs.
  - apply node_C; auto.
Qed.

Lemma out_agree_bw : csol sem zero c4 stim v' ->
  forall k o ll, nth_error (impl_outs impl) k = Some o -> nth k (outs_of c u) None = Some ll -> v' ll = obs zero impl w o 0.
Proof.
  intros Hs k o ll Hko Hll. destruct (host_out_line k ll Hll) as [Hlc [Hdu Hpk]].
  pose proof (cc_lb [] c HCc ll Hlc) as Hlt.
  pose proof (sg_lines _ _ _ _ _ G ll Hlc) as Hl4.
  destruct (cc_line [] c4 HC4 ll Hl4) as [d [r [E1 [E2 [[Hd|[]] [_ [Ho _]]]]]]].
  assert (Hfin : forall x, host_out c u impl x = Some ll -> x = o /\ index_of o (impl_outs impl) = Some k).
  { intros x H. unfold host_out in H. destruct (index_of x (impl_outs impl)) as [k'|] eqn:Hidx; [|discriminate].
    destruct (host_out_line k' ll H) as [_ [_ Hpk']]. assert (k' = k) by congruence. subst k'.
    pose proof (index_of_nth _ _ _ Hidx) as Hn. assert (x = o) by congruence. subst x. split; congruence. }
  apply (sg_nodes _ _ _ _ _ G) in Hd. destruct Hd as [[Hdc Hne]|[x Hm]].
  - exfalso. destruct (sg_host _ _ _ _ _ G d Hdc Hne) as [_ [_ [_ O]]]. unfold out_at in Ho. rewrite O in Ho.
    destruct (cc_outs [] c HCc d _ ll (or_introl Hdc) Ho) as [_ [A _]]. congruence.
  - destruct (mapped_listed x d Hm) as [Hx _]. set (dp := l_dpin (lst c4 ll)) in *.
    destruct (out_at impl x dp) as [l|] eqn:E.
    + destruct (impl_out impl HCi x dp l Hx E) as [Hl [Hdl Hpl]].
      destruct (impl_line impl HCi l Hl) as [d0 [r0 [F1 [F2 _]]]].
      destruct (drv_mapped_some l x r0 d Hl Hdl F2 Hm) as [z [Hz Halt]]. rewrite Hpl in Hz.
      assert (z = ll) by congruence. subst z.
      destruct Halt as [[r' [_ [Hge _]]]|[Hmr [Hrp [Hho _]]]]. lia.
      destruct (Hfin r0 Hho) as [-> _].
      destruct (unmapped_reader l o Hl F2 Hmr) as [_ [_ [Hi0 _]]].
      unfold obs. rewrite pinv_at, Hi0. rewrite (HCoh l Hl). unfold expect. rewrite Hdl, Hm, Hpl, Ho. reflexivity.
    + pose proof Ho as Ho'. rewrite (sg_outs _ _ _ _ _ G x d dp Hm) in Ho'. unfold exp_out in Ho'. rewrite E in Ho'.
      destruct (in_ios impl x) eqn:Hio; simpl in Ho'; [|discriminate].
      destruct (Nat.ltb_spec 0 (List.length (ins_of impl x))); simpl in Ho'; [|discriminate].
      destruct (0 <? List.length (outs_of impl x)); simpl in Ho'; [|discriminate].
      destruct (dp =? List.length (outs_of impl x)); [|discriminate].
      destruct (Hfin x Ho') as [-> _].
      destruct (port_ids o Hx Hio) as [Hids Hk]. destruct (outport_in0 o Hids H) as [l0 Hl0].
      destruct (ciface_port_copy o d Hm Hio) as [Hif4 Hk4].
      destruct (mapped_listed o d Hm) as [_ Hd4].
      pose proof (Hs d Hd4) as Hn. unfold cnode_ok in Hn. rewrite Hif4, Hk4 in Hn. rewrite (wire_fork_eq sem zero Hbuf) in Hn.
      rewrite (Hn dp ll) by (rewrite pin_out_at; exact Ho).
      destruct (in_corr o d 0 l0 Hm Hl0) as [A _]. rewrite A. unfold obs. rewrite pinv_at, Hl0. reflexivity.
Qed.
End Coh.

(** *** host nodes *)
Lemma host_node_same : forall stim (v : nat -> V) n, In n (nodes c) -> n <> u ->
  (cnode_ok sem zero c4 stim v n <-> cnode_ok sem zero c stim v n).
Proof.
  intros stim v n Hn Hne. unfold cnode_ok. rewrite (ciface_host n Hn Hne).
  destruct (sg_host _ _ _ _ _ G n Hn Hne) as [K [_ [I O]]]. rewrite K, I, O. tauto.
Qed.

(** *** every solution of [c4] is a solution of the host with the instance read as the implementation *)
Theorem glue_bwd : forall stim v', csol sem zero c4 stim v' -> inst_sol sem zero c u impl m stim v'.
Proof.
  intros stim v' Hs. split.
  - intros n Hn Hne. apply host_node_same; auto. apply Hs. apply (sg_nodes _ _ _ _ _ G). left; auto.
  - exists (expect v'). split.
    + apply csol_impl_of_c4; auto.
    + apply (out_agree_bw stim v' (expect v')); auto.
Qed.

(** *** and conversely: copies of implementation lines take the implementation's values *)
Definition fwd_val (v w : nat -> V) : nat -> V :=
  fun z => if z <? lnext c then v z
           else match find (fun l => oeq (copy_of l) (Some z)) (lines impl) with Some l => w l | None => zero end.

Theorem glue_fwd : forall stim v, inst_sol sem zero c u impl m stim v ->
  exists v', csol sem zero c4 stim v' /\ (forall l, In l (lines c) -> v' l = v l).
Proof.
  intros stim v [Hhost [w [Hw HOA]]]. set (v' := fwd_val v w). exists v'.
  assert (Ha : forall z, In z (lines c) -> v' z = v z).
  { intros z Hz. unfold v', fwd_val. pose proof (cc_lb [] c HCc z Hz). destruct (Nat.ltb_spec z (lnext c)); auto. lia. }
  assert (Hb : forall k, NetlistSem.pinv zero v' (ins_of c u) k = NetlistSem.pinv zero v (ins_of c u) k).
  { intros k. unfold NetlistSem.pinv. rewrite pin_nth. destruct (nth k (ins_of c u) None) as [z|] eqn:E; auto.
    apply Ha. apply (host_in_line k z E). }
  assert (Hc : forall x, inst_stim zero c u impl m stim v' x = inst_stim zero c u impl m stim v x).
  { intros x. unfold inst_stim. destruct (index_of x (impl_ins impl)); auto. }
  assert (Hw' : csol sem zero impl (inst_stim zero c u impl m stim v') w).
  { intros x Hx. specialize (Hw x Hx). unfold cnode_ok in *. rewrite Hc. exact Hw. }
  assert (HOA' : forall k o ll, nth_error (impl_outs impl) k = Some o -> nth k (outs_of c u) None = Some ll ->
                                v' ll = obs zero impl w o 0).
  { intros k o ll A B. rewrite Ha. eapply HOA; eauto. apply (host_out_line k ll B). }
  assert (HCoh : forall l, In l (lines impl) -> w l = expect v' l).
  { intros l Hl. destruct (impl_line impl HCi l Hl) as [d [r [E1 [E2 [Hd [Hr [Ho Hi]]]]]]].
    unfold expect. rewrite E1. destruct (mget d m) as [d'|] eqn:Hmd.
    - destruct (drv_mapped_some l d r d' Hl E1 E2 Hmd) as [z [Hz Halt]]. rewrite Hz.
      destruct Halt as [[r' [Hmr [Hge _]]]|[Hmr [Hrp [Hho Hzc]]]].
      + unfold v', fwd_val. destruct (Nat.ltb_spec z (lnext c)); [lia|].
        assert (Hcl : copy_of l = Some z). { unfold copy_of. rewrite E1, Hmd. exact Hz. }
        destruct (find (fun l0 => oeq (copy_of l0) (Some z)) (lines impl)) as [l1|] eqn:Ef.
        * apply find_some in Ef. destruct Ef as [Hl1 Hoe].
          assert (Hc1 : copy_of l1 = Some z).
          { destruct (copy_of l1) as [z1|]; simpl in Hoe; [|discriminate]. apply Nat.eqb_eq in Hoe. congruence. }
          rewrite (copy_inj l1 l z Hl1 Hl Hc1 Hcl). reflexivity.
        * pose proof (find_none _ _ Ef l Hl) as Hn. simpl in Hn. rewrite Hcl in Hn. simpl in Hn.
          rewrite Nat.eqb_refl in Hn. discriminate.
      + rewrite (Ha z Hzc). unfold host_out in Hho. destruct (index_of r (impl_outs impl)) as [k|] eqn:Hidx; [|discriminate].
        rewrite (HOA k r z (index_of_nth _ _ _ Hidx) Hho). destruct (unmapped_reader l r Hl E2 Hmr) as [_ [_ [Hi0 _]]].
        unfold obs. rewrite pinv_at, Hi0. reflexivity.
    - destruct (unmapped_driver l d Hl E1 Hmd) as [_ [[k Hk] [Hod [_ Hlen]]]]. rewrite Hk. rewrite Hb.
      assert (Hids : In d (io_ids impl)).
      { apply (impl_ins_spec d). eapply nth_error_In. apply index_of_nth. eauto. }
      destruct (ids_port d Hids) as [_ [_ Hkd]].
      specialize (Hw d Hd). unfold cnode_ok in Hw. rewrite (ciface_inport d Hids Hlen), Hkd in Hw.
      rewrite (iface_fork_eq sem zero Hbuf) in Hw.
      rewrite (Hw 0 l) by (rewrite Hod; reflexivity). unfold inst_stim. rewrite Hk. reflexivity. }
  split; auto.
  intros y Hy. apply (sg_nodes _ _ _ _ _ G) in Hy. destruct Hy as [[Hyc Hne]|[x Hm]].
  - apply host_node_same; auto. specialize (Hhost y Hyc Hne). unfold cnode_ok in *.
    revert Hhost. apply gate_ok_ext.
    + intros k. unfold NetlistSem.pinv. destruct (SimOps.pin (ins_of c y) k) as [z|] eqn:E; auto. symmetry. apply Ha.
      rewrite pin_in_at in E. apply (cc_ins [] c HCc y k z (or_introl Hyc) E).
    + reflexivity.
    + intros k o E. symmetry. apply Ha. rewrite pin_out_at in E. apply (cc_outs [] c HCc y k o (or_introl Hyc) E).
  - destruct (mapped_listed x y Hm) as [Hx _]. specialize (Hw' x Hx).
    destruct (in_ios impl x) eqn:Hio.
    + destruct (Nat.eq_dec (List.length (ins_of impl x)) 0) as [E|E].
      * apply (node_B1 stim v' w HCoh x y Hm Hio E). exact Hw'.
      * apply (node_B2_fw stim v' w HCoh x y HOA' Hm Hio); auto. lia.
    + apply (node_A stim v' w HCoh x y Hm Hio). exact Hw'.
Qed.
End Glue.

(** ** the statement *)
Theorem glue_function : forall V (sem : BinNums.N -> V -> V -> V -> V -> V) (zero : V),
  (forall x a b d, sem (SimOps.lutv "BUF1") x a b d = x) ->
  forall c u impl m c4,
  CInv c -> IoLive c -> In u (nodes c) -> io_mem c u = false ->
  CInv impl -> IoLive impl -> io_forks_b impl = true ->
  CInv c4 -> IoLive c4 -> SubstGlue c u impl m c4 ->
  d22_free_b c u impl = true -> all_outs_connected_b c u impl = true ->
  (forall stim v, inst_sol sem zero c u impl m stim v ->
     exists v', csol sem zero c4 stim v' /\ (forall l, In l (lines c) -> v' l = v l)) /\
  (forall stim v', csol sem zero c4 stim v' -> inst_sol sem zero c u impl m stim v').
Proof.
  intros V sem zero Hbuf c u impl m c4 H1 H2 H3 H4 H5 H6 H7 H8 H9 H10 H11 H12. split.
  - intros stim v H. exact (glue_fwd sem zero Hbuf c u impl m c4 H1 H2 H3 H4 H5 H6 H7 H8 H9 H10 H11 H12 stim v H).
  - intros stim v' H. exact (glue_bwd sem zero Hbuf c u impl m c4 H1 H2 H3 H4 H5 H6 H7 H8 H9 H10 H11 H12 stim v' H).
Qed.
Print Assumptions glue_function.
