(** Non-vacuity of the generic memory-level source ties (Proofs/LogicSimLoopN.v, Proofs/LogicSimSepBuildX.v):
    exD = exR with a third fork branch into a NOT gate WITHOUT output line (its op row writes tmp_idx): the old separation check fails on
    it, the extended one holds; the m == 8 callback loop and the m == 4 loops are run on concrete memories. *)
From Coq Require Import List ZArith NArith Bool Arith Lia String.
From KV Require Import Model.Logic Model.Prims Model.Netlist Model.NetlistWf Model.SimOps Model.SimOpsCert Model.LogicSimModel
     Model.LogicSimDrvPrelude Gen.LogicSimDriversSrc Proofs.WfCheck Proofs.EndToEnd Proofs.ReuseProofs Proofs.ReuseStrip Proofs.LogicSimGlue Proofs.LogicSimDriversProofs
     Proofs.LogicSimLoop8 Proofs.LogicSimLoopN Proofs.LogicSimSepBuildX.
Import ListNotations.
Import KV.Model.Logic.
Local Open Scope list_scope.

Local Open Scope string_scope.
Definition exD : netlist :=
  {| c_nodes :=
       [ {| n_kind := "input";    n_ins := [];               n_outs := [Some 0] |};
         {| n_kind := "__fork__"; n_ins := [Some 0];         n_outs := [Some 1; Some 2; Some 7] |};
         {| n_kind := "not";      n_ins := [Some 1];         n_outs := [Some 3] |};
         {| n_kind := "and2";     n_ins := [Some 3; Some 2]; n_outs := [Some 4] |};
         {| n_kind := "not";      n_ins := [Some 4];         n_outs := [Some 5] |};
         {| n_kind := "DFFX1";    n_ins := [Some 5];         n_outs := [Some 6] |};
         {| n_kind := "output";   n_ins := [Some 6];         n_outs := [] |};
         {| n_kind := "not";      n_ins := [Some 7];         n_outs := [] |} ];
     c_lines :=
       [ {| l_drv := 0; l_dpin := 0; l_rdr := 1; l_rpin := 0 |};
         {| l_drv := 1; l_dpin := 0; l_rdr := 2; l_rpin := 0 |};
         {| l_drv := 1; l_dpin := 1; l_rdr := 3; l_rpin := 1 |};
         {| l_drv := 2; l_dpin := 0; l_rdr := 3; l_rpin := 0 |};
         {| l_drv := 3; l_dpin := 0; l_rdr := 4; l_rpin := 0 |};
         {| l_drv := 4; l_dpin := 0; l_rdr := 5; l_rpin := 0 |};
         {| l_drv := 5; l_dpin := 0; l_rdr := 6; l_rpin := 0 |};
         {| l_drv := 1; l_dpin := 2; l_rdr := 7; l_rpin := 0 |} ];
     c_io := [0; 6] |}.
Local Close Scope string_scope.

Lemma exD_wf : wf_netlist exD.
Proof. apply wf_netlist_b_sound. vm_compute. reflexivity. Qed.
Lemma exD_acyclic : comb_acyclic exD.
Proof. apply (acyclic_b_sound exD exD_wf). vm_compute. reflexivity. Qed.
Lemma exD_gates_known : gates_known exD.
Proof.
  unfold gates_known. split; [|split].
  - intros n Hn Hi Hf. simpl in Hn. do 8 (destruct n as [|n]; [vm_compute in Hi, Hf |- *; try discriminate|]). lia.
  - intros n Hn Hd k o Hk Ho. simpl in Hn.
    do 8 (destruct n as [|n]; [vm_compute in Hd; first [discriminate|
           do 2 (destruct k as [|k]; [lia|]); destruct k; discriminate]|]). lia.
  - intros n Hn Hi Hf k o Hk Ho. simpl in Hn.
    do 8 (destruct n as [|n]; [vm_compute in Hi, Hf; first [discriminate|
           destruct k as [|k]; [lia|]; destruct k; discriminate]|]). lia.
Qed.

Definition exM8d : list code := [One; Rise; Zero; Fall; Unk; One; NP; Una; PP; Rise].
Definition exM4d : list code := [One; Unk; Zero; Una; Unk; One; Zero; Una; One; Zero].
Definition ex_f (k : nat) (v : planes) : planes := if Nat.eqb k 4 then code_bits Rise else v.
Definition ex_cb (k : nat) (v : code) : code := if Nat.eqb k 4 then Rise else v.
Definition ex_f4 (k : nat) (v : planes) : planes := if Nat.eqb k 4 then firstn 2 (code_bits Unk) else v.
Definition ex_cb4 (k : nat) (v : code) : code := if Nat.eqb k 4 then Unk else v.

Lemma ex_rel8 : cb_rel8 ex_f ex_cb.
Proof. intros k v. unfold ex_f, ex_cb, emb8. destruct (Nat.eqb k 4); reflexivity. Qed.
Lemma ex_rel4 : cb_rel4 ex_f4 ex_cb4.
Proof. intros k v Hv. unfold ex_f4, ex_cb4, emb4. destruct (Nat.eqb k 4); split; try reflexivity; exact Hv. Qed.
Lemma exM4d_inv : inv4 exM4d.
Proof. intros l. do 10 (destruct l as [|l]; [reflexivity|]). destruct l; reflexivity. Qed.
Lemma agree_map emb lt0 lt1 (m : list code) mdim : pdflt mdim = emb Zero -> agreeN mdim emb lt0 lt1 (map emb m) m.
Proof. intros E. split; [apply map_length|]. intros l _ _. rewrite E. apply map_nth. Qed.

(** exD has a gate without output line: its op row writes tmp_idx; the separation check of Proofs/LogicSimLoop8.v fails, the extended
    one holds; the callback loop (m == 8), the plain loop (m == 8, m == 4) and the m == 4 callback loop are tied to the model on it *)
Example loopN_example : exists so lt0 lt1,
  build exD (repeat 1%N 11) 1%N true false = Some so /\ ops_sep_b so = false /\ ops_sepx_b so = true /\
  (exists o, In o (so_ops so) /\ s_out o = so_nlines so + 1) /\
  so_loc so (so_nlines so + 1) = Some lt0 /\ so_loc so (so_nlines so + 2) = Some lt1 /\
  (let r := c_prop_src loop_prop_cpu loop_cprop2_cb loop_cprop4 loop_cprop8 8 (so_locs so) (so_nlines so)
              (Z.of_nat (so_nlines so + 1)) (Z.of_nat (so_nlines so + 2)) (Some ex_f) (map row_of (so_ops so)) (map emb8 exM8d) in
   agree8 lt0 lt1 (fst r) (c_prop_cb Zero sem8 ex_cb so exM8d) /\ map fst (snd r) = cb_lines so) /\
  (5 <= List.length (cb_lines so)) /\
  c_prop_cb Zero sem8 ex_cb so exM8d <> c_prop Zero sem8 so exM8d /\
  agree8 lt0 lt1 (fst (c_prop_src loop_prop_cpu loop_cprop2_cb loop_cprop4 loop_cprop8 8 (so_locs so) (so_nlines so)
                         (Z.of_nat (so_nlines so + 1)) (Z.of_nat (so_nlines so + 2)) None (map row_of (so_ops so)) (map emb8 exM8d)))
         (c_prop Zero sem8 so exM8d) /\
  agree4 lt0 lt1 (fst (c_prop_src loop_prop_cpu loop_cprop2_cb loop_cprop4 loop_cprop8 4 (so_locs so) (so_nlines so)
                         (Z.of_nat (so_nlines so + 1)) (Z.of_nat (so_nlines so + 2)) None (map row_of (so_ops so)) (map emb4 exM4d)))
         (c_prop Zero sem8 so exM4d) /\
  c_prop Zero sem8 so exM4d <> exM4d /\
  (let r := c_prop_src loop_prop_cpu loop_cprop2_cb loop_cprop4 loop_cprop8 4 (so_locs so) (so_nlines so)
              (Z.of_nat (so_nlines so + 1)) (Z.of_nat (so_nlines so + 2)) (Some ex_f4) (map row_of (so_ops so)) (map emb4 exM4d) in
   agree4 lt0 lt1 (fst r) (c_prop_cb Zero sem8 ex_cb4 so exM4d) /\ map fst (snd r) = cb_lines so).
Proof.
  destruct (build exD (repeat 1%N 11) 1%N true false) as [so|] eqn:Hb; [|vm_compute in Hb; discriminate Hb].
  assert (E : N.to_nat (so_len so) = 10) by (vm_compute in Hb; injection Hb as <-; reflexivity).
  assert (FK : false = true -> forks_ok exD) by discriminate.
  destruct (build_cprop8_cb_source_is_model exD _ 1%N true false so exD_wf exD_acyclic eq_refl exD_gates_known FK Hb exM8d (eq_sym E)
              (map emb8 exM8d) ex_f ex_cb ex_rel8) as (lt0 & lt1 & E0 & E1 & Hne & T8cb).
  destruct (build_cprop8_source_is_model_x exD _ 1%N true false so exD_wf exD_acyclic eq_refl exD_gates_known FK Hb exM8d (eq_sym E)
              (map emb8 exM8d)) as (lt0' & lt1' & E0' & E1' & _ & T8).
  destruct (build_cprop4_source_is_model exD _ 1%N true false so exD_wf exD_acyclic eq_refl exD_gates_known FK Hb exM4d (eq_sym E)
              (map emb4 exM4d) exM4d_inv) as (lt0'' & lt1'' & E0'' & E1'' & _ & T4).
  destruct (build_cprop4_cb_source_is_model exD _ 1%N true false so exD_wf exD_acyclic eq_refl exD_gates_known FK Hb exM4d (eq_sym E)
              (map emb4 exM4d) ex_f4 ex_cb4 exM4d_inv ex_rel4) as (lt0c & lt1c & E0c & E1c & _ & T4c).
  rewrite E0 in E0', E0'', E0c. rewrite E1 in E1', E1'', E1c.
  injection E0' as <-. injection E1' as <-. injection E0'' as <-. injection E1'' as <-. injection E0c as <-. injection E1c as <-.
  exists so, lt0, lt1. split; [reflexivity|].
  split; [vm_compute in Hb; injection Hb as <-; vm_compute; reflexivity|].
  split; [vm_compute in Hb; injection Hb as <-; vm_compute; reflexivity|].
  split.
  { assert (H : existsb (fun o => Nat.eqb (s_out o) (so_nlines so + 1)) (so_ops so) = true)
      by (vm_compute in Hb; injection Hb as <-; vm_compute; reflexivity).
    apply existsb_exists in H. destruct H as (o & Ho & Eo). exists o. split; [exact Ho|apply Nat.eqb_eq; exact Eo]. }
  split; [exact E0|]. split; [exact E1|].
  split; [apply T8cb; apply (agree_map emb8 lt0 lt1 exM8d 3 eq_refl)|].
  split; [vm_compute in Hb; injection Hb as <-; vm_compute; lia|].
  split; [vm_compute in Hb; injection Hb as <-; vm_compute; discriminate|].
  split; [apply T8; apply (agree_map emb8 lt0 lt1 exM8d 3 eq_refl)|].
  split; [apply T4; apply (agree_map emb4 lt0 lt1 exM4d 2 eq_refl)|].
  split; [vm_compute in Hb; injection Hb as <-; vm_compute; discriminate|].
  pose proof (T4c (agree_map emb4 lt0 lt1 exM4d 2 eq_refl)) as (A & B & _). split; [exact A|exact B].
Qed.

Example loopx_nonvacuous : exists so lt0 lt1,
  build exD (repeat 1%N 11) 1%N true false = Some so /\ ops_sep_b so = false /\ ops_sepx_b so = true /\
  (exists o, In o (so_ops so) /\ s_out o = so_nlines so + 1) /\
  agree8 lt0 lt1
    (fst (c_prop_src loop_prop_cpu loop_cprop2_cb loop_cprop4 loop_cprop8 8 (so_locs so) (so_nlines so)
            (Z.of_nat (so_nlines so + 1)) (Z.of_nat (so_nlines so + 2)) None
            (map row_of (so_ops so)) (map emb8 exM8d)))
    (c_prop Zero sem8 so exM8d) /\
  inv4 exM4d /\
  agree4 lt0 lt1
    (fst (c_prop_src loop_prop_cpu loop_cprop2_cb loop_cprop4 loop_cprop8 4 (so_locs so) (so_nlines so)
            (Z.of_nat (so_nlines so + 1)) (Z.of_nat (so_nlines so + 2)) None
            (map row_of (so_ops so)) (map emb4 exM4d)))
    (c_prop Zero sem8 so exM4d) /\
  c_prop Zero sem8 so exM4d <> exM4d.
Proof.
  destruct loopN_example as (so & lt0 & lt1 & A1 & A2 & A3 & A4 & A5 & A6 & A7 & A8 & A9 & A10 & A11 & A12 & _).
  exists so, lt0, lt1. repeat (split; [assumption|]).
  split; [exact exM4d_inv|]. split; assumption.
Qed.

Example cb8_nonvacuous : exists so lt0 lt1,
  build exD (repeat 1%N 11) 1%N true false = Some so /\ ops_sep_b so = false /\ ops_sepx_b so = true /\
  (exists o, In o (so_ops so) /\ s_out o = so_nlines so + 1) /\
  so_loc so (so_nlines so + 1) = Some lt0 /\ so_loc so (so_nlines so + 2) = Some lt1 /\
  (let r := c_prop_src loop_prop_cpu loop_cprop2_cb loop_cprop4 loop_cprop8 8 (so_locs so) (so_nlines so)
              (Z.of_nat (so_nlines so + 1)) (Z.of_nat (so_nlines so + 2)) (Some ex_f)
              (map row_of (so_ops so)) (map emb8 exM8d) in
   agree8 lt0 lt1 (fst r) (c_prop_cb Zero sem8 ex_cb so exM8d) /\
   map fst (snd r) = cb_lines so) /\
  (5 <= List.length (cb_lines so)) /\
  c_prop_cb Zero sem8 ex_cb so exM8d
    <> c_prop Zero sem8 so exM8d.
Proof.
  destruct loopN_example as (so & lt0 & lt1 & A1 & A2 & A3 & A4 & A5 & A6 & A7 & A8 & A9 & _).
  exists so, lt0, lt1. repeat (split; [assumption|]). assumption.
Qed.
