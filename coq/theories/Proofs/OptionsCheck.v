(** Executable tests for the side conditions of the option theorems (C06_options_irrelevant, C08_build_passes_certificate_all):
    [forks_ok_b] for [ReuseStrip.forks_ok]; [hyps_all_b] bundles every hypothesis of those theorems about the netlist, so that the
    checks can discharge them on each generated circuit by vm_compute (and report how many circuits are inside the proved domain). *)
From Coq Require Import List NArith Bool Arith Lia String.
From KV Require Import Model.Prims Model.Netlist Model.NetlistWf Model.SimOps Model.NetlistSem Proofs.WfCheck Proofs.EndToEnd
     Proofs.CycleProofs Proofs.ReuseStrip.
Import ListNotations.
Local Open Scope list_scope.

Definition forks_ok_b (c : netlist) : bool :=
  forallb (fun n =>
      let nd := get_node c n in
      match iface_pos c n with
      | Some _ => true
      | None => negb (is_fork nd) || (String.eqb (n_kind nd) "__fork__" && is_some (pin (n_ins nd) 0))
      end) (seq 0 (List.length (c_nodes c))).

Theorem forks_ok_b_sound c : forks_ok_b c = true -> forks_ok c.
Proof.
  unfold forks_ok_b, forks_ok. intros H n Hn Hi Hf. rewrite forallb_forall in H.
  assert (G := H n). cbv zeta in G. rewrite Hi, Hf in G. cbn [negb orb] in G.
  assert (Hin : In n (seq 0 (List.length (c_nodes c)))) by (apply in_seq; lia).
  specialize (G Hin). apply andb_true_iff in G. destruct G as [G1 G2]. split.
  - apply String.eqb_eq. exact G1.
  - destruct (pin (n_ins (get_node c n)) 0); [discriminate|discriminate G2].
Qed.

Definition hyps_all_b (c : netlist) : bool := wf_netlist_b c && acyclic_b c && gates_known_b c && forks_ok_b c.

Theorem hyps_all_b_sound c : hyps_all_b c = true -> wf_netlist c /\ comb_acyclic c /\ gates_known c /\ forks_ok c.
Proof.
  unfold hyps_all_b. intros H. apply andb_true_iff in H. destruct H as [H H4]. apply andb_true_iff in H. destruct H as [H H3].
  apply andb_true_iff in H. destruct H as [H1 H2].
  assert (W := wf_netlist_b_sound c H1).
  split; [exact W|]. split; [exact (acyclic_b_sound c W H2)|]. split; [exact (gates_known_b_sound c H3)|exact (forks_ok_b_sound c H4)].
Qed.
Print Assumptions hyps_all_b_sound.
