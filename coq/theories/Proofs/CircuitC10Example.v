(** C10: the hypotheses of the elimination theorems are satisfiable on a concrete sequential circuit, and the bridge
    [view_wf] makes the scheduler theorem of C01 applicable to a circuit given as an edit history. *)
From Coq Require Import List NArith Bool Arith String.
From KV Require Model.Netlist Model.NetlistWf Model.SimOps Model.NetlistSem Model.AllocCheck Proofs.SemProofs Proofs.WfCheck.
From KV Require Import Model.Circuit Model.CircuitInv Model.CircuitView Model.CircuitSem
     Proofs.CircuitViewProofs Proofs.CircuitElimSem.
Import ListNotations.
Local Open Scope list_scope.

Lemma order_c_acyclic : NetlistWf.comb_acyclic (view order_c).
Proof.
  apply WfCheck.acyclic_b_sound.
  - destruct order_c_inv as [A [B _]]. exact (view_wf order_c A B).
  - vm_compute. reflexivity.
Qed.

(* for every stimulus the op list that SimOps schedules for the view computes a solution; read by ids it is a solution of the
   circuit state, and (the same valuation, same stimulus by id) of the state after eliminate_1to1_forks *)
Theorem example_solution : forall stim : nat -> bool,
  let w := AllocCheck.iexec NetlistSem.sem_lut (fun x => x) (SimOps.build_ops (view order_c) false)
                            (NetlistSem.init_env false (view order_c) stim) in
  NetlistSem.solution NetlistSem.sem_lut false (view order_c) stim w /\
  csol NetlistSem.sem_lut false order_c (stim_by_id false order_c stim) (val_by_id order_c w) /\
  csol NetlistSem.sem_lut false order_c' (stim_by_id false order_c stim) (val_by_id order_c w).
Proof.
  intros stim w. destruct order_c_inv as [HI [HL Hok]].
  assert (Hs : NetlistSem.solution NetlistSem.sem_lut false (view order_c) stim w).
  { exact (SemProofs.build_ops_solution NetlistSem.sem_lut false (view order_c) stim (view_wf order_c HI HL) order_c_acyclic). }
  assert (Hc : csol NetlistSem.sem_lut false order_c (stim_by_id false order_c stim) (val_by_id order_c w)).
  { exact (proj1 (solution_iff_csol NetlistSem.sem_lut false order_c HI HL stim w) Hs). }
  split; [exact Hs|]. split; [exact Hc|].
  destruct (eliminate_function bool NetlistSem.sem_lut false sem_lut_buf order_c order_c' HI HL Hok order_c_elim)
    as [_ [_ [_ [_ [_ [_ [_ [_ [F _]]]]]]]]].
  destruct (F (stim_by_id false order_c stim) (val_by_id order_c w) Hc) as [G _]. exact G.
Qed.
