(** Source tie of the logic simulator's DRIVER code, part 2: the pinned per-lane meanings of LogicSim.s_to_c / c_to_s / s_ppo_to_ppi /
    cycle (Model/LogicSimDrvPrelude.v: s_to_c_src / c_to_s_src / s_ppo_to_ppi_src / cycle_src) ARE s_to_c / c_to_s / ppo_to_ppi / cycles of
    the compared hand model Model/LogicSimModel.v (2-valued: mdim = 1, one plane per memory location; the model's assignment / result
    vectors are plane 0 of the s[0] / s[1] rows).

    Negative-index wrap-around of numpy (pyidx) cannot occur in these four methods, and this is PROVED here, not assumed: every position
    in pippi_s_locs / poppo_s_locs / ppio_s_locs is an element of arange(..) (non-negative: zseq), every index into c_locs is
    offset + position (non-negative), and every memory location that is written or read passed the filter `c_locs[..] >= 0` of
    SimOps.__init__ (slot_s_locs); the proofs go through [pyidx_nat] only.  The only hypothesis on the shapes is the one numpy enforces
    itself: s has s_len rows of 3 planes, and n_io <= s_len (s_nodes = io_nodes + state elements). *)
From Coq Require Import List ZArith NArith Bool Arith Lia String.
From KV Require Import Model.Bits Model.Logic Model.Prims Model.OpSem Model.Netlist Model.NetlistWf Model.SimOps Model.AllocCheck Model.SimOpsCert
     Model.NetlistSem Model.CycleSem Model.LogicSimModel Model.WaveDrvPrelude Model.LogicSimDrvPrelude Gen.SimTables Gen.LogicSimDriversSrc
     Proofs.LogicSimGlue Proofs.LogicSimDriversProofs.
Import ListNotations.
Local Open Scope list_scope.

(* ------------------------------------------------------------------------------------------------------------------ *)
(** * Shapes and the relation between the source-level state and the model state *)
Definition row3 (r : planes) : Prop := List.length r = 3.
Definition rows3 (S : list planes) : Prop := Forall row3 S.
(** plane 0 of every row: the model's value vector *)
Definition p0 (S : list planes) : list bool := map (pl 0) S.

Definition rel2 (so : simops) (L : lsim) (m s0 s1 : list bool) : Prop :=
  ls_c L = map emb2 m /\ s0 = p0 (ls_s0 L) /\ s1 = p0 (ls_s1 L) /\
  List.length (ls_s0 L) = so_slen so /\ List.length (ls_s1 L) = so_slen so /\ rows3 (ls_s0 L) /\ rows3 (ls_s1 L).

(* ------------------------------------------------------------------------------------------------------------------ *)
(** * Non-negative indices: no wrap-around *)
Lemma zrd_nat locs x : zrd (-1) locs (Z.of_nat x) = nth x locs (-1)%Z.
Proof.
  unfold zrd. rewrite pyidx_nat. destruct (x <? List.length locs)%nat eqn:E; [reflexivity|].
  apply Nat.ltb_ge in E. rewrite nth_overflow by exact E. reflexivity.
Qed.
Lemma srd_nat S i : srd S (Z.of_nat i) = nth i S (pdflt 3).
Proof.
  unfold srd. rewrite pyidx_nat. destruct (i <? List.length S)%nat eqn:E; [reflexivity|].
  apply Nat.ltb_ge in E. rewrite nth_overflow by exact E. reflexivity.
Qed.
Lemma pset_oob {A} (m : list A) i v : (List.length m <= i)%nat -> pset m i v = m.
Proof. intros H. rewrite pset_mset. apply mset_oob. exact H. Qed.
Lemma swr_nat S i v : swr S (Z.of_nat i) v = pset S i v.
Proof.
  unfold swr. rewrite pyidx_nat. destruct (i <? List.length S)%nat eqn:E; [reflexivity|].
  apply Nat.ltb_ge in E. rewrite pset_oob by exact E. reflexivity.
Qed.
Lemma pset_app {A} (pre : list A) x suf v : pset (pre ++ x :: suf) (List.length pre) v = pre ++ v :: suf.
Proof. induction pre as [|y r IH]; cbn [List.length app pset]; [reflexivity|]. rewrite IH. reflexivity. Qed.

Lemma mwr_emb_Z (m : list bool) z v : (0 <= z)%Z -> mwr (map emb2 m) z (emb2 v) = map emb2 (mset m (Z.to_nat z) v).
Proof. intros H. rewrite <- (mwr_emb emb2). rewrite Z2Nat.id by exact H. reflexivity. Qed.
Lemma mrd_emb_Z (m : list bool) z : (0 <= z)%Z -> mrd 1 (map emb2 m) z = emb2 (nth (Z.to_nat z) m false).
Proof. intros H. rewrite <- (mrd_emb false 1 emb2 eq_refl). rewrite Z2Nat.id by exact H. reflexivity. Qed.

Lemma loc_of_nth so x :
  loc_of so x = if (0 <=? nth x (so_locs so) (-1)%Z)%Z then Some (Z.to_nat (nth x (so_locs so) (-1)%Z)) else None.
Proof. reflexivity. Qed.

Lemma row3_nth S i : rows3 S -> row3 (nth i S (pdflt 3)).
Proof.
  intros H. destruct (lt_dec i (List.length S)) as [Hl|Hl].
  - unfold rows3 in H. rewrite Forall_forall in H. apply H. apply nth_In. exact Hl.
  - rewrite nth_overflow by lia. reflexivity.
Qed.
Lemma row3_first r : row3 r -> firstn 1 r = emb2 (pl 0 r).
Proof. destruct r as [|x r]; intros H; [discriminate H|reflexivity]. Qed.
Lemma p0_nth S i : nth i (p0 S) false = pl 0 (nth i S (pdflt 3)).
Proof. unfold p0. change false with (pl 0 (pdflt 3)) at 1. apply map_nth. Qed.

(** pippi_s_locs / poppo_s_locs: the two filtered ranges are ONE filtered range 0 .. s_len-1 *)
Lemma slot_s_locs_merge locs off n_io slen : (n_io <= slen)%nat ->
  slot_s_locs locs off n_io slen = filter (fun y => (0 <=? zrd (-1) locs (off + y))%Z) (zseq 0 slen).
Proof.
  intros H. unfold slot_s_locs, zseq. rewrite <- filter_app, <- map_app.
  change (seq n_io (slen - n_io)) with (seq (0 + n_io) (slen - n_io)). rewrite <- seq_app.
  replace (n_io + (slen - n_io))%nat with slen by lia. reflexivity.
Qed.

(* ------------------------------------------------------------------------------------------------------------------ *)
(** * A position-wise store loop over an ascending range rewrites exactly that range, each row from its OWN old content *)
Section FoldTr.
  Variable G : planes -> Z -> planes.
  Variable P : Z -> bool.
  Fixpoint tr (a : nat) (suf : list planes) : list planes :=
    match suf with [] => [] | x :: r => (if P (Z.of_nat a) then G x (Z.of_nat a) else x) :: tr (S a) r end.
  Lemma tr_length : forall suf a, List.length (tr a suf) = List.length suf.
  Proof. induction suf as [|x r IH]; intros a; cbn [tr List.length]; [reflexivity|]. rewrite IH. reflexivity. Qed.
  Lemma fold_tr : forall suf a pre, List.length pre = a ->
    fold_left (fun S y => swr S y (G (srd S y) y)) (filter P (zseq a (List.length suf))) (pre ++ suf) = pre ++ tr a suf.
  Proof.
    induction suf as [|x r IH]; intros a pre Hp; [reflexivity|].
    cbn [List.length]. unfold zseq. cbn [seq map filter tr]. fold (zseq (S a) (List.length r)).
    destruct (P (Z.of_nat a)) eqn:EP.
    - cbn [fold_left]. rewrite srd_nat, swr_nat. subst a. rewrite nth_middle, pset_app.
      change (pre ++ G x (Z.of_nat (List.length pre)) :: r) with (pre ++ [G x (Z.of_nat (List.length pre))] ++ r).
      rewrite app_assoc, IH by (rewrite app_length; cbn [List.length]; lia). rewrite <- app_assoc. reflexivity.
    - change (pre ++ x :: r) with (pre ++ [x] ++ r).
      rewrite app_assoc, IH by (rewrite app_length; cbn [List.length]; lia). rewrite <- app_assoc. reflexivity.
  Qed.
End FoldTr.

Lemma filter_all {A} (l : list A) : filter (fun _ => true) l = l.
Proof. induction l as [|x r IH]; cbn [filter]; [reflexivity|]. rewrite IH. reflexivity. Qed.

(* ------------------------------------------------------------------------------------------------------------------ *)
(** * LogicSim.s_to_c *)
Lemma stc_gen so S0 : rows3 S0 -> forall l m,
  fold_left (fun C y => mwr C (zrd (-1) (so_locs so) (Z.of_nat (ppi_off so) + y)) (firstn 1 (srd S0 y)))
            (filter (fun y => (0 <=? zrd (-1) (so_locs so) (Z.of_nat (ppi_off so) + y))%Z) (map Z.of_nat l)) (map emb2 m)
  = map emb2 (fold_left (stc_step so) (map (fun i => (i, nth i (p0 S0) false)) l) m).
Proof.
  intros HR. induction l as [|i l IH]; intros m; [reflexivity|]. cbn [map filter].
  rewrite <- Nat2Z.inj_add, zrd_nat. cbn [fold_left]. unfold stc_step at 2. cbn [fst snd]. rewrite loc_of_nth.
  destruct (0 <=? nth (ppi_off so + i) (so_locs so) (-1)%Z)%Z eqn:Ez.
  - cbn [fold_left]. rewrite <- Nat2Z.inj_add, zrd_nat, srd_nat, (row3_first _ (row3_nth S0 i HR)), <- p0_nth.
    rewrite mwr_emb_Z by (apply Z.leb_le; exact Ez). apply IH.
  - apply IH.
Qed.

Lemma combine_seq_nth (s : list bool) : combine (seq 0 (List.length s)) s = map (fun i => (i, nth i s false)) (seq 0 (List.length s)).
Proof.
  rewrite <- (map_id (combine (seq 0 (List.length s)) s)). rewrite (map_combine_seq false (fun x => x) s 0).
  apply map_ext. intros i. rewrite Nat.sub_0_r. reflexivity.
Qed.

Theorem s_to_c_src_is_model so n_io L m : (n_io <= so_slen so)%nat -> ls_c L = map emb2 m -> rows3 (ls_s0 L) ->
  List.length (ls_s0 L) = so_slen so ->
  s_to_c_src 1 (so_locs so) (Z.of_nat (ppi_off so)) n_io (so_slen so) L
  = mk_lsim (map emb2 (s_to_c so (p0 (ls_s0 L)) m)) (ls_s0 L) (ls_s1 L).
Proof.
  intros Hn Hc HR Hl. unfold s_to_c_src. rewrite (slot_s_locs_merge _ _ _ _ Hn), Hc. unfold zseq.
  rewrite (stc_gen so (ls_s0 L) HR).
  assert (E : so_slen so = List.length (p0 (ls_s0 L))) by (unfold p0; rewrite map_length; symmetry; exact Hl).
  assert (E2 : s_to_c so (p0 (ls_s0 L)) m = fold_left (stc_step so) (combine (seq 0 (so_slen so)) (p0 (ls_s0 L))) m) by reflexivity.
  assert (E3 : combine (seq 0 (so_slen so)) (p0 (ls_s0 L)) = map (fun i => (i, nth i (p0 (ls_s0 L)) false)) (seq 0 (so_slen so)))
    by (rewrite E; apply combine_seq_nth).
  rewrite E2, E3. reflexivity.
Qed.

(* ------------------------------------------------------------------------------------------------------------------ *)
(** * LogicSim.c_to_s *)
Section Cts.
  Variable so : simops.
  Variable m : list bool.
  Let Pz (y : Z) : bool := (0 <=? zrd (-1) (so_locs so) (Z.of_nat (ppo_off so) + y))%Z.
  Let cv (y : Z) : planes := mrd 1 (map emb2 m) (zrd (-1) (so_locs so) (Z.of_nat (ppo_off so) + y)).
  Let G1 (row : planes) (y : Z) : planes := set_firstn 1 row (cv y).
  Let G2 (row : planes) (y : Z) : planes := firstn 1 row ++ firstn 1 (cv y) ++ skipn 2 row.
  Let f (iv : nat * bool) : bool := match loc_of so (ppo_off so + fst iv) with Some l => nth l m false | None => snd iv end.

  Lemma cv_len1 y : exists b, cv y = [b].
  Proof.
    unfold cv, mrd. destruct (pyidx _ _) as [j|]; [|exists false; reflexivity].
    change (pdflt 1) with (emb2 false). rewrite map_nth. eexists. reflexivity.
  Qed.

  Lemma tr1_model : forall S a, rows3 S ->
    p0 (tr G1 Pz a S) = map f (combine (seq a (List.length S)) (p0 S)) /\ rows3 (tr G1 Pz a S).
  Proof.
    induction S as [|x r IH]; intros a HR; [split; [reflexivity|constructor]|].
    inversion HR as [|x' r' Hx Hr]. subst x' r'. destruct (IH (S a) Hr) as [E1 E2].
    cbn [tr List.length seq p0 map combine]. fold (p0 r). fold (p0 (tr G1 Pz (S a) r)). rewrite E1.
    assert (Ef : f (a, pl 0 x) = if (0 <=? nth (ppo_off so + a) (so_locs so) (-1)%Z)%Z
                                 then nth (Z.to_nat (nth (ppo_off so + a) (so_locs so) (-1)%Z)) m false else pl 0 x).
    { unfold f. cbn [fst snd]. rewrite loc_of_nth. destruct (0 <=? nth (ppo_off so + a) (so_locs so) (-1)%Z)%Z; reflexivity. }
    assert (EP : Pz (Z.of_nat a) = (0 <=? nth (ppo_off so + a) (so_locs so) (-1)%Z)%Z)
      by (unfold Pz; rewrite <- Nat2Z.inj_add, zrd_nat; reflexivity).
    rewrite Ef, EP.
    destruct (0 <=? nth (ppo_off so + a) (so_locs so) (-1)%Z)%Z eqn:Ez.
    - unfold G1, cv. rewrite <- Nat2Z.inj_add, zrd_nat, mrd_emb_Z by (apply Z.leb_le; exact Ez).
      destruct x as [|x0 [|x1 [|x2 [|x3 x]]]]; try discriminate Hx. split; [reflexivity|]. constructor; [reflexivity|exact E2].
    - split; [reflexivity|]. constructor; [exact Hx|exact E2].
  Qed.

  Lemma tr2_model : forall S a, rows3 S -> p0 (tr G2 Pz a S) = p0 S /\ rows3 (tr G2 Pz a S).
  Proof.
    induction S as [|x r IH]; intros a HR; [split; [reflexivity|constructor]|].
    inversion HR as [|x' r' Hx Hr]. subst x' r'. destruct (IH (S a) Hr) as [E1 E2].
    cbn [tr p0 map]. fold (p0 r). fold (p0 (tr G2 Pz (S a) r)). rewrite E1.
    destruct (Pz (Z.of_nat a)).
    - unfold G2. destruct (cv_len1 (Z.of_nat a)) as [b Eb]. rewrite Eb.
      destruct x as [|x0 [|x1 [|x2 [|x3 x]]]]; try discriminate Hx. split; [reflexivity|]. constructor; [reflexivity|exact E2].
    - split; [reflexivity|]. constructor; [exact Hx|exact E2].
  Qed.

  Theorem c_to_s_src_is_model n_io L : (n_io <= so_slen so)%nat -> ls_c L = map emb2 m -> rows3 (ls_s1 L) ->
    List.length (ls_s1 L) = so_slen so ->
    exists S1', c_to_s_src 1 (so_locs so) (Z.of_nat (ppo_off so)) n_io (so_slen so) L = mk_lsim (ls_c L) (ls_s0 L) S1' /\
      p0 S1' = c_to_s false so m (p0 (ls_s1 L)) /\ rows3 S1' /\ List.length S1' = so_slen so.
  Proof.
    intros Hn Hc HR Hl. unfold c_to_s_src. rewrite (slot_s_locs_merge _ _ _ _ Hn), Hc. cbn [Nat.eqb].
    fold Pz. rewrite <- Hl.
    pose proof (fold_tr G1 Pz (ls_s1 L) 0 [] eq_refl) as F1. cbn [app] in F1.
    pose proof (fold_tr G2 Pz (tr G1 Pz 0 (ls_s1 L)) 0 [] eq_refl) as F2. cbn [app] in F2. rewrite tr_length in F2.
    destruct (tr1_model (ls_s1 L) 0 HR) as [A1 A2]. destruct (tr2_model (tr G1 Pz 0 (ls_s1 L)) 0 A2) as [B1 B2].
    exists (tr G2 Pz 0 (tr G1 Pz 0 (ls_s1 L))). split; [|split; [|split]].
    - f_equal. etransitivity; [|exact F2]. f_equal. exact F1.
    - rewrite B1, A1. unfold c_to_s. rewrite Hl. reflexivity.
    - exact B2.
    - rewrite !tr_length. reflexivity.
  Qed.
End Cts.

(* ------------------------------------------------------------------------------------------------------------------ *)
(** * LogicSim.s_ppo_to_ppi (mdim < 3: whole rows are copied) *)
Lemma skipn_nth_cons {A} (d : A) : forall l a, (a < List.length l)%nat -> skipn a l = nth a l d :: skipn (S a) l.
Proof.
  induction l as [|x r IH]; intros a H; [cbn in H; lia|]. destruct a as [|a]; [reflexivity|].
  cbn [List.length] in H. change (skipn (S a) (x :: r)) with (skipn a r). change (nth (S a) (x :: r) d) with (nth a r d).
  rewrite (IH a) by lia. reflexivity.
Qed.

Lemma tr3_skipn S1 : forall suf a, (a + List.length suf = List.length S1)%nat ->
  tr (fun _ y => srd S1 y) (fun _ => true) a suf = skipn a S1.
Proof.
  induction suf as [|x r IH]; intros a H; cbn [List.length] in H.
  - rewrite skipn_all2 by lia. reflexivity.
  - cbn [tr]. rewrite srd_nat, (IH (S a)) by lia. rewrite (skipn_nth_cons (pdflt 3) S1 a) by lia. reflexivity.
Qed.

Lemma ppo_gen {V} (n : nat) : forall (s0 s1 : list V) a, List.length s0 = List.length s1 ->
  map (fun (ivw : nat * (V * V)) => if Nat.leb n (fst ivw) then snd (snd ivw) else fst (snd ivw))
      (combine (seq a (List.length s0)) (combine s0 s1)) = firstn (n - a) s0 ++ skipn (n - a) s1.
Proof.
  induction s0 as [|x r IH]; intros [|y s1] a H; try discriminate H.
  - cbn [List.length seq combine map]. rewrite firstn_nil, skipn_nil. reflexivity.
  - cbn [List.length seq combine map fst snd]. injection H as H. rewrite (IH s1 (S a) H).
    destruct (Nat.leb n a) eqn:E.
    + apply Nat.leb_le in E. replace (n - a)%nat with 0%nat by lia. replace (n - S a)%nat with 0%nat by lia. reflexivity.
    + apply Nat.leb_gt in E. replace (n - a)%nat with (S (n - S a)) by lia. reflexivity.
Qed.

Lemma ppo_to_ppi_split {V} n (s0 s1 : list V) : List.length s0 = List.length s1 ->
  ppo_to_ppi n s0 s1 = firstn n s0 ++ skipn n s1.
Proof. intros H. unfold ppo_to_ppi. rewrite (ppo_gen n s0 s1 0 H), Nat.sub_0_r. reflexivity. Qed.

Theorem s_ppo_to_ppi_src_is_model slen n_io L : (n_io <= slen)%nat -> List.length (ls_s0 L) = slen -> List.length (ls_s1 L) = slen ->
  rows3 (ls_s0 L) -> rows3 (ls_s1 L) ->
  exists S0', s_ppo_to_ppi_src 1 n_io slen L = mk_lsim (ls_c L) S0' (ls_s1 L) /\
    p0 S0' = ppo_to_ppi n_io (p0 (ls_s0 L)) (p0 (ls_s1 L)) /\ rows3 S0' /\ List.length S0' = slen.
Proof.
  intros Hn H0 H1 R0 R1. unfold s_ppo_to_ppi_src, ppio_s_locs. cbn [Nat.ltb Nat.leb].
  exists (firstn n_io (ls_s0 L) ++ skipn n_io (ls_s1 L)). split; [|split; [|split]].
  - f_equal. rewrite <- (firstn_skipn n_io (ls_s0 L)) at 1.
    assert (El : (slen - n_io)%nat = List.length (skipn n_io (ls_s0 L))) by (rewrite skipn_length; lia).
    rewrite El, <- (filter_all (zseq n_io _)).
    rewrite (fold_tr (fun _ y => srd (ls_s1 L) y) (fun _ => true) (skipn n_io (ls_s0 L)) n_io (firstn n_io (ls_s0 L)))
      by (rewrite firstn_length; lia).
    rewrite tr3_skipn by (rewrite skipn_length; lia). reflexivity.
  - rewrite ppo_to_ppi_split by (unfold p0; rewrite !map_length; lia).
    unfold p0. rewrite map_app, firstn_map, skipn_map. reflexivity.
  - unfold rows3 in *. apply Forall_app. split.
    + rewrite <- (firstn_skipn n_io (ls_s0 L)) in R0. apply Forall_app in R0. apply R0.
    + rewrite <- (firstn_skipn n_io (ls_s1 L)) in R1. apply Forall_app in R1. apply R1.
  - rewrite app_length, firstn_length, skipn_length. lia.
Qed.

(* ------------------------------------------------------------------------------------------------------------------ *)
(** * One simulation round and LogicSim.cycle *)
Section Drivers.
  Variable so : simops.
  Variable n_io : nat.
  Hypothesis HL : ops_located so.
  Hypothesis Hn : (n_io <= so_slen so)%nat.

  Definition stc_of := s_to_c_src 1 (so_locs so) (Z.of_nat (ppi_off so)) n_io (so_slen so).
  Definition cts_of := c_to_s_src 1 (so_locs so) (Z.of_nat (ppo_off so)) n_io (so_slen so).
  Definition p2p_of := s_ppo_to_ppi_src 1 n_io (so_slen so).
  (** LogicSim.c_prop() for m == 2 without callback: the pinned skeleton around the translated _prop_cpu loop *)
  Definition prop_of (M : smem) : smem :=
    fst (c_prop_src loop_prop_cpu loop_cprop2_cb loop_cprop4 loop_cprop8 2 (so_locs so) (so_nlines so)
                    (Z.of_nat (so_nlines so + 1)) (Z.of_nat (so_nlines so + 2)) None (map row_of (so_ops so)) M).
  (** s_to_c(); c_prop(); c_to_s() *)
  Definition round_of (L : lsim) : lsim :=
    let L1 := stc_of L in cts_of (mk_lsim (prop_of (ls_c L1)) (ls_s0 L1) (ls_s1 L1)).

  Lemma prop_of_model m : prop_of (map emb2 m) = map emb2 (c_prop false sem2 so m).
  Proof.
    unfold prop_of.
    change (c_prop_src loop_prop_cpu loop_cprop2_cb loop_cprop4 loop_cprop8 2 (so_locs so) (so_nlines so)
                    (Z.of_nat (so_nlines so + 1)) (Z.of_nat (so_nlines so + 2)) None (map row_of (so_ops so)) (map emb2 m))
      with (run_loop 1 loop_prop_cpu (so_locs so) (so_nlines so) 0%Z 0%Z None (map row_of (so_ops so)) (map emb2 m)).
    rewrite (prop_cpu_source_is_model so m _ 0%Z 0%Z HL). reflexivity.
  Qed.

  Theorem round_src_is_model L m s0 s1 : rel2 so L m s0 s1 ->
    let m' := c_prop false sem2 so (s_to_c so s0 m) in
    rel2 so (round_of L) m' s0 (c_to_s false so m' s1).
  Proof.
    intros (Hc & E0 & E1 & L0 & L1 & R0 & R1). cbv zeta. unfold round_of, stc_of.
    rewrite (s_to_c_src_is_model so n_io L m Hn Hc R0 L0). cbn [ls_c ls_s0 ls_s1]. rewrite prop_of_model, <- E0.
    set (m' := c_prop false sem2 so (s_to_c so s0 m)).
    destruct (c_to_s_src_is_model so m' n_io (mk_lsim (map emb2 m') (ls_s0 L) (ls_s1 L)) Hn eq_refl R1 L1) as (S1' & Ec & Ep & Er & El).
    unfold cts_of. rewrite Ec. cbn [ls_c ls_s0 ls_s1] in *. subst s1.
    repeat split; try assumption. symmetry. exact Ep.
  Qed.

  Theorem cycle_src_is_model : forall k L m s0 s1, rel2 so L m s0 s1 ->
    let r := cycles k false sem2 so n_io m s0 s1 in
    rel2 so (cycle_src k stc_of cts_of p2p_of prop_of L) (fst (fst r)) (snd (fst r)) (snd r).
  Proof.
    induction k as [|k IH]; intros L m s0 s1 HRel; [exact HRel|]. cbn [cycle_src cycles]. cbv zeta.
    pose proof (round_src_is_model L m s0 s1 HRel) as HR. cbv zeta in HR. unfold round_of in HR.
    set (m' := c_prop false sem2 so (s_to_c so s0 m)) in *.
    set (L2 := cts_of _) in *.
    destruct HR as (Hc & E0 & E1 & L0 & L1 & R0 & R1).
    destruct (s_ppo_to_ppi_src_is_model (so_slen so) n_io L2 Hn L0 L1 R0 R1) as (S0' & Ec & Ep & Er & El).
    apply IH. unfold p2p_of. rewrite Ec. unfold rel2. cbn [ls_c ls_s0 ls_s1].
    repeat split; try assumption. rewrite Ep, <- E0, <- E1. reflexivity.
  Qed.
End Drivers.

(* ------------------------------------------------------------------------------------------------------------------ *)
(** * Every build() result *)
Lemma n_io_le_slen c : (List.length (c_io c) <= List.length (s_nodes c))%nat.
Proof. unfold s_nodes. rewrite app_length. lia. Qed.

(** the state LogicSim.__init__ leaves: c = zeros, s = any array of s_len rows of three planes *)
Definition lsim_init (so : simops) (L : lsim) : Prop :=
  ls_c L = repeat [false] (N.to_nat (so_len so)) /\ rows3 (ls_s0 L) /\ rows3 (ls_s1 L) /\
  List.length (ls_s0 L) = so_slen so /\ List.length (ls_s1 L) = so_slen so.

Lemma lsim_init_rel so L : lsim_init so L -> rel2 so L (repeat false (N.to_nat (so_len so))) (p0 (ls_s0 L)) (p0 (ls_s1 L)).
Proof.
  intros (Hc & R0 & R1 & L0 & L1). unfold rel2. repeat split; try assumption.
  rewrite Hc. generalize (N.to_nat (so_len so)). induction n as [|n IH]; [reflexivity|]. cbn [repeat map]. rewrite IH. reflexivity.
Qed.

Section Build.
  Variables (c : netlist) (caps : list N) (cmin : N) (reuse strip : bool) (so : simops).
  Hypothesis WF : wf_netlist c.
  Hypothesis AC : comb_acyclic c.
  Hypothesis CM : (0 < cmin)%N.
  Hypothesis GK : KV.Proofs.EndToEnd.gates_known c.
  Hypothesis FK : strip = true -> KV.Proofs.ReuseStrip.forks_ok c.
  Hypothesis HB : build c caps cmin reuse strip = Some so.

  Let n_io := List.length (c_io c).
  Lemma build_slen : so_slen so = List.length (s_nodes c).
  Proof. destruct (build_glue c caps cmin reuse strip so WF AC CM GK FK HB) as (_ & E & _). exact E. Qed.
  Lemma build_n_io : (n_io <= so_slen so)%nat.
  Proof. rewrite build_slen. apply n_io_le_slen. Qed.
  Let HLoc : ops_located so := build_ops_located c caps cmin reuse strip so WF AC CM GK FK HB.

  (** one round from ANY memory and k cycles: the source-level state stays related to the compared hand model *)
  Theorem build_round_src_is_model L m s0 s1 : rel2 so L m s0 s1 ->
    let m' := c_prop false sem2 so (s_to_c so s0 m) in
    rel2 so (round_of so n_io L) m' s0 (c_to_s false so m' s1).
  Proof. exact (round_src_is_model so n_io HLoc build_n_io L m s0 s1). Qed.

  Theorem build_cycle_src_is_model k L m s0 s1 : rel2 so L m s0 s1 ->
    let r := cycles k false sem2 so n_io m s0 s1 in
    rel2 so (cycle_src k (stc_of so n_io) (cts_of so n_io) (p2p_of so n_io) (prop_of so) L) (fst (fst r)) (snd (fst r)) (snd r).
  Proof. exact (cycle_src_is_model so n_io HLoc build_n_io k L m s0 s1). Qed.

  (** one round from the cleared memory = [simulate], hence the unique gate-by-gate solution at every data line *)
  Theorem build_round_solution L v : lsim_init so L ->
    solution (semN sem2) false c (fun p => nth p (p0 (ls_s0 L)) false) v ->
    let L' := round_of so n_io L in
    p0 (ls_s1 L') = simulate false sem2 so (p0 (ls_s0 L)) (p0 (ls_s1 L)) /\ ls_s0 L' = ls_s0 L /\
    forall p, (p < List.length (s_nodes c))%nat ->
      nth p (p0 (ls_s1 L')) false = match snode_in c p with Some l0 => v l0 | None => nth p (p0 (ls_s1 L)) false end.
  Proof.
    intros HI Hv. cbv zeta. pose proof HI as (_ & _ & _ & L0 & L1).
    pose proof (build_round_src_is_model L _ _ _ (lsim_init_rel so L HI)) as HR. cbv zeta in HR.
    destruct HR as (_ & E0 & E1 & _).
    assert (Es : p0 (ls_s1 (round_of so n_io L)) = simulate false sem2 so (p0 (ls_s0 L)) (p0 (ls_s1 L))) by (symmetry; exact E1).
    assert (FK' : strip = true -> KV.Proofs.ReuseStrip.forks_ok c /\ forall x b cc d, sem2 BUF1 x b cc d = x)
      by (intros E; split; [apply (FK E)|reflexivity]).
    destruct (logicsim_model_correct false sem2 c caps cmin reuse strip so (p0 (ls_s0 L)) (p0 (ls_s1 L)) v WF AC CM GK FK' HB
                ltac:(unfold p0; rewrite map_length; exact L0) ltac:(unfold p0; rewrite map_length; exact L1) Hv) as (Esl & _ & Hp).
    split; [exact Es|]. split.
    - unfold round_of, cts_of, c_to_s_src, stc_of, s_to_c_src. reflexivity.
    - intros p Hlt. rewrite Es. apply Hp. rewrite Esl. exact Hlt.
  Qed.

  (** k cycles from the cleared memory = the k-fold synchronous semantics of the netlist *)
  Theorem build_cycle_solution k L : lsim_init so L ->
    let L' := cycle_src k (stc_of so n_io) (cts_of so n_io) (p2p_of so n_io) (prop_of so) L in
    let r := cycles k false sem2 so n_io (repeat false (N.to_nat (so_len so))) (p0 (ls_s0 L)) (p0 (ls_s1 L)) in
    (ls_c L' = map emb2 (fst (fst r)) /\ p0 (ls_s0 L') = snd (fst r) /\ p0 (ls_s1 L') = snd r) /\
    (p0 (ls_s0 L'), p0 (ls_s1 L')) = line_cycles (semN sem2) false c k (p0 (ls_s0 L), p0 (ls_s1 L)) /\
    iter_sem (semN sem2) false c k (p0 (ls_s0 L)) (p0 (ls_s1 L)) (p0 (ls_s0 L')) (p0 (ls_s1 L')).
  Proof.
    intros HI. cbv zeta. pose proof HI as (_ & _ & _ & L0 & L1).
    pose proof (build_cycle_src_is_model k L _ _ _ (lsim_init_rel so L HI)) as HR. cbv zeta in HR.
    destruct HR as (Hc & E0 & E1 & _).
    assert (FK' : strip = true -> KV.Proofs.ReuseStrip.forks_ok c /\ forall x b cc d, sem2 BUF1 x b cc d = x)
      by (intros E; split; [apply (FK E)|reflexivity]).
    rewrite build_slen in L0, L1.
    destruct (cycles_model_correct false sem2 c caps cmin reuse strip so k (p0 (ls_s0 L)) (p0 (ls_s1 L)) WF AC CM GK FK' HB
                ltac:(unfold p0; rewrite map_length; exact L0) ltac:(unfold p0; rewrite map_length; exact L1)) as [A B].
    cbv zeta in A, B. fold n_io in A, B. rewrite <- E0, <- E1.
    split; [split; [exact Hc|split; reflexivity]|]. split; [exact A|exact B].
  Qed.
End Build.

(** the compared entry point sim_case2 (capacities 1): what the source-level cycle leaves in s[0] / s[1] IS its result *)
Theorem sim_case2_is_source c reuse strip so k L :
  wf_netlist c -> comb_acyclic c -> KV.Proofs.EndToEnd.gates_known c -> (strip = true -> KV.Proofs.ReuseStrip.forks_ok c) ->
  build c (repeat 1%N (List.length (c_lines c) + 3)) 1%N reuse strip = Some so -> lsim_init so L ->
  let n_io := List.length (c_io c) in
  let L' := cycle_src k (stc_of so n_io) (cts_of so n_io) (p2p_of so n_io) (prop_of so) L in
  sim_case2 c reuse strip k (p0 (ls_s0 L)) (p0 (ls_s1 L)) = Some (p0 (ls_s0 L'), p0 (ls_s1 L')) /\
  (p0 (ls_s0 L'), p0 (ls_s1 L')) = line_cycles sem_lut false c k (p0 (ls_s0 L), p0 (ls_s1 L)) /\
  iter_sem sem_lut false c k (p0 (ls_s0 L)) (p0 (ls_s1 L)) (p0 (ls_s0 L')) (p0 (ls_s1 L')).
Proof.
  intros WF AC GK FK HB HI. cbv zeta.
  destruct (build_cycle_solution c _ 1%N reuse strip so WF AC eq_refl GK FK HB k L HI) as [(_ & E0 & E1) _]. cbv zeta in E0, E1.
  pose proof HI as (_ & _ & _ & L0 & L1). rewrite (build_slen c _ 1%N reuse strip so WF AC eq_refl GK FK HB) in L0, L1.
  pose proof (sim_case2_correct c reuse strip k (p0 (ls_s0 L)) (p0 (ls_s1 L)) WF AC GK FK
                ltac:(unfold p0; rewrite map_length; exact L0) ltac:(unfold p0; rewrite map_length; exact L1)) as HS.
  assert (ES : sim_case2 c reuse strip k (p0 (ls_s0 L)) (p0 (ls_s1 L)) =
               Some (p0 (ls_s0 (cycle_src k (stc_of so (List.length (c_io c))) (cts_of so (List.length (c_io c))) (p2p_of so (List.length (c_io c))) (prop_of so) L)),
                     p0 (ls_s1 (cycle_src k (stc_of so (List.length (c_io c))) (cts_of so (List.length (c_io c))) (p2p_of so (List.length (c_io c))) (prop_of so) L)))).
  { unfold sim_case2. rewrite HB. rewrite E0, E1.
    destruct (cycles k false sem2 so (List.length (c_io c)) (repeat false (N.to_nat (so_len so))) (p0 (ls_s0 L)) (p0 (ls_s1 L))) as [[m' a] b].
    reflexivity. }
  rewrite ES in HS. split; [exact ES|exact HS].
Qed.
