(** Proofs for C20: wildcard resolution, via arrays, per-layer / per-type listings, ROW arithmetic.
    All statements quantify over ALL routing statements / wire lists of Model/DefRoute.v. *)
From Coq Require Import List ZArith Bool String Ascii Arith Lia.
From KV Require Import Model.DefRoute Model.DefSpec.
Import ListNotations.
Local Open Scope list_scope.

(* ------------------------------------------------------------------------------------------------ *)
(** * small list facts *)
Lemma last_cons_default : forall {A} (l : list A) a d, last (a :: l) d = last l a.
Proof. induction l as [|b l IH]; intros; [reflexivity|]. change (last (a :: b :: l) d) with (last (b :: l) d). rewrite !IH. reflexivity. Qed.

Lemma last_snoc : forall {A} (l : list A) a d, last (l ++ [a]) d = a.
Proof. induction l as [|b l IH]; intros; [reflexivity|]. simpl app. destruct (l ++ [a]) eqn:E; [destruct l; discriminate|]. rewrite <- E. simpl. rewrite E. rewrite <- E. apply IH. Qed.

Lemma filter_all : forall {A} (f : A -> bool) l, (forall x, In x l -> f x = true) -> filter f l = l.
Proof. induction l as [|a l IH]; intros H; [reflexivity|]. simpl. rewrite (H a (or_introl eq_refl)). f_equal. apply IH. intros; apply H; right; assumption. Qed.

Lemma filter_filter : forall {A} (f g : A -> bool) l, filter f (filter g l) = filter (fun x => g x && f x) l.
Proof. induction l as [|a l IH]; [reflexivity|]. simpl. destruct (g a); simpl; [destruct (f a)|]; rewrite IH; reflexivity. Qed.

Lemma nodup_app : forall {A} (a b : list A), NoDup a -> NoDup b -> (forall x, In x a -> ~ In x b) -> NoDup (a ++ b).
Proof.
  induction a as [|x a IH]; intros b Ha Hb Hd; [assumption|]. simpl. inversion Ha; subst. constructor.
  - rewrite in_app_iff. intros [H|H]; [contradiction|]. exact (Hd x (or_introl eq_refl) H).
  - apply IH; auto. intros y Hy. apply Hd. right; assumption.
Qed.

Lemma nodup_map_inj : forall {A B} (f : A -> B) l, (forall a b, In a l -> In b l -> f a = f b -> a = b) -> NoDup l -> NoDup (map f l).
Proof.
  induction l as [|x l IH]; intros Hinj Hn; [constructor|]. inversion Hn; subst. simpl. constructor.
  - rewrite in_map_iff. intros [y [Hy Hin]]. assert (y = x) by (apply Hinj; [right; assumption|left; reflexivity|assumption]). subst. contradiction.
  - apply IH; auto. intros; apply Hinj; auto; right; assumption.
Qed.

(* ------------------------------------------------------------------------------------------------ *)
(** * wildcard resolution: the loop of wire_points = the structural specification *)
Lemma wp_loop_gen : forall es acc p, fold_left wp_step es (acc ++ [p]) = acc ++ p :: resolve_spec p es.
Proof.
  induction es as [|e es IH]; intros acc p; [reflexivity|]. destruct e as [x y ext|nm vp]; simpl.
  - rewrite last_snoc. rewrite IH. rewrite <- app_assoc. reflexivity.
  - apply IH.
Qed.

Lemma wire_points_loop_spec : forall w, wire_points_loop w = w_first w :: resolve_spec (w_first w) (w_rest w).
Proof. intros w. unfold wire_points_loop. exact (wp_loop_gen (w_rest w) [] (w_first w)). Qed.

Theorem wildcard_resolve : forall w,
  wire_points w = match resolve_spec (w_first w) (w_rest w) with [] => [] | r => w_first w :: r end.
Proof. intros w. unfold wire_points. rewrite wire_points_loop_spec. destruct (resolve_spec (w_first w) (w_rest w)); reflexivity. Qed.

(** resolution column by column *)
Fixpoint scan (d : Z) (os : list (option Z)) : list Z :=
  match os with [] => [] | o :: r => let v := or_else o d in v :: scan v r end.

Lemma scan_length : forall os d, List.length (scan d os) = List.length os.
Proof. induction os; intros; simpl; [reflexivity|]. f_equal. apply IHos. Qed.

Lemma scan_inherits : forall os d k v, nth_error (scan d os) k = Some v -> inherits d os k v.
Proof.
  induction os as [|o os IH]; intros d k v H; [destruct k; discriminate|]. destruct k as [|k]; simpl in H.
  - injection H as H. destruct o as [a|]; simpl in H; subst.
    + left. exists 0. split; [lia|]. split; [reflexivity|]. intros i Hi; lia.
    + right. split; [reflexivity|]. intros i Hi. assert (i = 0) by lia. subst. reflexivity.
  - apply IH in H. destruct H as [[j [Hj [Hv Hn]]]|[Hv Hn]].
    + left. exists (S j). split; [lia|]. split; [exact Hv|]. intros i Hi. destruct i as [|i]; [lia|]. simpl. apply Hn. lia.
    + destruct o as [a|]; simpl in Hv.
      * left. exists 0. split; [lia|]. split; [subst; reflexivity|]. intros i Hi. destruct i as [|i]; [lia|]. simpl. apply Hn. lia.
      * right. split; [assumption|]. intros i Hi. destruct i as [|i]; [reflexivity|]. simpl. apply Hn. lia.
Qed.

Lemma inherits_functional : forall d os k v v', inherits d os k v -> inherits d os k v' -> v = v'.
Proof.
  intros d os k v v' [[j [Hj [Hv Hn]]]|[Hv Hn]] [[j' [Hj' [Hv' Hn']]]|[Hv' Hn']].
  - destruct (Nat.lt_trichotomy j j') as [L|[E|L]].
    + rewrite (Hn j') in Hv' by lia. discriminate.
    + subst. rewrite Hv in Hv'. congruence.
    + rewrite (Hn' j) in Hv by lia. discriminate.
  - rewrite (Hn' j) in Hv by lia. discriminate.
  - rewrite (Hn j') in Hv' by lia. discriminate.
  - congruence.
Qed.

Lemma scan_inherits_iff : forall os d k v, k < List.length os -> (nth_error (scan d os) k = Some v <-> inherits d os k v).
Proof.
  intros os d k v Hk. split; [apply scan_inherits|]. intros Hi.
  destruct (nth_error (scan d os) k) as [v'|] eqn:E.
  - f_equal. eapply inherits_functional; [apply scan_inherits; exact E|exact Hi].
  - apply nth_error_None in E. rewrite scan_length in E. lia.
Qed.

Lemma resolve_cols : forall es p,
  map px (resolve_spec p es) = scan (px p) (col_x es) /\
  map py (resolve_spec p es) = scan (py p) (col_y es) /\
  map pext (resolve_spec p es) = col_ext es.
Proof.
  unfold col_x, col_y, col_ext. induction es as [|e es IH]; intros p; [repeat split|]. destruct e as [x y ext|nm vp]; simpl.
  - destruct (IH (resolve1 p x y ext)) as [Hx [Hy He]]. rewrite Hx, Hy, He. repeat split.
  - apply IH.
Qed.

Lemma resolve_length : forall es p, List.length (resolve_spec p es) = List.length (pts_of es).
Proof. induction es as [|e es IH]; intros p; [reflexivity|]. destruct e; simpl; [f_equal|]; apply IH. Qed.

(** every resolved coordinate is the nearest explicitly written one (or that of the first point) -- and nothing else *)
Theorem wildcard_nearest : forall first es k q,
  nth_error (resolve_spec first es) k = Some q <->
  (k < List.length (pts_of es) /\ inherits (px first) (col_x es) k (px q) /\ inherits (py first) (col_y es) k (py q) /\
   nth_error (col_ext es) k = Some (pext q)).
Proof.
  intros first es k q. destruct (resolve_cols es first) as [Hx [Hy He]]. split.
  - intros H. assert (Hk : k < List.length (pts_of es)).
    { rewrite <- (resolve_length es first). apply nth_error_Some. rewrite H. discriminate. }
    split; [exact Hk|]. split; [|split].
    + apply scan_inherits. rewrite <- Hx. rewrite nth_error_map, H. reflexivity.
    + apply scan_inherits. rewrite <- Hy. rewrite nth_error_map, H. reflexivity.
    + rewrite <- He. rewrite nth_error_map, H. reflexivity.
  - intros [Hk [Ix [Iy Ie]]].
    destruct (nth_error (resolve_spec first es) k) as [q'|] eqn:E.
    + f_equal.
      assert (Hx' : nth_error (scan (px first) (col_x es)) k = Some (px q')) by (rewrite <- Hx, nth_error_map, E; reflexivity).
      assert (Hy' : nth_error (scan (py first) (col_y es)) k = Some (py q')) by (rewrite <- Hy, nth_error_map, E; reflexivity).
      assert (He' : nth_error (col_ext es) k = Some (pext q')) by (rewrite <- He, nth_error_map, E; reflexivity).
      apply scan_inherits in Hx'. apply scan_inherits in Hy'.
      pose proof (inherits_functional _ _ _ _ _ Hx' Ix). pose proof (inherits_functional _ _ _ _ _ Hy' Iy).
      rewrite Ie in He'. injection He' as He'.
      destruct q as [[a b] c], q' as [[a' b'] c']. unfold px, py, pext in *. simpl in *. congruence.
    + apply nth_error_None in E. rewrite resolve_length in E. lia.
Qed.

(* ------------------------------------------------------------------------------------------------ *)
(** * defaultdict facts *)
Definition add_key (ks : list string) (k : string) : list string := if existsb (String.eqb k) ks then ks else ks ++ [k].
Definition dd_of {A} (kvs : list (string * A)) (d : dd A) : dd A := fold_left (fun d kv => dd_append (fst kv) (snd kv) d) kvs d.

Lemma dd_get_append : forall {A} k k' (v : A) d,
  dd_get k (dd_append k' v d) = if String.eqb k k' then dd_get k d ++ [v] else dd_get k d.
Proof.
  induction d as [|[k0 l] d IH]; simpl.
  - destruct (String.eqb k k'); reflexivity.
  - destruct (String.eqb_spec k' k0) as [E|N]; simpl.
    + subst k0. destruct (String.eqb k k'); reflexivity.
    + rewrite IH. destruct (String.eqb_spec k k0) as [E1|N1]; [|reflexivity].
      subst k0. destruct (String.eqb_spec k k'); [congruence|reflexivity].
Qed.

Lemma dd_get_extend : forall {A} k k' (vs : list A) d,
  dd_get k (dd_extend k' vs d) = if String.eqb k k' then dd_get k d ++ vs else dd_get k d.
Proof.
  induction d as [|[k0 l] d IH]; simpl.
  - destruct (String.eqb k k'); reflexivity.
  - destruct (String.eqb_spec k' k0) as [E|N]; simpl.
    + subst k0. destruct (String.eqb k k'); reflexivity.
    + rewrite IH. destruct (String.eqb_spec k k0) as [E1|N1]; [|reflexivity].
      subst k0. destruct (String.eqb_spec k k'); [congruence|reflexivity].
Qed.

Lemma dd_keys_append : forall {A} k (v : A) d, dd_keys (dd_append k v d) = add_key (dd_keys d) k.
Proof.
  unfold dd_keys, add_key. induction d as [|[k0 l] d IH]; simpl; [reflexivity|].
  destruct (String.eqb k k0); simpl; [reflexivity|]. rewrite IH. destruct (existsb (String.eqb k) (map fst d)); reflexivity.
Qed.

Lemma dd_keys_extend : forall {A} k (vs : list A) d, dd_keys (dd_extend k vs d) = add_key (dd_keys d) k.
Proof.
  unfold dd_keys, add_key. induction d as [|[k0 l] d IH]; simpl; [reflexivity|].
  destruct (String.eqb k k0); simpl; [reflexivity|]. rewrite IH. destruct (existsb (String.eqb k) (map fst d)); reflexivity.
Qed.

Lemma existsb_eqb_in : forall k ks, existsb (String.eqb k) ks = true <-> In k ks.
Proof.
  intros. rewrite existsb_exists. split.
  - intros [x [Hin He]]. apply String.eqb_eq in He. subst. assumption.
  - intros H. exists k. split; [assumption|apply String.eqb_refl].
Qed.

Lemma add_key_nodup : forall ks k, NoDup ks -> NoDup (add_key ks k).
Proof.
  intros ks k H. unfold add_key. destruct (existsb (String.eqb k) ks) eqn:E; [assumption|].
  apply nodup_app; [assumption|repeat constructor; intros []|].
  intros x Hx [Hk|[]]. subst x. apply existsb_eqb_in in Hx. congruence.
Qed.

Lemma fold_add_key : forall l acc,
  fold_left add_key l acc = acc ++ filter (fun k => negb (existsb (String.eqb k) acc)) (first_occ l).
Proof.
  induction l as [|k l IH]; intros acc; simpl; [rewrite app_nil_r; reflexivity|].
  rewrite IH. unfold add_key. destruct (existsb (String.eqb k) acc) eqn:E; simpl.
  - f_equal. rewrite filter_filter. apply filter_ext_in. intros a _.
    destruct (existsb (String.eqb a) acc) eqn:Ea; simpl; [rewrite andb_false_r; reflexivity|].
    rewrite andb_true_r. destruct (String.eqb_spec a k); [subst; congruence|reflexivity].
  - rewrite <- app_assoc. simpl. f_equal. f_equal. rewrite filter_filter. apply filter_ext_in. intros a _.
    rewrite existsb_app. simpl. rewrite orb_false_r. rewrite negb_orb. rewrite andb_comm. reflexivity.
Qed.

Lemma fold_add_key_nil : forall l, fold_left add_key l [] = first_occ l.
Proof. intros. rewrite fold_add_key. simpl. apply filter_all. reflexivity. Qed.

Lemma first_occ_in : forall l k, In k (first_occ l) <-> In k l.
Proof.
  induction l as [|a l IH]; intros k; simpl; [tauto|]. rewrite filter_In, IH.
  destruct (String.eqb_spec k a); subst; simpl; intuition congruence.
Qed.

Lemma first_occ_nodup : forall l, NoDup (first_occ l).
Proof.
  induction l as [|a l IH]; simpl; constructor.
  - rewrite filter_In. intros [_ H]. rewrite String.eqb_refl in H. discriminate.
  - apply NoDup_filter. assumption.
Qed.

Lemma dd_of_get : forall {A} k (kvs : list (string * A)) d, dd_get k (dd_of kvs d) = dd_get k d ++ under k kvs.
Proof.
  unfold dd_of, under. induction kvs as [|[k' v] kvs IH]; intros d; simpl; [rewrite app_nil_r; reflexivity|].
  rewrite IH, dd_get_append. destruct (String.eqb k k'); simpl; [rewrite <- app_assoc|]; reflexivity.
Qed.

Lemma dd_of_keys : forall {A} (kvs : list (string * A)) d, dd_keys (dd_of kvs d) = fold_left add_key (map fst kvs) (dd_keys d).
Proof.
  unfold dd_of. induction kvs as [|[k' v] kvs IH]; intros d; simpl; [reflexivity|]. rewrite IH, dd_keys_append. reflexivity.
Qed.

Lemma dd_of_nodup : forall {A} (kvs : list (string * A)) d, NoDup (dd_keys d) -> NoDup (dd_keys (dd_of kvs d)).
Proof.
  unfold dd_of. induction kvs as [|[k' v] kvs IH]; intros d H; simpl; [assumption|]. apply IH. rewrite dd_keys_append. apply add_key_nodup; assumption.
Qed.

Lemma dd_get_notin : forall {A} k (d : dd A), ~ In k (dd_keys d) -> dd_get k d = [].
Proof.
  induction d as [|[k0 l] d IH]; intros H; simpl; [reflexivity|]. destruct (String.eqb_spec k k0).
  - subst. exfalso. apply H. left; reflexivity.
  - apply IH. intros Hin. apply H. right; assumption.
Qed.

(** with unique keys, collecting all entries of a key = looking the key up *)
Lemma dd_get_flat : forall {A} k (d : dd A), NoDup (dd_keys d) ->
  flat_map (fun kv => if String.eqb k (fst kv) then snd kv else []) d = dd_get k d.
Proof.
  induction d as [|[k0 l] d IH]; intros H; simpl; [reflexivity|]. inversion H; subst.
  destruct (String.eqb_spec k k0).
  - subst. rewrite IH by assumption. rewrite dd_get_notin by assumption. apply app_nil_r.
  - simpl. apply IH; assumption.
Qed.

(* ------------------------------------------------------------------------------------------------ *)
(** * vias of one wire = the via walk, filed per via type *)
Lemma fold_append_pair : forall {A} nm (l : list A) d,
  fold_left (fun d v => dd_append nm v d) l d = dd_of (map (pair nm) l) d.
Proof. unfold dd_of. induction l as [|v l IH]; intros d; simpl; [reflexivity|]. apply IH. Qed.

Lemma wv_fold : forall es loc vv, snd (fold_left wv_step es (loc, vv)) = dd_of (via_walk loc es) vv.
Proof.
  induction es as [|e es IH]; intros loc vv; [reflexivity|]. destruct e as [x y ext|nm vp]; simpl.
  - apply IH.
  - rewrite IH. rewrite fold_append_pair. unfold dd_of. rewrite fold_left_app. reflexivity.
Qed.

Lemma wire_vias_walk : forall w, wire_vias w = dd_of (wire_via_walk w) [].
Proof. intros. unfold wire_vias, wire_via_walk. apply wv_fold. Qed.

Theorem wire_vias_listing : forall w,
  (forall t, dd_get t (wire_vias w) = under t (wire_via_walk w)) /\
  dd_keys (wire_vias w) = first_occ (map fst (wire_via_walk w)).
Proof.
  intros w. rewrite wire_vias_walk. split.
  - intros t. rewrite dd_of_get. reflexivity.
  - rewrite dd_of_keys. apply fold_add_key_nil.
Qed.

Lemma wire_vias_nodup : forall w, NoDup (dd_keys (wire_vias w)).
Proof. intros. rewrite wire_vias_walk. apply dd_of_nodup. constructor. Qed.

(** the location of a via is the last resolved point before it -- the same resolution as for wire points *)
Definition end_loc (loc : Z * Z) (es : list elem) : Z * Z :=
  fold_left (fun l e => match e with EPt x y _ => (or_else x (fst l), or_else y (snd l)) | EVia _ _ => l end) es loc.

Lemma via_walk_app : forall a b loc, via_walk loc (a ++ b) = via_walk loc a ++ via_walk (end_loc loc a) b.
Proof.
  induction a as [|e a IH]; intros b loc; [reflexivity|]. destruct e as [x y ext|nm vp]; simpl.
  - apply IH.
  - rewrite IH. rewrite <- app_assoc. reflexivity.
Qed.

Lemma end_loc_resolve : forall pre first, end_loc (pxy first) pre = pxy (last (resolve_spec first pre) first).
Proof.
  induction pre as [|e pre IH]; intros first; [reflexivity|]. destruct e as [x y ext|nm vp].
  - change (resolve_spec first (EPt x y ext :: pre)) with (resolve1 first x y ext :: resolve_spec (resolve1 first x y ext) pre).
    rewrite last_cons_default. rewrite <- IH. reflexivity.
  - apply IH.
Qed.

Theorem via_location : forall first pre nm vp post,
  let here := pxy (last (resolve_spec first pre) first) in
  via_walk (pxy first) (pre ++ EVia nm vp :: post) =
  via_walk (pxy first) pre ++ map (pair nm) (place here vp) ++ via_walk here post.
Proof. intros. rewrite via_walk_app. simpl. rewrite end_loc_resolve. reflexivity. Qed.

(* ------------------------------------------------------------------------------------------------ *)
(** * via arrays *)
Local Open Scope Z_scope.

Theorem via_array_members : forall x y n m dx dy a b o,
  In (a, b, o) (expand_array x y n m dx dy) <->
  (o = "N"%string /\ exists i j, (i < n)%nat /\ (j < m)%nat /\ a = x + Z.of_nat i * dx /\ b = y + Z.of_nat j * dy).
Proof.
  intros. unfold expand_array. rewrite in_flat_map. split.
  - intros [i [Hi H]]. apply in_map_iff in H. destruct H as [j [E Hj]]. apply in_seq in Hi. apply in_seq in Hj.
    injection E as Ea Eb Eo. split; [congruence|]. exists i, j. repeat split; try lia; congruence.
  - intros [Eo [i [j [Hi [Hj [Ea Eb]]]]]]. exists i. split; [apply in_seq; lia|]. apply in_map_iff. exists j.
    split; [subst; reflexivity|apply in_seq; lia].
Qed.

Lemma flat_map_uniform_length : forall {A B} (f : A -> list B) m l,
  (forall a, List.length (f a) = m) -> List.length (flat_map f l) = (List.length l * m)%nat.
Proof. induction l as [|a l IH]; intros H; simpl; [reflexivity|]. rewrite app_length, H, IH by assumption. reflexivity. Qed.

Theorem via_array_count : forall x y n m dx dy, List.length (expand_array x y n m dx dy) = (n * m)%nat.
Proof.
  intros. unfold expand_array. rewrite (flat_map_uniform_length _ m).
  - rewrite seq_length. reflexivity.
  - intros. rewrite map_length, seq_length. reflexivity.
Qed.

Lemma nodup_flat_map : forall {A B} (f : A -> list B) l,
  NoDup l -> (forall a, In a l -> NoDup (f a)) ->
  (forall a a' b, In a l -> In a' l -> In b (f a) -> In b (f a') -> a = a') -> NoDup (flat_map f l).
Proof.
  induction l as [|a l IH]; intros Hn Hf Hd; simpl; [constructor|]. inversion Hn; subst.
  apply nodup_app.
  - apply Hf. left; reflexivity.
  - apply IH; auto.
    + intros; apply Hf; right; assumption.
    + intros a0 a' b Ha0 Ha'. apply Hd; right; assumption.
  - intros b Hb Hin. apply in_flat_map in Hin. destruct Hin as [a' [Ha' Hb']].
    assert (a = a') by (apply (Hd a a' b); [left; reflexivity|right; assumption|assumption|assumption]). subst. contradiction.
Qed.

Theorem via_array_nodup : forall x y n m dx dy,
  (n <= 1)%nat \/ dx <> 0 -> (m <= 1)%nat \/ dy <> 0 -> NoDup (expand_array x y n m dx dy).
Proof.
  intros x y n m dx dy Hx Hy. unfold expand_array. apply nodup_flat_map.
  - apply seq_NoDup.
  - intros i _. apply nodup_map_inj; [|apply seq_NoDup]. intros j j' Hj Hj' E. apply in_seq in Hj. apply in_seq in Hj'.
    injection E as E. destruct Hy as [Hm|Hd]; [lia|]. assert (Z.of_nat j * dy = Z.of_nat j' * dy) by lia.
    apply Z.mul_cancel_r in H; [lia|assumption].
  - intros i i' b Hi Hi' Hb Hb'. apply in_seq in Hi. apply in_seq in Hi'.
    apply in_map_iff in Hb. destruct Hb as [j [Ej _]]. apply in_map_iff in Hb'. destruct Hb' as [j' [Ej' _]].
    subst b. injection Ej' as E _. destruct Hx as [Hn|Hd]; [lia|]. assert (Z.of_nat i' * dx = Z.of_nat i * dx) by lia.
    apply Z.mul_cancel_r in H; [lia|assumption].
Qed.

Lemma nth_error_flat_map_uniform : forall {A B} (f : A -> list B) m l i j d,
  (forall a, List.length (f a) = m) -> (i < List.length l)%nat -> (j < m)%nat ->
  nth_error (flat_map f l) (i * m + j) = nth_error (f (nth i l d)) j.
Proof.
  induction l as [|a l IH]; intros i j d H Hi Hj; simpl in Hi; [lia|]. destruct i as [|i]; simpl.
  - apply nth_error_app1. rewrite H. assumption.
  - rewrite nth_error_app2 by (rewrite H; lia). rewrite H. replace (m + i * m + j - m)%nat with (i * m + j)%nat by lia.
    apply IH; [assumption|lia|assumption].
Qed.

(** and in the order of the nested loop: x outer, y inner *)
Theorem via_array_order : forall x y n m dx dy i j, (i < n)%nat -> (j < m)%nat ->
  nth_error (expand_array x y n m dx dy) (i * m + j) = Some (x + Z.of_nat i * dx, y + Z.of_nat j * dy, "N"%string).
Proof.
  intros. unfold expand_array. rewrite (nth_error_flat_map_uniform _ m _ i j 0%nat).
  - rewrite seq_nth by assumption. rewrite nth_error_map. rewrite (nth_error_nth' _ 0%nat) by (rewrite seq_length; assumption).
    rewrite seq_nth by assumption. reflexivity.
  - intros. rewrite map_length, seq_length. reflexivity.
  - rewrite seq_length. assumption.
  - assumption.
Qed.

Local Close Scope Z_scope.

(* ------------------------------------------------------------------------------------------------ *)
(** * per-layer wires, per-type vias of a net *)
Definition seg_of (w : wire) : wseg := (w_width w, wire_points w).

Lemma nw_step_get : forall L d w,
  dd_get L (nw_step d w) = dd_get L d ++ (if String.eqb L (w_layer w) && has_segment w then [seg_of w] else []).
Proof.
  intros. unfold nw_step, has_segment, seg_of. destruct (wire_points w).
  - rewrite andb_false_r, app_nil_r. reflexivity.
  - rewrite andb_true_r, dd_get_append. destruct (String.eqb L (w_layer w)); [reflexivity|rewrite app_nil_r; reflexivity].
Qed.

Lemma nw_step_keys : forall d w,
  dd_keys (nw_step d w) = if has_segment w then add_key (dd_keys d) (w_layer w) else dd_keys d.
Proof. intros. unfold nw_step, has_segment. destruct (wire_points w); [reflexivity|apply dd_keys_append]. Qed.

Lemma nw_fold_get : forall L ws d,
  dd_get L (fold_left nw_step ws d) =
  dd_get L d ++ map seg_of (filter (fun w => String.eqb L (w_layer w) && has_segment w) ws).
Proof.
  induction ws as [|w ws IH]; intros d; simpl; [rewrite app_nil_r; reflexivity|]. rewrite IH, nw_step_get.
  destruct (String.eqb L (w_layer w) && has_segment w); simpl; rewrite <- app_assoc; reflexivity.
Qed.

Lemma nw_fold_keys : forall ws d,
  dd_keys (fold_left nw_step ws d) = fold_left add_key (map w_layer (filter has_segment ws)) (dd_keys d).
Proof.
  induction ws as [|w ws IH]; intros d; simpl; [reflexivity|]. rewrite IH, nw_step_keys.
  destruct (has_segment w); reflexivity.
Qed.

Theorem per_layer_wires : forall ws,
  (forall L, dd_get L (net_wires ws) = map seg_of (filter (fun w => String.eqb L (w_layer w) && has_segment w) ws)) /\
  dd_keys (net_wires ws) = first_occ (map w_layer (filter has_segment ws)).
Proof.
  intros ws. unfold net_wires. split.
  - intros L. rewrite nw_fold_get. reflexivity.
  - rewrite nw_fold_keys. apply fold_add_key_nil.
Qed.

Lemma ext_fold_get : forall {A} t (kvs : dd A) d,
  dd_get t (fold_left (fun d' kv => dd_extend (fst kv) (snd kv) d') kvs d) =
  dd_get t d ++ flat_map (fun kv => if String.eqb t (fst kv) then snd kv else []) kvs.
Proof.
  induction kvs as [|[k vs] kvs IH]; intros d; simpl; [rewrite app_nil_r; reflexivity|].
  rewrite IH, dd_get_extend. destruct (String.eqb t k); simpl; [rewrite <- app_assoc|]; reflexivity.
Qed.

Lemma ext_fold_keys : forall {A} (kvs : dd A) d,
  dd_keys (fold_left (fun d' kv => dd_extend (fst kv) (snd kv) d') kvs d) = fold_left add_key (dd_keys kvs) (dd_keys d).
Proof.
  induction kvs as [|[k vs] kvs IH]; intros d; simpl; [reflexivity|]. rewrite IH, dd_keys_extend. reflexivity.
Qed.

Lemma nv_fold_get : forall t ws d,
  dd_get t (fold_left nv_step ws d) = dd_get t d ++ flat_map (fun w => dd_get t (wire_vias w)) ws.
Proof.
  induction ws as [|w ws IH]; intros d; simpl; [rewrite app_nil_r; reflexivity|]. rewrite IH. unfold nv_step.
  rewrite ext_fold_get. rewrite dd_get_flat by apply wire_vias_nodup. rewrite <- app_assoc. reflexivity.
Qed.

Lemma nv_fold_keys : forall ws d,
  dd_keys (fold_left nv_step ws d) = fold_left add_key (flat_map (fun w => dd_keys (wire_vias w)) ws) (dd_keys d).
Proof.
  induction ws as [|w ws IH]; intros d; simpl; [reflexivity|]. rewrite IH. unfold nv_step. rewrite ext_fold_keys.
  rewrite fold_left_app. reflexivity.
Qed.

Theorem per_type_vias : forall ws,
  (forall t, dd_get t (net_vias ws) = flat_map (fun w => under t (wire_via_walk w)) ws) /\
  dd_keys (net_vias ws) = first_occ (flat_map (fun w => first_occ (map fst (wire_via_walk w))) ws).
Proof.
  intros ws. unfold net_vias. split.
  - intros t. rewrite nv_fold_get. simpl. apply flat_map_ext. intros w. apply (proj1 (wire_vias_listing w)).
  - rewrite nv_fold_keys. rewrite fold_add_key_nil. f_equal. apply flat_map_ext. intros w. apply (proj2 (wire_vias_listing w)).
Qed.

Theorem listing_keys_unique : forall ws, NoDup (dd_keys (net_wires ws)) /\ NoDup (dd_keys (net_vias ws)).
Proof.
  intros. rewrite (proj2 (per_layer_wires ws)), (proj2 (per_type_vias ws)). split; apply first_occ_nodup.
Qed.

(** several '+ ROUTED' statements accumulate, other keywords do not leak into the listing *)
Theorem routed_accumulates : forall a b, collect_routed (a ++ b) = collect_routed a ++ collect_routed b.
Proof. intros. unfold collect_routed, collect. apply flat_map_app. Qed.

Theorem routed_only : forall kw ws rest, kw <> "routed"%string ->
  collect_routed ((kw, ws) :: rest) = collect_routed rest /\ collect_routed (("routed"%string, ws) :: rest) = ws ++ collect_routed rest.
Proof.
  intros kw ws rest H. unfold collect_routed, collect. simpl. destruct (String.eqb_spec kw "routed"); [contradiction|]. split; reflexivity.
Qed.

(* ------------------------------------------------------------------------------------------------ *)
(** * ROW / TRACKS *)
Local Open Scope Z_scope.
Theorem row_horizontal : forall n dx, 1 <= n -> 0 <= dx -> row_entry n 1 dx 0 = (n, dx).
Proof. intros. unfold row_entry. f_equal; lia. Qed.
Theorem row_vertical : forall m dy, 1 <= m -> 0 <= dy -> row_entry 1 m 0 dy = (m, dy).
Proof. intros. unfold row_entry. f_equal; lia. Qed.
(* the hypothesis 0 <= step is needed: *)
Theorem row_negative_step_refuted : exists n dx, 1 <= n /\ row_entry n 1 dx 0 <> (n, dx).
Proof. exists 3, (-5). split; [lia|]. discriminate. Qed.
Theorem track_as_written : forall d s n p l, track_entry d s n p l = (d, s, n, p, l).
Proof. reflexivity. Qed.
Local Close Scope Z_scope.

(* ------------------------------------------------------------------------------------------------ *)
(** * the hypotheses are satisfiable / the functions do what the statements say, on concrete data *)
Local Open Scope string_scope.
Local Open Scope Z_scope.

(* + ROUTED M1 ( 0 0 ) ( 150 * ) via1 ( * 30 5 ) via2 FS ( 10 * ) *)
Definition ex_wire : wire :=
  mkWire "M1" None (0, 0, None)
    [EPt (Some 150) None None; EVia "via1" (VOrient "N"); EPt None (Some 30) (Some 5); EVia "via2" (VOrient "FS"); EPt (Some 10) None None].
Example ex_wire_points : wire_points ex_wire = [(0, 0, None); (150, 0, None); (150, 30, Some 5); (10, 30, None)].
Proof. reflexivity. Qed.
Example ex_wire_vias : wire_vias ex_wire = [("via1", [(150, 0, "N")]); ("via2", [(150, 30, "FS")])].
Proof. reflexivity. Qed.
Example ex_inherits : inherits 0 (col_y (w_rest ex_wire)) 2 30.
Proof. left. exists 1%nat. split; [lia|]. split; [reflexivity|]. intros i Hi. assert (i = 2%nat) by lia. subst. reflexivity. Qed.

(* + ROUTED M1 100 ( 0 0 ) ( 100 * ) via1 DO 2 BY 3 STEP 10 -20 ( * 50 ) via1   NEW M2 200 ( 5 5 ) ( * 7 )   NEW M1 50 ( 1 1 ) via2 *)
Definition ex_sp : list wire :=
  [mkWire "M1" (Some 100) (0, 0, None) [EPt (Some 100) None None; EVia "via1" (VArray 2 3 10 (-20)); EPt None (Some 50) None; EVia "via1" VNone];
   mkWire "M2" (Some 200) (5, 5, None) [EPt None (Some 7) None];
   mkWire "M1" (Some 50) (1, 1, None) [EVia "via2" VNone]].
Example ex_array : expand_array 100 0 2 3 10 (-20) = [(100, 0, "N"); (100, -20, "N"); (100, -40, "N"); (110, 0, "N"); (110, -20, "N"); (110, -40, "N")].
Proof. reflexivity. Qed.
Example ex_array_nodup : NoDup (expand_array 100 0 2 3 10 (-20)).
Proof. apply via_array_nodup; right; lia. Qed.
Example ex_array_column_nodup : NoDup (expand_array 7 9 1 5 0 100).
Proof. apply via_array_nodup; [left; lia|right; lia]. Qed.
Example ex_net_wires : net_wires ex_sp = [("M1", [(Some 100, [(0, 0, None); (100, 0, None); (100, 50, None)])]); ("M2", [(Some 200, [(5, 5, None); (5, 7, None)])])].
Proof. reflexivity. Qed.
Example ex_net_vias : net_vias ex_sp =
  [("via1", [(100, 0, "N"); (100, -20, "N"); (100, -40, "N"); (110, 0, "N"); (110, -20, "N"); (110, -40, "N"); (100, 50, "N")]); ("via2", [(1, 1, "N")])].
Proof. reflexivity. Qed.
Example ex_collect : collect_routed [("routed", [nth 0 ex_sp ex_wire]); ("fixed", [ex_wire]); ("routed", [nth 1 ex_sp ex_wire])] = [nth 0 ex_sp ex_wire; nth 1 ex_sp ex_wire].
Proof. reflexivity. Qed.
Example ex_row : row_entry 1305 1 380 0 = (1305, 380) /\ row_entry 1 7 0 200 = (7, 200).
Proof. split; [apply row_horizontal|apply row_vertical]; lia. Qed.
