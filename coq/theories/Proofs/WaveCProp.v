(** C06, WHOLE PROPAGATION: WaveSimCuda.c_prop (wave_eval_gpu launched level by level through the translated MockCuda launcher) =
    WaveSim.c_prop (the loop nest of level_eval_cpu, level by level), on every lane, waveform memory and accumulators.
      P1 [eval_gpu_inst_is_cpu_inst]   an in-range thread (x, y) of wave_eval_gpu IS the iteration (op_start + y, x) of level_eval_cpu:
                                       both call the same translated kernel wrapper on the same row -- for ALL states, tables and
                                       capacities (no side condition on the output region);
      P2 [c_prop_cpu_gpu_same]         hence the two c_prop methods agree for every ops table, level list, lane restriction
                                       sims = k, launcher state and simulator state;
      P3 [c_prop_lane_is_model]        for every build() result the loop nest over the published levels leaves every lane < k as
                                       the model steps [lane_eval_step] in op order do ([out_cap_ok] holds for every op in every
                                       intermediate state: the regions lie inside the memory, hold >= cmin >= 2 entries, and the
                                       memory length is invariant), i.e. as Model/WaveSimModel.v [w_c_prop] does with the delay
                                       dataset the lane selects;
      P4 [level_ranges_cover]          the published level boundaries (level_starts / level_stops of SimOps.__init__) cut
                                       range(len(ops)) into consecutive ranges. *)
From Coq Require Import List ZArith NArith Bool Arith Lia Sorted.
From KV Require Import Model.Prims Model.Netlist Model.NetlistWf Model.Heap Model.SimOps Model.AllocCheck Model.Time Model.WaveEval Model.WaveSimModel
  Model.WaveAcc Model.WaveSrcPrelude Model.WaveDrvPrelude Model.Launch Model.LaunchSrcLib Gen.LaunchSrc Gen.WaveEvalSrc Gen.WaveDriversSrc.
From KV Require Proofs.LaunchSrcProofs Proofs.WaveFlat Proofs.WaveRegion Proofs.EndToEnd Proofs.ReuseStrip Proofs.StripSchedule.
From KV Require Import Proofs.WaveLaneRun Proofs.WaveDriversProofs.
Import ListNotations.
Local Open Scope list_scope.

(* ------------------------------------------------------------------ *)
(** * P1: thread = loop iteration, unconditionally *)

Theorem eval_gpu_inst_is_cpu_inst ops locs caps D seed op_start op_stop k x y sim L :
  x < k -> op_start + y < op_stop ->
  WaveEvalGpuSrc.inst_src ops locs caps D (Z.of_nat op_start) (Z.of_nat op_stop) 0 (Z.of_nat k) seed (Z.of_nat x) (Z.of_nat y) L
  = LevelEvalCpuSrc.inst_src ops locs caps D seed sim (Z.of_nat (op_start + y)) L.
Proof.
  intros Hx Hy. unfold WaveEvalGpuSrc.inst_src, LevelEvalCpuSrc.inst_src. cbv zeta.
  destruct (Z.leb_spec (Z.of_nat k) (0 + Z.of_nat x)); [lia|].
  destruct (Z.leb_spec (Z.of_nat op_stop) (Z.of_nat op_start + Z.of_nat y)); [lia|].
  rewrite <- Nat2Z.inj_add. reflexivity.
Qed.

(** a kernel instance may report that the merge kernel's loop bound was exceeded (None; never on well-formed arguments:
    C03_source_total); such a lane stays failed *)
Definition lift (f : lane -> option lane) (oL : option lane) : option lane := match oL with Some L => f L | None => None end.

Section CProp.
  Variables (ops : list (list Z)) (locs caps : list Z) (D : list (list dtab)) (seed : Z).
  (** sims = k: `sims = min(sims or self.sims, self.sims)`, sim_start = 0, sim_stop = k *)
  Variable k : nat.

  Definition f_gpu (op_start op_stop : nat) (x y : nat) : option lane -> option lane :=
    lift (WaveEvalGpuSrc.inst_src ops locs caps D (Z.of_nat op_start) (Z.of_nat op_stop) 0 (Z.of_nat k) seed (Z.of_nat x) (Z.of_nat y)).
  Definition f_cpu (sim op_idx : nat) : option lane -> option lane :=
    lift (LevelEvalCpuSrc.inst_src ops locs caps D seed (Z.of_nat sim) (Z.of_nat op_idx)).

  (** one level of WaveSimCuda.c_prop: wave_eval_gpu[_grid_dim(sims, op_stop - op_start), (32, 16)](ops, op_start, op_stop, ..., 0, sims, ...)
      through the translated launcher, whose coordinate state is carried from launch to launch *)
  Definition gpu_level (stl : list (option lane) * lstate) (ab : nat * nat) : list (option lane) * lstate :=
    let r := launch_src (cdiv k 32) (cdiv (snd ab - fst ab) 16) 32 16 (snd stl) in
    (run_insts (f_gpu (fst ab) (snd ab)) (fst r) (fst stl), snd r).
  Definition gpu_c_prop (lv : list (nat * nat)) (st : list (option lane)) (lst : lstate) : list (option lane) :=
    fst (fold_left gpu_level lv (st, lst)).
  (** one level of WaveSim.c_prop: level_eval_cpu(ops, op_start, op_stop, ..., 0, sims, ...) = its loop nest *)
  Definition cpu_level (st : list (option lane)) (ab : nat * nat) : list (option lane) :=
    run_insts f_cpu (LevelEvalCpuSrc.order_src (fst ab) (snd ab - fst ab) 0 k) st.
  Definition cpu_c_prop (lv : list (nat * nat)) (st : list (option lane)) : list (option lane) := fold_left cpu_level lv st.

  Lemma ys_of_none l ts : (forall p, In p ts -> fst p <> l) -> ys_of l ts = [].
  Proof.
    intros H. unfold ys_of. induction ts as [|p ts IH]; [reflexivity|]. cbn [filter].
    destruct (Nat.eqb_spec (fst p) l) as [E|_]; [exfalso; apply (H p (or_introl eq_refl) E)|].
    apply IH. intros q Hq. apply H. right. exact Hq.
  Qed.

  Lemma fold_left_map' {A B C} (f : A -> B -> A) (g : C -> B) l a : fold_left f (map g l) a = fold_left (fun a x => f a (g x)) l a.
  Proof. revert a. induction l as [|x l IH]; intros a; [reflexivity|]. cbn. apply IH. Qed.

  Lemma fold_left_ext_in {A B} (f g : A -> B -> A) l : (forall a b, In b l -> f a b = g a b) -> forall a, fold_left f l a = fold_left g l a.
  Proof.
    induction l as [|b l IH]; intros H a; [reflexivity|]. cbn [fold_left]. rewrite (H a b (or_introl eq_refl)).
    apply IH. intros a' b' Hb'. apply H. right. exact Hb'.
  Qed.

  Lemma level_same a b st lst :
    fst (gpu_level (st, lst) (a, b)) = cpu_level st (a, b).
  Proof.
    unfold gpu_level, cpu_level. cbn [fst snd]. rewrite LaunchSrcProofs.launch_src_eq.
    rewrite (run_insts_filter _ (in_range k (b - a))).
    2:{ intros [x y] oL Hp. cbn [fst snd]. unfold f_gpu, lift. destruct oL as [L|]; [|reflexivity].
        apply eval_gpu_inst_out_of_range. unfold in_range in Hp. cbn [fst snd] in Hp.
        destruct (Nat.ltb_spec x k); destruct (Nat.ltb_spec y (b - a)); cbn in Hp; try discriminate; lia. }
    change (filter (in_range k (b - a)) (launch (cdiv k 32) (cdiv (b - a) 16) 32 16)) with (threads k (b - a) 32 16).
    rewrite level_order_is_cpu_order.
    apply nth_error_ext_eq. intros l. rewrite !run_insts_lane.
    destruct (nth_error st l) as [oL|]; [|reflexivity]. cbn [option_map]. f_equal.
    destruct (Nat.lt_ge_cases l k) as [Hl|Hl].
    - rewrite ys_of_threads, ys_of_cpu_order by lia.
      rewrite <- (Nat.add_0_r a) at 2. rewrite <- (map_add_seq a 0 (b - a)), fold_left_map'.
      apply fold_left_ext_in. intros oL' y Hy. apply in_seq in Hy. unfold f_gpu, f_cpu, lift. destruct oL' as [L|]; [|reflexivity].
      apply eval_gpu_inst_is_cpu_inst; lia.
    - rewrite !ys_of_none; [reflexivity| |].
      + intros [x y] Hp E. cbn [fst] in E. subst x. unfold cpu_order in Hp. apply in_flat_map in Hp.
        destruct Hp as (y' & _ & Hp). apply in_map_iff in Hp. destruct Hp as (l' & E & Hl'). inversion E; subst. apply in_seq in Hl'. lia.
      + intros [x y] Hp E. cbn [fst] in E. subst x. unfold threads in Hp. apply filter_In in Hp. destruct Hp as [_ Hp].
        cbn [fst snd] in Hp. apply andb_true_iff in Hp. destruct Hp as [Hp _]. apply Nat.ltb_lt in Hp. lia.
  Qed.

  (** P2 *)
  Theorem c_prop_cpu_gpu_same lv : forall st lst, gpu_c_prop lv st lst = cpu_c_prop lv st.
  Proof.
    unfold gpu_c_prop, cpu_c_prop. induction lv as [|[a b] lv IH]; intros st lst; [reflexivity|].
    cbn [fold_left]. rewrite (surjective_pairing (gpu_level (st, lst) (a, b))), level_same. apply IH.
  Qed.

  (** the loop nest, lane by lane: lane l < k sees all ops of all levels in order, the other lanes are not touched *)
  Definition level_ops (lv : list (nat * nat)) : list nat := flat_map (fun ab : nat * nat => seq (fst ab) (snd ab - fst ab)) lv.

  Theorem cpu_c_prop_lane lv : forall st l,
    nth_error (cpu_c_prop lv st) l
    = option_map (fun oL => if Nat.ltb l k then fold_left (fun a i => f_cpu l i a) (level_ops lv) oL else oL) (nth_error st l).
  Proof.
    unfold cpu_c_prop. induction lv as [|[a b] lv IH]; intros st l.
    - cbn [fold_left]. destruct (nth_error st l); [|reflexivity]. unfold level_ops. cbn [option_map flat_map fold_left]. destruct (Nat.ltb l k); reflexivity.
    - cbn [fold_left]. rewrite IH. unfold cpu_level. cbn [fst snd]. rewrite level_order_is_cpu_order, run_insts_lane.
      destruct (nth_error st l) as [oL|]; [|reflexivity]. cbn [option_map]. f_equal.
      destruct (Nat.ltb_spec l k) as [Hl|Hl].
      + rewrite ys_of_cpu_order by exact Hl. unfold level_ops. cbn [flat_map fst snd]. rewrite fold_left_app. reflexivity.
      + rewrite ys_of_none; [reflexivity|]. intros [x y] Hp E. cbn [fst] in E. subst x. unfold cpu_order in Hp. apply in_flat_map in Hp.
        destruct Hp as (y' & _ & Hp). apply in_map_iff in Hp. destruct Hp as (l' & E & Hl'). inversion E; subst. apply in_seq in Hl'. lia.
  Qed.
End CProp.

(* ------------------------------------------------------------------ *)
(** * P4: level_starts / level_stops cut range(len(ops)) into consecutive ranges *)

(** zip(level_starts, level_stops), level_stops = level_starts[1:] + [len(ops)] *)
Definition level_ranges (starts : list nat) (n : nat) : list (nat * nat) := combine starts (tl starts ++ [n]).

Lemma level_ranges_cons a b r n : level_ranges (a :: b :: r) n = (a, b) :: level_ranges (b :: r) n.
Proof. reflexivity. Qed.

Lemma ranges_cover : forall starts a n, StronglySorted le (a :: starts) -> Forall (fun x => x <= n) (a :: starts) ->
  level_ops (level_ranges (a :: starts) n) = seq a (n - a).
Proof.
  induction starts as [|b r IH]; intros a n Hs Hn.
  - unfold level_ranges, level_ops. cbn. apply app_nil_r.
  - rewrite level_ranges_cons. unfold level_ops in *. cbn [flat_map fst snd].
    apply StronglySorted_inv in Hs. destruct Hs as [Hs Ha]. inversion Hn as [|? ? Han Hn']; subst.
    rewrite IH by assumption. inversion Ha as [|? ? Hab _]; subst. inversion Hn' as [|? ? Hbn _]; subst.
    replace (n - a) with ((b - a) + (n - b)) by lia. rewrite seq_app. f_equal. f_equal. lia.
Qed.

(** the level pass of SimOps.__init__ (Model/SimOps.v [levelize]): boundaries are recorded in increasing order *)
Definition starts_inv (i : nat) (l : list nat) : Prop := StronglySorted ge l /\ Forall (fun x => x <= i) l /\ exists l', l = l' ++ [0].

Lemma levelize_starts stems : forall ops i st, starts_inv i (ls_starts st) ->
  starts_inv (i + length ops) (ls_starts (fold_left (level_step stems) (combine (seq i (length ops)) ops) st)).
Proof.
  induction ops as [|o r IH]; intros i st H; [rewrite Nat.add_0_r; exact H|].
  cbn [length seq combine fold_left]. replace (i + S (length r)) with (S i + length r) by lia. apply IH.
  destruct H as (H1 & H2 & (l' & H3)). unfold level_step. cbv zeta. cbn [ls_starts fst snd].
  match goal with |- context [if ?b then i :: _ else _] => destruct b end.
  - split; [|split].
    + constructor; [exact H1|]. eapply Forall_impl; [|exact H2]. intros x Hx. cbv beta in Hx. lia.
    + constructor; [lia|]. eapply Forall_impl; [|exact H2]. intros x Hx. cbv beta in Hx. lia.
    + exists (i :: l'). rewrite H3. reflexivity.
  - split; [exact H1|]. split; [|exists l'; exact H3]. eapply Forall_impl; [|exact H2]. intros x Hx. cbv beta in Hx. lia.
Qed.

Lemma sorted_rev_ge l : StronglySorted ge l -> StronglySorted le (rev l).
Proof.
  induction 1 as [|a l Hs IH Ha]; [constructor|]. cbn [rev].
  assert (G : forall l1 x, StronglySorted le l1 -> Forall (fun y => y <= x) l1 -> StronglySorted le (l1 ++ [x])).
  { induction l1 as [|y l1 IH1]; intros x S1 F1; cbn [app]; [constructor; constructor|].
    apply StronglySorted_inv in S1. destruct S1 as [S1 Hy]. inversion F1; subst. constructor; [apply IH1; assumption|].
    apply Forall_app. split; [exact Hy|constructor; [assumption|constructor]]. }
  apply G; [exact IH|]. apply Forall_rev. eapply Forall_impl; [|exact Ha]. intros y Hy. cbv beta in Hy. lia.
Qed.

Theorem level_ranges_cover stems ops len :
  level_ops (level_ranges (rev (ls_starts (levelize stems ops len))) (length ops)) = seq 0 (length ops).
Proof.
  unfold levelize.
  pose proof (levelize_starts stems ops 0 {| ls_levels := repeat 0 len; ls_ref := repeat 0%Z len; ls_starts := [0]; ls_cur := 1 |}) as H.
  cbn [ls_starts Nat.add] in H.
  destruct H as (H1 & H2 & (l' & H3)).
  { split; [repeat constructor|]. split; [repeat constructor|]. exists []. reflexivity. }
  set (l := ls_starts _) in *. clearbody l. subst l. rewrite rev_app_distr. cbn [rev app].
  pose proof (sorted_rev_ge _ H1) as S. rewrite rev_app_distr in S. cbn [rev app] in S.
  rewrite ranges_cover; [rewrite Nat.sub_0_r; reflexivity|exact S|].
  apply Forall_rev in H2. rewrite rev_app_distr in H2. exact H2.
Qed.

(* ------------------------------------------------------------------ *)
(** * P3: for every build() result the loop nest is the model, lane by lane *)

Definition arow0 : Z * Z * Z := ((-1)%Z, 0%Z, 0%Z).
(** the ops table of the simulator: row i = (lut, output, operands, a_ctrl row of op i) *)
Definition ops_table (so : simops) (actrl : list (Z * Z * Z)) : list (list Z) :=
  map (fun io : nat * sop => op_row (snd io) (nth (fst io) actrl arow0)) (combine (seq 0 (List.length (so_ops so))) (so_ops so)).
(** the model of c_prop on one lane: [lane_eval_step] (Model/WaveSimModel.v [wprop1] with the dataset the lane selects, then the
    accumulation) for every op in order *)
Definition lane_c_prop (so : simops) (D : list (list dtab)) (seed : Z) (actrl : list (Z * Z * Z)) (oL : option lane) : option lane :=
  fold_left (fun oL' (io : nat * sop) => lift (lane_eval_step so D seed (snd io) (nth (fst io) actrl arow0)) oL')
            (combine (seq 0 (List.length (so_ops so))) (so_ops so)) oL.

(** every op's output region lies inside the memory and holds at least two entries *)
Definition outs_fit (so : simops) (memlen : nat) : Prop :=
  forall o, In o (so_ops so) -> forall zl, locZ so (s_out o) = Some zl -> zl + capN so (s_out o) <= memlen /\ 2 <= capN so (s_out o).

Lemma outs_fit_cap_ok so memlen o c : outs_fit so memlen -> In o (so_ops so) -> List.length c = memlen -> out_cap_ok so c o.
Proof.
  intros H Ho Hc zl Hz. destruct (H o Ho zl Hz) as [H1 H2]. rewrite WaveFlat.region_length by lia. exact H2.
Qed.

Lemma lane_eval_step_length so D seed o a L L' : lane_eval_step so D seed o a L = Some L' -> List.length (l_c L') = List.length (l_c L).
Proof.
  unfold lane_eval_step, eval_step, wprop1. cbn [fst snd].
  destruct (locZ so (s_out o)) as [zl|]; [|discriminate]. destruct (wave_eval _ _ _ _) as [r|]; [|discriminate].
  destruct a as [[ai wr] wf]. intros E. injection E as <-. cbn [l_c set_c set_abuf]. apply WaveFlat.write_at_length.
Qed.

Lemma nth_ops_table so actrl i o : nth_error (so_ops so) i = Some o -> nth i (ops_table so actrl) [] = op_row o (nth i actrl arow0).
Proof.
  intros H. unfold ops_table.
  assert (G : forall (l : list sop) a j, nth_error l j = Some o ->
            nth j (map (fun io : nat * sop => op_row (snd io) (nth (fst io) actrl arow0)) (combine (seq a (List.length l)) l)) [] = op_row o (nth (a + j) actrl arow0)).
  { induction l as [|x l IHl]; intros a j Hj; [destruct j; discriminate|]. cbn [List.length seq combine map]. destruct j as [|j].
    - injection Hj as <-. cbn [nth fst snd]. rewrite Nat.add_0_r. reflexivity.
    - cbn [nth]. rewrite IHl by exact Hj. f_equal. f_equal. lia. }
  rewrite (G _ 0 i H). reflexivity.
Qed.

Section Model.
  Variables (so : simops) (D : list (list dtab)) (seed : Z) (actrl : list (Z * Z * Z)).
  Variable memlen : nat.
  Hypothesis Hfit : outs_fit so memlen.

  Lemma fold_cpu_is_model sim : forall (l : list sop) a oL,
    (forall j o, nth_error l j = Some o -> nth_error (so_ops so) (a + j) = Some o) ->
    (forall L, oL = Some L -> List.length (l_c L) = memlen) ->
    fold_left (fun oL' i => f_cpu (ops_table so actrl) (so_locs so) (caps_z so) D seed sim i oL') (seq a (List.length l)) oL
    = fold_left (fun oL' (io : nat * sop) => lift (lane_eval_step so D seed (snd io) (nth (fst io) actrl arow0)) oL') (combine (seq a (List.length l)) l) oL.
  Proof.
    induction l as [|o l IH]; intros a oL Hsub Hlen; [reflexivity|]. cbn [List.length seq combine fold_left fst snd].
    pose proof (Hsub 0 o eq_refl) as Ho. rewrite Nat.add_0_r in Ho.
    assert (E : f_cpu (ops_table so actrl) (so_locs so) (caps_z so) D seed sim a oL = lift (lane_eval_step so D seed o (nth a actrl arow0)) oL).
    { unfold f_cpu, lift. destruct oL as [L|]; [|reflexivity].
      apply level_eval_cpu_inst_is_model; [apply nth_ops_table; exact Ho|].
      apply (outs_fit_cap_ok so memlen); [exact Hfit|apply (nth_error_In _ _ Ho)|apply Hlen; reflexivity]. }
    rewrite E. apply IH.
    - intros j o' Hj. replace (S a + j) with (a + S j) by lia. apply Hsub. exact Hj.
    - intros L' HL'. unfold lift in HL'. destruct oL as [L|]; [|discriminate].
      rewrite (lane_eval_step_length _ _ _ _ _ _ _ HL'). apply Hlen. reflexivity.
  Qed.

  (** the lane's own ops in order = the model *)
  Theorem lane_ops_is_model sim oL : (forall L, oL = Some L -> List.length (l_c L) = memlen) ->
    fold_left (fun oL' i => f_cpu (ops_table so actrl) (so_locs so) (caps_z so) D seed sim i oL') (seq 0 (List.length (so_ops so))) oL
    = lane_c_prop so D seed actrl oL.
  Proof. intros H. apply (fold_cpu_is_model sim (so_ops so) 0 oL); [intros j o Hj; exact Hj|exact H]. Qed.
End Model.

(** the model with a dataset that does not depend on the op (modes 0 / 1, or a single dataset) is Model/WaveSimModel.v [w_c_prop] *)
Theorem lane_c_prop_is_w_c_prop so D seed actrl delays L :
  (forall z, lane_sel D seed L z = delays) ->
  lane_c_prop so D seed actrl (Some L)
  = option_map (fun st : wmem * list Z => set_abuf (set_c L (fst st)) (snd st)) (w_c_prop so delays actrl (l_c L) (l_abuf L)).
Proof.
  intros Hsel. rewrite w_c_prop_fold. unfold lane_c_prop.
  assert (G : forall (l : list (nat * sop)) m ab,
    fold_left (fun oL' (io : nat * sop) => lift (lane_eval_step so D seed (snd io) (nth (fst io) actrl arow0)) oL') l
              (Some (set_abuf (set_c L m) ab))
    = option_map (fun st : wmem * list Z => set_abuf (set_c L (fst st)) (snd st))
        (fold_left (fun (st : option (wmem * list Z)) (io : nat * sop) =>
                      match st with None => None | Some st' => eval_step so delays (snd io) (nth (fst io) actrl ((-1)%Z, 0%Z, 0%Z)) st' end)
                   l (Some (m, ab)))).
  { induction l as [|io l IH]; intros m ab; [reflexivity|]. cbn [fold_left lift].
    unfold lane_eval_step at 2. cbn [l_c l_abuf set_c set_abuf].
    assert (Es : lane_sel D seed (set_abuf (set_c L m) ab) (Z.of_nat (s_out (snd io))) = delays) by (rewrite <- (Hsel (Z.of_nat (s_out (snd io)))); reflexivity).
    rewrite Es. unfold arow0.
    destruct (eval_step so delays (snd io) (nth (fst io) actrl ((-1)%Z, 0%Z, 0%Z)) (m, ab)) as [[m2 ab2]|].
    - change (set_abuf (set_c (set_abuf (set_c L m) ab) m2) ab2) with (set_abuf (set_c L m2) ab2). apply IH.
    - clear IH. induction l as [|io' l IHl]; [reflexivity|]. cbn [fold_left lift]. exact IHl. }
  assert (E0 : Some L = Some (set_abuf (set_c L (l_c L)) (l_abuf L))) by (destruct L; reflexivity).
  rewrite E0 at 1. apply G.
Qed.

(** a single delay dataset is selected whatever the lane's control column says *)
Lemma lane_sel_single delays seed L z : lane_sel [delays] seed L z = delays.
Proof. unfold lane_sel, WaveEvalSrc.select_idx_src. cbn [List.length]. change (1 <? Z.of_nat 1)%Z with false. reflexivity. Qed.

(** every build() result: the output regions fit (regions_spec, derived from the allocator invariant in Proofs/WaveRegion.v) *)
Theorem build_outs_fit c caps cmin reuse strip so :
  wf_netlist c -> comb_acyclic c -> (2 <= cmin)%N -> EndToEnd.gates_known c -> (strip = true -> ReuseStrip.forks_ok c) ->
  build c caps cmin reuse strip = Some so -> outs_fit so (N.to_nat (so_len so)).
Proof.
  intros WF AC Hc GK FK Hb.
  destruct (WaveRegion.build_regions_all c caps cmin reuse strip so WF AC ltac:(lia) GK FK Hb) as (stems & Hst & RS).
  destruct (StripSchedule.build_fields c caps cmin reuse strip so Hb) as (stems' & _ & Eops & _).
  destruct RS as (_ & _ & R3 & _ & R5 & _).
  intros o Ho zl Hz. rewrite Eops in Ho. destruct (R5 o Ho) as (_ & X1 & _ & _ & X5).
  split; [apply (R3 _ zl X1 Hz)|]. change (capN so (s_out o)) with (WaveRegion.so_cap so (s_out o)). rewrite X5.
  destruct (Nat.eqb (s_out o) (List.length (c_lines c) + 1)); lia.
Qed.

(** P3 + P2 + P4 for every build() result: WaveSimCuda.c_prop and WaveSim.c_prop over the published levels leave every lane l < k
    as the model does, and do not touch the other lanes *)
Theorem c_prop_build_is_model c caps cmin reuse strip so D seed actrl k (st : list (option lane)) lst :
  wf_netlist c -> comb_acyclic c -> (2 <= cmin)%N -> EndToEnd.gates_known c -> (strip = true -> ReuseStrip.forks_ok c) ->
  build c caps cmin reuse strip = Some so ->
  Forall (fun oL => forall L, oL = Some L -> List.length (l_c L) = N.to_nat (so_len so)) st ->
  let lv := level_ranges (so_level_starts so) (List.length (so_ops so)) in
  let gpu := gpu_c_prop (ops_table so actrl) (so_locs so) (caps_z so) D seed k lv st lst in
  let cpu := cpu_c_prop (ops_table so actrl) (so_locs so) (caps_z so) D seed k lv st in
  gpu = cpu /\
  forall l, nth_error cpu l = option_map (fun oL => if Nat.ltb l k then lane_c_prop so D seed actrl oL else oL) (nth_error st l).
Proof.
  intros WF AC Hc GK FK Hb Hlen lv gpu cpu. split; [apply c_prop_cpu_gpu_same|].
  intros l. unfold cpu. rewrite cpu_c_prop_lane. destruct (nth_error st l) as [oL|] eqn:E; [|reflexivity]. cbn [option_map]. f_equal.
  destruct (Nat.ltb l k); [|reflexivity].
  destruct (StripSchedule.build_fields c caps cmin reuse strip so Hb) as (stems & _ & Eops & _ & Elv & _).
  unfold lv. rewrite Elv, Eops, level_ranges_cover, <- Eops.
  apply (lane_ops_is_model so D seed actrl (N.to_nat (so_len so)) (build_outs_fit c caps cmin reuse strip so WF AC Hc GK FK Hb)).
  rewrite Forall_forall in Hlen. apply Hlen. apply (nth_error_In _ _ E).
Qed.

(* ------------------------------------------------------------------ *)
(** * Instance: the netlist of WaveStrip.StripWaveExample, strip_forks on, two lanes with different stimuli, propagation
      restricted to the first lane (sims = 1): every hypothesis holds, both twins agree, lane 0 is the model, lane 1 is untouched *)
From KV Require Proofs.WaveStrip Proofs.WaveSimGlue.
Module CPropExample.
  Import WaveStrip.StripWaveExample WaveSimGlue.WaveGlueExample.
  Definition actrl3 : list (Z * Z * Z) := [(0, 1, 1); (1, 1, 1); (2, 1, 1)]%Z.
  Definition mk (so : simops) (s : list (bool * time * bool)) (e : list (nat * list time)) : lane :=
    {| l_c := wsim_start so s e; l_s := []; l_abuf := [0; 0; 0]%Z; l_ctl0 := 0%Z; l_mode := 0%Z |}.
  Definition ss1 : list (bool * time * bool) := [(true, Fin 7, false); (false, MaxInf, false); (false, MaxInf, false)].

  Example cxw_c_prop :
    exists so, build cxw (repeat 8%N 6) 4%N true true = Some so /\
      let st := [Some (mk so ss ex); Some (mk so ss1 [])] in
      let lv := level_ranges (so_level_starts so) (List.length (so_ops so)) in
      let gpu := gpu_c_prop (ops_table so actrl3) (so_locs so) (caps_z so) [dls] 1 1 lv st (5, 7) in
      let cpu := cpu_c_prop (ops_table so actrl3) (so_locs so) (caps_z so) [dls] 1 1 lv st in
      gpu = cpu /\ lv = [(0, 1); (1, 2); (2, 3)] /\
      nth_error cpu 0 = Some (lane_c_prop so [dls] 1 actrl3 (Some (mk so ss ex))) /\
      nth_error cpu 1 = Some (Some (mk so ss1 [])) /\
      map (option_map l_abuf) cpu = [Some [3; 3; 3]%Z; Some [0; 0; 0]%Z] /\
      lane_c_prop so [dls] 1 actrl3 (Some (mk so ss ex))
      = option_map (fun st : wmem * list Z => set_abuf (set_c (mk so ss ex) (fst st)) (snd st))
                   (w_c_prop so dls actrl3 (l_c (mk so ss ex)) (l_abuf (mk so ss ex))).
  Proof.
    destruct (WaveSimGlue.wglue_hyps_b_sound cxw (repeat 8%N 6) true dls ss ex (cxw_hyps true)) as (WF & AC & GK & _ & _ & F).
    destruct (F eq_refl) as (_ & FO & _).
    destruct (build cxw (repeat 8%N 6) 4%N true true) as [so|] eqn:Hb; [|vm_compute in Hb; discriminate].
    exists so. split; [reflexivity|]. cbv zeta.
    assert (Hlen : Forall (fun oL => forall L, oL = Some L -> List.length (l_c L) = N.to_nat (so_len so)) [Some (mk so ss ex); Some (mk so ss1 [])]).
    { repeat constructor; intros L E; injection E as <-; cbn [l_c mk]; rewrite WaveSimGlue.wsim_start_writes, WaveSimGlue.apply_writes_length;
        apply repeat_length. }
    destruct (c_prop_build_is_model cxw (repeat 8%N 6) 4%N true true so [dls] 1%Z actrl3 1 _ (5, 7) WF AC ltac:(lia) GK (fun _ => FO) Hb Hlen)
      as [E1 E2]. cbv zeta in E1, E2.
    split; [exact E1|]. pose proof (E2 0) as E20. pose proof (E2 1) as E21. cbn [nth_error option_map Nat.ltb Nat.leb] in E20, E21.
    vm_compute in Hb. injection Hb as <-.
    split; [vm_compute; reflexivity|]. split; [exact E20|]. split; [exact E21|]. split; [vm_compute; reflexivity|].
    apply lane_c_prop_is_w_c_prop. intros z. apply lane_sel_single.
  Qed.
End CPropExample.

Print Assumptions c_prop_cpu_gpu_same.
Print Assumptions c_prop_build_is_model.
Print Assumptions CPropExample.cxw_c_prop.
