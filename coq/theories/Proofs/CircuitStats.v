(** C09: the statistics reported by Circuit.stats (computed from the dicts) agree with the node / line containers. *)
From Coq Require Import List Arith Bool String Lia Permutation.
From KV Require Import Model.Circuit Model.CircuitInv Proofs.CircuitBase Proofs.CircuitProofs Proofs.CircuitElim.
Import ListNotations.
Local Open Scope list_scope.

Lemma perm_filter : forall {A} (f : A -> bool) l l', Permutation l l' -> Permutation (filter f l) (filter f l').
Proof.
  intros A f l l' H. induction H; simpl.
  - constructor.
  - destruct (f x); auto.
  - destruct (f x), (f y); auto. constructor.
  - eapply perm_trans; eauto.
Qed.
Lemma filter_split_length : forall {A} (f : A -> bool) l,
  List.length (filter f l) + List.length (filter (fun x => negb (f x)) l) = List.length l.
Proof. induction l as [|x r IH]; simpl; auto. destruct (f x); simpl; lia. Qed.

Definition is_cell_node (c : circ) (n : nat) : bool := negb (is_fork (kind_of c n)).
Definition is_fork_node (c : circ) (n : nat) : bool := is_fork (kind_of c n).

Lemma cells_perm : forall c, CInv c -> Permutation (map snd (cells c)) (filter (is_cell_node c) (nodes c)).
Proof.
  intros c [HC _]. apply NoDup_Permutation.
  - apply (dict_values_nodup (cells c) (name_of c)). apply (cc_cells_nd [] c HC).
    intros s m H. apply (cc_cells [] c HC) in H. tauto.
  - apply NoDup_filter. apply (nidx_nodup [] c HC).
  - intros m. rewrite filter_In. unfold is_cell_node. split.
    + intros H. apply in_map_iff in H. destruct H as [[s m'] [E H]]. simpl in E. subst m'.
      apply (cc_cells [] c HC) in H. destruct H as [A [B _]]. rewrite B. auto.
    + intros [A B]. apply in_map_iff. exists (name_of c m, m). split; auto. apply (cc_cells [] c HC).
      destruct (is_fork (kind_of c m)); try discriminate. auto.
Qed.
Lemma forks_perm : forall c, CInv c -> Permutation (map snd (forks c)) (filter (is_fork_node c) (nodes c)).
Proof.
  intros c [HC _]. apply NoDup_Permutation.
  - apply (dict_values_nodup (forks c) (name_of c)). apply (cc_forks_nd [] c HC).
    intros s m H. apply (cc_forks [] c HC) in H. tauto.
  - apply NoDup_filter. apply (nidx_nodup [] c HC).
  - intros m. rewrite filter_In. unfold is_fork_node. split.
    + intros H. apply in_map_iff in H. destruct H as [[s m'] [E H]]. simpl in E. subst m'.
      apply (cc_forks [] c HC) in H. tauto.
    + intros [A B]. apply in_map_iff. exists (name_of c m, m). split; auto. apply (cc_forks [] c HC). auto.
Qed.

(* every per-kind counter of stats equals the count over the node list *)
Lemma count_kind_nodes : forall c p, CInv c ->
  count_kind p c (map snd (cells c)) = List.length (filter (fun n => is_cell_node c n && p (kind_of c n)) (nodes c)).
Proof.
  intros c p HI. unfold count_kind.
  rewrite (Permutation_length (perm_filter (fun n => p (kind_of c n)) _ _ (cells_perm c HI))).
  f_equal. induction (nodes c) as [|x r IH]; simpl; auto.
  destruct (is_cell_node c x); simpl; rewrite IH; auto.
Qed.

Theorem stats_consistent : forall c, CInv c ->
  let s := stats c in
  s_node s = List.length (nodes c) /\ s_line s = List.length (lines c) /\ s_io s = List.length (io c) /\
  s_cell s = List.length (filter (is_cell_node c) (nodes c)) /\
  s_fork s = List.length (filter (is_fork_node c) (nodes c)) /\
  s_cell s + s_fork s = s_node s /\
  s_dff s = List.length (filter (fun n => is_cell_node c n && is_dff (kind_of c n)) (nodes c)) /\
  s_latch s = List.length (filter (fun n => is_cell_node c n && is_latch (kind_of c n)) (nodes c)) /\
  s_comb s = List.length (filter (fun n => is_cell_node c n && is_comb (kind_of c n)) (nodes c)) /\
  s_seq s = s_dff s + s_latch s /\
  (forall k, stats_kind c k = List.length (filter (fun n => is_cell_node c n && String.eqb k (kind_of c n)) (nodes c))).
Proof.
  intros c HI. simpl.
  assert (Ec : List.length (cells c) = List.length (filter (is_cell_node c) (nodes c))).
  { rewrite <- (map_length snd). apply Permutation_length. apply cells_perm; auto. }
  assert (Ef : List.length (forks c) = List.length (filter (is_fork_node c) (nodes c))).
  { rewrite <- (map_length snd). apply Permutation_length. apply forks_perm; auto. }
  repeat split; auto.
  - rewrite Ec, Ef. rewrite Nat.add_comm. apply (filter_split_length (is_fork_node c)).
  - apply count_kind_nodes; auto.
  - apply count_kind_nodes; auto.
  - apply count_kind_nodes; auto.
  - intros k. apply count_kind_nodes; auto.
Qed.
