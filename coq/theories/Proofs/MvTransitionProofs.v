(** C12, array layer: logic.mv_transition on arrays of any shape (Model/MvTransition.v): exact success condition, the result
    is the documented transition element by element under broadcasting. *)
From Coq Require Import List Arith Bool Lia.
From KV Require Import Model.Logic.
From KV Require Import Model.Encodings Model.NdArray Model.MvWrappers Model.MvTransition
  Proofs.EncodingsBits Proofs.NdArrayProofs Proofs.MvWrapperProofs Proofs.MvWrapperAlgebra.
Import ListNotations.
Local Open Scope list_scope.

(** * out[...] = src *)
Lemma size_all_ones l : forallb (fun d => d =? 1) l = true -> size l = 1.
Proof.
  induction l as [|d l IH]; cbn [forallb size]; [reflexivity|]. intros H. apply andb_true_iff in H. destruct H as [A B].
  apply Nat.eqb_eq in A. rewrite A, (IH B). reflexivity.
Qed.

Lemma size_app a b : size (a ++ b) = size a * size b.
Proof. induction a as [|d a IH]; cbn [app size]; [lia|]. rewrite IH. lia. Qed.

Lemma strip_lead_size n s s' : strip_lead n s = Some s' -> size s' = size s.
Proof.
  unfold strip_lead. destruct (forallb (fun d => d =? 1) (firstn (List.length s - n) s)) eqn:E; [|discriminate].
  intros [= <-]. transitivity (size (firstn (List.length s - n) s ++ skipn (List.length s - n) s)); [|rewrite firstn_skipn; reflexivity].
  rewrite size_app, (size_all_ones _ E). lia.
Qed.

Lemma strip_lead_self s : strip_lead (List.length s) s = Some s.
Proof. unfold strip_lead. rewrite Nat.sub_diag. reflexivity. Qed.

Lemma nd_assign_tab out s F s' : strip_lead (List.length (nd_shape out)) s = Some s' -> bc_to s' (nd_shape out) = true ->
  size s = size (nd_shape out) ->
  nd_assign out (tabulate s F) = Some (tabulate (nd_shape out) F).
Proof.
  intros H A E. unfold nd_assign. cbn [nd_shape tabulate]. rewrite H, A. f_equal. apply tabulate_ext. intros k Hk.
  pose proof (strip_lead_size _ _ _ H) as Z.
  rewrite (boff_same_size s' (nd_shape out) k) by (assumption || lia).
  apply at_tabulate. lia.
Qed.

Lemma nd_assign_inv out src r : nd_assign out src = Some r ->
  nd_shape r = nd_shape out /\
  exists s', strip_lead (List.length (nd_shape out)) (nd_shape src) = Some s' /\ bc_to s' (nd_shape out) = true.
Proof.
  unfold nd_assign. destruct (strip_lead (List.length (nd_shape out)) (nd_shape src)) as [s'|] eqn:E; [|discriminate].
  destruct (bc_to s' (nd_shape out)) eqn:A; [|discriminate]. intros [= <-]. split; [reflexivity|]. exists s'. split; [reflexivity | exact A].
Qed.

(** * success on tabulated operands *)
Lemma transition_tab junk s1 F1 s2 F2 b out :
  broadcast2 s1 s2 = Some b ->
  let so := match out with Some o => nd_shape o | None => b end in
  tr_ok b so = true ->
  mvw_transition junk (tabulate s1 F1) (tabulate s2 F2) out =
  Some (tabulate so (fun k => tr_s (F1 (boff s1 b k)) (F2 (boff s2 b k)))).
Proof.
  intros Hb so Hok. unfold tr_ok in Hok. apply andb_true_iff in Hok. destruct Hok as [Z Hst]. apply Nat.eqb_eq in Z.
  destruct (strip_lead (List.length so) b) as [b'|] eqn:Es; [|discriminate].
  destruct (broadcast2_bc_to _ _ _ Hb) as [B1 [B2 _]].
  unfold mvw_transition. cbn [nd_shape tabulate]. rewrite Hb.
  set (o0 := match out with Some o => o | None => np_empty junk b end).
  assert (nd_shape o0 = so) as So by (unfold o0, so; destruct out; reflexivity).
  assert (obind (match out with Some o => Some o | None => option_map (np_empty junk) (Some b) end) = obind (Some o0)) as ->
    by (unfold o0; destruct out; reflexivity).
  cbn [obind]. unfold eqc. rewrite !nd_map_tabulate.
  rewrite (ufunc2_tab _ _ _ _ _ b Hb). cbn [obind].
  rewrite (nd_assign_tab o0 b _ b') by (rewrite So; assumption). rewrite So. cbn [obind].
  rewrite nd_map_tabulate.
  rewrite (ufunc2_tab _ _ _ _ _ s1 (broadcast2_refl s1)). cbn [obind].
  rewrite (ufunc2_tab _ _ _ _ _ b Hb). cbn [obind].
  rewrite (ufunc2_tab _ _ _ _ _ b (broadcast2_absorb _ _ _ Hb)). cbn [obind].
  rewrite (ufunc2_tab _ _ _ _ _ b Hb). cbn [obind].
  rewrite putmask_tab by exact Z. cbn [obind]. rewrite putmask_tab by exact Z.
  f_equal. apply tabulate_ext. intros k Hk.
  repeat rewrite (boff_id b k) by lia.
  repeat rewrite (boff_id s1 (boff s1 b k)) by (apply boff_lt; [assumption | lia]).
  reflexivity.
Qed.

(** * inversion *)
Lemma transition_inv junk x1 x2 out r : mvw_transition junk x1 x2 out = Some r ->
  exists b, broadcast2 (nd_shape x1) (nd_shape x2) = Some b /\
            tr_ok b (match out with Some o => nd_shape o | None => b end) = true.
Proof.
  unfold mvw_transition. intros H.
  apply obind_some in H. destruct H as [o0 [E0 H]].
  apply obind_some in H. destruct H as [e [Ee H]]. apply ufunc2_inv in Ee. cbn [nd_shape nd_map] in Ee.
  apply obind_some in H. destruct H as [o1 [E1 H]]. apply nd_assign_inv in E1. destruct E1 as [S1 [b' [Es A]]].
  apply obind_some in H. destruct H as [u1 [Eu1 H]]. apply ufunc2_inv in Eu1. cbn [nd_shape eqc nd_map] in Eu1.
  rewrite broadcast2_refl in Eu1. injection Eu1 as Eu1.
  apply obind_some in H. destruct H as [u2 [Eu2 H]]. apply ufunc2_inv in Eu2. cbn [nd_shape eqc nd_map] in Eu2. rewrite <- Eu1 in Eu2.
  apply obind_some in H. destruct H as [un [Eu3 H]]. apply ufunc2_inv in Eu3. cbn [nd_shape eqc nd_map] in Eu3.
  apply obind_some in H. destruct H as [ua [Eu4 H]].
  apply obind_some in H. destruct H as [o2 [E2 H]]. apply putmask_inv in E2. destruct E2 as [_ Z]. cbn [nd_shape nd_map] in Z.
  rewrite Ee in Eu2. injection Eu2 as Eu2. rewrite <- Eu2 in Eu3. rewrite (broadcast2_absorb _ _ _ Ee) in Eu3. injection Eu3 as Eu3.
  exists (nd_shape e). split; [exact Ee|].
  assert (nd_shape o0 = match out with Some o => nd_shape o | None => nd_shape e end) as So.
  { destruct out as [o|]; cbn in E0.
    - injection E0 as <-. reflexivity.
    - rewrite Ee in E0. cbn in E0. injection E0 as <-. reflexivity. }
  rewrite <- So. unfold tr_ok. rewrite Es, A. rewrite <- Eu3 in Z. rewrite S1 in Z. rewrite Z, Nat.eqb_refl. reflexivity.
Qed.

(** * mv_transition, exactly *)
Theorem transition_exact junk x1 x2 out : nd_wf x1 -> nd_wf x2 ->
  mvw_transition junk x1 x2 out =
  match broadcast2 (nd_shape x1) (nd_shape x2) with
  | Some b => let so := match out with Some o => nd_shape o | None => b end in
              if tr_ok b so then Some (tabulate so (fun k => tr_s (bget x1 b k) (bget x2 b k))) else None
  | None => None
  end.
Proof.
  intros W1 W2. destruct (broadcast2 (nd_shape x1) (nd_shape x2)) as [b|] eqn:Hb.
  - cbn zeta. destruct (tr_ok b (match out with Some o => nd_shape o | None => b end)) eqn:E.
    + transitivity (mvw_transition junk (tabulate (nd_shape x1) (at_ x1)) (tabulate (nd_shape x2) (at_ x2)) out).
      { rewrite <- !nd_eta by assumption. reflexivity. }
      unfold bget. apply (transition_tab junk _ _ _ _ b out Hb). exact E.
    + destruct (mvw_transition junk x1 x2 out) as [r|] eqn:K; [|reflexivity].
      apply transition_inv in K. destruct K as [b' [Hb' E']]. rewrite Hb in Hb'. injection Hb' as <-. congruence.
  - destruct (mvw_transition junk x1 x2 out) as [r|] eqn:K; [|reflexivity].
    apply transition_inv in K. destruct K as [b' [Hb' _]]. congruence.
Qed.

Lemma tr_ok_self b : tr_ok b b = true.
Proof. unfold tr_ok. rewrite Nat.eqb_refl, strip_lead_self, bc_to_refl. reflexivity. Qed.

(** * the element function is the documented transition *)
Definition spec_transition (i f : code) : code :=
  if code_eqb i Una && code_eqb f Una then Una
  else if unknownish i || unknownish f then Unk
  else code_of_bits (fin f) (ini i) (xorb (ini i) (fin f)).

Definition tr_chk : bool :=
  forallb (fun a => forallb (fun b => tr_s a b =? cnum (spec_transition (ccode a) (ccode b))) (seq 0 8)) (seq 0 8).
Lemma tr_chk_ok : tr_chk = true.
Proof. vm_compute. reflexivity. Qed.

Theorem tr_s_algebra a b : a < 8 -> b < 8 -> tr_s a b = cnum (spec_transition (ccode a) (ccode b)).
Proof.
  intros Ha Hb. pose proof tr_chk_ok as H. unfold tr_chk in H. rewrite forallb_forall in H.
  specialize (H a ltac:(apply in_seq; lia)). rewrite forallb_forall in H. apply Nat.eqb_eq. apply H. apply in_seq. lia.
Qed.

(** * by multi-index *)
Theorem transition_elementwise junk x1 x2 r : nd_wf x1 -> nd_wf x2 ->
  mvw_transition junk x1 x2 None = Some r ->
  broadcast2 (nd_shape x1) (nd_shape x2) = Some (nd_shape r) /\
  forall idx, in_bounds (nd_shape r) idx ->
    nd_get r idx = tr_s (nd_get x1 (bidx (nd_shape x1) idx)) (nd_get x2 (bidx (nd_shape x2) idx)) /\
    (Forall (fun v => v < 8) (nd_data x1) -> Forall (fun v => v < 8) (nd_data x2) ->
     nd_get r idx = cnum (spec_transition (ccode (nd_get x1 (bidx (nd_shape x1) idx))) (ccode (nd_get x2 (bidx (nd_shape x2) idx))))).
Proof.
  intros W1 W2 H. rewrite transition_exact in H by assumption.
  destruct (broadcast2 (nd_shape x1) (nd_shape x2)) as [b|] eqn:Hb; [|discriminate]. cbn zeta in H.
  rewrite tr_ok_self in H. injection H as <-. cbn [nd_shape tabulate]. split; [reflexivity|].
  destruct (broadcast2_bc_to _ _ _ Hb) as [A [B _]]. intros idx Bi.
  assert (nd_get (tabulate b (fun k => tr_s (bget x1 b k) (bget x2 b k))) idx =
          tr_s (nd_get x1 (bidx (nd_shape x1) idx)) (nd_get x2 (bidx (nd_shape x2) idx))) as G.
  { change (nd_get (tabulate b (fun k => tr_s (bget x1 b k) (bget x2 b k))) idx)
      with (at_ (tabulate b (fun k => tr_s (bget x1 b k) (bget x2 b k))) (ravel b idx)).
    rewrite at_tabulate by (apply ravel_lt; exact Bi).
    rewrite (bget_bidx x1 b idx A Bi), (bget_bidx x2 b idx B Bi). reflexivity. }
  split; [exact G|]. intros C1 C2. rewrite G. apply tr_s_algebra; apply nd_get_lt; (lia || assumption).
Qed.

(** out=: receives exactly the out=None elements (row-major) iff it has as many elements as the broadcast shape and that shape
    (surplus leading 1 axes dropped) stretches to it; the previous content and np.empty's content are irrelevant *)
Theorem transition_out junk x1 x2 o b : nd_wf x1 -> nd_wf x2 -> broadcast2 (nd_shape x1) (nd_shape x2) = Some b ->
  (nd_shape o = b -> mvw_transition junk x1 x2 (Some o) = mvw_transition junk x1 x2 None) /\
  (forall r r0, mvw_transition junk x1 x2 (Some o) = Some r -> mvw_transition junk x1 x2 None = Some r0 ->
     nd_shape r = nd_shape o /\ nd_data r = nd_data r0) /\
  (size (nd_shape o) <> size b -> mvw_transition junk x1 x2 (Some o) = None) /\
  (forall o' j', nd_shape o' = nd_shape o -> mvw_transition j' x1 x2 (Some o') = mvw_transition junk x1 x2 (Some o)).
Proof.
  intros W1 W2 Hb. repeat split.
  - intros E. rewrite !transition_exact by assumption. rewrite Hb. cbn zeta. rewrite E. reflexivity.
  - rewrite transition_exact in H by assumption. rewrite Hb in H. cbn zeta in H.
    destruct (tr_ok b (nd_shape o)); [|discriminate]. injection H as <-. reflexivity.
  - rewrite !transition_exact in * by assumption. rewrite Hb in *. cbn zeta in *. rewrite tr_ok_self in H0.
    destruct (tr_ok b (nd_shape o)) eqn:E; [|discriminate]. injection H as <-. injection H0 as <-.
    unfold tr_ok in E. apply andb_true_iff in E. destruct E as [Z _]. apply Nat.eqb_eq in Z.
    unfold tabulate. cbn [nd_data]. rewrite Z. reflexivity.
  - intros E. rewrite transition_exact by assumption. rewrite Hb. cbn zeta. unfold tr_ok.
    destruct (size b =? size (nd_shape o)) eqn:Z; [apply Nat.eqb_eq in Z; lia | reflexivity].
  - intros o' j' E. rewrite !transition_exact by assumption. rewrite Hb. cbn zeta. rewrite E. reflexivity.
Qed.

Example transition_ex :
  mvw_transition (fun _ => 9) (NdA [3] [0; 3; 2]) (NdA [2; 3] [3; 0; 2; 1; 3; 3]) None = Some (NdA [2; 3] [5; 6; 2; 1; 3; 1]) /\
  mvw_transition (fun _ => 9) (NdA [1; 1; 3] [0; 3; 2]) (NdA [3] [3; 0; 2]) (Some (NdA [3] [9; 9; 9])) = Some (NdA [3] [5; 6; 2]) /\
  mvw_transition (fun _ => 9) (NdA [1; 1; 3] [0; 3; 2]) (NdA [3] [3; 0; 2]) (Some (NdA [3; 1] [9; 9; 9])) = None /\
  mvw_transition (fun _ => 9) (NdA [2] [0; 3]) (NdA [3] [3; 0; 2]) None = None.
Proof. repeat split. Qed.
