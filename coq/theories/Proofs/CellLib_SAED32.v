(** C10, library clause: the exhaustive sweeps over lib_SAED32 (regenerated from techlib.py on every run), evaluated by the
    kernel's VM once each (vm_cast_no_check: the only evaluation is the one at Qed).  Nothing but Properties/C10Lib.v depends
    on this file. *)
From Coq Require Import List Bool String.
From KV Require Import Model.TechCell Model.CellCircuit Gen.TechLibs.

Lemma SAED32_all : lib_all_fast lib_SAED32 d15_none = true.
Proof. vm_cast_no_check (eq_refl true). Qed.
Lemma SAED32_one : lib_one_fast lib_SAED32 d15_none = true.
Proof. vm_cast_no_check (eq_refl true). Qed.
Lemma SAED32_noout : lib_noout_fast lib_SAED32 = true.
Proof. vm_cast_no_check (eq_refl true). Qed.
Lemma SAED32_all_refuted : lib_all_refuted lib_SAED32 d15_none = true.
Proof. vm_cast_no_check (eq_refl true). Qed.
Lemma SAED32_one_refuted : lib_one_refuted lib_SAED32 d15_none = true.
Proof. vm_cast_no_check (eq_refl true). Qed.
Lemma SAED32_noout_refuted : lib_noout_refuted lib_SAED32 = true.
Proof. vm_cast_no_check (eq_refl true). Qed.

(* instances inside and outside the exceptions exist *)
Lemma SAED32_has_seq : lib_has lib_SAED32 (wit_seq d15_none) = true.
Proof. vm_cast_no_check (eq_refl true). Qed.
Lemma SAED32_has_comb : lib_has lib_SAED32 (wit_comb d15_none) = true.
Proof. vm_cast_no_check (eq_refl true). Qed.
Lemma SAED32_has_d22 : lib_has lib_SAED32 wit_d22 = true.
Proof. vm_cast_no_check (eq_refl true). Qed.
