(** Translated source of sim.SimOps.__init__, part 3: the allocation section (sim.py:263-320, [alloc_src_] of Gen/SimOpsSrc.v,
    regenerated from /repo on every run) equals the allocation events of the hand model [Model.SimOps.build]:
    three special slots, one slot per interface node with outputs, per level one chunk per op output through the TRANSLATED class
    Heap (Gen/HeapSrc.v), the level's release set freed under c_reuse, aliases for stripped branches and PO/PPO slots, c_len.

    The heap invariant and "only live chunks are freed" are threaded through the translated loops with the invariant [J] of
    Proofs/ReuseProofs.v (every index with a positive reference count owns a live chunk): at every [alloc_src] the invariant gives
    [HInv], at every [free_src] it gives liveness, so C08_heap_source_is_model turns each call into the hand model's call. *)
From Coq Require Import List NArith ZArith Bool Arith Lia Sorted.
From KV Require Import Model.Prims Model.Netlist Model.NetlistWf Model.Heap Model.HeapInv Model.HeapSrcLib Model.SimOps
  Model.SimOpsSrcLib Model.AllocCheck Model.SimOpsCert Gen.SimTables Gen.HeapSrc Gen.SimOpsSrc
  Proofs.HeapProofs Proofs.HeapSrcProofs Proofs.AllocProofs Proofs.SemProofs Proofs.EndToEnd Proofs.ReuseProofs Proofs.ReuseStrip
  Proofs.SimOpsSrcProofs Proofs.SimOpsSrcLevels Proofs.SimOpsSrcDomain.
Import ListNotations.
Local Open Scope list_scope.

(* ------------------------------------------------------------------------------------------ *)
(** * vocabulary *)

(** ref_count[i] -= 1 *)
Lemma subZ_src {B} (l : list Z) i (K : list Z -> option B) : i < length l ->
  bind (py_lget i l) (fun t => bind (py_lset i (t - 1)%Z l) K) = K (addZ l i (-1)%Z).
Proof.
  intros H. rewrite (lget_nth l i 0%Z H), bind_some. unfold addZ.
  change (nth i l 0 - 1)%Z with (nth i l 0 + -1)%Z. now apply lsetZ_src.
Qed.

Lemma firstn_map {A B} (f : A -> B) : forall n l, firstn n (map f l) = map f (firstn n l).
Proof. induction n as [|n IH]; intros [|x l]; cbn; try reflexivity. now rewrite IH. Qed.
Lemma skipn_map {A B} (f : A -> B) : forall n l, skipn n (map f l) = map f (skipn n l).
Proof. induction n as [|n IH]; intros [|x l]; cbn; try reflexivity. apply IH. Qed.
Lemma skipn_add {A} : forall y x (l : list A), skipn x (skipn y l) = skipn (x + y) l.
Proof.
  induction y as [|y IH]; intros x l; [now rewrite Nat.add_0_r|].
  rewrite Nat.add_succ_r. destruct l as [|a l]; [now rewrite !skipn_nil|]. cbn [skipn]. apply IH.
Qed.
Lemma py_slice_map {A B} (f : A -> B) a b l : py_slice a b (map f l) = map f (py_slice a b l).
Proof. unfold py_slice. now rewrite skipn_map, firstn_map. Qed.

(* ------------------------------------------------------------------------------------------ *)
(** * level boundaries: the (start, stop) pairs of the source cut the op list exactly as [split_levels] does *)

Fixpoint chain (lo : nat) (l : list nat) (hi : nat) : Prop :=
  match l with [] => lo <= hi | x :: r => lo <= x /\ chain x r hi end.

Lemma chain_weaken : forall l lo lo' hi, lo' <= lo -> chain lo l hi -> chain lo' l hi.
Proof. intros [|x r] lo lo' hi H; cbn [chain]; [lia|]. intros [H1 H2]. split; [lia | exact H2]. Qed.

Lemma chain_hi : forall l lo hi hi', hi <= hi' -> chain lo l hi -> chain lo l hi'.
Proof. induction l as [|x r IH]; intros lo hi hi' H; cbn [chain]; [lia|]. intros [H1 H2]. split; [exact H1 | eapply IH; eauto]. Qed.

Lemma bumps_chain stems : forall r st pos, chain pos (bumps stems st pos r) (pos + length r).
Proof.
  induction r as [|o r IH]; intros st pos; cbn [bumps chain length]; [lia|].
  specialize (IH (level_step stems st (pos, o)) (S pos)).
  replace (pos + S (length r)) with (S pos + length r) by lia.
  destruct (bumpb stems st o).
  - cbn [chain]. split; [lia|]. eapply chain_weaken; [|exact IH]. lia.
  - eapply chain_weaken; [|exact IH]. lia.
Qed.

Lemma slices_split : forall rest p (ops0 : list sop), chain p rest (length ops0) ->
  map (fun ab : nat * nat => py_slice (fst ab) (snd ab) ops0) (combine (p :: rest) (rest ++ [length ops0]))
  = split_levels (p :: rest) (skipn p ops0) p.
Proof.
  induction rest as [|s rest IH]; intros p ops0 H.
  - cbn [chain] in H. cbn [app combine map fst snd]. rewrite split_levels_one. unfold py_slice.
    rewrite !firstn_all2; [reflexivity | rewrite skipn_length; lia | rewrite skipn_length; lia].
  - cbn [chain] in H. destruct H as [H1 H2]. cbn [app combine map fst snd]. rewrite split_levels_two.
    unfold py_slice at 1. f_equal. rewrite skipn_add. replace (s - p + p) with s by lia.
    apply IH. exact H2.
Qed.

Lemma starts_shape stems ops len :
  exists rest, rev (ls_starts (levelize stems ops len)) = 0 :: rest /\ chain 0 rest (length ops).
Proof.
  unfold levelize. rewrite starts_bumps. cbn [ls_starts]. rewrite rev_app_distr, rev_involutive. cbn [rev app].
  eexists. split; [reflexivity|]. apply (bumps_chain stems ops _ 0).
Qed.

(* ------------------------------------------------------------------------------------------ *)
(** * one op of a level: decrement the operands' counts, collect exhausted chunks, allocate the output *)

Definition aview (sf : alloc_state * list Z) : list Z * list Z * heap * list Z * list N :=
  (a_ref (fst sf), snd sf, a_heap (fst sf), a_locs (fst sf), a_caps (fst sf)).
Definition lview2 (st : alloc_state) : list Z * heap * list Z * list N := (a_ref st, a_heap st, a_locs st, a_caps st).

Section AllocLoops.
  Variable c : netlist.
  Variables s_len zero tmp tmp2 ppi ppo len : nat.
  Variable rows : list oprow.
  Variable stems : list Z.
  Variables starts stops : list nat.
  Variable caps : list N.
  Variable cmin : N.
  Variable reuse : bool.
  Hypothesis Hcmin : (0 < cmin)%N.
  Hypothesis Hst : length stems = len.
  Variable P : nat -> Z.
  Hypothesis Ppos : forall x, (0 <= P x)%Z.

  Notation Jx := (J tmp stems P len).
  Notation Wx := (W tmp stems caps len).

  Lemma loop3_step a b r rc0 st fs todo :
    let o := sop_of_row r in
    op_ok len stems o -> length (a_caps st) = len ->
    Jx rc0 st fs (o :: todo) -> Wx (ald st) (o :: todo) ->
    alloc_src__loop3 c s_len zero tmp tmp2 ppi ppo len rows stems starts stops caps cmin reuse a b r (aview (st, fs))
    = Some (aview (op_alloc tmp stems caps cmin (st, fs) o), false) /\
    length (a_caps (fst (op_alloc tmp stems caps cmin (st, fs) o))) = len.
  Proof.
    intros o [Ho Hx] Hlc HJ HW.
    assert (H0 := Hx (r_i0 r) (or_introl eq_refl)).
    assert (H1 := Hx (r_i1 r) (or_intror (or_introl eq_refl))).
    assert (H2 := Hx (r_i2 r) (or_intror (or_intror (or_introl eq_refl)))).
    assert (H3 := Hx (r_i3 r) (or_intror (or_intror (or_intror (or_introl eq_refl))))).
    destruct HJ as [Jh Jll Jlr _ _ _ _ _ _ _].
    cbn [W] in HW. destruct HW as (_ & Wout & _).
    unfold o in *. cbn [sop_of_row s_i0 s_i1 s_i2 s_i3 s_out] in *.
    rewrite op_alloc_eq. unfold rd, opnds, add_fs, dec_refs. cbn [sop_of_row s_i0 s_i1 s_i2 s_i3 s_out map fold_left].
    unfold alloc_src__loop3, aview. cbv beta zeta iota. cbn [fst snd].
    rewrite stemmed_src by lia. rewrite stemmed_src by lia. rewrite stemmed_src by lia. rewrite stemmed_src by lia.
    set (x0 := stemmed stems (r_i0 r)) in *. set (x1 := stemmed stems (r_i1 r)) in *.
    set (x2 := stemmed stems (r_i2 r)) in *. set (x3 := stemmed stems (r_i3 r)) in *.
    rewrite subZ_src by lia. rewrite subZ_src by (rewrite addZ_length; lia).
    rewrite subZ_src by (rewrite !addZ_length; lia). rewrite subZ_src by (rewrite !addZ_length; lia).
    set (ref' := addZ (addZ (addZ (addZ (a_ref st) x0 (-1)) x1 (-1)) x2 (-1)) x3 (-1)).
    assert (Lr : length ref' = len) by (unfold ref'; rewrite !addZ_length; exact Jlr).
    rewrite (lget_nth ref' x0 0%Z) by lia. rewrite (lget_nth ref' x1 0%Z) by lia.
    rewrite (lget_nth ref' x2 0%Z) by lia. rewrite (lget_nth ref' x3 0%Z) by lia.
    rewrite (lget_nth (a_locs st) x0 (-1)%Z) by lia. rewrite (lget_nth (a_locs st) x1 (-1)%Z) by lia.
    rewrite (lget_nth (a_locs st) x2 (-1)%Z) by lia. rewrite (lget_nth (a_locs st) x3 (-1)%Z) by lia.
    cbn [bind]. unfold py_set_add.
    (* the tail: the chunk for the output *)
    assert (T : forall fs',
      (if Nat.eqb (r_out r) tmp then Some (ref', fs', a_heap st, a_locs st, a_caps st, false)
       else bind (py_lget (r_out r) caps) (fun t50 =>
            bind (alloc_src (a_heap st) (N.max cmin t50)) (fun '(t51, v_h) =>
            bind (py_lset (r_out r) (Z.of_N t51) (a_locs st)) (fun s_c_locs =>
            bind (py_lset (r_out r) (N.max cmin t50) (a_caps st)) (fun s_c_caps =>
            Some (ref', fs', v_h, s_c_locs, s_c_caps, false))))))
      = Some (aview (if Nat.eqb (r_out r) tmp then with_ref st ref'
                     else match nth_error caps (r_out r) with
                          | None => {| a_heap := a_heap st; a_locs := a_locs st; a_caps := a_caps st; a_ref := ref'; a_ok := false |}
                          | Some cp => alloc_slot cmin (with_ref st ref') (r_out r) (N.max cmin cp)
                          end, fs'), false) /\
        length (a_caps (if Nat.eqb (r_out r) tmp then with_ref st ref'
                     else match nth_error caps (r_out r) with
                          | None => {| a_heap := a_heap st; a_locs := a_locs st; a_caps := a_caps st; a_ref := ref'; a_ok := false |}
                          | Some cp => alloc_slot cmin (with_ref st ref') (r_out r) (N.max cmin cp)
                          end)) = len).
    { intros fs'. destruct (Nat.eqb (r_out r) tmp) eqn:Et; [split; [reflexivity | exact Hlc]|].
      apply Nat.eqb_neq in Et. destruct Wout as [Wout|(Wlt & _ & Wcap)]; [exfalso; exact (Et Wout)|].
      unfold capok in Wcap. cbn [s_out sop_of_row] in Wcap. unfold py_lget at 1.
      destruct (nth_error caps (r_out r)) as [cp|]; [|congruence]. cbn [bind].
      rewrite (alloc_src_model _ _ Jh). cbn [bind]. rewrite alloc_slot_eq. cbn [with_ref a_heap a_locs a_caps a_ref a_ok].
      destruct (alloc (a_heap st) (N.max cmin cp)) as [loc h'] eqn:Ea. cbn [fst snd].
      rewrite lsetZ_src by lia. rewrite lsetN_src by lia. unfold aview. cbn [fst snd a_heap a_locs a_caps a_ref].
      split; [reflexivity | rewrite setN_length; exact Hlc]. }
    destruct (Z.leb (nth x0 ref' 0%Z) 0); destruct (Z.leb (nth x1 ref' 0%Z) 0);
      destruct (Z.leb (nth x2 ref' 0%Z) 0); destruct (Z.leb (nth x3 ref' 0%Z) 0); cbn [fst]; apply T.
  Qed.
  (** ** the ops of one level *)
  Variable actrl : list arow.
  Notation row := (row_of_sop actrl).

  Lemma loop3_level a b rc0 : forall lv st fs todo,
    Forall (op_ok len stems) lv -> length (a_caps st) = len ->
    Jx rc0 st fs (lv ++ todo) -> Wx (ald st) (lv ++ todo) ->
    let sf' := fold_left (op_alloc tmp stems caps cmin) lv (st, fs) in
    py_for (alloc_src__loop3 c s_len zero tmp tmp2 ppi ppo len rows stems starts stops caps cmin reuse a b) (map row lv) (aview (st, fs))
    = Some (aview sf') /\
    length (a_caps (fst sf')) = len /\ Jx rc0 (fst sf') (snd sf') todo /\ Wx (ald (fst sf')) todo /\ a_ok (fst sf') = a_ok st.
  Proof.
    induction lv as [|o lv IH]; intros st fs todo Hok Hlc HJ HW.
    - cbv zeta. cbn [map py_for fold_left app fst snd] in *. split; [reflexivity|]. split; [exact Hlc|]. split; [exact HJ|]. split; [exact HW | reflexivity].
    - pose proof (Forall_inv Hok) as Ho. pose proof (Forall_inv_tail Hok) as Hok'. cbv zeta. cbn [map py_for fold_left app] in *.
      destruct (loop3_step a b (row o) rc0 st fs (lv ++ todo)) as [E Lc]; rewrite ?sop_row_inv; try assumption.
      rewrite sop_row_inv in E, Lc. rewrite E.
      destruct (op_alloc tmp stems caps cmin (st, fs) o) as [st1 fs1] eqn:Eo. cbn [fst] in Lc.
      destruct (J_op tmp stems caps cmin Hcmin P Ppos len rc0 st fs o (lv ++ todo) st1 fs1 HJ HW Eo) as (HJ1 & HW1 & _ & _ & _ & _ & Hk).
      destruct (IH st1 fs1 todo Hok' Lc HJ1 HW1) as (E1 & L1 & J1 & W1 & K1).
      split; [exact E1|]. split; [exact L1|]. split; [exact J1|]. split; [exact W1|]. rewrite K1. exact Hk.
  Qed.

  (** ** the release set of one level: every entry is a live chunk, so the translated free is the model's free *)
  Lemma loop4_body ru rc locs cps a b fset x h :
    alloc_src__loop4 c s_len zero tmp tmp2 ppi ppo len rows stems rc starts stops caps cmin ru locs cps a b fset x h
    = bind (py_z2N x) (fun t => bind (free_src h t) (fun h' => Some (h', false))).
  Proof. reflexivity. Qed.

  Lemma release_fields : forall fs st,
    a_locs (release st fs) = a_locs st /\ a_caps (release st fs) = a_caps st /\ a_ref (release st fs) = a_ref st.
  Proof.
    induction fs as [|l r IH]; intros st; [repeat split|].
    unfold release. cbn [fold_left]. fold (release (free_step st l) r).
    destruct (IH (free_step st l)) as (E1 & E2 & E3). rewrite E1, E2, E3.
    unfold free_step. destruct (if (0 <=? l)%Z then free (a_heap st) (Z.to_N l) else None); repeat split.
  Qed.

  Lemma loop4_release ru rc locs cps a b fset : forall fs st,
    HInv (a_heap st) -> NoDup fs -> (forall l, In l fs -> (0 <= l)%Z /\ live (a_heap st) (Z.to_N l)) ->
    py_for (alloc_src__loop4 c s_len zero tmp tmp2 ppi ppo len rows stems rc starts stops caps cmin ru locs cps a b fset) fs (a_heap st)
    = Some (a_heap (release st fs)).
  Proof.
    induction fs as [|l r IH]; intros st HI Hnd Hl; [reflexivity|].
    apply NoDup_cons_iff in Hnd. destruct Hnd as [Hnl Hnr]. destruct (Hl l (or_introl eq_refl)) as [Hl0 Hll].
    destruct (free_inv _ _ HI Hll) as (h' & Hf & HI').
    pose proof (free_live _ _ _ HI Hll Hf) as (FL & _ & _).
    cbn [py_for]. rewrite loop4_body. unfold py_z2N.
    destruct (Z.ltb l 0) eqn:El; [apply Z.ltb_lt in El; lia|]. cbn [bind].
    rewrite (free_src_model _ _ HI Hll), Hf. cbn [bind].
    unfold release. cbn [fold_left]. fold (release (free_step st l) r).
    assert (Es : free_step st l = {| a_heap := h'; a_locs := a_locs st; a_caps := a_caps st; a_ref := a_ref st; a_ok := a_ok st |}).
    { unfold free_step. apply Z.leb_le in Hl0. rewrite Hl0, Hf. reflexivity. }
    rewrite Es.
    apply (IH {| a_heap := h'; a_locs := a_locs st; a_caps := a_caps st; a_ref := a_ref st; a_ok := a_ok st |}); cbn [a_heap].
    - exact HI'.
    - exact Hnr.
    - intros l2 H2. destruct (Hl l2 (or_intror H2)) as [H20 H2l]. split; [exact H20|]. apply FL. split; [exact H2l|].
      intros E. apply Hnl. assert (l2 = l) by (apply Z2N.inj in E; lia). subst l2. exact H2.
  Qed.

  (** ** one level *)
  Lemma loop2_step a b rc0 st lv todo :
    py_slice a b rows = map row lv ->
    Forall (op_ok len stems) lv -> length (a_caps st) = len ->
    Jx rc0 st [] (lv ++ todo) -> Wx (ald st) (lv ++ todo) ->
    let st' := level_alloc tmp stems caps cmin reuse st lv in
    alloc_src__loop2 c s_len zero tmp tmp2 ppi ppo len rows stems starts stops caps cmin reuse (a, b) (lview2 st)
    = Some (lview2 st', false) /\
    length (a_caps st') = len /\ (exists rc1, Jx rc1 st' [] todo) /\ Wx (ald st') todo /\ a_ok st' = a_ok st.
  Proof.
    intros Hs Hok Hlc HJ HW st'.
    destruct (loop3_level a b rc0 lv st [] todo Hok Hlc HJ HW) as (E & L1 & J1 & W1 & K1). cbv zeta in *.
    unfold st'. rewrite level_alloc_gen.
    unfold alloc_src__loop2, lview2. cbv beta zeta iota. rewrite Hs.
    change (a_ref st, @nil Z, a_heap st, a_locs st, a_caps st) with (aview (st, [])). rewrite E.
    destruct (fold_left (op_alloc tmp stems caps cmin) lv (st, [])) as [st1 fs1]. unfold aview. cbn [fst snd bind] in *.
    destruct reuse.
    - destruct (release_fields fs1 st1) as (F1 & F2 & F3).
      destruct (J_rel tmp stems cmin Hcmin P len rc0 st1 fs1 todo J1) as (J2 & E1 & E3).
      rewrite (loop4_release true (a_ref st1) (a_locs st1) (a_caps st1) a b fs1 fs1 st1).
      + cbn [bind]. rewrite F1, F2, F3. split; [reflexivity|]. split; [exact L1|]. split; [eexists; exact J2|].
        split; [|rewrite E3; exact K1].
        apply (W_ext tmp stems caps len todo (ald st1)); [|exact W1]. intros x. unfold ald, locZ. rewrite F1. reflexivity.
      + apply J1.
      + apply ssorted_nodup. apply J1.
      + intros l Hl. destruct (J_fs _ _ _ _ _ _ _ _ J1 l Hl) as (x & A & B & <- & D). split; [exact A|]. apply (J_live _ _ _ _ _ _ _ _ J1); assumption.
    - split; [reflexivity|]. split; [exact L1|]. split; [eexists; exact (J_norel tmp stems cmin Hcmin P len rc0 st1 fs1 todo J1)|].
      split; [exact W1 | exact K1].
  Qed.

  (** ** all levels *)
  Lemma loop2_levels : forall lvs prs st rc0,
    map (fun ab : nat * nat => py_slice (fst ab) (snd ab) rows) prs = map (map row) lvs ->
    Forall (op_ok len stems) (concat lvs) -> length (a_caps st) = len ->
    Jx rc0 st [] (concat lvs) -> Wx (ald st) (concat lvs) ->
    let st' := fold_left (level_alloc tmp stems caps cmin reuse) lvs st in
    py_for (alloc_src__loop2 c s_len zero tmp tmp2 ppi ppo len rows stems starts stops caps cmin reuse) prs (lview2 st)
    = Some (lview2 st') /\ length (a_caps st') = len /\ a_ok st' = a_ok st.
  Proof.
    induction lvs as [|lv lvs IH]; intros prs st rc0 Hs Hok Hlc HJ HW.
    - destruct prs; [|discriminate]. cbn [py_for fold_left]. repeat split. exact Hlc.
    - destruct prs as [|[a b] prs]; [discriminate|]. cbn [map fst snd] in Hs. injection Hs as Hs1 Hs2.
      cbn [concat] in *. apply Forall_app in Hok. destruct Hok as [Hok1 Hok2].
      destruct (loop2_step a b rc0 st lv (concat lvs) Hs1 Hok1 Hlc HJ HW) as (E & L1 & (rc1 & J1) & W1 & K1). cbv zeta in *.
      cbn [py_for fold_left]. rewrite E.
      destruct (IH prs _ rc1 Hs2 Hok2 L1 J1 W1) as (E2 & L2 & K2).
      split; [exact E2|]. split; [exact L2|]. rewrite K2. exact K1.
  Qed.
End AllocLoops.

(* ------------------------------------------------------------------------------------------ *)
(** * the whole allocation section against the stages of [build] (Proofs/ReuseStrip.v, section BuildG) *)

Definition hview (st : alloc_state) : heap * list Z * list N * list Z := (a_heap st, a_locs st, a_caps st, a_ref st).

Lemma fold_left_fst {A B M} (f : M -> A -> M) : forall (l : list (A * B)) m,
  fold_left (fun m x => f m (fst x)) l m = fold_left f (map fst l) m.
Proof. induction l as [|x r IH]; intros m; cbn; [reflexivity | apply IH]. Qed.

Lemma map_fst_combine_seq {A} : forall (l : list A) s, map fst (combine (seq s (length l)) l) = seq s (length l).
Proof. induction l as [|x r IH]; intros s; cbn; [reflexivity|]. now rewrite IH. Qed.

Section SrcG.
  Variable c : netlist.
  Variable caps : list N.
  Variable cmin : N.
  Variable reuse strip : bool.
  Hypothesis WF : wf_netlist c.
  Hypothesis Hcmin : (0 < cmin)%N.
  Notation nl := (length (c_lines c)).
  Notation sn := (s_nodes c).
  Notation slen := (length (s_nodes c)).
  Notation ppi := (nl + 3).
  Notation ppo := (nl + 3 + slen).
  Notation len := (nl + 3 + slen + slen).
  Notation all_ip := (combine (seq 0 slen) sn).
  Notation tmp := (nl + 1).
  Notation ops := (build_ops c strip).
  Variable stems : list Z.
  Hypothesis Hst : build_stems c strip len = Some stems.
  Notation al := (stemmed stems).
  Hypothesis HD1 : forall x, nl <= x -> al x = x.
  Hypothesis HD2 : forall x, x < nl -> al x < nl /\ al (al x) = al x.
  Hypothesis HA : forall pre o post, ops = pre ++ o :: post -> forall x, In x (opnds o) ->
    x < ppo /\ (al x = nl \/ (exists n p, NetlistSem.iface_pos c n = Some p /\ al x = ppi + p /\ 0 < length (n_outs (get_node c n))) \/
                (al x < nl /\ In (al x) (map s_out pre))).
  Hypothesis HB : forall pre o post, ops = pre ++ o :: post ->
    s_out o = tmp \/ (s_out o < nl /\ al (s_out o) = s_out o /\ ~ In (s_out o) (map s_out pre)).

  Variable actrl : list arow.
  Notation rows := (map (row_of_sop actrl) ops).
  Notation starts := (starts0g c strip stems).
  Notation stops := (tl (starts0g c strip stems) ++ [length ops]).
  Notation st4 := (st4g c cmin strip stems).
  Notation st5 := (st5g c cmin strip stems).
  Notation st6 := (st6g c caps cmin reuse strip stems).

  Let Lst : length stems = len.
  Proof. exact (build_stems_length c strip _ stems Hst). Qed.

  (** ** the interface loop: one slot per s_node with outputs, one pin per (stem of the) line that feeds an s_node *)
  Definition Q4 (st : alloc_state) : Prop :=
    HInv (a_heap st) /\ length (a_locs st) = len /\ length (a_caps st) = len /\ length (a_ref st) = len.

  Lemma loop1_step (x : nat * nat) st : fst x < slen -> Q4 st ->
    alloc_src__loop1 c slen nl (nl + 1) (nl + 2) ppi ppo len rows stems starts stops caps cmin reuse x (hview st)
    = Some (hview (iface_step c cmin stems ppi st x), false) /\ Q4 (iface_step c cmin stems ppi st x).
  Proof.
    destruct x as [i n]. cbn [fst]. intros Hi (HI & L1 & L2 & L3).
    unfold alloc_src__loop1, iface_step, hview. cbv beta zeta iota.
    assert (Hl0 : forall l0 t, n_ins (get_node c n) = Some l0 :: t -> l0 < len /\ al l0 < len).
    { intros l0 t En. pose proof (ip_ins_lt c WF _ _ _ En) as H. destruct (HD2 l0 H). lia. }
    set (bo := Nat.ltb 0 (length (n_outs (get_node c n)))).
    destruct (n_ins (get_node c n)) as [|[l0|] t] eqn:En;
      cbn [length Nat.ltb Nat.leb py_lget nth_error bind py_is_none negb py_index].
    - destruct bo.
      + rewrite (alloc_src_model _ _ HI). rewrite alloc_slot_eq. pose proof (alloc_inv _ cmin HI Hcmin) as HI'.
        destruct (alloc (a_heap st) cmin) as [loc h'].
        cbn [bind fst snd pinref a_heap a_locs a_caps a_ref a_ok] in *.
        rewrite lsetZ_src by lia. rewrite lsetN_src by lia. rewrite addZ_src by lia.
        split; [reflexivity|]. unfold Q4. cbn [pinref a_heap a_locs a_caps a_ref]. rewrite setZ_length, setN_length, addZ_length. auto.
      + split; [reflexivity|]. unfold Q4. auto.
    - destruct (Hl0 l0 t eq_refl) as [Hl Hal].
      assert (Es : forall B (K : nat -> option B),
         bind (py_lget l0 stems) (fun t13 =>
           bind (if Z.leb 0 t13 then bind (py_lget l0 stems) (fun t16 => bind (py_z2nat t16) (fun t18 => Some t18)) else Some l0) K)
         = K (al l0)).
      { intros B K. apply stemmed_src. lia. }
      destruct bo.
      + rewrite (alloc_src_model _ _ HI). rewrite alloc_slot_eq. pose proof (alloc_inv _ cmin HI Hcmin) as HI'.
        destruct (alloc (a_heap st) cmin) as [loc h'].
        cbn [bind fst snd pinref a_heap a_locs a_caps a_ref a_ok] in *.
        rewrite lsetZ_src by lia. rewrite lsetN_src by lia. rewrite addZ_src by lia.
        rewrite Es. rewrite addZ_src by (rewrite addZ_length; lia).
        split; [reflexivity|]. unfold Q4. cbn [pinref a_heap a_locs a_caps a_ref]. rewrite setZ_length, setN_length, !addZ_length. auto.
      + rewrite Es. rewrite addZ_src by lia. cbn [pinref a_heap a_locs a_caps a_ref a_ok].
        split; [reflexivity|]. unfold Q4. cbn [pinref a_heap a_locs a_caps a_ref]. rewrite addZ_length. auto.
    - destruct bo.
      + rewrite (alloc_src_model _ _ HI). rewrite alloc_slot_eq. pose proof (alloc_inv _ cmin HI Hcmin) as HI'.
        destruct (alloc (a_heap st) cmin) as [loc h'].
        cbn [bind fst snd pinref a_heap a_locs a_caps a_ref a_ok] in *.
        rewrite lsetZ_src by lia. rewrite lsetN_src by lia. rewrite addZ_src by lia.
        split; [reflexivity|]. unfold Q4. cbn [pinref a_heap a_locs a_caps a_ref]. rewrite setZ_length, setN_length, addZ_length. auto.
      + split; [reflexivity|]. unfold Q4. auto.
  Qed.
  (** ** stripped branches take location and capacity of their stem *)
  Definition Q2 (lc : list Z * list N) : Prop := length (fst lc) = len /\ length (snd lc) = len.

  Lemma loop5_step rc h (x : nat * Z) lc : fst x < len -> nth (fst x) stems (-1)%Z = snd x -> Q2 lc ->
    alloc_src__loop5 c slen nl (nl + 1) (nl + 2) ppi ppo len rows stems rc starts stops caps cmin reuse h x lc
    = Some (stem_copy stems lc (fst x), false) /\ Q2 (stem_copy stems lc (fst x)).
  Proof.
    destruct x as [i s]. destruct lc as [L C]. cbn [fst snd]. intros Hi Hs [L1 L2]. cbn [fst snd] in L1, L2.
    unfold alloc_src__loop5, stem_copy. cbv beta zeta iota. cbn [fst snd]. rewrite Hs.
    pose proof (build_stems_bounded c WF strip _ stems Hst i) as Hb. rewrite Hs in Hb.
    destruct (Z.leb 0 s) eqn:E; [|split; [reflexivity | split; assumption]].
    apply Z.leb_le in E. unfold py_z2nat. destruct (Z.ltb s 0) eqn:E2; [apply Z.ltb_lt in E2; lia|]. cbn [bind].
    rewrite (lget_nth L (Z.to_nat s) (-1)%Z) by lia. rewrite (lget_nth C (Z.to_nat s) 0%N) by lia. cbn [bind].
    rewrite lsetZ_src by lia. rewrite lsetN_src by lia.
    split; [reflexivity|]. unfold Q2. cbn [fst snd]. rewrite setZ_length, setN_length. auto.
  Qed.

  (** ** PO / PPO slots take location and capacity of the line that feeds the s_node *)
  Definition Q3 (lc : list Z * list N * bool) : Prop := length (fst (fst lc)) = len /\ length (snd (fst lc)) = len.

  Lemma loop6_step rc h (x : nat * nat) lc : fst x < slen -> Q3 lc ->
    alloc_src__loop6 c slen nl (nl + 1) (nl + 2) ppi ppo len rows stems rc starts stops caps cmin reuse h x (fst lc)
    = Some (fst (ppo_step c ppo lc x), false) /\ Q3 (ppo_step c ppo lc x).
  Proof.
    destruct x as [i n]. destruct lc as [[L C] b]. cbn [fst snd]. intros Hi [L1 L2]. cbn [fst snd] in L1, L2.
    unfold alloc_src__loop6, ppo_step. cbv beta zeta iota. cbn [fst snd].
    destruct (n_ins (get_node c n)) as [|[l0|] t] eqn:En;
      cbn [length Nat.ltb Nat.leb py_lget nth_error bind py_is_none negb py_index fst snd];
      try (split; [reflexivity | split; assumption]).
    pose proof (ip_ins_lt c WF _ _ _ En) as Hl.
    change (nth_error L l0) with (py_lget l0 L). change (nth_error C l0) with (py_lget l0 C).
    rewrite (lget_nth L l0 (-1)%Z) by lia. rewrite (lget_nth C l0 0%N) by lia. cbn [bind].
    rewrite lsetZ_src by lia. rewrite lsetN_src by lia.
    split; [reflexivity|]. unfold Q3. cbn [fst snd]. rewrite setZ_length, setN_length. auto.
  Qed.

  (** ** the allocation section = the allocation events of [build] *)
  Theorem alloc_source_is_model_g so : build c caps cmin reuse strip = Some so ->
    alloc_src_ c slen nl (nl + 1) (nl + 2) ppi ppo len rows stems (ls_ref (ls0g c strip stems)) starts stops caps cmin reuse
    = Some (so_locs so, so_caps so, so_len so).
  Proof.
    intros Hb. rewrite (build_eq_g c caps cmin reuse strip stems Hst) in Hb.
    (* prologue: the three special slots *)
    unfold alloc_src_. cbv beta zeta. change hinit_src with hinit.
    pose proof hinit_inv as HI0.
    rewrite (alloc_src_model _ cmin HI0). pose proof (alloc_inv _ cmin HI0 Hcmin) as HI1.
    destruct (alloc hinit cmin) as [l1 h1] eqn:E1. cbn [bind snd] in *.
    rewrite lsetZ_src by (rewrite repeat_length; lia). rewrite lsetN_src by (rewrite repeat_length; lia).
    rewrite (alloc_src_model _ cmin HI1). pose proof (alloc_inv _ cmin HI1 Hcmin) as HI2.
    destruct (alloc h1 cmin) as [l2 h2] eqn:E2. cbn [bind snd] in *.
    rewrite lsetZ_src by (rewrite setZ_length, repeat_length; lia). rewrite lsetN_src by (rewrite setN_length, repeat_length; lia).
    rewrite (alloc_src_model _ cmin HI2). pose proof (alloc_inv _ cmin HI2 Hcmin) as HI3.
    destruct (alloc h2 cmin) as [l3 h3] eqn:E3. cbn [bind snd] in *.
    rewrite lsetZ_src by (rewrite !setZ_length, repeat_length; lia). rewrite lsetN_src by (rewrite !setN_length, repeat_length; lia).
    destruct (ref0g c cmin strip Hcmin stems HD1 HD2 HA) as [Lr0 _]. change (a_ref (st0g c strip stems)) with (ls_ref (ls0g c strip stems)) in Lr0.
    rewrite addZ_src by lia. rewrite addZ_src by (rewrite addZ_length; lia). rewrite addZ_src by (rewrite !addZ_length; lia).
    assert (E4 : (h3, setZ (setZ (setZ (repeat (-1)%Z len) nl (Z.of_N l1)) (nl + 1) (Z.of_N l2)) (nl + 2) (Z.of_N l3),
                  setN (setN (setN (repeat 0%N len) nl cmin) (nl + 1) cmin) (nl + 2) cmin,
                  addZ (addZ (addZ (ls_ref (ls0g c strip stems)) nl 1) (nl + 1) 1) (nl + 2) 1) = hview st4).
    { unfold hview, st4g, st3g, st0g, pinref, alloc_slot. cbn [a_heap a_locs a_caps a_ref a_ok].
      rewrite E1. cbn [a_heap a_locs a_caps a_ref a_ok]. rewrite E2. cbn [a_heap a_locs a_caps a_ref a_ok]. rewrite E3. reflexivity. }
    rewrite E4.
    assert (Q44 : Q4 st4).
    { pose proof (f_equal (fun p => fst (fst (fst p))) E4) as Eh. pose proof (f_equal (fun p => snd (fst (fst p))) E4) as El.
      pose proof (f_equal (fun p => snd (fst p)) E4) as Ec. pose proof (f_equal snd E4) as Er.
      unfold hview in Eh, El, Ec, Er. cbn [fst snd] in Eh, El, Ec, Er. unfold Q4. rewrite <- Eh, <- El, <- Ec, <- Er.
      rewrite !setZ_length, !setN_length, !addZ_length, !repeat_length. auto. }
    (* the interface loop *)
    assert (Hq : Forall (fun x : nat * nat => fst x < slen) (py_enumerate sn)).
    { apply Forall_forall. intros ip Hip. apply (in_comb_lt c cmin Hcmin ip Hip). }
    destruct (py_for_view hview (alloc_src__loop1 c slen nl (nl + 1) (nl + 2) ppi ppo len rows stems starts stops caps cmin reuse)
                (iface_step c cmin stems ppi) Q4 _ (fun x m Hx Hm => loop1_step x m Hx Hm) (py_enumerate sn) st4 Hq Q44) as [E5 Q45].
    rewrite E5. change (fold_left (iface_step c cmin stems ppi) (py_enumerate sn) st4) with st5 in *.
    unfold hview at 1. cbn [bind]. change (a_ref st5, a_heap st5, a_locs st5, a_caps st5) with (lview2 st5).
    (* what build's success says *)
    destruct (lc7g c caps cmin reuse strip stems) as [l7 c7] eqn:E7. cbn [fst snd] in Hb.
    pose proof (ppo_fold_snd c all_ip (l7, c7, true)) as E8.
    destruct (fold_left (ppo_step c ppo) all_ip (l7, c7, true)) as [[l8 c8] ok8] eqn:E9. cbn [snd] in E8. subst ok8.
    destruct (a_ok st6) eqn:Eok; [|discriminate]. cbn [andb] in Hb. injection Hb as <-. cbn [so_locs so_caps so_len].
    assert (CAP : forall o, In o ops -> s_out o <> tmp -> capok caps o).
    { pose proof Eok as Hok. rewrite st6g_events in Hok. destruct (events_ok tmp stems caps cmin reuse _ _ Hok) as [_ CAP].
      rewrite ops_events_g in CAP. exact CAP. }
    (* the level loop *)
    destruct (ref5g c cmin strip WF Hcmin stems HD1 HD2 HA) as (_ & Ppos & _).
    pose proof (J5g c cmin strip WF Hcmin stems HD1 HD2 HA) as J5.
    pose proof (W5g c caps cmin strip Hcmin stems HD1 HD2 HA HB CAP) as W5.
    pose proof (build_ops_ok c WF strip stems Hst) as Hok. change (src_len c) with len in Hok.
    destruct (starts_shape stems ops len) as (rest & Est & Hch). change (rev (ls_starts (levelize stems ops len))) with starts in Est.
    assert (Hsl : map (fun ab : nat * nat => py_slice (fst ab) (snd ab) rows) (combine starts stops) = map (map (row_of_sop actrl)) (lvsg c strip stems)).
    { unfold lvsg. rewrite Est. cbn [tl]. pose proof (slices_split rest 0 ops Hch) as Hsp. cbn [skipn] in Hsp. rewrite <- Hsp. rewrite map_map.
      apply map_ext. intros ab. apply py_slice_map. }
    pose proof (concat_lvsg c strip stems) as Ecat.
    destruct (loop2_levels c slen nl tmp (nl + 2) ppi ppo len rows stems starts stops caps cmin reuse Hcmin Lst
                (Pg c cmin strip stems) Ppos actrl (lvsg c strip stems) (combine starts stops) st5 (refZ st5) Hsl) as (E6 & L6 & _).
    { rewrite Ecat. exact Hok. }
    { apply Q45. }
    { rewrite Ecat. exact J5. }
    { rewrite Ecat. exact W5. }
    cbv zeta in E6, L6. change (fold_left (level_alloc tmp stems caps cmin reuse) (lvsg c strip stems) st5) with st6 in *.
    rewrite E6. unfold lview2 at 1. cbn [bind].
    (* aliases of stripped branches *)
    destruct (main6g c caps cmin reuse strip WF Hcmin stems HD1 HD2 HA HB Eok) as (_ & _ & _ & _ & Ll6 & _).
    assert (Q26 : Q2 (a_locs st6, a_caps st6)) by (split; cbn [fst snd]; assumption).
    assert (Hq5 : Forall (fun x : nat * Z => fst x < len /\ nth (fst x) stems (-1)%Z = snd x) (py_enumerate stems)).
    { apply Forall_forall. intros [i s] Hin. unfold py_enumerate in Hin. apply (in_combine_seq (-1)%Z) in Hin.
      destruct Hin as [H1 H2]. rewrite Nat.sub_0_r in H2. cbn [fst snd]. split; [lia | exact H2]. }
    destruct (py_for_view (fun lc : list Z * list N => lc)
                (alloc_src__loop5 c slen nl (nl + 1) (nl + 2) ppi ppo len rows stems (a_ref st6) starts stops caps cmin reuse (a_heap st6))
                (fun lc (x : nat * Z) => stem_copy stems lc (fst x)) Q2 _
                (fun x m Hx Hm => loop5_step (a_ref st6) (a_heap st6) x m (proj1 Hx) (proj2 Hx) Hm)
                (py_enumerate stems) (a_locs st6, a_caps st6) Hq5 Q26) as [E75 Q27].
    assert (E7' : fold_left (fun lc (x : nat * Z) => stem_copy stems lc (fst x)) (py_enumerate stems) (a_locs st6, a_caps st6) = (l7, c7)).
    { rewrite fold_left_fst. unfold py_enumerate. rewrite map_fst_combine_seq, Lst. exact E7. }
    rewrite E7' in E75, Q27. rewrite E75. cbn [bind].
    (* PO / PPO slots *)
    assert (Q37 : Q3 (l7, c7, true)) by exact Q27.
    destruct (py_for_view (fun lc : list Z * list N * bool => fst lc)
                (alloc_src__loop6 c slen nl (nl + 1) (nl + 2) ppi ppo len rows stems (a_ref st6) starts stops caps cmin reuse (a_heap st6))
                (ppo_step c ppo) Q3 _
                (fun x m Hx Hm => loop6_step (a_ref st6) (a_heap st6) x m Hx Hm)
                (py_enumerate sn) (l7, c7, true) Hq Q37) as [E85 _].
    cbn [fst] in E85. rewrite E85. unfold py_enumerate. rewrite E9. reflexivity.
  Qed.
End SrcG.

(* ------------------------------------------------------------------------------------------ *)
(** * The theorems: all four option combinations *)

(** the allocation section of the CURRENT source, run on the model's rows / stems / reference counts / level boundaries, returns
    exactly c_locs / c_caps / c_len of [build] *)
Theorem alloc_source_is_model c actrl caps cmin reuse strip stems so :
  wf_netlist c -> comb_acyclic c -> (0 < cmin)%N -> gates_known c -> (strip = true -> forks_ok c) ->
  build_stems c strip (src_len c) = Some stems ->
  build c caps cmin reuse strip = Some so ->
  let nl := length (c_lines c) in let sl := length (s_nodes c) in
  let ops := build_ops c strip in let rows := map (row_of_sop actrl) ops in
  let ls := levelize stems ops (src_len c) in
  let starts := rev (ls_starts ls) in let stops := tl starts ++ [length ops] in
  alloc_src_ c sl nl (nl + 1) (nl + 2) (nl + 3) (nl + 3 + sl) (src_len c) rows stems (ls_ref ls) starts stops caps cmin reuse
  = Some (so_locs so, so_caps so, so_len so).
Proof.
  intros WF AC Hc GK FK Hst Hb. cbv zeta. unfold src_len in *. destruct strip.
  - pose proof (gates_known_reads_defined_t c stems WF AC GK (FK eq_refl) Hst) as RDt.
    exact (alloc_source_is_model_g c caps cmin reuse true WF Hc stems Hst (ws_HD1 c WF stems Hst) (ws_HD2 c WF AC stems Hst)
             (ws_HA c WF AC stems Hst RDt cmin Hc) (ws_HB c WF AC stems Hst) actrl so Hb).
  - pose proof (gates_known_reads_defined c WF AC GK) as RD.
    rewrite (ns_Hst c) in Hst. injection Hst as <-.
    exact (alloc_source_is_model_g c caps cmin reuse false WF Hc _ (ns_Hst c) (ns_HD1 c) (ns_HD2 c)
             (ns_HA c WF cmin Hc RD) (ns_HB c WF) actrl so Hb).
Qed.

Lemma build_fields c caps cmin reuse strip so : build c caps cmin reuse strip = Some so ->
  exists stems, build_stems c strip (src_len c) = Some stems /\ so_ops so = build_ops c strip /\ so_stems so = stems /\
    so_level_starts so = rev (ls_starts (levelize stems (build_ops c strip) (src_len c))).
Proof.
  intros Hb. unfold src_len.
  destruct (build_stems c strip (length (c_lines c) + 3 + length (s_nodes c) + length (s_nodes c))) as [stems|] eqn:Hst.
  - exists stems. split; [reflexivity|].
    destruct (build_inv_g c caps cmin reuse strip stems Hst so Hb) as (_ & E1 & E2 & _ & _ & _ & E3). auto.
  - exfalso. unfold build in Hb. cbv zeta in Hb. rewrite Hst in Hb. discriminate.
Qed.

(** the WHOLE translated constructor (ops, level boundaries, stem table, memory map, c_len) is [build] *)
Theorem simops_source_is_model c given caps cmin reuse strip so :
  wf_netlist c -> comb_acyclic c -> (0 < cmin)%N -> gates_known c -> (strip = true -> forks_ok c) ->
  build c caps cmin reuse strip = Some so ->
  let actrl := a_ctrl_norm given (length (c_lines c) + 3) in
  simops_src c actrl caps cmin reuse strip (S (length (c_nodes c)))
  = Some (map (row_of_sop actrl) (so_ops so), so_level_starts so, tl (so_level_starts so) ++ [length (so_ops so)],
          so_locs so, so_caps so, so_len so, so_stems so).
Proof.
  intros WF AC Hc GK FK Hb actrl.
  destruct (build_fields c caps cmin reuse strip so Hb) as (stems & Hst & E1 & E2 & E3).
  pose proof (simops_source_prefix_wf c given caps cmin reuse strip stems WF Hst) as Hp. cbv zeta in Hp. fold actrl in Hp.
  rewrite Hp.
  pose proof (alloc_source_is_model c actrl caps cmin reuse strip stems so WF AC Hc GK FK Hst Hb) as Ha. cbv zeta in Ha.
  rewrite Ha. cbn [bind]. rewrite E1, E2, E3. reflexivity.
Qed.

(** ... and the constructor succeeds whenever the capacity vector covers the lines and the stem walk terminates *)
Theorem simops_source_total c given caps cmin reuse strip :
  wf_netlist c -> comb_acyclic c -> (0 < cmin)%N -> gates_known c -> (strip = true -> forks_ok c) ->
  length (c_lines c) <= length caps ->
  build_stems c strip (length (c_lines c) + 3 + length (s_nodes c) + length (s_nodes c)) <> None ->
  let actrl := a_ctrl_norm given (length (c_lines c) + 3) in
  exists so, build c caps cmin reuse strip = Some so /\
    simops_src c actrl caps cmin reuse strip (S (length (c_nodes c)))
    = Some (map (row_of_sop actrl) (so_ops so), so_level_starts so, tl (so_level_starts so) ++ [length (so_ops so)],
            so_locs so, so_caps so, so_len so, so_stems so).
Proof.
  intros WF AC Hc GK FK Hl Hs actrl.
  destruct (build_total_all c caps cmin reuse strip WF AC Hc GK FK Hl Hs) as [so Hb].
  exists so. split; [exact Hb|]. exact (simops_source_is_model c given caps cmin reuse strip so WF AC Hc GK FK Hb).
Qed.

Theorem simops_source_total_certified c given caps cmin reuse strip :
  wf_netlist c -> comb_acyclic c -> (0 < cmin)%N -> gates_known c -> (strip = true -> forks_ok c) ->
  length (c_lines c) <= length caps ->
  build_stems c strip (length (c_lines c) + 3 + length (s_nodes c) + length (s_nodes c)) <> None ->
  let actrl := a_ctrl_norm given (length (c_lines c) + 3) in
  exists so,
    simops_src c actrl caps cmin reuse strip (S (length (c_nodes c)))
    = Some (map (row_of_sop actrl) (so_ops so), so_level_starts so, tl (so_level_starts so) ++ [length (so_ops so)],
            so_locs so, so_caps so, so_len so, so_stems so) /\
    so_nlines so = length (c_lines c) /\ so_slen so = length (s_nodes c) /\
    map_check (so_loc so) (so_alias c so) (so_init so) (so_final so) (so_ops so) = true.
Proof.
  intros WF AC Hc GK FK Hl Hs actrl.
  destruct (simops_source_total c given caps cmin reuse strip WF AC Hc GK FK Hl Hs) as (so & Hb & E).
  exists so. split; [exact E|].
  assert (Hn : so_nlines so = length (c_lines c) /\ so_slen so = length (s_nodes c)).
  { destruct (build_stems c strip (length (c_lines c) + 3 + length (s_nodes c) + length (s_nodes c))) as [stems|] eqn:Hst; [|congruence].
    destruct (build_inv_g c caps cmin reuse strip stems Hst so Hb) as (_ & _ & _ & E4 & E5 & _). auto. }
  destruct Hn as [E4 E5]. split; [exact E4|]. split; [exact E5|].
  exact (build_map_check_all c caps cmin reuse strip so WF AC Hc GK FK Hb).
Qed.

(** the hypotheses are satisfiable: a netlist with a flip-flop, a fan-out and five levels on which reuse really happens; the translated
    constructor returns the model's result under all four option combinations *)
Theorem simops_source_nonvacuous : exists c caps cmin,
  wf_netlist c /\ comb_acyclic c /\ (0 < cmin)%N /\ gates_known c /\ forks_ok c /\
  forall reuse strip, exists so, build c caps cmin reuse strip = Some so /\
    simops_src c (a_ctrl_norm None (length (c_lines c) + 3)) caps cmin reuse strip (S (length (c_nodes c)))
    = Some (map (row_of_sop (a_ctrl_norm None (length (c_lines c) + 3))) (so_ops so), so_level_starts so,
            tl (so_level_starts so) ++ [length (so_ops so)], so_locs so, so_caps so, so_len so, so_stems so).
Proof.
  destruct AllOptionsExample.all_options_nonvacuous as (c & caps & cmin & WF & AC & Hc & GK & FK & Hall).
  exists c, caps, cmin. repeat (split; [assumption|]).
  intros reuse strip. destruct (Hall reuse strip) as [so Hb]. exists so. split; [exact Hb|].
  exact (simops_source_is_model c None caps cmin reuse strip so WF AC Hc GK (fun _ => FK) Hb).
Qed.
