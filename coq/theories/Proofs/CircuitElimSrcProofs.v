(** Circuit.eliminate_1to1_forks translated from the source (Gen/CircuitElimSrc.v, translate/gen_circuit_elim.py) = the hand
    model [eliminate_1to1] of Model/Circuit.v on EVERY circuit state, the raising cases included.  The states are compared with
    [ceq] (fields equal, object stores pointwise equal: no functional extensionality), like the primitives
    (Proofs/CircuitPrimsSrcProofs.v), whose equalities carry the calls `n.remove()` / `out_line.remove()`.  *)
From Coq Require Import List Arith Bool String ZArith Lia.
From KV Require Import Model.Circuit Model.CircuitInv Model.CircuitPrimsSrcLib Model.CircuitElimSrcLib
  Gen.CircuitPrimsSrc Gen.CircuitElimSrc Proofs.CircuitCeq Proofs.CircuitPrimsSrcProofs.
Import ListNotations.
Local Open Scope list_scope.

Notation eloop := Circuit_eliminate_1to1_forks_src_loop1.

(** `n in set(self.io_nodes)` evaluated on the state the set was taken from is the port test of the model *)
Lemma py_in_set_io c n : py_in_set c n (py_set_of (io c)) = in_ios c n.
Proof. reflexivity. Qed.

Lemma in_ios_ceq a b n : ceq a b -> in_ios a n = in_ios b n.
Proof.
  intros H. ceq_split H. unfold in_ios. rewrite Hio. clear Hio. induction (io b) as [|e r IH]; simpl; [reflexivity|].
  rewrite IH. f_equal. destruct e as [m|]; [|reflexivity]. unfold node_eqb, name_of, kind_of. rewrite !Hn. reflexivity.
Qed.

(** ** the model's loop body respects [ceq] and leaves the io list alone *)
Lemma elim_one_ceq a b n : ceq a b -> oceq (elim_one a n) (elim_one b n).
Proof.
  intros H. unfold elim_one. rewrite (in_ios_ceq a b n H).
  destruct (in_ios b n); [exact H|].
  assert (Hn : nst a n = nst b n) by apply H. unfold outs_of, ins_of. rewrite Hn.
  destruct (n_outs (nst b n)) as [|oo [|]]; try exact H.
  destruct (n_ins (nst b n)) as [|[il|] rest]; try exact H.
  destruct oo as [ol|]; [|exact I].
  assert (HL : lst a ol = lst b ol) by apply H. rewrite HL.
  pose proof (node_remove_ceq a b n H) as H1.
  destruct (node_remove a n) as [a1|], (node_remove b n) as [b1|]; simpl in H1; try contradiction; [|exact I].
  pose proof (line_remove_ceq a1 b1 ol H1) as H2.
  destruct (line_remove a1 ol) as [a2|], (line_remove b1 ol) as [b2|]; simpl in H2; try contradiction; [|exact I].
  destruct (l_rdr (lst b ol)) as [rd|]; [|exact I].
  simpl. apply upd_node_ceq. now apply upd_line_ceq.
Qed.

Lemma del_node_at_io c i c' : del_node_at c i = Some c' -> io c' = io c.
Proof.
  unfold del_node_at. destruct (idel (nodes c) i) as [[l' [rep|]]|]; intros E; inversion E; reflexivity.
Qed.
Lemma node_remove_io c n c' : node_remove c n = Some c' -> io c' = io c.
Proof.
  unfold node_remove. destruct (n_alive (nst c n)); [|intros E; inversion E; reflexivity].
  destruct (del_node_at c (n_index (nst c n))) as [c1|] eqn:E1; [|discriminate].
  apply del_node_at_io in E1.
  destruct (is_fork (n_kind (nst c n))).
  - destruct (ddel (n_name (nst c n)) (forks c1)); simpl; [|discriminate]. intros E; inversion E. exact E1.
  - destruct (ddel (n_name (nst c n)) (cells c1)); simpl; [|discriminate]. intros E; inversion E. exact E1.
Qed.
Lemma renumber_io : forall o c i c', renumber c o i = Some c' -> io c' = io c.
Proof.
  induction o as [|[l|] o IH]; intros c i c' E; simpl in E; [inversion E; reflexivity | | discriminate].
  apply IH in E. exact E.
Qed.
Lemma del_line_at_io c i c' : del_line_at c i = Some c' -> io c' = io c.
Proof.
  unfold del_line_at. destruct (idel (lines c) i) as [[l' [rep|]]|]; intros E; inversion E; reflexivity.
Qed.
Lemma line_remove_io c l c' : line_remove c l = Some c' -> io c' = io c.
Proof.
  unfold line_remove. set (L := lst c l).
  match goal with |- match ?s with _ => _ end = _ -> _ => destruct s as [c2|] eqn:E1 end; [|discriminate].
  assert (H2 : io c2 = io c).
  { destruct (l_drv L) as [d|]; [|inversion E1; reflexivity]. cbv zeta in E1.
    match type of E1 with (if ?t then _ else _) = _ => destruct t end; [|inversion E1; reflexivity].
    apply renumber_io in E1. exact E1. }
  match goal with |- match ?s with _ => _ end = _ -> _ => destruct s as [c4|] eqn:E4 end; [|discriminate].
  intros E; inversion E; subst c'. cbn [io upd_line with_lst].
  assert (H3 : forall c3, c3 = match l_rdr L with
                | Some r => upd_node c2 r (fun x => nset_ins x (gset (n_ins x) (l_rpin L) None))
                | None => c2 end -> io c3 = io c2) by (intros c3 ->; destruct (l_rdr L); reflexivity).
  destruct (l_alive L).
  - apply del_line_at_io in E4. rewrite E4. rewrite (H3 _ eq_refl). exact H2.
  - inversion E4. rewrite (H3 _ eq_refl). exact H2.
Qed.
Lemma elim_one_io c n c' : elim_one c n = Some c' -> io c' = io c.
Proof.
  unfold elim_one. destruct (in_ios c n); [intros E; inversion E; reflexivity|].
  destruct (outs_of c n) as [|oo [|]]; try (intros E; inversion E; reflexivity).
  destruct (ins_of c n) as [|[il|] rest]; try (intros E; inversion E; reflexivity).
  destruct oo as [ol|]; [|discriminate].
  destruct (node_remove c n) as [c1|] eqn:E1; [|discriminate].
  destruct (line_remove c1 ol) as [c2|] eqn:E2; [|discriminate].
  destruct (l_rdr (lst c ol)) as [rd|]; [|discriminate].
  intros E; inversion E. cbn [io upd_node upd_line with_nst with_lst].
  apply node_remove_io in E1. apply line_remove_io in E2. congruence.
Qed.

(** ** the guards *)
Lemma len_ne1_test {A} (l : list A) :
  negb (Z.eqb (py_len l) 1%Z) = match l with [_] => false | _ => true end.
Proof.
  destruct l as [|x [|y l]]; try reflexivity. unfold py_len. simpl List.length.
  destruct (Z.eqb_spec (Z.of_nat (S (S (List.length l)))) 1%Z); [lia | reflexivity].
Qed.
Lemma len_lt1_test {A} (l : list A) : Z.ltb (py_len l) 1%Z = match l with [] => true | _ => false end.
Proof.
  destruct l as [|x l]; [reflexivity|]. unfold py_len. simpl List.length.
  destruct (Z.ltb_spec (Z.of_nat (S (List.length l))) 1%Z); [lia | reflexivity].
Qed.

(** two attribute writes `in_line.reader = r; in_line.reader_pin = p` are the model's single record update *)
Lemma set_reader_pair_ceq a b l r p : ceq a b ->
  ceq (set_l_reader_pin (set_l_reader a l r) l p) (upd_line b l (fun x => lset_rdr x r p)).
Proof.
  intros H. ceq_split H. unfold set_l_reader_pin, set_l_reader, upd_line. unfold ceq. cbn.
  repeat split; auto. intros x. unfold fupd. rewrite Nat.eqb_refl.
  destruct (Nat.eqb x l) eqn:E; [|apply Hl]. rewrite Hl. destruct (lst b l); reflexivity.
Qed.

(** ** one iteration: the translated body runs the model's [elim_one] (up to [ceq]) and goes on with the rest of the snapshot *)
Lemma eloop_step a n it :
  match elim_one a n with
  | Some a1 => exists a', ceq a' a1 /\ eloop a (io a) (n :: it) = eloop a' (io a) it
  | None => eloop a (io a) (n :: it) = None
  end.
Proof.
  cbn [Circuit_eliminate_1to1_forks_src_loop1].
  change (py_in_set a n (io a)) with (in_ios a n). unfold elim_one.
  destruct (in_ios a n); [exists a; split; [apply ceq_refl | reflexivity]|].
  rewrite len_ne1_test, len_lt1_test. unfold outs_of, ins_of.
  destruct (n_outs (nst a n)) as [|oo [|oo2 orest]]; try (exists a; split; [apply ceq_refl | reflexivity]).
  destruct (n_ins (nst a n)) as [|[il|] rest]; try (exists a; split; [apply ceq_refl | reflexivity]).
  change (py_idx 0%Z) with (Some 0). cbn [py_lget nth_error py_is_none].
  destruct oo as [ol|]; [|reflexivity].
  rewrite node_remove_src_eq.
  destruct (node_remove a n) as [a1|]; [|reflexivity].
  pose proof (line_remove_src_eq a1 ol) as H2.
  destruct (Line_remove_src a1 ol) as [s2|], (line_remove a1 ol) as [a2|]; simpl in H2; try contradiction; [|reflexivity].
  rewrite py_idx_nat.
  pose proof (set_reader_pair_ceq s2 a2 il (l_rdr (lst a ol)) (l_rpin (lst a ol)) H2) as H3.
  set (s3 := set_l_reader_pin (set_l_reader s2 il (l_rdr (lst a ol))) il (l_rpin (lst a ol))) in *.
  assert (HL : lst s3 il = lset_rdr (lst a2 il) (l_rdr (lst a ol)) (l_rpin (lst a ol))).
  { destruct H3 as (_ & _ & Hl & _). rewrite Hl. apply lst_upd_line_same. }
  rewrite HL. cbn [l_rdr l_rpin lset_rdr].
  destruct (l_rdr (lst a ol)) as [rd|]; [|reflexivity].
  rewrite growing_setitem_src_eq.
  eexists. split; [|reflexivity].
  unfold set_n_ins.
  assert (Hrd : nst s3 rd = nst (upd_line a2 il (fun x => lset_rdr x (Some rd) (l_rpin (lst a ol)))) rd) by apply H3.
  eapply ceq_trans; [apply upd_node_ceq; exact H3|].
  rewrite Hrd. apply ceq_refl.
Qed.

(** ** the scan over the snapshot of the fork dict *)
Lemma eloop_is_fold : forall it a b, ceq a b ->
  oceq (eloop a (io a) it) (fold_opt elim_one it b).
Proof.
  induction it as [|n it IH]; intros a b H; [exact H|].
  pose proof (eloop_step a n it) as Hs. pose proof (elim_one_ceq a b n H) as He.
  cbn [fold_opt].
  destruct (elim_one a n) as [a1|] eqn:Ea, (elim_one b n) as [b1|]; simpl in He; try contradiction.
  - destruct Hs as (a' & Hc & ->).
    assert (Hio : io a = io a').
    { apply elim_one_io in Ea. destruct Hc as (_ & _ & _ & _ & _ & _ & Hio & _). congruence. }
    rewrite Hio. apply IH. eapply ceq_trans; [exact Hc | exact He].
  - rewrite Hs. exact I.
Qed.

Theorem eliminate_source_is_model : forall c, oceq (Circuit_eliminate_1to1_forks_src c) (eliminate_1to1 c).
Proof.
  intros c. unfold Circuit_eliminate_1to1_forks_src, eliminate_1to1, py_set_of, py_dict_values.
  pose proof (eloop_is_fold (map snd (forks c)) c c (ceq_refl c)) as H.
  destruct (eloop c (io c) (map snd (forks c))) as [s|]; exact H.
Qed.

(** on [ceq]-related states (e.g. after a history run on the translated primitives) *)
Theorem eliminate_source_is_model_ceq : forall a b, ceq a b -> oceq (Circuit_eliminate_1to1_forks_src a) (eliminate_1to1 b).
Proof.
  intros a b H. unfold Circuit_eliminate_1to1_forks_src, eliminate_1to1, py_set_of, py_dict_values.
  assert (Hf : forks a = forks b) by apply H. rewrite Hf.
  pose proof (eloop_is_fold (map snd (forks b)) a b H) as H1.
  destruct (eloop a (io a) (map snd (forks b))) as [s|]; exact H1.
Qed.

(** one fork: the loop body alone *)
Theorem eliminate_body_source_is_model : forall c n,
  oceq (eloop c (py_set_of (io c)) [n]) (elim_one c n).
Proof.
  intros c n. pose proof (eloop_is_fold [n] c c (ceq_refl c)) as H. cbn [fold_opt] in H.
  destruct (elim_one c n); exact H.
Qed.
