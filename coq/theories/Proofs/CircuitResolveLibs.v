(** C10, resolve_tlib_cells over its loop: the hypotheses on the library table ([lib_ok_sem_b], [lib_total_b] of
    Model/CircuitResolveSem.v) hold for the complete tables of the five built-in libraries as regenerated from techlib.py on every
    run (Gen/TechLibs.v): one entry per expanded cell NAME, implementation built as TechLib.__init__ does (Model/CellCircuit.v). *)
From Coq Require Import List Arith Bool String.
From KV Require Import Model.TechCell Model.Circuit Model.CircuitInv Model.CircuitView Model.CellCircuit Model.CircuitResolveSem Gen.TechLibs.
Import ListNotations.
Local Open Scope list_scope.

Definition tlib_of (lib : list tcell) : list (string * circ) :=
  flat_map (fun cell => match impl_of_tcell cell with
                        | Some impl => map (fun nm => (nm, impl)) (t_names cell)
                        | None => []
                        end) lib.
(* every definition has an implementation, so no name is lost *)
Definition tlib_complete_b (lib : list tcell) : bool :=
  forallb (fun cell => match impl_of_tcell cell with Some _ => true | None => false end) lib.

Lemma GSC180_tlib_ok :
  tlib_complete_b lib_GSC180 = true /\ lib_ok_sem_b (tlib_of lib_GSC180) = true /\ lib_total_b (tlib_of lib_GSC180) = true.
Proof. vm_compute. auto. Qed.
Lemma NANGATE_tlib_ok :
  tlib_complete_b lib_NANGATE = true /\ lib_ok_sem_b (tlib_of lib_NANGATE) = true /\ lib_total_b (tlib_of lib_NANGATE) = true.
Proof. vm_compute. auto. Qed.
Lemma NANGATE_ZN_tlib_ok :
  tlib_complete_b lib_NANGATE_ZN = true /\ lib_ok_sem_b (tlib_of lib_NANGATE_ZN) = true /\ lib_total_b (tlib_of lib_NANGATE_ZN) = true.
Proof. vm_compute. auto. Qed.
Lemma SAED32_tlib_ok :
  tlib_complete_b lib_SAED32 = true /\ lib_ok_sem_b (tlib_of lib_SAED32) = true /\ lib_total_b (tlib_of lib_SAED32) = true.
Proof. vm_compute. auto. Qed.
Lemma SAED90_tlib_ok :
  tlib_complete_b lib_SAED90 = true /\ lib_ok_sem_b (tlib_of lib_SAED90) = true /\ lib_total_b (tlib_of lib_SAED90) = true.
Proof. vm_compute. auto. Qed.

(* the tables are not trivial: number of entries (expanded names) per library *)
Lemma tlib_sizes :
  map (fun l => List.length (tlib_of l)) [lib_GSC180; lib_NANGATE; lib_NANGATE_ZN; lib_SAED32; lib_SAED90] =
  map (fun l => List.length (flat_map t_names l)) [lib_GSC180; lib_NANGATE; lib_NANGATE_ZN; lib_SAED32; lib_SAED90] /\
  forallb (fun l => Nat.ltb 20 (List.length (tlib_of l))) [lib_GSC180; lib_NANGATE; lib_NANGATE_ZN; lib_SAED32; lib_SAED90] = true.
Proof. vm_compute. auto. Qed.

Lemma tlib_tables_ok : forall lib, In lib [lib_GSC180; lib_NANGATE; lib_NANGATE_ZN; lib_SAED32; lib_SAED90] ->
  tlib_complete_b lib = true /\ lib_ok_sem_b (tlib_of lib) = true /\ lib_total_b (tlib_of lib) = true.
Proof.
  intros lib [<-|[<-|[<-|[<-|[<-|[]]]]]].
  exact GSC180_tlib_ok. exact NANGATE_tlib_ok. exact NANGATE_ZN_tlib_ok. exact SAED32_tlib_ok. exact SAED90_tlib_ok.
Qed.
Print Assumptions tlib_tables_ok.
