(** End-to-end composition for m == 8 (PARTIAL, see below): the translated loop of LogicSim.c_prop, run on a list memory that shows the
    model memory after s_to_c from the cleared memory, leaves at every PPO location outside the two scratch locations the three planes of
    the value that the compared entry point sim_case8 captures there -- i.e. (sim_case8_correct / C02_logicsim_model_correct) the value of the
    UNIQUE multi-valued solution of the netlist equations at the observed line.

    What is missing for the full statement "source-level round = capture of the unique solution": (1) the pinned vectorised s_to_c / c_to_s
    (Model/LogicSimDrvPrelude.v s_to_c_src / c_to_s_src) are tied to the model's s_to_c / c_to_s on the list memory only for mdim = 1
    (Proofs/LogicSimDriversFull.v); the mdim = 3 instances are the same index arithmetic with three planes per row (the hypothesis below
    assumes the memory after s_to_c shows the model's), (2) that a PPO location of a build() result is never c_locs[tmp_idx] / c_locs[tmp2_idx]
    (the side conditions l <> lt0, l <> lt1 below; it follows from the allocator invariant used in Proofs/LogicSimSepBuild.v
    out_apart_pinned, not derived here). *)
From Coq Require Import List ZArith NArith Bool Arith Lia String.
From KV Require Import Model.Bits Model.Logic Model.Prims Model.OpSem Model.Netlist Model.NetlistWf Model.SimOps Model.SimOpsCert Model.NetlistSem Model.CycleSem
     Model.LogicSimModel Model.WaveDrvPrelude Model.LogicSimDrvPrelude Gen.SimTables Gen.LogicSimDriversSrc
     Proofs.EndToEnd Proofs.ReuseStrip Proofs.LogicSimGlue Proofs.LogicSimDriversProofs Proofs.LogicSimLoop8 Proofs.LogicSimLoopN Proofs.LogicSimSepBuildX.
Import ListNotations.
Local Open Scope list_scope.

Lemma nth_map_seq {A} (f : nat -> A) n p d : p < n -> nth p (map f (seq 0 n)) d = f p.
Proof.
  intros H. rewrite (nth_indep _ d (f 0)) by (rewrite map_length, seq_length; exact H).
  rewrite map_nth. rewrite seq_nth by exact H. reflexivity.
Qed.

Theorem round8_reads_solution_partial c reuse strip so s0 s1 :
  wf_netlist c -> comb_acyclic c -> gates_known c -> (strip = true -> forks_ok c) ->
  List.length s0 = List.length (s_nodes c) -> List.length s1 = List.length (s_nodes c) ->
  build c (repeat 1%N (List.length (c_lines c) + 3)) 1%N reuse strip = Some so ->
  exists lt0 lt1, so_loc so (so_nlines so + 1) = Some lt0 /\ so_loc so (so_nlines so + 2) = Some lt1 /\ lt0 <> lt1 /\
    forall M0, agree8 lt0 lt1 M0 (s_to_c so s0 (repeat Zero (N.to_nat (so_len so)))) ->
    let M1 := fst (c_prop_src loop_prop_cpu loop_cprop2_cb loop_cprop4 loop_cprop8 8 (so_locs so) (so_nlines so)
                     (Z.of_nat (so_nlines so + 1)) (Z.of_nat (so_nlines so + 2)) None (map row_of (so_ops so)) M0) in
    forall p l, p < List.length (s_nodes c) -> so_loc so (so_ppo so + p) = Some l -> l <> lt0 -> l <> lt1 ->
      sim_case8 c reuse strip s0 s1 = Some (simulate Zero sem8 so s0 s1) /\
      nth l M1 (pdflt 3) = code_bits (nth p (simulate Zero sem8 so s0 s1) Zero) /\
      forall v l0, solution (semN sem8) Zero c (fun q => nth q s0 Zero) v -> snode_in c p = Some l0 -> nth l M1 (pdflt 3) = code_bits (v l0).
Proof.
  intros WF AC GK FK H0 H1 Hb.
  set (m0 := s_to_c so s0 (repeat Zero (N.to_nat (so_len so)))).
  assert (Lm0 : List.length m0 = N.to_nat (so_len so)) by (unfold m0; rewrite s_to_c_length, repeat_length; reflexivity).
  destruct (build_glue c _ 1%N reuse strip so WF AC eq_refl GK FK Hb) as (_ & Eslen & _).
  pose proof (sim_case8_correct c reuse strip s0 s1 WF AC GK FK H0 H1) as SC.
  assert (ES : sim_case8 c reuse strip s0 s1 = Some (simulate Zero sem8 so s0 s1)) by (unfold sim_case8; rewrite Hb; reflexivity).
  rewrite ES in SC. destruct SC as [_ SC].
  destruct (build_cprop8_source_is_model_x c _ 1%N reuse strip so WF AC eq_refl GK FK Hb m0 Lm0 (@nil planes)) as (lt0 & lt1 & E0 & E1 & Hne & _).
  exists lt0, lt1. split; [exact E0|]. split; [exact E1|]. split; [exact Hne|].
  intros Ma HA Mb pp ll Hp El N0 N1.
  destruct (build_cprop8_source_is_model_x c _ 1%N reuse strip so WF AC eq_refl GK FK Hb m0 Lm0 Ma) as (a & b & E0' & E1' & _ & T).
  rewrite E0 in E0'. rewrite E1 in E1'. injection E0' as <-. injection E1' as <-.
  destruct (T HA) as [_ TV]. fold Mb in TV.
  assert (Er : nth pp (simulate Zero sem8 so s0 s1) Zero = nth ll (c_prop Zero sem8 so m0) Zero).
  { unfold simulate. fold m0. rewrite (c_to_s_eq Zero so _ s1) by (rewrite Eslen; exact H1).
    rewrite nth_map_seq by (rewrite Eslen; exact Hp). rewrite El. reflexivity. }
  split; [exact ES|]. split.
  - rewrite Er. apply (TV ll N0 N1).
  - intros v l0 Hv Hl0. rewrite (TV ll N0 N1), <- Er. unfold emb8. rewrite (SC v Hv pp l0 Hl0). reflexivity.
Qed.

From KV Require Proofs.LogicSimLoopNExample.
(** the hypotheses are satisfiable: on exD (gate without output line included) both observed positions (the output port, p = 1, and the
    flip-flop, p = 2) have a PPO location apart from the two scratch locations *)
Example round8_hyps_example : exists so lt0 lt1,
  build KV.Proofs.LogicSimLoopNExample.exD (repeat 1%N (List.length (c_lines KV.Proofs.LogicSimLoopNExample.exD) + 3)) 1%N true false = Some so /\
  so_loc so (so_nlines so + 1) = Some lt0 /\ so_loc so (so_nlines so + 2) = Some lt1 /\
  forall p, p = 1 \/ p = 2 -> p < List.length (s_nodes KV.Proofs.LogicSimLoopNExample.exD) /\ snode_in KV.Proofs.LogicSimLoopNExample.exD p <> None /\
    exists l, so_loc so (so_ppo so + p) = Some l /\ l <> lt0 /\ l <> lt1.
Proof.
  destruct (build KV.Proofs.LogicSimLoopNExample.exD (repeat 1%N (List.length (c_lines KV.Proofs.LogicSimLoopNExample.exD) + 3)) 1%N true false) as [so|] eqn:Hb;
    [|vm_compute in Hb; discriminate Hb].
  exists so, 1, 2. split; [reflexivity|]. vm_compute in Hb. injection Hb as <-.
  split; [vm_compute; reflexivity|]. split; [vm_compute; reflexivity|].
  intros p [-> | ->]; (split; [vm_compute; lia|]); (split; [vm_compute; discriminate|]).
  - exists 6. vm_compute. repeat split; discriminate.
  - exists 5. vm_compute. repeat split; discriminate.
Qed.
