(** Text level of the SDF front end (Model/SdfText.v): every way of writing a file covered by the concrete syntax
    [cfile] (ignored text wherever the grammar ignores it, header entries, CELLTYPE, TIMINGCHECK payloads) is parsed to
    its delay-relevant content; print / parse round trip; composition with the elaboration theorems of SdfProofs. *)
From Coq Require Import List ZArith NArith Bool Arith String Ascii Lia.
From KV Require Import Model.Prims Model.Netlist Model.TechCell Model.Sdf Model.SdfText Proofs.SdfProofs.
Import ListNotations.
Local Open Scope list_scope.

(** ** strings *)
Lemma sapp_assoc (a b c : string) : ((a ++ b) ++ c)%string = (a ++ (b ++ c))%string.
Proof. induction a as [|x a IH]; [reflexivity|]. cbn [append]. now rewrite IH. Qed.
Lemma sapp_nil_r (a : string) : (a ++ "")%string = a.
Proof. induction a as [|x a IH]; [reflexivity|]. cbn [append]. now rewrite IH. Qed.
Lemma slen_app : forall a b : string, String.length (a ++ b)%string = String.length a + String.length b.
Proof. induction a as [|x a IH]; intro b; [reflexivity|]. cbn [append String.length]. now rewrite IH. Qed.
Lemma drop_prefix_app : forall p rest, drop_prefix p (p ++ rest)%string = Some rest.
Proof. induction p as [|c p IH]; intro rest; [reflexivity|]. cbn [append drop_prefix]. now rewrite Ascii.eqb_refl. Qed.
Lemma sall_app p : forall a b, sall p (a ++ b)%string = sall p a && sall p b.
Proof. induction a as [|x a IH]; intro b; [reflexivity|]. cbn [append sall str_forall]. unfold sall in IH. now rewrite IH, andb_assoc. Qed.

(** ** ignored text *)
Definition solid (c : ascii) : bool := negb (is_b1 c || Ascii.eqb c c_nl || Ascii.eqb c c_cr || Ascii.eqb c c_slash).
Lemma skip_solid : forall b1 c r, solid c = true -> skip_go b1 false (String c r) = String c r.
Proof.
  intros b1 c r H. unfold solid in H. apply negb_true_iff in H.
  apply orb_false_iff in H. destruct H as [H H3]. apply orb_false_iff in H. destruct H as [H H2].
  apply orb_false_iff in H. destruct H as [H H1].
  cbn [skip_go]. rewrite H, H1, H2, H3. rewrite andb_false_r. reflexivity.
Qed.
Lemma skip_comment : forall b1 b rest, no_newline b = true ->
  skip_go b1 true (b ++ nl1 ++ rest)%string = skip_go b1 false rest.
Proof.
  induction b as [|c b IH]; intros rest H.
  - cbn. reflexivity.
  - unfold no_newline, sall in H. cbn [str_forall] in H. apply andb_true_iff in H. destruct H as [Hc Hb].
    apply negb_true_iff in Hc. cbn [append skip_go]. rewrite Hc. apply IH. exact Hb.
Qed.
Lemma skip_comment_end : forall b1 b, no_newline b = true -> skip_go b1 true b = EmptyString.
Proof.
  induction b as [|c b IH]; intro H; [reflexivity|].
  unfold no_newline, sall in H. cbn [str_forall] in H. apply andb_true_iff in H. destruct H as [Hc Hb].
  apply negb_true_iff in Hc. cbn [skip_go]. rewrite Hc. apply IH. exact Hb.
Qed.
Lemma skip_ign_ign : forall i rest, ign_ok i = true -> skip_ign (ign_text i ++ rest)%string = skip_ign rest.
Proof.
  intros [| | | | |b] rest H; try reflexivity.
  cbn [ign_ok] in H. unfold skip_ign. cbn [ign_text]. rewrite !sapp_assoc.
  change (skip_go true false ("//" ++ (b ++ nl1 ++ rest))%string) with (skip_go true true (b ++ nl1 ++ rest)%string).
  apply skip_comment, H.
Qed.
Lemma skip_sep : forall s rest, sep_ok s = true -> skip_ign (sep_text s ++ rest)%string = skip_ign rest.
Proof.
  induction s as [|i s IH]; intros rest H; [reflexivity|].
  unfold sep_ok in H. cbn [forallb] in H. apply andb_true_iff in H. destruct H as [Hi Hs].
  cbn [sep_text]. rewrite sapp_assoc, (skip_ign_ign _ _ Hi). apply IH, Hs.
Qed.
Lemma skip_sep_solid : forall s c r, sep_ok s = true -> solid c = true ->
  skip_ign (sep_text s ++ String c r)%string = String c r.
Proof. intros s c r Hs Hc. rewrite (skip_sep _ _ Hs). apply skip_solid, Hc. Qed.

Lemma skip_sep_rpar : forall s r, sep_ok s = true -> skip_ign (sep_text s ++ String ")" r)%string = String ")" r.
Proof. intros s r Hs. exact (skip_sep_solid s c_rpar r Hs eq_refl). Qed.
Lemma skip_sep_lpar : forall s r, sep_ok s = true -> skip_ign (sep_text s ++ String "(" r)%string = String "(" r.
Proof. intros s r Hs. exact (skip_sep_solid s c_lpar r Hs eq_refl). Qed.

(* a literal token that begins with a solid character, after any ignored text *)
Lemma expect_lit : forall s c p rest, sep_ok s = true -> solid c = true ->
  expect (String c p) (sep_text s ++ String c p ++ rest)%string = Some rest.
Proof.
  intros s c p rest Hs Hc. unfold expect. cbn [append]. rewrite (skip_sep_solid _ _ _ Hs Hc).
  change (String c (p ++ rest)%string) with (String c p ++ rest)%string. apply drop_prefix_app.
Qed.

(** ** greedy character classes *)
Definition stops (p : ascii -> bool) (s : string) : bool :=
  match s with EmptyString => true | String c _ => negb (p c) end.
Lemma span_app : forall p a rest, sall p a = true -> stops p rest = true -> span p (a ++ rest)%string = (a, rest).
Proof.
  induction a as [|c a IH]; intros rest Ha Hr.
  - cbn [append]. destruct rest as [|c r]; [reflexivity|]. cbn [stops] in Hr. apply negb_true_iff in Hr. cbn [span]. now rewrite Hr.
  - unfold sall in Ha. cbn [str_forall] in Ha. apply andb_true_iff in Ha. destruct Ha as [Hc Ha].
    cbn [append span]. rewrite Hc, (IH _ Ha Hr). reflexivity.
Qed.
Lemma span_eq : forall p s a b, span p s = (a, b) -> s = (a ++ b)%string /\ sall p a = true /\ stops p b = true.
Proof.
  induction s as [|c s IH]; intros a b H.
  - cbn in H. inversion H; subst. repeat split.
  - cbn [span] in H. destruct (p c) eqn:Ec.
    + destruct (span p s) as [a' b'] eqn:E. inversion H; subst. destruct (IH _ _ eq_refl) as [E1 [E2 E3]].
      repeat split; [cbn [append]; now rewrite <- E1 | unfold sall; cbn [str_forall]; now rewrite Ec | exact E3].
    + inversion H; subst. repeat split. cbn [stops]. now rewrite Ec.
Qed.
Lemma span_app_stop : forall p s a c t rest, span p s = (a, String c t) -> span p (s ++ rest)%string = (a, (String c t ++ rest)%string).
Proof.
  intros p s a c t rest H. destruct (span_eq _ _ _ _ H) as [E [Ha Hs]]. subst s. rewrite sapp_assoc.
  apply span_app; [exact Ha | exact Hs].
Qed.

(** ** names (ID, ID_OR_EDGE) *)
(* what follows a plain name: a parenthesis or any white-space character (or nothing) *)
Definition name_end (s : string) : bool :=
  match s with String c _ => is_paren c || is_ws c | EmptyString => true end.
Lemma b1_sep_text : forall r, forallb b1_only r = true -> sall is_b1 (sep_text r) = true.
Proof.
  induction r as [|i r IH]; intro H; [reflexivity|].
  cbn [forallb] in H. apply andb_true_iff in H. destruct H as [Hi Hr].
  cbn [sep_text]. rewrite sall_app, (IH Hr), andb_true_r. destruct i; try discriminate Hi; reflexivity.
Qed.
Lemma sep_cons_space : forall r X, (sep_text (IgSpace :: r) ++ X)%string = String c_sp (sep_text r ++ X)%string.
Proof. intros r X. reflexivity. Qed.
Lemma ws_not_b1 : forall c, is_ws c = false -> is_b1 c = false.
Proof.
  intros c H. destruct (is_b1 c) eqn:E; [|reflexivity]. exfalso.
  unfold is_b1 in E. apply orb_true_iff in E. destruct E as [E|E]; [apply orb_true_iff in E; destruct E as [E|E]|];
  apply Ascii.eqb_eq in E; subst c; discriminate H.
Qed.
Lemma id_skip_go_stop : forall f X, stops is_ws X = true -> id_skip_go f X = X.
Proof.
  intros [|f] [|c r] H; try reflexivity. cbn [stops] in H. apply negb_true_iff in H. cbn [id_skip_go].
  rewrite (ws_not_b1 _ H).
  destruct (Ascii.eqb c c_nl) eqn:E1; [apply Ascii.eqb_eq in E1; subst c; discriminate H|].
  destruct (Ascii.eqb c c_cr) eqn:E2; [apply Ascii.eqb_eq in E2; subst c; discriminate H|]. reflexivity.
Qed.

(* the scanners only ever drop a prefix *)
Lemma span_snd_len : forall p s, String.length (snd (span p s)) <= String.length s.
Proof.
  intros p. induction s as [|c r IH]; [apply le_n|]. cbn [span]. destruct (p c); [|apply le_n].
  destruct (span p r) as [a b]. cbn [snd String.length] in *. lia.
Qed.
Lemma span_snd_true : forall p c r, p c = true -> snd (span p (String c r)) = snd (span p r).
Proof. intros p c r H. cbn [span]. rewrite H. destruct (span p r); reflexivity. Qed.
Lemma skip_go_len : forall b1 n s cm, String.length s <= n -> String.length (skip_go b1 cm s) <= String.length s.
Proof.
  intros b1. induction n as [|n IH]; intros s cm Hn.
  - destruct s; [apply le_n | cbn in Hn; lia].
  - destruct s as [|x w]; [apply le_n|]. cbn [String.length] in Hn. cbn [skip_go]. destruct cm.
    + destruct (Ascii.eqb x c_nl); (eapply Nat.le_trans; [apply IH; lia | cbn [String.length]; lia]).
    + destruct ((b1 && is_b1 x) || Ascii.eqb x c_nl); [eapply Nat.le_trans; [apply IH; lia | cbn [String.length]; lia]|].
      destruct (Ascii.eqb x c_cr).
      * destruct w as [|y w']; [apply le_n|]. destruct (Ascii.eqb y c_nl); [|apply le_n].
        cbn [String.length] in *. eapply Nat.le_trans; [apply IH; lia | lia].
      * destruct (Ascii.eqb x c_slash); [|apply le_n]. destruct w as [|y w']; [apply le_n|]. destruct (Ascii.eqb y c_slash); [|apply le_n].
        cbn [String.length] in *. eapply Nat.le_trans; [apply IH; lia | lia].
Qed.
Lemma skip0_len : forall s, String.length (skip0 s) <= String.length s.
Proof. intro s. exact (skip_go_len false _ s false (le_n _)). Qed.
Lemma skip0_nl : forall r, skip0 (String c_nl r) = skip0 r.
Proof. reflexivity. Qed.
Lemma skip0_crnl : forall r, skip0 (String c_cr (String c_nl r)) = skip0 r.
Proof. reflexivity. Qed.

(* [id_skip]: the fuel does not matter; one step at a time *)
Lemma id_skip_go_fuel : forall f1 f2 s, String.length s < f1 -> String.length s < f2 -> id_skip_go f1 s = id_skip_go f2 s.
Proof.
  induction f1 as [|f1 IH]; intros f2 s H1 H2; [lia|]. destruct f2 as [|f2]; [lia|].
  destruct s as [|c r]; [reflexivity|]. cbn [String.length] in H1, H2. cbn [id_skip_go].
  destruct (is_b1 c) eqn:Eb.
  - rewrite (span_snd_true _ _ _ Eb). pose proof (span_snd_len is_b1 r). apply IH; lia.
  - destruct (Ascii.eqb c c_nl) eqn:E1.
    + apply Ascii.eqb_eq in E1. subst c. rewrite skip0_nl. pose proof (skip0_len r). apply IH; lia.
    + destruct (Ascii.eqb c c_cr) eqn:E2; [|reflexivity]. destruct r as [|c2 r2]; [reflexivity|].
      destruct (Ascii.eqb c2 c_nl) eqn:E3; [|reflexivity].
      apply Ascii.eqb_eq in E2, E3. subst c c2. rewrite skip0_crnl. pose proof (skip0_len r2). cbn [String.length] in *. apply IH; lia.
Qed.
Lemma id_skip_go_len : forall f s, String.length (id_skip_go f s) <= String.length s.
Proof.
  induction f as [|f IH]; intro s; [apply le_n|]. destruct s as [|c r]; [apply le_n|]. cbn [id_skip_go].
  destruct (is_b1 c) eqn:Eb.
  - rewrite (span_snd_true _ _ _ Eb). eapply Nat.le_trans; [apply IH|]. pose proof (span_snd_len is_b1 r). cbn [String.length]. lia.
  - destruct (Ascii.eqb c c_nl) eqn:E1.
    + apply Ascii.eqb_eq in E1. subst c. rewrite skip0_nl. eapply Nat.le_trans; [apply IH|]. pose proof (skip0_len r). cbn [String.length]. lia.
    + destruct (Ascii.eqb c c_cr) eqn:E2; [|apply le_n]. destruct r as [|c2 r2]; [apply le_n|].
      destruct (Ascii.eqb c2 c_nl) eqn:E3; [|apply le_n].
      apply Ascii.eqb_eq in E2, E3. subst c c2. rewrite skip0_crnl. eapply Nat.le_trans; [apply IH|]. pose proof (skip0_len r2). cbn [String.length]. lia.
Qed.
Lemma id_skip_go_S : forall f c r, id_skip_go (S f) (String c r) =
  if is_b1 c then id_skip_go f (snd (span is_b1 (String c r)))
  else if Ascii.eqb c c_nl then id_skip_go f (skip0 (String c r))
  else if Ascii.eqb c c_cr then
    match r with String c2 _ => if Ascii.eqb c2 c_nl then id_skip_go f (skip0 (String c r)) else String c r | EmptyString => String c r end
  else String c r.
Proof. reflexivity. Qed.
Lemma id_skip_len : forall s, String.length (id_skip s) <= String.length s.
Proof. intro s. apply id_skip_go_len. Qed.
Lemma id_skip_stop : forall X, stops is_ws X = true -> id_skip X = X.
Proof. intros X H. apply id_skip_go_stop, H. Qed.
Lemma id_skip_b1 : forall c r, is_b1 c = true -> id_skip (String c r) = id_skip (snd (span is_b1 r)).
Proof.
  intros c r H. unfold id_skip. cbn [String.length]. rewrite id_skip_go_S, H, (span_snd_true _ _ _ H).
  pose proof (span_snd_len is_b1 r). apply id_skip_go_fuel; lia.
Qed.
Lemma id_skip_nl : forall r, id_skip (String c_nl r) = id_skip (skip0 r).
Proof.
  intro r. unfold id_skip. cbn [String.length]. rewrite id_skip_go_S. change (is_b1 c_nl) with false. change (Ascii.eqb c_nl c_nl) with true. cbv iota.
  rewrite skip0_nl. pose proof (skip0_len r). apply id_skip_go_fuel; lia.
Qed.
Lemma id_skip_crnl : forall r, id_skip (String c_cr (String c_nl r)) = id_skip (skip0 r).
Proof.
  intro r. unfold id_skip. cbn [String.length]. rewrite id_skip_go_S. change (is_b1 c_cr) with false. change (Ascii.eqb c_cr c_nl) with false.
  change (Ascii.eqb c_cr c_cr) with true. change (Ascii.eqb c_nl c_nl) with true. cbv iota.
  rewrite skip0_crnl. pose proof (skip0_len r). apply id_skip_go_fuel; lia.
Qed.
Lemma id_skip_span_b1 : forall X, id_skip (snd (span is_b1 X)) = id_skip X.
Proof.
  intros [|c r]; [reflexivity|]. destruct (is_b1 c) eqn:E.
  - now rewrite (span_snd_true _ _ _ E), (id_skip_b1 _ _ E).
  - cbn [span]. now rewrite E.
Qed.

(** *** ignored text in front of a name, EXACTLY: what the scanner of a name state has left of [sep_text s ++ X] when it stops skipping.
    [nl]: IGNORE_0 is running.  A comment met while it is not running is not skipped (it is lexed as a name). *)
Fixpoint id_tail (nl : bool) (s : sep) (X : string) : string :=
  match s with
  | [] => id_skip (if nl then skip0 X else X)
  | IgComment b :: r => if nl then id_tail true r X else (sep_text s ++ X)%string
  | i :: r => id_tail (ign0 i) r X
  end.
Lemma sep_cons_comment : forall b r X, (sep_text (IgComment b :: r) ++ X)%string = String c_slash (String c_slash (b ++ nl1 ++ (sep_text r ++ X)))%string.
Proof. intros b r X. cbn [sep_text ign_text]. rewrite !sapp_assoc. reflexivity. Qed.
Lemma id_skip_sep_gen : forall s X, sep_ok s = true ->
  id_skip (sep_text s ++ X)%string = id_tail false s X /\
  id_skip (snd (span is_b1 (sep_text s ++ X)%string)) = id_tail false s X /\
  id_skip (skip0 (sep_text s ++ X)%string) = id_tail true s X.
Proof.
  intros s X. induction s as [|i r IH]; intro Hs.
  - cbn [sep_text append id_tail]. split; [reflexivity|]. split; [apply id_skip_span_b1 | reflexivity].
  - unfold sep_ok in Hs. cbn [forallb] in Hs. apply andb_true_iff in Hs. destruct Hs as [Hi Hr].
    destruct (IH Hr) as [I1 [I2 I3]]. set (T := (sep_text r ++ X)%string) in *.
    assert (B1 : forall c, is_b1 c = true -> skip0 (String c T) = String c T ->
                 id_skip (String c T) = id_tail false r X /\ id_skip (snd (span is_b1 (String c T))) = id_tail false r X /\
                 id_skip (skip0 (String c T)) = id_tail false r X).
    { intros c Hc Hk. rewrite Hk, (span_snd_true _ _ _ Hc), (id_skip_b1 _ _ Hc). auto. }
    destruct i as [| | | | |b].
    + change (sep_text (IgSpace :: r) ++ X)%string with (String c_sp T). cbn [id_tail ign0]. apply B1; reflexivity.
    + change (sep_text (IgTab :: r) ++ X)%string with (String c_tab T). cbn [id_tail ign0]. apply B1; reflexivity.
    + change (sep_text (IgFf :: r) ++ X)%string with (String c_ff T). cbn [id_tail ign0]. apply B1; reflexivity.
    + change (sep_text (IgNl :: r) ++ X)%string with (String c_nl T). cbn [id_tail ign0].
      change (snd (span is_b1 (String c_nl T))) with (String c_nl T). rewrite skip0_nl, id_skip_nl. auto.
    + change (sep_text (IgCrNl :: r) ++ X)%string with (String c_cr (String c_nl T)). cbn [id_tail ign0].
      change (snd (span is_b1 (String c_cr (String c_nl T)))) with (String c_cr (String c_nl T)). rewrite skip0_crnl, id_skip_crnl. auto.
    + cbn [ign_ok] in Hi. cbn [id_tail]. rewrite sep_cons_comment. fold T.
      change (snd (span is_b1 (String c_slash (String c_slash (b ++ nl1 ++ T)%string)))) with (String c_slash (String c_slash (b ++ nl1 ++ T)%string)).
      rewrite (id_skip_stop (String c_slash (String c_slash (b ++ nl1 ++ T)%string)) eq_refl).
      split; [reflexivity|]. split; [reflexivity|].
      change (skip0 (String c_slash (String c_slash (b ++ nl1 ++ T)%string))) with (skip_go false true (b ++ nl1 ++ T)%string).
      rewrite (skip_comment false b T Hi). exact I3.
Qed.
Lemma id_tail_ok : forall s nl X, cm_ok nl s = true -> id_tail nl s X = id_skip (if ends0 nl s then skip0 X else X).
Proof.
  induction s as [|i r IH]; intros nl X H; [reflexivity|].
  destruct i; cbn [cm_ok ign0] in H; cbn [id_tail ends0 ign0]; try (apply IH, H).
  apply andb_true_iff in H. destruct H as [Hn H]. subst nl. apply IH, H.
Qed.
Lemma id_tail_bad : forall s nl X, cm_ok nl s = false ->
  exists p b r, s = p ++ IgComment b :: r /\ id_tail nl s X = (sep_text (IgComment b :: r) ++ X)%string.
Proof.
  induction s as [|i r IH]; intros nl X H; [discriminate H|].
  assert (Hrec : forall m, cm_ok m r = false -> exists p b r', i :: r = p ++ IgComment b :: r' /\ id_tail m r X = (sep_text (IgComment b :: r') ++ X)%string).
  { intros m Hm. destruct (IH m X Hm) as [p [b [r' [E1 E2]]]]. exists (i :: p), b, r'. split; [now rewrite E1 | exact E2]. }
  destruct i; cbn [cm_ok ign0] in H; cbn [id_tail ign0]; try (apply Hrec, H).
  destruct nl; cbn [andb] in H.
  - apply Hrec, H.
  - exists [], body, r. split; reflexivity.
Qed.
Lemma skip0_stop : forall X, stops is_ws X = true -> slash2 X = false -> skip0 X = X.
Proof.
  intros [|c t] Hw Hs; [reflexivity|]. cbn [stops] in Hw. apply negb_true_iff in Hw. unfold skip0. cbn [skip_go andb orb].
  destruct (Ascii.eqb c c_nl) eqn:E1; [apply Ascii.eqb_eq in E1; subst c; discriminate Hw|].
  destruct (Ascii.eqb c c_cr) eqn:E2; [apply Ascii.eqb_eq in E2; subst c; discriminate Hw|].
  destruct (Ascii.eqb c c_slash) eqn:E3; [|reflexivity]. destruct t as [|d t']; [reflexivity|].
  cbn [slash2] in Hs. rewrite E3 in Hs. cbn [andb] in Hs. now rewrite Hs.
Qed.
Lemma idsep_sep_ok : forall s, idsep_ok s = true -> sep_ok s = true.
Proof. intros s H. unfold idsep_ok in H. apply andb_true_iff in H. tauto. Qed.
Lemma aftsep_sep_ok : forall s, aftsep_ok s = true -> sep_ok s = true.
Proof. intros s H. unfold aftsep_ok in H. apply andb_true_iff in H. tauto. Qed.
(* the separator is skipped, the scanner arrives at X *)
Lemma id_skip_sep : forall s X, idsep_ok s = true -> stops is_ws X = true -> ends0 false s && slash2 X = false ->
  id_skip (sep_text s ++ X)%string = X.
Proof.
  intros s X Hs HX Hsl. unfold idsep_ok in Hs. apply andb_true_iff in Hs. destruct Hs as [Hok Hcm].
  rewrite (proj1 (id_skip_sep_gen s X Hok)), (id_tail_ok _ _ _ Hcm).
  destruct (ends0 false s); [|apply id_skip_stop, HX]. cbn [andb] in Hsl. rewrite (skip0_stop _ HX Hsl). apply id_skip_stop, HX.
Qed.
(* CONVERSE 1: a comment that does not directly follow a line break or comment is NOT skipped: the scanner stops in front of it *)
Lemma id_skip_sep_bad : forall s X, sep_ok s = true -> cm_ok false s = false ->
  exists p b r, s = p ++ IgComment b :: r /\ id_skip (sep_text s ++ X)%string = (sep_text (IgComment b :: r) ++ X)%string.
Proof.
  intros s X Hok Hcm. destruct (id_tail_bad s false X Hcm) as [p [b [r [E1 E2]]]]. exists p, b, r. split; [exact E1|].
  now rewrite (proj1 (id_skip_sep_gen s X Hok)).
Qed.
Lemma sep_comment_len : forall b r X, String.length X < String.length (sep_text (IgComment b :: r) ++ X)%string.
Proof. intros b r X. rewrite sep_cons_comment. cbn [String.length]. rewrite !slen_app. lia. Qed.
Theorem id_skip_sep_iff : forall s X, sep_ok s = true -> stops is_ws X = true -> ends0 false s && slash2 X = false ->
  (id_skip (sep_text s ++ X)%string = X <-> idsep_ok s = true).
Proof.
  intros s X Hok HX Hsl. split.
  - intro E. unfold idsep_ok. rewrite Hok. cbn [andb]. destruct (cm_ok false s) eqn:Hcm; [reflexivity|]. exfalso.
    destruct (id_skip_sep_bad s X Hok Hcm) as [p [b [r [_ E2]]]]. rewrite E in E2.
    pose proof (sep_comment_len b r X) as L. rewrite <- E2 in L. lia.
  - intro H. apply id_skip_sep; assumption.
Qed.
(* CONVERSE 2: where the separator ends with a line break or comment, a following `//` is one more comment: it is skipped too *)
Lemma id_skip_sep_slash : forall s X, idsep_ok s = true -> ends0 false s = true ->
  id_skip (sep_text s ++ X)%string = id_skip (skip0 X).
Proof.
  intros s X Hs He. unfold idsep_ok in Hs. apply andb_true_iff in Hs. destruct Hs as [Hok Hcm].
  now rewrite (proj1 (id_skip_sep_gen s X Hok)), (id_tail_ok _ _ _ Hcm), He.
Qed.
Lemma skip0_slash_len : forall X, slash2 X = true -> String.length (skip0 X) + 2 <= String.length X.
Proof.
  intros [|c [|d t]] H; try discriminate H. cbn [slash2] in H. apply andb_true_iff in H. destruct H as [H1 H2].
  apply Ascii.eqb_eq in H1, H2. subst c d.
  change (skip0 (String c_slash (String c_slash t))) with (skip_go false true t). pose proof (skip_go_len false _ t true (le_n _)).
  cbn [String.length]. lia.
Qed.

Lemma idsep_name_end : forall s X, idsep_ok s = true -> s <> [] -> name_end (sep_text s ++ X)%string = true.
Proof.
  intros [|i r] X Hs Hne; [congruence|]. unfold idsep_ok in Hs. apply andb_true_iff in Hs. destruct Hs as [_ Hs].
  destruct i; try reflexivity. discriminate Hs.
Qed.
Lemma aftsep_name_end0 : forall s X, aftsep_ok s = true -> name_end X = true -> name_end (sep_text s ++ X)%string = true.
Proof.
  intros [|i r] X Hs HX; [exact HX|]. unfold aftsep_ok in Hs. destruct i; try reflexivity. rewrite andb_false_r in Hs. discriminate Hs.
Qed.
(* the narrow conditions of the first version (a blank, then blanks / tabs / form feeds only; after a name nothing or ignored text that
   begins with a blank; a blank or parenthesis after a name) are special cases *)
Definition idsep_ok_v1 (s : sep) : bool := match s with IgSpace :: r => forallb b1_only r | _ => false end.
Definition aftsep_ok_v1 (s : sep) : bool := match s with [] => true | IgSpace :: r => sep_ok r | _ => false end.
Definition name_end_v1 (s : string) : bool := match s with String c _ => is_paren c || Ascii.eqb c c_sp | EmptyString => true end.
Lemma b1_only_wide : forall r nl, forallb b1_only r = true -> sep_ok r = true /\ cm_ok nl r = true /\ ends0 false r = false.
Proof.
  induction r as [|i r IH]; intros nl H; [repeat split|]. cbn [forallb] in H. apply andb_true_iff in H. destruct H as [Hi Hr].
  destruct (IH false Hr) as [H1 [H2 H3]].
  destruct i; try discriminate Hi; unfold sep_ok; cbn [forallb ign_ok andb cm_ok ends0 ign0]; repeat split; assumption.
Qed.
Lemma idsep_ok_v1_wide : forall s, idsep_ok_v1 s = true -> idsep_ok s = true /\ ends0 false s = false /\ s <> [].
Proof.
  intros [|i r] H; [discriminate H|]. destruct i; try discriminate H. cbn [idsep_ok_v1] in H.
  destruct (b1_only_wide r false H) as [H1 [H2 H3]]. unfold idsep_ok, sep_ok in *. cbn [forallb ign_ok andb cm_ok ends0 ign0].
  rewrite H1, H2. repeat split; [exact H3 | discriminate].
Qed.
Lemma bef_ok_v1_wide : forall s n, idsep_ok_v1 s = true -> bef_ok s n = true.
Proof. intros s n H. destruct (idsep_ok_v1_wide s H) as [H1 [H2 _]]. unfold bef_ok. now rewrite H1, H2. Qed.
Lemma touch_ok_v1_wide : forall o a s b, idsep_ok_v1 s = true -> touch_ok o a s b = true.
Proof. intros o a [|i r] b H; [discriminate H | reflexivity]. Qed.
Lemma aftsep_ok_v1_wide : forall s, aftsep_ok_v1 s = true -> aftsep_ok s = true.
Proof.
  intros [|i r] H; [reflexivity|]. destruct i; try discriminate H. cbn [aftsep_ok_v1] in H. unfold aftsep_ok, sep_ok in *. cbn [forallb ign_ok andb]. now rewrite H.
Qed.
Lemma aft_ok_v1_wide : forall o n s, aftsep_ok_v1 s = true -> aft_ok o n s = true.
Proof. intros o n s H. unfold aft_ok. rewrite (aftsep_ok_v1_wide s H), (aftsep_sep_ok _ (aftsep_ok_v1_wide s H)). apply orb_true_r. Qed.
Lemma name_end_v1_wide : forall s, name_end_v1 s = true -> name_end s = true.
Proof.
  intros [|c t] H; [reflexivity|]. cbn [name_end_v1 name_end] in *. apply orb_true_iff in H. destruct H as [H|H]; [now rewrite H|].
  apply Ascii.eqb_eq in H. subst c. reflexivity.
Qed.

Lemma sapp_cancel : forall a x : string, (a ++ x)%string = a -> x = EmptyString.
Proof. induction a as [|c a IH]; intros x H; [exact H|]. cbn [append] in H. inversion H. auto. Qed.
Lemma span_app_gen : forall p a rest, sall p a = true -> span p (a ++ rest)%string = ((a ++ fst (span p rest))%string, snd (span p rest)).
Proof.
  induction a as [|c a IH]; intros rest Ha; [cbn [append]; now destruct (span p rest)|].
  unfold sall in Ha. cbn [str_forall] in Ha. apply andb_true_iff in Ha. destruct Ha as [Hc Ha].
  cbn [append span]. rewrite Hc, (IH _ Ha). reflexivity.
Qed.
Lemma span_fst_nil : forall p s, fst (span p s) = EmptyString -> stops p s = true.
Proof. intros p [|c r] H; [reflexivity|]. cbn [span stops] in *. destruct (p c); [|reflexivity]. destruct (span p r). discriminate H. Qed.

Section Names.
  Variables (o cl : ascii) (inner plain : ascii -> bool).
  Hypothesis inner_cl : forall c, inner c = false -> c = cl.
  Hypothesis o_not_ws : is_ws o = false.
  Hypothesis o_not_slash : Ascii.eqb o c_slash = false.
  Hypothesis o_not_plain : plain o = false.
  Hypothesis plain_end : forall c, is_paren c || is_ws c = true -> plain c = false.
  Hypothesis plain_slash : plain c_slash = true.
  Lemma plain_ws : forall c, plain c = true -> is_ws c = false.
  Proof. intros c H. destruct (is_ws c) eqn:E; [|reflexivity]. rewrite plain_end in H; [discriminate H | now rewrite E, orb_true_r]. Qed.
  Lemma name_end_stops : forall X, name_end X = true -> stops plain X = true.
  Proof. intros [|c t] H; [reflexivity|]. cbn [name_end stops] in *. now rewrite (plain_end _ H). Qed.
  Definition wf_tok (s : string) : bool :=
    match s with
    | String c r => if Ascii.eqb c o then wf_wrapped inner r else sall plain s && negb (is_b1 c)
    | EmptyString => false
    end.
  (* the scanner arrives at the name *)
  Lemma id_skip_tok : forall s n rest, bef_ok s n = true -> wf_tok n = true -> opens o n || stops plain rest = true ->
    id_skip (sep_text s ++ n ++ rest)%string = (n ++ rest)%string.
  Proof.
    intros s [|c r] rest Hs Hn Hr; [discriminate Hn|]. unfold bef_ok in Hs. apply andb_true_iff in Hs. destruct Hs as [Hs Hsl].
    apply negb_true_iff in Hsl. cbn [wf_tok opens] in Hn, Hr. cbn [append]. destruct (Ascii.eqb c o) eqn:Eo.
    - apply Ascii.eqb_eq in Eo. subst c. apply id_skip_sep; [exact Hs | cbn [stops]; now rewrite o_not_ws|].
      cbn [slash2]. destruct (r ++ rest)%string; [apply andb_false_r | rewrite o_not_slash; apply andb_false_r].
    - cbn [orb] in Hr. apply andb_true_iff in Hn. destruct Hn as [Hp _].
      assert (Hc : plain c = true) by (unfold sall in Hp; cbn [str_forall] in Hp; apply andb_true_iff in Hp; tauto).
      apply id_skip_sep; [exact Hs | cbn [stops]; now rewrite (plain_ws _ Hc)|].
      destruct (ends0 false s); [|reflexivity]. cbn [andb] in *.
      destruct r as [|d r']; [|exact Hsl]. cbn [append slash2]. destruct rest as [|d t]; [reflexivity|].
      cbn [stops] in Hr. apply negb_true_iff in Hr.
      destruct (Ascii.eqb d c_slash) eqn:Ed; [|apply andb_false_r]. apply Ascii.eqb_eq in Ed. subst d. rewrite plain_slash in Hr. discriminate Hr.
  Qed.
  Lemma scan_name_tok : forall s n rest, bef_ok s n = true -> wf_tok n = true -> opens o n || stops plain rest = true ->
    scan_name o cl inner plain (sep_text s ++ n ++ rest)%string = Some (n, rest).
  Proof.
    intros s n rest Hs Hn Hr. unfold scan_name. rewrite (id_skip_tok s n rest Hs Hn Hr).
    destruct n as [|c r]; [discriminate Hn|]. cbn [wf_tok opens] in Hn, Hr. cbn [append]. destruct (Ascii.eqb c o) eqn:Eo.
    - apply Ascii.eqb_eq in Eo. subst c. unfold wf_wrapped in Hn.
      destruct (span inner r) as [a b] eqn:E. destruct a as [|x a']; [discriminate Hn|].
      destruct b as [|c2 b']; [discriminate Hn|]. destruct b'; [|discriminate Hn].
      destruct (span_eq _ _ _ _ E) as [Er [_ Hst]]. cbn [stops] in Hst. apply negb_true_iff in Hst. apply inner_cl in Hst. subst c2.
      rewrite (span_app_stop _ _ _ _ _ rest E). cbn [append]. now rewrite Er.
    - cbn [orb] in Hr. apply andb_true_iff in Hn. destruct Hn as [Hp Hb].
      assert (Hc : plain c = true) by (unfold sall in Hp; cbn [str_forall] in Hp; apply andb_true_iff in Hp; tauto).
      rewrite Hc. change (String c (r ++ rest)%string) with (String c r ++ rest)%string.
      rewrite (span_app _ _ _ Hp Hr). reflexivity.
  Qed.
  (* EXACT for the plain form: the name runs on over every following plain character; it ends where written iff a non-plain character follows *)
  Lemma scan_name_plain : forall s n rest, idsep_ok s = true -> wf_tok n = true -> opens o n = false ->
    ends0 false s && slash2 (n ++ rest) = false ->
    scan_name o cl inner plain (sep_text s ++ n ++ rest)%string = Some ((n ++ fst (span plain rest))%string, snd (span plain rest)).
  Proof.
    intros s [|c r] rest Hs Hn Ho Hsl; [discriminate Hn|]. cbn [wf_tok opens] in Hn, Ho. rewrite Ho in Hn.
    apply andb_true_iff in Hn. destruct Hn as [Hp _].
    assert (Hc : plain c = true) by (unfold sall in Hp; cbn [str_forall] in Hp; apply andb_true_iff in Hp; tauto).
    assert (Hst : stops is_ws (String c r ++ rest)%string = true) by (cbn [append stops]; now rewrite (plain_ws _ Hc)).
    unfold scan_name. rewrite (id_skip_sep s _ Hs Hst Hsl).
    cbn [append]. rewrite Ho, Hc. change (String c (r ++ rest)%string) with (String c r ++ rest)%string.
    now rewrite (span_app_gen _ _ rest Hp).
  Qed.
  Lemma scan_name_plain_iff : forall s n rest, idsep_ok s = true -> wf_tok n = true -> opens o n = false ->
    ends0 false s && slash2 (n ++ rest) = false ->
    (scan_name o cl inner plain (sep_text s ++ n ++ rest)%string = Some (n, rest) <-> stops plain rest = true).
  Proof.
    intros s n rest Hs Hn Ho Hsl. rewrite (scan_name_plain s n rest Hs Hn Ho Hsl). split.
    - intro E. injection E as E1 E2. apply span_fst_nil. exact (sapp_cancel _ _ E1).
    - intro H. destruct rest as [|d t]; [cbn [span fst snd]; now rewrite sapp_nil_r|].
      cbn [stops] in H. apply negb_true_iff in H. cbn [span]. rewrite H. cbn [fst snd]. now rewrite sapp_nil_r.
  Qed.
  (* CONVERSE 1 at the name: the misplaced comment is lexed as (the beginning of) a name *)
  Lemma scan_name_comment : forall s X, sep_ok s = true -> cm_ok false s = false ->
    exists n r, scan_name o cl inner plain (sep_text s ++ X)%string = Some (n, r) /\ slash2 n = true.
  Proof.
    intros s X Hok Hcm. destruct (id_skip_sep_bad s X Hok Hcm) as [p [b [r [_ E]]]]. unfold scan_name. rewrite E, sep_cons_comment.
    assert (Eo : Ascii.eqb c_slash o = false) by (rewrite Ascii.eqb_sym; exact o_not_slash). rewrite Eo, plain_slash.
    cbn [span]. rewrite plain_slash. destruct (span plain (b ++ nl1 ++ sep_text r ++ X)%string) as [a t]. eexists. eexists. split; reflexivity.
  Qed.
  (* CONVERSE 2 at the name: after a separator that ends with a line break or comment, a name written with `//` in front is NOT read *)
  Lemma scan_name_len : forall Y n r, scan_name o cl inner plain Y = Some (n, r) -> String.length n + String.length r <= String.length Y.
  Proof.
    intros Y n r H. unfold scan_name in H. pose proof (id_skip_len Y) as L. destruct (id_skip Y) as [|c t]; [discriminate H|].
    destruct (Ascii.eqb c o).
    - destruct (span inner t) as [[|x b] [|c2 r2]] eqn:E; try discriminate H. inversion H; subst.
      destruct (span_eq _ _ _ _ E) as [Et _]. subst t. cbn [String.length append] in *. rewrite !slen_app in *. cbn [String.length] in *. lia.
    - destruct (plain c); [|discriminate H]. destruct (span plain (String c t)) as [a b] eqn:E. inversion H; subst.
      destruct (span_eq _ _ _ _ E) as [Et _]. rewrite Et, slen_app in L. lia.
  Qed.
  Lemma scan_name_slash_lost : forall s n rest, idsep_ok s = true -> ends0 false s = true -> slash2 (n ++ rest) = true ->
    scan_name o cl inner plain (sep_text s ++ n ++ rest)%string <> Some (n, rest).
  Proof.
    intros s n rest Hs He Hsl E. unfold scan_name in E. rewrite (id_skip_sep_slash s _ Hs He) in E.
    pose proof (skip0_slash_len _ Hsl) as L1. pose proof (id_skip_len (skip0 (n ++ rest))) as L2. rewrite slen_app in L1.
    destruct (id_skip (skip0 (n ++ rest))) as [|c t]; [discriminate E|].
    destruct (Ascii.eqb c o).
    - destruct (span inner t) as [[|x b] [|c2 r2]] eqn:E2; try discriminate E. inversion E; subst.
      destruct (span_eq _ _ _ _ E2) as [Et _]. subst t. cbn [String.length append] in *. rewrite !slen_app in *. cbn [String.length] in *. lia.
    - destruct (plain c); [|discriminate E]. destruct (span plain (String c t)) as [a b] eqn:E2. inversion E; subst.
      destruct (span_eq _ _ _ _ E2) as [Et _]. rewrite Et, slen_app in L2. lia.
  Qed.
  (* what follows a name inside the concrete syntax *)
  Lemma touch_end : forall a s b R, idsep_ok s = true -> touch_ok o a s b = true -> opens o a || stops plain (sep_text s ++ b ++ R)%string = true.
  Proof.
    intros a [|i r] b R Hs Ht.
    - cbn [touch_ok] in Ht. apply orb_true_iff in Ht. destruct Ht as [Ht|Ht]; [now rewrite Ht|]. apply orb_true_iff. right.
      destruct b as [|c t]; [discriminate Ht|]. cbn [opens] in Ht. apply Ascii.eqb_eq in Ht. subst c. cbn [sep_text append stops]. now rewrite o_not_plain.
    - apply orb_true_iff. right. apply name_end_stops, idsep_name_end; [exact Hs | discriminate].
  Qed.
  Lemma aft_end : forall n s X, aft_ok o n s = true -> name_end X = true -> opens o n || stops plain (sep_text s ++ X)%string = true.
  Proof.
    intros n s X H HX. unfold aft_ok in H. apply andb_true_iff in H. destruct H as [_ H]. apply orb_true_iff in H. destruct H as [H|H]; [now rewrite H|].
    apply orb_true_iff. right. apply name_end_stops, aftsep_name_end0; assumption.
  Qed.
End Names.

Lemma not_quote_cl : forall c, not_quote c = false -> c = c_quote.
Proof. intros c H. unfold not_quote in H. apply negb_false_iff, Ascii.eqb_eq in H. exact H. Qed.
Lemma not_rpar_cl : forall c, not_rpar c = false -> c = c_rpar.
Proof. intros c H. unfold not_rpar in H. apply negb_false_iff, Ascii.eqb_eq in H. exact H. Qed.
Lemma ide_char_end : forall c, is_paren c || is_ws c = true -> ide_char c = false.
Proof. intros c H. unfold ide_char. now rewrite H. Qed.
Lemma id_char_end : forall c, is_paren c || is_ws c = true -> id_char c = false.
Proof. intros c H. unfold id_char. now rewrite (ide_char_end _ H). Qed.
Lemma ide_char_ws : forall c, ide_char c = true -> is_ws c = false.
Proof. intros c H. unfold ide_char in H. apply negb_true_iff, orb_false_iff in H. tauto. Qed.
Lemma id_char_ws : forall c, id_char c = true -> is_ws c = false.
Proof. intros c H. unfold id_char in H. apply andb_true_iff in H. apply ide_char_ws. tauto. Qed.
(* for ID_OR_EDGE "a parenthesis or white space follows" is exactly "the plain name ends here" *)
Lemma name_end_ide : forall X, name_end X = stops ide_char X.
Proof. intros [|c t]; [reflexivity|]. cbn [name_end stops]. unfold ide_char. now rewrite negb_involutive. Qed.
Lemma scan_id_tok : forall s n rest, bef_ok s n = true -> wf_id n = true -> opens c_quote n || stops id_char rest = true ->
  scan_id (sep_text s ++ n ++ rest)%string = Some (n, rest).
Proof. intros s n rest. exact (scan_name_tok c_quote c_quote not_quote id_char not_quote_cl eq_refl eq_refl id_char_end eq_refl s n rest). Qed.
Lemma scan_ide_tok : forall s n rest, bef_ok s n = true -> wf_ide n = true -> opens c_lpar n || stops ide_char rest = true ->
  scan_ide (sep_text s ++ n ++ rest)%string = Some (n, rest).
Proof. intros s n rest. exact (scan_name_tok c_lpar c_rpar not_rpar ide_char not_rpar_cl eq_refl eq_refl ide_char_end eq_refl s n rest). Qed.

(** *** the conditions are EXACT (scanner level, ID and ID_OR_EDGE alike) *)
(* a comment that is first in the separator or directly follows a blank / tab / form feed is lexed as a name that begins with `//` *)
Theorem scan_id_comment : forall s X, sep_ok s = true -> cm_ok false s = false ->
  exists n r, scan_id (sep_text s ++ X)%string = Some (n, r) /\ slash2 n = true.
Proof. intros s X. exact (scan_name_comment c_quote c_quote not_quote id_char eq_refl eq_refl s X). Qed.
Theorem scan_ide_comment : forall s X, sep_ok s = true -> cm_ok false s = false ->
  exists n r, scan_ide (sep_text s ++ X)%string = Some (n, r) /\ slash2 n = true.
Proof. intros s X. exact (scan_name_comment c_lpar c_rpar not_rpar ide_char eq_refl eq_refl s X). Qed.
(* a plain name ends exactly where a character outside its class follows: ( ) or white space (for ID also the double quote) *)
Theorem scan_id_plain_iff : forall s n rest, idsep_ok s = true -> wf_id n = true -> opens c_quote n = false ->
  ends0 false s && slash2 (n ++ rest) = false ->
  (scan_id (sep_text s ++ n ++ rest)%string = Some (n, rest) <-> stops id_char rest = true).
Proof. intros s n rest. exact (scan_name_plain_iff c_quote c_quote not_quote id_char id_char_end s n rest). Qed.
Theorem scan_ide_plain_iff : forall s n rest, idsep_ok s = true -> wf_ide n = true -> opens c_lpar n = false ->
  ends0 false s && slash2 (n ++ rest) = false ->
  (scan_ide (sep_text s ++ n ++ rest)%string = Some (n, rest) <-> name_end rest = true).
Proof. intros s n rest H1 H2 H3 H4. rewrite name_end_ide. exact (scan_name_plain_iff c_lpar c_rpar not_rpar ide_char ide_char_end s n rest H1 H2 H3 H4). Qed.
(* in particular a comment directly after a plain name belongs to the name *)
Lemma comment_after_name : forall s n b r rest, idsep_ok s = true -> wf_id n = true -> opens c_quote n = false ->
  ends0 false s && slash2 (n ++ sep_text (IgComment b :: r) ++ rest) = false ->
  scan_id (sep_text s ++ n ++ sep_text (IgComment b :: r) ++ rest)%string <> Some (n, (sep_text (IgComment b :: r) ++ rest)%string).
Proof.
  intros s n b r rest H1 H2 H3 H4 E. apply (scan_id_plain_iff s n _ H1 H2 H3 H4) in E. rewrite sep_cons_comment in E. discriminate E.
Qed.
(* after a separator that ends with a line break or a comment, a name that begins with `//` is taken for one more comment *)
Theorem scan_id_slash_lost : forall s n rest, idsep_ok s = true -> ends0 false s = true -> slash2 (n ++ rest) = true ->
  scan_id (sep_text s ++ n ++ rest)%string <> Some (n, rest).
Proof. intros s n rest. exact (scan_name_slash_lost c_quote c_quote not_quote id_char s n rest). Qed.
Theorem scan_ide_slash_lost : forall s n rest, idsep_ok s = true -> ends0 false s = true -> slash2 (n ++ rest) = true ->
  scan_ide (sep_text s ++ n ++ rest)%string <> Some (n, rest).
Proof. intros s n rest. exact (scan_name_slash_lost c_lpar c_rpar not_rpar ide_char s n rest). Qed.

(** ** the loops *)
Lemma items_len {Y} (f : Y -> string) : (forall y, 1 <= String.length (f y)) ->
  forall l, List.length l <= String.length (items_text f l).
Proof.
  intros Hf. induction l as [|[s y] l IH]; [apply le_n|].
  cbn [items_text List.length]. rewrite !slen_app. specialize (Hf y). lia.
Qed.
Lemma items_ok_cons {Y} (ok : Y -> bool) s y l :
  items_ok ok ((s, y) :: l) = true <-> sep_ok s = true /\ ok y = true /\ items_ok ok l = true.
Proof. unfold items_ok. cbn [forallb fst snd]. rewrite !andb_true_iff. tauto. Qed.

Lemma loop_complete {X Y} (item : string -> option (list X * string)) (f : Y -> string) (ok : Y -> bool) (abs : Y -> list X) :
  (forall y rest, ok y = true -> item (f y ++ rest)%string = Some (abs y, rest)) ->
  (forall y, ok y = true -> exists r, f y = String c_lpar r) ->
  forall l sf fuel rest, items_ok ok l = true -> sep_ok sf = true -> List.length l < fuel ->
    loop item fuel (items_text f l ++ sep_text sf ++ ")" ++ rest)%string = Some (flat_map (fun p => abs (snd p)) l, rest).
Proof.
  intros Hitem Hpar. induction l as [|[s y] l IH]; intros sf fuel rest Hl Hsf Hfuel.
  - destruct fuel as [|fu]; [inversion Hfuel|]. cbn [items_text append loop flat_map].
    rewrite (skip_sep_rpar _ _ Hsf). reflexivity.
  - apply items_ok_cons in Hl. destruct Hl as [Hs [Hy Hl]].
    destruct fuel as [|fu]; [inversion Hfuel|]. cbn [List.length] in Hfuel.
    destruct (Hpar _ Hy) as [r Er].
    cbn [items_text flat_map snd]. rewrite !sapp_assoc. cbn [loop].
    set (R := (items_text f l ++ sep_text sf ++ ")" ++ rest)%string) in *.
    assert (E1 : skip_ign (sep_text s ++ f y ++ R)%string = (f y ++ R)%string).
    { rewrite Er. cbn [append]. exact (skip_sep_lpar _ _ Hs). }
    rewrite E1.
    assert (E2 : drop_prefix ")" (f y ++ R)%string = None) by (rewrite Er; reflexivity).
    rewrite E2, (Hitem _ _ Hy). unfold R. rewrite (IH sf fu rest Hl Hsf ltac:(lia)). reflexivity.
Qed.

(** ** numbers and triples *)
Lemma numc_solid : forall c, is_numc c = true -> solid c = true.
Proof.
  intros c H. destruct c as [[|] [|] [|] [|] [|] [|] [|] [|]]; try reflexivity; vm_compute in H; discriminate H.
Qed.
Lemma skip_num_text : forall a e rest, sall is_numc a = true -> solid e = true ->
  skip_ign (a ++ String e rest)%string = (a ++ String e rest)%string.
Proof.
  intros [|c a] e rest Ha He; [exact (skip_solid true e rest He)|].
  unfold sall in Ha. cbn [str_forall] in Ha. apply andb_true_iff in Ha. destruct Ha as [Hc _].
  cbn [append]. exact (skip_solid true c _ (numc_solid _ Hc)).
Qed.
Lemma scan_num_tok : forall endc s a rest, sep_ok s = true -> sall is_numc a = true -> solid endc = true -> is_numc endc = false ->
  scan_num endc (sep_text s ++ a ++ String endc rest)%string = Some (a, rest).
Proof.
  intros endc s a rest Hs Ha He Hn. unfold scan_num.
  rewrite (skip_sep _ _ Hs), (skip_num_text _ _ _ Ha He).
  rewrite (span_app _ _ _ Ha) by (cbn [stops]; now rewrite Hn). now rewrite Ascii.eqb_refl.
Qed.
Lemma drop_rpar_none : forall c r, Ascii.eqb c_rpar c = false -> drop_prefix ")" (String c r) = None.
Proof. intros c r H. cbn [drop_prefix]. change ")"%char with c_rpar. now rewrite H. Qed.
Lemma numc_not_rpar : forall a e rest, sall is_numc a = true -> Ascii.eqb c_rpar e = false ->
  drop_prefix ")" (a ++ String e rest)%string = None.
Proof.
  intros [|c a] e rest Ha He; [exact (drop_rpar_none e rest He)|].
  unfold sall in Ha. cbn [str_forall] in Ha. apply andb_true_iff in Ha. destruct Ha as [Hc _].
  cbn [append]. apply drop_rpar_none.
  destruct c as [[|] [|] [|] [|] [|] [|] [|] [|]]; try reflexivity; vm_compute in Hc; discriminate Hc.
Qed.

Lemma triple_item : forall t rest, ctriple_ok t = true ->
  parse_triple_item (ctriple_text t ++ rest)%string = Some ([ctriple_abs t], rest).
Proof.
  intros [s|s1 a s2 b s3 c] rest H; cbn [ctriple_ok] in H.
  - cbn [ctriple_text]. rewrite !sapp_assoc. cbn [append parse_triple_item].
    change (Ascii.eqb "("%char c_lpar) with true. cbv iota. unfold parse_triple_body.
    rewrite (skip_sep_rpar _ _ H). reflexivity.
  - repeat (apply andb_true_iff in H; destruct H as [H ?]).
    assert (E : (ctriple_text (CT3 s1 a s2 b s3 c) ++ rest)%string =
                String "(" (sep_text s1 ++ a ++ String c_colon (sep_text s2 ++ b ++ String c_colon (sep_text s3 ++ c ++ String c_rpar rest)))%string).
    { cbn [ctriple_text]. rewrite !sapp_assoc. reflexivity. }
    rewrite E. cbn [parse_triple_item].
    change (Ascii.eqb "("%char c_lpar) with true. cbv iota. unfold parse_triple_body.
    rewrite (skip_sep _ _ H).
    rewrite (skip_num_text a c_colon _ H4 eq_refl), (numc_not_rpar a c_colon _ H4 eq_refl).
    rewrite (scan_num_tok c_colon s1 a _ H H4 eq_refl eq_refl).
    rewrite (scan_num_tok c_colon s2 b _ H3 H2 eq_refl eq_refl).
    rewrite (scan_num_tok c_rpar s3 c _ H1 H0 eq_refl eq_refl). reflexivity.
Qed.
Lemma triple_lpar : forall t, exists r, ctriple_text t = String c_lpar r.
Proof. intros [s|s1 a s2 b s3 c]; cbn [ctriple_text append]; eexists; reflexivity. Qed.
Lemma triples_complete : forall ts sf fuel rest, items_ok ctriple_ok ts = true -> sep_ok sf = true -> List.length ts < fuel ->
  parse_triples fuel (items_text ctriple_text ts ++ sep_text sf ++ ")" ++ rest)%string = Some (map (fun p => ctriple_abs (snd p)) ts, rest).
Proof.
  intros ts sf fuel rest H1 H2 H3. unfold parse_triples.
  rewrite (loop_complete parse_triple_item ctriple_text ctriple_ok (fun t => [ctriple_abs t])
             (fun y rest H => triple_item y rest H) (fun y _ => triple_lpar y) ts sf fuel rest H1 H2 H3).
  replace (flat_map (fun p : sep * ctriple => [ctriple_abs (snd p)]) ts) with (map (fun p : sep * ctriple => ctriple_abs (snd p)) ts); [reflexivity|].
  clear. induction ts as [|p ts IH]; [reflexivity|]. cbn [flat_map map app]. now rewrite IH.
Qed.

(** ** entries *)
Lemma ctriple_len : forall t, 1 <= String.length (ctriple_text t).
Proof. intro t. destruct (triple_lpar t) as [r E]. rewrite E. cbn [String.length]. lia. Qed.
(* after the second name: the first separator of what follows, then a parenthesis *)
Lemma first_sep_text {X} (f : X -> string) : (forall x, exists r, f x = String c_lpar r) ->
  forall (l : list (sep * X)) sf rest, exists c t,
    (items_text f l ++ sep_text sf ++ ")" ++ rest)%string = (sep_text (first_sep l sf) ++ String c t)%string /\ is_paren c = true.
Proof.
  intros Hf [|[s x] l] sf rest; cbn [first_sep items_text].
  - exists c_rpar, rest. split; reflexivity.
  - destruct (Hf x) as [t E]. exists c_lpar. eexists. rewrite E, !sapp_assoc. cbn [append]. split; reflexivity.
Qed.
Lemma paren_name_end : forall c t, is_paren c = true -> name_end (String c t) = true.
Proof. intros c t H. cbn [name_end]. now rewrite H. Qed.
Lemma fuel_items {X} (f : X -> string) : (forall x, 1 <= String.length (f x)) ->
  forall (l : list (sep * X)) R, List.length l < fuel_of (items_text f l ++ R)%string.
Proof. intros Hf l R. unfold fuel_of. rewrite slen_app. pose proof (items_len f Hf l). lia. Qed.

Lemma entry_args : forall io s1 a s2 b ts sf rest,
  centry_ok (CE io s1 a s2 b ts sf) = true ->
  parse_entry io (sep_text s1 ++ a ++ sep_text s2 ++ b ++ items_text ctriple_text ts ++ sep_text sf ++ ")" ++ rest)%string
  = Some ([centry_abs (CE io s1 a s2 b ts sf)], rest).
Proof.
  intros io s1 a s2 b ts sf rest H. cbn [centry_ok] in H.
  apply andb_true_iff in H. destruct H as [H Haft]. apply andb_true_iff in H. destruct H as [H Hsf].
  apply andb_true_iff in H. destruct H as [H Hts]. apply andb_true_iff in H. destruct H as [H Hn].
  apply andb_true_iff in H. destruct H as [H Hto]. apply andb_true_iff in H. destruct H as [Hs1 Hs2].
  set (R2 := (items_text ctriple_text ts ++ sep_text sf ++ ")" ++ rest)%string).
  assert (Hi2 : idsep_ok s2 = true) by (unfold bef_ok in Hs2; apply andb_true_iff in Hs2; tauto).
  destruct (first_sep_text ctriple_text triple_lpar ts sf rest) as [pc [pt [ER2 Hpc]]]. fold R2 in ER2.
  assert (Htr : parse_triples (fuel_of R2) R2 = Some (map (fun p => ctriple_abs (snd p)) ts, rest)).
  { unfold R2. apply triples_complete; [exact Hts | exact Hsf | apply (fuel_items ctriple_text ctriple_len)]. }
  unfold parse_entry. destruct io; cbn [open_of] in *; apply andb_true_iff in Hn; destruct Hn as [Ha Hb].
  - rewrite (scan_ide_tok _ _ _ Hs1 Ha (touch_end c_lpar ide_char eq_refl ide_char_end a s2 b R2 Hi2 Hto)).
    assert (HR2 : opens c_lpar b || stops ide_char R2 = true)
      by (rewrite ER2; exact (aft_end c_lpar ide_char ide_char_end b _ _ Haft (paren_name_end _ _ Hpc))).
    rewrite (scan_ide_tok _ _ _ Hs2 Hb HR2), Htr. reflexivity.
  - rewrite (scan_id_tok _ _ _ Hs1 Ha (touch_end c_quote id_char eq_refl id_char_end a s2 b R2 Hi2 Hto)).
    assert (HR2 : opens c_quote b || stops id_char R2 = true)
      by (rewrite ER2; exact (aft_end c_quote id_char id_char_end b _ _ Haft (paren_name_end _ _ Hpc))).
    rewrite (scan_id_tok _ _ _ Hs2 Hb HR2), Htr. reflexivity.
Qed.
Lemma entry_item : forall e rest, centry_ok e = true ->
  parse_entry_item (centry_text e ++ rest)%string = Some ([centry_abs e], rest).
Proof.
  intros [io s1 a s2 b ts sf] rest H. pose proof (entry_args io s1 a s2 b ts sf rest H) as E.
  cbn [centry_text]. rewrite !sapp_assoc. destruct io.
  - unfold parse_entry_item.
    change (drop_prefix "(INTERCONNECT" ("(IOPATH" ++ ?x)%string) with (@None string).
    rewrite drop_prefix_app. exact E.
  - unfold parse_entry_item. rewrite drop_prefix_app. exact E.
Qed.
Lemma entry_lpar : forall e, exists r, centry_text e = String c_lpar r.
Proof. intros [[|] s1 a s2 b ts sf]; cbn [centry_text append]; eexists; reflexivity. Qed.
Lemma centry_len : forall e, 1 <= String.length (centry_text e).
Proof. intro e. destruct (entry_lpar e) as [r E]. rewrite E. cbn [String.length]. lia. Qed.
Lemma flat_map_single {A B} (f : A -> B) l : flat_map (fun p => [f p]) l = map f l.
Proof. induction l as [|p l IH]; [reflexivity|]. cbn [flat_map map app]. now rewrite IH. Qed.
Lemma entries_complete : forall es sf fuel rest, items_ok centry_ok es = true -> sep_ok sf = true -> List.length es < fuel ->
  parse_entries fuel (items_text centry_text es ++ sep_text sf ++ ")" ++ rest)%string = Some (map (fun p => centry_abs (snd p)) es, rest).
Proof.
  intros es sf fuel rest H1 H2 H3. unfold parse_entries.
  rewrite (loop_complete parse_entry_item centry_text centry_ok (fun e => [centry_abs e])
             (fun y rest H => entry_item y rest H) (fun y _ => entry_lpar y) es sf fuel rest H1 H2 H3).
  now rewrite (flat_map_single (fun p : sep * centry => centry_abs (snd p))).
Qed.

(** ** text up to the next parenthesis (_NOB) *)
Lemma paren_cases : forall c, is_paren c = true -> c = c_lpar \/ c = c_rpar.
Proof. intros c H. unfold is_paren in H. apply orb_true_iff in H. destruct H as [H|H]; apply Ascii.eqb_eq in H; auto. Qed.
Lemma skip_go_suffix : forall p b1 n w cm, String.length w <= n -> sall p w = true -> sall p (skip_go b1 cm w) = true.
Proof.
  intros p b1. induction n as [|n IH]; intros w cm Hn Hw.
  - destruct w; [reflexivity | cbn in Hn; lia].
  - destruct w as [|x w']; [reflexivity|]. cbn [String.length] in Hn.
    assert (Hw' : sall p w' = true) by (unfold sall in *; cbn [str_forall] in Hw; apply andb_true_iff in Hw; tauto).
    cbn [skip_go]. destruct cm.
    + destruct (Ascii.eqb x c_nl); apply IH; (lia || assumption).
    + destruct ((b1 && is_b1 x) || Ascii.eqb x c_nl); [apply IH; (lia || assumption)|].
      destruct (Ascii.eqb x c_cr).
      * destruct w' as [|y w'']; [exact Hw|]. destruct (Ascii.eqb y c_nl); [|exact Hw].
        apply IH; [cbn [String.length] in Hn; lia|]. unfold sall in *. cbn [str_forall] in Hw'. apply andb_true_iff in Hw'. tauto.
      * destruct (Ascii.eqb x c_slash); [|exact Hw].
        destruct w' as [|y w'']; [exact Hw|]. destruct (Ascii.eqb y c_slash); [|exact Hw].
        apply IH; [cbn [String.length] in Hn; lia|]. unfold sall in *. cbn [str_forall] in Hw'. apply andb_true_iff in Hw'. tauto.
Qed.
Lemma skip0_app : forall n w cm c r, String.length w <= n -> nob_go cm w = true -> is_paren c = true ->
  skip_go false cm (w ++ String c r)%string = (skip_go false cm w ++ String c r)%string.
Proof.
  induction n as [|n IH]; intros w cm c r Hn Hw Hc.
  - destruct w; [|cbn in Hn; lia]. cbn [nob_go] in Hw. apply negb_true_iff in Hw. subst cm.
    destruct (paren_cases _ Hc); subst c; reflexivity.
  - destruct w as [|x w'].
    + cbn [nob_go] in Hw. apply negb_true_iff in Hw. subst cm. destruct (paren_cases _ Hc); subst c; reflexivity.
    + cbn [String.length] in Hn. cbn [append skip_go nob_go andb orb] in *. destruct cm.
      * destruct (Ascii.eqb x c_nl); apply IH; (lia || assumption).
      * destruct (Ascii.eqb x c_nl); [apply IH; (lia || assumption)|].
        destruct (Ascii.eqb x c_cr).
        { destruct w' as [|y w''].
          - cbn [append]. destruct (paren_cases _ Hc); subst c; reflexivity.
          - cbn [append]. destruct (Ascii.eqb y c_nl); [|reflexivity]. apply IH; [cbn [String.length] in Hn; lia | assumption | assumption]. }
        destruct (Ascii.eqb x c_slash); [|reflexivity].
        destruct w' as [|y w''].
        { cbn [append]. destruct (paren_cases _ Hc); subst c; reflexivity. }
        cbn [append]. destruct (Ascii.eqb y c_slash); [|reflexivity]. apply IH; [cbn [String.length] in Hn; lia | assumption | assumption].
Qed.
Lemma scan_nob_text : forall w c r, sall not_paren w = true -> nob_go false w = true -> is_paren c = true ->
  scan_nob (w ++ String c r)%string = (nonempty (skip0 w), String c r).
Proof.
  intros w c r Hw Hn Hc. unfold scan_nob, skip0.
  rewrite (skip0_app _ w false c r (le_n _) Hn Hc).
  rewrite (span_app not_paren (skip_go false false w) (String c r)).
  - destruct (skip_go false false w); reflexivity.
  - apply (skip_go_suffix _ _ _ _ _ (le_n _) Hw).
  - cbn [stops]. unfold not_paren. now rewrite Hc.
Qed.
Lemma nob_item : forall required w rest, nob_ok required w = true ->
  parse_nob_item required (w ++ ")" ++ rest)%string = Some rest.
Proof.
  intros required w rest H. unfold nob_ok in H. apply andb_true_iff in H. destruct H as [H Hreq]. apply andb_true_iff in H. destruct H as [Hw Hn].
  unfold parse_nob_item. change (")" ++ rest)%string with (String c_rpar rest).
  rewrite (scan_nob_text w c_rpar rest Hw Hn eq_refl).
  destruct required; cbn [negb orb andb] in *; [rewrite Hreq|]; reflexivity.
Qed.

(** ** the payload of TIMINGCHECK *)
Lemma pay_start : forall l rest, exists c r, (pay_text l ++ ")" ++ rest)%string = String c r /\ is_paren c = true.
Proof.
  intros [|[[|] w] l] rest; cbn [pay_text append]; eexists; eexists; (split; [reflexivity|reflexivity]).
Qed.
Lemma ign_loop_complete : forall l d fuel rest, bal d l = true -> forallb (fun p => nob_ok false (snd p)) l = true ->
  List.length l < fuel -> ign_loop fuel d (pay_text l ++ ")" ++ rest)%string = Some rest.
Proof.
  induction l as [|[o w] l IH]; intros d fuel rest Hb Hok Hf.
  - cbn [bal] in Hb. apply Nat.eqb_eq in Hb. subst d. destruct fuel as [|fu]; [inversion Hf|]. reflexivity.
  - destruct fuel as [|fu]; [inversion Hf|]. cbn [List.length] in Hf.
    cbn [forallb snd] in Hok. apply andb_true_iff in Hok. destruct Hok as [Hw Hok].
    unfold nob_ok in Hw. apply andb_true_iff in Hw. destruct Hw as [Hw _]. apply andb_true_iff in Hw. destruct Hw as [Hw Hn].
    destruct (pay_start l rest) as [c [r [E Hc]]].
    remember (pay_text l ++ ")" ++ rest)%string as R eqn:ER.
    assert (Et : forall p, ((p ++ w ++ pay_text l) ++ ")" ++ rest)%string = (p ++ (w ++ R))%string)
      by (intro p; rewrite ER, !sapp_assoc; reflexivity).
    destruct o; cbn [pay_text bal] in *; rewrite Et; cbn [append ign_loop].
    + change (Ascii.eqb "("%char c_lpar) with true. cbv iota.
      rewrite E, (scan_nob_text _ _ _ Hw Hn Hc). cbn [snd]. rewrite <- E, ER. apply IH; [exact Hb | exact Hok | lia].
    + change (Ascii.eqb ")"%char c_lpar) with false. change (Ascii.eqb ")"%char c_rpar) with true. cbv iota.
      destruct d as [|d']; [discriminate Hb|].
      rewrite E, (scan_nob_text _ _ _ Hw Hn Hc). cbn [snd]. rewrite <- E, ER. apply IH; [exact Hb | exact Hok | lia].
Qed.
Lemma pay_len : forall l, List.length l <= String.length (pay_text l).
Proof.
  induction l as [|[o w] l IH]; [apply le_n|]. cbn [pay_text List.length]. rewrite !slen_app.
  destruct o; cbn [String.length]; lia.
Qed.
Lemma ignores_complete : forall s pay rest, sep_ok s = true -> pay_ok pay = true ->
  parse_ignores (sep_text s ++ pay_text pay ++ ")" ++ rest)%string = Some rest.
Proof.
  intros s pay rest Hs Hp. unfold pay_ok in Hp. apply andb_true_iff in Hp. destruct Hp as [Hb Hok].
  unfold parse_ignores. destruct (pay_start pay rest) as [c [r [E Hc]]].
  assert (Esk : skip_ign (sep_text s ++ pay_text pay ++ ")" ++ rest)%string = (pay_text pay ++ ")" ++ rest)%string).
  { rewrite E. apply skip_sep_solid; [exact Hs|]. destruct (paren_cases _ Hc); subst c; reflexivity. }
  rewrite Esk. apply ign_loop_complete; [exact Hb | exact Hok|].
  unfold fuel_of. rewrite !slen_app. pose proof (pay_len pay). lia.
Qed.

(** ** the items of a CELL *)
Lemma expect_rpar : forall s rest, sep_ok s = true -> expect ")" (sep_text s ++ ")" ++ rest)%string = Some rest.
Proof. intros s rest Hs. exact (expect_lit s c_rpar EmptyString rest Hs eq_refl). Qed.
Lemma scan_id_none : forall s rest, idsep_ok s = true -> scan_id (sep_text s ++ ")" ++ rest)%string = None.
Proof.
  intros s rest H. unfold scan_id, scan_name.
  assert (Hsl : ends0 false s && slash2 (")" ++ rest)%string = false) by (destruct rest; apply andb_false_r).
  rewrite (id_skip_sep s (")" ++ rest)%string H eq_refl Hsl). reflexivity.
Qed.

Lemma cell_item : forall c rest, ccitem_ok c = true ->
  parse_cell_item (ccitem_text c ++ rest)%string = Some (ccitem_abs c, rest).
Proof.
  intros [w|s|s1 n s2|s pay|s1 es sf s3] rest H; cbn [ccitem_ok] in H; cbn [ccitem_text ccitem_abs]; rewrite !sapp_assoc; unfold parse_cell_item.
  - change (drop_prefix "(TIMINGCHECK" ("(CELLTYPE" ++ ?x)%string) with (@None string).
    rewrite drop_prefix_app, (nob_item true w rest H). reflexivity.
  - change (drop_prefix "(TIMINGCHECK" ("(INSTANCE" ++ ?x)%string) with (@None string).
    change (drop_prefix "(CELLTYPE" ("(INSTANCE" ++ ?x)%string) with (@None string).
    rewrite drop_prefix_app. unfold parse_instance. rewrite (scan_id_none s rest H).
    rewrite expect_rpar; [reflexivity | apply idsep_sep_ok, H].
  - change (drop_prefix "(TIMINGCHECK" ("(INSTANCE" ++ ?x)%string) with (@None string).
    change (drop_prefix "(CELLTYPE" ("(INSTANCE" ++ ?x)%string) with (@None string).
    rewrite drop_prefix_app. unfold parse_instance.
    apply andb_true_iff in H. destruct H as [H Hs2]. apply andb_true_iff in H. destruct H as [Hs1 Hn].
    assert (Hok2 : sep_ok s2 = true) by (unfold aft_ok in Hs2; apply andb_true_iff in Hs2; tauto).
    rewrite (scan_id_tok _ _ _ Hs1 Hn (aft_end c_quote id_char id_char_end n s2 (")" ++ rest)%string Hs2 (paren_name_end c_rpar rest eq_refl))), (expect_rpar _ _ Hok2). reflexivity.
  - rewrite drop_prefix_app. apply andb_true_iff in H. destruct H as [Hs Hp].
    rewrite (ignores_complete _ _ _ Hs Hp). reflexivity.
  - change (drop_prefix "(TIMINGCHECK" ("(DELAY" ++ ?x)%string) with (@None string).
    change (drop_prefix "(CELLTYPE" ("(DELAY" ++ ?x)%string) with (@None string).
    change (drop_prefix "(INSTANCE" ("(DELAY" ++ ?x)%string) with (@None string).
    rewrite drop_prefix_app. unfold parse_delay.
    repeat (apply andb_true_iff in H; destruct H as [H ?]).
    assert (E1 : forall R, expect "(ABSOLUTE" (sep_text s1 ++ "(ABSOLUTE" ++ R)%string = Some R)
      by (intro R; exact (expect_lit s1 c_lpar "ABSOLUTE" R H eq_refl)).
    rewrite E1, (entries_complete es sf _ _ H2 H1 (fuel_items centry_text centry_len es _)), (expect_rpar _ _ H0). reflexivity.
Qed.
(* `(INSTANCE` s `)` is an instance-less INSTANCE exactly for the separators of [idsep_ok]; with a misplaced comment the comment becomes the name *)
Theorem instance0_iff : forall s rest, sep_ok s = true ->
  (parse_instance (sep_text s ++ ")" ++ rest)%string = Some ([], rest) <-> idsep_ok s = true).
Proof.
  intros s rest Hok. split.
  - intro E. unfold idsep_ok. rewrite Hok. cbn [andb]. destruct (cm_ok false s) eqn:Hcm; [reflexivity|]. exfalso.
    destruct (scan_id_comment s (")" ++ rest)%string Hok Hcm) as [n [r [En _]]]. unfold parse_instance in E. rewrite En in E.
    destruct (expect ")" r); discriminate E.
  - intro H. unfold parse_instance. rewrite (scan_id_none s rest H), (expect_rpar _ _ Hok). reflexivity.
Qed.
Lemma ccitem_lpar : forall c, exists r, ccitem_text c = String c_lpar r.
Proof. intros [w|s|s1 n s2|s pay|s1 es sf s3]; cbn [ccitem_text append]; eexists; reflexivity. Qed.
Lemma ccitem_len : forall c, 1 <= String.length (ccitem_text c).
Proof. intro c. destruct (ccitem_lpar c) as [r E]. rewrite E. cbn [String.length]. lia. Qed.
Lemma cell_complete : forall items sf fuel rest, items_ok ccitem_ok items = true -> sep_ok sf = true -> List.length items < fuel ->
  parse_cell fuel (items_text ccitem_text items ++ sep_text sf ++ ")" ++ rest)%string = Some (flat_map (fun p => ccitem_abs (snd p)) items, rest).
Proof.
  intros items sf fuel rest H1 H2 H3. unfold parse_cell.
  exact (loop_complete parse_cell_item ccitem_text ccitem_ok ccitem_abs
           (fun y rest H => cell_item y rest H) (fun y _ => ccitem_lpar y) items sf fuel rest H1 H2 H3).
Qed.

(** ** the items of the file *)
Lemma hdr_prefix : forall kw R, existsb (String.eqb kw) hdr_kws = true -> first_prefix hdr_kws (kw ++ R)%string = Some R.
Proof.
  intros kw R H. unfold hdr_kws in H. cbn [existsb] in H.
  repeat (apply orb_true_iff in H; destruct H as [H|H]; [apply String.eqb_eq in H; subst kw; reflexivity|]).
  discriminate H.
Qed.
Lemma skip_name : forall n R, wf_name n = true -> skip_ign (n ++ String c_quote R)%string = (n ++ String c_quote R)%string.
Proof.
  intros n R H. unfold wf_name in H. apply andb_true_iff in H. destruct H as [H Hi]. apply andb_true_iff in H. destruct H as [Hne _].
  apply negb_true_iff in Hi. destruct n as [|c n]; [discriminate Hne|]. cbn [starts_ign] in Hi.
  apply orb_false_iff in Hi. destruct Hi as [Hi H2]. apply orb_false_iff in Hi. destruct Hi as [Hb Hnl].
  unfold skip_ign. cbn [append skip_go]. rewrite Hb, Hnl. cbn [andb orb].
  destruct n as [|d n].
  - cbn [append]. change (Ascii.eqb c_quote c_nl) with false. change (Ascii.eqb c_quote c_slash) with false.
    destruct (Ascii.eqb c c_cr); [reflexivity|]. destruct (Ascii.eqb c c_slash); reflexivity.
  - cbn [append]. apply orb_false_iff in H2. destruct H2 as [H2 H3].
    destruct (Ascii.eqb c c_cr); [cbn [andb] in H2; rewrite H2; reflexivity|].
    destruct (Ascii.eqb c c_slash); [cbn [andb] in H3; rewrite H3; reflexivity|]. reflexivity.
Qed.
Lemma design_item : forall s1 s2 n s3 rest, sep_ok s1 = true -> sep_ok s2 = true -> wf_name n = true -> sep_ok s3 = true ->
  parse_design (sep_text s1 ++ q1 ++ sep_text s2 ++ n ++ q1 ++ sep_text s3 ++ ")" ++ rest)%string = Some ([XSName n], rest).
Proof.
  intros s1 s2 n s3 rest H1 H2 Hn H3. unfold parse_design.
  assert (E1 : forall R, expect q1 (sep_text s1 ++ q1 ++ R)%string = Some R)
    by (intro R; exact (expect_lit s1 c_quote EmptyString R H1 eq_refl)).
  rewrite E1, (skip_sep _ _ H2).
  change (q1 ++ sep_text s3 ++ ")" ++ rest)%string with (String c_quote (sep_text s3 ++ ")" ++ rest)%string).
  rewrite (skip_name _ _ Hn).
  unfold wf_name in Hn. apply andb_true_iff in Hn. destruct Hn as [Hn _]. apply andb_true_iff in Hn. destruct Hn as [Hne Hq].
  rewrite (span_app not_quote n (String c_quote (sep_text s3 ++ ")" ++ rest)%string) Hq eq_refl). destruct n as [|x n]; [discriminate Hne|].
  rewrite (expect_rpar _ _ H3). reflexivity.
Qed.
Lemma top_item : forall t rest, ctitem_ok t = true ->
  parse_top_item (ctitem_text t ++ rest)%string = Some (ctitem_abs t, rest).
Proof.
  intros [kw w|w|s1 s2 n s3|items sf] rest H; cbn [ctitem_ok] in H; cbn [ctitem_text ctitem_abs]; rewrite !sapp_assoc; unfold parse_top_item.
  - apply andb_true_iff in H. destruct H as [Hk Hw].
    rewrite (hdr_prefix _ _ Hk), (nob_item true w rest Hw). reflexivity.
  - change (first_prefix hdr_kws ("(PROCESS" ++ ?x)%string) with (@None string).
    rewrite drop_prefix_app, (nob_item false w rest H). reflexivity.
  - change (first_prefix hdr_kws ("(DESIGN" ++ ?x)%string) with (@None string).
    change (drop_prefix "(PROCESS" ("(DESIGN" ++ ?x)%string) with (@None string).
    rewrite drop_prefix_app. repeat (apply andb_true_iff in H; destruct H as [H ?]).
    apply design_item; assumption.
  - change (first_prefix hdr_kws ("(CELL" ++ ?x)%string) with (@None string).
    change (drop_prefix "(PROCESS" ("(CELL" ++ ?x)%string) with (@None string).
    change (drop_prefix "(DESIGN" ("(CELL" ++ ?x)%string) with (@None string).
    rewrite drop_prefix_app. apply andb_true_iff in H. destruct H as [Hi Hsf].
    rewrite (cell_complete items sf _ rest Hi Hsf (fuel_items ccitem_text ccitem_len items _)). reflexivity.
Qed.
Lemma ctitem_lpar : forall t, ctitem_ok t = true -> exists r, ctitem_text t = String c_lpar r.
Proof.
  intros [kw w|w|s1 s2 n s3|items sf] H; cbn [ctitem_text append]; try (eexists; reflexivity).
  cbn [ctitem_ok] in H. apply andb_true_iff in H. destruct H as [H _]. unfold hdr_kws in H. cbn [existsb] in H.
  repeat (apply orb_true_iff in H; destruct H as [H|H]; [apply String.eqb_eq in H; subst kw; eexists; reflexivity|]).
  discriminate H.
Qed.
Lemma ctitem_len : forall t, 1 <= String.length (ctitem_text t).
Proof.
  intros [kw w|w|s1 s2 n s3|items sf]; cbn [ctitem_text]; rewrite ?slen_app; cbn [String.length]; lia.
Qed.

(** ** the file: every way of writing covered by [cfile] is parsed to its delay-relevant content *)
Theorem parse_cfile : forall f, cfile_ok f = true -> parse_sdf (cfile_text f) = Some (cfile_abs f).
Proof.
  intros [s0 items sf s1 tl] H. unfold cfile_ok in H. cbn [cf_s0 cf_items cf_sf cf_s1 cf_tail] in H.
  repeat (apply andb_true_iff in H; destruct H as [H ?]).
  unfold cfile_text, cfile_abs, parse_sdf. cbn [cf_s0 cf_items cf_sf cf_s1 cf_tail].
  assert (E1 : forall R, expect "(DELAYFILE" (sep_text s0 ++ "(DELAYFILE" ++ R)%string = Some R)
    by (intro R; exact (expect_lit s0 c_lpar "DELAYFILE" R H eq_refl)).
  rewrite E1. unfold parse_top.
  rewrite (loop_complete parse_top_item ctitem_text ctitem_ok ctitem_abs
             (fun y rest Hy => top_item y rest Hy) ctitem_lpar items sf _ (sep_text s1 ++ tail_text tl)%string H3 H2
             (fuel_items ctitem_text ctitem_len items _)).
  rewrite (skip_sep _ _ H1).
  destruct tl as [b|]; [|reflexivity]. cbn [tail_text].
  change (skip_ign ("//" ++ b)%string) with (skip_go true true b). now rewrite (skip_comment_end true b H0).
Qed.

(** *** the first version of the concrete syntax (a blank, then blanks / tabs / form feeds in front of a name; nothing or ignored text that
    begins with a blank after it) is a special case: its theorem follows from [parse_cfile] *)
Definition centry_ok_v1 (e : centry) : bool :=
  let 'CE io s1 a s2 b ts sf := e in
  idsep_ok_v1 s1 && idsep_ok_v1 s2 && (if io then wf_ide a && wf_ide b else wf_id a && wf_id b) &&
  items_ok ctriple_ok ts && sep_ok sf && aftsep_ok_v1 (first_sep ts sf).
Definition ccitem_ok_v1 (c : ccitem) : bool :=
  match c with
  | CCType w => nob_ok true w
  | CCInst0 s => match s with [] => true | _ => idsep_ok_v1 s end
  | CCInst s1 n s2 => idsep_ok_v1 s1 && wf_id n && aftsep_ok_v1 s2
  | CCTiming s pay => sep_ok s && pay_ok pay
  | CCDelay s1 es sf s3 => sep_ok s1 && items_ok centry_ok_v1 es && sep_ok sf && sep_ok s3
  end.
Definition ctitem_ok_v1 (t : ctitem) : bool :=
  match t with CTCell items sf => items_ok ccitem_ok_v1 items && sep_ok sf | _ => ctitem_ok t end.
Definition cfile_ok_v1 (f : cfile) : bool :=
  sep_ok (cf_s0 f) && items_ok ctitem_ok_v1 (cf_items f) && sep_ok (cf_sf f) && sep_ok (cf_s1 f) &&
  match cf_tail f with Some b => no_newline b | None => true end.
Lemma items_ok_mono {Y} (ok1 ok2 : Y -> bool) : (forall y, ok1 y = true -> ok2 y = true) ->
  forall l, items_ok ok1 l = true -> items_ok ok2 l = true.
Proof.
  intros Hm. induction l as [|[s y] l IH]; intro H; [reflexivity|]. apply items_ok_cons in H. destruct H as [H1 [H2 H3]].
  apply items_ok_cons. repeat split; [exact H1 | apply Hm, H2 | apply IH, H3].
Qed.
Lemma centry_ok_v1_wide : forall e, centry_ok_v1 e = true -> centry_ok e = true.
Proof.
  intros [io s1 a s2 b ts sf] H. cbn [centry_ok_v1] in H.
  apply andb_true_iff in H. destruct H as [H Haft]. apply andb_true_iff in H. destruct H as [H Hsf].
  apply andb_true_iff in H. destruct H as [H Hts]. apply andb_true_iff in H. destruct H as [H Hn].
  apply andb_true_iff in H. destruct H as [Hs1 Hs2]. cbn [centry_ok].
  now rewrite (bef_ok_v1_wide s1 a Hs1), (bef_ok_v1_wide s2 b Hs2), (touch_ok_v1_wide _ a s2 b Hs2), Hn, Hts, Hsf, (aft_ok_v1_wide _ b _ Haft).
Qed.
Lemma ccitem_ok_v1_wide : forall c, ccitem_ok_v1 c = true -> ccitem_ok c = true.
Proof.
  intros [w|s|s1 n s2|s pay|s1 es sf s3] H; cbn [ccitem_ok_v1] in H; cbn [ccitem_ok]; try exact H.
  - destruct s as [|i r]; [reflexivity | apply idsep_ok_v1_wide, H].
  - apply andb_true_iff in H. destruct H as [H H2]. apply andb_true_iff in H. destruct H as [H1 Hn].
    now rewrite (bef_ok_v1_wide s1 n H1), Hn, (aft_ok_v1_wide _ n _ H2).
  - apply andb_true_iff in H. destruct H as [H H3]. apply andb_true_iff in H. destruct H as [H Hsf]. apply andb_true_iff in H. destruct H as [H1 Hes].
    now rewrite H1, (items_ok_mono _ _ centry_ok_v1_wide es Hes), Hsf, H3.
Qed.
Lemma ctitem_ok_v1_wide : forall t, ctitem_ok_v1 t = true -> ctitem_ok t = true.
Proof.
  intros [kw w|w|s1 s2 n s3|items sf] H; try exact H. cbn [ctitem_ok_v1] in H. cbn [ctitem_ok].
  apply andb_true_iff in H. destruct H as [Hi Hsf]. now rewrite (items_ok_mono _ _ ccitem_ok_v1_wide items Hi), Hsf.
Qed.
Theorem cfile_ok_v1_wide : forall f, cfile_ok_v1 f = true -> cfile_ok f = true.
Proof.
  intros f H. unfold cfile_ok_v1 in H. unfold cfile_ok.
  apply andb_true_iff in H. destruct H as [H Ht]. apply andb_true_iff in H. destruct H as [H H1]. apply andb_true_iff in H. destruct H as [H Hsf].
  apply andb_true_iff in H. destruct H as [H0 Hi]. now rewrite H0, (items_ok_mono _ _ ctitem_ok_v1_wide _ Hi), Hsf, H1, Ht.
Qed.
Theorem parse_cfile_v1 : forall f, cfile_ok_v1 f = true -> parse_sdf (cfile_text f) = Some (cfile_abs f).
Proof. intros f H. apply parse_cfile, cfile_ok_v1_wide, H. Qed.

(** ** (a) print / parse round trip *)
Lemma print_triple_text : forall t, print_triple t = ctriple_text (ctriple_of t).
Proof. intros [|a [|b [|c [|d t]]]]; reflexivity. Qed.
Lemma print_triples_text : forall ts, print_triples ts = items_text ctriple_text (map (fun t => ([IgSpace], ctriple_of t)) ts).
Proof.
  induction ts as [|t ts IH]; [reflexivity|]. cbn [print_triples map items_text]. rewrite IH, print_triple_text. reflexivity.
Qed.
Lemma print_entry_text : forall e, print_entry e = centry_text (centry_of e).
Proof. intros [[|] a b ts]; cbn [print_entry centry_of centry_text]; rewrite print_triples_text; reflexivity. Qed.
Lemma print_entries_text : forall es, print_entries es = items_text centry_text (map (fun e => (ind4, centry_of e)) es).
Proof.
  induction es as [|e es IH]; [reflexivity|]. cbn [print_entries map items_text]. rewrite IH, print_entry_text. reflexivity.
Qed.
Lemma print_carg_text : forall a, print_carg a = (sep_text ind2 ++ ccitem_text (ccitem_of a))%string.
Proof. intros [s|es]; cbn [print_carg ccitem_of ccitem_text]; [|rewrite print_entries_text]; reflexivity. Qed.
Lemma print_cargs_text : forall l, print_cargs l = items_text ccitem_text (map (fun a => (ind2, ccitem_of a)) l).
Proof.
  induction l as [|a l IH]; [reflexivity|]. cbn [print_cargs map items_text]. rewrite IH, print_carg_text, sapp_assoc. reflexivity.
Qed.
Lemma print_sarg_text : forall a, print_sarg a = (sep_text [IgNl] ++ ctitem_text (ctitem_of a))%string.
Proof. intros [s|args]; cbn [print_sarg ctitem_of ctitem_text]; [|rewrite print_cargs_text]; reflexivity. Qed.
Lemma print_sargs_text : forall l, print_sargs l = items_text ctitem_text (map (fun a => ([IgNl], ctitem_of a)) l).
Proof.
  induction l as [|a l IH]; [reflexivity|]. cbn [print_sargs map items_text]. rewrite IH, print_sarg_text, sapp_assoc. reflexivity.
Qed.
Theorem print_is_text : forall t, print_sdf t = cfile_text (cfile_of t).
Proof. intro t. unfold print_sdf, cfile_text, cfile_of. cbn [cf_s0 cf_items cf_sf cf_s1 cf_tail]. rewrite print_sargs_text. reflexivity. Qed.

Lemma items_ok_map {A Y} (wf : A -> bool) (ok : Y -> bool) (g : A -> Y) (s : sep) :
  sep_ok s = true -> (forall a, wf a = true -> ok (g a) = true) ->
  forall l, forallb wf l = true -> items_ok ok (map (fun a => (s, g a)) l) = true.
Proof.
  intros Hs Hg. induction l as [|a l IH]; intro H; [reflexivity|].
  cbn [forallb] in H. apply andb_true_iff in H. destruct H as [Ha Hl].
  cbn [map]. apply items_ok_cons. repeat split; [exact Hs | apply Hg, Ha | apply IH, Hl].
Qed.
Lemma ctriple_of_ok : forall t, wf_triple t = true -> ctriple_ok (ctriple_of t) = true /\ ctriple_abs (ctriple_of t) = t.
Proof.
  intros [|a [|b [|c [|d t]]]] H; try discriminate H; [split; reflexivity|].
  cbn [wf_triple] in H. split; [|reflexivity]. cbn [ctriple_of ctriple_ok sep_ok forallb andb].
  apply andb_true_iff in H. destruct H as [H Hc]. apply andb_true_iff in H. destruct H as [Ha Hb]. now rewrite Ha, Hb, Hc.
Qed.
Lemma map_abs_id {A Y} (wf : A -> bool) (g : A -> Y) (abs : Y -> A) (s : sep) :
  (forall a, wf a = true -> abs (g a) = a) ->
  forall l, forallb wf l = true -> map (fun p : sep * Y => abs (snd p)) (map (fun a => (s, g a)) l) = l.
Proof.
  intros Hg. induction l as [|a l IH]; intro H; [reflexivity|].
  cbn [forallb] in H. apply andb_true_iff in H. destruct H as [Ha Hl]. cbn [map snd]. now rewrite (Hg _ Ha), (IH Hl).
Qed.
Lemma centry_of_ok : forall e, wf_entry e = true -> centry_ok (centry_of e) = true /\ centry_abs (centry_of e) = e.
Proof.
  intros [io a b ts] H. cbn [wf_entry] in H. apply andb_true_iff in H. destruct H as [Hn Hts]. split.
  - cbn [centry_of centry_ok]. rewrite Hn.
    assert (Hit : items_ok ctriple_ok (map (fun t => ([IgSpace], ctriple_of t)) ts) = true)
      by exact (items_ok_map wf_triple ctriple_ok ctriple_of [IgSpace] eq_refl (fun t Ht => proj1 (ctriple_of_ok t Ht)) ts Hts).
    rewrite Hit. rewrite (bef_ok_v1_wide [IgSpace] a eq_refl), (bef_ok_v1_wide [IgSpace] b eq_refl). cbn [touch_ok sep_ok forallb andb].
    destruct ts; cbn [map first_sep]; [unfold aft_ok; cbn [sep_ok forallb andb]; apply orb_true_r | exact (aft_ok_v1_wide _ b [IgSpace] eq_refl)].
  - cbn [centry_of centry_abs]. f_equal.
    exact (map_abs_id wf_triple ctriple_of ctriple_abs [IgSpace] (fun t Ht => proj2 (ctriple_of_ok t Ht)) ts Hts).
Qed.
Lemma ccitem_of_ok : forall a, wf_carg a = true -> ccitem_ok (ccitem_of a) = true /\ ccitem_abs (ccitem_of a) = [a].
Proof.
  intros [s|es] H; cbn [wf_carg] in H.
  - split; [|reflexivity]. cbn [ccitem_of ccitem_ok]. rewrite H, (bef_ok_v1_wide [IgSpace] s eq_refl). exact (aft_ok_v1_wide c_quote s [] eq_refl).
  - split.
    + cbn [ccitem_of ccitem_ok]. repeat (apply andb_true_iff; split); try reflexivity.
      exact (items_ok_map wf_entry centry_ok centry_of ind4 eq_refl (fun e He => proj1 (centry_of_ok e He)) es H).
    + cbn [ccitem_of ccitem_abs]. do 2 f_equal.
      exact (map_abs_id wf_entry centry_of centry_abs ind4 (fun e He => proj2 (centry_of_ok e He)) es H).
Qed.
Lemma flat_abs_id {A Y} (wf : A -> bool) (g : A -> Y) (abs : Y -> list A) (s : sep) :
  (forall a, wf a = true -> abs (g a) = [a]) ->
  forall l, forallb wf l = true -> flat_map (fun p : sep * Y => abs (snd p)) (map (fun a => (s, g a)) l) = l.
Proof.
  intros Hg. induction l as [|a l IH]; intro H; [reflexivity|].
  cbn [forallb] in H. apply andb_true_iff in H. destruct H as [Ha Hl]. cbn [map flat_map snd]. now rewrite (Hg _ Ha), (IH Hl).
Qed.
Lemma ctitem_of_ok : forall a, wf_sarg a = true -> ctitem_ok (ctitem_of a) = true /\ ctitem_abs (ctitem_of a) = [a].
Proof.
  intros [s|args] H; cbn [wf_sarg] in H.
  - split; [|reflexivity]. cbn [ctitem_of ctitem_ok sep_ok forallb andb]. now rewrite H.
  - split.
    + cbn [ctitem_of ctitem_ok]. repeat (apply andb_true_iff; split); try reflexivity.
      exact (items_ok_map wf_carg ccitem_ok ccitem_of ind2 eq_refl (fun e He => proj1 (ccitem_of_ok e He)) args H).
    + cbn [ctitem_of ctitem_abs]. do 2 f_equal.
      exact (flat_abs_id wf_carg ccitem_of ccitem_abs ind2 (fun e He => proj2 (ccitem_of_ok e He)) args H).
Qed.
Theorem cfile_of_ok : forall t, wf_tree t = true -> cfile_ok (cfile_of t) = true /\ cfile_abs (cfile_of t) = t.
Proof.
  intros t H. unfold wf_tree in H. split.
  - unfold cfile_ok, cfile_of. cbn [cf_s0 cf_items cf_sf cf_s1 cf_tail].
    repeat (apply andb_true_iff; split); try reflexivity.
    exact (items_ok_map wf_sarg ctitem_ok ctitem_of [IgNl] eq_refl (fun e He => proj1 (ctitem_of_ok e He)) t H).
  - unfold cfile_abs, cfile_of. cbn [cf_items].
    exact (flat_abs_id wf_sarg ctitem_of ctitem_abs [IgNl] (fun e He => proj2 (ctitem_of_ok e He)) t H).
Qed.
Theorem parse_print : forall t, wf_tree t = true -> parse_sdf (print_sdf t) = Some t.
Proof.
  intros t H. destruct (cfile_of_ok t H) as [Hok Habs]. rewrite print_is_text, (parse_cfile _ Hok), Habs. reflexivity.
Qed.

(** ** (b) ignored text, (c) header entries / CELLTYPE / TIMINGCHECK do not matter *)
Theorem same_content_same_parse : forall f g, cfile_ok f = true -> cfile_ok g = true -> cfile_abs f = cfile_abs g ->
  parse_sdf (cfile_text f) = parse_sdf (cfile_text g).
Proof. intros f g Hf Hg E. now rewrite (parse_cfile _ Hf), (parse_cfile _ Hg), E. Qed.

Lemma forallb_filter {A} (p q : A -> bool) l : forallb p l = true -> forallb p (filter q l) = true.
Proof.
  induction l as [|a l IH]; intro H; [reflexivity|]. cbn [forallb] in H. apply andb_true_iff in H. destruct H as [Ha Hl].
  cbn [filter]. destruct (q a); [cbn [forallb]; now rewrite Ha, (IH Hl) | apply IH, Hl].
Qed.
Lemma strip_cell_abs : forall items, flat_map (fun p => ccitem_abs (snd p)) (filter keeps_c items) = flat_map (fun p : sep * ccitem => ccitem_abs (snd p)) items.
Proof.
  induction items as [|[s c] l IH]; [reflexivity|]. cbn [filter flat_map]. unfold keeps_c at 1. cbn [snd].
  destruct c; cbn [flat_map snd ccitem_abs app]; rewrite IH; reflexivity.
Qed.
Lemma strip_titem_ok : forall t, ctitem_ok t = true -> ctitem_ok (strip_titem t) = true /\ ctitem_abs (strip_titem t) = ctitem_abs t.
Proof.
  intros [kw w|w|s1 s2 n s3|items sf] H; try (split; [exact H | reflexivity]).
  cbn [ctitem_ok] in H. apply andb_true_iff in H. destruct H as [Hi Hsf]. split.
  - cbn [strip_titem ctitem_ok]. rewrite Hsf, andb_true_r. apply forallb_filter, Hi.
  - cbn [strip_titem ctitem_abs]. now rewrite strip_cell_abs.
Qed.
Theorem strip_file_ok : forall f, cfile_ok f = true -> cfile_ok (strip_file f) = true /\ cfile_abs (strip_file f) = cfile_abs f.
Proof.
  intros [s0 items sf s1 tl] H. unfold cfile_ok in H. cbn [cf_s0 cf_items cf_sf cf_s1 cf_tail] in H.
  repeat (apply andb_true_iff in H; destruct H as [H ?]). rename H3 into Hi.
  unfold cfile_ok, cfile_abs, strip_file. cbn [cf_s0 cf_items cf_sf cf_s1 cf_tail]. rewrite H, H2, H1, H0. split.
  - rewrite !andb_true_r. cbn [andb]. clear - Hi. induction items as [|[s t] l IH]; [reflexivity|].
    apply items_ok_cons in Hi. destruct Hi as [Hs [Ht Hl]]. cbn [filter]. unfold keeps_t at 1. cbn [snd].
    destruct t; try (apply IH, Hl); cbn [map fst snd]; apply items_ok_cons; (repeat split; [exact Hs | apply strip_titem_ok, Ht | apply IH, Hl]).
  - clear - Hi. induction items as [|[s t] l IH]; [reflexivity|].
    apply items_ok_cons in Hi. destruct Hi as [Hs [Ht Hl]]. cbn [filter flat_map]. unfold keeps_t at 1. cbn [snd].
    destruct t; cbn [map flat_map fst snd]; rewrite (IH Hl); try reflexivity.
    f_equal. exact (proj2 (strip_titem_ok _ Ht)).
Qed.
(* the text without its header entries, CELLTYPE, empty INSTANCE and TIMINGCHECK items has the same parse *)
Theorem skipped_items_irrelevant : forall f, cfile_ok f = true ->
  parse_sdf (cfile_text (strip_file f)) = parse_sdf (cfile_text f) /\ parse_sdf (cfile_text f) = Some (cfile_abs f).
Proof.
  intros f H. destruct (strip_file_ok f H) as [Hok Habs]. split; [|apply parse_cfile, H].
  now rewrite (parse_cfile _ Hok), (parse_cfile _ H), Habs.
Qed.

(** ** (d) from the text to the DelayFile *)
Lemma omap_In {A B} (f : A -> option B) : forall l l' x, omap f l = Some l' -> In x l -> exists y, f x = Some y /\ In y l'.
Proof.
  induction l as [|a l IH]; intros l' x H Hx; [destruct Hx|].
  cbn [omap] in H. destruct (f a) as [y|] eqn:Ea; [|discriminate H]. destruct (omap f l) as [ys|] eqn:El; [|discriminate H].
  inversion H; subst. destruct Hx as [Hx|Hx]; [subst; exists y; split; [exact Ea | now left]|].
  destruct (IH _ _ eq_refl Hx) as [z [E1 E2]]. exists z. split; [exact E1 | now right].
Qed.
Lemma map_res_In {A B} (f : A -> res B) : forall l l' x, map_res f l = Ok l' -> In x l -> exists y, f x = Ok y /\ In y l'.
Proof.
  induction l as [|a l IH]; intros l' x H Hx; [destruct Hx|].
  cbn [map_res] in H. destruct (f a) as [y|] eqn:Ea; [|discriminate H]. destruct (map_res f l) as [ys|] eqn:El; [|discriminate H].
  inversion H; subst. destruct Hx as [Hx|Hx]; [subst; exists y; split; [exact Ea | now left]|].
  destruct (IH _ _ eq_refl Hx) as [z [E1 E2]]. exists z. split; [exact E1 | now right].
Qed.
Lemma first_cname_x : forall args args', omap carg_of_x args = Some args' -> first_cname args' = xcell_key args.
Proof.
  induction args as [|a args IH]; intros args' H; [inversion H; reflexivity|].
  cbn [omap] in H. destruct (carg_of_x a) as [y|] eqn:Ea; [|discriminate H]. destruct (omap carg_of_x args) as [ys|] eqn:El; [|discriminate H].
  inversion H; subst. destruct a as [s|es]; cbn [carg_of_x] in Ea.
  - inversion Ea; subst. reflexivity.
  - destruct (omap entry_of_x es); [|discriminate Ea]. inversion Ea; subst. cbn [first_cname xcell_key]. apply IH. reflexivity.
Qed.
Lemma named_keys_In : forall ks n, n <> EmptyString -> In (Some n) ks -> In n (named_keys ks).
Proof.
  intros ks n Hn H. unfold named_keys. apply in_flat_map. exists (Some n). split; [exact H|].
  destruct n; [congruence | now left].
Qed.

Theorem x_entry_kept : forall x t df, tree_of_x x = Some t -> start_cb t = Ok df ->
  forall args es xe, In (XSCell args) x -> In (XDelay es) args -> In xe es -> xcell_key args <> Some EmptyString ->
  exists te e, entry_of_x xe = Some te /\ entry_cb te = Ok e /\ kept_in df (xcell_key args) e.
Proof.
  intros x t df Ht Hdf args es xe Hc Hd He Hkey.
  unfold tree_of_x in Ht.
  destruct (omap_In _ _ _ _ Ht Hc) as [sa [Esa Hsa]]. cbn [sarg_of_x] in Esa.
  destruct (omap carg_of_x args) as [args'|] eqn:Eargs; [|discriminate Esa]. inversion Esa; subst sa; clear Esa.
  destruct (omap_In _ _ _ _ Eargs Hd) as [ca [Eca Hca]]. cbn [carg_of_x] in Eca.
  destruct (omap entry_of_x es) as [tes|] eqn:Ees; [|discriminate Eca]. inversion Eca; subst ca; clear Eca.
  destruct (omap_In _ _ _ _ Ees He) as [te [Ete Hte]].
  destruct (delayfile_of_blocks _ _ Hdf) as [bs [Hbs [_ [Hic Hcells]]]].
  unfold blocks_of in Hbs.
  assert (Hin : In args' (start_cells t)).
  { unfold start_cells. apply in_flat_map. exists (SCell args'). split; [exact Hsa | now left]. }
  destruct (map_res_In _ _ _ _ Hbs Hin) as [b [Eb Hb]].
  unfold cell_cb, bind in Eb. destruct (map_res entry_cb (cell_entries args')) as [es'|] eqn:Ees'; [|discriminate Eb].
  inversion Eb; subst b; clear Eb.
  assert (Hte' : In te (cell_entries args')).
  { unfold cell_entries. apply in_flat_map. exists (CDelay tes). split; [exact Hca | exact Hte]. }
  destruct (map_res_In _ _ _ _ Ees' Hte') as [e [Ee Hee]].
  exists te, e. split; [exact Ete|]. split; [exact Ee|].
  rewrite (first_cname_x _ _ Eargs) in Hb.
  assert (Hent : In e (entries_of (xcell_key args) bs)).
  { apply entries_of_In. exists (xcell_key args, es'). split; [exact Hb|]. split; [reflexivity | exact Hee]. }
  assert (Hhas : has_block (xcell_key args) bs = true).
  { apply has_block_In. apply in_map_iff. exists (xcell_key args, es'). split; [reflexivity | exact Hb]. }
  unfold kept_in. destruct (xcell_key args) as [n|] eqn:Ek.
  - exists (entries_of (Some n) bs). split; [|exact Hent]. rewrite Hcells. apply in_map_iff. exists n. split; [reflexivity|].
    apply named_keys_In; [congruence|]. apply first_occ_in. apply has_block_In. exact Hhas.
  - exists (entries_of None bs). split; [|exact Hent]. now rewrite Hic, Hhas.
Qed.

Lemma wf_id_nonempty : forall n, wf_id n = true -> n <> EmptyString.
Proof. intros [|c r] H; [discriminate H | discriminate]. Qed.
Lemma xcell_key_In : forall args n, xcell_key args = Some n -> In (XName n) args.
Proof.
  induction args as [|a args IH]; intros n H; [discriminate H|]. destruct a as [s|es]; cbn [xcell_key] in H.
  - inversion H; subst. now left.
  - right. apply IH, H.
Qed.
(* every delay entry written in the text is in the DelayFile sdf.parse builds, under the instance of its CELL *)
Theorem text_entry_kept : forall f t df, cfile_ok f = true -> tree_of_x (cfile_abs f) = Some t -> start_cb t = Ok df ->
  delayfile_of_text (cfile_text f) = Some (Ok df) /\
  forall sc items sf sd s1 es sf' s3 se ce,
    In (sc, CTCell items sf) (cf_items f) -> In (sd, CCDelay s1 es sf' s3) items -> In (se, ce) es ->
    exists te e, entry_of_x (centry_abs ce) = Some te /\ entry_cb te = Ok e /\ kept_in df (ccell_key items) e.
Proof.
  intros f t df Hok Ht Hdf. split.
  - unfold delayfile_of_text, tree_of_text. now rewrite (parse_cfile _ Hok), Ht, Hdf.
  - intros sc items sf sd s1 es sf' s3 se ce Hc Hd He.
    apply (x_entry_kept (cfile_abs f) t df Ht Hdf (flat_map (fun p => ccitem_abs (snd p)) items) (map (fun p => centry_abs (snd p)) es)).
    + unfold cfile_abs. apply in_flat_map. exists (sc, CTCell items sf). split; [exact Hc | now left].
    + apply in_flat_map. exists (sd, CCDelay s1 es sf' s3). split; [exact Hd | now left].
    + apply in_map_iff. exists (se, ce). split; [reflexivity | exact He].
    + intro Hk. apply xcell_key_In in Hk. apply in_flat_map in Hk. destruct Hk as [[s c] [Hin Hx]].
      unfold cfile_ok in Hok. repeat (apply andb_true_iff in Hok; destruct Hok as [Hok ?]).
      unfold items_ok in H2. rewrite forallb_forall in H2. specialize (H2 _ Hc). cbn [fst snd ctitem_ok] in H2.
      apply andb_true_iff in H2. destruct H2 as [_ H2]. apply andb_true_iff in H2. destruct H2 as [H2 _].
      unfold items_ok in H2. rewrite forallb_forall in H2. specialize (H2 _ Hin). cbn [fst snd] in H2.
      apply andb_true_iff in H2. destruct H2 as [_ H2].
      destruct c; cbn [ccitem_abs snd] in Hx; try (destruct Hx; fail).
      * destruct Hx as [Hx|[]]. inversion Hx; subst. cbn [ccitem_ok] in H2.
        apply andb_true_iff in H2. destruct H2 as [H2 _]. apply andb_true_iff in H2. destruct H2 as [_ H2]. discriminate H2.
      * destruct Hx as [Hx|[]]. discriminate Hx.
Qed.
(* the same from any text, without reference to how it is written *)
Theorem text_delayfile_of_blocks : forall text t df, tree_of_text text = Some t -> start_cb t = Ok df ->
  delayfile_of_text text = Some (Ok df) /\
  exists bs, blocks_of t = Ok bs /\
    df_name df = first_sname t /\
    df_ic df = (if has_block None bs then Some (entries_of None bs) else None) /\
    df_cells df = map (fun s => (s, entries_of (Some s) bs)) (named_keys (first_occ (map fst bs))) /\
    (forall k, dict_get k (group bs) = if has_block k bs then Some (entries_of k bs) else None).
Proof.
  intros text t df Ht Hdf. split; [unfold delayfile_of_text; now rewrite Ht, Hdf|].
  destruct (delayfile_of_blocks _ _ Hdf) as [bs [H1 [H2 [H3 H4]]]]. exists bs. repeat split; try assumption.
  intro k. apply cells_none_lost.
Qed.

(* an instance name lark returns is never empty *)
Lemma loop_Forall {X} (P : X -> Prop) (item : string -> option (list X * string)) :
  (forall s a r, item s = Some (a, r) -> Forall P a) ->
  forall fuel s l r, loop item fuel s = Some (l, r) -> Forall P l.
Proof.
  intros Hitem. induction fuel as [|f IH]; intros s l r H; [discriminate H|].
  cbn [loop] in H. destruct (drop_prefix ")" (skip_ign s)) as [r0|]; [inversion H; constructor|].
  destruct (item (skip_ign s)) as [[a r2]|] eqn:Ei; [|discriminate H].
  destruct (loop item f r2) as [[l' r3]|] eqn:El; [|discriminate H]. inversion H; subst.
  apply Forall_app. split; [exact (Hitem _ _ _ Ei) | exact (IH _ _ _ El)].
Qed.
Lemma scan_name_nonempty : forall o cl inner plain s n r, scan_name o cl inner plain s = Some (n, r) -> n <> EmptyString.
Proof.
  intros o cl inner plain s n r H. unfold scan_name in H. destruct (id_skip s) as [|c t]; [discriminate H|].
  destruct (Ascii.eqb c o).
  - destruct (span inner t) as [[|x b] [|c2 r2]]; try discriminate H. inversion H. discriminate.
  - destruct (plain c) eqn:Ec; [|discriminate H]. cbn [span] in H. rewrite Ec in H.
    destruct (span plain t) as [a b]. inversion H. discriminate.
Qed.
Definition xname_ok (a : xcarg) : Prop := match a with XName n => n <> EmptyString | XDelay _ => True end.
Definition xcell_ok (a : xsarg) : Prop := match a with XSCell args => Forall xname_ok args | XSName _ => True end.
Lemma cell_item_names : forall s a r, parse_cell_item s = Some (a, r) -> Forall xname_ok a.
Proof.
  intros s a r H. unfold parse_cell_item in H.
  destruct (drop_prefix "(TIMINGCHECK" s) as [r0|]; [destruct (parse_ignores r0); inversion H; constructor|].
  destruct (drop_prefix "(CELLTYPE" s) as [r0|]; [destruct (parse_nob_item true r0); inversion H; constructor|].
  destruct (drop_prefix "(INSTANCE" s) as [r0|].
  - unfold parse_instance in H. destruct (scan_id r0) as [[n r1]|] eqn:En.
    + destruct (expect ")" r1); inversion H. constructor; [|constructor]. exact (scan_name_nonempty _ _ _ _ _ _ _ En).
    + destruct (expect ")" r0); inversion H. constructor.
  - destruct (drop_prefix "(DELAY" s) as [r0|]; [|discriminate H]. unfold parse_delay in H.
    destruct (expect "(ABSOLUTE" r0) as [r1|]; [|discriminate H]. destruct (parse_entries (fuel_of r1) r1) as [[es r2]|]; [|discriminate H].
    destruct (expect ")" r2); inversion H. constructor; [exact I | constructor].
Qed.
Lemma top_item_cells : forall s a r, parse_top_item s = Some (a, r) -> Forall xcell_ok a.
Proof.
  intros s a r H. unfold parse_top_item in H.
  destruct (first_prefix hdr_kws s) as [r0|]; [destruct (parse_nob_item true r0); inversion H; constructor|].
  destruct (drop_prefix "(PROCESS" s) as [r0|]; [destruct (parse_nob_item false r0); inversion H; constructor|].
  destruct (drop_prefix "(DESIGN" s) as [r0|].
  - unfold parse_design in H. destruct (expect q1 r0) as [r1|]; [|discriminate H].
    destruct (span not_quote (skip_ign r1)) as [[|x n] [|c2 r2]]; try discriminate H.
    destruct (expect ")" r2); inversion H. constructor; [exact I | constructor].
  - destruct (drop_prefix "(CELL" s) as [r0|]; [|discriminate H].
    destruct (parse_cell (fuel_of r0) r0) as [[args r1]|] eqn:Ec; [|discriminate H]. inversion H; subst.
    constructor; [|constructor]. exact (loop_Forall xname_ok parse_cell_item cell_item_names _ _ _ _ Ec).
Qed.
Theorem parse_names_nonempty : forall text x args, parse_sdf text = Some x -> In (XSCell args) x -> xcell_key args <> Some EmptyString.
Proof.
  intros text x args H Hin Hk. unfold parse_sdf in H. destruct (expect "(DELAYFILE" text) as [r|]; [|discriminate H].
  destruct (parse_top (fuel_of r) r) as [[l r2]|] eqn:Et; [|discriminate H]. destruct (skip_ign r2); [|discriminate H]. inversion H; subst l.
  pose proof (loop_Forall xcell_ok parse_top_item top_item_cells _ _ _ _ Et) as Hall.
  rewrite Forall_forall in Hall. specialize (Hall _ Hin). cbn [xcell_ok] in Hall.
  apply xcell_key_In in Hk. rewrite Forall_forall in Hall. specialize (Hall _ Hk). cbn [xname_ok] in Hall. congruence.
Qed.
Theorem text_entry_kept_any : forall text x t df, parse_sdf text = Some x -> tree_of_x x = Some t -> start_cb t = Ok df ->
  forall args es xe, In (XSCell args) x -> In (XDelay es) args -> In xe es ->
  exists te e, entry_of_x xe = Some te /\ entry_cb te = Ok e /\ kept_in df (xcell_key args) e.
Proof.
  intros text x t df Hp Ht Hdf args es xe Hc Hd He.
  exact (x_entry_kept x t df Ht Hdf args es xe Hc Hd He (parse_names_nonempty _ _ _ Hp Hc)).
Qed.

(** ** the hypotheses are satisfiable; corner cases of the real parser (each line was run through lark and is a probe of
    harness/sdf_text.py CORNER_TEXTS) *)
Local Open Scope string_scope.
Example corner_cases :
  parse_sdf "(DELAYFILE)" = Some [] /\
  parse_sdf " (DELAYFILE)
//end" = Some [] /\
  parse_sdf "(DELAYFILE)x" = None /\
  parse_sdf "(DELAYFILEX)" = None /\
  parse_sdf (String.concat "" [(String (ascii_of_N 13) ""); "(DELAYFILE)"]) = None /\
  parse_sdf (String.concat "" [(String (ascii_of_N 13) ""); "
(DELAYFILE)"]) = Some [] /\
  parse_sdf "(DELAYFILE(DATE))" = None /\
  parse_sdf "(DELAYFILE(DATE ))" = Some [] /\
  parse_sdf "(DELAYFILE(DATE
))" = None /\
  parse_sdf "(DELAYFILE(DATE
 ))" = Some [] /\
  parse_sdf "(DELAYFILE(DATE//c
))" = None /\
  parse_sdf "(DELAYFILE(DATE //c
))" = Some [] /\
  parse_sdf "(DELAYFILE(DATE//)
x))" = Some [] /\
  parse_sdf "(DELAYFILE(DATEx))" = Some [] /\
  parse_sdf "(DELAYFILE(PROCESS))" = Some [] /\
  parse_sdf "(DELAYFILE(CELLTYPE ""x""))" = None /\
  parse_sdf "(DELAYFILE(DIVIDER /))" = Some [] /\
  parse_sdf "(DELAYFILE(DESIGN""top""))" = Some [XSName "top"] /\
  parse_sdf "(DELAYFILE(DESIGN "" top""))" = Some [XSName "top"] /\
  parse_sdf "(DELAYFILE(DESIGN ""top ""))" = Some [XSName "top "] /\
  parse_sdf "(DELAYFILE(DESIGN "" ""))" = None /\
  parse_sdf "(DELAYFILE(DESIGN ""//c
top""))" = Some [XSName "top"] /\
  parse_sdf "(DELAYFILE(DESIGN ""a(b)c""))" = Some [XSName "a(b)c"] /\
  parse_sdf "(DELAYFILE(CELL(INSTANCE)))" = Some [XSCell []] /\
  parse_sdf "(DELAYFILE(CELL(INSTANCEu1)))" = Some [XSCell [XName "u1"]] /\
  parse_sdf "(DELAYFILE(CELL(INSTANCE u1
)))" = Some [XSCell [XName "u1"]] /\
  parse_sdf "(DELAYFILE(CELL(INSTANCE u1 
)))" = Some [XSCell [XName "u1"]] /\
  parse_sdf "(DELAYFILE(CELL(INSTANCE	u1)))" = Some [XSCell [XName "u1"]] /\
  parse_sdf "(DELAYFILE(CELL(INSTANCE 	u1)))" = Some [XSCell [XName "u1"]] /\
  parse_sdf "(DELAYFILE(CELL(INSTANCE 
)))" = Some [XSCell []] /\
  parse_sdf "(DELAYFILE(CELL(INSTANCE ""u 1"")))" = Some [XSCell [XName """u 1"""]] /\
  parse_sdf "(DELAYFILE(CELL(INSTANCE ""u1)))" = None /\
  parse_sdf "(DELAYFILE(CELL(INSTANCE u1 u2)))" = None /\
  parse_sdf "(DELAYFILE(CELL(INSTANCE u\[1\]/x\.y)))" = Some [XSCell [XName "u\[1\]/x\.y"]] /\
  parse_sdf "(DELAYFILE(CELL(TIMINGCHECK x)))" = None /\
  parse_sdf "(DELAYFILE(CELL(TIMINGCHECK(a)b(c(d)e)f)))" = Some [XSCell []] /\
  parse_sdf "(DELAYFILE(CELL(TIMINGCHECK(//x(
))))" = Some [XSCell []] /\
  parse_sdf "(DELAYFILE(CELL(TIMINGCHECK( //x(
))))" = None /\
  parse_sdf "(DELAYFILE(CELL(TIMINGCHECK(a)//c)
)))" = Some [XSCell []] /\
  parse_sdf "(DELAYFILE(CELL(DELAY(ABSOLUTE(IOPATH (posedge CK)Q(1:2:3))))))" = Some [XSCell [XDelay [XEntry true "(posedge CK)" "Q" [["1"; "2"; "3"]]]]] /\
  parse_sdf "(DELAYFILE(CELL(DELAY(ABSOLUTE(IOPATH A Z ( 1: 2: 3)(::)())))))" = Some [XSCell [XDelay [XEntry true "A" "Z" [["1"; "2"; "3"]; [""; ""; ""]; []]]]] /\
  parse_sdf "(DELAYFILE(CELL(DELAY(ABSOLUTE(IOPATH A Z (1 :2:3))))))" = None /\
  parse_sdf "(DELAYFILE(CELL(DELAY(ABSOLUTE(IOPATH A Z (1:2:3 ))))))" = None /\
  parse_sdf "(DELAYFILE(CELL(DELAY(ABSOLUTE(IOPATH A	Z (1:2:3))))))" = Some [XSCell [XDelay [XEntry true "A" "Z" [["1"; "2"; "3"]]]]] /\
  parse_sdf "(DELAYFILE(CELL(DELAY(ABSOLUTE(IOPATH A Z
(1:2:3))))))" = Some [XSCell [XDelay [XEntry true "A" "Z" [["1"; "2"; "3"]]]]] /\
  parse_sdf "(DELAYFILE(CELL(DELAY(ABSOLUTE(INTERCONNECT ""a""""b c""(1.2.3:--:-))))))" = Some [XSCell [XDelay [XEntry false """a""" """b c""" [["1.2.3"; "--"; "-"]]]]] /\
  parse_sdf "(DELAYFILE(CELL(DELAY(ABSOLUTE(INTERCONNECT (posedge a) b (1:2:3))))))" = None /\
  parse_sdf "(DELAYFILE(CELL(DELAY(ABSOLUTE(INTERCONNECT a b (1:2:3)) // (IOPATH A Z (9:9:9))
))))" = Some [XSCell [XDelay [XEntry false "a" "b" [["1"; "2"; "3"]]]]] /\
  parse_sdf "(DELAYFILE(CELL(DELAY(INCREMENT))))" = None.

Proof. vm_compute. repeat split; reflexivity. Qed.

(* a file written with header entries, comments, tabs, "\r\n", a TIMINGCHECK and two CELL blocks of one instance *)
Definition ex_file : cfile :=
  {| cf_s0 := [IgComment " generated"; IgNl];
     cf_items :=
       [([IgNl], CTHdr "(SDFVERSION" " ""OVI 2.1""");
        ([IgSpace], CTDesign [IgSpace] [] "top" []);
        ([IgCrNl], CTHdr "(TIMESCALE" " 1ns");
        ([IgNl], CTProcess "");
        ([IgNl; IgTab], CTCell
           [([IgSpace], CCType " ""NAND2_X1""");
            ([IgNl; IgSpace; IgSpace], CCInst [IgSpace; IgTab] "u\[1\]" [IgSpace; IgComment " the instance"]);
            ([], CCDelay [] [([IgNl], CE true [IgSpace] "(posedge A1)" [IgSpace; IgSpace] "ZN"
                                       [([], CT3 [] "1" [IgSpace] "2.5" [IgNl] ".125"); ([IgSpace], CT0 [IgSpace])] [IgSpace]);
                             ([IgComment " (IOPATH A Z (9:9:9))"], CE true [IgSpace] "A2" [IgSpace] "ZN" [([IgSpace], CT3 [] "" [] "" [] "")] [])]
                      [IgNl] [IgSpace]);
            ([IgNl], CCTiming [IgNl; IgSpace] [(true, "SETUP "); (true, "posedge D"); (false, " "); (true, "0.5:0.5:0.5"); (false, ""); (false, String c_nl "  ")])]
           [IgNl]);
        ([IgNl], CTCell [([IgSpace], CCInst0 [IgSpace]);
                         ([], CCDelay [IgSpace] [([IgSpace], CE false [IgSpace] "a0" [IgSpace] "u\[1\]/A1" [([IgSpace], CT3 [] "0.25" [] "0.25" [] "0.25")] [])] [] [])] []);
        ([IgNl], CTCell [([IgSpace], CCInst [IgSpace] "u\[1\]" []);
                         ([IgSpace], CCDelay [IgSpace] [([IgSpace], CE true [IgSpace] "A1" [IgSpace] "ZN" [([IgSpace], CT3 [] "3" [] "3" [] "3"); ([IgSpace], CT3 [] "4" [] "4" [] "4")] [])] [] [])] [])];
     cf_sf := [IgNl]; cf_s1 := [IgNl]; cf_tail := Some " end" |}.
Definition ex_tree : list xsarg :=
  [XSName "top";
   XSCell [XName "u\[1\]"; XDelay [XEntry true "(posedge A1)" "ZN" [["1"; "2.5"; ".125"]; []]; XEntry true "A2" "ZN" [[""; ""; ""]]]];
   XSCell [XDelay [XEntry false "a0" "u\[1\]/A1" [["0.25"; "0.25"; "0.25"]]]];
   XSCell [XName "u\[1\]"; XDelay [XEntry true "A1" "ZN" [["3"; "3"; "3"]; ["4"; "4"; "4"]]]]].
Example ex_file_ok : cfile_ok ex_file = true /\ cfile_abs ex_file = ex_tree /\ parse_sdf (cfile_text ex_file) = Some ex_tree /\
  wf_tree ex_tree = true /\ parse_sdf (print_sdf ex_tree) = Some ex_tree /\
  cfile_abs (strip_file ex_file) = ex_tree /\ List.length (cf_items (strip_file ex_file)) = 4.
Proof. vm_compute. repeat split; reflexivity. Qed.
Example ex_file_text : cfile_text ex_file = String.concat "" [
  "// generated"; nl1; nl1; "(DELAYFILE"; nl1; "(SDFVERSION ""OVI 2.1"") (DESIGN ""top"")"; String c_cr nl1; "(TIMESCALE 1ns)"; nl1; "(PROCESS)"; nl1;
  String c_tab "(CELL (CELLTYPE ""NAND2_X1"")"; nl1; "  (INSTANCE "; String c_tab "u\[1\] // the instance"; nl1;
  ")(DELAY(ABSOLUTE"; nl1; "(IOPATH (posedge A1)  ZN(1: 2.5:"; nl1; ".125) ( ) )// (IOPATH A Z (9:9:9))"; nl1; "(IOPATH A2 ZN (::))"; nl1; ") )"; nl1;
  "(TIMINGCHECK"; nl1; " (SETUP (posedge D) (0.5:0.5:0.5))"; nl1; "  )"; nl1; ")"; nl1;
  "(CELL (INSTANCE )(DELAY (ABSOLUTE (INTERCONNECT a0 u\[1\]/A1 (0.25:0.25:0.25)))))"; nl1;
  "(CELL (INSTANCE u\[1\]) (DELAY (ABSOLUTE (IOPATH A1 ZN (3:3:3) (4:4:4)))))"; nl1; ")"; nl1; "// end"].
Proof. vm_compute. reflexivity. Qed.
(* the widened separators: names on the next line, after comments that follow a line break, after "\r\n" and tabs; no separator next to the
   quoted / parenthesised form; a comment directly after such a form; names that contain `//` or begin with `/` *)
Definition ex_wide : cfile :=
  {| cf_s0 := []; cf_items :=
       [([IgNl], CTCell
           [([IgNl], CCInst [IgNl; IgComment " name on the next line"; IgTab] "u1" [IgTab; IgComment "c"]);
            ([IgNl], CCInst0 [IgCrNl; IgComment "nothing"]);
            ([], CCInst [] "u2" [IgNl]);
            ([], CCInst [IgFf] """q r""" [IgComment "directly after the quoted form"]);
            ([IgNl], CCDelay [] [([], CE true [] "(posedge CK)" [] "Q" [([IgNl], CT3 [] "1" [] "2" [] "3")] []);
                                 ([], CE true [IgNl; IgComment "x"; IgComment "y"; IgCrNl; IgSpace] "A" [IgTab; IgNl; IgComment "z"] "(negedge B)"
                                        [([IgComment "after the parenthesised form"], CT0 [])] []);
                                 ([], CE true [IgSpace] "A" [] "(negedge B)" [] []);
                                 ([], CE false [IgTab] "a" [] """b c""" [] [IgCrNl]);
                                 ([], CE false [IgNl] "x//y" [IgNl] "/z" [] [IgFf])] [] [])] [])];
     cf_sf := []; cf_s1 := []; cf_tail := None |}.
Definition ex_wide_tree : list xsarg :=
  [XSCell [XName "u1"; XName "u2"; XName """q r""";
           XDelay [XEntry true "(posedge CK)" "Q" [["1"; "2"; "3"]]; XEntry true "A" "(negedge B)" [[]]; XEntry true "A" "(negedge B)" [];
                   XEntry false "a" """b c""" []; XEntry false "x//y" "/z" []]]].
Example ex_wide_ok : cfile_ok ex_wide = true /\ cfile_ok_v1 ex_wide = false /\ cfile_abs ex_wide = ex_wide_tree /\
  parse_sdf (cfile_text ex_wide) = Some ex_wide_tree /\
  cfile_text ex_wide = String.concat "" [
    "(DELAYFILE"; nl1; "(CELL"; nl1; "(INSTANCE"; nl1; "// name on the next line"; nl1; String c_tab "u1"; String c_tab "//c"; nl1; ")"; nl1;
    "(INSTANCE"; String c_cr nl1; "//nothing"; nl1; ")(INSTANCEu2"; nl1; ")(INSTANCE"; String c_ff """q r""//directly after the quoted form"; nl1; ")"; nl1;
    "(DELAY(ABSOLUTE(IOPATH(posedge CK)Q"; nl1; "(1:2:3))(IOPATH"; nl1; "//x"; nl1; "//y"; nl1; String c_cr nl1; " A"; String c_tab ""; nl1; "//z"; nl1;
    "(negedge B)//after the parenthesised form"; nl1; "())(IOPATH A(negedge B))(INTERCONNECT"; String c_tab "a""b c"""; String c_cr nl1; ")(INTERCONNECT"; nl1;
    "x//y"; nl1; "/z"; String c_ff ")))))"].
Proof. vm_compute. repeat split; reflexivity. Qed.
(* the boundary of the conditions on concrete texts (each is also a probe of harness/sdf_text.py CORNER_TEXTS, run through lark):
   a comment directly after a blank in front of a name is the name; directly after a name it belongs to the name; after a line break it is
   skipped; a name that begins with `//` vanishes after a line break; a lone "\r" or "\v" is neither name nor ignored *)
Example sep_boundary :
  parse_sdf ("(DELAYFILE(CELL(INSTANCE //c" ++ nl1 ++ ")))") = Some [XSCell [XName "//c"]] /\
  parse_sdf ("(DELAYFILE(CELL(INSTANCE //c" ++ nl1 ++ "u1)))") = None /\
  parse_sdf ("(DELAYFILE(CELL(INSTANCE" ++ nl1 ++ "//c" ++ nl1 ++ "u1)))") = Some [XSCell [XName "u1"]] /\
  parse_sdf ("(DELAYFILE(CELL(INSTANCE" ++ nl1 ++ " //c" ++ nl1 ++ "u1)))") = None /\
  parse_sdf ("(DELAYFILE(CELL(INSTANCE" ++ nl1 ++ " " ++ nl1 ++ "//c" ++ nl1 ++ "u1)))") = Some [XSCell [XName "u1"]] /\
  parse_sdf ("(DELAYFILE(CELL(INSTANCE u1//c" ++ nl1 ++ ")))") = Some [XSCell [XName "u1//c"]] /\
  parse_sdf ("(DELAYFILE(CELL(INSTANCE ""u1""//c" ++ nl1 ++ ")))") = Some [XSCell [XName """u1"""]] /\
  parse_sdf ("(DELAYFILE(CELL(INSTANCE" ++ nl1 ++ "//y" ++ nl1 ++ ")))") = Some [XSCell []] /\
  parse_sdf ("(DELAYFILE(CELL(INSTANCE" ++ nl1 ++ "//y)))") = None /\
  parse_sdf ("(DELAYFILE(CELL(INSTANCE //y)))") = Some [XSCell [XName "//y"]] /\
  parse_sdf ("(DELAYFILE(CELL(INSTANCE" ++ String c_cr "u1)))") = None /\
  parse_sdf ("(DELAYFILE(CELL(INSTANCE u1" ++ String c_cr ")))") = None /\
  parse_sdf ("(DELAYFILE(CELL(INSTANCE" ++ String (ascii_of_N 11) "u1)))") = None /\
  parse_sdf ("(DELAYFILE(CELL(INSTANCE u1" ++ String (ascii_of_N 11) ")))") = None /\
  parse_sdf ("(DELAYFILE(CELL(INSTANCE" ++ String c_cr nl1 ++ "//c" ++ nl1 ++ "//d" ++ nl1 ++ String c_tab " u1" ++ String c_tab nl1 ++ "//e" ++ nl1 ++ ")))") = Some [XSCell [XName "u1"]] /\
  parse_sdf "(DELAYFILE(CELL(DELAY(ABSOLUTE(IOPATH A(posedge B)(1:2:3))))))" = Some [XSCell [XDelay [XEntry true "A" "(posedge B)" [["1"; "2"; "3"]]]]] /\
  parse_sdf "(DELAYFILE(CELL(DELAY(ABSOLUTE(IOPATH AB(1:2:3)(4:5:6))))))" = Some [XSCell [XDelay [XEntry true "AB" "(1:2:3)" [["4"; "5"; "6"]]]]] /\
  parse_sdf "(DELAYFILE(CELL(DELAY(ABSOLUTE(INTERCONNECT a""b""(1:2:3))))))" = Some [XSCell [XDelay [XEntry false "a" """b""" [["1"; "2"; "3"]]]]] /\
  parse_sdf ("(DELAYFILE(CELL(DELAY(ABSOLUTE(IOPATH" ++ nl1 ++ "(posedge A)//c" ++ nl1 ++ "b(1:2:3))))))") = None /\
  parse_sdf ("(DELAYFILE(CELL(DELAY(ABSOLUTE(IOPATH" ++ nl1 ++ "(posedge A)" ++ nl1 ++ "//c" ++ nl1 ++ "b//d" ++ nl1 ++ "(1:2:3))))))") = Some [XSCell [XDelay [XEntry true "(posedge A)" "b//d" [["1"; "2"; "3"]]]]] /\
  parse_sdf ("(DELAYFILE(CELL(DELAY(ABSOLUTE(IOPATH" ++ nl1 ++ "(posedge A)" ++ nl1 ++ "//c" ++ nl1 ++ "(negedge b)//d" ++ nl1 ++ "(1:2:3))))))") = Some [XSCell [XDelay [XEntry true "(posedge A)" "(negedge b)" [["1"; "2"; "3"]]]]].
Proof. vm_compute. repeat split; reflexivity. Qed.
(* at the level of whole files [cfile_ok] is sufficient, not necessary: a misplaced EMPTY comment is lexed as the name `//`, and the name `//`
   written after it is then skipped as a comment -- the text denotes the content of the value by coincidence (which is why the exactness
   statements above are made at the scanner of a name) *)
Definition ex_coincidence : cfile :=
  {| cf_s0 := []; cf_items := [([], CTCell [([], CCInst [IgComment ""] "//" [IgNl])] [])]; cf_sf := []; cf_s1 := []; cf_tail := None |}.
Example ex_coincidence_ok : cfile_ok ex_coincidence = false /\ cfile_text ex_coincidence = ("(DELAYFILE(CELL(INSTANCE//" ++ nl1 ++ "//" ++ nl1 ++ ")))")%string /\
  parse_sdf (cfile_text ex_coincidence) = Some (cfile_abs ex_coincidence) /\ cfile_abs ex_coincidence = [XSCell [XName "//"]].
Proof. vm_compute. repeat split; reflexivity. Qed.
(* from the text to the DelayFile: both CELL blocks of u\[1\] are merged, numbers are 8 * value *)
Example ex_file_delayfile : exists t df, tree_of_x (cfile_abs ex_file) = Some t /\ start_cb t = Ok df /\
  delayfile_of_text (cfile_text ex_file) = Some (Ok df) /\ df_name df = Some "top" /\
  List.length (df_cells df) = 1 /\ (exists l, df_ic df = Some l /\ List.length l = 1) /\
  (forall l, In ("u\[1\]", l) (df_cells df) -> map e_a l = ["(posedge A1)"; "A2"; "A1"] /\ map e_r l = [[8; 20; 1]; [0; 0; 0]; [24; 24; 24]]%Z /\
                                                 map e_f l = [[]; [0; 0; 0]; [32; 32; 32]]%Z).
Proof.
  eexists. eexists. split; [vm_compute; reflexivity|]. split; [vm_compute; reflexivity|].
  split; [vm_compute; reflexivity|]. split; [reflexivity|]. split; [reflexivity|]. split; [eexists; split; reflexivity|].
  intros l [H|[]]. inversion H; subst. vm_compute. repeat split; reflexivity.
Qed.
Example dec8_examples : dec8 "1.5" = Some 12%Z /\ dec8 "-.125" = Some (-1)%Z /\ dec8 "5." = Some 40%Z /\ dec8 "007" = Some 56%Z /\
  dec8 "0.1" = None /\ dec_valid "0.1" = true /\ dec8 "1.2.3" = None /\ dec_valid "1.2.3" = false /\ dec_valid "-" = false /\ dec_valid "." = false /\
  dec8 "123456789012345" = Some 987654312098760%Z /\ dec8 "1234567890123456" = None /\ dec_valid "--1" = false.
Proof. vm_compute. repeat split; reflexivity. Qed.
(* since fix d9c2c16 (ID / ID_OR_EDGE exclude every \s character) a tab, line break, form feed or any other \s character ENDS a name: the
   instance of `(INSTANCE u1` NEWLINE `)` is "u1", `A<TAB>Z` are two pins (before the fix the newline became part of the instance name and the
   cell's delays were dropped; `A<TAB>Z` was one pin and the transformer raised) *)
Theorem name_whitespace_ends_name :
  parse_sdf ("(DELAYFILE(CELL(INSTANCE u1" ++ nl1 ++ ")))") = Some [XSCell [XName "u1"]] /\
  parse_sdf "(DELAYFILE(CELL(INSTANCE u1 )))" = Some [XSCell [XName "u1"]] /\
  parse_sdf ("(DELAYFILE(CELL(INSTANCE" ++ String c_tab "u1" ++ String c_cr nl1 ++ ")))") = Some [XSCell [XName "u1"]] /\
  parse_sdf ("(DELAYFILE(CELL(DELAY(ABSOLUTE(IOPATH A" ++ String c_tab "Z (1:2:3))))))") = Some [XSCell [XDelay [XEntry true "A" "Z" [["1"; "2"; "3"]]]]] /\
  (forall c, is_ws c = true -> ide_char c = false /\ id_char c = false) /\
  (forall c, is_b1 c = true \/ c = c_nl \/ c = c_cr -> is_ws c = true) /\
  exists t df, tree_of_text ("(DELAYFILE(CELL(INSTANCE u1" ++ nl1 ++ ")(DELAY(ABSOLUTE(IOPATH A" ++ String c_tab "Z (1:2:3))))))") = Some t /\
               start_cb t = Ok df /\ map fst (df_cells df) = ["u1"].
Proof.
  split; [vm_compute; reflexivity|]. split; [vm_compute; reflexivity|]. split; [vm_compute; reflexivity|]. split; [vm_compute; reflexivity|].
  split. { intros c H. unfold id_char, ide_char. rewrite H, orb_true_r. split; reflexivity. }
  split. { intros c [H|[H|H]]; [|subst c; reflexivity|subst c; reflexivity].
           unfold is_b1 in H. apply orb_true_iff in H. destruct H as [H|H]; [apply orb_true_iff in H; destruct H as [H|H]|];
           apply Ascii.eqb_eq in H; subst c; reflexivity. }
  eexists. eexists. split; [vm_compute; reflexivity|]. split; vm_compute; reflexivity.
Qed.
