(** C10: remove_dangling_nodes (and the clean-up fold of substitute) preserves the gate-by-gate function
    (id-based semantics [csol] of Model/CircuitSem.v).  No hypothesis on the value domain is needed. *)
From Coq Require Import List Arith Bool String NArith Lia.
From KV Require Model.Prims Model.Netlist Model.SimOps Model.NetlistSem Gen.SimTables.
From KV Require Import Model.Circuit Model.CircuitInv Model.CircuitView Model.CircuitSem Model.CircuitSubstSem
     Proofs.CircuitBase Proofs.CircuitProofs Proofs.CircuitViewProofs Proofs.CircuitDangling Proofs.CircuitElimSem.
Import ListNotations.
Local Open Scope list_scope.

(** ** what [gate_ok] demands of the line at out pin [k] *)
Section GateOut.
Context {V : Type} (sem : BinNums.N -> V -> V -> V -> V -> V) (zero : V).

Definition gate_out (kind : string) (ins : list (option nat)) (ifc : option V) (v : nat -> V) (k : nat) : option V :=
  match ifc with
  | Some s =>
      match k with
      | O => Some (sem (SimOps.lutv "BUF1") s zero zero zero)
      | S k' => if kind_is_dff kind
                then match k' with O => Some (sem (SimOps.lutv "INV1") s zero zero zero) | S _ => None end
                else Some (sem (SimOps.lutv "BUF1") s zero zero zero)
      end
  | None =>
      if kind_is_fork kind then
        Some (sem (SimOps.lutv "BUF1") (NetlistSem.pinv zero v ins 0) (NetlistSem.pinv zero v ins 1)
                  (NetlistSem.pinv zero v ins 2) (NetlistSem.pinv zero v ins 3))
      else
        match Prims.select_lut SimTables.kind_prefixes kind
                               (negb (Netlist.is_some (SimOps.pin ins 2))) (negb (Netlist.is_some (SimOps.pin ins 3))) with
        | Some sp => match k with
                     | O => Some (sem sp (NetlistSem.pinv zero v ins 0) (NetlistSem.pinv zero v ins 1)
                                      (NetlistSem.pinv zero v ins 2) (NetlistSem.pinv zero v ins 3))
                     | S _ => None
                     end
        | None => None
        end
  end.

Lemma gate_ok_iff : forall kind ins outs ifc (v : nat -> V),
  gate_ok sem zero kind ins outs ifc v <->
  (forall k o, SimOps.pin outs k = Some o -> forall x, gate_out kind ins ifc v k = Some x -> v o = x).
Proof.
  intros kind ins outs ifc v. unfold gate_ok, gate_out. destruct ifc as [s|].
  - split.
    + intros [A B] k o Hq x Hx. destruct k as [|k].
      * injection Hx as <-. apply A; auto.
      * destruct (kind_is_dff kind).
        -- destruct k as [|k]; [|discriminate]. injection Hx as <-. apply B; auto.
        -- injection Hx as <-. apply (B (S k) o); auto. lia.
    + intros H. split.
      * intros o Hq. apply (H 0 o Hq). reflexivity.
      * destruct (kind_is_dff kind).
        -- intros o Hq. apply (H 1 o Hq). reflexivity.
        -- intros k o Hk Hq. apply (H k o Hq). destruct k as [|k]; [lia|reflexivity].
  - destruct (kind_is_fork kind).
    + split.
      * intros A k o Hq x Hx. injection Hx as <-. apply (A k o Hq).
      * intros H k o Hq. apply (H k o Hq). reflexivity.
    + destruct (Prims.select_lut _ _ _ _) as [sp|].
      * split.
        -- intros A k o Hq x Hx. destruct k as [|k]; [|discriminate]. injection Hx as <-. apply A; auto.
        -- intros H o Hq. apply (H 0 o Hq). reflexivity.
      * split; auto. intros _ k o _ x Hx. discriminate.
Qed.

Lemma is_fork_kind_is_fork : forall k, is_fork k = true -> kind_is_fork k = true /\ kind_is_dff k = false.
Proof. intros k H. rewrite (fork_kind _ H). split; vm_compute; reflexivity. Qed.

(* for a fork the demand does not depend on the pin *)
Lemma gate_out_fork : forall kind ins ifc (v : nat -> V) k k',
  is_fork kind = true -> gate_out kind ins ifc v k = gate_out kind ins ifc v k'.
Proof.
  intros kind ins ifc v k k' H. destruct (is_fork_kind_is_fork _ H) as [A B]. unfold gate_out. rewrite A, B.
  destruct ifc; auto. destruct k, k'; reflexivity.
Qed.

Lemma gate_out_ext : forall kind ins ifc (v v' : nat -> V) k,
  (forall j, NetlistSem.pinv zero v ins j = NetlistSem.pinv zero v' ins j) ->
  gate_out kind ins ifc v k = gate_out kind ins ifc v' k.
Proof. intros kind ins ifc v v' k H. unfold gate_out. rewrite !H. reflexivity. Qed.

(* the out pins may lose entries; positions matter for non-forks only *)
Lemma gate_ok_outs_sub : forall kind ins outs outs' ifc (v : nat -> V),
  (forall k o, SimOps.pin outs' k = Some o -> exists k', SimOps.pin outs k' = Some o /\ (is_fork kind = false -> k' = k)) ->
  gate_ok sem zero kind ins outs ifc v -> gate_ok sem zero kind ins outs' ifc v.
Proof.
  intros kind ins outs outs' ifc v Hsub H. rewrite gate_ok_iff in *. intros k o Hq x Hx.
  destruct (Hsub k o Hq) as [k' [Hq' Hk]]. apply (H k' o Hq').
  destruct (is_fork kind) eqn:E.
  - rewrite (gate_out_fork kind ins ifc v k' k E). exact Hx.
  - rewrite (Hk eq_refl). exact Hx.
Qed.
End GateOut.

(** ** the frame of the line removals (in addition to Proofs/CircuitDangling.remove_lines_fold) *)
Lemma remove_lines_fold_frame : forall ls X c c', CCoreX X c -> ForkDenseX X c -> NoDup ls -> (forall l, In l ls -> In l (lines c)) ->
  fold_opt line_remove ls c = Some c' ->
  (forall x, (forall l, In l ls -> l_rdr (lst c l) <> Some x) -> n_ins (nst c' x) = n_ins (nst c x)) /\
  (forall x k o, nth k (n_outs (nst c' x)) None = Some o ->
     exists k', nth k' (n_outs (nst c x)) None = Some o /\ (is_fork (n_kind (nst c x)) = false -> k' = k)).
Proof.
  induction ls as [|l ls IH]; intros X c c' HC HD Hnd Hin Hfold; simpl in Hfold.
  - injection Hfold as <-. split; auto. intros x k o H. exists k. auto.
  - inv Hnd.
    destruct (line_remove_core X c l HC (Hin l (or_introl eq_refl))) as
        [c1 [d [r [Hrm [Hd [Hr [HC1 [F1 [F2 [F3 [F4 [F5 [F6 [F7 [F8 [F9 [F10 [F11 F12]]]]]]]]]]]]]]]]]].
    { intros d Hd Hfk. apply (HD d); auto.
      destruct (cc_line X c HC l (Hin l (or_introl eq_refl))) as [d0 [r0 [A1 [_ [A3 _]]]]]. congruence. }
    rewrite Hrm in Hfold.
    assert (HD1 : ForkDenseX X c1).
    { eapply (line_remove_dense X c c1 d); eauto. intros x. apply F8. }
    destruct (IH X c1 c' HC1 HD1 H2) as [I1 I2]; auto.
    { intros x Hx. apply F7. split. apply Hin; right; auto. intros ->. auto. }
    split.
    + intros x Hx. rewrite I1.
      * rewrite F10. destruct (Nat.eqb_spec x r); auto. subst x. exfalso. apply (Hx l (or_introl eq_refl)). exact Hr.
      * intros l' Hl'. assert (Hne : l' <> l) by (intros ->; auto).
        destruct (F11 l' Hne) as [_ [-> _]]. apply Hx. right; auto.
    + intros x k o Hq. destruct (I2 x k o Hq) as [k1 [Hq1 Hk1]]. rewrite F9 in Hq1.
      assert (Hkind : n_kind (nst c1 x) = n_kind (nst c x)) by apply F8.
      destruct (Nat.eqb_spec x d) as [->|Hxd].
      * unfold outs_after_remove in Hq1. destruct (is_fork (kind_of c d)) eqn:Efk.
        -- apply nth_In_opt in Hq1. apply In_remove_nth in Hq1. apply In_nth_opt in Hq1. destruct Hq1 as [q [_ Hq']].
           exists q. split; auto. intros Hnf. unfold kind_of in Efk. congruence.
        -- rewrite nth_gset in Hq1. destruct (Nat.eqb k1 (l_dpin (lst c l))); [discriminate|].
           exists k1. split; auto. intros Hnf. apply Hk1. rewrite Hkind. exact Hnf.
      * exists k1. split; auto. intros Hnf. apply Hk1. rewrite Hkind. exact Hnf.
Qed.

(** ** one level of remove_dangling_nodes: root.remove(), then every connected input line of root is removed *)
Record DangFrame (c c2 : circ) (root : nat) : Prop := mkDF {
  df_root : In root (nodes c);
  df_out : forall p, out_at c root p = None;
  df_port : io_mem c root = false;
  df_io : io c2 = io c;
  df_nodes : forall y, In y (nodes c2) <-> In y (nodes c) /\ y <> root;
  df_lines : forall y, In y (lines c2) <-> In y (lines c) /\ ~ In y (somes (ins_of c root));
  df_nk : forall x, n_name (nst c2 x) = n_name (nst c x) /\ n_kind (nst c2 x) = n_kind (nst c x);
  df_ins : forall x, x <> root -> n_ins (nst c2 x) = n_ins (nst c x);
  df_outs : forall x k o, nth k (n_outs (nst c2 x)) None = Some o ->
              exists k', nth k' (n_outs (nst c x)) None = Some o /\ (is_fork (n_kind (nst c x)) = false -> k' = k);
  df_drv : forall l, ~ In l (somes (ins_of c root)) -> l_drv (lst c2 l) = l_drv (lst c l)
}.

Lemma dangling_step : forall c root, CInv c -> In root (nodes c) -> somes (outs_of c root) = [] -> io_mem c root = false ->
  exists drivers c1 c2,
    all_somes (map (fun l => l_drv (lst c l)) (somes (ins_of c root))) = Some drivers /\
    node_remove c root = Some c1 /\ fold_opt line_remove (somes (ins_of c root)) c1 = Some c2 /\
    CInv c2 /\ (IoLive c -> IoLive c2) /\ (forall x, Known c x -> Known c2 x) /\
    List.length (lines c2) <= List.length (lines c) /\
    (drivers = [] \/ List.length (lines c2) < List.length (lines c)) /\
    (forall d, In d drivers -> In d (nodes c2)) /\
    DangFrame c c2 root.
Proof.
  intros c root HI Hroot Ho Hport. pose proof HI as [HC HD].
  pose proof (somes_nil_nth _ Ho) as Hout_none.
  remember (somes (ins_of c root)) as ls eqn:Els.
  assert (Hls : forall l, In l ls -> In l (lines c) /\ l_rdr (lst c l) = Some root).
  { intros l Hl. rewrite Els in Hl. apply somes_In in Hl. apply In_nth_opt in Hl. destruct Hl as [q [_ Hq]].
    destruct (cc_ins [] c HC root q l (or_introl Hroot) Hq) as [A [B _]]. auto. }
  assert (Hls_nd : NoDup ls).
  { rewrite Els. apply somes_nodup. intros i j x Hi Hj.
    destruct (cc_ins [] c HC root i x (or_introl Hroot) Hi) as [_ [_ A]].
    destruct (cc_ins [] c HC root j x (or_introl Hroot) Hj) as [_ [_ B]]. congruence. }
  assert (Hdrv : exists drivers, all_somes (map (fun l => l_drv (lst c l)) ls) = Some drivers /\
            forall d, In d drivers -> In d (nodes c) /\ d <> root).
  { clear Hls_nd Els. induction ls as [|l r IHr]; simpl.
    - exists []. split; auto. intros d [].
    - destruct (Hls l (or_introl eq_refl)) as [A B].
      destruct (cc_line [] c HC l A) as [d0 [r0 [E1 [E2 [[E3|[]] [_ [E5 _]]]]]]].
      rewrite E1. destruct IHr as [ds [Hds Hall]]. { intros x Hx. apply Hls. right; auto. }
      rewrite Hds. simpl. exists (d0 :: ds). split; auto. intros d [<-|Hd]; auto. split; auto.
      intros ->. unfold out_at in E5. rewrite Hout_none in E5. discriminate. }
  destruct Hdrv as [drivers [Hdrivers Hdr_in]].
  destruct (node_remove_core [] c root HC Hroot) as [c1 [Hrm1 [HC1 [N1 [N2 [N3 [N4 [N5 [N6 [N7 N8]]]]]]]]]].
  assert (HD1 : ForkDenseX [root] c1).
  { intros y Hy Hk p Hp. unf. destruct (N7 y) as [_ [A2 [_ A4]]]. rewrite A2 in Hk. rewrite A4 in *.
    apply (HD y); auto. left. destruct Hy as [Hy|[<-|[]]]; auto. apply N6 in Hy. tauto. }
  assert (Hls1 : forall l, In l ls -> In l (lines c1)).
  { intros l Hl. rewrite N3. apply Hls; auto. }
  destruct (remove_lines_fold ls [root] c1 HC1 HD1 Hls_nd Hls1) as [c2 [Hf [HC2 [HD2 [G1 [G2 [G3 [G4 [G5 [G6 [G7 G8]]]]]]]]]]].
  destruct (remove_lines_fold_frame ls [root] c1 c2 HC1 HD1 Hls_nd Hls1 Hf) as [E1 E2].
  exists drivers, c1, c2. split; [exact Hdrivers|]. split; [exact Hrm1|]. split; [exact Hf|].
  assert (Hroot_out : forall p, out_at c2 root p = None).
  { intros p. destruct (out_at c2 root p) as [x|] eqn:E; auto. exfalso.
    destruct (cc_outs _ c2 HC2 root p x (or_intror (or_introl eq_refl)) E) as [A [B _]].
    apply G5 in A. destruct A as [A A']. rewrite N3 in A.
    destruct (G8 x A') as [B1 _]. rewrite N4 in B1. rewrite B1 in B.
    destruct (cc_line [] c HC x A) as [d0 [r0 [E1' [_ [_ [_ [E5 _]]]]]]]. rewrite E1' in B. inv B.
    unfold out_at in E5. rewrite Hout_none in E5. discriminate. }
  assert (Hroot_in : forall p, in_at c2 root p = None).
  { intros p. destruct (in_at c2 root p) as [x|] eqn:E; auto. exfalso.
    destruct (cc_ins _ c2 HC2 root p x (or_intror (or_introl eq_refl)) E) as [A [B _]].
    apply G5 in A. destruct A as [A A']. rewrite N3 in A.
    destruct (G8 x A') as [_ B1]. rewrite N4 in B1. rewrite B1 in B.
    destruct (cc_line [] c HC x A) as [d0 [r0 [_ [E2' [_ [_ [_ E6]]]]]]]. rewrite E2' in B. inv B.
    apply A'. apply somes_In. eapply nth_In_opt. exact E6. }
  assert (HI2 : CInv c2).
  { split.
    - apply (ccore_shrink [root] [] c2 HC2). intros y []. intros y [<-|[]]. right. auto.
    - apply (dense_shrink [root] [] c2 HD2). intros y []. }
  assert (Hnodes2 : forall y, In y (nodes c2) <-> In y (nodes c) /\ y <> root).
  { intros y. rewrite G3. apply N6. }
  assert (Hlen2 : List.length (lines c2) <= List.length (lines c)).
  { apply NoDup_incl_length. apply (lidx_nodup _ c2 HC2). intros y Hy. apply G5 in Hy. rewrite N3 in Hy. tauto. }
  split; [exact HI2|].
  split.
  { intros HL e He. rewrite G4, N5 in He. destruct (HL e He) as [m [-> Hm]]. exists m. split; auto.
    apply Hnodes2. split; auto. intros ->.
    assert (io_mem c root = true); [|congruence].
    unfold io_mem. apply existsb_exists. exists (Some root). split; auto. apply Nat.eqb_refl. }
  split.
  { intros x [Hx|[D1 [D2 [D3 D4]]]].
    - destruct (Nat.eq_dec x root) as [->|Hne].
      + right. split. { intros H. apply Hnodes2 in H. tauto. }
        split. { apply (cc_xdead _ c2 HC2). left; auto. } auto.
      + left. apply Hnodes2. auto.
    - assert (Hxr : x <> root) by (intros ->; auto).
      assert (Hx1 : ~ NX [root] c1 x).
      { intros [H|[H|[]]]. apply N6 in H. tauto. congruence. }
      destruct (G7 x Hx1) as [A1 A2]. destruct (N7 x) as [_ [_ [B1 B2]]].
      right. split. { intros H. apply Hnodes2 in H. tauto. }
      split.
      { destruct (G6 x) as [_ [_ A3]]. rewrite A3.
        destruct N8 as [_ N9]. rewrite N9. destruct (Nat.eqb_spec x root); auto. }
      split; intros p; unf; [rewrite A1, B2|rewrite A2, B1]; auto. }
  split; [exact Hlen2|].
  split.
  { destruct ls as [|l0 lr].
    - simpl in Hdrivers. inv Hdrivers. left; auto.
    - right.
      assert (In l0 (lines c) /\ ~ In l0 (lines c2)).
      { split. apply Hls. left; auto. intros H. apply G5 in H. destruct H as [_ H]. apply H. left; auto. }
      destruct H as [A B].
      assert (Hincl : incl (l0 :: lines c2) (lines c)).
      { intros y [<-|Hy]; auto. apply G5 in Hy. rewrite N3 in Hy. tauto. }
      apply NoDup_incl_length in Hincl. simpl in Hincl. lia.
      constructor; auto. apply (lidx_nodup _ c2 HC2). }
  split.
  { intros d Hd. apply Hnodes2. apply Hdr_in. auto. }
  constructor.
  - exact Hroot.
  - intros p. unfold out_at. apply Hout_none.
  - exact Hport.
  - rewrite G4. exact N5.
  - exact Hnodes2.
  - intros y. rewrite <- Els, G5, N3. tauto.
  - intros x. destruct (G6 x) as [A [B _]]. destruct (N7 x) as [A' [B' _]]. split; congruence.
  - intros x Hx. rewrite E1.
    + apply N7.
    + intros l Hl. rewrite N4. destruct (Hls l Hl) as [_ ->]. congruence.
  - intros x k o Hq. destruct (E2 x k o Hq) as [k' [Hq' Hk']]. destruct (N7 x) as [_ [B' [_ D']]].
    rewrite D', B' in *. exists k'. auto.
  - rewrite <- Els. intros l Hl. destruct (G8 l Hl) as [-> _]. rewrite N4. reflexivity.
Qed.

(** ** interface flags of surviving nodes *)
Lemma ciface_keep : forall c c', CInv c -> IoLive c -> CInv c' -> IoLive c' -> io c' = io c ->
  (forall x, kind_of c' x = kind_of c x) -> (forall n, In n (nodes c') -> In n (nodes c)) ->
  forall m, In m (nodes c') -> ins_of c' m = ins_of c m -> ciface c' m = ciface c m.
Proof.
  intros c c' [HC _] HL [HC' _] HL' Hio Hk Hsub m Hm Hins. unfold ciface. rewrite Hk, Hins. f_equal.
  apply mem_iff. rewrite (s_node_ids_spec c HC HL), (s_node_ids_spec c' HC' HL'). rewrite !in_app_iff, !filter_In.
  unfold io_ids, node_is_dff, node_is_latch. rewrite Hio, Hk. pose proof (Hsub m Hm). tauto.
Qed.

Section DangSemantics.
Context {V : Type} (sem : BinNums.N -> V -> V -> V -> V -> V) (zero : V).

(** what remove_dangling_nodes maintains *)
Record DangSem (c c' : circ) : Prop := mkDS {
  ds_io : io c' = io c;
  ds_nk : forall x, name_of c' x = name_of c x /\ kind_of c' x = kind_of c x;
  ds_nodes : forall n, In n (nodes c') -> In n (nodes c);
  ds_lines : forall l, In l (lines c') -> In l (lines c);
  ds_if : forall n, In n (nodes c') -> ciface c' n = ciface c n /\ ins_of c' n = ins_of c n;
  ds_gone : forall n, In n (nodes c) -> ~ In n (nodes c') -> ~ In (Some n) (io c);
  ds_fwd : forall stim v, csol sem zero c stim v -> csol sem zero c' stim v;
  ds_bwd : forall stim v', csol sem zero c' stim v' ->
             exists v, csol sem zero c stim v /\ forall l, In l (lines c') -> v l = v' l
}.

Lemma dang_sem_refl : forall c, DangSem c c.
Proof.
  intros c. constructor.
  - reflexivity.
  - intros x. split; reflexivity.
  - auto.
  - auto.
  - intros n Hn. split; reflexivity.
  - intros n A B. contradiction.
  - auto.
  - intros stim v' H. exists v'. auto.
Qed.

Lemma dang_sem_trans : forall a b c, DangSem a b -> DangSem b c -> DangSem a c.
Proof.
  intros a b c [A1 A2 A3 A4 A5 A6 A7 A8] [B1 B2 B3 B4 B5 B6 B7 B8]. constructor.
  - congruence.
  - intros x. destruct (A2 x) as [P Q]. destruct (B2 x) as [P' Q']. split; congruence.
  - auto.
  - auto.
  - intros n Hn. destruct (B5 n Hn) as [P Q]. destruct (A5 n (B3 n Hn)) as [P' Q']. split; congruence.
  - intros n Hn Hn'. destruct (in_dec Nat.eq_dec n (nodes b)) as [Hb|Hb].
    + rewrite <- A1. apply B6; auto.
    + apply A6; auto.
  - auto.
  - intros stim v'' H. destruct (B8 stim v'' H) as [v' [H1 H2]]. destruct (A8 stim v' H1) as [v [H3 H4]].
    exists v. split; auto. intros l Hl. rewrite H4 by auto. apply H2; auto.
Qed.

(** one level: the structural parts and the forward direction *)
Lemma dang_frame_struct : forall c c2 root, CInv c -> IoLive c -> CInv c2 -> IoLive c2 -> DangFrame c c2 root ->
  io c2 = io c /\
  (forall x, name_of c2 x = name_of c x /\ kind_of c2 x = kind_of c x) /\
  (forall n, In n (nodes c2) -> In n (nodes c)) /\ (forall l, In l (lines c2) -> In l (lines c)) /\
  (forall n, In n (nodes c2) -> ciface c2 n = ciface c n /\ ins_of c2 n = ins_of c n) /\
  (forall n, In n (nodes c) -> ~ In n (nodes c2) -> ~ In (Some n) (io c)).
Proof.
  intros c c2 root HI HL HI2 HL2 [F1 F2 F3 F4 F5 F6 F7 F8 F9 F10].
  assert (Hk : forall x, kind_of c2 x = kind_of c x) by (intros x; apply F7).
  assert (Hsub : forall n, In n (nodes c2) -> In n (nodes c)) by (intros n Hn; apply F5 in Hn; tauto).
  split; [exact F4|]. split; [exact F7|]. split; [exact Hsub|].
  split. { intros l Hl. apply F6 in Hl. tauto. }
  split.
  - intros n Hn. assert (Hins : ins_of c2 n = ins_of c n). { apply F8. apply F5 in Hn. tauto. }
    split; auto. apply ciface_keep; auto.
  - intros n Hn Hn' Hio.
    assert (n = root). { destruct (Nat.eq_dec n root); auto. exfalso. apply Hn'. apply F5. auto. }
    subst n. assert (io_mem c root = true); [|congruence].
    unfold io_mem. apply existsb_exists. exists (Some root). split; auto. apply Nat.eqb_refl.
Qed.

Lemma dang_frame_fwd : forall c c2 root, CInv c -> IoLive c -> CInv c2 -> IoLive c2 -> DangFrame c c2 root ->
  forall stim v, csol sem zero c stim v -> csol sem zero c2 stim v.
Proof.
  intros c c2 root HI HL HI2 HL2 HF stim v Hs n Hn.
  destruct (dang_frame_struct c c2 root HI HL HI2 HL2 HF) as [S1 [S2 [S3 [S4 [S5 S6]]]]].
  destruct HF as [F1 F2 F3 F4 F5 F6 F7 F8 F9 F10].
  destruct (S5 n Hn) as [Hif Hins]. destruct (S2 n) as [_ Hk].
  unfold cnode_ok. rewrite Hif, Hk, Hins.
  apply (gate_ok_outs_sub sem zero _ _ (outs_of c n)); [|exact (Hs n (S3 n Hn))].
  intros k o Hq. rewrite pin_nth in Hq. destruct (F9 n k o Hq) as [k' [Hq' Hk']].
  exists k'. rewrite pin_nth. split; auto.
Qed.

(** one level: every solution of the smaller circuit extends to the removed lines *)
Lemma dang_frame_bwd : forall c c2 root, CInv c -> IoLive c -> CInv c2 -> IoLive c2 -> DangFrame c c2 root ->
  forall stim v', csol sem zero c2 stim v' ->
  exists v, csol sem zero c stim v /\ forall l, In l (lines c2) -> v l = v' l.
Proof.
  intros c c2 root HI HL HI2 HL2 HF stim v' Hs.
  destruct (dang_frame_struct c c2 root HI HL HI2 HL2 HF) as [S1 [S2 [S3 [S4 [S5 S6]]]]].
  destruct HF as [F1 F2 F3 F4 F5 F6 F7 F8 F9 F10].
  pose proof HI as [HC _]. pose proof HI2 as [HC2 _].
  set (ls := somes (ins_of c root)) in *.
  set (ifc := fun d => if ciface c d then Some (stim d) else None).
  set (dem := fun l => match l_drv (lst c l) with
                       | Some d => match gate_out sem zero (kind_of c d) (ins_of c d) (ifc d) v' (l_dpin (lst c l)) with
                                   | Some x => x | None => zero end
                       | None => zero end).
  set (v := fun l => if mem l ls then dem l else v' l).
  assert (Hv_keep : forall l, ~ In l ls -> v l = v' l).
  { intros l Hl. unfold v. rewrite (mem_false l ls Hl). reflexivity. }
  assert (Hls_rdr : forall l, In l ls -> l_rdr (lst c l) = Some root).
  { intros l Hl. unfold ls in Hl. apply somes_In in Hl. apply In_nth_opt in Hl. destruct Hl as [q [_ Hq]].
    destruct (cc_ins [] c HC root q l (or_introl F1) Hq) as [_ [B _]]. exact B. }
  exists v. split.
  - intros n Hn. unfold cnode_ok. fold (ifc n). apply gate_ok_iff. intros k o Hq x Hx.
    rewrite pin_out_at in Hq.
    destruct (Nat.eq_dec n root) as [->|Hne]. { rewrite F2 in Hq. discriminate. }
    assert (Hn2 : In n (nodes c2)) by (apply F5; auto).
    (* the in-pin values of n are the same under v and v' *)
    assert (Hpv : forall j, NetlistSem.pinv zero v (ins_of c n) j = NetlistSem.pinv zero v' (ins_of c n) j).
    { intros j. unfold NetlistSem.pinv. destruct (SimOps.pin (ins_of c n) j) as [i|] eqn:E; auto.
      apply Hv_keep. intros Hi. rewrite pin_in_at in E.
      destruct (cc_ins [] c HC n j i (or_introl Hn) E) as [_ [B _]]. rewrite (Hls_rdr i Hi) in B. congruence. }
    rewrite (gate_out_ext sem zero _ _ _ v v' k Hpv) in Hx.
    destruct (cc_outs [] c HC n k o (or_introl Hn) Hq) as [Ho_in [Ho_d Ho_p]].
    destruct (mem o ls) eqn:Eo.
    + (* a removed line: it carries the demanded value by construction *)
      unfold v. rewrite Eo. unfold dem. rewrite Ho_d, Ho_p, Hx. reflexivity.
    + (* a surviving line: the equation of n in c2 *)
      assert (Hnot : ~ In o ls). { intros H. apply mem_In in H. congruence. }
      rewrite (Hv_keep o Hnot).
      assert (Ho2 : In o (lines c2)) by (apply F6; auto).
      destruct (cc_line [] c2 HC2 o Ho2) as [d' [r' [E1 [_ [_ [_ [E5 _]]]]]]].
      rewrite (F10 o Hnot), Ho_d in E1. injection E1 as <-.
      set (p := l_dpin (lst c2 o)) in *.
      destruct (F9 n p o E5) as [k' [Hq' Hk']].
      destruct (cc_outs [] c HC n k' o (or_introl Hn) Hq') as [_ [_ Hp']].
      assert (Hkk : k' = k) by congruence. clear Hp'. subst k'.
      pose proof (Hs n Hn2) as Hnode. unfold cnode_ok in Hnode.
      destruct (S5 n Hn2) as [Hif Hins]. destruct (S2 n) as [_ Hk]. rewrite Hif, Hk, Hins in Hnode. fold (ifc n) in Hnode.
      rewrite gate_ok_iff in Hnode. apply (Hnode p o). { rewrite pin_out_at. exact E5. }
      destruct (is_fork (kind_of c n)) eqn:Efk.
      * rewrite (gate_out_fork sem zero _ _ _ v' p k Efk). exact Hx.
      * rewrite <- (Hk' Efk). exact Hx.
  - intros l Hl. apply Hv_keep. apply F6 in Hl. tauto.
Qed.

Lemma dang_frame_sem : forall c c2 root, CInv c -> IoLive c -> CInv c2 -> IoLive c2 -> DangFrame c c2 root -> DangSem c c2.
Proof.
  intros c c2 root HI HL HI2 HL2 HF.
  destruct (dang_frame_struct c c2 root HI HL HI2 HL2 HF) as [S1 [S2 [S3 [S4 [S5 S6]]]]].
  constructor; auto.
  - exact (dang_frame_fwd c c2 root HI HL HI2 HL2 HF).
  - exact (dang_frame_bwd c c2 root HI HL HI2 HL2 HF).
Qed.

(** ** the recursion *)
Lemma remove_dangling_sem_gen : forall fuel c root c', CInv c -> IoLive c -> Known c root -> List.length (lines c) < fuel ->
  remove_dangling fuel c root = Some c' ->
  CInv c' /\ IoLive c' /\ List.length (lines c') <= List.length (lines c) /\ (forall x, Known c x -> Known c' x) /\ DangSem c c'.
Proof.
  induction fuel as [|fuel IH]; intros c root c' HI HL HK Hfuel Hrd. lia.
  assert (Hsame : c' = c -> CInv c' /\ IoLive c' /\ List.length (lines c') <= List.length (lines c) /\
                            (forall x, Known c x -> Known c' x) /\ DangSem c c').
  { intros ->. split; auto. split; auto. split; auto. split; auto. apply dang_sem_refl. }
  simpl in Hrd.
  destruct (somes (outs_of c root)) as [|o1 orest] eqn:Ho.
  2:{ apply Hsame. congruence. }
  destruct (io_mem c root) eqn:Hport.
  { apply Hsame. congruence. }
  destruct HK as [Hroot|Hdet].
  2:{ (* already removed and disconnected: nothing happens *)
    destruct Hdet as [D1 [D2 [D3 D4]]].
    assert (Hi : somes (ins_of c root) = []).
    { destruct (somes (ins_of c root)) as [|x r] eqn:E; auto. exfalso.
      assert (Hx : In x (somes (ins_of c root))) by (rewrite E; left; auto).
      apply somes_In in Hx. apply In_nth_opt in Hx. destruct Hx as [q [_ Hq]]. unfold in_at in D4. rewrite D4 in Hq. discriminate. }
    rewrite Hi in Hrd. simpl in Hrd. unfold node_remove in Hrd. rewrite D2 in Hrd. simpl in Hrd. apply Hsame. congruence. }
  destruct (dangling_step c root HI Hroot Ho Hport) as
      [drivers [c1 [c2 [Q1 [Q2 [Q3 [HI2 [HL2 [HK2 [Hlen2 [Hcase [Hdr2 HF]]]]]]]]]]]].
  rewrite Q1, Q2, Q3 in Hrd. specialize (HL2 HL).
  pose proof (dang_frame_sem c c2 root HI HL HI2 HL2 HF) as HS2.
  destruct Hcase as [->|Hlt].
  { simpl in Hrd. injection Hrd as <-. split; auto. }
  assert (Hrec : forall ds c3 c'', CInv c3 -> IoLive c3 -> List.length (lines c3) <= List.length (lines c2) ->
            (forall d, In d ds -> Known c3 d) -> fold_opt (remove_dangling fuel) ds c3 = Some c'' ->
            CInv c'' /\ IoLive c'' /\ List.length (lines c'') <= List.length (lines c3) /\
            (forall x, Known c3 x -> Known c'' x) /\ DangSem c3 c'').
  { induction ds as [|d ds IHds]; intros c3 c'' HI3 HL3 Hl3 Hk3 Hfold; simpl in Hfold.
    - injection Hfold as <-. split; auto. split; auto. split; auto. split; auto. apply dang_sem_refl.
    - destruct (remove_dangling fuel c3 d) as [c4|] eqn:E4; [|discriminate].
      assert (Hfuel3 : List.length (lines c3) < fuel) by lia.
      destruct (IH c3 d c4 HI3 HL3 (Hk3 d (or_introl eq_refl)) Hfuel3 E4) as [HI4 [HL4 [Hl4 [Hk4 HS4]]]].
      destruct (IHds c4 c'' HI4 HL4) as [HI5 [HL5 [Hl5 [Hk5 HS5]]]]; auto. lia.
      { intros d' Hd'. apply Hk4. apply Hk3. right; auto. }
      split; auto. split; auto. split. lia. split; auto. eapply dang_sem_trans; eauto. }
  destruct (Hrec drivers c2 c' HI2 HL2 (le_n _)) as [HI' [HL' [Hl' [Hk' HS']]]]; auto.
  { intros d Hd. left. apply Hdr2. auto. }
  split; auto. split; auto. split. lia. split; auto. eapply dang_sem_trans; eauto.
Qed.

Lemma cleanup_sem_gen : forall dl c4 c', CInv c4 -> IoLive c4 -> (forall d, In d dl -> Known c4 d) ->
  cleanup dl c4 = Some c' -> CInv c' /\ IoLive c' /\ (forall x, Known c4 x -> Known c' x) /\ DangSem c4 c'.
Proof.
  unfold cleanup. induction dl as [|d dl IHdl]; intros c4 c' HI HL Hk Hfold; cbn [fold_opt] in Hfold.
  - injection Hfold as <-. split; auto. split; auto. split; auto. apply dang_sem_refl.
  - destruct (remove_dangling (dangling_fuel c4) c4 d) as [c5|] eqn:E5; [|discriminate].
    assert (Hfuel : List.length (lines c4) < dangling_fuel c4).
    { unfold dangling_fuel. pose proof (lines_le_lnext [] c4 (proj1 HI)). lia. }
    destruct (remove_dangling_sem_gen _ c4 d c5 HI HL (Hk d (or_introl eq_refl)) Hfuel E5) as [HI5 [HL5 [_ [Hk5 HS5]]]].
    destruct (IHdl c5 c' HI5 HL5) as [HI' [HL' [Hk' HS']]]; auto.
    { intros d' Hd'. apply Hk5. apply Hk. right; auto. }
    split; auto. split; auto. split; auto. eapply dang_sem_trans; eauto.
Qed.
End DangSemantics.

(** ** the statements *)
Definition DangSemStmt {V} (sem : BinNums.N -> V -> V -> V -> V -> V) (zero : V) (c c' : circ) : Prop :=
  CInv c' /\ IoLive c' /\ io c' = io c /\
  (forall x, name_of c' x = name_of c x /\ kind_of c' x = kind_of c x) /\
  (forall n, In n (nodes c') -> In n (nodes c)) /\ (forall l, In l (lines c') -> In l (lines c)) /\
  (forall n, In n (nodes c') -> ciface c' n = ciface c n /\ ins_of c' n = ins_of c n) /\
  (forall n, In n (nodes c) -> ~ In n (nodes c') -> ~ In (Some n) (io c)) /\
  (forall stim v, csol sem zero c stim v -> csol sem zero c' stim v) /\
  (forall stim v', csol sem zero c' stim v' -> exists v, csol sem zero c stim v /\ forall l, In l (lines c') -> v l = v' l).

Lemma dang_sem_stmt : forall V (sem : BinNums.N -> V -> V -> V -> V -> V) (zero : V) c c',
  CInv c' -> IoLive c' -> DangSem sem zero c c' -> DangSemStmt sem zero c c'.
Proof.
  intros V sem zero c c' HI HL [A1 A2 A3 A4 A5 A6 A7 A8]. unfold DangSemStmt.
  exact (conj HI (conj HL (conj A1 (conj A2 (conj A3 (conj A4 (conj A5 (conj A6 (conj A7 A8))))))))).
Qed.

(* structural parts and the forward direction only *)
Theorem remove_dangling_sem_fwd : forall V (sem : BinNums.N -> V -> V -> V -> V -> V) (zero : V),
  forall fuel c root c', CInv c -> IoLive c -> Known c root -> List.length (lines c) < fuel ->
  remove_dangling fuel c root = Some c' ->
  CInv c' /\ IoLive c' /\ io c' = io c /\
  (forall x, name_of c' x = name_of c x /\ kind_of c' x = kind_of c x) /\
  (forall n, In n (nodes c') -> In n (nodes c)) /\ (forall l, In l (lines c') -> In l (lines c)) /\
  (forall n, In n (nodes c') -> ciface c' n = ciface c n /\ ins_of c' n = ins_of c n) /\
  (forall n, In n (nodes c) -> ~ In n (nodes c') -> ~ In (Some n) (io c)) /\
  (forall stim v, csol sem zero c stim v -> csol sem zero c' stim v).
Proof.
  intros V sem zero fuel c root c' HI HL HK Hfuel Hrd.
  destruct (remove_dangling_sem_gen sem zero fuel c root c' HI HL HK Hfuel Hrd) as [HI' [HL' [_ [_ [A1 A2 A3 A4 A5 A6 A7 A8]]]]].
  exact (conj HI' (conj HL' (conj A1 (conj A2 (conj A3 (conj A4 (conj A5 (conj A6 A7)))))))).
Qed.

Theorem remove_dangling_sem : forall V (sem : BinNums.N -> V -> V -> V -> V -> V) (zero : V),
  forall fuel c root c', CInv c -> IoLive c -> Known c root -> List.length (lines c) < fuel ->
  remove_dangling fuel c root = Some c' ->
  CInv c' /\ IoLive c' /\ io c' = io c /\
  (forall x, name_of c' x = name_of c x /\ kind_of c' x = kind_of c x) /\
  (forall n, In n (nodes c') -> In n (nodes c)) /\ (forall l, In l (lines c') -> In l (lines c)) /\
  (forall n, In n (nodes c') -> ciface c' n = ciface c n /\ ins_of c' n = ins_of c n) /\
  (forall n, In n (nodes c) -> ~ In n (nodes c') -> ~ In (Some n) (io c)) /\
  (forall stim v, csol sem zero c stim v -> csol sem zero c' stim v) /\
  (forall stim v', csol sem zero c' stim v' -> exists v, csol sem zero c stim v /\ forall l, In l (lines c') -> v l = v' l).
Proof.
  intros V sem zero fuel c root c' HI HL HK Hfuel Hrd.
  destruct (remove_dangling_sem_gen sem zero fuel c root c' HI HL HK Hfuel Hrd) as [HI' [HL' [_ [_ HS]]]].
  exact (dang_sem_stmt V sem zero c c' HI' HL' HS).
Qed.

Theorem cleanup_sem : forall V (sem : BinNums.N -> V -> V -> V -> V -> V) (zero : V),
  forall dl c4 c', CInv c4 -> IoLive c4 -> (forall d, In d dl -> In d (nodes c4)) ->
  cleanup dl c4 = Some c' ->
  CInv c' /\ IoLive c' /\ io c' = io c4 /\
  (forall x, name_of c' x = name_of c4 x /\ kind_of c' x = kind_of c4 x) /\
  (forall n, In n (nodes c') -> In n (nodes c4)) /\ (forall l, In l (lines c') -> In l (lines c4)) /\
  (forall n, In n (nodes c') -> ciface c' n = ciface c4 n /\ ins_of c' n = ins_of c4 n) /\
  (forall n, In n (nodes c4) -> ~ In n (nodes c') -> ~ In (Some n) (io c4)) /\
  (forall stim v, csol sem zero c4 stim v -> csol sem zero c' stim v) /\
  (forall stim v', csol sem zero c' stim v' -> exists v, csol sem zero c4 stim v /\ forall l, In l (lines c') -> v l = v' l).
Proof.
  intros V sem zero dl c4 c' HI HL Hdl Hcl.
  destruct (cleanup_sem_gen sem zero dl c4 c' HI HL) as [HI' [HL' [_ HS]]]; auto.
  { intros d Hd. left. auto. }
  exact (dang_sem_stmt V sem zero c4 c' HI' HL' HS).
Qed.

(* the clean-up with roots that are merely Known (listed, or removed and disconnected) *)
Theorem cleanup_sem_known : forall V (sem : BinNums.N -> V -> V -> V -> V -> V) (zero : V),
  forall dl c4 c', CInv c4 -> IoLive c4 -> (forall d, In d dl -> Known c4 d) ->
  cleanup dl c4 = Some c' -> DangSemStmt sem zero c4 c' /\ (forall x, Known c4 x -> Known c' x).
Proof.
  intros V sem zero dl c4 c' HI HL Hdl Hcl.
  destruct (cleanup_sem_gen sem zero dl c4 c' HI HL Hdl Hcl) as [HI' [HL' [HK HS]]].
  split; auto. exact (dang_sem_stmt V sem zero c4 c' HI' HL' HS).
Qed.

Print Assumptions remove_dangling_sem.
Print Assumptions cleanup_sem.
Print Assumptions cleanup_sem_known.
