(** Circuit-level (op-list level) shift / scale equivariance and monotonicity of the timing simulator (C04):
    the per-gate theorems of Proofs/WaveEquiv.v folded over ANY op list. *)
From Coq Require Import List ZArith NArith Bool Arith Lia.
From KV Require Import Model.Prims Model.Logic Model.OpSem Model.SimOps Model.Time Model.WaveEval Model.WaveSpec Model.WaveOps
     Model.WaveSimModel Model.WaveAcc Proofs.WaveCore Proofs.WaveEquiv Proofs.WaveCircuit.
Import ListNotations.
Local Open Scope list_scope.

(* ------------------------------------------------------------------ *)
(** * [wexec] respects pointwise equality of environments and delay tables *)

Lemma wop_ext delays delays' cap (e e' : wenv) o :
  (forall k, delays k = delays' k) -> (forall k, e k = e' k) -> wop delays cap e o = wop delays' cap e' o.
Proof.
  intros Hd He. unfold wop. cbn [map]. rewrite !Hd, !He. reflexivity.
Qed.

Lemma wstep_ext delays delays' cap (e e' : wenv) o :
  (forall k, delays k = delays' k) -> (forall k, e k = e' k) ->
  forall k, wstep delays cap e o k = wstep delays' cap e' o k.
Proof.
  intros Hd He k. unfold wstep, wupd. rewrite (wop_ext delays delays' cap e e' o Hd He), He. reflexivity.
Qed.

Lemma wexec_ext delays delays' cap ops : (forall k, delays k = delays' k) ->
  forall (e e' : wenv), (forall k, e k = e' k) ->
  forall k, wexec delays cap ops e k = wexec delays' cap ops e' k.
Proof.
  intros Hd. induction ops as [|o ops IH]; intros e e' He k; [apply He|].
  cbn [wexec fold_left]. apply IH. apply wstep_ext; assumption.
Qed.

Lemma wexec_cons delays cap o ops e : wexec delays cap (o :: ops) e = wexec delays cap ops (wstep delays cap e o).
Proof. reflexivity. Qed.

Lemma wexec_app delays cap ops1 ops2 e :
  wexec delays cap (ops1 ++ ops2) e = wexec delays cap ops2 (wexec delays cap ops1 e).
Proof. unfold wexec. apply fold_left_app. Qed.

(* ------------------------------------------------------------------ *)
(** * Lifting a per-op commutation to the op list *)

Lemma wexec_map (h : time -> time) delays delays' cap :
  (forall (e : wenv) o, wop delays' cap (fun k => map h (e k)) o = map h (wop delays cap e o)) ->
  forall ops (e : wenv) k,
    wexec delays' cap ops (fun j => map h (e j)) k = map h (wexec delays cap ops e k).
Proof.
  intros Hop. induction ops as [|o ops IH]; intros e k; [reflexivity|].
  rewrite !wexec_cons. rewrite <- IH.
  apply wexec_ext; [reflexivity|]. intros j.
  unfold wstep, wupd. destruct (Nat.eqb j (s_out o)); [apply Hop|reflexivity].
Qed.

Lemma wop_total delays cap (e : wenv) o :
  exists r, wave_eval (s_lut o) (wsof e o) (dsof delays o) (zof cap o) = Some r.
Proof. apply WaveEquiv.wave_eval_some. reflexivity. Qed.

Lemma wop_shift delays cap delta (e : wenv) o :
  wop delays cap (fun k => map (shift delta) (e k)) o = map (shift delta) (wop delays cap e o).
Proof.
  destruct (wop_total delays cap e o) as (r & Hr).
  destruct (shift_equivariant (s_lut o) (wsof e o) (dsof delays o) (zof cap o) (zof cap o) delta r) as (r' & Hr' & Hz & _);
    try reflexivity; [exact Hr|].
  rewrite !wop_eq, Hr.
  replace (wsof (fun k => map (shift delta) (e k)) o) with (map (map (shift delta)) (wsof e o)) by reflexivity.
  rewrite Hr'. exact Hz.
Qed.

Lemma wop_scale delays cap c (e : wenv) o : (0 < c)%Z ->
  wop (fun k => dscale c (delays k)) cap (fun k => map (scale c) (e k)) o = map (scale c) (wop delays cap e o).
Proof.
  intros Hc. destruct (wop_total delays cap e o) as (r & Hr).
  destruct (scale_equivariant (s_lut o) (wsof e o) (dsof delays o) (zof cap o) (zof cap o) c r Hc) as (r' & Hr' & Hz & _);
    try reflexivity; [exact Hr|].
  rewrite !wop_eq, Hr.
  replace (wsof (fun k => map (scale c) (e k)) o) with (map (map (scale c)) (wsof e o)) by reflexivity.
  replace (dsof (fun k => dscale c (delays k)) o) with (map (dscale c) (dsof delays o)) by reflexivity.
  rewrite Hr'. exact Hz.
Qed.

(* ------------------------------------------------------------------ *)
(** * C04, circuit level: shift and scale *)

(** Shifting every input waveform by delta shifts every waveform of the circuit by delta.  No side condition: the sentinels
    (TMIN, TMAX, TMAX_OVL) are fixed by [shift], so constant signals (the zero slot, constant inputs) are their own shift. *)
Theorem circuit_shift delays cap ops (e : wenv) delta k :
  wexec delays cap ops (fun j => map (shift delta) (e j)) k = map (shift delta) (wexec delays cap ops e k).
Proof. apply wexec_map. intros e' o. apply wop_shift. Qed.

Theorem circuit_scale delays cap ops (e : wenv) c k : (0 < c)%Z ->
  wexec (fun j => dscale c (delays j)) cap ops (fun j => map (scale c) (e j)) k = map (scale c) (wexec delays cap ops e k).
Proof. intros Hc. apply wexec_map. intros e' o. apply wop_scale, Hc. Qed.

(** The form in which a rerun is made: the inputs that carry transitions are shifted, signals without a finite entry
    (constants, the zero slot, unused slots) are left as they are. *)
Lemma no_fin_shift delta w : no_fin w -> map (shift delta) w = w.
Proof.
  induction 1 as [|t w Ht _ IH]; [reflexivity|]. cbn [map]. rewrite IH. destruct t; try reflexivity; discriminate Ht.
Qed.

Lemma no_fin_scale c w : no_fin w -> map (scale c) w = w.
Proof.
  induction 1 as [|t w Ht _ IH]; [reflexivity|]. cbn [map]. rewrite IH. destruct t; try reflexivity; discriminate Ht.
Qed.

Theorem circuit_shift_inputs delays cap ops (e e' : wenv) delta :
  (forall j, e' j = map (shift delta) (e j) \/ (e' j = e j /\ no_fin (e j))) ->
  forall k, wexec delays cap ops e' k = map (shift delta) (wexec delays cap ops e k).
Proof.
  intros H k. rewrite <- circuit_shift. apply wexec_ext; [reflexivity|].
  intros j. destruct (H j) as [E|[E Hn]]; [exact E|]. rewrite E. symmetry. apply no_fin_shift, Hn.
Qed.

Theorem circuit_scale_inputs delays cap ops (e e' : wenv) c : (0 < c)%Z ->
  (forall j, e' j = map (scale c) (e j) \/ (e' j = e j /\ no_fin (e j))) ->
  forall k, wexec (fun j => dscale c (delays j)) cap ops e' k = map (scale c) (wexec delays cap ops e k).
Proof.
  intros Hc H k. rewrite <- circuit_scale by exact Hc. apply wexec_ext; [reflexivity|].
  intros j. destruct (H j) as [E|[E Hn]]; [exact E|]. rewrite E. symmetry. apply no_fin_scale, Hn.
Qed.

(** What s_to_c writes: shifting the transition time of the stimulus IS shifting the assigned waveform *)
Lemma shift_assign_wave delta i t f : map (shift delta) (assign_wave i t f) = assign_wave i (shift delta t) f.
Proof. destruct i, f; reflexivity. Qed.
Lemma scale_assign_wave c i t f : map (scale c) (assign_wave i t f) = assign_wave i (scale c t) f.
Proof. destruct i, f; reflexivity. Qed.

(** environments produced from a stimulus table (initial value, transition time, final value) per input index *)
Definition stim_env (s : nat -> option (bool * time * bool)) : wenv :=
  fun k => match s k with Some (i, t, f) => assign_wave i t f | None => [MaxInf] end.
Definition stim_map (h : time -> time) (s : nat -> option (bool * time * bool)) : nat -> option (bool * time * bool) :=
  fun k => match s k with Some (i, t, f) => Some (i, h t, f) | None => None end.

Theorem circuit_shift_stimulus delays cap ops s delta k :
  wexec delays cap ops (stim_env (stim_map (shift delta) s)) k = map (shift delta) (wexec delays cap ops (stim_env s) k).
Proof.
  apply circuit_shift_inputs. intros j. left. unfold stim_env, stim_map.
  destruct (s j) as [[[i t] f]|]; [symmetry; apply shift_assign_wave|reflexivity].
Qed.

Theorem circuit_scale_stimulus delays cap ops s c k : (0 < c)%Z ->
  wexec (fun j => dscale c (delays j)) cap ops (stim_env (stim_map (scale c) s)) k =
  map (scale c) (wexec delays cap ops (stim_env s) k).
Proof.
  intros Hc. apply circuit_scale_inputs; [exact Hc|]. intros j. left. unfold stim_env, stim_map.
  destruct (s j) as [[[i t] f]|]; [symmetry; apply scale_assign_wave|reflexivity].
Qed.

(* ------------------------------------------------------------------ *)
(** * C04, circuit level: strict monotonicity for polarity-free delays *)

Lemma si_upto_end w : strictly_increasing w -> strictly_increasing (upto_end w).
Proof.
  intros H i j Hij Hj. rewrite WaveEquiv.ntrans_upto_end in Hj.
  rewrite !WaveEquiv.wget_upto_end by lia. apply H; assumption.
Qed.

Lemma wop_mono delays cap (e : wenv) o :
  good_delays delays -> good_caps cap -> (forall k, dtab_polfree (delays k)) ->
  (forall k, wf_wave (e k)) -> (forall k, strictly_increasing (e k)) ->
  strictly_increasing (wop delays cap e o).
Proof.
  intros Hd Hc Hp Hw Hs.
  destruct (wop_some delays cap e o Hd Hc Hw) as (r & Hr & ->).
  apply si_upto_end.
  apply (mono_polarity_free (s_lut o) (wsof e o) (dsof delays o) (zof cap o) r (args_wf' delays cap e o Hd Hc Hw)); [| |exact Hr].
  - unfold dsof, idxs. cbn [map]. repeat constructor; apply Hp.
  - unfold wsof, idxs. cbn [map]. repeat constructor; apply Hs.
Qed.

Theorem circuit_mono delays cap ops (e : wenv) :
  good_delays delays -> good_caps cap -> (forall k, dtab_polfree (delays k)) ->
  (forall k, wf_wave (e k)) -> (forall k, strictly_increasing (e k)) ->
  forall k, strictly_increasing (wexec delays cap ops e k).
Proof.
  intros Hd Hc Hp. revert e. induction ops as [|o ops IH]; intros e Hw Hs k; [apply Hs|].
  rewrite wexec_cons. apply IH.
  - intros j. unfold wstep, wupd. destruct (Nat.eqb j (s_out o)); [|apply Hw].
    apply wop_props; assumption.
  - intros j. unfold wstep, wupd. destruct (Nat.eqb j (s_out o)); [|apply Hs].
    apply wop_mono; assumption.
Qed.

(* ------------------------------------------------------------------ *)
(** * Instances on the op list of Proofs/WaveCircuit.v (inverter chain 0 -> 2 -> 3, XOR2 of (0, 3) into 4) *)

Module Example2.
Import Example1.
Local Open Scope Z_scope.

(** inputs written by s_to_c: input 0 rises at 10, input 1 falls at 7; index 9 (and every other index) is constant 0 *)
Definition stim : nat -> option (bool * time * bool) := fun k =>
  match k with 0%nat => Some (false, Fin 10, true) | 1%nat => Some (true, Fin 7, false) | _ => None end.

Example stim_line4 : wexec dl cp ops (stim_env stim) 4%nat = [Fin 11; Fin 21; MaxInf].
Proof. vm_compute. reflexivity. Qed.
Example shift_stim_line4 :
  wexec dl cp ops (stim_env (stim_map (shift 16) stim)) 4%nat = [Fin 27; Fin 37; MaxInf].
Proof. rewrite circuit_shift_stimulus, stim_line4. reflexivity. Qed.
Example scale_stim_line4 :
  wexec (fun j => dscale 4 (dl j)) cp ops (stim_env (stim_map (scale 4) stim)) 4%nat = [Fin 44; Fin 84; MaxInf].
Proof. rewrite circuit_scale_stimulus by lia. rewrite stim_line4. reflexivity. Qed.

(** the multi-transition environment e0 of Example1 (the XOR output overflows): shifted by -5 *)
Example shift_e0_line4 :
  wexec dl cp ops (fun j => map (shift (-5)) (e0 j)) 4%nat = [Fin 6; Fin 16; MaxOvl].
Proof. rewrite circuit_shift, line4_wave. reflexivity. Qed.

(** the hypotheses of [circuit_shift_inputs] hold when only input 0 is moved and everything else is constant *)
Definition e1 : wenv := fun k => match k with 0%nat => [Fin 10; Fin 20; Fin 50; MaxInf; MaxInf] | _ => [MaxInf] end.
Definition e1' : wenv := fun k => match k with 0%nat => [Fin 13; Fin 23; Fin 53; MaxInf; MaxInf] | _ => [MaxInf] end.
Lemma e1_moves j : e1' j = map (shift 3) (e1 j) \/ (e1' j = e1 j /\ no_fin (e1 j)).
Proof. destruct j as [|j]; [left; reflexivity|right; split; [reflexivity|repeat constructor]]. Qed.
Example shift_inputs_line4 : wexec dl cp ops e1' 4%nat = map (shift 3) (wexec dl cp ops e1 4%nat).
Proof. exact (circuit_shift_inputs dl cp ops e1 e1' 3 e1_moves 4%nat). Qed.

(** monotonicity: polarity-free delay tables *)
Definition dlp : nat -> dtab := fun k =>
  match k with
  | 0%nat => {| d00 := 2; d01 := 2; d10 := 2; d11 := 2 |}
  | 2%nat => {| d00 := 5; d01 := 5; d10 := 5; d11 := 5 |}
  | 3%nat => {| d00 := 1; d01 := 1; d10 := 1; d11 := 1 |}
  | _ => dzero
  end.
Lemma dlp_ok : good_delays dlp.
Proof. intros k. destruct k as [|[|[|[|k]]]]; cbv; repeat split; discriminate. Qed.
Lemma dlp_polfree k : dtab_polfree (dlp k).
Proof. destruct k as [|[|[|[|k]]]]; cbv; repeat split. Qed.
Lemma e0_si k : strictly_increasing (e0 k).
Proof.
  destruct k as [|[|k]]; intros i j Hij Hj; cbn in Hj.
  - destruct j as [|[|[|j]]]; try lia; destruct i as [|[|i]]; try lia; reflexivity.
  - destruct j as [|[|j]]; try lia; destruct i as [|i]; try lia; reflexivity.
  - lia.
Qed.
Example mono_line4 : strictly_increasing (wexec dlp cp ops e0 4%nat).
Proof. exact (circuit_mono dlp cp ops e0 dlp_ok cp_ok dlp_polfree e0_wf e0_si 4%nat). Qed.
Eval vm_compute in (map (wexec dlp cp ops e0) [2; 3; 4]%nat).
End Example2.

Print Assumptions circuit_shift.
Print Assumptions circuit_scale.
Print Assumptions circuit_shift_inputs.
Print Assumptions circuit_scale_inputs.
Print Assumptions circuit_mono.
