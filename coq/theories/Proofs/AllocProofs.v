(** Soundness of the certificates of Model/AllocCheck.v:
    A1 [map_check_sound]   a checked memory map makes flat-memory execution refine line-level execution;
    A2 [perm_level_sound]  a checked level partition may be executed in any order inside each level;
    A3 [levels_valid]      the greedy levelisation of SimOps yields a checked schedule on op lists in
                           single-assignment topological form ([ssa_topo]). *)
From Coq Require Import List NArith ZArith Bool Arith Lia Permutation.
From KV Require Import Model.Netlist Model.SimOps Model.AllocCheck.
Import ListNotations.
Local Open Scope list_scope.

(* ------------------------------------------------------------------------------------------------ *)
(** * A1: memory map *)

Lemma oget_oset w l x l' : oget (oset w l x) l' = if Nat.eqb l' l then Some x else oget w l'.
Proof. reflexivity. Qed.

Section MapSound.
  Context {V : Type} (sem : N -> V -> V -> V -> V -> V) (dflt : V).
  Variable loc : nat -> option nat.
  Variable alias : nat -> nat.

  (** every owned location holds the line-level value of its owner, and is the owner's location *)
  Definition own_inv (w : owner_map) (m : @fmem V) (e : @ienv V) : Prop :=
    forall l y, oget w l = Some y -> m l = e y /\ loc y = Some l.

  Lemma readable_sound w m e x :
    own_inv w m e -> readable loc alias w x = true -> mread dflt loc m x = e (alias x).
  Proof.
    intros Hinv Hr. unfold readable in Hr. unfold mread.
    destruct (loc x) as [l|] eqn:Hl; [|discriminate].
    destruct (oget w l) as [y|] eqn:Hw; [|discriminate].
    apply Nat.eqb_eq in Hr. subst y. apply (Hinv _ _ Hw).
  Qed.

  Lemma own_step_sound w m e o lo :
    own_inv w m e ->
    forallb (fun x => readable loc alias w x && alias_ok loc alias x) [s_i0 o; s_i1 o; s_i2 o; s_i3 o] = true ->
    loc (s_out o) = Some lo ->
    own_inv (oset w lo (s_out o)) (mstep sem dflt loc m o) (istep sem alias e o).
  Proof.
    intros Hinv Hops Hlo.
    cbn [forallb] in Hops. rewrite !andb_true_iff in Hops.
    destruct Hops as ((H0 & _) & (H1 & _) & (H2 & _) & (H3 & _) & _).
    unfold mstep, istep. rewrite Hlo.
    rewrite (readable_sound _ _ _ _ Hinv H0), (readable_sound _ _ _ _ Hinv H1),
            (readable_sound _ _ _ _ Hinv H2), (readable_sound _ _ _ _ Hinv H3).
    intros l y Hg. rewrite oget_oset in Hg. unfold fupd, iupd.
    destruct (Nat.eqb l lo) eqn:El.
    - apply Nat.eqb_eq in El. injection Hg as <-. subst l.
      rewrite Nat.eqb_refl. split; [reflexivity|assumption].
    - destruct (Hinv _ _ Hg) as [Hm Hy].
      assert (Ny : Nat.eqb y (s_out o) = false).
      { apply Nat.eqb_neq. intros ->. rewrite Hlo in Hy. injection Hy as ->.
        rewrite Nat.eqb_refl in El. discriminate. }
      rewrite Ny. split; assumption.
  Qed.

  Lemma own_run_sound : forall ops w m e w',
    own_inv w m e -> own_run loc alias w ops = Some w' ->
    own_inv w' (mexec sem dflt loc ops m) (iexec sem alias ops e).
  Proof.
    induction ops as [|o r IH]; intros w m e w' Hinv Hrun.
    - injection Hrun as <-. exact Hinv.
    - cbn [own_run] in Hrun.
      destruct (forallb _ _ && _) eqn:Hc; [|discriminate].
      apply andb_true_iff in Hc. destruct Hc as [Hops _].
      destruct (loc (s_out o)) as [lo|] eqn:Hlo; [|discriminate].
      unfold mexec, iexec. cbn [fold_left].
      apply (IH _ _ _ _ (own_step_sound _ _ _ _ _ Hinv Hops Hlo) Hrun).
  Qed.

  Let init_step := fun (acc : option owner_map) (x : nat) =>
    match acc, loc x with
    | Some w, Some l => match oget w l with None => Some (oset w l x) | Some _ => None end
    | _, _ => None
    end.

  Lemma init_none ini : fold_left init_step ini None = None.
  Proof. induction ini; simpl; auto. Qed.

  Lemma own_init_spec : forall ini w w',
    fold_left init_step ini (Some w) = Some w' ->
    forall l y, oget w' l = Some y -> oget w l = Some y \/ (In y ini /\ loc y = Some l).
  Proof.
    induction ini as [|a r IH]; intros w w' Hf l y Hg.
    - injection Hf as <-. left. exact Hg.
    - cbn [fold_left] in Hf. unfold init_step at 2 in Hf.
      destruct (loc a) as [la|] eqn:Hla; [|rewrite init_none in Hf; discriminate].
      destruct (oget w la) eqn:Hwa; [rewrite init_none in Hf; discriminate|].
      destruct (IH _ _ Hf _ _ Hg) as [Hold|[Hin Hl]].
      + rewrite oget_oset in Hold. destruct (Nat.eqb l la) eqn:El.
        * apply Nat.eqb_eq in El. injection Hold as <-. subst l. right. split; [left; reflexivity|exact Hla].
        * left. exact Hold.
      + right. split; [right; exact Hin|exact Hl].
  Qed.
End MapSound.

Theorem map_check_sound {V} (sem : N -> V -> V -> V -> V -> V) (dflt : V) loc alias init final ops :
  map_check loc alias init final ops = true ->
  forall (e0 : ienv) (m0 : fmem),
    (forall x l, In x init -> loc x = Some l -> m0 l = e0 x) ->
    forall p, In p final ->
      mread dflt loc (mexec sem dflt loc ops m0) p = iexec sem alias ops e0 (alias p).
Proof.
  intros Hc e0 m0 H0 p Hp. unfold map_check in Hc.
  apply andb_true_iff in Hc. destruct Hc as [_ Hc].
  destruct (own_init loc init) as [w0|] eqn:Hi; [|discriminate].
  destruct (own_run loc alias w0 ops) as [w|] eqn:Hr; [|discriminate].
  assert (Hinv0 : own_inv loc w0 m0 e0).
  { intros l y Hg. unfold own_init in Hi.
    destruct (own_init_spec loc _ _ _ Hi _ _ Hg) as [Hn|[Hin Hl]]; [discriminate|].
    split; [apply H0; assumption|assumption]. }
  pose proof (own_run_sound sem dflt loc alias _ _ _ _ _ Hinv0 Hr) as Hinv.
  rewrite forallb_forall in Hc. specialize (Hc _ Hp).
  apply andb_true_iff in Hc. destruct Hc as [Hc _].
  apply (readable_sound dflt loc alias _ _ _ _ Hinv Hc).
Qed.

(* ------------------------------------------------------------------------------------------------ *)
(** * A2: order inside a level is irrelevant *)

Lemma existsb_false_forall {A} (f : A -> bool) l :
  existsb f l = false <-> forall x, In x l -> f x = false.
Proof.
  split.
  - intros H x Hx. destruct (f x) eqn:E; auto.
    assert (existsb f l = true) by (apply existsb_exists; eauto). congruence.
  - intros H. destruct (existsb f l) eqn:E; auto.
    apply existsb_exists in E. destruct E as (x & Hx & Hf). rewrite (H _ Hx) in Hf. discriminate.
Qed.

Lemma indep_spec alias scratch a b :
  indep alias scratch a b = true <->
  (forall x, In x (reads alias b) -> x <> s_out a) /\
  (forall x, In x (reads alias a) -> x <> s_out b) /\
  (s_out a <> s_out b \/ (s_out a = scratch /\ s_out b = scratch)).
Proof.
  unfold indep. rewrite !andb_true_iff, !negb_true_iff, !existsb_false_forall, orb_true_iff,
    andb_true_iff, negb_true_iff, Nat.eqb_neq, !Nat.eqb_eq.
  split.
  - intros ((H1 & H2) & H3). repeat split; auto.
    + intros x Hx ->. specialize (H1 _ Hx). rewrite Nat.eqb_refl in H1. discriminate.
    + intros x Hx ->. specialize (H2 _ Hx). rewrite Nat.eqb_refl in H2. discriminate.
  - intros (H1 & H2 & H3). repeat split; auto.
    + intros x Hx. apply Nat.eqb_neq. intros E. apply (H1 _ Hx). auto.
    + intros x Hx. apply Nat.eqb_neq. intros E. apply (H2 _ Hx). auto.
Qed.

Lemma indep_sym alias scratch a b : indep alias scratch a b = indep alias scratch b a.
Proof.
  destruct (indep alias scratch a b) eqn:E1, (indep alias scratch b a) eqn:E2; auto.
  - apply indep_spec in E1. destruct E1 as (H1 & H2 & H3).
    assert (indep alias scratch b a = true).
    { apply indep_spec. repeat split; auto. destruct H3 as [H3|[H3 H4]]; [left; auto|right; auto]. }
    congruence.
  - apply indep_spec in E2. destruct E2 as (H1 & H2 & H3).
    assert (indep alias scratch a b = true).
    { apply indep_spec. repeat split; auto. destruct H3 as [H3|[H3 H4]]; [left; auto|right; auto]. }
    congruence.
Qed.

Section PermSound.
  Context {V : Type} (sem : N -> V -> V -> V -> V -> V).
  Variable alias : nat -> nat.
  Variable scratch : nat.

  Definition eqx (e e' : @ienv V) : Prop := forall k, k <> scratch -> e k = e' k.
  Definition noread (o : sop) : bool := negb (existsb (Nat.eqb scratch) (reads alias o)).

  Lemma eqx_refl e : eqx e e. Proof. intros k _. reflexivity. Qed.
  Lemma eqx_trans e1 e2 e3 : eqx e1 e2 -> eqx e2 e3 -> eqx e1 e3.
  Proof. intros H1 H2 k Hk. rewrite (H1 _ Hk). apply (H2 _ Hk). Qed.

  Lemma noread_spec o : noread o = true -> forall x, In x (reads alias o) -> x <> scratch.
  Proof.
    unfold noread. rewrite negb_true_iff, existsb_false_forall.
    intros H x Hx ->. specialize (H _ Hx). rewrite Nat.eqb_refl in H. discriminate.
  Qed.

  Lemma reads_in o :
    In (alias (s_i0 o)) (reads alias o) /\ In (alias (s_i1 o)) (reads alias o) /\
    In (alias (s_i2 o)) (reads alias o) /\ In (alias (s_i3 o)) (reads alias o).
  Proof. unfold reads. cbn [map In]. tauto. Qed.

  Lemma istep_eqx e e' o : noread o = true -> eqx e e' -> eqx (istep sem alias e o) (istep sem alias e' o).
  Proof.
    intros Hn He k Hk. pose proof (noread_spec _ Hn) as Hs.
    destruct (reads_in o) as (R0 & R1 & R2 & R3).
    unfold istep, iupd. destruct (Nat.eqb k (s_out o)); [|apply He; exact Hk].
    rewrite (He _ (Hs _ R0)), (He _ (Hs _ R1)), (He _ (Hs _ R2)), (He _ (Hs _ R3)). reflexivity.
  Qed.

  Lemma iexec_eqx l : Forall (fun o => noread o = true) l ->
    forall e e', eqx e e' -> eqx (iexec sem alias l e) (iexec sem alias l e').
  Proof.
    induction l as [|o r IH]; intros HF e e' He; [exact He|].
    inversion HF; subst. unfold iexec. cbn [fold_left]. apply IH; auto. apply istep_eqx; auto.
  Qed.

  Lemma swap_eqx e e' a b :
    indep alias scratch a b = true -> noread a = true -> noread b = true -> eqx e e' ->
    eqx (istep sem alias (istep sem alias e a) b) (istep sem alias (istep sem alias e' b) a).
  Proof.
    intros Hi Ha Hb He k Hk.
    apply indep_spec in Hi. destruct Hi as (Hba & Hab & Hout).
    pose proof (noread_spec _ Ha) as Sa. pose proof (noread_spec _ Hb) as Sb.
    destruct (reads_in a) as (A0 & A1 & A2 & A3). destruct (reads_in b) as (B0 & B1 & B2 & B3).
    unfold istep, iupd.
    rewrite (proj2 (Nat.eqb_neq _ _) (Hba _ B0)), (proj2 (Nat.eqb_neq _ _) (Hba _ B1)),
            (proj2 (Nat.eqb_neq _ _) (Hba _ B2)), (proj2 (Nat.eqb_neq _ _) (Hba _ B3)),
            (proj2 (Nat.eqb_neq _ _) (Hab _ A0)), (proj2 (Nat.eqb_neq _ _) (Hab _ A1)),
            (proj2 (Nat.eqb_neq _ _) (Hab _ A2)), (proj2 (Nat.eqb_neq _ _) (Hab _ A3)).
    destruct (Nat.eqb k (s_out b)) eqn:Eb, (Nat.eqb k (s_out a)) eqn:Ea.
    - apply Nat.eqb_eq in Ea, Eb. exfalso. destruct Hout as [Hn|[H1 H2]]; congruence.
    - rewrite (He _ (Sb _ B0)), (He _ (Sb _ B1)), (He _ (Sb _ B2)), (He _ (Sb _ B3)). reflexivity.
    - rewrite (He _ (Sa _ A0)), (He _ (Sa _ A1)), (He _ (Sa _ A2)), (He _ (Sa _ A3)). reflexivity.
    - apply He; exact Hk.
  Qed.

  Lemma forallb_perm {A} (f : A -> bool) l l' : Permutation l l' -> forallb f l = true -> forallb f l' = true.
  Proof.
    intros HP H. rewrite forallb_forall in *. intros x Hx. apply H.
    apply (Permutation_in _ (Permutation_sym HP) Hx).
  Qed.

  Lemma Forall_perm {A} (P : A -> Prop) l l' : Permutation l l' -> Forall P l -> Forall P l'.
  Proof.
    intros HP H. rewrite Forall_forall in *. intros x Hx. apply H.
    apply (Permutation_in _ (Permutation_sym HP) Hx).
  Qed.

  Lemma level_perm l l' : Permutation l l' ->
    level_ok alias scratch l = true -> Forall (fun o => noread o = true) l ->
    level_ok alias scratch l' = true /\
    forall e e', eqx e e' -> eqx (iexec sem alias l e) (iexec sem alias l' e').
  Proof.
    induction 1 as [|x l l' HP IH|x y l|l l' l'' HP1 IH1 HP2 IH2]; intros Hok HF.
    - split; [reflexivity|]. intros e e' He. exact He.
    - cbn [level_ok] in Hok. apply andb_true_iff in Hok. destruct Hok as [Hx Hl].
      inversion HF; subst. destruct (IH Hl H2) as [Hl' Hex]. split.
      + cbn [level_ok]. rewrite Hl', (forallb_perm _ _ _ HP Hx). reflexivity.
      + intros e e' He. unfold iexec. cbn [fold_left]. apply Hex. apply istep_eqx; auto.
    - cbn [level_ok forallb] in Hok. rewrite !andb_true_iff in Hok.
      destruct Hok as ((Hyx & Hyl) & Hxl & Hl).
      inversion HF as [|? ? Ny HF']; subst. inversion HF' as [|? ? Nx HF'']; subst. split.
      + cbn [level_ok forallb]. rewrite (indep_sym alias scratch x y), Hyx, Hyl, Hxl, Hl. reflexivity.
      + intros e e' He. unfold iexec. cbn [fold_left]. apply iexec_eqx; auto. apply swap_eqx; auto.
    - destruct (IH1 Hok HF) as [Hok' Hex1].
      destruct (IH2 Hok' (Forall_perm _ _ _ HP1 HF)) as [Hok'' Hex2]. split; auto.
      intros e e' He. eapply eqx_trans; [apply Hex1, eqx_refl|apply Hex2, He].
  Qed.

  Lemma iexec_app l1 l2 e : iexec sem alias (l1 ++ l2) e = iexec sem alias l2 (iexec sem alias l1 e).
  Proof. unfold iexec. apply fold_left_app. Qed.

  Lemma levels_perm levels levels' : Forall2 (@Permutation sop) levels levels' ->
    forallb (level_ok alias scratch) levels = true ->
    Forall (fun o => noread o = true) (concat levels) ->
    forall e e', eqx e e' -> eqx (iexec sem alias (concat levels) e) (iexec sem alias (concat levels') e').
  Proof.
    induction 1 as [|lv lv' r r' HP HR IH]; intros Hok HF e e' He; [exact He|].
    cbn [forallb] in Hok. apply andb_true_iff in Hok. destruct Hok as [Hlv Hr].
    cbn [concat] in *. apply Forall_app in HF. destruct HF as [F1 F2].
    rewrite !iexec_app. apply IH; auto. apply (level_perm _ _ HP Hlv F1); auto.
  Qed.
End PermSound.

Theorem perm_level_sound {V} (sem : N -> V -> V -> V -> V -> V) alias scratch levels levels' :
  sched_check alias scratch levels = true ->
  Forall2 (@Permutation sop) levels levels' ->
  forall (e : ienv) k, k <> scratch ->
    iexec sem alias (concat levels) e k = iexec sem alias (concat levels') e k.
Proof.
  intros Hs HP e k Hk. unfold sched_check in Hs. apply andb_true_iff in Hs. destruct Hs as [Hok Hnr].
  apply (levels_perm sem alias scratch _ _ HP Hok); [|apply eqx_refl|exact Hk].
  apply Forall_forall. rewrite forallb_forall in Hnr. exact Hnr.
Qed.

(* ------------------------------------------------------------------------------------------------ *)
(** * A3: the greedy levelisation yields a checked schedule *)

(** Single-assignment topological form.  For every op [o] followed by the ops [r]:
    - its output, unless it is [scratch], is not written again by a later op;
    - none of its (stemmed) operands is [scratch] or is written by a later op
      (hence an operand that is written at all is written by an earlier op or by [o] itself). *)
Fixpoint ssa_topo (stems : list Z) (scratch : nat) (ops : list sop) : bool :=
  match ops with
  | [] => true
  | o :: r =>
      (Nat.eqb (s_out o) scratch || negb (existsb (Nat.eqb (s_out o)) (map s_out r))) &&
      forallb (fun x => negb (Nat.eqb x scratch) && negb (existsb (Nat.eqb x) (map s_out r)))
              (reads (stemmed stems) o) &&
      ssa_topo stems scratch r
  end.

Lemma set_nat_length l : forall i v, length (set_nat l i v) = length l.
Proof. induction l as [|x r IH]; intros [|i] v; simpl; auto. Qed.

Lemma nth_set_nat_eq l : forall i v, i < length l -> nth i (set_nat l i v) 0 = v.
Proof. induction l as [|x r IH]; intros [|i] v Hi; simpl in *; try lia; auto. apply IH. lia. Qed.

Lemma nth_set_nat_neq l : forall i m v, m <> i -> nth m (set_nat l i v) 0 = nth m l 0.
Proof. induction l as [|x r IH]; intros [|i] [|m] v Hm; simpl; try lia; auto. Qed.

Lemma firstn_app_len {A} (l1 l2 : list A) : firstn (length l1) (l1 ++ l2) = l1.
Proof. induction l1; simpl; [reflexivity|f_equal; auto]. Qed.

Lemma skipn_app_len {A} (l1 l2 : list A) : skipn (length l1) (l1 ++ l2) = l2.
Proof. induction l1; simpl; auto. Qed.

Section Levels.
  Variable stems : list Z.
  Variable scratch : nat.
  Let alias := stemmed stems.

  Definition bumpb (st : lvl_state) (o : sop) : bool :=
    let lv k := nth k (ls_levels st) 0 in
    Nat.leb (ls_cur st) (lv (alias (s_i0 o))) || Nat.leb (ls_cur st) (lv (alias (s_i1 o))) ||
    Nat.leb (ls_cur st) (lv (alias (s_i2 o))) || Nat.leb (ls_cur st) (lv (alias (s_i3 o))).

  Lemma ls_levels_step st i o :
    ls_levels (level_step stems st (i, o)) =
    set_nat (ls_levels st) (s_out o) (if bumpb st o then S (ls_cur st) else ls_cur st).
  Proof. reflexivity. Qed.
  Lemma ls_cur_step st i o :
    ls_cur (level_step stems st (i, o)) = if bumpb st o then S (ls_cur st) else ls_cur st.
  Proof. reflexivity. Qed.
  Lemma ls_starts_step st i o :
    ls_starts (level_step stems st (i, o)) = if bumpb st o then i :: ls_starts st else ls_starts st.
  Proof. reflexivity. Qed.

  Lemma bump_false st o : bumpb st o = false ->
    forall x, In x (reads alias o) -> nth x (ls_levels st) 0 < ls_cur st.
  Proof.
    unfold bumpb. rewrite !orb_false_iff, !Nat.leb_gt. intros (((H0 & H1) & H2) & H3) x Hx.
    unfold reads in Hx. cbn [map In] in Hx. destruct Hx as [<-|[<-|[<-|[<-|[]]]]]; assumption.
  Qed.

  (** positions (increasing) at which the scan starting in state [st] at position [pos] opens a level *)
  Fixpoint bumps (st : lvl_state) (pos : nat) (r : list sop) : list nat :=
    match r with
    | [] => []
    | o :: r' =>
        if bumpb st o then pos :: bumps (level_step stems st (pos, o)) (S pos) r'
        else bumps (level_step stems st (pos, o)) (S pos) r'
    end.

  Lemma starts_bumps : forall r st pos,
    ls_starts (fold_left (level_step stems) (combine (seq pos (length r)) r) st) =
    rev (bumps st pos r) ++ ls_starts st.
  Proof.
    induction r as [|o r IH]; intros st pos; [reflexivity|].
    cbn [length seq combine fold_left bumps]. rewrite IH, ls_starts_step.
    destruct (bumpb st o); [|reflexivity].
    cbn [rev]. rewrite <- app_assoc. reflexivity.
  Qed.

  Lemma split_levels_one p ops pos :
    split_levels [p] ops pos = [firstn (pos + length ops - pos) ops].
  Proof. reflexivity. Qed.
  Lemma split_levels_two p s rest ops pos :
    split_levels (p :: s :: rest) ops pos =
    firstn (s - pos) ops :: split_levels (s :: rest) (skipn (s - pos) ops) s.
  Proof. reflexivity. Qed.

  Lemma split_levels_in : forall s ops pos o, In o (concat (split_levels s ops pos)) -> In o ops.
  Proof.
    induction s as [|p rest IH]; intros ops pos o Hin; [destruct Hin|].
    cbn [split_levels concat] in Hin. apply in_app_or in Hin.
    match type of Hin with In _ (firstn ?n _) \/ _ => rewrite <- (firstn_skipn n ops) end.
    apply in_or_app. destruct Hin as [H|H]; [left; exact H|right; eapply IH; exact H].
  Qed.

  (** consequences of [ssa_topo] *)
  Lemma ssa_app l1 : forall l2, ssa_topo stems scratch (l1 ++ l2) = true -> ssa_topo stems scratch l2 = true.
  Proof.
    induction l1 as [|a l1 IH]; intros l2 H; [exact H|].
    cbn [app ssa_topo] in H. rewrite !andb_true_iff in H. apply IH, H.
  Qed.

  Lemma ssa_head c Y o : ssa_topo stems scratch (c :: Y) = true -> In o Y ->
    (forall x, In x (reads alias c) -> x <> s_out o) /\
    (s_out c <> s_out o \/ (s_out c = scratch /\ s_out o = scratch)).
  Proof.
    intros H Hin. cbn [ssa_topo] in H. rewrite !andb_true_iff in H. destruct H as ((Hout & Hrd) & _).
    assert (Ho : In (s_out o) (map s_out Y)) by (apply in_map; exact Hin).
    split.
    - intros x Hx ->. rewrite forallb_forall in Hrd. specialize (Hrd _ Hx).
      apply andb_true_iff in Hrd. destruct Hrd as [_ Hrd].
      rewrite negb_true_iff, existsb_false_forall in Hrd. specialize (Hrd _ Ho).
      rewrite Nat.eqb_refl in Hrd. discriminate.
    - destruct (Nat.eq_dec (s_out c) (s_out o)) as [E|E]; [right|left; exact E].
      apply orb_true_iff in Hout. destruct Hout as [Hs|Hn].
      + apply Nat.eqb_eq in Hs. split; congruence.
      + rewrite negb_true_iff, existsb_false_forall in Hn. specialize (Hn _ Ho).
        rewrite E, Nat.eqb_refl in Hn. discriminate.
  Qed.

  Lemma ssa_noread : forall l o, ssa_topo stems scratch l = true -> In o l -> noread alias scratch o = true.
  Proof.
    induction l as [|a l IH]; intros o H Hin; [destruct Hin|].
    cbn [ssa_topo] in H. rewrite !andb_true_iff in H. destruct H as ((_ & Hrd) & Hl).
    destruct Hin as [->|Hin]; [|apply IH; assumption].
    unfold noread. rewrite negb_true_iff, existsb_false_forall. intros x Hx.
    rewrite forallb_forall in Hrd. specialize (Hrd _ Hx). apply andb_true_iff in Hrd.
    destruct Hrd as [Hrd _]. rewrite negb_true_iff in Hrd. rewrite Nat.eqb_sym. exact Hrd.
  Qed.

  Lemma level_ok_snoc cl o :
    level_ok alias scratch cl = true ->
    (forall c, In c cl -> indep alias scratch c o = true) ->
    level_ok alias scratch (cl ++ [o]) = true.
  Proof.
    induction cl as [|a cl IH]; intros Hok Hi; [reflexivity|].
    cbn [app level_ok] in *. apply andb_true_iff in Hok. destruct Hok as [Ha Hcl].
    rewrite forallb_app, Ha, IH; auto; [|intros c Hc; apply Hi; right; exact Hc].
    cbn [forallb]. rewrite Hi; [reflexivity|left; reflexivity].
  Qed.

  Variable len : nat.

  Lemma split_ok : forall r st cl p0 pos,
    pos = p0 + length cl ->
    length (ls_levels st) = len ->
    (forall c, In c cl -> nth (s_out c) (ls_levels st) 0 = ls_cur st) ->
    level_ok alias scratch cl = true ->
    ssa_topo stems scratch (cl ++ r) = true ->
    (forall o, In o r -> s_out o < len) ->
    forallb (level_ok alias scratch) (split_levels (p0 :: bumps st pos r) (cl ++ r) p0) = true.
  Proof.
    induction r as [|o r IH]; intros st cl p0 pos Hpos Hlen Hcur Hok Hssa Hbnd.
    - cbn [bumps]. rewrite split_levels_one, app_nil_r.
      replace (p0 + length cl - p0) with (length cl) by lia.
      rewrite firstn_all. cbn [forallb]. rewrite Hok. reflexivity.
    - assert (Ho : s_out o < len) by (apply Hbnd; left; reflexivity).
      assert (Hbnd' : forall o', In o' r -> s_out o' < len) by (intros o' H'; apply Hbnd; right; exact H').
      cbn [bumps]. destruct (bumpb st o) eqn:Hb.
      + (* o opens a new level: cl is closed *)
        rewrite split_levels_two.
        replace (pos - p0) with (length cl) by lia.
        rewrite firstn_app_len, skipn_app_len. cbn [forallb]. rewrite Hok. cbn [andb].
        apply (IH _ [o] pos (S pos)).
        * cbn [length]. lia.
        * rewrite ls_levels_step, set_nat_length. exact Hlen.
        * intros c [<-|[]]. rewrite ls_levels_step, ls_cur_step, Hb.
          apply nth_set_nat_eq. lia.
        * reflexivity.
        * apply (ssa_app cl). exact Hssa.
        * exact Hbnd'.
      + (* o joins the current level *)
        replace (cl ++ o :: r) with ((cl ++ [o]) ++ r) by (rewrite <- app_assoc; reflexivity).
        apply (IH _ (cl ++ [o]) p0 (S pos)).
        * rewrite app_length. cbn [length]. lia.
        * rewrite ls_levels_step, set_nat_length. exact Hlen.
        * intros c Hc. rewrite ls_levels_step, ls_cur_step, Hb.
          destruct (Nat.eq_dec (s_out c) (s_out o)) as [E|E].
          -- rewrite E. apply nth_set_nat_eq. lia.
          -- rewrite nth_set_nat_neq by exact E. apply Hcur.
             apply in_app_or in Hc. destruct Hc as [Hc|[<-|[]]]; [exact Hc|congruence].
        * apply level_ok_snoc; [exact Hok|]. intros c Hc.
          apply in_split in Hc. destruct Hc as (l1 & l2 & ->).
          rewrite <- app_assoc in Hssa. apply ssa_app in Hssa. cbn [app] in Hssa.
          destruct (ssa_head c (l2 ++ o :: r) o Hssa) as [Hrd Hout];
            [apply in_or_app; right; left; reflexivity|].
          apply indep_spec. split; [|split; assumption].
          intros x Hx ->. pose proof (bump_false _ _ Hb _ Hx) as Hlt.
          rewrite Hcur in Hlt; [lia|]. apply in_or_app. right. left. reflexivity.
        * rewrite <- app_assoc. exact Hssa.
        * exact Hbnd'.
  Qed.
End Levels.

Theorem levels_valid stems scratch ops len :
  ssa_topo stems scratch ops = true -> (forall o, In o ops -> s_out o < len /\ Forall (fun x => x < len) (map (stemmed stems) [s_i0 o; s_i1 o; s_i2 o; s_i3 o])) ->
  sched_check (stemmed stems) scratch
    (split_levels (rev (ls_starts (levelize stems ops len))) ops 0) = true.
Proof.
  intros Hssa Hbnd. unfold sched_check. apply andb_true_iff. split.
  - unfold levelize. rewrite starts_bumps. cbn [ls_starts].
    rewrite rev_app_distr, rev_involutive. cbn [rev app].
    apply (split_ok stems scratch len ops _ [] 0 0); auto.
    + cbn [ls_levels]. apply repeat_length.
    + intros c [].
    + intros o Ho. apply (Hbnd _ Ho).
  - apply forallb_forall. intros o Ho. apply split_levels_in in Ho.
    apply (ssa_noread stems scratch _ _ Hssa Ho).
Qed.

Print Assumptions map_check_sound.
Print Assumptions perm_level_sound.
Print Assumptions levels_valid.

(* ------------------------------------------------------------------------------------------------ *)
(** * Example: five ops, one fan-out branch (index 8 stands for 3), location 3 handed from signal 3 to signal 7 *)
Module AllocExample.
  Definition mk l o a b c d := {| s_lut := l; s_out := o; s_i0 := a; s_i1 := b; s_i2 := c; s_i3 := d |}.
  (* 0 = zero slot, 1 2 = inputs, 3..7 = gate outputs, 8 = stripped fan-out branch of 3, 9 = scratch *)
  Definition ex_stems : list Z := [-1; -1; -1; -1; -1; -1; -1; -1; 3; -1]%Z.
  Definition ex_alias := stemmed ex_stems.
  Definition ex_scratch := 9.
  Definition ex_len := 10.
  Definition ex_ops : list sop :=
    [ mk 1%N 3 1 2 0 0;      (* level 1 *)
      mk 2%N 4 2 1 0 0;      (* level 1 *)
      mk 3%N 5 3 4 0 0;      (* level 2: last read of 4 *)
      mk 4%N 6 5 8 0 0;      (* level 3: last read of 3 (through its branch 8) *)
      mk 5%N 7 6 5 0 0 ].    (* level 4: 7 takes over location 3 *)
  Definition ex_init := [0; 1; 2].
  Definition ex_final := [7; 6].
  (* good map: 6 reuses the location of the dead 4, 7 reuses the location of the dead 3 *)
  Definition ex_loc (x : nat) : option nat :=
    match x with 0 => Some 0 | 1 => Some 1 | 2 => Some 2 | 3 => Some 3 | 4 => Some 4 | 5 => Some 5
               | 6 => Some 4 | 7 => Some 3 | 8 => Some 3 | _ => None end.
  (* bad map: 5 takes location 3 although op 4 still reads signal 3 through branch 8 *)
  Definition ex_loc_early (x : nat) : option nat :=
    match x with 0 => Some 0 | 1 => Some 1 | 2 => Some 2 | 3 => Some 3 | 4 => Some 4 | 5 => Some 3
               | 6 => Some 4 | 7 => Some 5 | 8 => Some 3 | _ => None end.
  Definition ex_levels := split_levels (rev (ls_starts (levelize ex_stems ex_ops ex_len))) ex_ops 0.

  Example ex_levels_shape : map (map s_out) ex_levels = [[3; 4]; [5]; [6]; [7]].
  Proof. vm_compute. reflexivity. Qed.
  Example ex_map_ok : map_check ex_loc ex_alias ex_init ex_final ex_ops = true.
  Proof. vm_compute. reflexivity. Qed.
  Example ex_sched_ok : sched_check ex_alias ex_scratch ex_levels = true.
  Proof. vm_compute. reflexivity. Qed.
  Example ex_ssa_ok : ssa_topo ex_stems ex_scratch ex_ops = true.
  Proof. vm_compute. reflexivity. Qed.
  Example ex_map_early_bad : map_check ex_loc_early ex_alias ex_init ex_final ex_ops = false.
  Proof. vm_compute. reflexivity. Qed.

  (** the theorems instantiated: memory execution agrees with line execution at the observed indices *)
  Example ex_refines {V} (sem : N -> V -> V -> V -> V -> V) (dflt : V) (e0 : ienv) (m0 : fmem) :
    m0 0 = e0 0 -> m0 1 = e0 1 -> m0 2 = e0 2 ->
    mread dflt ex_loc (mexec sem dflt ex_loc ex_ops m0) 7 = iexec sem ex_alias ex_ops e0 7.
  Proof.
    intros H0 H1 H2.
    apply (map_check_sound sem dflt ex_loc ex_alias ex_init ex_final ex_ops ex_map_ok e0 m0).
    - intros x l [<-|[<-|[<-|[]]]] E; vm_compute in E; injection E as <-; assumption.
    - left. reflexivity.
  Qed.
End AllocExample.
