(** C15, part 2: mv_to_bp / bp_to_mv on matrices and with any number of leading axes. *)
From Coq Require Import List ZArith NArith Bool Arith Lia.
From KV Require Import Model.Encodings Proofs.EncodingsBits.
Import ListNotations.
Local Open Scope list_scope.

(** uint8 specialisations of the generic helpers *)
Lemma unpackbits_u8_nbits x : x < 256 -> unpackbits_u8 x = nbits 8 x.
Proof.
  intros H. unfold unpackbits_u8, unpackbits, view_u8, U8, np_unpackbits_le. cbn [dt_bytes seq map flat_map].
  rewrite app_nil_r. f_equal.
  change (2 ^ (8 * Z.of_nat 0))%Z with 1%Z. rewrite Z.div_1_r.
  rewrite Z.mod_small by lia. apply Nat2Z.id.
Qed.

Lemma packbits_u8_3 b0 b1 b2 : packbits_u8 [b0; b1; b2] = nat_of_bits [b0; b1; b2].
Proof. destruct b0, b1, b2; reflexivity. Qed.

Definition plane (k : nat) (row : list nat) : list bool := map (fun x => Nat.testbit x k) row.

Lemma firstn3_nbits8 x : firstn 3 (nbits 8 x) = [Nat.testbit x 0; Nat.testbit x 1; Nat.testbit x 2].
Proof. rewrite nbits_testbit. reflexivity. Qed.

(** the three packbits/swapaxes steps collapse: plane k, packed along the patterns *)
Lemma mv_to_bp_row_planes row :
  Forall (fun x => x < 256) row ->
  mv_to_bp_row row = [np_packbits_le (plane 0 row); np_packbits_le (plane 1 row); np_packbits_le (plane 2 row)].
Proof.
  intros H. unfold mv_to_bp_row, np_packbits_axis2.
  set (bits := map (fun x => firstn 3 (unpackbits_u8 x)) row).
  assert (List.length bits = List.length row) as Lb by (unfold bits; apply map_length).
  set (P := map np_packbits_le (transp false 3 bits)).
  assert (List.length P = 3) as LP by (unfold P; rewrite map_length; apply transp_length).
  rewrite <- LP at 1. rewrite transp_transp.
  2:{ unfold P. apply Forall_forall. intros r Hr. apply in_map_iff in Hr. destruct Hr as [r0 [<- Hr0]].
      rewrite packbits_length. f_equal.
      pose proof (transp_rows false 3 bits) as T. rewrite Forall_forall in T. apply T. exact Hr0. }
  unfold P, transp. cbn [seq map]. unfold plane, bits. rewrite !map_map.
  assert (forall k, k < 3 -> map (fun x => nth k (firstn 3 (unpackbits_u8 x)) false) row = map (fun x => Nat.testbit x k) row) as G.
  { intros k Hk. apply map_ext_in. intros x Hx. rewrite Forall_forall in H.
    rewrite unpackbits_u8_nbits by (apply H; exact Hx). rewrite firstn3_nbits8.
    destruct k as [|[|[|k]]]; [reflexivity | reflexivity | reflexivity | lia]. }
  rewrite !G by lia. reflexivity.
Qed.

Lemma code_of_planes x : x < 8 -> nat_of_bits [Nat.testbit x 0; Nat.testbit x 1; Nat.testbit x 2] = x.
Proof. intros H. do 8 (destruct x as [|x]; [reflexivity|]). lia. Qed.

Lemma plane_length k row : List.length (plane k row) = List.length row.
Proof. apply map_length. Qed.

Lemma seq_split p q : seq 0 (p + q) = seq 0 p ++ seq p q.
Proof. apply seq_app. Qed.

(** one signal: unpacking the three packed planes and re-assembling the codes *)
Lemma bp_roundtrip_row row :
  Forall (fun x => x < 8) row -> bp_to_mv_row (mv_to_bp_row row) = pad8 row.
Proof.
  intros H.
  rewrite mv_to_bp_row_planes by (eapply Forall_impl; [|exact H]; cbv beta; intros; lia).
  unfold bp_to_mv_row. cbn [map hd]. rewrite !unpack_pack_le, !plane_length.
  set (p := List.length row). set (q := padlen p).
  rewrite app_length, repeat_length, plane_length. fold p.
  unfold transp. cbn [map]. unfold pad8. fold p. change (8 * cdiv p 8 - p) with q.
  rewrite map_map, seq_split, map_app. f_equal.
  - transitivity (map (fun j => (fun x => x) (nth j row 0)) (seq 0 p)).
    2:{ rewrite (map_seq_nth_map (fun x => x) row 0 p eq_refl). apply map_id. }
    apply map_ext_in. intros j Hj. apply in_seq in Hj.
    rewrite packbits_u8_3.
    rewrite !app_nth1 by (rewrite plane_length; fold p; lia).
    unfold plane. rewrite !(nth_map_lt _ row 0 false j) by (fold p; lia).
    apply code_of_planes. rewrite Forall_forall in H. apply H. apply nth_In. fold p. lia.
  - rewrite <- (seq_length q p) at 2. apply map_const_repeat.
    intros j Hj. apply in_seq in Hj. rewrite packbits_u8_3.
    rewrite !nth_app_repeat by (rewrite plane_length; fold p; lia). reflexivity.
Qed.

(** bp_roundtrip: for every matrix of codes (rows need not even have equal length) *)
Theorem bp_roundtrip m :
  Forall (Forall (fun x => x < 8)) m -> bp_to_mv_mat (mv_to_bp_mat m) = map pad8 m.
Proof.
  intros H. unfold bp_to_mv_mat, mv_to_bp_mat. rewrite map_map. apply map_ext_in.
  intros row Hr. apply bp_roundtrip_row. rewrite Forall_forall in H. apply H. exact Hr.
Qed.

Example bp_roundtrip_ex :
  bp_to_mv_mat (mv_to_bp_mat [[0; 1; 2; 3; 4; 5; 6; 7; 0; 1]; [7; 6; 5; 4; 3; 2; 1; 0; 7; 6]]) =
  [[0; 1; 2; 3; 4; 5; 6; 7; 0; 1; 0; 0; 0; 0; 0; 0]; [7; 6; 5; 4; 3; 2; 1; 0; 7; 6; 0; 0; 0; 0; 0; 0]].
Proof. reflexivity. Qed.

(** 1-D arrays are one pattern per signal *)
Theorem bp_roundtrip_vec v :
  Forall (fun x => x < 8) v -> bp_to_mv_mat (mv_to_bp_vec v) = map (fun x => x :: repeat ZERO 7) v.
Proof.
  intros H. unfold mv_to_bp_vec. rewrite bp_roundtrip.
  - rewrite map_map. reflexivity.
  - apply Forall_forall. intros r Hr. apply in_map_iff in Hr. destruct Hr as [x [<- Hx]].
    constructor; [|constructor]. rewrite Forall_forall in H. apply H. exact Hx.
Qed.

(** any number of leading (batch) axes *)
Lemma tmap_tmap {A B C} n (f : A -> B) (g : B -> C) (h : A -> C) (P : A -> Prop) (t : tens A n) :
  (forall x, P x -> g (f x) = h x) -> tall n P t -> tmap n g (tmap n f t) = tmap n h t.
Proof.
  intros E. induction n; cbn [tens tmap tall] in *.
  - apply E.
  - intros H. rewrite map_map. apply map_ext_in. intros x Hx. apply IHn.
    rewrite Forall_forall in H. apply H. exact Hx.
Qed.

Definition codes_ok (m : mat) : Prop := Forall (Forall (fun x => x < 8)) m.

Theorem bp_roundtrip_nd n (t : tens mat n) :
  tall n codes_ok t -> bp_to_mv_nd n (mv_to_bp_nd n t) = tmap n (map pad8) t.
Proof. apply tmap_tmap. exact bp_roundtrip. Qed.

Example bp_roundtrip_nd_ex :
  let t : tens mat 2 := [[ [[0; 1; 2]; [3; 4; 5]] ; [[6; 7; 0]; [1; 2; 3]] ]] in
  tall 2 codes_ok t /\ bp_to_mv_nd 2 (mv_to_bp_nd 2 t) =
  [[ [[0; 1; 2; 0; 0; 0; 0; 0]; [3; 4; 5; 0; 0; 0; 0; 0]] ; [[6; 7; 0; 0; 0; 0; 0; 0]; [1; 2; 3; 0; 0; 0; 0; 0]] ]].
Proof.
  split; [|reflexivity]. cbn. repeat constructor.
Qed.

(** the bit-parallel layout itself: plane k holds bit k of the value; pattern j sits in byte j/8 at bit j mod 8;
    lanes beyond the last pattern read 0 *)
Theorem bit_planes row k j :
  Forall (fun x => x < 256) row -> k < 3 ->
  Nat.testbit (nth (j / 8) (nth k (mv_to_bp_row row) []) 0) (j mod 8) =
  if j <? List.length row then Nat.testbit (nth j row 0) k else false.
Proof.
  intros H Hk. rewrite mv_to_bp_row_planes by exact H.
  assert (forall k', Nat.testbit (nth (j / 8) (np_packbits_le (plane k' row)) 0) (j mod 8) =
                     if j <? List.length row then Nat.testbit (nth j row 0) k' else false) as G.
  { intros k'. rewrite packbits_lane. unfold plane. destruct (Nat.ltb_spec j (List.length row)).
    - apply (nth_map_lt (fun x => Nat.testbit x k') row 0 false j). assumption.
    - apply nth_overflow. rewrite map_length. assumption. }
  destruct k as [|[|[|k]]]; [apply G | apply G | apply G | lia].
Qed.

Lemma mv_to_bp_row_shape row :
  Forall (fun x => x < 256) row ->
  List.length (mv_to_bp_row row) = 3 /\ Forall (fun pl => List.length pl = cdiv (List.length row) 8) (mv_to_bp_row row).
Proof.
  intros H. rewrite mv_to_bp_row_planes by exact H. split; [reflexivity|].
  repeat constructor; rewrite packbits_length, plane_length; reflexivity.
Qed.

(** the other direction: every bit-parallel array (three planes of equal length) survives bp -> mv -> bp *)
Definition planes_ok (nb : nat) (planes : list (list nat)) : Prop :=
  List.length planes = 3 /\ Forall (fun pl => List.length pl = nb /\ Forall (fun b => b < 256) pl) planes.

Lemma unpackbits_le_length bytes : List.length (np_unpackbits_le bytes) = 8 * List.length bytes.
Proof.
  unfold np_unpackbits_le. induction bytes; [reflexivity|]. cbn [flat_map List.length].
  rewrite app_length, nbits_length, IHbytes. lia.
Qed.

Lemma mv_roundtrip_row nb planes : planes_ok nb planes -> mv_to_bp_row (bp_to_mv_row planes) = planes.
Proof.
  intros [L3 HP]. unfold bp_to_mv_row.
  set (bits := map np_unpackbits_le planes).
  assert (Forall (fun r => List.length r = 8 * nb) bits) as Hb.
  { unfold bits. apply Forall_forall. intros r Hr. apply in_map_iff in Hr. destruct Hr as [pl [<- Hpl]].
    rewrite unpackbits_le_length. rewrite Forall_forall in HP. destruct (HP pl Hpl) as [-> _]. reflexivity. }
  assert (List.length bits = 3) as Lb by (unfold bits; rewrite map_length; exact L3).
  assert (List.length (hd [] bits) = 8 * nb) as Lh.
  { destruct bits as [|r0 rest]; [discriminate|]. inversion Hb; assumption. }
  rewrite Lh.
  set (T := transp false (8 * nb) bits).
  assert (Forall (fun t => List.length t = 3) T) as HT.
  { pose proof (transp_rows false (8 * nb) bits) as R. rewrite Lb in R. exact R. }
  assert (map packbits_u8 T = map nat_of_bits T) as E1.
  { apply map_ext_in. intros t Ht. rewrite Forall_forall in HT. specialize (HT t Ht).
    destruct t as [|b0 [|b1 [|b2 [|]]]]; try discriminate. apply packbits_u8_3. }
  rewrite E1.
  unfold mv_to_bp_row, np_packbits_axis2. rewrite map_map.
  assert (map (fun x => firstn 3 (unpackbits_u8 (nat_of_bits x))) T = T) as E2.
  { rewrite <- (map_id T) at 2. apply map_ext_in. intros t Ht. rewrite Forall_forall in HT. specialize (HT t Ht).
    rewrite unpackbits_u8_nbits.
    - destruct t as [|b0 [|b1 [|b2 [|]]]]; try discriminate.
      change 8 with (List.length [b0; b1; b2] + 5). rewrite nbits_nat_of_bits. reflexivity.
    - pose proof (nat_of_bits_lt t) as B. rewrite HT in B. simpl in B. lia. }
  rewrite E2.
  assert (List.length T = 8 * nb) as LT by (apply transp_length).
  pose proof (transp_transp false (8 * nb) bits Hb) as TT. rewrite Lb in TT. fold T in TT. rewrite TT.
  unfold bits. rewrite map_map.
  assert (map (fun x => np_packbits_le (np_unpackbits_le x)) planes = planes) as E3.
  { rewrite <- (map_id planes) at 2. apply map_ext_in. intros pl Hpl. apply pack_unpack_le.
    rewrite Forall_forall in HP. apply HP. exact Hpl. }
  rewrite E3.
  rewrite LT, cdiv_mul8.
  assert (Forall (fun r => List.length r = nb) planes) as Hn.
  { apply Forall_forall. intros pl Hpl. rewrite Forall_forall in HP. apply HP. exact Hpl. }
  pose proof (transp_transp 0 nb planes Hn) as TT2. rewrite L3 in TT2. exact TT2.
Qed.

Theorem mv_roundtrip nb (b : bpmat) :
  Forall (planes_ok nb) b -> mv_to_bp_mat (bp_to_mv_mat b) = b.
Proof.
  intros H. unfold mv_to_bp_mat, bp_to_mv_mat. rewrite map_map. rewrite <- (map_id b) at 2.
  apply map_ext_in. intros pl Hpl. apply (mv_roundtrip_row nb). rewrite Forall_forall in H. apply H. exact Hpl.
Qed.

Example mv_roundtrip_ex :
  let b := [[[170; 2]; [204; 0]; [240; 255]]; [[1; 2]; [3; 4]; [5; 6]]] in
  Forall (planes_ok 2) b /\ bp_to_mv_mat b <> [] /\ mv_to_bp_mat (bp_to_mv_mat b) = b.
Proof.
  split; [|split; [discriminate | reflexivity]].
  repeat constructor; cbn; lia.
Qed.
