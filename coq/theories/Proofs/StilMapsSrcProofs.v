(** The translated source of StilFile._maps (Gen/StilMapsSrc.v) IS the hand model (Model/Stil.v [maps_gen true], the
    transcription of the current code): same result, same raises, for every circuit interface and all signal groups /
    scan chains of the model's domain (every chain list non-empty).  logic.mvarray stays the uninterpreted constructor
    [Mvarray]; [mv_interp] reads it as the model does. *)
From Coq Require Import List ZArith Bool String Ascii Arith Lia.
From KV Require Import Model.DefRouteSrcLib Model.Stil Model.StilMapsSrcLib Gen.StilMapsSrc.
Import ListNotations.
Local Open Scope list_scope.

(** * dicts *)
Lemma pd_set_enc : forall {V W} (f : V -> W) (d : sdict V) k v,
  pd_set (PStr k) (f v) (enc_sdict f d) = enc_sdict f (dset d k v).
Proof.
  intros V W f d k v. induction d as [|[k' v'] r IH]; [reflexivity|].
  unfold enc_sdict in *. cbn [map dset pd_set fst snd pyv_eqb].
  destruct (String.eqb k' k); cbn [map fst snd]; [reflexivity | rewrite IH; reflexivity].
Qed.

Lemma pd_get_enc : forall {V W} (f : V -> W) (d : sdict V) k,
  pd_get (enc_sdict f d) (PStr k) = option_map f (dget d k).
Proof.
  intros V W f d k. induction d as [|[k' v'] r IH]; [reflexivity|].
  unfold enc_sdict in *. cbn [map dget pd_get fst snd pyv_eqb].
  destruct (String.eqb k' k); [reflexivity | exact IH].
Qed.

Lemma dict_set_enc : forall {V W} (f : V -> W) (d : sdict V) k v,
  py_dict_set (PStr k) (f v) (enc_sdict f d) = Some (enc_sdict f (dset d k v)).
Proof. intros. unfold py_dict_set. cbn [py_hashable]. rewrite pd_set_enc. reflexivity. Qed.

Lemma dict_get_enc : forall {V W} (f : V -> W) (d : sdict V) k,
  py_dict_get (enc_sdict f d) (PStr k) = option_map f (dget d k).
Proof. intros. unfold py_dict_get. cbn [py_hashable]. apply pd_get_enc. Qed.

(** * intf_pos = dict((n.name, i) for i, n in enumerate(interface)) *)
Lemma loop1_spec : forall l k d,
  StilFile__maps_src_loop1 (py_enumerate_from k (map enc_node l)) (enc_sdict enc_nat d)
  = Some (enc_sdict enc_nat (fold_left (fun d kv => dset d (fst kv) (snd kv)) (combine (map sn_name l) (seq k (List.length l))) d)).
Proof.
  induction l as [|a r IH]; intros k d; [reflexivity|].
  cbn [map py_enumerate_from StilFile__maps_src_loop1 List.length seq combine fold_left fst snd].
  cbn [enc_node s_name]. change (PInt (Z.of_nat k)) with (enc_nat k).
  rewrite dict_set_enc. apply IH.
Qed.

Lemma intf_pos_src : forall l,
  StilFile__maps_src_loop1 (py_enumerate (map enc_node l)) [] = Some (enc_sdict enc_nat (intf_pos l)).
Proof. intros l. exact (loop1_spec l 0 []). Qed.

(** * [intf_pos[n] for n in group] *)
Lemma loop2_spec : forall names d acc,
  StilFile__maps_src_loop2 (enc_sdict enc_nat d) (map PStr names) (PList acc)
  = option_map (fun ps => PList (acc ++ map enc_nat ps)) (lookup_all d names).
Proof.
  induction names as [|a r IH]; intros d acc.
  - cbn. rewrite app_nil_r. reflexivity.
  - cbn [map StilFile__maps_src_loop2 lookup_all]. rewrite dict_get_enc.
    destruct (dget d a) as [p|]; cbn [option_map]; [|reflexivity].
    cbn [py_append]. rewrite IH. destruct (lookup_all d r); cbn [option_map map]; [|reflexivity].
    rewrite <- app_assoc. reflexivity.
Qed.

Lemma loop3_spec : forall names d acc,
  StilFile__maps_src_loop3 (enc_sdict enc_nat d) (map PStr names) (PList acc)
  = option_map (fun ps => PList (acc ++ map enc_nat ps)) (lookup_all d names).
Proof.
  induction names as [|a r IH]; intros d acc.
  - cbn. rewrite app_nil_r. reflexivity.
  - cbn [map StilFile__maps_src_loop3 lookup_all]. rewrite dict_get_enc.
    destruct (dget d a) as [p|]; cbn [option_map]; [|reflexivity].
    cbn [py_append]. rewrite IH. destruct (lookup_all d r); cbn [option_map map]; [|reflexivity].
    rewrite <- app_assoc. reflexivity.
Qed.

(** * the two passes over chain[1:-1] *)
Fixpoint inv_fin (items : list string) (inv : bool) : bool :=
  match items with
  | [] => inv
  | n :: r => if is_marker n then inv_fin r (negb inv) else inv_fin r inv
  end.

Lemma eq_str_marker : forall a, py_eq_str (PStr a) "!" = is_marker a.
Proof. reflexivity. Qed.

Lemma loop4_spec : forall items acc inv,
  StilFile__maps_src_loop4 (map PStr items) acc inv = Some (acc ++ inv_walk items inv, inv_fin items inv).
Proof.
  induction items as [|a r IH]; intros acc inv.
  - cbn. rewrite app_nil_r. reflexivity.
  - cbn [map StilFile__maps_src_loop4 inv_walk inv_fin]. rewrite eq_str_marker.
    destruct (is_marker a); rewrite IH; [reflexivity|].
    rewrite <- app_assoc. reflexivity.
Qed.

Lemma loop5_spec : forall items d sm out inv,
  StilFile__maps_src_loop5 (enc_sdict enc_nat d) (map PStr items) (PList sm) out inv
  = option_map (fun ps => (PList (sm ++ map enc_nat ps), out ++ inv_walk items inv, inv_fin items inv))
               (lookup_all d (filter (fun n => negb (is_marker n)) items)).
Proof.
  induction items as [|a r IH]; intros d sm out inv.
  - cbn. rewrite !app_nil_r. reflexivity.
  - cbn [map StilFile__maps_src_loop5 inv_walk inv_fin filter]. rewrite eq_str_marker.
    destruct (is_marker a); cbn [negb]; [apply IH|].
    cbn [lookup_all]. rewrite dict_get_enc.
    destruct (dget d a) as [p|]; cbn [option_map]; [|reflexivity].
    cbn [py_append]. rewrite IH.
    destruct (lookup_all d (filter (fun n => negb (is_marker n)) r)); cbn [option_map map]; [|reflexivity].
    rewrite <- !app_assoc. reflexivity.
Qed.

(** * chain[1:-1], chain[0], chain[-1] *)
Lemma slice_mid_11 : forall {A} (l : list A), slice_mid 1 1 l = removelast (tl l).
Proof.
  intros A l. unfold slice_mid.
  replace (List.length l - 1) with (pred (List.length l)) by lia.
  rewrite <- removelast_firstn_len.
  destruct l as [|a [|b r]]; reflexivity.
Qed.

Lemma slice_mid_strs : forall ch, py_slice_mid (enc_strs ch) 1 1 = Some (enc_strs (chain_mid ch)).
Proof.
  intros ch. unfold enc_strs, py_slice_mid, chain_mid. rewrite <- slice_mid_11.
  unfold slice_mid. rewrite map_length, firstn_map, skipn_map. reflexivity.
Qed.

Lemma index0_strs : forall ch, ch <> [] -> py_index (enc_strs ch) 0 = Some (PStr (chain_si ch)).
Proof. intros [|a r] H; [congruence | reflexivity]. Qed.

Lemma nth_error_last : forall {A} (l : list A) d, l <> [] -> nth_error l (List.length l - 1) = Some (last l d).
Proof.
  induction l as [|a r IH]; intros d H; [congruence|].
  destruct r as [|b r']; [reflexivity|].
  change (last (a :: b :: r') d) with (last (b :: r') d).
  rewrite <- (IH d) by congruence.
  cbn [List.length]. replace (S (S (List.length r')) - 1) with (S (S (List.length r') - 1)) by lia.
  reflexivity.
Qed.

Lemma indexm1_strs : forall ch, ch <> [] -> py_index (enc_strs ch) (-1) = Some (PStr (chain_so ch)).
Proof.
  intros ch H. unfold py_index, enc_strs. cbn [py_seq]. rewrite map_length.
  change (0 <=? -1)%Z with false. cbv iota.
  assert (Hl : List.length ch <> 0) by (destruct ch; [congruence | discriminate]).
  destruct (0 <=? Z.of_nat (List.length ch) + -1)%Z eqn:E; [|apply Z.leb_gt in E; lia].
  replace (Z.to_nat (Z.of_nat (List.length ch) + -1)) with (List.length ch - 1) by lia.
  rewrite nth_error_map, (nth_error_last ch ""%string H). reflexivity.
Qed.

(** * the loop over the scan chains *)
Definition mapv {V W} (f : V -> W) (d : sdict V) : sdict W := map (fun kv => (fst kv, f (snd kv))) d.
Definition arrb (l : list bool) : ndarr := Arr (mv_of_bools l).

Lemma dset_mapv : forall {V W} (f : V -> W) (d : sdict V) k v, dset (mapv f d) k (f v) = mapv f (dset d k v).
Proof.
  intros V W f d k v. induction d as [|[k' v'] r IH]; [reflexivity|].
  unfold mapv in *. cbn [map dset fst snd]. destruct (String.eqb k' k); cbn [map fst snd]; [reflexivity | rewrite IH; reflexivity].
Qed.

(* [chain_maps true] with the inversion vectors kept as the lists of bools the code builds *)
Fixpoint chain_maps_b (pos : sdict nat) (chains : list (list string))
         (sm : sdict (list nat)) (bd : sdict (list bool)) : option (sdict (list nat) * sdict (list bool)) :=
  match chains with
  | [] => Some (sm, bd)
  | ch :: r =>
      let mid := chain_mid ch in
      match lookup_all pos (scan_cells_rev mid) with
      | Some scan_map =>
          chain_maps_b pos r (dset (dset sm (chain_si ch) scan_map) (chain_so ch) scan_map)
                       (dset (dset bd (chain_si ch) (scan_in_inversion mid)) (chain_so ch) (scan_out_inversion mid))
      | None => None
      end
  end.

Lemma chain_maps_b_ok : forall chs pos sm bd,
  chain_maps true pos chs sm (mapv arrb bd) = option_map (fun r => (fst r, mapv arrb (snd r))) (chain_maps_b pos chs sm bd).
Proof.
  induction chs as [|ch r IH]; intros pos sm bd; [reflexivity|].
  cbn [chain_maps chain_maps_b]. unfold inv_entry. cbv zeta.
  destruct (lookup_all pos (scan_cells_rev (chain_mid ch))) as [scan_map|]; [|reflexivity].
  change (Arr (mv_of_bools (scan_in_inversion (chain_mid ch)))) with (arrb (scan_in_inversion (chain_mid ch))).
  change (Arr (mv_of_bools (scan_out_inversion (chain_mid ch)))) with (arrb (scan_out_inversion (chain_mid ch))).
  rewrite !dset_mapv. apply IH.
Qed.

Lemma loop6_spec : forall chs d sm bd, Forall (fun ch => ch <> []) chs ->
  StilFile__maps_src_loop6 (enc_sdict enc_nat d) (map enc_strs chs) (enc_sdict enc_nats sm) (enc_sdict Mvarray bd)
  = option_map (fun r => (enc_sdict enc_nats (fst r), enc_sdict Mvarray (snd r))) (chain_maps_b d chs sm bd).
Proof.
  induction chs as [|ch r IH]; intros d sm bd Hne; [reflexivity|].
  inversion Hne as [|x y Hch Hr]; subst x y.
  cbn [map StilFile__maps_src_loop6 chain_maps_b]. cbv zeta.
  rewrite slice_mid_strs. cbv beta iota. unfold enc_strs at 1. cbn [py_seq].
  rewrite loop4_spec. cbv beta iota.
  unfold enc_strs at 1. unfold py_reversed. cbn [py_seq option_map]. rewrite <- map_rev.
  rewrite loop5_spec. fold (scan_cells_rev (chain_mid ch)).
  destruct (lookup_all d (scan_cells_rev (chain_mid ch))) as [ps|]; cbn [option_map]; [|reflexivity].
  rewrite (index0_strs ch Hch), (indexm1_strs ch Hch). cbv beta iota.
  cbn [app]. change (PList (map enc_nat ps)) with (enc_nats ps).
  rewrite !dict_set_enc. cbv beta iota.
  apply IH. exact Hr.
Qed.

Lemma interp_enc_b : forall bd,
  map (fun kv : pyv * mvobj => (fst kv, mv_interp (snd kv))) (enc_sdict Mvarray bd) = enc_sdict (fun a => a) (mapv arrb bd).
Proof.
  intros bd. unfold enc_sdict, mapv. rewrite !map_map. apply map_ext. intros [k v]. reflexivity.
Qed.

Lemma dict_values_enc : forall {V W} (f : V -> W) (d : sdict V), py_dict_values (enc_sdict f d) = map f (map snd d).
Proof. intros. unfold py_dict_values, enc_sdict. rewrite !map_map. reflexivity. Qed.

(** * the whole function *)
Theorem maps_source_is_model : forall groups chains c,
  Forall (fun ch => ch <> []) (map snd chains) ->
  option_map src_view (StilFile__maps_src (enc_stil groups chains) (enc_circ c))
  = option_map model_view (maps_gen true groups chains c).
Proof.
  intros groups chains c Hne.
  unfold StilFile__maps_src, maps_gen, enc_stil, enc_circ.
  cbn [s_s_nodes s_signal_groups s_scan_chains]. cbv zeta.
  rewrite intf_pos_src. cbv beta iota.
  rewrite !dict_get_enc.
  destruct (dget groups "_pi") as [gpi|]; cbn [option_map]; [|reflexivity].
  unfold enc_strs at 1. cbn [py_seq]. rewrite loop2_spec.
  destruct (lookup_all (intf_pos (interface c)) gpi) as [pim|]; cbn [option_map].
  2:{ destruct (dget groups "_po"); reflexivity. }
  destruct (dget groups "_po") as [gpo|]; cbn [option_map]; [|reflexivity].
  unfold enc_strs at 1. cbn [py_seq]. rewrite loop3_spec.
  destruct (lookup_all (intf_pos (interface c)) gpo) as [pom|]; cbn [option_map]; [|reflexivity].
  rewrite dict_values_enc.
  change (@nil (pyv * pyv)) with (enc_sdict enc_nats []).
  change (@nil (pyv * mvobj)) with (enc_sdict Mvarray []).
  rewrite (loop6_spec _ _ _ _ Hne).
  change (@nil (string * ndarr)) with (mapv arrb []).
  rewrite chain_maps_b_ok.
  destruct (chain_maps_b (intf_pos (interface c)) (map snd chains) [] []) as [[sm bd]|]; cbn [option_map fst snd]; [|reflexivity].
  unfold src_view, model_view. cbn [m_intf m_pi m_po m_scan m_inv app]. rewrite interp_enc_b. reflexivity.
Qed.

(** non-vacuity: a chain `si ! a b ! so` (inverter behind the scan-in port and in front of the scan-out port) *)
Definition nv_circuit : scircuit :=
  {| sc_nodes := [ {| sn_name := "si"; sn_kind := "__fork__" |}; {| sn_name := "so"; sn_kind := "__fork__" |};
                   {| sn_name := "pi0"; sn_kind := "__fork__" |}; {| sn_name := "a"; sn_kind := "DFF" |};
                   {| sn_name := "b"; sn_kind := "sdffx1" |} ];
     sc_io := [2; 0; 1] |}.
Definition nv_groups : sdict (list string) := [("_pi", ["si"; "pi0"]); ("_po", ["so"])]%string.
Definition nv_chains : sdict (list string) := [("1", ["si"; "!"; "a"; "b"; "!"; "so"])]%string.

Lemma maps_source_nonvacuous :
  Forall (fun ch : list string => ch <> []) (map snd nv_chains)
  /\ StilFile__maps_src (enc_stil nv_groups nv_chains) (enc_circ nv_circuit)
     = Some (map enc_node (interface nv_circuit), enc_nats [1; 0], enc_nats [2],
             [(PStr "si", enc_nats [4; 3]); (PStr "so", enc_nats [4; 3])],
             [(PStr "si", Mvarray [true; true]); (PStr "so", Mvarray [true; true])])
  /\ option_map maps_view (maps_gen true nv_groups nv_chains nv_circuit)
     = Some (["pi0"; "si"; "so"; "a"; "b"]%string, [1; 0], [2], [("si", [4; 3]); ("so", [4; 3])]%string,
             [("si", Arr [ONE; ONE]); ("so", Arr [ONE; ONE])]%string).
Proof.
  split; [|split].
  - repeat constructor; discriminate.
  - vm_compute. reflexivity.
  - vm_compute. reflexivity.
Qed.
