(** C09: the consistency invariant relative to DETACHED line ends.

    Circuit.substitute re-kinds the instance node in place, clears its pin lists (the lines of the instance still record
    it as driver / reader) and re-attaches these lines one by one to pins of the copied implementation.  [CW PD PR c] is
    [CCoreX [] c] in which the lines in [PD] are exempt on the driver side and the lines in [PR] on the reader side, and in
    which no pin refers to an exempt line on that side.  The primitive transitions substitute is composed of
    (Node(), a new line record, writing a driver / reader record of a detached end, writing a pin) preserve it. *)
From Coq Require Import List Arith Bool String Lia.
From KV Require Import Model.Circuit Model.CircuitInv Proofs.CircuitBase Proofs.CircuitProofs.
Import ListNotations.
Local Open Scope list_scope.

Record CBN (c : circ) : Prop := mkCBN {
  bn_nb : forall n, In n (nodes c) -> n < nnext c;
  bn_nidx : forall i n, nth_error (nodes c) i = Some n -> n_alive (nst c n) = true /\ n_index (nst c n) = i;
  bn_forks_nd : NoDup (map fst (forks c));
  bn_forks : forall s n, In (s, n) (forks c) <-> (In n (nodes c) /\ is_fork (kind_of c n) = true /\ name_of c n = s);
  bn_cells_nd : NoDup (map fst (cells c));
  bn_cells : forall s n, In (s, n) (cells c) <-> (In n (nodes c) /\ is_fork (kind_of c n) = false /\ name_of c n = s) }.
Record CBL (c : circ) : Prop := mkCBL {
  bl_lb : forall l, In l (lines c) -> l < lnext c;
  bl_lidx : forall i l, nth_error (lines c) i = Some l -> l_alive (lst c l) = true /\ l_index (lst c l) = i }.

Record CW (PD PR : nat -> Prop) (c : circ) : Prop := mkCW {
  cw_n : CBN c;
  cw_l : CBL c;
  cw_pd : forall z, PD z -> In z (lines c);
  cw_pr : forall z, PR z -> In z (lines c);
  cw_line : forall l, In l (lines c) -> exists d r, l_drv (lst c l) = Some d /\ l_rdr (lst c l) = Some r /\
              (~ PD l -> In d (nodes c) /\ out_at c d (l_dpin (lst c l)) = Some l) /\
              (~ PR l -> In r (nodes c) /\ in_at c r (l_rpin (lst c l)) = Some l);
  cw_outs : forall n p l, In n (nodes c) -> out_at c n p = Some l ->
              In l (lines c) /\ ~ PD l /\ l_drv (lst c l) = Some n /\ l_dpin (lst c l) = p;
  cw_ins : forall n p l, In n (nodes c) -> in_at c n p = Some l ->
              In l (lines c) /\ ~ PR l /\ l_rdr (lst c l) = Some n /\ l_rpin (lst c l) = p }.

Definition NoP : nat -> Prop := fun _ => False.

(** ** to and from the full invariant *)
Lemma cbn_of_ccore : forall X c, CCoreX X c -> CBN c.
Proof.
  intros X c HC. constructor; try apply HC.
  intros n Hn. apply (cc_nb X c HC). left; auto.
Qed.
Lemma cbl_of_ccore : forall X c, CCoreX X c -> CBL c.
Proof. intros X c HC. constructor; apply HC. Qed.

Lemma cw_of_ccore : forall c, CCoreX [] c -> CW NoP NoP c.
Proof.
  intros c HC. constructor.
  - eapply cbn_of_ccore; eauto.
  - eapply cbl_of_ccore; eauto.
  - intros z [].
  - intros z [].
  - intros l Hl. destruct (cc_line [] c HC l Hl) as [d [r [H1 [H2 [[H3|[]] [[H4|[]] [H5 H6]]]]]]].
    exists d, r. repeat split; auto.
  - intros n p l Hn Ho. destruct (cc_outs [] c HC n p l (or_introl Hn) Ho) as [A [B C]]. repeat split; auto.
  - intros n p l Hn Ho. destruct (cc_ins [] c HC n p l (or_introl Hn) Ho) as [A [B C]]. repeat split; auto.
Qed.

Lemma ccore_of_cw : forall PD PR c, CW PD PR c -> (forall z, In z (lines c) -> ~ PD z) -> (forall z, In z (lines c) -> ~ PR z) -> CCoreX [] c.
Proof.
  intros PD PR c H HD HR. destruct (cw_n _ _ _ H). destruct (cw_l _ _ _ H).
  constructor; auto.
  - intros n [Hn|[]]. auto.
  - intros x [].
  - intros l Hl. destruct (cw_line _ _ _ H l Hl) as [d [r [H1 [H2 [H3 H4]]]]].
    destruct (H3 (HD l Hl)) as [A B]. destruct (H4 (HR l Hl)) as [A' B'].
    exists d, r. repeat split; auto; left; auto.
  - intros n p l [Hn|[]] Ho. destruct (cw_outs _ _ _ H n p l Hn Ho) as [A [_ [B C]]]. auto.
  - intros n p l [Hn|[]] Ho. destruct (cw_ins _ _ _ H n p l Hn Ho) as [A [_ [B C]]]. auto.
Qed.

Lemma cw_ext : forall PD PR PD' PR' c, CW PD PR c -> (forall z, PD z <-> PD' z) -> (forall z, PR z <-> PR' z) -> CW PD' PR' c.
Proof.
  intros PD PR PD' PR' c H ED ER. constructor; try apply H.
  - intros z Hz. apply (cw_pd _ _ _ H). apply ED; auto.
  - intros z Hz. apply (cw_pr _ _ _ H). apply ER; auto.
  - intros l Hl. destruct (cw_line _ _ _ H l Hl) as [d [r [H1 [H2 [H3 H4]]]]]. exists d, r. repeat split; auto.
    + apply H3. intros Hc. apply H0. apply ED; auto.
    + apply H3. intros Hc. apply H0. apply ED; auto.
    + apply H4. intros Hc. apply H0. apply ER; auto.
    + apply H4. intros Hc. apply H0. apply ER; auto.
  - intros n p l Hn Ho. destruct (cw_outs _ _ _ H n p l Hn Ho) as [A [B C]]. repeat split; try tauto.
    intros Hc. apply B. apply ED; auto.
  - intros n p l Hn Ho. destruct (cw_ins _ _ _ H n p l Hn Ho) as [A [B C]]. repeat split; try tauto.
    intros Hc. apply B. apply ER; auto.
Qed.

(** ** frames *)
Lemma cbn_frame : forall c c', CBN c -> nnext c' = nnext c -> nodes c' = nodes c -> forks c' = forks c -> cells c' = cells c ->
  (forall x, n_name (nst c' x) = n_name (nst c x) /\ n_kind (nst c' x) = n_kind (nst c x) /\
             n_index (nst c' x) = n_index (nst c x) /\ n_alive (nst c' x) = n_alive (nst c x)) -> CBN c'.
Proof.
  intros c c' H E1 E2 E3 E4 F. constructor.
  - intros n Hn. rewrite E1. rewrite E2 in Hn. apply (bn_nb c H); auto.
  - intros i n Hi. rewrite E2 in Hi. destruct (F n) as [_ [_ [A B]]]. rewrite A, B. apply (bn_nidx c H); auto.
  - rewrite E3. apply H.
  - intros s n. rewrite E3, E2. unf. destruct (F n) as [A [B _]]. rewrite A, B. apply (bn_forks c H).
  - rewrite E4. apply H.
  - intros s n. rewrite E4, E2. unf. destruct (F n) as [A [B _]]. rewrite A, B. apply (bn_cells c H).
Qed.

Lemma cbl_frame : forall c c', CBL c -> lnext c' = lnext c -> lines c' = lines c ->
  (forall z, In z (lines c) -> l_index (lst c' z) = l_index (lst c z) /\ l_alive (lst c' z) = l_alive (lst c z)) -> CBL c'.
Proof.
  intros c c' H E1 E2 F. constructor.
  - intros l Hl. rewrite E1. rewrite E2 in Hl. apply (bl_lb c H); auto.
  - intros i l Hi. rewrite E2 in Hi. destruct (F l) as [A B]. { eapply nth_error_In; eauto. }
    rewrite A, B. apply (bl_lidx c H); auto.
Qed.

(** ** Node() *)
Lemma add_node_facts : forall c name kind c' id, add_node c name kind = Some (c', id) ->
  name_free c name kind /\ id = nnext c /\ nodes c' = nodes c ++ [id] /\ lines c' = lines c /\ io c' = io c /\
  lst c' = lst c /\ lnext c' = lnext c /\ nnext c' = S (nnext c) /\
  (forall x, x <> id -> nst c' x = nst c x) /\
  nst c' id = mkN name kind (List.length (nodes c)) [] [] true /\
  forks c' = (if is_fork kind then forks c ++ [(name, id)] else forks c) /\
  cells c' = (if is_fork kind then cells c else cells c ++ [(name, id)]).
Proof.
  intros c name kind c' id H. unfold add_node, name_free in *.
  assert (Hlen : List.length (nodes c ++ [nnext c]) - 1 = List.length (nodes c)).
  { rewrite app_length. simpl. lia. }
  destruct (is_fork kind) eqn:Hk.
  - destruct (dget name (forks c)) eqn:E; [discriminate|]. simpl in H. inv H. simpl. rewrite Hlen.
    repeat split; auto.
    + intros x Hx. unfold fupd. destruct (Nat.eqb_spec x (nnext c)); congruence.
    + unfold fupd. rewrite Nat.eqb_refl. reflexivity.
  - destruct (dget name (cells c)) eqn:E; [discriminate|]. simpl in H. inv H. simpl. rewrite Hlen.
    repeat split; auto.
    + intros x Hx. unfold fupd. destruct (Nat.eqb_spec x (nnext c)); congruence.
    + unfold fupd. rewrite Nat.eqb_refl. reflexivity.
Qed.

(* a dictionary that receives / does not receive the new node *)
Lemma dict_add : forall (d : list (string * nat)) (nds : list nat) (P P' : nat -> bool) (nm nm' : nat -> string) name id (f : bool),
  NoDup (map fst d) -> dget name d = None -> ~ In id nds ->
  (forall s n, In (s, n) d <-> (In n nds /\ P n = f /\ nm n = s)) ->
  P' id = f -> nm' id = name -> (forall n, n <> id -> P' n = P n /\ nm' n = nm n) ->
  NoDup (map fst (d ++ [(name, id)])) /\
  forall s n, In (s, n) (d ++ [(name, id)]) <-> (In n (nds ++ [id]) /\ P' n = f /\ nm' n = s).
Proof.
  intros d nds P P' nm nm' name id f Hnd Hfree Hid Hd HP Hnm Hother. split.
  - rewrite map_app. simpl. apply NoDup_app_single; auto. apply dget_none; auto.
  - intros s n. rewrite !in_app_iff. simpl. destruct (Nat.eq_dec n id) as [->|Hne].
    + split.
      * intros [H|[E|[]]]. { apply Hd in H. tauto. } inv E. auto.
      * intros [_ [_ <-]]. right; left. congruence.
    + destruct (Hother n Hne) as [A B]. rewrite A, B, Hd. split.
      * intros [H|[E|[]]]. tauto. inv E. congruence.
      * intros [[H|[E|[]]] H']. left; tauto. congruence.
Qed.
Lemma dict_keep : forall (d : list (string * nat)) (nds : list nat) (P P' : nat -> bool) (nm nm' : nat -> string) id (f : bool),
  ~ In id nds -> (forall s n, In (s, n) d <-> (In n nds /\ P n = f /\ nm n = s)) ->
  P' id <> f -> (forall n, n <> id -> P' n = P n /\ nm' n = nm n) ->
  forall s n, In (s, n) d <-> (In n (nds ++ [id]) /\ P' n = f /\ nm' n = s).
Proof.
  intros d nds P P' nm nm' id f Hid Hd HP Hother s n. rewrite in_app_iff. simpl. destruct (Nat.eq_dec n id) as [->|Hne].
  - split. { intros H. apply Hd in H. tauto. } intros [_ [H _]]. congruence.
  - destruct (Hother n Hne) as [A B]. rewrite A, B, Hd. split. tauto. intros [[H|[E|[]]] H']. tauto. congruence.
Qed.

Lemma cbn_add_node : forall c name kind c' id, CBN c -> add_node c name kind = Some (c', id) -> CBN c'.
Proof.
  intros c name kind c' id H Hadd.
  destruct (add_node_facts c name kind c' id Hadd) as [Hfree [-> [F1 [F2 [F3 [F4 [F5 [F6 [F7 [F8 [F9 F10]]]]]]]]]]].
  assert (Hfresh : ~ In (nnext c) (nodes c)). { intros Hc. apply (bn_nb c H) in Hc. lia. }
  assert (Hother : forall n, n <> nnext c -> is_fork (kind_of c' n) = is_fork (kind_of c n) /\ name_of c' n = name_of c n).
  { intros n Hn. unf. rewrite F7 by auto. auto. }
  assert (Hk : is_fork (kind_of c' (nnext c)) = is_fork kind) by (unf; rewrite F8; reflexivity).
  assert (Hnm : name_of c' (nnext c) = name) by (unf; rewrite F8; reflexivity).
  unfold name_free in Hfree.
  constructor.
  - intros n Hn. rewrite F6. rewrite F1 in Hn. apply in_app_or in Hn. destruct Hn as [Hn|[<-|[]]]; [|lia].
    apply (bn_nb c H) in Hn. lia.
  - intros i n Hi. rewrite F1 in Hi. destruct (Nat.lt_ge_cases i (List.length (nodes c))).
    + rewrite nth_error_app1 in Hi by auto. rewrite F7. apply (bn_nidx c H); auto.
      intros ->. apply Hfresh. eapply nth_error_In; eauto.
    + rewrite nth_error_app2 in Hi by auto.
      destruct (i - List.length (nodes c)) eqn:E; simpl in Hi. 2:{ destruct n0; discriminate. }
      inv Hi. rewrite F8. simpl. split; auto. lia.
  - rewrite F9. destruct (is_fork kind) eqn:Hfk; [|apply H].
    apply (dict_add (forks c) (nodes c) (fun n => is_fork (kind_of c n)) (fun n => is_fork (kind_of c' n)) (name_of c) (name_of c') name (nnext c) true);
      auto; try apply H.
  - rewrite F9, F1. destruct (is_fork kind) eqn:Hfk.
    + apply (dict_add (forks c) (nodes c) (fun n => is_fork (kind_of c n)) (fun n => is_fork (kind_of c' n)) (name_of c) (name_of c') name (nnext c) true);
        auto; try apply H.
    + apply (dict_keep (forks c) (nodes c) (fun n => is_fork (kind_of c n)) (fun n => is_fork (kind_of c' n)) (name_of c) (name_of c') (nnext c) true);
        auto; try apply H. rewrite Hk. discriminate.
  - rewrite F10. destruct (is_fork kind) eqn:Hfk; [apply H|].
    apply (dict_add (cells c) (nodes c) (fun n => is_fork (kind_of c n)) (fun n => is_fork (kind_of c' n)) (name_of c) (name_of c') name (nnext c) false);
      auto; try apply H.
  - rewrite F10, F1. destruct (is_fork kind) eqn:Hfk.
    + apply (dict_keep (cells c) (nodes c) (fun n => is_fork (kind_of c n)) (fun n => is_fork (kind_of c' n)) (name_of c) (name_of c') (nnext c) false);
        auto; try apply H. rewrite Hk. discriminate.
    + apply (dict_add (cells c) (nodes c) (fun n => is_fork (kind_of c n)) (fun n => is_fork (kind_of c' n)) (name_of c) (name_of c') name (nnext c) false);
        auto; try apply H.
Qed.

Lemma cw_add_node : forall PD PR c name kind c' id, CW PD PR c -> add_node c name kind = Some (c', id) -> CW PD PR c'.
Proof.
  intros PD PR c name kind c' id H Hadd.
  pose proof (cbn_add_node c name kind c' id (cw_n _ _ _ H) Hadd) as HN.
  destruct (add_node_facts c name kind c' id Hadd) as [Hfree [-> [F1 [F2 [F3 [F4 [F5 [F6 [F7 [F8 [F9 F10]]]]]]]]]]].
  assert (Hfresh : forall n, In n (nodes c) -> n <> nnext c). { intros n Hn. apply (bn_nb c (cw_n _ _ _ H)) in Hn. lia. }
  assert (Hin : forall n, In n (nodes c') <-> In n (nodes c) \/ n = nnext c).
  { intros n. rewrite F1, in_app_iff. simpl. intuition. }
  constructor; auto.
  - apply (cbl_frame c c' (cw_l _ _ _ H)); auto. intros z _. rewrite F4. auto.
  - rewrite F2. apply H.
  - rewrite F2. apply H.
  - intros l Hl. rewrite F2 in Hl. rewrite F4. destruct (cw_line _ _ _ H l Hl) as [d [r [H1 [H2 [H3 H4]]]]].
    exists d, r. split; auto. split; auto. split.
    + intros Hp. destruct (H3 Hp) as [A B]. split. apply Hin; auto. unf. rewrite F7 by (apply Hfresh; auto). auto.
    + intros Hp. destruct (H4 Hp) as [A B]. split. apply Hin; auto. unf. rewrite F7 by (apply Hfresh; auto). auto.
  - intros n p l Hn Ho. rewrite F2, F4. apply Hin in Hn. destruct Hn as [Hn| ->].
    + apply (cw_outs _ _ _ H n p l Hn). unf. rewrite F7 in Ho by (apply Hfresh; auto). auto.
    + unf. rewrite F8 in Ho. simpl in Ho. destruct p; discriminate.
  - intros n p l Hn Ho. rewrite F2, F4. apply Hin in Hn. destruct Hn as [Hn| ->].
    + apply (cw_ins _ _ _ H n p l Hn). unf. rewrite F7 in Ho by (apply Hfresh; auto). auto.
    + unf. rewrite F8 in Ho. simpl in Ho. destruct p; discriminate.
Qed.

(** ** a new line record, detached at both ends *)
Definition new_line (c : circ) (rec : lineR) : circ :=
  mkC (nst c) (nnext c) (fupd (lst c) (lnext c) rec) (S (lnext c)) (nodes c) (lines c ++ [lnext c]) (io c) (cells c) (forks c).

Lemma cw_new_line : forall PD PR c d dp r rp,
  CW PD PR c ->
  CW (fun z => PD z \/ z = lnext c) (fun z => PR z \/ z = lnext c)
     (new_line c (mkL (List.length (lines c)) (Some d) dp (Some r) rp true)).
Proof.
  intros PD PR c d dp r rp H. set (id := lnext c). set (c' := new_line c _).
  assert (Hfresh : forall l, In l (lines c) -> l <> id). { intros l Hl. apply (bl_lb c (cw_l _ _ _ H)) in Hl. unfold id. lia. }
  assert (Hlst : forall l, l <> id -> lst c' l = lst c l).
  { intros l Hl. unfold c', new_line, fupd. simpl. destruct (Nat.eqb_spec l (lnext c)); auto. contradiction. }
  assert (Hnew : lst c' id = mkL (List.length (lines c)) (Some d) dp (Some r) rp true).
  { unfold c', new_line, fupd, id. simpl. rewrite Nat.eqb_refl. reflexivity. }
  constructor.
  - apply (cbn_frame c c' (cw_n _ _ _ H)); auto.
  - constructor.
    + intros l Hl. simpl in Hl. simpl. apply in_app_or in Hl. destruct Hl as [Hl|[<-|[]]]; [|lia].
      apply (bl_lb c (cw_l _ _ _ H)) in Hl. lia.
    + intros i l Hi. simpl in Hi. destruct (Nat.lt_ge_cases i (List.length (lines c))).
      * rewrite nth_error_app1 in Hi by auto. rewrite Hlst. apply (bl_lidx c (cw_l _ _ _ H)); auto.
        apply Hfresh. eapply nth_error_In; eauto.
      * rewrite nth_error_app2 in Hi by auto.
        destruct (i - List.length (lines c)) eqn:E; simpl in Hi. 2:{ destruct n; discriminate. }
        inv Hi. fold id. rewrite Hnew. simpl. split; auto. lia.
  - intros z [Hz| ->]; simpl; apply in_or_app. left. apply (cw_pd _ _ _ H); auto. right; left; auto.
  - intros z [Hz| ->]; simpl; apply in_or_app. left. apply (cw_pr _ _ _ H); auto. right; left; auto.
  - intros l Hl. simpl in Hl. apply in_app_or in Hl. destruct Hl as [Hl|[<-|[]]].
    + rewrite Hlst by (apply Hfresh; auto). destruct (cw_line _ _ _ H l Hl) as [d0 [r0 [H1 [H2 [H3 H4]]]]].
      exists d0, r0. split; auto. split; auto. split.
      * intros Hp. apply H3. intros Hc. apply Hp. left; auto.
      * intros Hp. apply H4. intros Hc. apply Hp. left; auto.
    + fold id. rewrite Hnew. simpl. exists d, r. split; auto. split; auto. split; intros Hp; exfalso; apply Hp; right; auto.
  - intros n p l Hn Ho. destruct (cw_outs _ _ _ H n p l Hn Ho) as [A [B [C D]]].
    rewrite Hlst by (apply Hfresh; auto). simpl. split. apply in_or_app; auto. split; auto.
    intros [Hc|Hc]; auto. apply (Hfresh l); auto.
  - intros n p l Hn Ho. destruct (cw_ins _ _ _ H n p l Hn Ho) as [A [B [C D]]].
    rewrite Hlst by (apply Hfresh; auto). simpl. split. apply in_or_app; auto. split; auto.
    intros [Hc|Hc]; auto. apply (Hfresh l); auto.
Qed.

(** ** writing the driver / reader record of a detached end *)
Lemma cw_rec_d : forall PD PR c ll dn pin, CW PD PR c -> PD ll ->
  CW PD PR (upd_line c ll (fun x => lset_drv x (Some dn) pin)).
Proof.
  intros PD PR c ll dn pin H Hll. set (c' := upd_line c ll _).
  assert (Hlst : forall l, l <> ll -> lst c' l = lst c l).
  { intros l Hl. unfold c'. unf. simpl. destruct (Nat.eqb_spec l ll); congruence. }
  assert (Hnew : lst c' ll = lset_drv (lst c ll) (Some dn) pin).
  { unfold c'. unf. simpl. rewrite Nat.eqb_refl. reflexivity. }
  constructor.
  - apply (cbn_frame c c' (cw_n _ _ _ H)); auto.
  - apply (cbl_frame c c' (cw_l _ _ _ H)); auto. intros z _. destruct (Nat.eq_dec z ll) as [->|Hne].
    rewrite Hnew. auto. rewrite Hlst; auto.
  - apply H.
  - apply H.
  - intros l Hl. change (lines c') with (lines c) in Hl. destruct (cw_line _ _ _ H l Hl) as [d0 [r0 [H1 [H2 [H3 H4]]]]].
    destruct (Nat.eq_dec l ll) as [->|Hne].
    + rewrite Hnew. simpl. exists dn, r0. split; auto. split; auto. split. intros Hp; contradiction. exact H4.
    + rewrite Hlst by auto. exists d0, r0. auto.
  - intros n p l Hn Ho. destruct (cw_outs _ _ _ H n p l Hn Ho) as [A [B [C D]]].
    assert (l <> ll) by (intros ->; auto). rewrite Hlst by auto. auto.
  - intros n p l Hn Ho. destruct (cw_ins _ _ _ H n p l Hn Ho) as [A [B [C D]]].
    destruct (Nat.eq_dec l ll) as [->|Hne]. rewrite Hnew. simpl. auto. rewrite Hlst by auto. auto.
Qed.

Lemma cw_rec_r : forall PD PR c ll rd pin, CW PD PR c -> PR ll ->
  CW PD PR (upd_line c ll (fun x => lset_rdr x (Some rd) pin)).
Proof.
  intros PD PR c ll rd pin H Hll. set (c' := upd_line c ll _).
  assert (Hlst : forall l, l <> ll -> lst c' l = lst c l).
  { intros l Hl. unfold c'. unf. simpl. destruct (Nat.eqb_spec l ll); congruence. }
  assert (Hnew : lst c' ll = lset_rdr (lst c ll) (Some rd) pin).
  { unfold c'. unf. simpl. rewrite Nat.eqb_refl. reflexivity. }
  constructor.
  - apply (cbn_frame c c' (cw_n _ _ _ H)); auto.
  - apply (cbl_frame c c' (cw_l _ _ _ H)); auto. intros z _. destruct (Nat.eq_dec z ll) as [->|Hne].
    rewrite Hnew. auto. rewrite Hlst; auto.
  - apply H.
  - apply H.
  - intros l Hl. change (lines c') with (lines c) in Hl. destruct (cw_line _ _ _ H l Hl) as [d0 [r0 [H1 [H2 [H3 H4]]]]].
    destruct (Nat.eq_dec l ll) as [->|Hne].
    + rewrite Hnew. simpl. exists d0, rd. split; auto. split; auto. split. exact H3. intros Hp; contradiction.
    + rewrite Hlst by auto. exists d0, r0. auto.
  - intros n p l Hn Ho. destruct (cw_outs _ _ _ H n p l Hn Ho) as [A [B [C D]]].
    destruct (Nat.eq_dec l ll) as [->|Hne]. rewrite Hnew. simpl. auto. rewrite Hlst by auto. auto.
  - intros n p l Hn Ho. destruct (cw_ins _ _ _ H n p l Hn Ho) as [A [B [C D]]].
    assert (l <> ll) by (intros ->; auto). rewrite Hlst by auto. auto.
Qed.

(** ** writing a pin: the detached end becomes attached *)
Definition set_out (c : circ) (dn pin ll : nat) : circ := upd_node c dn (fun x => nset_outs x (gset (n_outs x) pin (Some ll))).
Definition set_in (c : circ) (rd pin ll : nat) : circ := upd_node c rd (fun x => nset_ins x (gset (n_ins x) pin (Some ll))).

Lemma set_out_facts : forall c dn pin ll,
  (forall n p, out_at (set_out c dn pin ll) n p = if Nat.eqb n dn && Nat.eqb p pin then Some ll else out_at c n p) /\
  (forall n, ins_of (set_out c dn pin ll) n = ins_of c n) /\
  (forall x, n_name (nst (set_out c dn pin ll) x) = n_name (nst c x) /\ n_kind (nst (set_out c dn pin ll) x) = n_kind (nst c x) /\
             n_index (nst (set_out c dn pin ll) x) = n_index (nst c x) /\ n_alive (nst (set_out c dn pin ll) x) = n_alive (nst c x)) /\
  (forall n, n <> dn -> nst (set_out c dn pin ll) n = nst c n) /\
  outs_of (set_out c dn pin ll) dn = gset (outs_of c dn) pin (Some ll).
Proof.
  intros c dn pin ll. unfold set_out. repeat split; try (unf; simpl; destruct (Nat.eqb_spec x dn); subst; reflexivity).
  - intros n p. unf. simpl. destruct (Nat.eqb_spec n dn); simpl; auto. subst. rewrite nth_gset. reflexivity.
  - intros n. unf. simpl. destruct (Nat.eqb_spec n dn); subst; reflexivity.
  - intros n Hn. unf. simpl. destruct (Nat.eqb_spec n dn); congruence.
  - unf. simpl. rewrite Nat.eqb_refl. reflexivity.
Qed.

Lemma set_in_facts : forall c rd pin ll,
  (forall n p, in_at (set_in c rd pin ll) n p = if Nat.eqb n rd && Nat.eqb p pin then Some ll else in_at c n p) /\
  (forall n, outs_of (set_in c rd pin ll) n = outs_of c n) /\
  (forall x, n_name (nst (set_in c rd pin ll) x) = n_name (nst c x) /\ n_kind (nst (set_in c rd pin ll) x) = n_kind (nst c x) /\
             n_index (nst (set_in c rd pin ll) x) = n_index (nst c x) /\ n_alive (nst (set_in c rd pin ll) x) = n_alive (nst c x)) /\
  (forall n, n <> rd -> nst (set_in c rd pin ll) n = nst c n) /\
  ins_of (set_in c rd pin ll) rd = gset (ins_of c rd) pin (Some ll).
Proof.
  intros c rd pin ll. unfold set_in. repeat split; try (unf; simpl; destruct (Nat.eqb_spec x rd); subst; reflexivity).
  - intros n p. unf. simpl. destruct (Nat.eqb_spec n rd); simpl; auto. subst. rewrite nth_gset. reflexivity.
  - intros n. unf. simpl. destruct (Nat.eqb_spec n rd); subst; reflexivity.
  - intros n Hn. unf. simpl. destruct (Nat.eqb_spec n rd); congruence.
  - unf. simpl. rewrite Nat.eqb_refl. reflexivity.
Qed.

Lemma cw_set_out : forall PD PR c ll dn pin, CW PD PR c -> PD ll ->
  l_drv (lst c ll) = Some dn -> l_dpin (lst c ll) = pin -> In dn (nodes c) -> out_at c dn pin = None ->
  CW (fun z => PD z /\ z <> ll) PR (set_out c dn pin ll).
Proof.
  intros PD PR c ll dn pin H Hll Hd Hp Hdn Hfree.
  destruct (set_out_facts c dn pin ll) as [Hoa [Hins [Hnf [_ _]]]]. set (c' := set_out c dn pin ll) in *.
  assert (Hia : forall n p, in_at c' n p = in_at c n p). { intros n p. unfold in_at. rewrite Hins. reflexivity. }
  constructor.
  - apply (cbn_frame c c' (cw_n _ _ _ H)); auto.
  - apply (cbl_frame c c' (cw_l _ _ _ H)); auto.
  - intros z [Hz _]. apply (cw_pd _ _ _ H); auto.
  - apply H.
  - intros l Hl. change (lines c') with (lines c) in Hl. change (lst c') with (lst c). change (nodes c') with (nodes c).
    destruct (cw_line _ _ _ H l Hl) as [d0 [r0 [H1 [H2 [H3 H4]]]]].
    exists d0, r0. split; auto. split; auto. split.
    + intros Hnp. destruct (Nat.eq_dec l ll) as [->|Hne].
      * rewrite Hd in H1. inv H1. split; auto. rewrite Hoa, !Nat.eqb_refl. reflexivity.
      * assert (Hnp' : ~ PD l) by (intros Hc; apply Hnp; auto).
        destruct (H3 Hnp') as [A B]. split; auto. rewrite Hoa.
        destruct (Nat.eqb_spec d0 dn); simpl; auto. destruct (Nat.eqb_spec (l_dpin (lst c l)) pin); simpl; auto.
        subst. congruence.
    + intros Hnp. rewrite Hia. auto.
  - intros n p l Hn Ho. change (lines c') with (lines c). change (lst c') with (lst c). rewrite Hoa in Ho.
    destruct (Nat.eqb_spec n dn); simpl in Ho; [destruct (Nat.eqb_spec p pin); simpl in Ho|].
    + inv Ho. split. apply (cw_pd _ _ _ H); auto. split. tauto. auto.
    + destruct (cw_outs _ _ _ H n p l Hn Ho) as [A [B C]]. split; auto. split; tauto.
    + destruct (cw_outs _ _ _ H n p l Hn Ho) as [A [B C]]. split; auto. split; tauto.
  - intros n p l Hn Ho. rewrite Hia in Ho. apply (cw_ins _ _ _ H n p l Hn Ho).
Qed.

Lemma cw_set_in : forall PD PR c ll rd pin, CW PD PR c -> PR ll ->
  l_rdr (lst c ll) = Some rd -> l_rpin (lst c ll) = pin -> In rd (nodes c) -> in_at c rd pin = None ->
  CW PD (fun z => PR z /\ z <> ll) (set_in c rd pin ll).
Proof.
  intros PD PR c ll rd pin H Hll Hd Hp Hdn Hfree.
  destruct (set_in_facts c rd pin ll) as [Hia [Houts [Hnf [_ _]]]]. set (c' := set_in c rd pin ll) in *.
  assert (Hoa : forall n p, out_at c' n p = out_at c n p). { intros n p. unfold out_at. rewrite Houts. reflexivity. }
  constructor.
  - apply (cbn_frame c c' (cw_n _ _ _ H)); auto.
  - apply (cbl_frame c c' (cw_l _ _ _ H)); auto.
  - apply H.
  - intros z [Hz _]. apply (cw_pr _ _ _ H); auto.
  - intros l Hl. change (lines c') with (lines c) in Hl. change (lst c') with (lst c). change (nodes c') with (nodes c).
    destruct (cw_line _ _ _ H l Hl) as [d0 [r0 [H1 [H2 [H3 H4]]]]].
    exists d0, r0. split; auto. split; auto. split.
    + intros Hnp. rewrite Hoa. auto.
    + intros Hnp. destruct (Nat.eq_dec l ll) as [->|Hne].
      * rewrite Hd in H2. inv H2. split; auto. rewrite Hia, !Nat.eqb_refl. reflexivity.
      * assert (Hnp' : ~ PR l) by (intros Hc; apply Hnp; auto).
        destruct (H4 Hnp') as [A B]. split; auto. rewrite Hia.
        destruct (Nat.eqb_spec r0 rd); simpl; auto. destruct (Nat.eqb_spec (l_rpin (lst c l)) pin); simpl; auto.
        subst. congruence.
  - intros n p l Hn Ho. rewrite Hoa in Ho. apply (cw_outs _ _ _ H n p l Hn Ho).
  - intros n p l Hn Ho. change (lines c') with (lines c). change (lst c') with (lst c). rewrite Hia in Ho.
    destruct (Nat.eqb_spec n rd); simpl in Ho; [destruct (Nat.eqb_spec p pin); simpl in Ho|].
    + inv Ho. split. apply (cw_pr _ _ _ H); auto. split. tauto. auto.
    + destruct (cw_ins _ _ _ H n p l Hn Ho) as [A [B C]]. split; auto. split; tauto.
    + destruct (cw_ins _ _ _ H n p l Hn Ho) as [A [B C]]. split; auto. split; tauto.
Qed.

(** ** Line() with explicit free pins = new record, then both pins *)
Lemma add_line_explicit : forall c d dp r rp,
  fst (add_line c d (Some dp) r (Some rp)) =
  set_in (set_out (new_line c (mkL (List.length (lines c)) (Some d) dp (Some r) rp true)) d dp (lnext c)) r rp (lnext c).
Proof.
  intros. unfold add_line, set_in, set_out, new_line. simpl.
  replace (List.length (lines c ++ [lnext c]) - 1) with (List.length (lines c)). reflexivity.
  rewrite app_length. simpl. lia.
Qed.

Lemma cw_add_line : forall PD PR c d dp r rp, CW PD PR c -> In d (nodes c) -> In r (nodes c) ->
  out_at c d dp = None -> in_at c r rp = None ->
  CW PD PR (fst (add_line c d (Some dp) r (Some rp))).
Proof.
  intros PD PR c d dp r rp H Hd Hr Hfd Hfr. rewrite add_line_explicit.
  set (rec := mkL (List.length (lines c)) (Some d) dp (Some r) rp true).
  pose proof (cw_new_line PD PR c d dp r rp H) as H1. fold rec in H1.
  assert (Hrec : lst (new_line c rec) (lnext c) = rec).
  { unfold new_line, fupd. simpl. rewrite Nat.eqb_refl. reflexivity. }
  assert (H2 := cw_set_out _ _ (new_line c rec) (lnext c) d dp H1 (or_intror eq_refl)).
  rewrite Hrec in H2. specialize (H2 eq_refl eq_refl Hd Hfd).
  destruct (set_out_facts (new_line c rec) d dp (lnext c)) as [_ [Hins _]].
  assert (H3 := cw_set_in _ _ (set_out (new_line c rec) d dp (lnext c)) (lnext c) r rp H2 (or_intror eq_refl)).
  change (lst (set_out (new_line c rec) d dp (lnext c))) with (lst (new_line c rec)) in H3. rewrite Hrec in H3.
  specialize (H3 eq_refl eq_refl Hr). unfold in_at in H3 at 1. rewrite Hins in H3. specialize (H3 Hfr).
  eapply cw_ext. exact H3.
  - intros z. split. tauto. intros Hz. split; auto. intros ->. apply (cw_pd _ _ _ H) in Hz. apply (bl_lb c (cw_l _ _ _ H)) in Hz. lia.
  - intros z. split. tauto. intros Hz. split; auto. intros ->. apply (cw_pr _ _ _ H) in Hz. apply (bl_lb c (cw_l _ _ _ H)) in Hz. lia.
Qed.
