(** C09: Circuit.substitute preserves the consistency invariant.

    The proof follows the five phases of the code.  (a) the instance is re-kinded in place with cleared pin lists (or removed,
    for an implementation without outputs): the lines of the instance become DETACHED ends ([CW PD PR], Proofs/CircuitWeak.v);
    (b) Node() for every implementation node that needs one ([node_map] = [m]); (c) Line() with explicit pins for every
    implementation line between mapped nodes; (d) every instance line is re-attached to a pin of the copied implementation;
    (e) the deferred remove_dangling_nodes calls.  Pin freeness in (c) and (d) comes from the bookkeeping [BK]: every occupied
    pin of a new node is the image of a CONSUMED pin of the implementation, and no implementation pin is consumed twice because
    the implementation itself is consistent.  Gap-free fork outputs come from the bookkeeping [DN]. *)
From Coq Require Import List Arith Bool String Lia.
From KV Require Import Model.Circuit Model.CircuitInv Proofs.CircuitBase Proofs.CircuitProofs Proofs.CircuitDangling Proofs.CircuitWeak.
Import ListNotations.
Local Open Scope list_scope.

(** ** small list facts *)
Lemma fold_opt_inv : forall {A B} (f : A -> B -> option A) (Inv : list B -> A -> Prop) (all : list B),
  (forall done x rest a a', all = done ++ x :: rest -> Inv done a -> f a x = Some a' -> Inv (done ++ [x]) a') ->
  forall a a', Inv [] a -> fold_opt f all a = Some a' -> Inv all a'.
Proof.
  intros A B f Inv all Hstep.
  assert (G : forall rest done a a', all = done ++ rest -> Inv done a -> fold_opt f rest a = Some a' -> Inv all a').
  { induction rest as [|x rest IH]; intros done a a' Hall Hinv Hf; simpl in Hf.
    - inv Hf. rewrite app_nil_r. auto.
    - destruct (f a x) as [a1|] eqn:E; [|discriminate].
      apply (IH (done ++ [x]) a1 a'); auto.
      + rewrite <- app_assoc. simpl. auto.
      + eapply Hstep; eauto. }
  intros a a' H0 Hf. apply (G all [] a a'); auto.
Qed.

Lemma all_somes_map : forall {A} (l : list (option A)) r, all_somes l = Some r -> l = map Some r.
Proof.
  induction l as [|[x|] l IH]; intros r H; simpl in *.
  - inv H. reflexivity.
  - destruct (all_somes l) as [r0|]; [|discriminate]. simpl in H. inv H. simpl. f_equal. apply IH; auto.
  - discriminate.
Qed.

Lemma map_fst_zip : forall {A B} (a : list A) (b : list B), List.length a = List.length b -> map fst (zip a b) = a.
Proof. induction a as [|x a IH]; intros [|y b] H; simpl in *; try lia; auto. f_equal. apply IH. lia. Qed.
Lemma map_snd_zip : forall {A B} (a : list A) (b : list B), List.length a = List.length b -> map snd (zip a b) = b.
Proof. induction a as [|x a IH]; intros [|y b] H; simpl in *; try lia; auto. f_equal. apply IH. lia. Qed.

Lemma in_pad : forall {A} (l : list (option A)) n x, In (Some x) (pad l n) <-> In (Some x) l.
Proof.
  intros A l n x. unfold pad. rewrite in_app_iff. split; auto. intros [H|H]; auto.
  apply repeat_spec in H. discriminate.
Qed.
Lemma somes_app : forall {A} (a b : list (option A)), somes (a ++ b) = somes a ++ somes b.
Proof. induction a as [|[x|] a IH]; intros b; simpl; auto. f_equal. apply IH. Qed.
Lemma somes_repeat_none : forall {A} k, somes (repeat (@None A) k) = [].
Proof. induction k; simpl; auto. Qed.
Lemma somes_pad : forall {A} (l : list (option A)) n, somes (pad l n) = somes l.
Proof. intros A l n. unfold pad. rewrite somes_app, somes_repeat_none, app_nil_r. reflexivity. Qed.

Lemma mget_mset : forall m k v k', mget k' (mset k v m) = if Nat.eqb k' k then Some v else mget k' m.
Proof.
  induction m as [|[a b] m IH]; intros k v k'; simpl.
  - destruct (Nat.eqb k' k); reflexivity.
  - destruct (Nat.eqb_spec k a).
    + subst. simpl. destruct (Nat.eqb_spec k' a); reflexivity.
    + simpl. destruct (Nat.eqb_spec k' a).
      * subst. destruct (Nat.eqb_spec a k); congruence.
      * apply IH.
Qed.

Lemma length_zero_nil : forall {A} (l : list A), (List.length l =? 0) = true -> l = [].
Proof. intros A [|x l] H; simpl in *; auto. discriminate. Qed.

(** ** facts about a consistent implementation *)
Section Impl.
Variable impl : circ.
Hypothesis HIC : CCoreX [] impl.
Hypothesis HIL : IoLive impl.

Lemma node_eqb_eq : forall a b, In a (nodes impl) -> In b (nodes impl) -> node_eqb impl a impl b = true -> a = b.
Proof.
  intros a b Ha Hb H. unfold node_eqb in H. apply andb_true_iff in H. destruct H as [H1 H2].
  apply String.eqb_eq in H1. apply String.eqb_eq in H2.
  destruct (is_fork (kind_of impl a)) eqn:Hk.
  - assert (A : In (name_of impl a, a) (forks impl)) by (apply (cc_forks [] impl HIC); auto).
    assert (B : In (name_of impl a, b) (forks impl)). { apply (cc_forks [] impl HIC). split; auto. split; congruence. }
    apply (dict_functional _ _ _ _ (cc_forks_nd [] impl HIC) A B).
  - assert (A : In (name_of impl a, a) (cells impl)) by (apply (cc_cells [] impl HIC); auto).
    assert (B : In (name_of impl a, b) (cells impl)). { apply (cc_cells [] impl HIC). split; auto. split; congruence. }
    apply (dict_functional _ _ _ _ (cc_cells_nd [] impl HIC) A B).
Qed.

Lemma in_ios_io : forall x, In x (nodes impl) -> in_ios impl x = true -> In (Some x) (io impl).
Proof.
  intros x Hx H. unfold in_ios in H. apply existsb_exists in H. destruct H as [e [He H]].
  destruct e as [m'|]; [|discriminate]. destruct (HIL _ He) as [n [E Hn]]. inv E.
  rewrite (node_eqb_eq x n Hx Hn H). auto.
Qed.
Lemma io_in_ios : forall x, In (Some x) (io impl) -> in_ios impl x = true.
Proof.
  intros x H. unfold in_ios. apply existsb_exists. exists (Some x). split; auto.
  unfold node_eqb. rewrite !String.eqb_refl. reflexivity.
Qed.
Lemma in_ios_fork : forall x, io_forks_b impl = true -> in_ios impl x = true -> is_fork (kind_of impl x) = true.
Proof.
  intros x HF H. unfold in_ios in H. apply existsb_exists in H. destruct H as [e [He H]].
  destruct e as [m'|]; [|discriminate]. unfold io_forks_b in HF. rewrite forallb_forall in HF. specialize (HF _ He). simpl in HF.
  unfold node_eqb in H. apply andb_true_iff in H. destruct H as [_ H]. apply String.eqb_eq in H. rewrite H. auto.
Qed.

Lemma fd_exit : forall fuel n dc, find_designated fuel impl n = Some dc ->
  is_fork (kind_of impl dc) && negb (in_ios impl dc) = false.
Proof.
  induction fuel as [|f IH]; intros n dc H; simpl in H. discriminate.
  destruct (is_fork (kind_of impl n) && negb (in_ios impl n)) eqn:E.
  - destruct (ins_of impl n) as [|[l|] t]; try discriminate. destruct (l_drv (lst impl l)) as [d|]; [|discriminate]. eauto.
  - inv H. auto.
Qed.
Lemma fd_listed : forall fuel n dc, In n (nodes impl) -> find_designated fuel impl n = Some dc -> In dc (nodes impl).
Proof.
  induction fuel as [|f IH]; intros n dc Hn H; simpl in H. discriminate.
  destruct (is_fork (kind_of impl n) && negb (in_ios impl n)) eqn:E.
  - destruct (ins_of impl n) as [|[l|] t] eqn:Ei; try discriminate.
    destruct (l_drv (lst impl l)) as [d|] eqn:Ed; [|discriminate].
    assert (Hin : in_at impl n 0 = Some l) by (unfold in_at; rewrite Ei; reflexivity).
    destruct (cc_ins [] impl HIC n 0 l (or_introl Hn) Hin) as [Hl _].
    destruct (cc_line [] impl HIC l Hl) as [d0 [r0 [H1 [_ [[H3|[]] _]]]]]. rewrite Ed in H1. inv H1.
    apply (IH d0 dc); auto.
  - inv H. auto.
Qed.

(* an implementation line *)
Lemma impl_line : forall l, In l (lines impl) -> exists d r, l_drv (lst impl l) = Some d /\ l_rdr (lst impl l) = Some r /\
  In d (nodes impl) /\ In r (nodes impl) /\ out_at impl d (l_dpin (lst impl l)) = Some l /\ in_at impl r (l_rpin (lst impl l)) = Some l.
Proof.
  intros l Hl. destruct (cc_line [] impl HIC l Hl) as [d [r [H1 [H2 [[H3|[]] [[H4|[]] [H5 H6]]]]]]]. exists d, r. repeat split; auto.
Qed.
Lemma impl_out : forall x p l, In x (nodes impl) -> out_at impl x p = Some l ->
  In l (lines impl) /\ l_drv (lst impl l) = Some x /\ l_dpin (lst impl l) = p.
Proof. intros x p l Hx. apply (cc_outs [] impl HIC). left; auto. Qed.
Lemma impl_in : forall x p l, In x (nodes impl) -> in_at impl x p = Some l ->
  In l (lines impl) /\ l_rdr (lst impl l) = Some x /\ l_rpin (lst impl l) = p.
Proof. intros x p l Hx. apply (cc_ins [] impl HIC). left; auto. Qed.
End Impl.

Lemma nodupb_sound : forall l, nodupb l = true -> NoDup l.
Proof.
  induction l as [|x l IH]; simpl; intros H. constructor.
  apply andb_true_iff in H. destruct H as [H1 H2]. constructor; auto.
  intros Hc. apply mem_In in Hc. rewrite Hc in H1. discriminate.
Qed.

(** ** bookkeeping while the implementation is copied in *)
Section Book.
Variables (c : circ) (node : nat) (impl : circ).
Hypothesis HIC : CCoreX [] impl.

(* the nodes substitute writes to: the instance node and every node created after the call started *)
Definition N (y : nat) : Prop := y = node \/ nnext c <= y.

(* [m] = node_map; CR / CD: implementation lines whose reader / driver pin has been used up; CFi / CFo: port forks whose extra
   input pin 0 / extra output pin len(outs) has been used up *)
Record BK (m : list (nat * nat)) (CR CD CFi CFo : nat -> Prop) (c1 : circ) : Prop := mkBK {
  bk_inj : forall x x' y, mget x m = Some y -> mget x' m = Some y -> x = x';
  bk_rng : forall x y, mget x m = Some y -> In y (nodes c1) /\ N y /\ In x (nodes impl);
  bk_pinr : forall y p z, In y (nodes c1) -> N y -> in_at c1 y p = Some z ->
            exists x, mget x m = Some y /\ ((exists l, in_at impl x p = Some l /\ CR l) \/ (CFi x /\ ins_of impl x = []));
  bk_pind : forall y p z, In y (nodes c1) -> N y -> out_at c1 y p = Some z ->
            exists x, mget x m = Some y /\ ((exists l, out_at impl x p = Some l /\ CD l) \/ (CFo x /\ p = List.length (outs_of impl x))) }.

Lemma bk_frame : forall m CR CD CFi CFo c1 c2, BK m CR CD CFi CFo c1 -> nodes c2 = nodes c1 -> nst c2 = nst c1 ->
  BK m CR CD CFi CFo c2.
Proof.
  intros m CR CD CFi CFo c1 c2 H E1 E2. constructor.
  - apply H.
  - intros x y Hx. rewrite E1. apply (bk_rng _ _ _ _ _ _ H); auto.
  - intros y p z Hy HN Hp. rewrite E1 in Hy. unfold in_at, ins_of in Hp. rewrite E2 in Hp. apply (bk_pinr _ _ _ _ _ _ H y p z); auto.
  - intros y p z Hy HN Hp. rewrite E1 in Hy. unfold out_at, outs_of in Hp. rewrite E2 in Hp. apply (bk_pind _ _ _ _ _ _ H y p z); auto.
Qed.

Lemma bk_mono : forall m CR CD CFi CFo (CR' CD' CFi' CFo' : nat -> Prop) c1, BK m CR CD CFi CFo c1 ->
  (forall l, CR l -> CR' l) -> (forall l, CD l -> CD' l) -> (forall x, CFi x -> CFi' x) -> (forall x, CFo x -> CFo' x) ->
  BK m CR' CD' CFi' CFo' c1.
Proof.
  intros m CR CD CFi CFo CR' CD' CFi' CFo' c1 H M1 M2 M3 M4. constructor; try apply H.
  - intros y p z Hy HN Hp. destruct (bk_pinr _ _ _ _ _ _ H y p z Hy HN Hp) as [x [A [[l [B C]]|[B C]]]]; exists x; split; auto.
    left. exists l. auto.
  - intros y p z Hy HN Hp. destruct (bk_pind _ _ _ _ _ _ H y p z Hy HN Hp) as [x [A [[l [B C]]|[B C]]]]; exists x; split; auto.
    left. exists l. auto.
Qed.

Lemma bk_set_in : forall m CR CD CFi CFo c1 rd pin ll, BK m CR CD CFi CFo c1 ->
  (exists x, mget x m = Some rd /\ ((exists l, in_at impl x pin = Some l /\ CR l) \/ (CFi x /\ ins_of impl x = []))) ->
  BK m CR CD CFi CFo (set_in c1 rd pin ll).
Proof.
  intros m CR CD CFi CFo c1 rd pin ll H W.
  destruct (set_in_facts c1 rd pin ll) as [Hia [Houts _]]. constructor.
  - apply H.
  - intros x y Hx. apply (bk_rng _ _ _ _ _ _ H); auto.
  - intros y p z Hy HN Hp. change (nodes (set_in c1 rd pin ll)) with (nodes c1) in Hy. rewrite Hia in Hp.
    destruct (Nat.eqb_spec y rd); simpl in Hp; [destruct (Nat.eqb_spec p pin); simpl in Hp|].
    + subst. exact W.
    + apply (bk_pinr _ _ _ _ _ _ H y p z); auto.
    + apply (bk_pinr _ _ _ _ _ _ H y p z); auto.
  - intros y p z Hy HN Hp. change (nodes (set_in c1 rd pin ll)) with (nodes c1) in Hy. unfold out_at in Hp. rewrite Houts in Hp.
    apply (bk_pind _ _ _ _ _ _ H y p z); auto.
Qed.

Lemma bk_set_out : forall m CR CD CFi CFo c1 dn pin ll, BK m CR CD CFi CFo c1 ->
  (exists x, mget x m = Some dn /\ ((exists l, out_at impl x pin = Some l /\ CD l) \/ (CFo x /\ pin = List.length (outs_of impl x)))) ->
  BK m CR CD CFi CFo (set_out c1 dn pin ll).
Proof.
  intros m CR CD CFi CFo c1 dn pin ll H W.
  destruct (set_out_facts c1 dn pin ll) as [Hoa [Hins _]]. constructor.
  - apply H.
  - intros x y Hx. apply (bk_rng _ _ _ _ _ _ H); auto.
  - intros y p z Hy HN Hp. change (nodes (set_out c1 dn pin ll)) with (nodes c1) in Hy. unfold in_at in Hp. rewrite Hins in Hp.
    apply (bk_pinr _ _ _ _ _ _ H y p z); auto.
  - intros y p z Hy HN Hp. change (nodes (set_out c1 dn pin ll)) with (nodes c1) in Hy. rewrite Hoa in Hp.
    destruct (Nat.eqb_spec y dn); simpl in Hp; [destruct (Nat.eqb_spec p pin); simpl in Hp|].
    + subst. exact W.
    + apply (bk_pind _ _ _ _ _ _ H y p z); auto.
    + apply (bk_pind _ _ _ _ _ _ H y p z); auto.
Qed.

(* pin freeness from the bookkeeping *)
Lemma bk_free_in : forall m CR CD CFi CFo c1 x y p l, BK m CR CD CFi CFo c1 -> mget x m = Some y ->
  in_at impl x p = Some l -> ~ CR l -> in_at c1 y p = None.
Proof.
  intros m CR CD CFi CFo c1 x y p l H Hx Hl Hn.
  destruct (in_at c1 y p) as [z|] eqn:E; auto. exfalso.
  destruct (bk_rng _ _ _ _ _ _ H x y Hx) as [Hy [HN _]].
  destruct (bk_pinr _ _ _ _ _ _ H y p z Hy HN E) as [x' [A [[l' [B C]]|[B C]]]].
  - rewrite (bk_inj _ _ _ _ _ _ H x' x y A Hx) in B. rewrite Hl in B. inv B. auto.
  - rewrite (bk_inj _ _ _ _ _ _ H x' x y A Hx) in C. unfold in_at in Hl. rewrite C in Hl. destruct p; discriminate.
Qed.
Lemma bk_free_in0 : forall m CR CD CFi CFo c1 x y, BK m CR CD CFi CFo c1 -> mget x m = Some y ->
  ins_of impl x = [] -> ~ CFi x -> in_at c1 y 0 = None.
Proof.
  intros m CR CD CFi CFo c1 x y H Hx Hl Hn.
  destruct (in_at c1 y 0) as [z|] eqn:E; auto. exfalso.
  destruct (bk_rng _ _ _ _ _ _ H x y Hx) as [Hy [HN _]].
  destruct (bk_pinr _ _ _ _ _ _ H y 0 z Hy HN E) as [x' [A [[l' [B C]]|[B C]]]].
  - rewrite (bk_inj _ _ _ _ _ _ H x' x y A Hx) in B. unfold in_at in B. rewrite Hl in B. discriminate.
  - rewrite (bk_inj _ _ _ _ _ _ H x' x y A Hx) in B. auto.
Qed.
Lemma bk_free_out : forall m CR CD CFi CFo c1 x y p l, BK m CR CD CFi CFo c1 -> mget x m = Some y ->
  out_at impl x p = Some l -> ~ CD l -> out_at c1 y p = None.
Proof.
  intros m CR CD CFi CFo c1 x y p l H Hx Hl Hn.
  destruct (out_at c1 y p) as [z|] eqn:E; auto. exfalso.
  destruct (bk_rng _ _ _ _ _ _ H x y Hx) as [Hy [HN _]].
  destruct (bk_pind _ _ _ _ _ _ H y p z Hy HN E) as [x' [A [[l' [B C]]|[B C]]]].
  - rewrite (bk_inj _ _ _ _ _ _ H x' x y A Hx) in B. rewrite Hl in B. inv B. auto.
  - rewrite (bk_inj _ _ _ _ _ _ H x' x y A Hx) in C. apply nth_some_lt in Hl. unfold outs_of in *. lia.
Qed.
Lemma bk_free_outk : forall m CR CD CFi CFo c1 x y, BK m CR CD CFi CFo c1 -> mget x m = Some y ->
  ~ CFo x -> out_at c1 y (List.length (outs_of impl x)) = None.
Proof.
  intros m CR CD CFi CFo c1 x y H Hx Hn.
  destruct (out_at c1 y (List.length (outs_of impl x))) as [z|] eqn:E; auto. exfalso.
  destruct (bk_rng _ _ _ _ _ _ H x y Hx) as [Hy [HN _]].
  destruct (bk_pind _ _ _ _ _ _ H y _ z Hy HN E) as [x' [A [[l' [B C]]|[B C]]]].
  - rewrite (bk_inj _ _ _ _ _ _ H x' x y A Hx) in B. apply nth_some_lt in B. unfold outs_of in *. lia.
  - rewrite (bk_inj _ _ _ _ _ _ H x' x y A Hx) in B. auto.
Qed.

(** gap-free fork outputs: [FL] implementation lines whose copy exists, [FO] port forks whose extra output pin is connected *)
Record DN (m : list (nat * nat)) (FL FO : nat -> Prop) (c1 : circ) : Prop := mkDN {
  dn_kind : forall x y, mget x m = Some y -> is_fork (kind_of c1 y) = is_fork (kind_of impl x);
  dn_len : forall x y, mget x m = Some y -> List.length (outs_of c1 y) <= List.length (outs_of impl x) + 1 /\
                       (~ FO x -> List.length (outs_of c1 y) <= List.length (outs_of impl x));
  dn_fill : forall x y p l, mget x m = Some y -> out_at impl x p = Some l -> FL l -> out_at c1 y p <> None;
  dn_fo : forall x y, mget x m = Some y -> FO x -> out_at c1 y (List.length (outs_of impl x)) <> None;
  dn_old : forall y, In y (nodes c1) -> ~ N y -> In y (nodes c) /\ n_outs (nst c1 y) = n_outs (nst c y) /\ n_kind (nst c1 y) = n_kind (nst c y);
  dn_mapped : forall y, In y (nodes c1) -> N y -> exists x, mget x m = Some y;
  dn_io : io c1 = io c;
  dn_keep : forall y, In y (nodes c) -> y <> node -> In y (nodes c1);
  dn_known : forall x, x <> node -> Known c x -> Known c1 x }.

Lemma dn_frame : forall m FL FO c1 c2, DN m FL FO c1 -> nodes c2 = nodes c1 -> io c2 = io c1 ->
  (forall x, n_outs (nst c2 x) = n_outs (nst c1 x) /\ n_kind (nst c2 x) = n_kind (nst c1 x)) ->
  (forall x, ~ In x (nodes c1) -> nst c2 x = nst c1 x) -> DN m FL FO c2.
Proof.
  intros m FL FO c1 c2 H E1 E2 F G.
  assert (Ho : forall y, outs_of c2 y = outs_of c1 y). { intros y. unfold outs_of. apply F. }
  assert (Hoa : forall y p, out_at c2 y p = out_at c1 y p). { intros y p. unfold out_at. rewrite Ho. reflexivity. }
  constructor.
  - intros x y Hx. unfold kind_of. destruct (F y) as [_ ->]. apply (dn_kind _ _ _ _ H); auto.
  - intros x y Hx. rewrite Ho. apply (dn_len _ _ _ _ H); auto.
  - intros x y p l Hx Hl HF. rewrite Hoa. apply (dn_fill _ _ _ _ H x y p l); auto.
  - intros x y Hx HF. rewrite Hoa. apply (dn_fo _ _ _ _ H); auto.
  - intros y Hy HN. rewrite E1 in Hy. destruct (F y) as [-> ->]. apply (dn_old _ _ _ _ H); auto.
  - intros y Hy HN. rewrite E1 in Hy. apply (dn_mapped _ _ _ _ H); auto.
  - rewrite E2. apply H.
  - intros y Hy Hn. rewrite E1. apply (dn_keep _ _ _ _ H); auto.
  - intros x Hx HK. destruct (dn_known _ _ _ _ H x Hx HK) as [A|[A [B [C D]]]]. left. rewrite E1. auto.
    right. unfold Detached. rewrite E1. unf. rewrite (G x A). auto.
Qed.

Lemma dn_ext : forall m FL FO (FL' FO' : nat -> Prop) c1, DN m FL FO c1 -> (forall l, FL' l -> FL l) -> (forall x, FO x <-> FO' x) -> DN m FL' FO' c1.
Proof.
  intros m FL FO FL' FO' c1 H M1 M2. constructor; try apply H.
  - intros x y Hx. destruct (dn_len _ _ _ _ H x y Hx) as [A B]. split; auto. intros Hn. apply B. intros Hc. apply Hn. apply M2; auto.
  - intros x y p l Hx Hl HF. apply (dn_fill _ _ _ _ H x y p l); auto.
  - intros x y Hx HF. apply (dn_fo _ _ _ _ H); auto. apply M2; auto.
Qed.

Lemma dn_set_out : forall m FL FO (FL' FO' : nat -> Prop) c1 x dn pin ll, DN m FL FO c1 ->
  (forall a a' y, mget a m = Some y -> mget a' m = Some y -> a = a') ->
  (forall a y, mget a m = Some y -> In a (nodes impl) /\ N y) ->
  mget x m = Some dn -> In dn (nodes c1) ->
  (pin < List.length (outs_of impl x) \/ (pin = List.length (outs_of impl x) /\ FO' x)) ->
  (forall l, FL' l -> FL l \/ out_at impl x pin = Some l) ->
  (forall a, FO a -> FO' a) -> (forall a, FO' a -> FO a \/ (a = x /\ pin = List.length (outs_of impl x))) ->
  DN m FL' FO' (set_out c1 dn pin ll).
Proof.
  intros m FL FO FL' FO' c1 x dn pin ll H Hinj Hrng Hx Hdnl Hpin HFL HFO1 HFO2.
  destruct (set_out_facts c1 dn pin ll) as [Hoa [Hins [Hnf [Hother Hod]]]]. set (c2 := set_out c1 dn pin ll) in *.
  assert (Hmono : forall y p, out_at c1 y p <> None -> out_at c2 y p <> None).
  { intros y p Hp. rewrite Hoa. destruct (Nat.eqb y dn && Nat.eqb p pin); auto. discriminate. }
  assert (Hnew : out_at c2 dn pin <> None). { rewrite Hoa, !Nat.eqb_refl. simpl. discriminate. }
  assert (Hlen : forall y, List.length (outs_of c2 y) = if Nat.eqb y dn then Nat.max (List.length (outs_of c1 dn)) (S pin) else List.length (outs_of c1 y)).
  { intros y. destruct (Nat.eqb_spec y dn). subst. rewrite Hod, length_gset. reflexivity.
    unfold outs_of. rewrite Hother; auto. }
  constructor.
  - intros a y Ha. unfold kind_of. destruct (Hnf y) as [_ [-> _]]. apply (dn_kind _ _ _ _ H); auto.
  - intros a y Ha. rewrite Hlen. destruct (dn_len _ _ _ _ H a y Ha) as [A B]. destruct (Nat.eqb_spec y dn).
    + subst y. assert (a = x) by (eapply Hinj; eauto). subst a. split.
      * destruct Hpin as [Hp|[Hp _]]; lia.
      * intros Hn. destruct Hpin as [Hp|[Hp Hc]]; [|contradiction].
        assert (~ FO x) by (intros Hc; apply Hn; auto). specialize (B H0). lia.
    + split; auto.
  - intros a y p l Ha Hl HF. destruct (HFL l HF) as [HF0|HF1].
    + apply Hmono. apply (dn_fill _ _ _ _ H a y p l); auto.
    + destruct (Hrng a y Ha) as [Ha' _]. destruct (Hrng x dn Hx) as [Hx' _].
      destruct (impl_out impl HIC a p l Ha' Hl) as [_ [D1 D2]]. destruct (impl_out impl HIC x pin l Hx' HF1) as [_ [D3 D4]].
      rewrite D1 in D3. inv D3. rewrite Hx in Ha. inv Ha. exact Hnew.
  - intros a y Ha HF. destruct (HFO2 a HF) as [HF0|[-> Hp]].
    + apply Hmono. apply (dn_fo _ _ _ _ H); auto.
    + rewrite Hx in Ha. injection Ha as <-. rewrite <- Hp. exact Hnew.
  - intros y Hy HN. change (nodes c2) with (nodes c1) in Hy.
    assert (y <> dn). { intros ->. apply HN. apply (Hrng x dn Hx). }
    rewrite Hother by auto. apply (dn_old _ _ _ _ H); auto.
  - intros y Hy HN. apply (dn_mapped _ _ _ _ H); auto.
  - apply H.
  - intros y Hy Hn. apply (dn_keep _ _ _ _ H); auto.
  - intros a Ha HK. destruct (dn_known _ _ _ _ H a Ha HK) as [A|[A [B [C D]]]]. left; auto.
    right. assert (a <> dn) by (intros ->; auto). unfold Detached. change (nodes c2) with (nodes c1). unf. rewrite (Hother a H0). auto.
Qed.
End Book.

Lemma nodup_mid : forall {A} (a b : list A) x, NoDup (a ++ x :: b) -> ~ In x a.
Proof. intros A a b x H Hc. apply NoDup_remove_2 in H. apply H. apply in_or_app; auto. Qed.

Section Subst.
Variables (c : circ) (node : nat) (impl : circ).
Hypothesis HC : CCoreX [] c.
Hypothesis HDc : ForkDenseX [] c.
Hypothesis HIC : CCoreX [] impl.
Hypothesis HID : ForkDenseX [] impl.
Hypothesis HIL : IoLive impl.
Hypothesis Hnode : In node (nodes c).
Hypothesis Hnode_cell : is_fork (kind_of c node) = false.
Hypothesis Hio_forks : io_forks_b impl = true.
Hypothesis Hout_drv : out_drivers_b impl = true.
Variable desig : option nat.
Hypothesis Hdesig : forall dc, desig = Some dc -> in_ios impl dc = false /\ In dc (nodes impl) /\ is_fork (kind_of impl dc) = false.

Definition PD0 (z : nat) : Prop := In z (lines c) /\ l_drv (lst c z) = Some node.
Definition PR0 (z : nat) : Prop := In z (lines c) /\ l_rdr (lst c z) = Some node.
Local Notation NN := (N c node).

Lemma N_listed : forall y, In y (nodes c) -> NN y -> y = node.
Proof. intros y Hy [H|H]; auto. pose proof (cc_nb [] c HC y (or_introl Hy)). lia. Qed.

(** *** phase (a) *)
Lemma cw_rekind : forall k, is_fork k = false ->
  CW PD0 PR0 (upd_node c node (fun x => nset_outs (nset_ins (nset_kind x k) []) [])).
Proof.
  intros k Hk. set (c0 := upd_node c node _).
  assert (Hn : forall y, y <> node -> nst c0 y = nst c y).
  { intros y Hy. unfold c0. unf. simpl. destruct (Nat.eqb_spec y node); congruence. }
  assert (Hnode0 : nst c0 node = mkN (n_name (nst c node)) k (n_index (nst c node)) [] [] (n_alive (nst c node))).
  { unfold c0. unf. simpl. rewrite Nat.eqb_refl. reflexivity. }
  assert (Hoa : forall y p, y <> node -> out_at c0 y p = out_at c y p). { intros y p Hy. unf. rewrite Hn; auto. }
  assert (Hia : forall y p, y <> node -> in_at c0 y p = in_at c y p). { intros y p Hy. unf. rewrite Hn; auto. }
  assert (Hfk : forall y, is_fork (kind_of c0 y) = is_fork (kind_of c y)).
  { intros y. destruct (Nat.eq_dec y node) as [->|Hy]. unf. rewrite Hnode0. simpl. unf. congruence. unf. rewrite Hn; auto. }
  assert (Hnm : forall y, name_of c0 y = name_of c y).
  { intros y. destruct (Nat.eq_dec y node) as [->|Hy]. unf. rewrite Hnode0. reflexivity. unf. rewrite Hn; auto. }
  constructor.
  - pose proof (cbn_of_ccore [] c HC) as B. constructor.
    + apply B.
    + intros i y Hi. destruct (Nat.eq_dec y node) as [->|Hy]. rewrite Hnode0. simpl. apply (bn_nidx c B); auto.
      rewrite Hn by auto. apply (bn_nidx c B); auto.
    + apply B.
    + intros s y. change (forks c0) with (forks c). change (nodes c0) with (nodes c). rewrite Hfk, Hnm. apply B.
    + apply B.
    + intros s y. change (cells c0) with (cells c). change (nodes c0) with (nodes c). rewrite Hfk, Hnm. apply B.
  - apply (cbl_frame c c0 (cbl_of_ccore [] c HC)); auto.
  - intros z [Hz _]. exact Hz.
  - intros z [Hz _]. exact Hz.
  - intros l Hl. change (lines c0) with (lines c) in Hl. change (lst c0) with (lst c). change (nodes c0) with (nodes c).
    destruct (cc_line [] c HC l Hl) as [d [r [H1 [H2 [[H3|[]] [[H4|[]] [H5 H6]]]]]]].
    exists d, r. split; auto. split; auto. split.
    + intros Hp. split; auto. rewrite Hoa; auto. intros ->. apply Hp. split; auto.
    + intros Hp. split; auto. rewrite Hia; auto. intros ->. apply Hp. split; auto.
  - intros y p l Hy Ho. change (lines c0) with (lines c). change (lst c0) with (lst c).
    destruct (Nat.eq_dec y node) as [->|Hne]. { unf. rewrite Hnode0 in Ho. simpl in Ho. destruct p; discriminate. }
    rewrite Hoa in Ho by auto. destruct (cc_outs [] c HC y p l (or_introl Hy) Ho) as [A [B C]].
    split; auto. split; auto. intros [_ Hc]. congruence.
  - intros y p l Hy Ho. change (lines c0) with (lines c). change (lst c0) with (lst c).
    destruct (Nat.eq_dec y node) as [->|Hne]. { unf. rewrite Hnode0 in Ho. simpl in Ho. destruct p; discriminate. }
    rewrite Hia in Ho by auto. destruct (cc_ins [] c HC y p l (or_introl Hy) Ho) as [A [B C]].
    split; auto. split; auto. intros [_ Hc]. congruence.
Qed.

Lemma cw_removed : forall c0, node_remove c node = Some c0 -> outs_of c node = [] ->
  CW PD0 PR0 c0 /\ io c0 = io c /\ nnext c0 = nnext c /\
  (forall y, In y (nodes c0) <-> In y (nodes c) /\ y <> node) /\
  (forall x, n_kind (nst c0 x) = n_kind (nst c x) /\ n_outs (nst c0 x) = n_outs (nst c x) /\ n_ins (nst c0 x) = n_ins (nst c x) /\
             n_alive (nst c0 x) = if Nat.eqb x node then false else n_alive (nst c x)).
Proof.
  intros c0 Hrm Houts.
  destruct (node_remove_core [] c node HC Hnode) as [c0' [Hrm' [HC0 [N1 [N2 [N3 [N4 [N5 [N6 [N7 [N8 N9]]]]]]]]]]].
  rewrite Hrm in Hrm'. inv Hrm'.
  split; [|split; [auto|split; [auto|split; [auto|]]]].
  2:{ intros x. destruct (N7 x) as [_ [A [C B]]]. auto. }
  assert (Hoa : forall y p, out_at c0' y p = out_at c y p). { intros y p. unf. destruct (N7 y) as [_ [_ [_ ->]]]. reflexivity. }
  assert (Hia : forall y p, in_at c0' y p = in_at c y p). { intros y p. unf. destruct (N7 y) as [_ [_ [-> _]]]. reflexivity. }
  constructor.
  - eapply cbn_of_ccore; eauto.
  - eapply cbl_of_ccore; eauto.
  - intros z [Hz _]. rewrite N3. exact Hz.
  - intros z [Hz _]. rewrite N3. exact Hz.
  - intros l Hl. destruct (cc_line _ c0' HC0 l Hl) as [d [r [H1 [H2 [H3 [H4 [H5 H6]]]]]]].
    exists d, r. split; auto. split; auto. rewrite N3 in Hl. rewrite N4 in *. split.
    + intros _. split; auto. destruct H3 as [H3|[<-|[]]]; auto. exfalso.
      rewrite Hoa in H5. unfold out_at in H5. rewrite Houts in H5. destruct (l_dpin (lst c l)); discriminate.
    + intros Hp. split; auto. destruct H4 as [H4|[<-|[]]]; auto. exfalso. apply Hp. split; auto.
  - intros y p l Hy Ho. destruct (cc_outs _ c0' HC0 y p l (or_introl Hy) Ho) as [A [B C]].
    split; auto. split; auto. rewrite N4 in B. intros [_ Hc]. rewrite B in Hc. inv Hc. apply N6 in Hy. tauto.
  - intros y p l Hy Ho. destruct (cc_ins _ c0' HC0 y p l (or_introl Hy) Ho) as [A [B C]].
    split; auto. split; auto. rewrite N4 in B. intros [_ Hc]. rewrite B in Hc. inv Hc. apply N6 in Hy. tauto.
Qed.

(** *** phase (b): Node() for the implementation nodes *)
Definition cond2 (x : nat) : bool := (0 <? List.length (outs_of impl x)) && (0 <? List.length (ins_of impl x)).
Definition cond3 (x : nat) : bool := (List.length (ins_of impl x) =? 0) && negb (List.length (outs_of impl x) =? 1).

Record PB (done : list nat) (st : circ * list (nat * nat)) : Prop := mkPB {
  pb_cw : CW PD0 PR0 (fst st);
  pb_io : io (fst st) = io c;
  pb_nn : nnext c <= nnext (fst st);
  pb_old : forall y, In y (nodes (fst st)) -> ~ NN y ->
           In y (nodes c) /\ n_outs (nst (fst st) y) = n_outs (nst c y) /\ n_kind (nst (fst st) y) = n_kind (nst c y);
  pb_new : forall y, In y (nodes (fst st)) -> NN y ->
           (exists x, mget x (snd st) = Some y) /\ n_ins (nst (fst st) y) = [] /\ n_outs (nst (fst st) y) = [];
  pb_keep : forall y, In y (nodes c) -> y <> node -> In y (nodes (fst st));
  pb_inj : forall x x' y, mget x (snd st) = Some y -> mget x' (snd st) = Some y -> x = x';
  pb_rng : forall x y, mget x (snd st) = Some y -> In y (nodes (fst st)) /\ NN y /\ In x (nodes impl);
  pb_kind : forall x y, mget x (snd st) = Some y -> is_fork (kind_of (fst st) y) = is_fork (kind_of impl x);
  pb_keys : forall x y, mget x (snd st) = Some y -> desig = Some x \/ In x done;
  pb_dc : forall dc, desig = Some dc -> mget dc (snd st) = Some node;
  pb_ms1 : forall x, In x done -> mget x (snd st) = None -> in_ios impl x = true /\ cond2 x = false /\ cond3 x = false;
  pb_ms2 : forall x y, mget x (snd st) = Some y -> desig = Some x \/ in_ios impl x = false \/ cond2 x = true \/ cond3 x = true;
  pb_known : forall x, x <> node -> Known c x -> Known (fst st) x }.

Lemma pb_skip : forall done c1 m n, PB done (c1, m) ->
  (mget n m = None -> in_ios impl n = true /\ cond2 n = false /\ cond3 n = false) -> PB (done ++ [n]) (c1, m).
Proof.
  intros done c1 m n H Hn.
  pose proof (pb_cw _ _ H) as pb_cw0. pose proof (pb_io _ _ H) as pb_io0. pose proof (pb_nn _ _ H) as pb_nn0.
  pose proof (pb_old _ _ H) as pb_old0. pose proof (pb_new _ _ H) as pb_new0. pose proof (pb_keep _ _ H) as pb_keep0.
  pose proof (pb_inj _ _ H) as pb_inj0. pose proof (pb_rng _ _ H) as pb_rng0. pose proof (pb_kind _ _ H) as pb_kind0.
  pose proof (pb_keys _ _ H) as pb_keys0. pose proof (pb_dc _ _ H) as pb_dc0. pose proof (pb_ms1 _ _ H) as pb_msa.
  pose proof (pb_ms2 _ _ H) as pb_msb. pose proof (pb_known _ _ H) as pb_kn0. clear H. simpl in *. constructor; simpl; auto.
  - intros x y Hx. destruct (pb_keys0 x y Hx); auto. right. apply in_or_app; auto.
  - intros x Hx Hm. apply in_app_or in Hx. destruct Hx as [Hx|[<-|[]]]; auto.
Qed.

Lemma pb_add : forall done c1 m n name kind c' id, PB done (c1, m) -> add_node c1 name kind = Some (c', id) ->
  mget n m = None -> In n (nodes impl) -> is_fork kind = is_fork (kind_of impl n) ->
  (desig = Some n \/ in_ios impl n = false \/ cond2 n = true \/ cond3 n = true) ->
  PB (done ++ [n]) (c', mset n id m).
Proof.
  intros done c1 m n name kind c' id H Hadd Hnone Hn Hk Hms.
  pose proof (pb_cw _ _ H) as pb_cw0. pose proof (pb_io _ _ H) as pb_io0. pose proof (pb_nn _ _ H) as pb_nn0.
  pose proof (pb_old _ _ H) as pb_old0. pose proof (pb_new _ _ H) as pb_new0. pose proof (pb_keep _ _ H) as pb_keep0.
  pose proof (pb_inj _ _ H) as pb_inj0. pose proof (pb_rng _ _ H) as pb_rng0. pose proof (pb_kind _ _ H) as pb_kind0.
  pose proof (pb_keys _ _ H) as pb_keys0. pose proof (pb_dc _ _ H) as pb_dc0. pose proof (pb_ms1 _ _ H) as pb_msa.
  pose proof (pb_ms2 _ _ H) as pb_msb. pose proof (pb_known _ _ H) as pb_kn0. clear H. simpl in *.
  destruct (add_node_facts c1 name kind c' id Hadd) as [_ [-> [F1 [F2 [F3 [F4 [F5 [F6 [F7 [F8 _]]]]]]]]]].
  assert (HNid : NN (nnext c1)) by (right; auto).
  assert (Hlt : forall y, In y (nodes c1) -> y <> nnext c1).
  { intros y Hy. apply (bn_nb c1 (cw_n _ _ _ pb_cw0)) in Hy. lia. }
  assert (Hin : forall y, In y (nodes c') <-> In y (nodes c1) \/ y = nnext c1).
  { intros y. rewrite F1, in_app_iff. simpl. intuition. }
  assert (Hmg : forall x, mget x (mset n (nnext c1) m) = if Nat.eqb x n then Some (nnext c1) else mget x m) by (intros; apply mget_mset).
  constructor; simpl.
  - eapply cw_add_node; eauto.
  - congruence.
  - lia.
  - intros y Hy HN. apply Hin in Hy. destruct Hy as [Hy| ->]; [|contradiction].
    rewrite F7 by (apply Hlt; auto). apply pb_old0; auto.
  - intros y Hy HN. apply Hin in Hy. destruct Hy as [Hy| ->].
    + destruct (pb_new0 y Hy HN) as [[x Hx] [A B]]. rewrite F7 by (apply Hlt; auto). split; auto.
      exists x. rewrite Hmg. destruct (Nat.eqb_spec x n); auto. congruence.
    + rewrite F8. simpl. split; auto. exists n. rewrite Hmg, Nat.eqb_refl. reflexivity.
  - intros y Hy Hne. apply Hin. left. auto.
  - intros x x' y Hx Hx'. rewrite Hmg in Hx, Hx'.
    destruct (Nat.eqb_spec x n), (Nat.eqb_spec x' n); subst; auto.
    + inv Hx. apply pb_rng0 in Hx'. destruct Hx' as [Hx' _]. exfalso. apply (Hlt _ Hx'). reflexivity.
    + inv Hx'. apply pb_rng0 in Hx. destruct Hx as [Hx _]. exfalso. apply (Hlt _ Hx). reflexivity.
    + eapply pb_inj0; eauto.
  - intros x y Hx. rewrite Hmg in Hx. destruct (Nat.eqb_spec x n).
    + inv Hx. split. apply Hin; auto. auto.
    + destruct (pb_rng0 x y Hx) as [A [B C]]. split; auto. apply Hin; auto.
  - intros x y Hx. rewrite Hmg in Hx. destruct (Nat.eqb_spec x n).
    + inv Hx. unf. rewrite F8. simpl. auto.
    + destruct (pb_rng0 x y Hx) as [A _]. unf. rewrite F7 by (apply Hlt; auto). apply pb_kind0; auto.
  - intros x y Hx. rewrite Hmg in Hx. destruct (Nat.eqb_spec x n).
    + subst. right. apply in_or_app; right; left; auto.
    + destruct (pb_keys0 x y Hx); auto. right. apply in_or_app; auto.
  - intros dc Hd. rewrite Hmg. destruct (Nat.eqb_spec dc n) as [e|e]. rewrite <- e in Hnone. rewrite (pb_dc0 _ Hd) in Hnone. discriminate. auto.
  - intros x Hx Hm. rewrite Hmg in Hm. destruct (Nat.eqb_spec x n); [discriminate|].
    apply in_app_or in Hx. destruct Hx as [Hx|[<-|[]]]; auto. congruence.
  - intros x y Hx. rewrite Hmg in Hx. destruct (Nat.eqb_spec x n). subst; auto. eapply pb_msb; eauto.
  - intros x Hx HK. destruct (pb_kn0 x Hx HK) as [A|[A [B [C D]]]]. left. apply Hin; auto.
    destruct (Nat.eq_dec x (nnext c1)) as [->|Hne]. left. apply Hin; auto.
    right. unfold Detached. rewrite Hin. unf. rewrite (F7 x Hne). split; [|auto]. intros [E|E]; auto.
Qed.

Lemma pb_step : forall iname done n rest st st', nodes impl = done ++ n :: rest -> PB done st ->
  subst_add_nodes impl iname desig st n = Some st' -> PB (done ++ [n]) st'.
Proof.
  intros iname done n rest [c1 m] st' Hall H Hs.
  assert (Hnd : ~ In n done). { apply (nodup_mid done rest n). rewrite <- Hall. apply (nidx_nodup [] impl HIC). }
  assert (Hn : In n (nodes impl)). { rewrite Hall. apply in_or_app; right; left; auto. }
  unfold subst_add_nodes in Hs.
  destruct (negb (in_ios impl n)) eqn:Eio.
  - apply negb_true_iff in Eio.
    assert (Hcase : desig = None \/ exists dc, desig = Some dc) by (destruct desig; eauto).
    destruct Hcase as [Ed|[dc Ed]]; rewrite Ed in Hs; [discriminate|].
    destruct (Hdesig dc Ed) as [D1 [D2 D3]].
    destruct (negb (node_eqb impl n impl dc)) eqn:Eeq.
    + destruct (add_node c1 (tilde iname (name_of impl n)) (kind_of impl n)) as [[c' id]|] eqn:Ea; [|discriminate]. inv Hs.
      eapply pb_add; eauto.
      * destruct (mget n m) as [y|] eqn:Em; auto. exfalso. destruct (pb_keys _ _ H n y Em) as [E|E]; [|contradiction].
        rewrite Ed in E. inv E. apply negb_true_iff in Eeq. unfold node_eqb in Eeq. rewrite !String.eqb_refl in Eeq. discriminate.
    + inv Hs. apply pb_skip; auto. intros Hm. exfalso. apply negb_false_iff in Eeq.
      rewrite (node_eqb_eq impl HIC n dc Hn D2 Eeq) in Hm. pose proof (pb_dc _ _ H dc Ed) as Hdc. simpl in Hdc. congruence.
  - apply negb_false_iff in Eio.
    assert (Hnone : mget n m = None).
    { destruct (mget n m) as [y|] eqn:Em; auto. exfalso. destruct (pb_keys _ _ H n y Em) as [E|E]; [|contradiction].
      destruct (Hdesig n E) as [D1 _]. congruence. }
    assert (Hfk : is_fork FORK = is_fork (kind_of impl n)). { rewrite (in_ios_fork impl n Hio_forks Eio). reflexivity. }
    fold (cond2 n) in Hs. fold (cond3 n) in Hs.
    destruct (cond2 n) eqn:E2.
    + destruct (add_node c1 (tilde iname (name_of impl n)) FORK) as [[c' id]|] eqn:Ea; [|discriminate]. inv Hs.
      eapply pb_add; eauto.
    + destruct (cond3 n) eqn:E3.
      * destruct (add_node c1 (tilde iname (name_of impl n)) FORK) as [[c' id]|] eqn:Ea; [|discriminate]. inv Hs.
        eapply pb_add; eauto 6.
      * inv Hs. apply pb_skip; auto.
Qed.

Lemma pb_fold : forall iname st st', PB [] st -> fold_opt (subst_add_nodes impl iname desig) (nodes impl) st = Some st' ->
  PB (nodes impl) st'.
Proof.
  intros iname st st' H Hf. apply (fold_opt_inv (subst_add_nodes impl iname desig) PB (nodes impl)) with (a := st); auto.
  intros done x rest a a' Hall Ha Hs. eapply pb_step; eauto.
Qed.

Lemma pb_final : forall c1 m, PB (nodes impl) (c1, m) -> BK c node impl m NoP NoP NoP NoP c1 /\ DN c node impl m NoP NoP c1.
Proof.
  intros c1 m H.
  pose proof (pb_cw _ _ H) as pb_cw0. pose proof (pb_io _ _ H) as pb_io0. pose proof (pb_nn _ _ H) as pb_nn0.
  pose proof (pb_old _ _ H) as pb_old0. pose proof (pb_new _ _ H) as pb_new0. pose proof (pb_keep _ _ H) as pb_keep0.
  pose proof (pb_inj _ _ H) as pb_inj0. pose proof (pb_rng _ _ H) as pb_rng0. pose proof (pb_kind _ _ H) as pb_kind0.
  pose proof (pb_keys _ _ H) as pb_keys0. pose proof (pb_dc _ _ H) as pb_dc0. pose proof (pb_ms1 _ _ H) as pb_msa.
  pose proof (pb_ms2 _ _ H) as pb_msb. pose proof (pb_known _ _ H) as pb_kn0. clear H. simpl in *. split; constructor; auto.
  - intros y p z Hy HN Hp. destruct (pb_new0 y Hy HN) as [_ [A _]]. unf. rewrite A in Hp. destruct p; discriminate.
  - intros y p z Hy HN Hp. destruct (pb_new0 y Hy HN) as [_ [_ A]]. unf. rewrite A in Hp. destruct p; discriminate.
  - intros x y Hx. destruct (pb_rng0 x y Hx) as [A [B _]]. destruct (pb_new0 y A B) as [_ [_ E]]. unfold outs_of. rewrite E. simpl. lia.
  - intros y Hy HN. apply pb_new0; auto.
Qed.

(** *** phase (c): Line() for the implementation lines between mapped nodes *)
Definition Both (m : list (nat * nat)) (l : nat) : Prop :=
  exists d r d' r', l_drv (lst impl l) = Some d /\ l_rdr (lst impl l) = Some r /\ mget d m = Some d' /\ mget r m = Some r'.
Definition CL (m : list (nat * nat)) (done : list nat) (l : nat) : Prop := In l done /\ Both m l.

Lemma bk_new_line : forall m CR CD CFi CFo c1 rec, BK c node impl m CR CD CFi CFo c1 -> BK c node impl m CR CD CFi CFo (new_line c1 rec).
Proof. intros. eapply bk_frame; eauto. Qed.
Lemma bk_upd_line : forall m CR CD CFi CFo c1 ll f, BK c node impl m CR CD CFi CFo c1 -> BK c node impl m CR CD CFi CFo (upd_line c1 ll f).
Proof. intros. eapply bk_frame; eauto. Qed.
Lemma dn_new_line : forall m FL FO c1 rec, DN c node impl m FL FO c1 -> DN c node impl m FL FO (new_line c1 rec).
Proof. intros. eapply dn_frame; eauto. Qed.
Lemma dn_upd_line : forall m FL FO c1 ll f, DN c node impl m FL FO c1 -> DN c node impl m FL FO (upd_line c1 ll f).
Proof. intros. eapply dn_frame; eauto. Qed.
Lemma dn_set_in : forall m FL FO c1 rd pin ll, DN c node impl m FL FO c1 -> In rd (nodes c1) -> DN c node impl m FL FO (set_in c1 rd pin ll).
Proof.
  intros m FL FO c1 rd pin ll H Hrd. destruct (set_in_facts c1 rd pin ll) as [_ [Ho [Hnf [Hother _]]]].
  eapply dn_frame; eauto. intros x. split. apply (Ho x). apply Hnf.
  intros x Hx. apply Hother. intros ->. auto.
Qed.

Record PC (m : list (nat * nat)) (done : list nat) (c1 : circ) : Prop := mkPC {
  pc_cw : CW PD0 PR0 c1;
  pc_bk : BK c node impl m (CL m done) (CL m done) NoP NoP c1;
  pc_dn : DN c node impl m (CL m done) NoP c1 }.

Lemma pc_step : forall m done l rest c1 c2, lines impl = done ++ l :: rest -> PC m done c1 ->
  subst_add_line impl m c1 l = Some c2 -> PC m (done ++ [l]) c2.
Proof.
  intros m done l rest c1 c2 Hall H Hs.
  assert (Hnd : ~ In l done). { apply (nodup_mid done rest l). rewrite <- Hall. apply (lidx_nodup [] impl HIC). }
  assert (Hl : In l (lines impl)). { rewrite Hall. apply in_or_app; right; left; auto. }
  destruct (impl_line impl HIC l Hl) as [d [r [Hd [Hr [Hdn [Hrn [Ho Hi]]]]]]].
  destruct H as [Hcw Hbk Hdn'].
  assert (Hsub : forall l', CL m done l' -> CL m (done ++ [l]) l').
  { intros l' [A B]. split; auto. apply in_or_app; auto. }
  unfold subst_add_line in Hs. cbv zeta in Hs. rewrite Hr, Hd in Hs.
  destruct (mget r m) as [r'|] eqn:Er; [destruct (mget d m) as [d'|] eqn:Ed|].
  - assert (E : fst (add_line c1 d' (Some (l_dpin (lst impl l))) r' (Some (l_rpin (lst impl l)))) = c2) by congruence.
    clear Hs. rewrite <- E. clear E c2.
    assert (HnCL : ~ CL m done l) by (intros [A _]; auto).
    assert (Hfo : out_at c1 d' (l_dpin (lst impl l)) = None) by (eapply bk_free_out; eauto).
    assert (Hfi : in_at c1 r' (l_rpin (lst impl l)) = None) by (eapply bk_free_in; eauto).
    destruct (bk_rng _ _ _ _ _ _ _ _ _ Hbk d d' Ed) as [Hd'n [HNd _]].
    destruct (bk_rng _ _ _ _ _ _ _ _ _ Hbk r r' Er) as [Hr'n [HNr _]].
    assert (HCLl : CL m (done ++ [l]) l). { split. apply in_or_app; right; left; auto. exists d, r, d', r'. auto. }
    constructor.
    + apply cw_add_line; auto.
    + rewrite add_line_explicit. apply bk_set_in. apply bk_set_out.
      * apply bk_new_line. eapply bk_mono; eauto.
      * exists d. split; auto. left. exists l. auto.
      * exists r. split; auto. left. exists l. auto.
    + rewrite add_line_explicit. apply dn_set_in; [|exact Hr'n].
      eapply (dn_set_out c node impl HIC m (CL m done) NoP (CL m (done ++ [l])) NoP _ d d').
      * apply dn_new_line. exact Hdn'.
      * apply (bk_inj _ _ _ _ _ _ _ _ _ Hbk).
      * intros a y Ha. destruct (bk_rng _ _ _ _ _ _ _ _ _ Hbk a y Ha) as [_ [A B]]. auto.
      * exact Ed.
      * exact Hd'n.
      * left. eapply nth_some_lt. exact Ho.
      * intros l' [A B]. apply in_app_or in A. destruct A as [A|[<-|[]]]. left; split; auto. right; auto.
      * auto.
      * intros a [].
  - inv Hs. constructor; auto.
    + eapply bk_mono; eauto.
    + eapply dn_ext; eauto. 2:{ intros x; tauto. }
      intros l' [A B]. apply in_app_or in A. destruct A as [A|[<-|[]]]. split; auto.
      destruct B as [d0 [r0 [d1 [r1 [B1 [B2 [B3 B4]]]]]]]. congruence.
  - inv Hs. constructor; auto.
    + eapply bk_mono; eauto.
    + eapply dn_ext; eauto. 2:{ intros x; tauto. }
      intros l' [A B]. apply in_app_or in A. destruct A as [A|[<-|[]]]. split; auto.
      destruct B as [d0 [r0 [d1 [r1 [B1 [B2 [B3 B4]]]]]]]. congruence.
Qed.

Lemma pc_fold : forall m c1 c2, PC m [] c1 -> fold_opt (subst_add_line impl m) (lines impl) c1 = Some c2 -> PC m (lines impl) c2.
Proof.
  intros m c1 c2 H Hf. apply (fold_opt_inv (subst_add_line impl m) (PC m) (lines impl)) with (a := c1); auto.
  intros done x rest a a' Hall Ha Hs. eapply pc_step; eauto.
Qed.

(** *** phase (d), inputs: the lines into the instance are re-attached *)
Definition PRi (done : list (nat * option nat)) (z : nat) : Prop := PR0 z /\ ~ In (Some z) (map snd done).
Definition CRi (m : list (nat * nat)) (done : list (nat * option nat)) (l : nat) : Prop :=
  CL m (lines impl) l \/ exists inn, In inn (map fst done) /\ outs_of impl inn = [Some l].
Definition CFi (done : list (nat * option nat)) (x : nat) : Prop := In x (map fst done).

Record PI (m : list (nat * nat)) (done : list (nat * option nat)) (c1 : circ) : Prop := mkPI {
  pi_cw : CW PD0 (PRi done) c1;
  pi_bk : BK c node impl m (CRi m done) (CL m (lines impl)) (CFi done) NoP c1;
  pi_dn : DN c node impl m (CL m (lines impl)) NoP c1 }.

Lemma io_listed : forall x, In (Some x) (io impl) -> In x (nodes impl).
Proof. intros x H. destruct (HIL _ H) as [n [E Hn]]. inv E. auto. Qed.

Lemma pi_attach : forall m done inn ll rd pin c1, PI m done c1 -> PRi done ll -> In rd (nodes c1) -> in_at c1 rd pin = None ->
  (exists x, mget x m = Some rd /\ ((exists l, in_at impl x pin = Some l /\ CRi m (done ++ [(inn, Some ll)]) l) \/
                                   (CFi (done ++ [(inn, Some ll)]) x /\ ins_of impl x = []))) ->
  PI m (done ++ [(inn, Some ll)]) (set_in (upd_line c1 ll (fun x => lset_rdr x (Some rd) pin)) rd pin ll).
Proof.
  intros m done inn ll rd pin c1 [Hcw Hbk Hdn] Hll Hrd Hfree W.
  set (c' := upd_line c1 ll (fun x => lset_rdr x (Some rd) pin)).
  assert (Hrec : l_rdr (lst c' ll) = Some rd /\ l_rpin (lst c' ll) = pin).
  { unfold c'. unf. simpl. rewrite Nat.eqb_refl. simpl. auto. }
  constructor.
  - pose proof (cw_rec_r _ _ c1 ll rd pin Hcw Hll) as H1. fold c' in H1.
    pose proof (cw_set_in _ _ c' ll rd pin H1 Hll (proj1 Hrec) (proj2 Hrec) Hrd Hfree) as H2.
    eapply cw_ext. exact H2. tauto.
    intros z. unfold PRi. rewrite map_app. simpl. rewrite in_app_iff. simpl. split.
    + intros [[A B] C]. split; auto. intros [D|[D|[]]]; auto. inv D. auto.
    + intros [A B]. split; [split; auto|]. intros ->. apply B. right; left; auto.
  - apply bk_set_in; auto. apply bk_upd_line. eapply bk_mono; eauto.
    + intros l [A|[i0 [A B]]]; [left; auto|right]. exists i0. split; auto. rewrite map_app. apply in_or_app; auto.
    + intros x A. unfold CFi in *. rewrite map_app. apply in_or_app; auto.
  - apply dn_set_in; auto. apply dn_upd_line. auto.
Qed.

Lemma pi_step : forall m all done inn oll rest c1 c2,
  (forall x y, mget x m = Some y -> desig = Some x \/ in_ios impl x = false \/ cond2 x = true \/ cond3 x = true) ->
  all = done ++ (inn, oll) :: rest -> NoDup (map fst all) -> NoDup (somes (map snd all)) ->
  (forall x, In x (map fst all) -> In (Some x) (io impl) /\ ins_of impl x = []) ->
  (forall ll, In (Some ll) (map snd all) -> PR0 ll) ->
  PI m done c1 -> subst_conn_in impl m c1 (inn, oll) = Some c2 -> PI m (done ++ [(inn, oll)]) c2.
Proof.
  intros m all done inn oll rest c1 c2 Hms2 Hall Hnd1 Hnd2 Hins Hpr H Hs.
  assert (Hfst : map fst all = map fst done ++ inn :: map fst rest) by (rewrite Hall, map_app; reflexivity).
  assert (Hsnd : map snd all = map snd done ++ oll :: map snd rest) by (rewrite Hall, map_app; reflexivity).
  assert (Hinn_nd : ~ In inn (map fst done)). { apply (nodup_mid _ (map fst rest)). rewrite <- Hfst. auto. }
  destruct (Hins inn) as [Hinn_io Hinn_ins]. { rewrite Hfst. apply in_or_app; right; left; auto. }
  pose proof (io_listed inn Hinn_io) as Hinn_l.
  pose proof (io_in_ios impl inn Hinn_io) as Hinn_ios.
  destruct H as [Hcw Hbk Hdn].
  destruct oll as [ll|].
  2:{ simpl in Hs. inv Hs. constructor; auto.
      - eapply cw_ext. exact Hcw. tauto. intros z. unfold PRi. rewrite map_app. simpl. rewrite in_app_iff. simpl.
        split. intros [A B]. split; auto. intros [D|[D|[]]]; auto. discriminate. intros [A B]. split; auto.
      - eapply bk_mono; eauto.
        + intros l [A|[i0 [A B]]]; [left; auto|right]. exists i0. split; auto. rewrite map_app. apply in_or_app; auto.
        + intros x A. unfold CFi in *. rewrite map_app. apply in_or_app; auto. }
  assert (Hll_nd : ~ In (Some ll) (map snd done)).
  { intros Hc. apply somes_In in Hc. revert Hc. apply (nodup_mid _ (somes (map snd rest))).
    rewrite Hsnd, somes_app in Hnd2. simpl in Hnd2. exact Hnd2. }
  assert (Hll : PRi done ll). { split; auto. apply Hpr. rewrite Hsnd. apply in_or_app; right; left; auto. }
  assert (Hfork : forall f, mget inn m = Some f ->
            PI m (done ++ [(inn, Some ll)]) (set_in (upd_line c1 ll (fun x => lset_rdr x (Some f) 0)) f 0 ll)).
  { intros f Hf. destruct (bk_rng _ _ _ _ _ _ _ _ _ Hbk inn f Hf) as [Hfn _].
    apply pi_attach; auto. constructor; auto.
    - eapply bk_free_in0; eauto.
    - exists inn. split; auto. right. split; auto. unfold CFi. rewrite map_app. apply in_or_app; right; left; auto. }
  unfold subst_conn_in in Hs.
  destruct (outs_of impl inn) as [|o [|o2 orest]] eqn:Eo.
  - destruct (mget inn m) as [f|] eqn:Ef; [|discriminate]. inv Hs. apply Hfork; auto.
  - destruct o as [l0|]; [|discriminate].
    destruct (l_rdr (lst impl l0)) as [r|] eqn:Er; [|discriminate].
    destruct (mget r m) as [r'|] eqn:Em; [|discriminate]. inv Hs.
    assert (Ho0 : out_at impl inn 0 = Some l0) by (unfold out_at; rewrite Eo; reflexivity).
    destruct (impl_out impl HIC inn 0 l0 Hinn_l Ho0) as [Hl0 [Hd0 _]].
    destruct (impl_line impl HIC l0 Hl0) as [d1 [r1 [Hd1 [Hr1 [_ [_ [_ Hi1]]]]]]]. rewrite Er in Hr1. inv Hr1.
    destruct (bk_rng _ _ _ _ _ _ _ _ _ Hbk r1 r' Em) as [Hr'n _].
    apply pi_attach; auto. constructor; auto.
    + eapply bk_free_in; eauto. intros [[_ B]|[i0 [A B]]].
      * destruct B as [d2 [r2 [d3 [r3 [B1 [B2 [B3 B4]]]]]]]. rewrite Hd0 in B1. inv B1.
        destruct (Hms2 d2 d3 B3) as [E|[E|[E|E]]].
        -- destruct (Hdesig d2 E) as [E' _]. congruence.
        -- congruence.
        -- unfold cond2 in E. rewrite Hinn_ins in E. simpl in E. rewrite andb_false_r in E. discriminate.
        -- unfold cond3 in E. rewrite Eo in E. simpl in E. rewrite andb_false_r in E. discriminate.
      * assert (Hi0 : In i0 (nodes impl)).
        { apply io_listed. apply Hins. rewrite Hfst. apply in_or_app; auto. }
        assert (Ho1 : out_at impl i0 0 = Some l0) by (unfold out_at; rewrite B; reflexivity).
        destruct (impl_out impl HIC i0 0 l0 Hi0 Ho1) as [_ [Hd2 _]]. rewrite Hd0 in Hd2. inv Hd2. auto.
    + exists r1. split; auto. left. exists l0. split; auto. right. exists inn. split; auto.
      rewrite map_app. apply in_or_app; right; left; auto.
  - destruct (mget inn m) as [f|] eqn:Ef; [|discriminate]. inv Hs. apply Hfork; auto.
Qed.

Lemma pi_fold : forall m all c1 c2,
  (forall x y, mget x m = Some y -> desig = Some x \/ in_ios impl x = false \/ cond2 x = true \/ cond3 x = true) ->
  NoDup (map fst all) -> NoDup (somes (map snd all)) ->
  (forall x, In x (map fst all) -> In (Some x) (io impl) /\ ins_of impl x = []) ->
  (forall ll, In (Some ll) (map snd all) -> PR0 ll) ->
  PI m [] c1 -> fold_opt (subst_conn_in impl m) all c1 = Some c2 -> PI m all c2.
Proof.
  intros m all c1 c2 Hms2 Hnd1 Hnd2 Hins Hpr H Hf.
  apply (fold_opt_inv (subst_conn_in impl m) (PI m) all) with (a := c1); auto.
  intros done [inn oll] rest a a' Hall Ha Hs. eapply pi_step; eauto.
Qed.

(** *** phase (d), outputs: the lines out of the instance are re-attached; drivers of unconnected outputs are collected *)
Definition PDo (done : list (option nat * option nat)) (z : nat) : Prop := PD0 z /\ ~ In (Some z) (map snd done).
Definition CDo (m : list (nat * nat)) (done : list (option nat * option nat)) (l : nat) : Prop :=
  CL m (lines impl) l \/ In (Some l) (map fst done).
Definition CFo (done : list (option nat * option nat)) (x : nat) : Prop :=
  exists l, In (Some l) (map fst done) /\ l_rdr (lst impl l) = Some x.
Definition FOo (done : list (option nat * option nat)) (x : nat) : Prop :=
  exists l ll, In (Some l, Some ll) done /\ l_rdr (lst impl l) = Some x /\ 0 < List.length (outs_of impl x).

Record PO (m : list (nat * nat)) (PRf CRf CFif : nat -> Prop) (done : list (option nat * option nat)) (st : circ * list nat) : Prop := mkPO {
  po_cw : CW (PDo done) PRf (fst st);
  po_bk : BK c node impl m CRf (CDo m done) CFif (CFo done) (fst st);
  po_dn : DN c node impl m (CL m (lines impl)) (FOo done) (fst st);
  po_dl : forall d, In d (snd st) -> In d (nodes (fst st)) }.

Lemma po_attach : forall m PRf CRf CFif done l ll x dn pin c1 dl, PO m PRf CRf CFif done (c1, dl) -> PDo done ll ->
  mget x m = Some dn -> out_at c1 dn pin = None ->
  ((exists l', out_at impl x pin = Some l' /\ CDo m (done ++ [(Some l, Some ll)]) l') \/
   (CFo (done ++ [(Some l, Some ll)]) x /\ pin = List.length (outs_of impl x))) ->
  (pin < List.length (outs_of impl x) \/ (pin = List.length (outs_of impl x) /\ FOo (done ++ [(Some l, Some ll)]) x)) ->
  (forall a, FOo (done ++ [(Some l, Some ll)]) a -> FOo done a \/ (a = x /\ pin = List.length (outs_of impl x))) ->
  PO m PRf CRf CFif (done ++ [(Some l, Some ll)]) (set_out (upd_line c1 ll (fun y => lset_drv y (Some dn) pin)) dn pin ll, dl).
Proof.
  intros m PRf CRf CFif done l ll x dn pin c1 dl [Hcw Hbk Hdn Hdl] Hll Hx Hfree W Hpin HFO. simpl in *.
  destruct (bk_rng _ _ _ _ _ _ _ _ _ Hbk x dn Hx) as [Hdnn _].
  set (c' := upd_line c1 ll (fun y => lset_drv y (Some dn) pin)).
  assert (Hrec : l_drv (lst c' ll) = Some dn /\ l_dpin (lst c' ll) = pin).
  { unfold c'. unf. simpl. rewrite Nat.eqb_refl. simpl. auto. }
  assert (HFOm : forall a, FOo done a -> FOo (done ++ [(Some l, Some ll)]) a).
  { intros a [l1 [l2 [A B]]]. exists l1, l2. split; auto. apply in_or_app; auto. }
  constructor; simpl.
  - pose proof (cw_rec_d _ _ c1 ll dn pin Hcw Hll) as H1. fold c' in H1.
    pose proof (cw_set_out _ _ c' ll dn pin H1 Hll (proj1 Hrec) (proj2 Hrec) Hdnn Hfree) as H2.
    eapply cw_ext. exact H2. 2:tauto.
    intros z. unfold PDo. rewrite map_app. simpl. rewrite in_app_iff. simpl. split.
    + intros [[A B] C]. split; auto. intros [D|[D|[]]]; auto. inv D. auto.
    + intros [A B]. split; [split; auto|]. intros ->. apply B. right; left; auto.
  - apply bk_set_out. apply bk_upd_line. eapply bk_mono; eauto.
    + intros l' [A|A]; [left; auto|right]. rewrite map_app. apply in_or_app; auto.
    + intros a [l' [A B]]. exists l'. split; auto. rewrite map_app. apply in_or_app; auto.
    + exists x. split; auto.
  - eapply (dn_set_out c node impl HIC m (CL m (lines impl)) (FOo done) (CL m (lines impl)) (FOo (done ++ [(Some l, Some ll)])) c' x dn); eauto.
    + apply dn_upd_line. auto.
    + apply (bk_inj _ _ _ _ _ _ _ _ _ Hbk).
    + intros a y Ha. destruct (bk_rng _ _ _ _ _ _ _ _ _ Hbk a y Ha) as [_ [A B]]. auto.
  - auto.
Qed.

Lemma po_step : forall m PRf CRf CFif all done ol oll rest st st',
  (forall x y, mget x m = Some y -> desig = Some x \/ in_ios impl x = false \/ cond2 x = true \/ cond3 x = true) ->
  all = done ++ (ol, oll) :: rest -> NoDup (somes (map fst all)) -> NoDup (somes (map snd all)) ->
  (forall l, In (Some l) (map fst all) -> exists n, In (Some n) (io impl) /\ in_at impl n 0 = Some l) ->
  (forall ll, In (Some ll) (map snd all) -> PD0 ll) ->
  PO m PRf CRf CFif done st -> subst_conn_out true impl m st (ol, oll) = Some st' -> PO m PRf CRf CFif (done ++ [(ol, oll)]) st'.
Proof.
  intros m PRf CRf CFif all done ol oll rest [c1 dl] st' Hms2 Hall Hnd1 Hnd2 Hel Hpd H Hs.
  assert (Hfst : map fst all = map fst done ++ ol :: map fst rest) by (rewrite Hall, map_app; reflexivity).
  assert (Hsnd : map snd all = map snd done ++ oll :: map snd rest) by (rewrite Hall, map_app; reflexivity).
  unfold subst_conn_out in Hs. destruct ol as [l|]; [|discriminate]. cbv zeta in Hs.
  assert (Hl_nd : ~ In (Some l) (map fst done)).
  { intros Hc. apply somes_In in Hc. revert Hc. apply (nodup_mid _ (somes (map fst rest))).
    rewrite Hfst, somes_app in Hnd1. simpl in Hnd1. exact Hnd1. }
  destruct (Hel l) as [n [Hn_io Hn_in]]. { rewrite Hfst. apply in_or_app; right; left; auto. }
  pose proof (io_listed n Hn_io) as Hn_l. pose proof (io_in_ios impl n Hn_io) as Hn_ios.
  destruct (impl_in impl HIC n 0 l Hn_l Hn_in) as [Hl [Hr _]].
  destruct (impl_line impl HIC l Hl) as [d [r [Hd [Hr' [Hd_l [_ [Ho _]]]]]]]. rewrite Hr in Hr'. inv Hr'.
  rewrite Hd, Hr in Hs.
  pose proof H as [Hcw Hbk Hdn Hdl]. simpl in Hcw, Hbk, Hdn, Hdl.
  destruct oll as [ll|].
  2:{ assert (G : forall dl', (forall x, In x dl' -> In x (nodes c1)) -> PO m PRf CRf CFif (done ++ [(Some l, None)]) (c1, dl')).
      { intros dl' Hdl'. constructor; simpl; auto.
        - eapply cw_ext. exact Hcw. 2:tauto. intros z. unfold PDo. rewrite map_app. simpl. rewrite in_app_iff. simpl.
          split. intros [A B]. split; auto. intros [D|[D|[]]]; auto. discriminate. intros [A B]. split; auto.
        - eapply bk_mono; eauto.
          + intros l' [A|A]; [left; auto|right]. rewrite map_app. apply in_or_app; auto.
          + intros a [l' [A B]]. exists l'. split; auto. rewrite map_app. apply in_or_app; auto.
        - eapply dn_ext; eauto. intros a. split.
          + intros [l1 [l2 [A B]]]. exists l1, l2. split; auto. apply in_or_app; auto.
          + intros [l1 [l2 [A B]]]. exists l1, l2. split; auto. apply in_app_or in A. destruct A as [A|[A|[]]]; auto. discriminate. }
      destruct (mget d m) as [d'|] eqn:Em; inv Hs; apply G; auto.
      intros x Hx. apply in_app_or in Hx. destruct Hx as [Hx|[<-|[]]]; auto.
      apply (bk_rng _ _ _ _ _ _ _ _ _ Hbk d d' Em). }
  assert (Hll_nd : ~ In (Some ll) (map snd done)).
  { intros Hc. apply somes_In in Hc. revert Hc. apply (nodup_mid _ (somes (map snd rest))).
    rewrite Hsnd, somes_app in Hnd2. simpl in Hnd2. exact Hnd2. }
  assert (Hll : PDo done ll). { split; auto. apply Hpd. rewrite Hsnd. apply in_or_app; right; left; auto. }
  assert (Hin_new : In (Some l, Some ll) (done ++ [(Some l, Some ll)])) by (apply in_or_app; right; left; auto).
  assert (Hl_new : In (Some l) (map fst (done ++ [(Some l, Some ll)]))).
  { rewrite map_app. apply in_or_app; right; left; auto. }
  destruct (0 <? List.length (outs_of impl r)) eqn:Ek.
  - apply Nat.ltb_lt in Ek. destruct (mget r m) as [f|] eqn:Em; [|discriminate]. inv Hs.
    eapply po_attach; eauto.
    + eapply bk_free_outk; eauto. intros [l' [A B]].
      destruct (Hel l') as [n' [Hn'_io Hn'_in]]. { rewrite Hfst. apply in_or_app; auto. }
      destruct (impl_in impl HIC n' 0 l' (io_listed n' Hn'_io) Hn'_in) as [_ [B' _]]. rewrite B in B'. inv B'.
      rewrite Hn_in in Hn'_in. inv Hn'_in. auto.
    + right. split; auto. exists l. auto.
    + right. split; auto. exists l, ll. auto.
    + intros a [l1 [l2 [A [B C]]]]. apply in_app_or in A. destruct A as [A|[A|[]]].
      * left. exists l1, l2. auto.
      * inv A. right. split; auto. congruence.
  - apply Nat.ltb_ge in Ek. destruct (mget d m) as [d'|] eqn:Em; [|discriminate]. inv Hs.
    eapply po_attach; eauto.
    + eapply bk_free_out; eauto. intros [[_ B]|B]; [|contradiction].
      destruct B as [d2 [r2 [d3 [r3 [B1 [B2 [B3 B4]]]]]]]. rewrite Hr in B2. inv B2.
      destruct (Hms2 r2 r3 B4) as [E|[E|[E|E]]].
      * destruct (Hdesig r2 E) as [E' _]. congruence.
      * congruence.
      * unfold cond2 in E. apply andb_true_iff in E. destruct E as [E _]. apply Nat.ltb_lt in E. lia.
      * unfold cond3 in E. apply andb_true_iff in E. destruct E as [E _]. apply Nat.eqb_eq in E.
        apply nth_some_lt in Hn_in. unfold ins_of in *. lia.
    + left. exists l. split; auto. right. auto.
    + left. eapply nth_some_lt. exact Ho.
    + intros a [l1 [l2 [A [B C]]]]. apply in_app_or in A. destruct A as [A|[A|[]]].
      * left. exists l1, l2. auto.
      * inv A. rewrite Hr in B. inv B. lia.
Qed.

Lemma po_fold : forall m PRf CRf CFif all st st',
  (forall x y, mget x m = Some y -> desig = Some x \/ in_ios impl x = false \/ cond2 x = true \/ cond3 x = true) ->
  NoDup (somes (map fst all)) -> NoDup (somes (map snd all)) ->
  (forall l, In (Some l) (map fst all) -> exists n, In (Some n) (io impl) /\ in_at impl n 0 = Some l) ->
  (forall ll, In (Some ll) (map snd all) -> PD0 ll) ->
  PO m PRf CRf CFif [] st -> fold_opt (subst_conn_out true impl m) all st = Some st' -> PO m PRf CRf CFif all st'.
Proof.
  intros m PRf CRf CFif all st st' Hms2 Hnd1 Hnd2 Hel Hpd H Hf.
  apply (fold_opt_inv (subst_conn_out true impl m) (PO m PRf CRf CFif) all) with (a := st); auto.
  intros done [ol oll] rest a a' Hall Ha Hs. eapply po_step; eauto.
Qed.

(** *** the end of phase (d): everything is attached again, fork outputs are gap-free *)
Lemma dense_final : forall m CR CD CFi' CFo' FO c4,
  BK c node impl m CR CD CFi' CFo' c4 -> DN c node impl m (CL m (lines impl)) FO c4 ->
  (forall x, In x (nodes impl) -> mget x m = None -> in_ios impl x = true /\ cond2 x = false /\ cond3 x = false) ->
  ForkDenseX [] c4.
Proof.
  intros m CR CD CFi' CFo' FO c4 Hbk Hdn Hms1 y [Hy|[]] Hk p Hp.
  assert (HNdec : NN y \/ ~ NN y).
  { unfold N. destruct (Nat.eq_dec y node); auto. destruct (le_lt_dec (nnext c) y); auto. right. intros [A|A]; auto. lia. }
  destruct HNdec as [HN|HN].
  2:{ destruct (dn_old _ _ _ _ _ _ _ Hdn y Hy HN) as [A [B C]]. unf. rewrite B in *. rewrite C in Hk.
      apply (HDc y (or_introl A)); auto. }
  destruct (dn_mapped _ _ _ _ _ _ _ Hdn y Hy HN) as [x Hx].
  rewrite (dn_kind _ _ _ _ _ _ _ Hdn x y Hx) in Hk.
  destruct (bk_rng _ _ _ _ _ _ _ _ _ Hbk x y Hx) as [_ [_ Hxl]].
  destruct (dn_len _ _ _ _ _ _ _ Hdn x y Hx) as [L1 L2].
  destruct (lt_dec p (List.length (outs_of impl x))) as [Hlt|Hge].
  - destruct (out_at impl x p) as [l|] eqn:El. 2:{ exfalso. apply (HID x (or_introl Hxl) Hk p Hlt). auto. }
    destruct (impl_out impl HIC x p l Hxl El) as [Hl [Hd Hdp]].
    destruct (impl_line impl HIC l Hl) as [d [r [Hd' [Hr [_ [Hrl [_ Hi]]]]]]]. rewrite Hd in Hd'. inv Hd'.
    destruct (mget r m) as [r'|] eqn:Er.
    + apply (dn_fill _ _ _ _ _ _ _ Hdn d y (l_dpin (lst impl l)) l Hx El). split; auto. exists d, r, y, r'. auto.
    + exfalso. destruct (Hms1 r Hrl Er) as [A [B _]].
      unfold cond2 in B. apply nth_some_lt in Hi. unfold ins_of in B, Hi.
      assert (E0 : (0 <? List.length (n_ins (nst impl r))) = true) by (apply Nat.ltb_lt; lia).
      rewrite E0, andb_true_r in B. apply Nat.ltb_ge in B.
      unfold out_drivers_b in Hout_drv. rewrite forallb_forall in Hout_drv. specialize (Hout_drv l Hl).
      rewrite Hr, Hd in Hout_drv. rewrite A, Hk in Hout_drv.
      assert (E1 : (List.length (outs_of impl r) =? 0) = true) by (apply Nat.eqb_eq; lia).
      rewrite E1 in Hout_drv. discriminate.
  - intros E.
    assert (HnFO : ~ FO x).
    { intros HF. assert (p = List.length (outs_of impl x)) by lia. subst p. apply (dn_fo _ _ _ _ _ _ _ Hdn x y Hx HF). auto. }
    specialize (L2 HnFO). lia.
Qed.

Lemma dangling_fold : forall dl c4, CInv c4 -> (forall d, In d dl -> Known c4 d) ->
  exists c', fold_opt (fun c' d => remove_dangling (dangling_fuel c') c' d) dl c4 = Some c' /\ CInv c' /\ (IoLive c4 -> IoLive c') /\
             (forall x, Known c4 x -> Known c' x).
Proof.
  induction dl as [|d dl IH]; intros c4 HI HK; cbn [fold_opt].
  - exists c4. split; [reflexivity|]. split; [exact HI|]. split; auto.
  - destruct (remove_dangling_inv (dangling_fuel c4) c4 d HI (HK d (or_introl eq_refl))) as [c5 [A [B [_ [C D]]]]].
    { unfold dangling_fuel. pose proof (lines_le_lnext [] c4 (proj1 HI)). lia. }
    rewrite A. destruct (IH c5 B) as [c' [E [F [G K]]]]. { intros d' Hd'. apply C. apply HK. right; auto. }
    exists c'. split; [exact E|]. split; [exact F|]. split; [auto|]. intros x Hx. apply K. apply C. auto.
Qed.

Definition subst_pipe (iname : string) (zin : list (nat * option nat)) (zout : list (option nat * option nat))
           (st0 : circ * list (nat * nat)) : option circ :=
  match fold_opt (subst_add_nodes impl iname desig) (nodes impl) st0 with
  | None => None
  | Some (c1, m) =>
      match fold_opt (subst_add_line impl m) (lines impl) c1 with
      | None => None
      | Some c2 =>
          match fold_opt (subst_conn_in impl m) zin c2 with
          | None => None
          | Some c3 =>
              match fold_opt (subst_conn_out true impl m) zout (c3, []) with
              | None => None
              | Some (c4, dl) => fold_opt (fun c' d => remove_dangling (dangling_fuel c') c' d) dl c4
              end
          end
      end
  end.

Lemma subst_pipe_inv : forall iname zin zout st0 c',
  io_mem c node = false ->
  NoDup (map fst zin) -> NoDup (somes (map snd zin)) ->
  (forall x, In x (map fst zin) -> In (Some x) (io impl) /\ ins_of impl x = []) ->
  (forall ll, In (Some ll) (map snd zin) <-> In (Some ll) (ins_of c node)) ->
  NoDup (somes (map fst zout)) -> NoDup (somes (map snd zout)) ->
  (forall l, In (Some l) (map fst zout) -> exists n, In (Some n) (io impl) /\ in_at impl n 0 = Some l) ->
  (forall ll, In (Some ll) (map snd zout) <-> In (Some ll) (outs_of c node)) ->
  PB [] st0 -> subst_pipe iname zin zout st0 = Some c' ->
  CInv c' /\ (IoLive c -> IoLive c') /\ (forall x, x <> node -> Known c x -> Known c' x).
Proof.
  intros iname zin zout st0 c' Hport Hi1 Hi2 Hi3 Hi4 Ho1 Ho2 Ho3 Ho4 H0 Hs. unfold subst_pipe in Hs.
  destruct (fold_opt (subst_add_nodes impl iname desig) (nodes impl) st0) as [[c1 m]|] eqn:E1; [|discriminate].
  destruct (fold_opt (subst_add_line impl m) (lines impl) c1) as [c2|] eqn:E2; [|discriminate].
  destruct (fold_opt (subst_conn_in impl m) zin c2) as [c3|] eqn:E3; [|discriminate].
  destruct (fold_opt (subst_conn_out true impl m) zout (c3, [])) as [[c4 dl]|] eqn:E4; [|discriminate].
  pose proof (pb_fold iname st0 (c1, m) H0 E1) as HB.
  destruct (pb_final c1 m HB) as [Hbk1 Hdn1].
  pose proof (pb_ms1 _ _ HB) as Hms1. pose proof (pb_ms2 _ _ HB) as Hms2. simpl in Hms1, Hms2.
  (* (c) *)
  assert (HC0 : PC m [] c1).
  { constructor. apply (pb_cw _ _ HB).
    - apply (bk_mono c node impl m _ _ _ _ (CL m []) (CL m []) NoP NoP c1 Hbk1); intros ? [].
    - apply (dn_ext c node impl m _ _ (CL m []) NoP c1 Hdn1). intros l [[] _]. tauto. }
  pose proof (pc_fold m c1 c2 HC0 E2) as [Hcw2 Hbk2 Hdn2].
  (* (d) inputs *)
  assert (HI0 : PI m [] c2).
  { constructor; auto.
    - eapply cw_ext. exact Hcw2. tauto. intros z. unfold PRi. simpl. tauto.
    - apply (bk_mono c node impl m _ _ _ _ (CRi m []) (CL m (lines impl)) (CFi []) NoP c2 Hbk2); auto.
      intros l A. left; auto. }
  assert (Hpr : forall ll, In (Some ll) (map snd zin) -> PR0 ll).
  { intros ll Hll. apply Hi4 in Hll. apply In_nth_opt in Hll. destruct Hll as [q [_ Hq]].
    destruct (cc_ins [] c HC node q ll (or_introl Hnode) Hq) as [A [B _]]. split; auto. }
  pose proof (pi_fold m zin c2 c3 Hms2 Hi1 Hi2 Hi3 Hpr HI0 E3) as [Hcw3 Hbk3 Hdn3].
  (* (d) outputs *)
  assert (HO0 : PO m (PRi zin) (CRi m zin) (CFi zin) [] (c3, [])).
  { constructor; simpl; auto.
    - eapply cw_ext. exact Hcw3. 2:tauto. intros z. unfold PDo. simpl. tauto.
    - apply (bk_mono c node impl m _ _ _ _ (CRi m zin) (CDo m []) (CFi zin) (CFo []) c3 Hbk3); auto.
      intros l A. left; auto. intros x [].
    - apply (dn_ext c node impl m _ _ (CL m (lines impl)) (FOo []) c3 Hdn3); auto.
      intros x. split. intros []. intros [l [ll [[] _]]].
    - intros d []. }
  assert (Hpd : forall ll, In (Some ll) (map snd zout) -> PD0 ll).
  { intros ll Hll. apply Ho4 in Hll. apply In_nth_opt in Hll. destruct Hll as [q [_ Hq]].
    destruct (cc_outs [] c HC node q ll (or_introl Hnode) Hq) as [A [B _]]. split; auto. }
  pose proof (po_fold m _ _ _ zout (c3, []) (c4, dl) Hms2 Ho1 Ho2 Ho3 Hpd HO0 E4) as [Hcw4 Hbk4 Hdn4 Hdl4].
  simpl in Hcw4, Hbk4, Hdn4, Hdl4.
  (* everything is attached again *)
  assert (HC4 : CCoreX [] c4).
  { apply (ccore_of_cw _ _ c4 Hcw4).
    - intros z _ [[Hz Hd] Hn]. apply Hn. apply Ho4.
      destruct (cc_line [] c HC z Hz) as [d0 [r0 [A1 [_ [_ [_ [A5 _]]]]]]]. rewrite Hd in A1. inv A1.
      eapply nth_In_opt. exact A5.
    - intros z _ [[Hz Hr] Hn]. apply Hn. apply Hi4.
      destruct (cc_line [] c HC z Hz) as [d0 [r0 [_ [A2 [_ [_ [_ A6]]]]]]]. rewrite Hr in A2. inv A2.
      eapply nth_In_opt. exact A6. }
  assert (HD4 : ForkDenseX [] c4).
  { eapply dense_final; eauto. }
  assert (HL4 : IoLive c -> IoLive c4).
  { intros HLc e He. rewrite (dn_io _ _ _ _ _ _ _ Hdn4) in He. destruct (HLc e He) as [n [-> Hn]]. exists n. split; auto.
    apply (dn_keep _ _ _ _ _ _ _ Hdn4); auto. intros ->.
    assert (io_mem c node = true); [|congruence]. unfold io_mem. apply existsb_exists. exists (Some node). split; auto. apply Nat.eqb_refl. }
  destruct (dangling_fold dl c4 (conj HC4 HD4)) as [c'' [A [B [C K]]]].
  { intros d Hd. left. auto. }
  rewrite A in Hs. inv Hs. split; auto. split; auto.
  intros x Hx HK. apply K. apply (dn_known _ _ _ _ _ _ _ Hdn4); auto.
Qed.
End Subst.

(** ** the two initial states of phase (b) *)
Lemma pb_init_some : forall c node impl dc, CCoreX [] c -> In node (nodes c) -> is_fork (kind_of c node) = false ->
  In dc (nodes impl) -> is_fork (kind_of impl dc) = false ->
  PB c node impl (Some dc) [] (upd_node c node (fun x => nset_outs (nset_ins (nset_kind x (kind_of impl dc)) []) []), [(dc, node)]).
Proof.
  intros c node impl dc HC Hnode Hcell Hdc Hdck.
  set (c0 := upd_node c node _).
  assert (Hn : forall y, y <> node -> nst c0 y = nst c y).
  { intros y Hy. unfold c0. unf. simpl. destruct (Nat.eqb_spec y node); congruence. }
  assert (Hnode0 : nst c0 node = mkN (n_name (nst c node)) (kind_of impl dc) (n_index (nst c node)) [] [] (n_alive (nst c node))).
  { unfold c0. unf. simpl. rewrite Nat.eqb_refl. reflexivity. }
  assert (Hm : forall x y, mget x [(dc, node)] = Some y -> x = dc /\ y = node).
  { intros x y H. simpl in H. destruct (Nat.eqb_spec x dc); [|discriminate]. inv H. auto. }
  constructor; cbn [fst snd].
  - apply cw_rekind; auto.
  - reflexivity.
  - unfold c0. simpl. lia.
  - intros y Hy HN. assert (y <> node) by (intros ->; apply HN; left; auto). rewrite Hn by auto. auto.
  - intros y Hy HN. rewrite (N_listed c node HC y Hy HN). rewrite Hnode0. simpl. split; auto.
    exists dc. simpl. rewrite Nat.eqb_refl. reflexivity.
  - auto.
  - intros x x' y H1 H2. apply Hm in H1. apply Hm in H2. destruct H1, H2. congruence.
  - intros x y H. apply Hm in H. destruct H as [-> ->]. split; auto. split; auto. left; auto.
  - intros x y H. apply Hm in H. destruct H as [-> ->]. unf. rewrite Hnode0. reflexivity.
  - intros x y H. apply Hm in H. destruct H as [-> ->]. auto.
  - intros dc' E. inv E. simpl. rewrite Nat.eqb_refl. reflexivity.
  - intros x [].
  - intros x y H. apply Hm in H. destruct H as [-> ->]. auto.
  - intros x Hx [A|[A [B [C D]]]]. left; auto.
    right. unfold Detached. change (nodes c0) with (nodes c). unf. rewrite (Hn x Hx). auto.
Qed.

Lemma pb_init_none : forall c node impl c0, CCoreX [] c -> In node (nodes c) -> node_remove c node = Some c0 -> outs_of c node = [] ->
  PB c node impl None [] (c0, []).
Proof.
  intros c node impl c0 HC Hnode Hrm Houts.
  destruct (cw_removed c node HC Hnode c0 Hrm Houts) as [Hcw [Hio [Hnn [Hin Hnf]]]].
  constructor; simpl; auto; try discriminate.
  - lia.
  - intros y Hy HN. apply Hin in Hy. destruct Hy as [Hy Hne]. destruct (Hnf y) as [A [B _]]. auto.
  - intros y Hy HN. apply Hin in Hy. destruct Hy as [Hy Hne]. exfalso. apply Hne. apply (N_listed c node HC y Hy HN).
  - intros y Hy Hne. apply Hin. auto.
  - intros x [].
  - intros x Hx [A|[A [B [C D]]]]. left. apply Hin; auto.
    right. destruct (Hnf x) as [_ [E1 [E2 E3]]]. unfold Detached. rewrite Hin. unf. rewrite E1, E2, E3.
    destruct (Nat.eqb_spec x node); [congruence|]. split; [tauto|auto].
Qed.

(** ** substitute as a composition of named parts *)
Definition desig_of (impl : circ) (ios : list nat) : option (option nat) :=
  match map (fun n => nth 0 (ins_of impl n) None) (filter (fun n => 0 <? List.length (ins_of impl n)) ios) with
  | [] => Some None
  | None :: _ => None
  | Some l0 :: _ => match l_drv (lst impl l0) with
                    | Some d => option_map Some (find_designated (S (nnext impl)) impl d)
                    | None => None end
  end.

Definition subst_rest (c : circ) (node : nat) (impl : circ) (ios : list nat) (desig : option nat) : option circ :=
  let impl_in_nodes := filter (fun n => List.length (ins_of impl n) =? 0) ios in
  let impl_out_lines := map (fun n => nth 0 (ins_of impl n) None) (filter (fun n => 0 <? List.length (ins_of impl n)) ios) in
  let node_in_lines := pad (ins_of c node) (List.length impl_in_nodes) in
  let node_out_lines := pad (outs_of c node) (List.length impl_out_lines) in
  if negb ((List.length node_in_lines =? List.length impl_in_nodes) && (List.length node_out_lines =? List.length impl_out_lines))
  then None
  else
    let s0 := match desig with
              | Some dc => Some (upd_node c node (fun x => nset_outs (nset_ins (nset_kind x (kind_of impl dc)) []) []), [(dc, node)])
              | None => option_map (fun c' => (c', [])) (node_remove c node)
              end in
    match s0 with
    | None => None
    | Some st0 => subst_pipe impl desig (name_of c node) (zip impl_in_nodes node_in_lines) (zip impl_out_lines node_out_lines) st0
    end.

Lemma substitute_eq : forall c node impl, substitute c node impl =
  match all_somes (io impl) with
  | None => None
  | Some ios => match desig_of impl ios with None => None | Some desig => subst_rest c node impl ios desig end
  end.
Proof. reflexivity. Qed.

Lemma somes_map_some : forall {A} (l : list A), somes (map Some l) = l.
Proof. induction l; simpl; congruence. Qed.

Lemma nodup_somes_map : forall (f : nat -> option nat) (ns : list nat), NoDup ns ->
  (forall n n' l, In n ns -> In n' ns -> f n = Some l -> f n' = Some l -> n = n') -> NoDup (somes (map f ns)).
Proof.
  induction ns as [|n ns IH]; intros Hnd Hinj; simpl. constructor.
  inv Hnd. destruct (f n) as [l|] eqn:E.
  - constructor.
    + intros Hc. apply somes_In in Hc. apply in_map_iff in Hc. destruct Hc as [n' [E' Hn']].
      assert (n = n'). { apply (Hinj n n' l); auto. left; auto. right; auto. } subst. auto.
    + apply IH; auto. intros a b l' Ha Hb. apply Hinj; right; auto.
  - apply IH; auto. intros a b l' Ha Hb. apply Hinj; right; auto.
Qed.

Lemma io_live_of_ok : forall c, io_ok_b c = true -> IoLive c.
Proof.
  intros c H e He. unfold io_ok_b in H. rewrite forallb_forall in H. specialize (H e He).
  destruct e as [n|]; [|discriminate]. exists n. split; auto. apply mem_In; auto.
Qed.

(** ** the theorem *)
Theorem substitute_core : forall c node impl c',
  CInv c -> In node (nodes c) -> is_fork (kind_of c node) = false -> io_mem c node = false ->
  CInv impl -> IoLive impl -> subst_shape_b impl = true ->
  substitute c node impl = Some c' ->
  CInv c' /\ (IoLive c -> IoLive c') /\ (forall x, x <> node -> Known c x -> Known c' x).
Proof.
  intros c node impl c' [HC HD] Hnode Hcell Hport [HIC HID] HIL Hshape Hs.
  unfold subst_shape_b in Hshape. rewrite !andb_true_iff in Hshape. destruct Hshape as [[[S1 S2] S3] S4].
  rewrite substitute_eq in Hs.
  destruct (all_somes (io impl)) as [ios|] eqn:Eios; [|discriminate].
  destruct (desig_of impl ios) as [desig|] eqn:Edes; [|discriminate].
  assert (Hid : impl_desig impl = Some desig). { unfold impl_desig. rewrite Eios. exact Edes. }
  rewrite Hid in S3.
  pose proof (all_somes_map _ _ Eios) as Hio.
  assert (Hios_nd : NoDup ios). { apply nodupb_sound in S1. rewrite Hio, somes_map_some in S1. auto. }
  assert (Hios_io : forall n, In n ios -> In (Some n) (io impl)). { intros n Hn. rewrite Hio. apply in_map; auto. }
  assert (Hios_l : forall n, In n ios -> In n (nodes impl)). { intros n Hn. apply (io_listed impl HIL). auto. }
  set (inn := filter (fun n => List.length (ins_of impl n) =? 0) ios) in *.
  set (outn := filter (fun n => 0 <? List.length (ins_of impl n)) ios) in *.
  assert (Houtn : forall n l, In n outn -> nth 0 (ins_of impl n) None = Some l -> In (Some n) (io impl) /\ in_at impl n 0 = Some l).
  { intros n l Hn E. apply filter_In in Hn. destruct Hn as [Hn _]. split; auto. }
  assert (Hdesig : forall dc, desig = Some dc -> in_ios impl dc = false /\ In dc (nodes impl) /\ is_fork (kind_of impl dc) = false).
  { intros dc ->. apply negb_true_iff in S3. split; auto.
    unfold desig_of in Edes. fold outn in Edes.
    destruct outn as [|n0 t0] eqn:Eo; cbn [map] in Edes; [discriminate|].
    destruct (nth 0 (ins_of impl n0) None) as [l0|] eqn:El0; [|discriminate].
    destruct (l_drv (lst impl l0)) as [d|] eqn:Ed; [|discriminate].
    destruct (find_designated (S (nnext impl)) impl d) as [dc'|] eqn:Ef; cbn [option_map] in Edes; [|discriminate]. inv Edes.
    destruct (Houtn n0 l0 (or_introl eq_refl) El0) as [A B].
    destruct (impl_in impl HIC n0 0 l0 (io_listed impl HIL n0 A) B) as [Hl0 _].
    destruct (impl_line impl HIC l0 Hl0) as [d1 [r1 [Hd1 [_ [Hd1l _]]]]]. rewrite Ed in Hd1. inv Hd1.
    split. eapply fd_listed; eauto.
    pose proof (fd_exit impl _ _ _ Ef) as Hx. rewrite S3 in Hx. simpl in Hx. rewrite andb_true_r in Hx. auto. }
  unfold subst_rest in Hs. cbv zeta in Hs. fold inn in Hs. fold outn in Hs.
  set (ols := map (fun n => nth 0 (ins_of impl n) None) outn) in *.
  set (nil_ := pad (ins_of c node) (List.length inn)) in *.
  set (nol := pad (outs_of c node) (List.length ols)) in *.
  destruct (negb ((List.length nil_ =? List.length inn) && (List.length nol =? List.length ols))) eqn:Elen; [discriminate|].
  apply negb_false_iff in Elen. apply andb_true_iff in Elen. destruct Elen as [L1 L2].
  apply Nat.eqb_eq in L1. apply Nat.eqb_eq in L2. symmetry in L1, L2.
  (* the two zipped lists *)
  assert (Z1 : map fst (zip inn nil_) = inn) by (apply map_fst_zip; auto).
  assert (Z2 : map snd (zip inn nil_) = nil_) by (apply map_snd_zip; auto).
  assert (Z3 : map fst (zip ols nol) = ols) by (apply map_fst_zip; auto).
  assert (Z4 : map snd (zip ols nol) = nol) by (apply map_snd_zip; auto).
  assert (Hi1 : NoDup (map fst (zip inn nil_))). { rewrite Z1. apply NoDup_filter. auto. }
  assert (Hi2 : NoDup (somes (map snd (zip inn nil_)))).
  { rewrite Z2. unfold nil_. rewrite somes_pad. apply somes_nodup. intros i j x Hi Hj.
    destruct (cc_ins [] c HC node i x (or_introl Hnode) Hi) as [_ [_ A]].
    destruct (cc_ins [] c HC node j x (or_introl Hnode) Hj) as [_ [_ B]]. congruence. }
  assert (Hi3 : forall x, In x (map fst (zip inn nil_)) -> In (Some x) (io impl) /\ ins_of impl x = []).
  { intros x Hx. rewrite Z1 in Hx. apply filter_In in Hx. destruct Hx as [A B]. split; auto. apply length_zero_nil; auto. }
  assert (Hi4 : forall ll, In (Some ll) (map snd (zip inn nil_)) <-> In (Some ll) (ins_of c node)).
  { intros ll. rewrite Z2. apply in_pad. }
  assert (Ho1 : NoDup (somes (map fst (zip ols nol)))).
  { rewrite Z3. apply nodup_somes_map. apply NoDup_filter; auto.
    intros n n' l Hn Hn' E E'. destruct (Houtn n l Hn E) as [A B]. destruct (Houtn n' l Hn' E') as [A' B'].
    destruct (impl_in impl HIC n 0 l (io_listed impl HIL n A) B) as [_ [R _]].
    destruct (impl_in impl HIC n' 0 l (io_listed impl HIL n' A') B') as [_ [R' _]]. congruence. }
  assert (Ho2 : NoDup (somes (map snd (zip ols nol)))).
  { rewrite Z4. unfold nol. rewrite somes_pad. apply somes_nodup. intros i j x Hi Hj.
    destruct (cc_outs [] c HC node i x (or_introl Hnode) Hi) as [_ [_ A]].
    destruct (cc_outs [] c HC node j x (or_introl Hnode) Hj) as [_ [_ B]]. congruence. }
  assert (Ho3 : forall l, In (Some l) (map fst (zip ols nol)) -> exists n, In (Some n) (io impl) /\ in_at impl n 0 = Some l).
  { intros l Hl. rewrite Z3 in Hl. apply in_map_iff in Hl. destruct Hl as [n [E Hn]]. exists n. apply Houtn; auto. }
  assert (Ho4 : forall ll, In (Some ll) (map snd (zip ols nol)) <-> In (Some ll) (outs_of c node)).
  { intros ll. rewrite Z4. apply in_pad. }
  destruct desig as [dc|].
  - destruct (Hdesig dc eq_refl) as [D1 [D2 D3]].
    eapply (subst_pipe_inv c node impl HC HD HIC HID HIL Hnode S2 S4 (Some dc) Hdesig); eauto.
    apply pb_init_some; auto.
  - destruct (node_remove c node) as [c0|] eqn:Erm; [|discriminate]. simpl in Hs.
    eapply (subst_pipe_inv c node impl HC HD HIC HID HIL Hnode S2 S4 None Hdesig); eauto.
    apply pb_init_none; auto.
    assert (Eols : ols = []).
    { unfold desig_of in Edes. fold outn in Edes. fold ols in Edes. destruct ols as [|[l0|] t]; auto; try discriminate.
      destruct (l_drv (lst impl l0)); [|discriminate]. destruct (find_designated (S (nnext impl)) impl n); discriminate. }
    rewrite Eols in L2. simpl in L2. unfold nol, pad in L2. rewrite app_length in L2.
    destruct (outs_of c node); auto. simpl in L2. lia.
Qed.
